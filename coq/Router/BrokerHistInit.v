(** * Event history from the initial broker: the configured stores exist, start
    empty, and (with the threaded id supply) hold pairwise distinct
    publication ids. *)
From Nexus Require Import Router.Realm Router.AssocLemmas Router.BrokerWf Router.BrokerPres
     Router.BrokerPublish Router.BrokerSub Router.BrokerRun Router.BrokerHist Router.BrokerQuery.
From Coq Require Import Lia ZifyN ZifyBool ZifyNat.

(** ** What the pre-initialisation creates *)
Definition configured (cfgs : list hist_cfg) (b : broker) : Prop :=
  (forall c, In c cfgs -> exists id st,
      sub_sig b id (hc_topic c) (mkind_of (hc_match c)) /\ nget (b_hist b) id = Some st) /\
  (forall id st, nget (b_hist b) id = Some st ->
      hs_entries st = [] /\
      exists c, In c cfgs /\ hs_limit st = hc_limit c /\ sub_sig b id (hc_topic c) (mkind_of (hc_match c))).

Lemma preinit_configured_gen : forall cfgs d b,
    broker_wf b -> b_idgen b + N.of_nat (List.length cfgs) <= max_idN ->
    configured d b -> configured (d ++ cfgs) (preinit_history b cfgs).
Proof.
  unfold preinit_history.
  induction cfgs as [|c cfgs IH]; intros d b W Hlt Hc; cbn [fold_left List.length] in *.
  - now rewrite app_nil_r.
  - assert (Hlt1 : b_idgen b < max_idN) by lia.
    pose proof (preinit_step_wf b c W Hlt1) as Hs.
    destruct (init_subscription b (hc_topic c) (hc_match c) None) as [[b1 s] ex] eqn:Ei.
    destruct Hs as [W1 Hg1].
    replace (d ++ c :: cfgs) with ((d ++ [c]) ++ cfgs) by (now rewrite <- app_assoc).
    apply IH; auto.
    { autorewrite with bproj. lia. }
    destruct Hc as [Hc1 Hc2].
    assert (Hsig : (forall id t k, sub_sig b id t k -> sub_sig b1 id t k) /\
                   sub_sig b1 (sub_id s) (hc_topic c) (mkind_of (hc_match c)) /\ b_hist b1 = b_hist b).
    { destruct (init_subscription_spec _ _ _ _ _ _ _ (wf_core b W) Hlt1 Ei)
        as [(-> & -> & Es & Ht & Hk & Hm) | (-> & Hm & Hs & Wc1 & Hse & Hh & Hg & Hget & Hmap)].
      - split; auto. split; auto. exists s; auto.
      - split; [|split; auto].
        + intros id t k (s0 & E0 & R). exists s0. split; auto. rewrite Hget.
          destruct (N.eqb_spec id (b_idgen b + 1)) as [->|]; auto.
          rewrite fresh_id_absent in E0; [discriminate|apply W|lia].
        + subst s. cbn [sub_id]. eexists. rewrite Hget, N.eqb_refl. split; [reflexivity|]. split; reflexivity. }
    destruct Hsig as (Hkeep & Hnew & Hh).
    assert (Hsig' : forall id t k, sub_sig b1 id t k ->
              sub_sig (b_set_hist b1 (nset (b_hist b1) (sub_id s) (mkHStore (hc_limit c) []))) id t k)
      by (intros id t k H; exact H).
    split.
    + intros c' HI. apply in_app_iff in HI. autorewrite with bproj.
      destruct HI as [HI|[<-|[]]].
      * destruct (Hc1 c' HI) as (id & st & Hs & Eh). exists id. rewrite ngs, Hh.
        destruct (N.eqb id (sub_id s)); eexists; (split; [apply Hsig', Hkeep, Hs|]); eauto.
      * exists (sub_id s). rewrite ngs, N.eqb_refl. eexists; split; eauto.
    + intros id st. autorewrite with bproj. rewrite ngs, Hh.
      destruct (N.eqb_spec id (sub_id s)) as [->|].
      * intros E; inversion E; subst st. split; auto. exists c. split; [apply in_app_iff; right; now left|]. split; auto.
      * intros E. destruct (Hc2 id st E) as (He & c0 & HI & Hl & Hs). split; auto.
        exists c0. split; [apply in_app_iff; now left|]. split; [auto|]. exact (Hkeep _ _ _ Hs).
Qed.

Theorem preinit_configured : forall cfgs, N.of_nat (List.length cfgs) <= max_idN ->
    configured cfgs (broker_init cfgs).
Proof.
  intros cfgs H. unfold broker_init.
  apply (preinit_configured_gen cfgs [] empty_broker empty_wf); [cbn; lia|].
  split; [intros c []|intros id st E; discriminate].
Qed.

(** From the realm's initial broker, over every operation sequence: the store
    of every configured (topic, policy) holds the last <= limit matching,
    unrestricted publications, in order ([1 <= limit] is what
    PreInitEventHistoryTopics checks before creating the store). *)
Theorem store_is_last_N_init : forall cfg cfgs ops c,
    N.of_nat (List.length cfgs) + N.of_nat (List.length ops) <= max_idN ->
    Forall (fun c => 1 <= hc_limit c) cfgs -> In c cfgs ->
    exists id c' st,
      In c' cfgs /\ hc_topic c' = hc_topic c /\ mkind_of (hc_match c') = mkind_of (hc_match c) /\
      sub_sig (broker_init cfgs) id (hc_topic c) (mkind_of (hc_match c)) /\
      sub_sig (brun cfg (broker_init cfgs) ops) id (hc_topic c) (mkind_of (hc_match c)) /\
      nget (b_hist (brun cfg (broker_init cfgs) ops)) id = Some st /\
      hs_limit st = hc_limit c' /\
      hs_entries st = lastn (hc_limit c') (hist_ref cfg id (hc_topic c) (mkind_of (hc_match c)) ops).
Proof.
  intros cfg cfgs ops c Hb Hlim HI.
  assert (Hb0 : N.of_nat (List.length cfgs) <= max_idN) by lia.
  destruct (preinit_configured cfgs Hb0) as [Hc1 Hc2].
  destruct (Hc1 c HI) as (id & st & Hs & Eh).
  destruct (Hc2 id st Eh) as (He & c' & HI' & Hl & Hs').
  assert (W : broker_wf (broker_init cfgs)) by now apply preinit_wf.
  assert (Hsame : hc_topic c' = hc_topic c /\ mkind_of (hc_match c') = mkind_of (hc_match c)).
  { destruct Hs as (s1 & E1 & T1 & K1). destruct Hs' as (s2 & E2 & T2 & K2).
    rewrite E1 in E2; inversion E2; subst s2. split; congruence. }
  assert (Hg : b_idgen (broker_init cfgs) <= N.of_nat (List.length cfgs)).
  { unfold broker_init. destruct (preinit_wf_gen cfgs empty_broker empty_wf) as [_ Hg]; [cbn; lia|]. cbn in Hg. lia. }
  rewrite Forall_forall in Hlim.
  destruct (store_is_last_N cfg id (hc_topic c) (mkind_of (hc_match c)) ops _ st W) as (st' & E' & L' & En' & Hs''); auto.
  - lia.
  - rewrite Hl. now apply Hlim.
  - exists id, c', st'. rewrite L', En', Hl. destruct Hsame. repeat split; auto.
Qed.

(** ** The threaded id supply only moves forward *)
Lemma rs_sub_pg : forall sid b pg o id, pg <= snd (fst (remove_session_sub sid (b, pg, o) id)).
Proof.
  intros. unfold remove_session_sub. destruct (nget (b_subs b) id) as [s|]; cbn [fst snd]; [|lia].
  match goal with |- context [if ?d then _ else _] => destruct d end; cbn [fst snd]; lia.
Qed.

Lemma rs_fold_pg : forall sid ids b pg o, pg <= snd (fst (fold_left (remove_session_sub sid) ids (b, pg, o))).
Proof.
  intros sid ids; induction ids as [|id ids IH]; intros b pg o; cbn [fold_left fst snd]; [lia|].
  pose proof (rs_sub_pg sid b pg o id) as H1.
  destruct (remove_session_sub sid (b, pg, o) id) as [[b1 pg1] o1]. cbn [fst snd] in H1.
  specialize (IH b1 pg1 o1). lia.
Qed.

Lemma bstep_pg : forall cfg b o, bop_pg o <= snd (fst (bstep cfg b o)).
Proof.
  intros cfg b o. destruct o; cbn [bstep bop_pg].
  - unfold subscribe. destruct (negb (valid_uri (c_strict cfg) (opt_string opts "match") topic)); cbn [fst snd]; [lia|].
    destruct (init_subscription b topic (opt_string opts "match") (Some sid)) as [[b1 s] ex].
    destruct (ex && nmem sid (sub_subs s)); cbn [fst snd]; [lia|].
    destruct ex; cbn [fst snd]; lia.
  - unfold unsubscribe. destruct (nget (b_subs b) subid) as [s|]; cbn [fst snd]; [|lia].
    destruct (negb (nmem sid (sub_subs s))); cbn [fst snd]; [lia|].
    match goal with |- context [if ?d then del_subscription _ _ else _] => destruct d end; cbn [fst snd]; lia.
  - unfold broker_remove_session. destruct (nget (b_sess b) sid); cbn [fst snd]; [|lia]. apply rs_fold_pg.
  - unfold publish. destruct (negb (valid_uri (c_strict cfg) "" topic)); cbn [fst snd]; [lia|].
    destruct (publish_aborts cfg pub opts topic); cbn [fst snd]; [lia|].
    destruct (opt_bool opts "disclose_me" && negb (c_disclose cfg)); cbn [fst snd]; [lia|].
    destruct (fold_left _ (matching_subs b topic) (b, [])). cbn [fst snd]. lia.
Qed.

Lemma publish_pg_accepted : forall cfg lookup now b pg pub req opts topic args kw,
    pub_accepted cfg pub opts topic ->
    snd (fst (publish cfg lookup now b pg pub req opts topic args kw)) = pg + 1.
Proof. intros. rewrite publish_unfold by auto. reflexivity. Qed.

Lemma threaded_hist_ref : forall cfg id t k ops b pg, threaded cfg b pg ops ->
    (forall e, In e (hist_ref cfg id t k ops) -> pg < h_pub e) /\
    NoDup (map h_pub (hist_ref cfg id t k ops)).
Proof.
  intros cfg id t k ops; induction ops as [|o ops IH]; intros b pg H; cbn [hist_ref flat_map].
  - split; [intros e []|constructor].
  - destruct H as [Hpg Hth]. destruct (IH _ _ Hth) as [Hgt Hnd]. fold (hist_ref cfg id t k ops).
    pose proof (bstep_pg cfg b o) as Hmono. rewrite Hpg in Hmono.
    destruct o; cbn [hist_contrib app]; try (split; [intros e He; specialize (Hgt e He); lia|exact Hnd]).
    destruct (stored_b cfg pub t k opts topic) eqn:S; cbn [app]; [|split; [intros e He; specialize (Hgt e He); lia|exact Hnd]].
    cbn [bop_pg] in Hpg. subst pg0.
    assert (Hacc : pub_accepted cfg pub opts topic).
    { unfold stored_b in S. apply andb_prop in S. destruct S as [S _]. apply andb_prop in S. destruct S as [S _].
      now apply pub_accepted_b. }
    assert (Hnext : snd (fst (bstep cfg b (BPublish pg lookup now pub req opts topic args kw))) = pg + 1)
      by (cbn [bstep]; now apply publish_pg_accepted).
    rewrite Hnext in Hgt.
    split.
    + intros e [<-|He]; cbn [h_pub]; [lia|]. specialize (Hgt e He). lia.
    + cbn [map h_pub]. constructor; auto. intros HI. apply in_map_iff in HI. destruct HI as (e & E & He).
      specialize (Hgt e He). lia.
Qed.

Lemma NoDup_skipn : forall {A} n (l : list A), NoDup l -> NoDup (skipn n l).
Proof.
  intros A n; induction n as [|n IH]; intros [|a l] H; cbn; auto.
  inversion H; subst. now apply IH.
Qed.

(** with the threaded supply the stored publication ids are pairwise distinct … *)
Theorem store_pubs_unique : forall cfg id t k ops b pg st,
    broker_wf b -> b_idgen b + N.of_nat (List.length ops) <= max_idN ->
    sub_sig b id t k -> nget (b_hist b) id = Some st -> hs_entries st = [] -> 1 <= hs_limit st ->
    threaded cfg b pg ops ->
    exists st', nget (b_hist (brun cfg b ops)) id = Some st' /\ NoDup (map h_pub (hs_entries st')).
Proof.
  intros cfg id t k ops b pg st W Hlt Hs Eh He Hl Hth.
  destruct (store_is_last_N cfg id t k ops b st W Hlt Hs Eh He Hl) as (st' & E' & _ & En' & _).
  exists st'. split; auto. rewrite En'. unfold lastn. rewrite <- skipn_map. apply NoDup_skipn.
  eapply threaded_hist_ref; eauto.
Qed.

(** … so every stored id splits the store as the publication-bound queries require *)
Theorem unique_split_at : forall es e, NoDup (map h_pub es) -> In e es ->
    exists l1 l2, split_at (h_pub e) es l1 e l2.
Proof.
  intros es e ND HI. apply in_split in HI. destruct HI as (l1 & l2 & ->).
  exists l1, l2. split; auto. split; auto.
  rewrite map_app in ND. cbn [map] in ND. apply NoDup_remove_2 in ND.
  intros H. apply ND. apply in_app_iff. now left.
Qed.
