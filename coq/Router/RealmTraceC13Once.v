(** * Histories of the whole model, C13 part 7: at most one INTERRUPT with a
    reason per invocation.

    One CANCEL sends at most one INTERRUPT; one tick sends at most one
    INTERRUPT per invocation key ([fire_timers_cnt]); and between two steps the
    invariant [bi] forbids a second one.  Hence
    [interrupt_at_most_once_proof]: if two INTERRUPTs carrying a reason are
    sent to [y] with the same invocation id, a new CALL was routed to [y] under
    that id in between (which needs [y] to have left and joined again: ids are
    drawn afresh per session, Props/HistoriesC03.v). *)
From Nexus Require Import Router.Realm Router.AssocLemmas Router.RealmLib Router.RealmProofs
     Router.RealmMetaProofs Router.RealmLeave.
From Nexus Require Import Router.DealerLib Router.DealerProofs Router.DealerReg Router.DealerCall Router.DealerWf
     Router.DealerWfCalls Router.DealerWfRegs Router.DealerRemove Router.DealerReply Router.DealerTimers
     Router.DealerOwned Router.DealerTrace.
From Nexus Require Import Router.RealmWf Router.RealmStep Router.RealmC05 Router.RealmOutputs.
From Nexus Require Import Router.RealmTraceLib Router.RealmTrace Router.RealmTraceC05 Router.RealmTraceInv
     Router.RealmTraceC03.
From Nexus Require Import Router.RealmTraceC13 Router.RealmTraceC13Step Router.RealmTraceC13Nd Router.RealmTraceC13Inv
     Router.RealmTraceC13Thm Router.RealmTraceC13Fire.
From Coq Require Import Lia ZifyN ZifyNat ZifyBool.

(** the INTERRUPTs for one invocation key in an output *)
Definition intr_for (k : callid) (m : out) : bool :=
  match m with (y, RInterrupt i _) => pair_eqb (y, i) k | _ => false end.
Definition cnt (k : callid) (o : list out) : nat := List.length (filter (intr_for k) o).

Lemma cnt_app : forall k a b, cnt k (a ++ b) = (cnt k a + cnt k b)%nat.
Proof. intros. unfold cnt. rewrite filter_app, app_length. reflexivity. Qed.

Lemma cnt_two : forall k o o1 m1 o2 m2 o3,
    o = o1 ++ m1 :: o2 ++ m2 :: o3 -> intr_for k m1 = true -> intr_for k m2 = true -> (2 <= cnt k o)%nat.
Proof.
  intros k o o1 m1 o2 m2 o3 -> H1 H2. rewrite cnt_app. change (m1 :: o2 ++ m2 :: o3) with ([m1] ++ o2 ++ [m2] ++ o3).
  rewrite !cnt_app. unfold cnt at 2 4. cbn [filter]. rewrite H1, H2. cbn [List.length]. lia.
Qed.

Lemma cnt_interrupt_msg : forall d k k0 inv0 reason mode, calls_core d -> cget (d_invs d) k0 = Some inv0 ->
    cnt k [interrupt_msg k0 inv0 reason mode] = if pair_eqb k0 k then 1%nat else 0%nat.
Proof.
  intros d k k0 inv0 reason mode W Hi. destruct (cw_inv _ W _ _ Hi) as (_ & Hce).
  unfold cnt, interrupt_msg. cbn [filter intr_for]. rewrite Hce, <- surjective_pairing.
  destruct (pair_eqb k0 k); reflexivity.
Qed.

(** ** One CANCEL *)
Lemma sync_cancel_cnt : forall lk d caller req mode reason ea k, calls_core d ->
    (cnt k (snd (sync_cancel lk d caller req mode reason ea)) <= 1)%nat.
Proof.
  intros lk d caller req mode reason ea k W.
  destruct (sync_cancel_cases lk d caller req mode reason ea) as [E|(k0 & inv & x & Hp & Hc)]; [rewrite E; cbn; lia|].
  rewrite (sync_cancel_live _ _ _ _ _ _ _ _ _ _ Hp Hc). pose proof Hp as (_ & _ & Hi).
  pose proof (cnt_interrupt_msg d k k0 inv reason mode W Hi) as Ci.
  destruct (negb _ && _ && _); cbn [snd]; [rewrite Ci; destruct (pair_eqb k0 k); lia|].
  rewrite cnt_app. assert (E0 : cnt k [(caller, RError c_CALL req [] reason ea [])] = 0%nat) by reflexivity.
  rewrite E0. destruct (negb _ && _); [rewrite Ci; destruct (pair_eqb k0 k); lia|cbn; lia].
Qed.

Lemma cancel_cnt : forall lk d caller req opts k, calls_core d -> (cnt k (snd (cancel lk d caller req opts)) <= 1)%nat.
Proof.
  intros. unfold cancel. destruct (_ || _ || _); [now apply sync_cancel_cnt|].
  destruct (String.eqb _ ""); [now apply sync_cancel_cnt|]. cbn. lia.
Qed.

(** ** One tick *)
Lemma fire_fold_cnt : forall lk (l : list (N * (N * callid))) d o k, calls_core d ->
    (cnt k (snd (fold_left (fire_step lk) l (d, o))) <=
     cnt k o + (if cget (d_invs d) k then 1 else 0))%nat.
Proof.
  intros lk. induction l as [|[t_h [dl_h cid_h]] l IH]; intros d o k W; cbn [fold_left]; [cbn [snd]; lia|].
  destruct (fire_step_mono lk d o (t_h, (dl_h, cid_h)) W) as (W1 & S1 & _ & _).
  destruct (fire_step_cases lk d o t_h dl_h cid_h) as [[_ E]|[(_ & E & _)|(_ & k_h & inv_h & x_h & Hp_h & Hc_h & E)]];
    rewrite E in *; cbn [fst snd] in *.
  - now apply IH.
  - specialize (IH (cancel_timer d (Some t_h)) o k W1). rewrite ct_invs in IH. exact IH.
  - set (D := drop_call (cancel_state (cancel_timer d (Some t_h)) k_h inv_h) cid_h k_h) in *.
    set (o1 := o ++ (if callee_can_cancel lk inv_h then [interrupt_msg k_h inv_h e_timeout "killnowait"] else [])
                 ++ [timeout_msg cid_h]) in *.
    specialize (IH D o1 k W1). apply pending_ct_fwd in Hp_h. pose proof Hp_h as (_ & _ & Hi_h).
    pose proof (cnt_interrupt_msg d k k_h inv_h e_timeout "killnowait" W Hi_h) as Ci.
    assert (Eo1 : (cnt k o1 <= cnt k o + (if pair_eqb k_h k then 1 else 0))%nat).
    { unfold o1. rewrite !cnt_app. assert (E0 : cnt k [timeout_msg cid_h] = 0%nat) by reflexivity. rewrite E0.
      destruct (callee_can_cancel lk inv_h); [rewrite Ci; lia|cbn; destruct (pair_eqb k_h k); lia]. }
    destruct (pair_eqb_spec k_h k) as [->|Hn].
    + assert (Eg : cget (d_invs D) k = None) by (unfold D; rewrite dc_invs; apply cget_cdel_same).
      rewrite Eg in IH. rewrite Hi_h. lia.
    + destruct (cget (d_invs D) k) as [v|] eqn:Ev; [|lia].
      rewrite (sh_invs _ _ S1 _ _ Ev). lia.
Qed.

Lemma fire_timers_cnt : forall lk now d k, calls_core d -> (cnt k (snd (fire_timers lk now d)) <= 1)%nat.
Proof.
  intros lk now d k W. rewrite fire_timers_fold.
  pose proof (fire_fold_cnt lk (sort_timers (filter (fun '((_, (dl, _)) : N * (N * callid)) => dl <=? now) (d_timers d))) d [] k W) as H.
  change (cnt k []) with 0%nat in H. destruct (cget (d_invs d) k); lia.
Qed.

(** ** One step that is a CANCEL or a tick *)
Lemma step_cnt : forall r o key, realm_wf r -> gate_transparent r o ->
    ((exists ms, o = OTick ms) \/ (exists x q copts orc, o = OMsg x (CCancel q copts) orc)) ->
    (cnt key (snd (step r o)) <= 1)%nat.
Proof.
  intros r o key W G [(ms & ->)|(x & q & copts & orc & ->)].
  - cbn [step]. set (r1 := r_set_now r (r_now r + ms)).
    pose proof (fire_timers_cnt (lookup r1) (r_now r1) (r_dealer r1) key (wf_calls _ _ (rw_dealer r W))) as H.
    destruct (fire_timers _ _ _) as [d out]. exact H.
  - rewrite step_msg_eq. destruct (find_session (r_clients r) x) as [s|] eqn:F; [|cbn; lia].
    rewrite (G x _ orc s eq_refl F). cbn [handle].
    pose proof (cancel_cnt (lookup r) (r_dealer r) (s_id s) q copts key (wf_calls _ _ (rw_dealer r W))) as H.
    destruct (cancel _ _ _ _ _) as [d out]. exact H.
Qed.

(** ** Over a history *)
Theorem interrupt_at_most_once_proof : forall cfg ops y i pre e1 mid e2 post,
    Forall op_ok ops -> k0 cfg + N.of_nat (List.length ops) <= max_idN ->
    along gate_transparent (init_realm cfg) ops ->
    trace cfg ops = pre ++ e1 :: mid ++ e2 :: post ->
    rintr_ev y i e1 -> rintr_ev y i e2 ->
    exists m1 x q opts proc a kw orc rid det m2,
      mid = m1 ++ EIn (OMsg x (CCall q opts proc a kw) orc) :: EOut (y, RInvocation i rid det a kw) :: m2.
Proof.
  intros cfg ops y i pre e1 mid e2 post Ho Hk Hg E (re1 & mo1 & E1) (re2 & mo2 & E2).
  assert (E' : trace cfg ops = (pre ++ e1 :: mid) ++ EOut (y, RInterrupt i [("reason", vuri re2); ("mode", vstr mo2)]) :: post)
    by (rewrite E, E2, <- app_assoc; reflexivity).
  destruct (interrupt_only_for_pending_proof cfg ops y i _ _ _ Ho Hk Hg E') as [(X & _)|P]; [discriminate X|].
  destruct P as (reason & mode & _ & ops1 & o & ops2 & outs & outs2 & Eops & Epre & Eout & _ &
                 pre0 & x & q & opts & proc & a & kw & orc & rid & det & rest & Etr & _ & _ & _ & Pn & Ptrig).
  rewrite Etr in Epre.
  (* where is [e1]? *)
  replace ((pre0 ++ EIn (OMsg x (CCall q opts proc a kw) orc) :: EOut (y, RInvocation i rid det a kw) :: rest) ++ EIn o :: map EOut outs)
    with (pre0 ++ EIn (OMsg x (CCall q opts proc a kw) orc) :: EOut (y, RInvocation i rid det a kw) :: rest ++ EIn o :: map EOut outs)
    in Epre by (rewrite <- app_assoc; reflexivity).
  destruct (two_splits _ _ _ _ _ _ Epre) as [(_ & X & _)|[(l & Ea & Eb)|(l & Ea & Eb)]].
  - rewrite E1 in X. discriminate X.
  - (* [e1] lies before the CALL: the CALL and its INVOCATION are in [mid] *)
    destruct l as [|z l]; cbn [app] in Eb.
    + exists [], x, q, opts, proc, a, kw, orc, rid, det, (rest ++ EIn o :: map EOut outs).
      rewrite Eb. reflexivity.
    + exists (z :: l), x, q, opts, proc, a, kw, orc, rid, det, (rest ++ EIn o :: map EOut outs).
      rewrite Eb. cbn [app]. reflexivity.
  - exfalso. (* [e1] lies after the CALL *)
    destruct l as [|z l]; cbn [app] in Eb.
    { inversion Eb as [[X1 X2]]. rewrite E1 in X1. discriminate X1. }
    inversion Eb as [[X1 X2]].
    (* rest ++ EIn o :: map EOut outs = l ++ e1 :: mid *)
    destruct (two_splits _ _ _ _ _ _ X2) as [(_ & X & _)|[(l2 & Ea2 & Eb2)|(l2 & Ea2 & Eb2)]].
    + rewrite E1 in X. discriminate X.
    + (* [e1] in the output of the same step: two INTERRUPTs for one key in one step *)
      destruct (map_EOut_split outs l2 (y, RInterrupt i [("reason", vuri re1); ("mode", vstr mo1)]) mid) as (u1 & u2 & Eu & _ & _).
      { rewrite Eb2, E1. reflexivity. }
      rewrite Eops in Ho, Hk, Hg.
      destruct (at_position cfg ops1 o ops2 Ho Hk Hg) as (W1 & _ & _ & _). cbv zeta in W1.
      apply RealmTraceC03.along_app in Hg. destruct Hg as [_ Hg2]. cbn [along] in Hg2. destruct Hg2 as [Hg2 _].
      assert (Hkind : (exists ms, o = OTick ms) \/ (exists x' q' copts orc', o = OMsg x' (CCancel q' copts) orc')).
      { destruct Ptrig as [(_ & _ & copts & orc' & Eo & _)|(_ & _ & ms & dl & Eo & _)]; [right; eauto|left; eauto]. }
      pose proof (step_cnt _ o (y, i) W1 Hg2 Hkind) as Hle.
      assert (H2 : (2 <= cnt (y, i) (snd (step (fst (run (init_realm cfg) ops1)) o)))%nat).
      { eapply (cnt_two (y, i) _ u1 _ u2 _ outs2).
        - rewrite Eout, Eu, <- app_assoc. reflexivity.
        - cbn [intr_for]. apply pair_eqb_refl.
        - cbn [intr_for]. apply pair_eqb_refl. }
      lia.
    + (* [e1] in [rest]: excluded by the invariant *)
      apply (Pn e1); [rewrite Ea2; apply in_or_app; right; now left|]. exists re1, mo1. exact E1.
Qed.
