(** * Dealer proofs, part 6: [dealer_wf] holds initially and is preserved by
    every dealer function. *)
From Nexus Require Import Router.Dealer Router.DealerLib Router.DealerProofs Router.DealerReg
     Router.DealerCall Router.DealerWfCalls Router.DealerWfRegs.
From Coq Require Import Lia ZifyN ZifyNat ZifyBool.

(** ** Session table changes *)
Definition lookup_le (lookup lookup' : N -> option session) : Prop :=
  forall x s, lookup x = Some s -> exists s', lookup' x = Some s' /\ s_invgen s <= s_invgen s'.

Lemma lookup_le_refl : forall l, lookup_le l l.
Proof. intros l x s H. exists s. split; [exact H | lia]. Qed.

Lemma attached_le : forall l l' x, lookup_le l l' -> attached l x -> attached l' x.
Proof.
  intros l l' x H A. unfold attached in *. destruct (l x) as [s|] eqn:E; [|congruence].
  destruct (H _ _ E) as (s' & E' & _). congruence.
Qed.

Lemma regs_att_le : forall l l' d, lookup_le l l' -> regs_att l d -> regs_att l' d.
Proof. intros l l' d H A id r c Hr Hin. eapply attached_le; eauto. Qed.

Lemma calls_att_le : forall l l' d, lookup_le l l' -> calls_att l d -> calls_att l' d.
Proof.
  intros l l' d H [A B]. constructor.
  - intros ikey inv Hi. destruct (A _ _ Hi) as (s & Hs & Hle). destruct (H _ _ Hs) as (s' & Hs' & Hle').
    exists s'. split; [exact Hs' | lia].
  - intros cid x Hc. eapply attached_le; eauto.
Qed.

Theorem dealer_wf_lookup_le : forall l l' d, lookup_le l l' -> dealer_wf l d -> dealer_wf l' d.
Proof.
  intros l l' d H [A B C D E]. constructor; auto.
  - eapply regs_att_le; eauto.
  - eapply calls_att_le; eauto.
Qed.

(** assembling [dealer_wf] from one state's registration side and another's call side *)
Lemma dealer_wf_regs_same : forall lookup d d',
    regs_side_eq d d' -> dealer_wf lookup d -> calls_core d' -> calls_att lookup d' -> dealer_wf lookup d'.
Proof.
  intros lookup d d' S [A B C D E] W' A'. pose proof S as (_ & _ & _ & E4 & E5 & _).
  constructor; auto.
  - eapply regs_core_ext; eauto.
  - intros s. eapply cr_ok_ext; eauto.
  - eapply regs_att_ext; eauto.
Qed.

Lemma dealer_wf_calls_same : forall lookup d d',
    calls_side_eq d d' -> dealer_wf lookup d ->
    regs_core d' -> (forall s, cr_ok d' s) -> regs_att lookup d' -> dealer_wf lookup d'.
Proof.
  intros lookup d d' S [A B C D E] W' CR' AT'. pose proof S as (E1 & E2 & _).
  constructor; auto.
  - eapply calls_core_ext; eauto.
  - eapply calls_att_ext; eauto.
Qed.

(** ** The initial dealer *)
Lemma empty_dealer_wf : forall lookup, dealer_wf lookup empty_dealer.
Proof.
  intros lookup. constructor.
  - constructor.
    + intros [] p id; discriminate.
    + intros id r; discriminate.
    + intros id r; discriminate.
    + intros []; constructor.
    + constructor.
    + constructor.
  - intros sid id. cbn. split; [tauto|]. intros (r & H & _). discriminate.
  - intros id r c H. discriminate.
  - constructor; cbn; try discriminate. constructor.
  - constructor; cbn; discriminate.
Qed.

(** ** REGISTER, UNREGISTER *)
Theorem register_wf : forall cfg lookup d callee req opts proc,
    dealer_wf lookup d -> attached lookup (s_id callee) -> d_idgen d < max_idN ->
    dealer_wf lookup (fst (fst (register cfg d callee req opts proc))).
Proof.
  intros cfg lookup d callee req opts proc WF Ha Hn. pose proof WF as [A B C D E].
  destruct (register_regs_wf cfg lookup d callee req opts proc A B C Ha Hn) as (A' & B' & C').
  destruct (register_calls_same cfg d callee req opts proc) as (E1 & E2 & E3 & E4 & E5).
  eapply dealer_wf_calls_same; eauto. repeat split; assumption.
Qed.

Lemma register_idgen : forall cfg d callee req opts proc,
    d_idgen d < max_idN ->
    d_idgen (fst (fst (register cfg d callee req opts proc))) <= d_idgen d + 1.
Proof.
  intros cfg d callee req opts proc Hn.
  destruct (register_cases cfg d callee req opts proc) as [E|[(r & Hl & Hok & E)|(Hl & E)]]; rewrite E.
  - lia.
  - cbn. lia.
  - rewrite ns_idgen. cbn [new_reg reg_id]. rewrite idgen_next_nowrap by assumption. lia.
Qed.

Theorem unregister_wf : forall lookup d sid req regid,
    dealer_wf lookup d -> dealer_wf lookup (fst (fst (unregister d sid req regid))).
Proof.
  intros lookup d sid req regid WF. pose proof WF as [A B C D E].
  destruct (unregister_regs_wf lookup d sid req regid A B C) as (A' & B' & C' & E1 & E2 & E3 & E4 & E5).
  eapply dealer_wf_calls_same; eauto. repeat split; assumption.
Qed.

(** ** CANCEL, YIELD, ERROR, timers: only the call side changes *)
Lemma sync_cancel_regs_same : forall lookup d caller req mode reason ea,
    regs_side_eq d (fst (sync_cancel lookup d caller req mode reason ea)).
Proof.
  intros. destruct (sync_cancel_cases lookup d caller req mode reason ea) as [E|(ikey & inv & x & Hp & Hc)].
  - rewrite E. repeat split; reflexivity.
  - rewrite (sync_cancel_live _ _ _ _ _ _ _ _ _ _ Hp Hc).
    destruct (_ && _ && _); cbn [fst]; unfold regs_side_eq, cancel_state, drop_call; dproj;
      rewrite ?ct_exact, ?ct_pfx, ?ct_wc, ?ct_regs, ?ct_callee_regs, ?ct_idgen; repeat split; reflexivity.
Qed.

Theorem sync_cancel_wf : forall lookup lk d caller req mode reason ea,
    dealer_wf lookup d -> dealer_wf lookup (fst (sync_cancel lk d caller req mode reason ea)).
Proof.
  intros lookup lk d caller req mode reason ea WF. pose proof WF as [A B C D E].
  destruct (sync_cancel_core lk d caller req mode reason ea D) as [D' S].
  eapply dealer_wf_regs_same; [apply sync_cancel_regs_same | exact WF | exact D' |].
  eapply calls_att_sub; eauto.
Qed.

Theorem cancel_wf : forall lookup lk d caller req opts,
    dealer_wf lookup d -> dealer_wf lookup (fst (cancel lk d caller req opts)).
Proof.
  intros lookup lk d caller req opts WF. unfold cancel.
  destruct (_ || _ || _); [apply sync_cancel_wf; exact WF|].
  destruct (String.eqb _ ""); [apply sync_cancel_wf; exact WF | exact WF].
Qed.

Theorem sync_yield_wf : forall lookup lk d callee req opts args kw,
    dealer_wf lookup d -> dealer_wf lookup (fst (sync_yield lk d callee req opts args kw)).
Proof.
  intros lookup lk d callee req opts args kw WF. pose proof WF as [A B C D E].
  destruct (sync_yield_core lk d callee req opts args kw D) as [D' S].
  eapply dealer_wf_regs_same; [| exact WF | exact D' | eapply calls_att_sub; eauto].
  destruct (cget (d_invs d) (callee, req)) as [inv|] eqn:Hi.
  - rewrite (sync_yield_owner _ _ _ _ _ _ _ _ Hi). cbn [fst]. unfold yield_result_state.
    destruct (opt_bool opts "progress"); [repeat split; reflexivity|].
    unfold regs_side_eq, yield_state, drop_call; dproj;
      rewrite ?ct_exact, ?ct_pfx, ?ct_wc, ?ct_regs, ?ct_callee_regs, ?ct_idgen; repeat split; reflexivity.
  - rewrite sync_yield_unknown by assumption. repeat split; reflexivity.
Qed.

Theorem sync_error_wf : forall lookup d callee req det err args kw,
    dealer_wf lookup d -> dealer_wf lookup (fst (sync_error d callee req det err args kw)).
Proof.
  intros lookup d callee req det err args kw WF. pose proof WF as [A B C D E].
  destruct (sync_error_core d callee req det err args kw D) as [D' S].
  eapply dealer_wf_regs_same; [| exact WF | exact D' | eapply calls_att_sub; eauto].
  destruct (cget (d_invs d) (callee, req)) as [inv|] eqn:Hi.
  - rewrite (sync_error_owner _ _ _ _ _ _ _ _ Hi).
    destruct (cget (d_calls d) (inv_call inv)); cbn [fst]; unfold regs_side_eq, error_state; dproj;
      rewrite ?ct_exact, ?ct_pfx, ?ct_wc, ?ct_regs, ?ct_callee_regs, ?ct_idgen; repeat split; reflexivity.
  - rewrite sync_error_unknown by assumption. repeat split; reflexivity.
Qed.

Lemma regs_side_eq_refl : forall d, regs_side_eq d d.
Proof. intros; repeat split; reflexivity. Qed.
Lemma regs_side_eq_trans : forall a b c, regs_side_eq a b -> regs_side_eq b c -> regs_side_eq a c.
Proof.
  intros a b c (A1 & A2 & A3 & A4 & A5 & A6) (B1 & B2 & B3 & B4 & B5 & B6).
  repeat split; congruence.
Qed.

Lemma fire_step_regs_same : forall lookup d o e, regs_side_eq d (fst (fire_step lookup (d, o) e)).
Proof.
  intros lookup d o [tid [dl cid]]. unfold fire_step.
  destruct (amem N.eqb (d_timers d) tid); [|apply regs_side_eq_refl].
  pose proof (sync_cancel_regs_same lookup (d_set_timers d (ndel (d_timers d) tid) (d_timergen d))
                (fst cid) (snd cid) "killnowait" e_timeout [vstr "call timeout"]) as H.
  destruct (sync_cancel _ _ _ _ _ _ _) as [d2 o2]. cbn [fst] in *.
  eapply regs_side_eq_trans; [|exact H]. repeat split; reflexivity.
Qed.

Theorem fire_timers_wf : forall lookup lk now d,
    dealer_wf lookup d -> dealer_wf lookup (fst (fire_timers lk now d)).
Proof.
  intros lookup lk now d WF. pose proof WF as [A B C D E].
  destruct (fire_timers_core lk now d D) as [D' S].
  eapply dealer_wf_regs_same; [| exact WF | exact D' | eapply calls_att_sub; eauto].
  rewrite fire_timers_fold.
  generalize (sort_timers (filter (fun '((_, (dl, _)) : N * (N * callid)) => dl <=? now) (d_timers d))) as l.
  intros l.
  assert (G : forall l d0 o, regs_side_eq d0 (fst (fold_left (fire_step lk) l (d0, o)))).
  { clear. induction l as [|e l IH]; intros d0 o; cbn [fold_left]; [apply regs_side_eq_refl|].
    pose proof (fire_step_regs_same lk d0 o e) as H1.
    destruct (fire_step lk (d0, o) e) as [d1 o1]. cbn [fst] in H1.
    eapply regs_side_eq_trans; [exact H1 | apply IH]. }
  apply G.
Qed.

(** ** CALL *)
Ltac keq' :=
  repeat match goal with
  | H : context [pair_eqb ?a ?b] |- _ => destruct (pair_eqb_spec a b)
  | |- context [pair_eqb ?a ?b] => destruct (pair_eqb_spec a b)
  | H : context [N.eqb ?a ?b] |- _ => destruct (N.eqb_spec a b)
  | |- context [N.eqb ?a ?b] => destruct (N.eqb_spec a b)
  end.

Lemma core_first : forall now d cid opts r callee_id next callee,
    calls_core d -> cget (d_bycall d) cid = None ->
    cget (d_invs d) (callee_id, idgen_next (s_invgen callee)) = None ->
    calls_core (call_first_state now d cid opts r callee_id next callee).
Proof.
  intros now d cid opts r callee_id next callee [A B C D E F G K] Hb Hi.
  remember (callee_id, idgen_next (s_invgen callee)) as ikey eqn:Eik.
  remember (first_inv d cid callee_id callee r opts) as fi eqn:Efi.
  assert (Hfc : inv_call fi = cid) by (rewrite Efi; reflexivity).
  assert (Hfe : inv_callee fi = fst ikey) by (rewrite Efi, Eik; reflexivity).
  assert (Hft : inv_timer fi = if local_timer (opt_int64 opts "timeout") callee callee_id r then Some (d_timergen d + 1) else None)
    by (rewrite Efi; reflexivity).
  assert (Hnc : cget (d_calls d) cid = None).
  { destruct (cget (d_calls d) cid) eqn:Ec; [|reflexivity]. destruct (C _ _ Ec) as (_ & Hn). congruence. }
  constructor; rewrite ?cfs_calls, ?cfs_invs, ?cfs_bycall, ?cfs_timers, ?cfs_timergen, <- ?Eik, <- ?Efi.
  - intros c k. rewrite cget_cset. destruct (pair_eqb_spec c cid) as [->|Hc]; intros H.
    + inversion H; subst k. exists fi. rewrite cget_cset_same. auto.
    + destruct (A _ _ H) as (i0 & Hi0 & Hc0). exists i0. split; [|exact Hc0].
      rewrite cget_cset_other; [exact Hi0|]. intros ->. congruence.
  - intros k i0. rewrite cget_cset. destruct (pair_eqb_spec k ikey) as [->|Hk]; intros H.
    + inversion H; subst i0. rewrite Hfc, cget_cset_same. auto.
    + destruct (B _ _ H) as (B1 & B2). split; [|exact B2].
      rewrite cget_cset_other; [exact B1|]. intros Ec. rewrite Ec in B1. congruence.
  - intros c x. rewrite !cget_cset. destruct (pair_eqb_spec c cid) as [->|Hc]; intros H.
    + inversion H. split; [reflexivity | discriminate].
    + eauto.
  - intros c k. rewrite !cget_cset. destruct (pair_eqb_spec c cid) as [->|Hc]; intros H; [discriminate | eauto].
  - intros t dl c. destruct (local_timer (opt_int64 opts "timeout") callee callee_id r) eqn:Hlt.
    + rewrite nget_nset. destruct (N.eqb_spec t (d_timergen d + 1)) as [->|Hne].
      * intros H; inversion H; subst dl c. split; [lia|]. exists ikey, fi.
        rewrite !cget_cset, !pair_eqb_refl. rewrite Hft. auto.
      * intros H. destruct (E _ _ _ H) as (Hle & k & i0 & Hb0 & Hi0 & Ht). split; [lia|].
        exists k, i0. rewrite !cget_cset. keq'; try congruence. auto.
    + intros H. destruct (E _ _ _ H) as (Hle & k & i0 & Hb0 & Hi0 & Ht). split; [lia|].
      exists k, i0. rewrite !cget_cset. keq'; try congruence. auto.
  - intros k i0 t. rewrite cget_cset. keq'.
    + intros H; inversion H; subst i0. rewrite Hft.
      destruct (local_timer _ _ _); [intros H1; inversion H1; lia | discriminate].
    + intros H Ht. pose proof (F _ _ _ H Ht). destruct (local_timer _ _ _); lia.
  - intros k i0 t dl c. rewrite cget_cset. keq'.
    + intros H; inversion H; subst i0. rewrite Hft.
      destruct (local_timer _ _ _); [|discriminate]. intros H1; inversion H1; subst t.
      rewrite nget_nset, N.eqb_refl. intros H2; inversion H2. congruence.
    + intros H Ht. pose proof (F _ _ _ H Ht) as Hle.
      destruct (local_timer _ _ _); [|eauto]. rewrite nget_nset. keq'; [lia | eauto].
  - destruct (local_timer _ _ _); [apply NoDup_keys_aset; auto using N.eqb_spec | exact K].
Qed.

Lemma core_chunk : forall now d cid ikey inv callee r p,
    calls_core d -> cget (d_bycall d) cid = Some ikey -> cget (d_invs d) ikey = Some inv ->
    calls_core (chunk_state now d cid ikey inv callee r p) /\
    calls_sub d (chunk_state now d cid ikey inv callee r p).
Proof.
  intros now d cid ikey inv callee r p W Hb Hi.
  assert (Hcid : inv_call inv = cid).
  { destruct (cw_bycall _ W _ _ Hb) as (i0 & Hi0 & Hc). congruence. }
  split.
  2:{ constructor; rewrite ?chs_calls, ?chs_invs; [auto|]. intros k v. rewrite cget_cset.
      destruct (pair_eqb_spec k ikey); congruence. }
  destruct (local_timer (opt_int64 (inv_opts inv) "timeout") callee (inv_callee inv) r) eqn:Hlt.
  2:{ unfold chunk_state. rewrite Hlt. eapply core_set_inv; eauto. }
  pose proof (chs_calls now d cid ikey inv callee r p) as E1.
  pose proof (chs_bycall now d cid ikey inv callee r p) as E2.
  pose proof (chs_invs now d cid ikey inv callee r p) as E3.
  pose proof (chs_timers now d cid ikey inv callee r p) as E4.
  pose proof (chs_timergen now d cid ikey inv callee r p) as E5.
  rewrite Hlt in E3, E4, E5.
  remember (chunk_state now d cid ikey inv callee r p) as S eqn:ES.
  remember (inv_set_timer (inv_set_inprogress inv p) (Some (d_timergen d + 1))) as inv2 eqn:Einv2.
  assert (H2c : inv_call inv2 = inv_call inv) by (rewrite Einv2; reflexivity).
  assert (H2e : inv_callee inv2 = inv_callee inv) by (rewrite Einv2; reflexivity).
  assert (H2t : inv_timer inv2 = Some (d_timergen d + 1)) by (rewrite Einv2; reflexivity).
  assert (Hold : forall t v, t <> d_timergen d + 1 ->
             nget (d_timers S) t = Some v -> nget (d_timers d) t = Some v /\ inv_timer inv <> Some t).
  { intros t v Hne. rewrite E4, nget_nset. destruct (N.eqb_spec t (d_timergen d + 1)); [congruence|].
    rewrite ct_timers. destruct (inv_timer inv) as [t0|]; [|intros H; split; [exact H | discriminate]].
    destruct (N.eqb_spec t t0); [discriminate|]. intros H; split; [exact H | congruence]. }
  destruct W as [A B C D E F G K].
  constructor; rewrite ?E1, ?E2, ?E3, ?E5.
  - intros c k H. destruct (A _ _ H) as (i0 & Hi0 & Hc). rewrite cget_cset.
    destruct (pair_eqb_spec k ikey) as [->|Hk].
    + exists inv2. split; [reflexivity|]. assert (i0 = inv) by congruence. subst i0. congruence.
    + eauto.
  - intros k i0. rewrite cget_cset. destruct (pair_eqb_spec k ikey) as [->|Hk].
    + intros H; inversion H; subst i0. rewrite H2c, H2e. apply B. exact Hi.
    + apply B.
  - exact C.
  - exact D.
  - intros t dl c. destruct (N.eq_dec t (d_timergen d + 1)) as [->|Hne].
    + rewrite E4, nget_nset, N.eqb_refl. intros H; inversion H; subst dl c. split; [lia|].
      exists ikey, inv2. rewrite cget_cset, pair_eqb_refl. auto.
    + intros H. destruct (Hold _ _ Hne H) as (H0 & Hnt).
      destruct (E _ _ _ H0) as (Hle & k & i0 & Hb0 & Hi0 & Ht). split; [lia|].
      exists k, i0. rewrite cget_cset. destruct (pair_eqb_spec k ikey) as [->|Hk]; [|auto].
      exfalso. assert (i0 = inv) by congruence. subst i0. congruence.
  - intros k i0 t. rewrite cget_cset. destruct (pair_eqb_spec k ikey) as [->|Hk].
    + intros H; inversion H; subst i0. rewrite H2t. intros H1; inversion H1. lia.
    + intros H Ht. pose proof (F _ _ _ H Ht). lia.
  - intros k i0 t dl c. rewrite cget_cset. destruct (pair_eqb_spec k ikey) as [->|Hk].
    + intros H; inversion H; subst i0. rewrite H2t. intros H1; inversion H1; subst t.
      rewrite E4, nget_nset, N.eqb_refl. intros H3; inversion H3. congruence.
    + intros H Ht Htm. pose proof (F _ _ _ H Ht) as Hle.
      assert (Hne : t <> d_timergen d + 1) by lia.
      destruct (Hold _ _ Hne Htm) as (H0 & _). eauto.
  - rewrite E4. apply NoDup_keys_aset; auto using N.eqb_spec.
    destruct (inv_timer inv); [cbn [cancel_timer]; dproj; apply NoDup_keys_adel; auto using N.eqb_spec | exact K].
Qed.

Lemma call_d0_side : forall d r next, calls_side_eq d (call_d0 d r next).
Proof. intros; repeat split; reflexivity. Qed.

Lemma cfs_regs_side : forall now d cid opts r callee_id next callee,
    regs_side_eq (call_d0 d r next) (call_first_state now d cid opts r callee_id next callee).
Proof.
  intros. unfold regs_side_eq.
  pose proof (cfs_map now d cid opts r callee_id next callee) as M.
  rewrite (M MExact), (M MPrefix), (M MWildcard) || idtac.
  pose proof (M MExact) as M1. pose proof (M MPrefix) as M2. pose proof (M MWildcard) as M3.
  cbn [d_map] in M1, M2, M3.
  rewrite M1, M2, M3, cfs_regs, cfs_callee_regs, cfs_idgen. repeat split; reflexivity.
Qed.

Lemma chs_regs_side : forall now d cid ikey inv callee r p,
    regs_side_eq d (chunk_state now d cid ikey inv callee r p).
Proof.
  intros. unfold regs_side_eq.
  pose proof (chs_map now d cid ikey inv callee r p) as M.
  pose proof (M MExact) as M1. pose proof (M MPrefix) as M2. pose proof (M MWildcard) as M3.
  cbn [d_map] in M1, M2, M3.
  rewrite M1, M2, M3, chs_regs, chs_callee_regs, chs_idgen. repeat split; reflexivity.
Qed.

(** a CALL answered no_such_procedure: a pending call with that id is dropped *)
Lemma nps_wf : forall lookup d cid, dealer_wf lookup d -> dealer_wf lookup (no_proc_state d cid).
Proof.
  intros lookup d cid WF. destruct (cget (d_bycall d) cid) as [k|] eqn:Hb.
  2:{ rewrite nps_none by exact Hb. exact WF. }
  pose proof (wf_calls _ _ WF) as W.
  destruct (cw_bycall _ W _ _ Hb) as (inv & Hi & _).
  rewrite (nps_some d cid k inv Hb Hi).
  eapply dealer_wf_regs_same; [| exact WF | |].
  - unfold regs_side_eq, drop_call. dproj.
    rewrite ?ct_exact, ?ct_pfx, ?ct_wc, ?ct_regs, ?ct_callee_regs, ?ct_idgen. repeat split; reflexivity.
  - apply core_drop; [apply core_cancel_timer; exact W | rewrite ct_bycall; exact Hb |].
    eapply no_timer_after_cancel; eauto.
  - eapply calls_att_sub; [|apply (wf_calls_att _ _ WF)].
    eapply calls_sub_trans; [apply (sub_cancel_timer d (inv_timer inv)) | apply sub_drop].
Qed.

(** What [call] needs from the session table: ids match, generators not at
    the wrap-around point. *)
Definition nowrap (lookup : N -> option session) : Prop :=
  forall x s, lookup x = Some s -> s_invgen s < max_idN.

Theorem call_wf : forall cfg lookup now d caller req opts proc args kw oracle,
    dealer_wf lookup d -> lookup_ok lookup -> nowrap lookup -> attached lookup (s_id caller) ->
    match call cfg lookup now d caller req opts proc args kw oracle with
    | CallRefused d' _ => dealer_wf lookup d'
    | CallAbort _ => True
    | CallInvoked d' callee' _ =>
        attached lookup (s_id callee') /\
        forall lookup', lookup_le lookup lookup' -> lookup' (s_id callee') = Some callee' ->
                        dealer_wf lookup' d'
    end.
Proof.
  intros cfg lookup now d caller req opts proc args kw oracle WF LOK NW Hcaller.
  pose proof (call_cases cfg lookup now d caller req opts proc args kw oracle) as H.
  pose proof WF as [A B C D E].
  assert (Hd0 : forall r next, match_procedure d proc oracle = Some r -> dealer_wf lookup (call_d0 d r next)).
  { intros r next Hm. apply (best_match_sound lookup d WF) in Hm. destruct Hm as [Hr _].
    destruct (call_d0_wf lookup d r next A B C Hr) as (A' & B' & C').
    eapply dealer_wf_calls_same; eauto. apply call_d0_side. }
  inversion H; subst; auto using nps_wf.
  - (* further chunk *)
    match goal with Hl : lookup (inv_callee inv) = Some callee |- _ => rename Hl into Hlk end.
    split; [rewrite (LOK _ _ Hlk); unfold attached; congruence|].
    intros lookup' Hle Hl'.
    match goal with Hb : cget (d_bycall d) _ = Some ikey, Hi : cget (d_invs d) ikey = Some inv |- _ =>
      destruct (core_chunk now d (s_id caller, req) ikey inv callee r (opt_bool opts "progress") D Hb Hi) as [D' S']
    end.
    eapply dealer_wf_lookup_le; [exact Hle|].
    eapply dealer_wf_regs_same; [apply chs_regs_side | exact WF | exact D' | eapply calls_att_sub; eauto].
  - (* first chunk *)
    match goal with Hl : lookup callee_id = Some callee |- _ => rename Hl into Hlk end.
    pose proof (LOK _ _ Hlk) as Hsid. cbn [set_invgen s_id]. rewrite Hsid.
    split; [unfold attached; congruence|].
    intros lookup' Hle Hl'.
    destruct (inv_id_fresh_proof lookup d callee_id callee WF Hlk (NW _ _ Hlk)) as [Hnext Hfresh].
    assert (Hi : cget (d_invs d) (callee_id, idgen_next (s_invgen callee)) = None).
    { destruct (cget (d_invs d) (callee_id, idgen_next (s_invgen callee))) eqn:Ei; [|reflexivity].
      specialize (Hfresh _ _ Ei). lia. }
    match goal with Hb : cget (d_bycall d) _ = None, Hm : match_procedure d proc oracle = Some r |- _ =>
      pose proof (core_first now d (s_id caller, req) opts r callee_id next callee D Hb Hi) as D';
      pose proof (Hd0 r next Hm) as WF0
    end.
    eapply dealer_wf_regs_same; [apply cfs_regs_side | eapply dealer_wf_lookup_le; eauto | exact D' |].
    constructor; rewrite ?cfs_calls, ?cfs_invs.
    + intros k i0. rewrite cget_cset. keq.
      * intros _. cbn [fst snd]. exists (set_invgen callee (idgen_next (s_invgen callee))).
        split; [exact Hl' | cbn; lia].
      * intros Hk. destruct (ca_inv _ _ E _ _ Hk) as (s & Hs & Hle1).
        destruct (Hle _ _ Hs) as (s' & Hs' & Hle2). exists s'. split; [exact Hs' | lia].
    + intros c x. rewrite cget_cset. keq.
      * intros _. cbn [fst]. eapply attached_le; eauto.
      * intros Hc. eapply attached_le; [exact Hle|]. eapply (ca_call _ _ E); eauto.
Qed.
