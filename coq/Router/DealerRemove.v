(** * Dealer proofs, part 7: [dealer_remove_session] — the invariant, what is
    sent, and that every call the departing callee was serving is answered
    (including calls cancelled in kill mode before: the repaired defect). *)
From Nexus Require Import Router.Dealer Router.DealerLib Router.DealerProofs Router.DealerReg
     Router.DealerCall Router.DealerWfCalls Router.DealerWfRegs Router.DealerWf.
From Coq Require Import Lia ZifyN ZifyNat ZifyBool.

Lemma dealer_eta_calls : forall d, d_set_calls d (d_calls d) = d.
Proof. intros []; reflexivity. Qed.

(** the call tables only lose entries (values unchanged); registration side untouched *)
Record shrinks (d d' : dealer) : Prop := {
  sh_calls : forall c x, cget (d_calls d') c = Some x -> cget (d_calls d) c = Some x;
  sh_bycall : forall c k, cget (d_bycall d') c = Some k -> cget (d_bycall d) c = Some k;
  sh_invs : forall k v, cget (d_invs d') k = Some v -> cget (d_invs d) k = Some v;
  sh_regs : regs_side_eq d d'
}.

Lemma shrinks_refl : forall d, shrinks d d.
Proof. intros d; constructor; auto. apply regs_side_eq_refl. Qed.

Lemma shrinks_trans : forall a b c, shrinks a b -> shrinks b c -> shrinks a c.
Proof.
  intros a b c [A1 A2 A3 A4] [B1 B2 B3 B4]. constructor; eauto. eapply regs_side_eq_trans; eauto.
Qed.

Lemma shrinks_sub : forall d d', shrinks d d' -> calls_sub d d'.
Proof.
  intros d d' [A B C D]. constructor; [exact A|]. intros k v H. rewrite (C _ _ H). discriminate.
Qed.

Lemma shrinks_gone : forall d d' cid k, shrinks d d' -> gone d cid k -> gone d' cid k.
Proof.
  intros d d' cid k [A B C D] (G1 & G2 & G3). unfold gone.
  repeat split.
  - destruct (cget (d_calls d') cid) eqn:E; [rewrite (A _ _ E) in G1; discriminate | reflexivity].
  - destruct (cget (d_bycall d') cid) eqn:E; [rewrite (B _ _ E) in G2; discriminate | reflexivity].
  - destruct (cget (d_invs d') k) eqn:E; [rewrite (C _ _ E) in G3; discriminate | reflexivity].
Qed.

(** ** One step of the first phase: a call the leaver was serving *)
Definition served_inv (inv : invocation) : invocation := inv_set_timer (inv_set_canceled inv false) None.
Definition served_d2 (d : dealer) (k : callid) (inv : invocation) : dealer :=
  let d1 := cancel_timer d (inv_timer inv) in d_set_invs d1 (cset (d_invs d1) k (served_inv inv)).
Definition served_drop (d : dealer) (k : callid) (inv : invocation) : dealer :=
  drop_call (cancel_state (served_d2 d k inv) k (served_inv inv)) (inv_call inv) k.
Definition gone_msg (cid : callid) : out :=
  (fst cid, RError c_CALL (snd cid) [] e_canceled [vstr "callee gone"] []).

Lemma sd2_calls d k inv : d_calls (served_d2 d k inv) = d_calls d.
Proof. unfold served_d2; dproj; apply ct_calls. Qed.
Lemma sd2_bycall d k inv : d_bycall (served_d2 d k inv) = d_bycall d.
Proof. unfold served_d2; dproj; apply ct_bycall. Qed.
Lemma sd2_invs d k inv : d_invs (served_d2 d k inv) = cset (d_invs d) k (served_inv inv).
Proof. unfold served_d2; dproj; rewrite ct_invs; reflexivity. Qed.

Lemma sd_calls d k inv : d_calls (served_drop d k inv) = cdel (d_calls d) (inv_call inv).
Proof. unfold served_drop. rewrite dc_calls, cs_calls, sd2_calls. reflexivity. Qed.
Lemma sd_bycall d k inv : d_bycall (served_drop d k inv) = cdel (d_bycall d) (inv_call inv).
Proof. unfold served_drop. rewrite dc_bycall, cs_bycall, sd2_bycall. reflexivity. Qed.
Lemma sd_invs_get d k inv : forall k',
    cget (d_invs (served_drop d k inv)) k' = if pair_eqb k' k then None else cget (d_invs d) k'.
Proof.
  intros k'. unfold served_drop. rewrite dc_invs, cs_invs, sd2_invs, cget_cdel, !cget_cset.
  destruct (pair_eqb k' k); reflexivity.
Qed.
Lemma sd_regs d k inv : regs_side_eq d (served_drop d k inv).
Proof.
  unfold regs_side_eq, served_drop, drop_call, cancel_state, served_d2. dproj.
  rewrite ?ct_exact, ?ct_pfx, ?ct_wc, ?ct_regs, ?ct_callee_regs, ?ct_idgen. dproj.
  rewrite ?ct_exact, ?ct_pfx, ?ct_wc, ?ct_regs, ?ct_callee_regs, ?ct_idgen. repeat split; reflexivity.
Qed.

Lemma sd_core : forall d k inv x, calls_core d -> pending d (inv_call inv) k inv x ->
    calls_core (served_drop d k inv).
Proof.
  intros d k inv x W (Hc & Hb & Hi).
  assert (W2 : calls_core (served_d2 d k inv)) by (unfold served_d2; eapply core_untime; eauto).
  unfold served_drop. eapply core_cancel_drop with (x := x); [exact W2|].
  unfold pending. rewrite sd2_calls, sd2_bycall, sd2_invs, cget_cset_same. auto.
Qed.

Lemma sd_shrinks : forall d k inv, shrinks d (served_drop d k inv).
Proof.
  intros d k inv. constructor.
  - intros c x. rewrite sd_calls, cget_cdel. destruct (pair_eqb c (inv_call inv)); [discriminate | auto].
  - intros c x. rewrite sd_bycall, cget_cdel. destruct (pair_eqb c (inv_call inv)); [discriminate | auto].
  - intros k' v. rewrite sd_invs_get. destruct (pair_eqb k' k); [discriminate | auto].
  - apply sd_regs.
Qed.

Lemma sd_gone : forall d k inv, gone (served_drop d k inv) (inv_call inv) k.
Proof.
  intros. unfold gone. rewrite sd_calls, sd_bycall, sd_invs_get, !cget_cdel_same, pair_eqb_refl. auto.
Qed.

Lemma cancel_served_cases : forall lookup sid d o k e,
    calls_core d ->
    (cancel_served lookup sid (d, o) (k, e) = (d, o) /\
     forall inv, cget (d_invs d) k = Some inv -> inv_callee inv <> sid) \/
    (exists inv, cget (d_invs d) k = Some inv /\ inv_callee inv = sid /\
                 pending d (inv_call inv) k inv (fst (inv_call inv)) /\
                 cancel_served lookup sid (d, o) (k, e) = (served_drop d k inv, o ++ [gone_msg (inv_call inv)])).
Proof.
  intros lookup sid d o k e W. unfold cancel_served.
  destruct (cget (d_invs d) k) as [inv|] eqn:Hi.
  2:{ left. split; [reflexivity | discriminate]. }
  destruct (N.eqb_spec (inv_callee inv) sid) as [Hs|Hs]; cbn [negb].
  2:{ left. split; [reflexivity|]. intros i0 E; inversion E; subst; exact Hs. }
  right. exists inv.
  destruct (cw_inv _ W _ _ Hi) as (Hb & _).
  pose proof (cw_bycall_call _ W _ _ Hb) as Hc.
  destruct (cget (d_calls d) (inv_call inv)) as [x|] eqn:Ec; [|congruence].
  destruct (cw_call _ W _ _ Ec) as (-> & _).
  split; [reflexivity|]. split; [exact Hs|]. split; [unfold pending; auto|].
  fold (served_inv inv). fold (served_d2 d k inv).
  assert (Hp : pending (served_d2 d k inv) (fst (inv_call inv), snd (inv_call inv)) k (served_inv inv) (fst (inv_call inv))).
  { rewrite <- surjective_pairing. unfold pending. rewrite sd2_calls, sd2_bycall, sd2_invs, cget_cset_same. auto. }
  rewrite (sync_cancel_live lookup _ _ _ "skip" e_canceled [vstr "callee gone"] _ _ _ Hp eq_refl).
  change (negb ("skip" =? "skip")%string) with false. cbn [andb app].
  rewrite <- surjective_pairing. reflexivity.
Qed.

(** ** The first phase *)
Lemma cs_fold_mono : forall lookup sid l d o,
    calls_core d ->
    let r := fold_left (cancel_served lookup sid) l (d, o) in
    calls_core (fst r) /\ shrinks d (fst r) /\ (forall m, In m o -> In m (snd r)) /\
    (forall m, In m (snd r) -> In m o \/
       exists k inv, cget (d_invs d) k = Some inv /\ inv_callee inv = sid /\
                     cget (d_calls d) (inv_call inv) = Some (fst (inv_call inv)) /\ m = gone_msg (inv_call inv)).
Proof.
  intros lookup sid. induction l as [|[k e] l IH]; intros d o W; cbn [fold_left].
  - cbn [fst snd]. split; [exact W|]. split; [apply shrinks_refl|]. split; auto.
  - destruct (cancel_served_cases lookup sid d o k e W) as [[E _]|(inv & Hi & Hs & Hp & E)]; rewrite E.
    + apply IH. exact W.
    + pose proof (sd_core d k inv _ W Hp) as W1.
      destruct (IH (served_drop d k inv) (o ++ [gone_msg (inv_call inv)]) W1) as (A & B & C & D).
      split; [exact A|]. split; [eapply shrinks_trans; [apply sd_shrinks | exact B]|]. split.
      * intros m Hm. apply C. apply in_or_app. auto.
      * intros m Hm. destruct (D m Hm) as [Hin|(k' & inv' & Hi' & Hs' & Hc' & Em)].
        -- apply in_app_or in Hin. destruct Hin as [Hin|[Em|[]]]; [auto|].
           right. exists k, inv. destruct Hp as (Hc & _). auto.
        -- right. exists k', inv'. pose proof (sd_shrinks d k inv) as [S1 S2 S3 S4].
           repeat split; auto.
Qed.

Lemma cs_fold_prompt : forall lookup sid (l : list (callid * invocation)) d o (k : callid) inv,
    calls_core d -> cget (d_invs d) k = Some inv -> inv_callee inv = sid -> In k (map fst l) ->
    let r := fold_left (cancel_served lookup sid) l (d, o) in
    In (gone_msg (inv_call inv)) (snd r) /\ gone (fst r) (inv_call inv) k.
Proof.
  intros lookup sid. induction l as [|[k0 e] l IH]; intros d o k inv W Hi Hs Hin; [destruct Hin|].
  cbn [fold_left].
  destruct (cancel_served_cases lookup sid d o k0 e W) as [[E Hno]|(inv0 & Hi0 & Hs0 & Hp0 & E)]; rewrite E.
  - (* nothing happened for k0, so k0 <> k *)
    destruct Hin as [Ek|Hin]; [cbn in Ek; subst k0; exfalso; eapply Hno; eauto|].
    apply IH; assumption.
  - pose proof (sd_core d k0 inv0 _ W Hp0) as W1.
    destruct (pair_eqb_spec k0 k) as [Ek|Hne].
    + subst k0. assert (inv0 = inv) by congruence. subst inv0.
      destruct (cs_fold_mono lookup sid l (served_drop d k inv) (o ++ [gone_msg (inv_call inv)]) W1) as (_ & Sh & Mo & _).
      split.
      * apply Mo. apply in_or_app. right. cbn. auto.
      * eapply shrinks_gone; [exact Sh | apply sd_gone].
    + destruct Hin as [Ek|Hin]; [cbn in Ek; congruence|].
      apply IH; auto.
      rewrite sd_invs_get. destruct (pair_eqb_spec k k0); [congruence | exact Hi].
Qed.

(** ** One step of the second phase: a call the leaver made *)
Lemma drop_own_cases : forall sid d c x0,
    calls_core d ->
    (drop_own_call sid d (c, x0) = d /\ (x0 = sid -> cget (d_calls d) c = None)) \/
    (x0 = sid /\ exists k inv, cget (d_bycall d) c = Some k /\ cget (d_invs d) k = Some inv /\
       drop_own_call sid d (c, x0) = drop_call (cancel_timer d (inv_timer inv)) c k).
Proof.
  intros sid d c x0 W. unfold drop_own_call.
  destruct (N.eqb_spec x0 sid) as [->|Hne]; cbn [negb].
  2:{ left. split; [reflexivity | congruence]. }
  dproj. destruct (cget (d_bycall d) c) as [k|] eqn:Hb.
  - right. split; [reflexivity|]. destruct (cw_bycall _ W _ _ Hb) as (inv & Hi & _).
    exists k, inv. split; [reflexivity|]. split; [exact Hi|]. rewrite Hi.
    unfold drop_call. destruct (inv_timer inv); reflexivity.
  - left. assert (Hc : cget (d_calls d) c = None).
    { destruct (cget (d_calls d) c) eqn:Ec; [|reflexivity]. destruct (cw_call _ W _ _ Ec) as (_ & Hn). congruence. }
    split; [|auto]. unfold cdel. rewrite (adel_absent pair_eqb pair_eqb_spec _ _ Hc). apply dealer_eta_calls.
Qed.

Lemma own_drop_props : forall d c k inv,
    calls_core d -> cget (d_bycall d) c = Some k -> cget (d_invs d) k = Some inv ->
    let d' := drop_call (cancel_timer d (inv_timer inv)) c k in
    calls_core d' /\ shrinks d d' /\ gone d' c k.
Proof.
  intros d c k inv W Hb Hi d'. split; [|split].
  - apply core_drop; [apply core_cancel_timer; exact W | rewrite ct_bycall; exact Hb |].
    eapply no_timer_after_cancel; eauto.
  - constructor; unfold d'.
    + intros c0 x. rewrite dc_calls, ct_calls, cget_cdel. destruct (pair_eqb c0 c); [discriminate | auto].
    + intros c0 x. rewrite dc_bycall, ct_bycall, cget_cdel. destruct (pair_eqb c0 c); [discriminate | auto].
    + intros k0 v. rewrite dc_invs, ct_invs, cget_cdel. destruct (pair_eqb k0 k); [discriminate | auto].
    + unfold regs_side_eq, drop_call. dproj.
      rewrite ?ct_exact, ?ct_pfx, ?ct_wc, ?ct_regs, ?ct_callee_regs, ?ct_idgen. repeat split; reflexivity.
  - apply gone_drop_call.
Qed.

Lemma own_fold_mono : forall sid l d,
    calls_core d ->
    calls_core (fold_left (drop_own_call sid) l d) /\ shrinks d (fold_left (drop_own_call sid) l d).
Proof.
  intros sid. induction l as [|[c x0] l IH]; intros d W; cbn [fold_left].
  - split; [exact W | apply shrinks_refl].
  - destruct (drop_own_cases sid d c x0 W) as [[E _]|(_ & k & inv & Hb & Hi & E)]; rewrite E.
    + apply IH. exact W.
    + destruct (own_drop_props d c k inv W Hb Hi) as (W1 & S1 & _).
      destruct (IH _ W1) as (W2 & S2). split; [exact W2 | eapply shrinks_trans; eauto].
Qed.

Lemma own_fold_clears : forall sid (l : list (callid * N)) d (c : callid),
    calls_core d -> In (c, sid) l ->
    cget (d_calls (fold_left (drop_own_call sid) l d)) c = None.
Proof.
  intros sid. induction l as [|[c0 x0] l IH]; intros d c W Hin; [destruct Hin|].
  cbn [fold_left]. destruct Hin as [E|Hin].
  - inversion E; subst c0 x0. clear E.
    destruct (drop_own_cases sid d c sid W) as [[E Hn]|(_ & k & inv & Hb & Hi & E)]; rewrite E.
    + destruct (own_fold_mono sid l d W) as (_ & [S1 _ _ _]).
      destruct (cget (d_calls (fold_left (drop_own_call sid) l d)) c) eqn:Ec; [|reflexivity].
      rewrite (S1 _ _ Ec) in Hn. specialize (Hn eq_refl). discriminate.
    + destruct (own_drop_props d c k inv W Hb Hi) as (W1 & _ & (G1 & _)).
      destruct (own_fold_mono sid l _ W1) as (_ & [S1 _ _ _]).
      destruct (cget (d_calls (fold_left (drop_own_call sid) l _)) c) eqn:Ec; [|reflexivity].
      rewrite (S1 _ _ Ec) in G1. discriminate.
  - destruct (drop_own_cases sid d c0 x0 W) as [[E _]|(_ & k & inv & Hb & Hi & E)]; rewrite E.
    + apply IH; assumption.
    + destruct (own_drop_props d c0 k inv W Hb Hi) as (W1 & _ & _). apply IH; assumption.
Qed.

(** ** The whole function *)
Lemma drs_unfold : forall lk d sid,
    dealer_remove_session lk d sid =
    let d2 := unreg_all d sid in
    let r := fold_left (cancel_served lk sid) (d_invs d2) (d2, []) in
    (fold_left (drop_own_call sid) (d_calls (fst r)) (fst r), snd r,
     snd (fold_left (remove_callee_reg sid) (callee_reg_ids d sid) (d, []))).
Proof.
  intros lk d sid. unfold dealer_remove_session, unreg_all, callee_reg_ids.
  destruct (fold_left (remove_callee_reg sid) _ (d, [])) as [d1 mp]. cbn [fst snd].
  destruct (fold_left (cancel_served lk sid) _ _) as [d3 o]. reflexivity.
Qed.

Section RemoveSession.
  Variables (lookup lookup' lk : N -> option session) (d : dealer) (sid : N).
  Hypothesis WF : dealer_wf lookup d.
  Hypothesis Hsame : forall x, x <> sid -> lookup' x = lookup x.

  Let d2 := unreg_all d sid.
  Let r := fold_left (cancel_served lk sid) (d_invs d2) (d2, []).
  Let d3 := fst r.
  Let d4 := fold_left (drop_own_call sid) (d_calls d3) d3.

  Lemma drs_fst : fst (fst (dealer_remove_session lk d sid)) = d4.
  Proof. rewrite drs_unfold. reflexivity. Qed.
  Lemma drs_out : snd (fst (dealer_remove_session lk d sid)) = snd r.
  Proof. rewrite drs_unfold. reflexivity. Qed.

  Let Hatt : forall x, x <> sid -> attached lookup x -> attached lookup' x.
  Proof. intros x Hx. unfold attached. rewrite (Hsame x Hx). auto. Qed.

  Lemma drs_d2 :
      regs_core d2 /\ (forall s, cr_ok d2 s) /\ regs_att lookup' d2 /\
      (forall id rg, nget (d_regs d2) id = Some rg -> ~ In sid (reg_callees rg)) /\
      calls_side_eq d d2 /\ d_idgen d2 = d_idgen d /\ nget (d_callee_regs d2) sid = None.
  Proof.
    pose proof WF as [A B C D E].
    destruct (unreg_all_wf lookup lookup' d sid A B C Hatt) as (A' & B' & C' & N' & S' & I').
    assert (Hn : nget (d_callee_regs d2) sid = None)
      by (unfold d2, unreg_all; dproj; rewrite nget_ndel, N.eqb_refl; reflexivity).
    fold d2 in A', B', C', N', S', I'. destruct S' as (E1 & E2 & E3 & E4 & E5).
    split; [exact A'|]. split; [exact B'|]. split; [exact C'|]. split; [exact N'|].
    split; [repeat split; assumption|]. split; [exact I' | exact Hn].
  Qed.

  Lemma drs_core2 : calls_core d2.
  Proof. destruct drs_d2 as (_ & _ & _ & _ & S & _). eapply calls_core_ext; [exact S | apply (wf_calls _ _ WF)]. Qed.

  Lemma drs_phase1 :
      calls_core d3 /\ shrinks d2 d3 /\
      (forall k inv, cget (d_invs d3) k = Some inv -> inv_callee inv <> sid).
  Proof.
    destruct (cs_fold_mono lk sid (d_invs d2) d2 [] drs_core2) as (W3 & S3 & _ & _).
    fold r in W3, S3. fold d3 in W3, S3. split; [exact W3|]. split; [exact S3|].
    intros k inv Hi Hs. pose proof (sh_invs _ _ S3 _ _ Hi) as Hi2.
    assert (Hk : In k (map fst (d_invs d2))) by (eapply aget_Some_key; [apply pair_eqb_spec | exact Hi2]).
    destruct (cs_fold_prompt lk sid (d_invs d2) d2 [] k inv drs_core2 Hi2 Hs Hk) as (_ & (_ & _ & G)).
    fold r in G. fold d3 in G. congruence.
  Qed.

  Lemma drs_phase2 :
      calls_core d4 /\ shrinks d3 d4 /\ (forall c x, cget (d_calls d4) c = Some x -> x <> sid).
  Proof.
    destruct drs_phase1 as (W3 & _ & _).
    destruct (own_fold_mono sid (d_calls d3) d3 W3) as (W4 & S4). fold d4 in W4, S4.
    split; [exact W4|]. split; [exact S4|].
    intros c x Hc Hx. subst x. pose proof (sh_calls _ _ S4 _ _ Hc) as Hc3.
    assert (Hin : In (c, sid) (d_calls d3)) by (eapply aget_In; [apply pair_eqb_spec | exact Hc3]).
    pose proof (own_fold_clears sid (d_calls d3) d3 c W3 Hin) as Hn. fold d4 in Hn. congruence.
  Qed.

  Theorem dealer_remove_session_wf :
      let d' := fst (fst (dealer_remove_session lk d sid)) in
      dealer_wf lookup' d' /\
      nget (d_callee_regs d') sid = None /\ d_idgen d' = d_idgen d /\
      (forall id rg, nget (d_regs d') id = Some rg -> ~ In sid (reg_callees rg)) /\
      (forall c x, cget (d_calls d') c = Some x -> fst c <> sid) /\
      (forall c k, cget (d_bycall d') c = Some k -> fst c <> sid /\ fst k <> sid) /\
      (forall k inv, cget (d_invs d') k = Some inv -> fst k <> sid /\ fst (inv_call inv) <> sid).
  Proof.
    intros d'. unfold d'. rewrite drs_fst.
    destruct drs_d2 as (A2 & B2 & C2 & N2 & S2 & I2 & CR2).
    destruct drs_phase1 as (W3 & S3 & Cl3).
    destruct drs_phase2 as (W4 & S4 & Cl4).
    pose proof (shrinks_trans _ _ _ S3 S4) as S24.
    pose proof (sh_regs _ _ S24) as R24.
    pose proof R24 as (_ & _ & _ & E4 & E5 & E6).
    (* facts about what is left *)
    assert (Hinv : forall k inv, cget (d_invs d4) k = Some inv -> fst k <> sid /\ fst (inv_call inv) <> sid).
    { intros k inv Hi. pose proof (sh_invs _ _ S4 _ _ Hi) as Hi3.
      destruct (cw_inv _ W4 _ _ Hi) as (Hb & He). split; [rewrite <- He; eapply Cl3; eauto|].
      pose proof (cw_bycall_call _ W4 _ _ Hb) as Hc.
      destruct (cget (d_calls d4) (inv_call inv)) as [x|] eqn:Ec; [|congruence].
      destruct (cw_call _ W4 _ _ Ec) as (Ex & _). rewrite <- Ex. eapply Cl4; eauto. }
    assert (Hcall : forall c x, cget (d_calls d4) c = Some x -> fst c <> sid).
    { intros c x Hc. destruct (cw_call _ W4 _ _ Hc) as (Ex & _). rewrite <- Ex. eapply Cl4; eauto. }
    assert (Hat : calls_att lookup' d4).
    { pose proof (wf_calls_att _ _ WF) as [I C].
      destruct S2 as (E1 & E2 & _). constructor.
      - intros k inv Hi. destruct (Hinv _ _ Hi) as (Hk & _).
        pose proof (sh_invs _ _ S24 _ _ Hi) as Hi2. rewrite E2 in Hi2.
        rewrite (Hsame _ Hk). eapply I; eauto.
      - intros c x Hc. pose proof (Hcall _ _ Hc) as Hk.
        pose proof (sh_calls _ _ S24 _ _ Hc) as Hc2. rewrite E1 in Hc2.
        apply Hatt; [exact Hk|]. eapply C; eauto. }
    split; [|split; [|split; [|split; [|split; [|split]]]]].
    - constructor.
      + eapply regs_core_ext; eauto.
      + intros s. eapply cr_ok_ext; eauto.
      + eapply regs_att_ext; eauto.
      + exact W4.
      + exact Hat.
    - rewrite E5. exact CR2.
    - rewrite E6. exact I2.
    - intros id rg. rewrite E4. apply N2.
    - exact Hcall.
    - intros c k Hb. destruct (cw_bycall _ W4 _ _ Hb) as (inv & Hi & Ec).
      destruct (Hinv _ _ Hi) as (H1 & H2). rewrite Ec in H2. auto.
    - exact Hinv.
  Qed.

  (** no call record is created *)
  Lemma drs_calls_sub : forall c x,
      cget (d_calls (fst (fst (dealer_remove_session lk d sid)))) c = Some x -> cget (d_calls d) c = Some x.
  Proof.
    intros c x H. rewrite drs_fst in H.
    destruct drs_d2 as (_ & _ & _ & _ & (E1 & _) & _).
    destruct drs_phase1 as (_ & S3 & _). destruct drs_phase2 as (_ & S4 & _).
    rewrite <- E1. apply (sh_calls _ _ S3). apply (sh_calls _ _ S4). exact H.
  Qed.

  (** every message sent is the "callee gone" error of a call the leaver was serving *)
  Theorem remove_session_outputs_proof : forall m,
      In m (snd (fst (dealer_remove_session lk d sid))) ->
      exists k inv, cget (d_invs d) k = Some inv /\ inv_callee inv = sid /\
                    cget (d_calls d) (inv_call inv) = Some (fst (inv_call inv)) /\
                    m = gone_msg (inv_call inv).
  Proof.
    intros m Hm. rewrite drs_out in Hm.
    destruct (cs_fold_mono lk sid (d_invs d2) d2 [] drs_core2) as (_ & _ & _ & Out).
    fold r in Out. destruct (Out m Hm) as [[]|(k & inv & Hi & Hs & Hc & Em)].
    destruct drs_d2 as (_ & _ & _ & _ & (E1 & E2 & _) & _).
    exists k, inv. rewrite <- E1, <- E2. auto.
  Qed.

  (** C02 prompt_callee_gone: each call the leaver was serving is answered and erased *)
  Theorem prompt_callee_gone_proof : forall k inv,
      cget (d_invs d) k = Some inv -> inv_callee inv = sid ->
      let cid := inv_call inv in
      In (fst cid, RError c_CALL (snd cid) [] e_canceled [vstr "callee gone"] [])
         (snd (fst (dealer_remove_session lk d sid))) /\
      gone (fst (fst (dealer_remove_session lk d sid))) cid k.
  Proof.
    intros k inv Hi Hs cid. rewrite drs_out, drs_fst.
    destruct drs_d2 as (_ & _ & _ & _ & (E1 & E2 & _) & _).
    assert (Hi2 : cget (d_invs d2) k = Some inv) by (rewrite E2; exact Hi).
    assert (Hk : In k (map fst (d_invs d2))) by (eapply aget_Some_key; [apply pair_eqb_spec | exact Hi2]).
    destruct (cs_fold_prompt lk sid (d_invs d2) d2 [] k inv drs_core2 Hi2 Hs Hk) as (M & G).
    fold r in M, G. fold d3 in G. split; [exact M|].
    destruct drs_phase2 as (_ & S4 & _). eapply shrinks_gone; eauto.
  Qed.
End RemoveSession.
