(** * Concrete, non-trivial broker states used as non-vacuity witnesses for
    the hypotheses of the C01 / C12 / C20 theorems (evaluated by [vm_compute]). *)
From Nexus Require Import Router.BrokerProofs.
From Coq Require Import Lia ZifyN ZifyBool.

Definition ex_cfg : config :=
  mkConfig false true false false false false
           [mkHistCfg "hist.topic" "exact" 2; mkHistCfg "hist" "prefix" 3] None.
Definition ex_cfg_nodisclose : config :=
  mkConfig false false false false false false [] None.

Definition ex_hello : dict :=
  [("roles", VDict [("subscriber", VDict [("features", VDict [("publisher_identification", VBool true)])])])].
(** every session is attached; session 11 announced publisher_identification *)
Definition ex_lookup (r : N) : option session :=
  Some (mkSession r false (if N.eqb r 11 then ex_hello else [])
                  [("authid", vstr "u"); ("authrole", vstr "user")] 0).

Definition ex_b0 : broker := broker_init (c_hist ex_cfg).
Definition ex_ops : list bop :=
  [BSubscribe 0 10 1 [] "a.b";
   BSubscribe 3 11 1 [("match", vstr "prefix")] "a";
   BSubscribe 6 12 1 [("match", vstr "wildcard")] "a.";
   BSubscribe 9 11 2 [] "a.b";
   BSubscribe 0 13 1 [] "hist.topic"].
(** three overlapping subscriptions (exact, prefix, wildcard) on a.b with four
    holders, plus the two configured history subscriptions *)
Definition ex_b : broker := brun ex_cfg ex_b0 ex_ops.

Definition ex_pub : session := mkSession 10 false [] [("authid", vstr "pubid")] 0.
Definition ex_opts : dict :=
  [("acknowledge", VBool true); ("exclude_me", VBool false); ("disclose_me", VBool true)].

Lemma ex_b0_wf : broker_wf ex_b0.
Proof. apply preinit_wf. vm_compute. discriminate. Qed.

Lemma ex_b_wf : broker_wf ex_b.
Proof. apply reachable_wf. vm_compute. discriminate. Qed.

Lemma ex_b_idgen : b_idgen ex_b < max_idN.
Proof. vm_compute. reflexivity. Qed.

Lemma ex_b0_bound : b_idgen ex_b0 + N.of_nat (List.length ex_ops) <= max_idN.
Proof. vm_compute. discriminate. Qed.

Lemma ex_lookup_ok : lookup_ok ex_lookup.
Proof. intros r rs H. inversion H. reflexivity. Qed.

Lemma ex_accepted : pub_accepted ex_cfg ex_pub ex_opts "a.b".
Proof. repeat split; reflexivity. Qed.

(** what the example publication delivers: four EVENTs through three
    subscriptions to three sessions, and the acknowledgement *)
Lemma ex_publish :
  snd (publish ex_cfg ex_lookup 5 ex_b 100 ex_pub 7 ex_opts "a.b" [vnat 1] []) =
  [(10, REvent 3 101 [] [vnat 1] []);
   (11, REvent 3 101 [("publisher", vid 10); ("publisher_authid", vstr "pubid")] [vnat 1] []);
   (11, REvent 4 101 [("topic", vuri "a.b"); ("publisher", vid 10); ("publisher_authid", vstr "pubid")] [vnat 1] []);
   (12, REvent 5 101 [("topic", vuri "a.b")] [vnat 1] []);
   (10, RPublished 7 101)].
Proof. vm_compute. reflexivity. Qed.

Lemma ex_holds_11 : holds_sig ex_b 11 4 "a" MPrefix.
Proof. eexists. vm_compute. repeat split. now left. Qed.

Lemma ex_holds_10 : holds_sig ex_b 10 3 "a.b" MExact.
Proof. eexists. vm_compute. repeat split. now left. Qed.

Lemma ex_sub_sig : sub_sig ex_b 3 "a.b" MExact.
Proof. eexists. vm_compute. repeat split. Qed.

Lemma ex_no_sub_sig : forall id0, ~ sub_sig ex_b id0 "zzz" MExact.
Proof.
  intros id0 (s & E & Ht & _). apply (aget_In N.eqb N.eqb_spec) in E. vm_compute in E.
  repeat (destruct E as [E|E]; [inversion E; subst; discriminate Ht|]). destruct E.
Qed.

Lemma ex_not_holder : ~ sub_has (b_subs ex_b) 4 10.
Proof.
  intros (s & E & Hr). vm_compute in E. inversion E; subst. cbn in Hr. destruct Hr as [H|[]]. discriminate H.
Qed.

Lemma ex_holder : sub_has (b_subs ex_b) 4 11.
Proof. eexists. vm_compute. split; [reflexivity|now left]. Qed.

Lemma ex_sess : nget (b_sess ex_b) 11 = Some [4; 3].
Proof. vm_compute. reflexivity. Qed.

(** history *)
Definition ex_pubs : list bop :=
  [BPublish 100 ex_lookup 5 ex_pub 1 [] "hist.topic" [vnat 1] [];
   BSubscribe 101 14 1 [] "hist.topic";
   BPublish 102 ex_lookup 6 ex_pub 2 [("exclude", VList [vid 99])] "hist.topic" [vnat 2] [];
   BPublish 103 ex_lookup 7 ex_pub 3 [] "hist.topic" [vnat 3] [];
   BRemove 104 14;
   BUnsubscribe 105 13 9 1;
   BPublish 106 ex_lookup 8 ex_pub 4 [] "hist.topic" [vnat 4] []].

(** the id supply of the example is the threaded counter *)
Lemma ex_threaded : threaded ex_cfg ex_b 100 ex_pubs.
Proof. vm_compute. repeat split. Qed.

Lemma ex_hist_sub : sub_sig ex_b 1 "hist.topic" MExact.
Proof. eexists. vm_compute. repeat split. Qed.

Lemma ex_hist_store : nget (b_hist ex_b) 1 = Some (mkHStore 2 []).
Proof. vm_compute. reflexivity. Qed.

Lemma ex_hist_bound : b_idgen ex_b + N.of_nat (List.length ex_pubs) <= max_idN.
Proof. vm_compute. discriminate. Qed.

Lemma ex_store_ok : store_ok (mkHStore 2 []).
Proof. split; vm_compute; discriminate. Qed.

(** three stored, one restricted, limit 2: the ring wrapped and all
    subscribers left in between *)
Lemma ex_hist_ref : map h_pub (hist_ref ex_cfg 1 "hist.topic" MExact ex_pubs) = [101; 104; 107].
Proof. vm_compute. reflexivity. Qed.

Lemma ex_hist_result :
  option_map (fun st => map h_pub (hs_entries st)) (nget (b_hist (brun ex_cfg ex_b ex_pubs)) 1) = Some [104; 107].
Proof. vm_compute. reflexivity. Qed.

Lemma ex_hist_no_subscribers :
  option_map sub_subs (nget (b_subs (brun ex_cfg ex_b ex_pubs)) 1) = Some [].
Proof. vm_compute. reflexivity. Qed.

(** query *)
Definition ex_e (p t : N) : hentry := mkHEntry 1 p [] [vnat p] [] t.
Definition ex_entries : list hentry := [ex_e 101 10; ex_e 105 20; ex_e 108 30; ex_e 110 40].
Definition ex_q0 : hquery := mkHQ None false None None None None "" None None None None.

Lemma ex_configured : In (mkHistCfg "hist" "prefix" 3) (c_hist ex_cfg) /\ Forall (fun c => 1 <= hc_limit c) (c_hist ex_cfg).
Proof. split; [right; now left|]. repeat constructor; vm_compute; discriminate. Qed.

Lemma ex_no_pub_bounds : no_pub_bounds ex_q0.
Proof. repeat split. Qed.
Lemma ex_no_time_topic : no_time_topic ex_q0.
Proof. repeat split. Qed.
Lemma ex_split_at : split_at 105 ex_entries [ex_e 101 10] (ex_e 105 20) [ex_e 108 30; ex_e 110 40].
Proof. repeat split. cbn. intros [H|[]]. discriminate H. Qed.

Lemma ex_query_run :
  map h_pub (hquery_run (mkHQ (Some 2) true None (Some 10) None None "" None None None None) ex_entries) = [110; 108].
Proof. vm_compute. reflexivity. Qed.

Definition ex_kw : dict := [("limit", VInt KInt 2); ("from_publication", VInt KID 105); ("reverse", VBool true)].
Definition ex_kw' : dict := [("limit", VInt KFloat 2); ("from_publication", VInt KUint64 105); ("reverse", VBool true)].

Lemma ex_kw_rel : kw_numkind_rel ex_kw ex_kw'.
Proof.
  constructor; [|constructor; [|constructor; [|constructor]]]; cbn [fst snd].
  - split; [reflexivity|]. right. split; [cbn; tauto|]. exists KInt, KFloat, 2%Z. repeat split; unfold two63; lia.
  - split; [reflexivity|]. right. split; [cbn; tauto|]. exists KID, KUint64, 105%Z. repeat split; unfold two63; lia.
  - split; [reflexivity|left; reflexivity].
Qed.

Lemma ex_kw_parsed : parse_hquery ex_kw = Some (mkHQ (Some 2) true None None None None "" (Some 105) None None None).
Proof. vm_compute. reflexivity. Qed.

(** payload passthru mode *)
Definition ex_ppt_hello : dict :=
  [("roles", VDict [("publisher", VDict [("features", VDict [("payload_passthru_mode", VBool true)])])])].
Definition ex_ppt_pub : session := mkSession 10 false ex_ppt_hello [("authid", vstr "pubid")] 0.
Definition ex_ppt_opts : dict :=
  [("ppt_scheme", vstr "x_custom"); ("ppt_serializer", vuri "cbor"); ("ppt_keyid", VInt KInt 7); ("exclude_me", VBool false)].

Lemma ex_ppt_accepted : pub_accepted ex_cfg ex_ppt_pub ex_ppt_opts "a.b" /\ ppt_active ex_ppt_opts = true.
Proof. repeat split; try reflexivity; intros H; discriminate H. Qed.

(** scheme and serializer are copied as strings, the non-string keyid is dropped *)
Lemma ex_ppt_publish :
  snd (publish ex_cfg ex_lookup 5 ex_b 100 ex_ppt_pub 7 ex_ppt_opts "a.b" [vnat 1] []) =
  [(10, REvent 3 101 [("ppt_scheme", vstr "x_custom"); ("ppt_serializer", vstr "cbor")] [vnat 1] []);
   (11, REvent 3 101 [("ppt_scheme", vstr "x_custom"); ("ppt_serializer", vstr "cbor")] [vnat 1] []);
   (11, REvent 4 101 [("ppt_scheme", vstr "x_custom"); ("ppt_serializer", vstr "cbor"); ("topic", vuri "a.b")] [vnat 1] []);
   (12, REvent 5 101 [("ppt_scheme", vstr "x_custom"); ("ppt_serializer", vstr "cbor"); ("topic", vuri "a.b")] [vnat 1] [])].
Proof. vm_compute. reflexivity. Qed.

(** the same options from a publisher that did not announce the feature *)
Lemma ex_ppt_violation :
  valid_uri (c_strict ex_cfg) "" "a.b" = true /\ ppt_active ex_ppt_opts = true /\
  sess_feature ex_pub "publisher" f_ppt = false.
Proof. repeat split. Qed.

(** why [1 <= limit] is needed: with limit 0 the ring keeps one entry *)
Lemma ex_limit0 : forall e, hs_entries (hist_push (mkHStore 0 []) e) = [e].
Proof. reflexivity. Qed.

(** session end: 10 holds "a.b" (shared with 11) and "solo" (alone); 20 watches
    both meta topics *)
Definition ex_lb : broker :=
  brun ex_cfg_nodisclose empty_broker
       [BSubscribe 0 10 1 [] "a.b"; BSubscribe 0 11 1 [] "a.b"; BSubscribe 0 10 2 [] "solo";
        BSubscribe 0 20 1 [] t_sub_on_unsubscribe; BSubscribe 0 20 2 [] t_sub_on_delete].

Lemma ex_lb_wf : broker_wf ex_lb /\ nget (b_sess ex_lb) 10 = Some [1; 2].
Proof. split; [|vm_compute; reflexivity]. apply brun_wf; [apply empty_wf|vm_compute; discriminate]. Qed.

Lemma ex_lb_flags : sole_no_hist ex_lb 10 1 = false /\ sole_no_hist ex_lb 10 2 = true.
Proof. split; vm_compute; reflexivity. Qed.

(** on_unsubscribe for both, on_delete only for the one that went away,
    consecutive publication ids, all to the watcher *)
Lemma ex_lb_leave :
  snd (broker_remove_session ex_lb 100 10) =
  [(20, REvent 3 101 [] [vid 10; vid 1] []);
   (20, REvent 3 102 [] [vid 10; vid 2] []);
   (20, REvent 4 103 [] [vid 10; vid 2] [])] /\
  snd (fst (broker_remove_session ex_lb 100 10)) = 103.
Proof. split; vm_compute; reflexivity. Qed.
