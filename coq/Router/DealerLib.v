(** * Association-list and small list facts used by the dealer proofs.
    (Local to the dealer development; the generic library Router/AssocLemmas.v
    did not exist when this was written.) *)
From Nexus Require Import Router.Dealer.
From Coq Require Import Lia ZifyN ZifyBool.

Arguments max_idN : simpl never.

(** ** Generic association lists over a decidable key *)
Section Assoc.
  Context {K V : Type} (eqb : K -> K -> bool).
  Hypothesis eqb_spec : forall a b, reflect (a = b) (eqb a b).

  Lemma eqb_refl' : forall a, eqb a a = true.
  Proof. intros a; destruct (eqb_spec a a); congruence. Qed.

  Lemma eqb_neq' : forall a b, a <> b -> eqb a b = false.
  Proof. intros a b H; destruct (eqb_spec a b); congruence. Qed.

  Lemma aget_aset : forall (l : list (K * V)) k v k',
      aget eqb (aset eqb l k v) k' = if eqb k' k then Some v else aget eqb l k'.
  Proof.
    induction l as [|[a b] l IH]; intros k v k'; cbn.
    - reflexivity.
    - destruct (eqb_spec k a) as [->|Hka]; cbn.
      + destruct (eqb_spec k' a); reflexivity.
      + destruct (eqb_spec k' a) as [->|Hk'a].
        * rewrite eqb_neq' by congruence. reflexivity.
        * apply IH.
  Qed.

  Lemma aget_adel : forall (l : list (K * V)) k k',
      aget eqb (adel eqb l k) k' = if eqb k' k then None else aget eqb l k'.
  Proof.
    induction l as [|[a b] l IH]; intros k k'; cbn.
    - destruct (eqb k' k); reflexivity.
    - destruct (eqb_spec k a) as [->|Hka]; cbn.
      + rewrite IH. destruct (eqb_spec k' a); reflexivity.
      + destruct (eqb_spec k' a) as [->|Hk'a].
        * rewrite eqb_neq' by congruence. reflexivity.
        * apply IH.
  Qed.

  Lemma aget_In : forall (l : list (K * V)) k v, aget eqb l k = Some v -> In (k, v) l.
  Proof.
    induction l as [|[a b] l IH]; intros k v; cbn; [discriminate|].
    destruct (eqb_spec k a) as [->|]; intros H.
    - inversion H; auto.
    - right; auto.
  Qed.

  Lemma aget_None : forall (l : list (K * V)) k, aget eqb l k = None <-> ~ In k (map fst l).
  Proof.
    induction l as [|[a b] l IH]; intros k; cbn.
    - tauto.
    - destruct (eqb_spec k a) as [->|Hn].
      + split; [discriminate | intros H; exfalso; apply H; auto].
      + rewrite IH. split; [intros H [E|E]; [congruence | tauto] | tauto].
  Qed.

  Lemma aget_Some_key : forall (l : list (K * V)) k v, aget eqb l k = Some v -> In k (map fst l).
  Proof. intros l k v H. apply aget_In in H. apply (in_map fst) in H. exact H. Qed.

  Lemma In_aget : forall (l : list (K * V)) k v,
      NoDup (map fst l) -> In (k, v) l -> aget eqb l k = Some v.
  Proof.
    induction l as [|[a b] l IH]; intros k v ND HI; cbn in *; [tauto|].
    inversion ND as [|? ? Hni ND']; subst.
    destruct HI as [E|HI].
    - inversion E; subst. rewrite eqb_refl'. reflexivity.
    - destruct (eqb_spec k a) as [->|].
      + exfalso. apply Hni. apply (in_map fst) in HI. exact HI.
      + auto.
  Qed.

  Lemma In_aset : forall (l : list (K * V)) k v k' v',
      In (k', v') (aset eqb l k v) -> (k' = k /\ v' = v) \/ In (k', v') l.
  Proof.
    induction l as [|[a b] l IH]; intros k v k' v'; cbn.
    - intros [E|[]]; inversion E; auto.
    - destruct (eqb_spec k a) as [->|Hn]; cbn.
      + intros [E|H]; [inversion E; auto | auto].
      + intros [E|H]; [auto|]. apply IH in H. tauto.
  Qed.

  Lemma keys_aset_In : forall (l : list (K * V)) k v k',
      In k' (map fst (aset eqb l k v)) <-> In k' (map fst l) \/ k' = k.
  Proof.
    induction l as [|[a b] l IH]; intros k v k'; cbn.
    - intuition.
    - destruct (eqb_spec k a) as [->|Hn]; cbn.
      + intuition.
      + rewrite IH. intuition.
  Qed.

  Lemma NoDup_keys_aset : forall (l : list (K * V)) k v,
      NoDup (map fst l) -> NoDup (map fst (aset eqb l k v)).
  Proof.
    induction l as [|[a b] l IH]; intros k v ND; cbn.
    - constructor; [tauto | constructor].
    - inversion ND as [|? ? Hni ND']; subst.
      destruct (eqb_spec k a) as [->|Hn]; cbn.
      + constructor; assumption.
      + constructor; [|auto].
        rewrite keys_aset_In. intros [H|H]; [tauto | congruence].
  Qed.

  Lemma In_adel : forall (l : list (K * V)) k kv,
      In kv (adel eqb l k) <-> In kv l /\ fst kv <> k.
  Proof.
    induction l as [|[a b] l IH]; intros k kv; cbn.
    - tauto.
    - destruct (eqb_spec k a) as [->|Hn]; cbn.
      + rewrite IH. split; [tauto|]. intros [[E|H] Hne]; [subst kv; cbn in Hne; congruence | tauto].
      + rewrite IH. split.
        * intros [E|H]; [subst kv; cbn; split; [auto | congruence] | tauto].
        * tauto.
  Qed.

  Lemma keys_adel_In : forall (l : list (K * V)) k k',
      In k' (map fst (adel eqb l k)) <-> In k' (map fst l) /\ k' <> k.
  Proof.
    intros l k k'. rewrite !in_map_iff. split.
    - intros [kv [E H]]. apply In_adel in H. destruct H as [H Hne]. subst k'. split; [exists kv; auto | auto].
    - intros [[kv [E H]] Hne]. exists kv. split; [auto|]. apply In_adel. subst k'. auto.
  Qed.

  Lemma NoDup_keys_adel : forall (l : list (K * V)) k,
      NoDup (map fst l) -> NoDup (map fst (adel eqb l k)).
  Proof.
    induction l as [|[a b] l IH]; intros k ND; cbn.
    - constructor.
    - inversion ND as [|? ? Hni ND']; subst.
      destruct (eqb_spec k a) as [->|Hn]; cbn; [auto|].
      constructor; [|auto]. rewrite keys_adel_In. tauto.
  Qed.

  Lemma aset_same : forall (l : list (K * V)) k v, aget eqb l k = Some v -> aset eqb l k v = l.
  Proof.
    induction l as [|[a b] l IH]; intros k v; cbn; [discriminate|].
    destruct (eqb_spec k a) as [->|Hn]; intros H.
    - inversion H; reflexivity.
    - f_equal; auto.
  Qed.

  Lemma adel_absent : forall (l : list (K * V)) k, aget eqb l k = None -> adel eqb l k = l.
  Proof.
    induction l as [|[a b] l IH]; intros k; cbn; [reflexivity|].
    destruct (eqb_spec k a) as [->|Hn]; intros H; [discriminate|].
    f_equal; auto.
  Qed.

  Lemma amem_aget : forall (l : list (K * V)) k, amem eqb l k = true <-> aget eqb l k <> None.
  Proof. intros l k; unfold amem; destruct (aget eqb l k); split; congruence. Qed.
End Assoc.

(** ** The three key types *)
Lemma pair_eqb_spec : forall a b : N * N, reflect (a = b) (pair_eqb a b).
Proof.
  intros [a1 a2] [b1 b2]. unfold pair_eqb; cbn.
  destruct (N.eqb_spec a1 b1), (N.eqb_spec a2 b2); cbn; constructor; congruence.
Qed.

Lemma pair_eqb_refl : forall a, pair_eqb a a = true.
Proof. intros a; destruct (pair_eqb_spec a a); congruence. Qed.

Lemma nget_nset {V} (l : list (N * V)) k v k' :
  nget (nset l k v) k' = if N.eqb k' k then Some v else nget l k'.
Proof. apply aget_aset, N.eqb_spec. Qed.
Lemma nget_ndel {V} (l : list (N * V)) k k' :
  nget (ndel l k) k' = if N.eqb k' k then None else nget l k'.
Proof. apply aget_adel, N.eqb_spec. Qed.
Lemma sget_sset {V} (l : list (string * V)) k v k' :
  sget (sset l k v) k' = if String.eqb k' k then Some v else sget l k'.
Proof. apply aget_aset, String.eqb_spec. Qed.
Lemma sget_sdel {V} (l : list (string * V)) k k' :
  sget (sdel l k) k' = if String.eqb k' k then None else sget l k'.
Proof. apply aget_adel, String.eqb_spec. Qed.
Lemma cget_cset {V} (l : list (callid * V)) k v k' :
  cget (cset l k v) k' = if pair_eqb k' k then Some v else cget l k'.
Proof. apply aget_aset, pair_eqb_spec. Qed.
Lemma cget_cdel {V} (l : list (callid * V)) k k' :
  cget (cdel l k) k' = if pair_eqb k' k then None else cget l k'.
Proof. apply aget_adel, pair_eqb_spec. Qed.

Lemma cget_cset_same {V} (l : list (callid * V)) k v : cget (cset l k v) k = Some v.
Proof. rewrite cget_cset, pair_eqb_refl; reflexivity. Qed.
Lemma cget_cdel_same {V} (l : list (callid * V)) k : cget (cdel l k) k = None.
Proof. rewrite cget_cdel, pair_eqb_refl; reflexivity. Qed.
Lemma cget_cset_other {V} (l : list (callid * V)) k v k' : k' <> k -> cget (cset l k v) k' = cget l k'.
Proof. intros H; rewrite cget_cset. destruct (pair_eqb_spec k' k); congruence. Qed.
Lemma cget_cdel_other {V} (l : list (callid * V)) k k' : k' <> k -> cget (cdel l k) k' = cget l k'.
Proof. intros H; rewrite cget_cdel. destruct (pair_eqb_spec k' k); congruence. Qed.

Lemma dget_dset (d : dict) k v k' :
  dget (dset d k v) k' = if String.eqb k' k then Some v else dget d k'.
Proof. apply aget_aset, String.eqb_spec. Qed.
Lemma dhas_dset (d : dict) k v k' :
  dhas (dset d k v) k' = String.eqb k' k || dhas d k'.
Proof. unfold dhas, amem. fold (dget (dset d k v) k'). rewrite dget_dset. fold (dget d k'). destruct (String.eqb k' k); reflexivity. Qed.

(** ** nmem / nremove / nremove1 *)
Lemma nmem_In : forall x l, nmem x l = true <-> In x l.
Proof.
  intros x l. unfold nmem. rewrite existsb_exists. split.
  - intros [y [H E]]. apply N.eqb_eq in E. subst; auto.
  - intros H. exists x. split; [auto | apply N.eqb_refl].
Qed.

Lemma nmem_false : forall x l, nmem x l = false <-> ~ In x l.
Proof. intros x l. rewrite <- nmem_In. destruct (nmem x l); split; congruence. Qed.

Lemma In_nremove : forall x y l, In y (nremove x l) <-> In y l /\ y <> x.
Proof.
  intros x y l. unfold nremove. rewrite filter_In.
  destruct (N.eqb_spec x y); cbn; split; intros [A B]; split; auto; congruence.
Qed.

Lemma NoDup_nremove : forall x l, NoDup l -> NoDup (nremove x l).
Proof. intros x l. apply NoDup_filter. Qed.

Lemma In_nremove1 : forall x y l, In y (nremove1 x l) -> In y l.
Proof.
  induction l as [|a l IH]; cbn; [tauto|].
  destruct (N.eqb_spec x a); cbn; [tauto|]. intros [E|H]; auto.
Qed.

Lemma In_nremove1_NoDup : forall x y l, NoDup l -> (In y (nremove1 x l) <-> In y l /\ y <> x).
Proof.
  induction l as [|a l IH]; intros ND; cbn; [tauto|].
  inversion ND as [|? ? Hni ND']; subst.
  destruct (N.eqb_spec x a) as [->|Hn]; cbn.
  - split; [intros H; split; [auto | intros ->; tauto] | intros [[E|H] Hne]; [congruence | auto]].
  - rewrite IH by assumption. split.
    + intros [E|[H Hne]]; [subst; split; [auto | congruence] | tauto].
    + intros [[E|H] Hne]; auto.
Qed.

Lemma In_nremove1_other : forall x y l, y <> x -> In y l -> In y (nremove1 x l).
Proof.
  induction l as [|a l IH]; cbn; [tauto|]. intros Hne [E|H].
  - subst. destruct (N.eqb_spec x y); [congruence | cbn; auto].
  - destruct (N.eqb_spec x a); cbn; auto.
Qed.

Lemma NoDup_nremove1 : forall x l, NoDup l -> NoDup (nremove1 x l).
Proof.
  induction l as [|a l IH]; intros ND; cbn; [constructor|].
  inversion ND as [|? ? Hni ND']; subst.
  destruct (N.eqb_spec x a); [auto|].
  constructor; [|auto]. intros H. apply In_nremove1 in H. tauto.
Qed.

Lemma NoDup_app_single : forall (x : N) l, NoDup l -> ~ In x l -> NoDup (l ++ [x]).
Proof.
  induction l as [|a l IH]; intros ND Hni; cbn.
  - constructor; [tauto | constructor].
  - inversion ND; subst. constructor.
    + rewrite in_app_iff. cbn. intros [H|[H|[]]]; [tauto | subst; apply Hni; cbn; auto].
    + apply IH; [auto | intros H; apply Hni; cbn; auto].
Qed.

(** ** idgen *)
Lemma idgen_next_nowrap : forall n, n < max_idN -> idgen_next n = n + 1.
Proof. intros n H. unfold idgen_next. destruct (N.leb_spec (n + 1) max_idN); lia. Qed.
