(** * Histories of the whole model, C18 part 1: vocabulary and the
    component-level facts.

    - [att A tr]: the attached session ids, in join order, read off a trace
      alone: a JOIN operation with a role, of an id that is not attached and is
      not the meta session's, appends; a transport drop, an ABORT or a GOODBYE
      sent by the router removes;
    - [noend o]: the output [o] contains no ABORT / GOODBYE (to a client);
      proved of every broker and dealer function, the three places excepted
      where the router aborts a client ([publish] under [publish_aborts],
      [sync_yield] under [yield_aborts], [call]'s [CallAbort]);
    - [mregs d]: a registration the meta session is a callee of has no other
      callee, discloses the caller and has the default invocation policy;
      kept by every dealer function run on behalf of a client.
    No reachability hypotheses are needed for any of this. *)
From Nexus Require Import Router.Realm Router.AssocLemmas Router.RealmLib Router.RealmProofs
     Router.RealmMetaProofs Router.RealmLeave.
From Nexus Require Import Router.DealerLib Router.DealerProofs Router.DealerReg Router.DealerCall Router.DealerWf
     Router.DealerWfCalls.
From Nexus Require Import Router.RealmWf Router.RealmStep.
From Nexus Require Import Router.RealmTraceLib.
From Coq Require Import Lia ZifyN ZifyNat ZifyBool.

(** ** Attachment, from the trace alone *)
Definition is_end (m : rmsg) : bool :=
  match m with RAbort _ _ | RGoodbye _ _ => true | _ => false end.

(** the session whose attachment the event ends *)
Definition end_of (e : event) : option N :=
  match e with
  | EIn (ODrop x) => Some x
  | EOut (x, m) => if is_end m then Some x else None
  | _ => None
  end.

(** a JOIN of [x] with HELLO details [h] is accepted when [A] are attached *)
Definition joins (A : list N) (x : N) (h : dict) : bool :=
  has_role h && negb (nmem x A) && negb (x =? meta_id).

Definition att_step (A : list N) (e : event) : list N :=
  match e with
  | EIn (OJoin x _ h) => if joins A x h then A ++ [x] else A
  | _ => match end_of e with Some x => nremove x A | None => A end
  end.

Definition att (A : list N) (tr : list event) : list N := fold_left att_step tr A.

Definition ids (r : realm) : list N := map s_id (r_clients r).

Lemma att_app : forall a b A, att A (a ++ b) = att (att A a) b.
Proof. intros. unfold att. apply fold_left_app. Qed.

Lemma att_cons : forall e tr A, att A (e :: tr) = att (att_step A e) tr.
Proof. reflexivity. Qed.

Lemma nremove_notin : forall x l, ~ In x l -> nremove x l = l.
Proof.
  intros x l. induction l as [|y l IH]; intros H; cbn; [reflexivity|].
  destruct (N.eqb_spec x y) as [->|Hn]; [exfalso; apply H; now left|].
  cbn. f_equal. apply IH. intros Hin. apply H. now right.
Qed.

Lemma att_step_out : forall A x m, att_step A (EOut (x, m)) = if is_end m then nremove x A else A.
Proof. intros. cbn. destruct (is_end m); reflexivity. Qed.

Lemma att_step_nometa : forall A e, ~ In meta_id A -> ~ In meta_id (att_step A e).
Proof.
  intros A e H. destruct e as [o|[x m]].
  - destruct o as [x l h|x m orc|x|ms]; cbn; try exact H.
    + unfold joins. destruct (has_role h && negb (nmem x A) && negb (x =? meta_id)) eqn:E; [|exact H].
      intros Hin. apply in_app_or in Hin. destruct Hin as [Hin|[Hx|[]]]; [exact (H Hin)|]. subst x.
      rewrite N.eqb_refl in E. rewrite andb_false_r in E. discriminate.
    + intros Hin. apply In_nremove in Hin. tauto.
  - rewrite att_step_out. destruct (is_end m); [|exact H]. intros Hin. apply In_nremove in Hin. tauto.
Qed.

Lemma att_nometa : forall tr A, ~ In meta_id A -> ~ In meta_id (att A tr).
Proof.
  induction tr as [|e tr IH]; intros A H; [exact H|]. rewrite att_cons. apply IH. now apply att_step_nometa.
Qed.

(** ** Outputs without an end marker (one addressed to the meta session would
    be harmless: it is no client) *)
Definition noend (o : list out) : Prop := forall x m, In (x, m) o -> is_end m = true -> x = meta_id.

Lemma noend_nil : noend [].
Proof. intros x m []. Qed.
Lemma noend_app : forall a b, noend a -> noend b -> noend (a ++ b).
Proof. intros a b A B x m H. apply in_app_or in H. destruct H; eauto. Qed.
Lemma noend_cons : forall x m o, is_end m = false -> noend o -> noend ((x, m) :: o).
Proof. intros x m o A B y n [E|H]; [inversion E; subst; congruence|eauto]. Qed.
Lemma noend_one : forall x m, is_end m = false -> noend [(x, m)].
Proof. intros. apply noend_cons; [assumption|apply noend_nil]. Qed.
Lemma noend_meta : forall m o, noend o -> noend ((meta_id, m) :: o).
Proof. intros m o B y n [E|H]; [inversion E; reflexivity|eauto]. Qed.

Ltac ne := repeat first [ apply noend_nil | apply noend_cons; [reflexivity|] | apply noend_app ].

Lemma att_noend : forall o A, ~ In meta_id A -> noend o -> att A (map EOut o) = A.
Proof.
  induction o as [|[x m] o IH]; intros A H Q; [reflexivity|].
  cbn [map]. rewrite att_cons, att_step_out.
  assert (Q' : noend o) by (intros y n Hin; apply Q; now right).
  destruct (is_end m) eqn:E; [|now apply IH].
  rewrite (Q x m (or_introl eq_refl) E). rewrite nremove_notin by exact H. now apply IH.
Qed.

(** an end marker for [x], among messages that are none *)
Lemma att_end : forall o1 o2 x m A,
    ~ In meta_id A -> noend o1 -> noend o2 -> is_end m = true ->
    att A (map EOut (o1 ++ (x, m) :: o2)) = nremove x A.
Proof.
  intros o1 o2 x m A H Q1 Q2 E. rewrite map_app, att_app, (att_noend o1 A H Q1).
  cbn [map]. rewrite att_cons, att_step_out, E. apply att_noend; [|exact Q2].
  intros Hin. apply In_nremove in Hin. tauto.
Qed.

(** ** Broker *)
Lemma sub_meta_event_noend : forall b t cause pub args, noend (sub_meta_event b t cause pub args).
Proof.
  intros b t cause pub args x m Hin.
  destruct (sub_meta_event_receivers b t cause pub args (x, m) Hin) as (s & st & _ & _ & E).
  cbn [snd] in E. rewrite E. discriminate.
Qed.

Lemma publish_noend : forall cfg lk now b pg pub req opts topic args kw,
    publish_aborts cfg pub opts topic = false \/ s_id pub = meta_id ->
    noend (snd (publish cfg lk now b pg pub req opts topic args kw)).
Proof.
  intros cfg lk now b pg pub req opts topic args kw Hp. unfold publish.
  destruct (negb (valid_uri _ _ _)).
  { cbn [snd]. destruct (opt_bool opts "acknowledge"); ne. }
  destruct (publish_aborts cfg pub opts topic).
  { cbn [snd]. destruct Hp as [Hp| ->]; [discriminate|]. apply noend_meta, noend_nil. }
  destruct (opt_bool opts "disclose_me" && negb (c_disclose cfg)).
  { cbn [snd]. destruct (opt_bool opts "acknowledge"); ne. }
  pose proof (pub_event_fold lk now pub (pg + 1) opts topic args kw (matching_subs b topic) b []) as F.
  destruct (fold_left _ (matching_subs b topic) (b, [])) as [b1 o]. cbn [snd] in *. rewrite F. cbn [app].
  apply noend_app; [|destruct (opt_bool opts "acknowledge"); ne].
  intros x m Hin. unfold pub_events in Hin. apply in_flat_map in Hin. destruct Hin as ([s st] & _ & Hin).
  apply in_map_iff in Hin. destruct Hin as (rs & E & _). inversion E; subst. discriminate.
Qed.

(** what [publish] sends when it aborts the publisher *)
Lemma publish_abort_out : forall cfg lk now b pg pub req opts topic args kw,
    publish_aborts cfg pub opts topic = true ->
    snd (publish cfg lk now b pg pub req opts topic args kw) =
    [(s_id pub, RAbort [("message", vstr "<text>")] e_protocol_violation)].
Proof.
  intros cfg lk now b pg pub req opts topic args kw H. unfold publish. rewrite H.
  unfold publish_aborts in H. apply andb_true_iff in H. destruct H as [H _].
  apply andb_true_iff in H. destruct H as [H _]. rewrite H. reflexivity.
Qed.

Lemma subscribe_noend : forall cfg b pg sid req opts topic, noend (snd (subscribe cfg b pg sid req opts topic)).
Proof.
  intros. pose proof (subscribe_event_order cfg b pg sid req opts topic) as O.
  destruct (subscribe _ _ _ _ _ _ _) as [[b' pg'] o]. cbn [snd].
  destruct O as [(_ & _ & (e & a & ->))|[(id & _ & ->)|[(id & _ & ->)|(sb & _ & _ & _ & ->)]]].
  - ne.
  - ne.
  - apply noend_app; [ne|apply sub_meta_event_noend].
  - apply noend_app; [ne|]. apply noend_app; apply sub_meta_event_noend.
Qed.

Lemma unsubscribe_noend : forall b pg sid req subid, noend (snd (unsubscribe b pg sid req subid)).
Proof.
  intros. pose proof (unsubscribe_event_order b pg sid req subid) as O.
  destruct (unsubscribe _ _ _ _ _) as [[b' pg'] o]. cbn [snd].
  destruct O as [(_ & _ & ->)|[(_ & ->)|(_ & ->)]].
  - ne.
  - apply noend_app; [ne|apply sub_meta_event_noend].
  - apply noend_app; [ne|]. apply noend_app; apply sub_meta_event_noend.
Qed.

Lemma broker_remove_session_noend : forall b pg sid, noend (snd (broker_remove_session b pg sid)).
Proof.
  intros b pg sid. unfold broker_remove_session.
  destruct (nget (b_sess b) sid) as [l|]; [|apply noend_nil].
  assert (G : forall l acc, noend (snd acc) -> noend (snd (fold_left (remove_session_sub sid) l acc))).
  { induction l0 as [|id l0 IH]; intros acc A; cbn [fold_left]; [exact A|].
    apply IH. destruct acc as [[b1 pg1] o1]. cbn [snd] in *. unfold remove_session_sub.
    destruct (nget (b_subs b1) id) as [s|]; [|exact A].
    match goal with |- context [if ?c then _ else _] => destruct c end; cbn [snd];
      repeat (apply noend_app); try exact A; apply sub_meta_event_noend. }
  apply G. apply noend_nil.
Qed.

(** ** Dealer *)
Lemma sync_cancel_noend : forall lk d caller req mode reason ea,
    noend (snd (sync_cancel lk d caller req mode reason ea)).
Proof.
  intros. unfold sync_cancel.
  destruct (cget (d_calls d) (caller, req)); [|apply noend_nil].
  destruct (cget (d_bycall d) (caller, req)) as [ikey|]; [|apply noend_nil].
  destruct (cget (d_invs d) ikey) as [inv|]; [|apply noend_nil].
  destruct (inv_canceled inv); [apply noend_nil|].
  repeat match goal with |- context [if ?c then _ else _] => destruct c end; cbn [snd app]; ne.
Qed.

Lemma cancel_noend : forall lk d caller req opts, noend (snd (cancel lk d caller req opts)).
Proof.
  intros. unfold cancel. destruct (_ || _ || _); [apply sync_cancel_noend|].
  destruct (String.eqb _ ""); [apply sync_cancel_noend|]. cbn [snd]. ne.
Qed.

Lemma sync_error_noend : forall d callee req det err args kw, noend (snd (sync_error d callee req det err args kw)).
Proof.
  intros. unfold sync_error.
  destruct (cget (d_invs d) (callee, req)) as [inv|]; [|apply noend_nil].
  match goal with |- context [cget (d_calls ?D) ?c] => destruct (cget (d_calls D) c) end; cbn [snd]; ne.
Qed.

(** YIELD: an ABORT (to the callee, last) exactly under [yield_aborts] *)
Lemma sync_yield_ends : forall lk d callee req opts args kw,
    lk callee <> None ->
    if yield_aborts lk d callee req opts
    then exists o0, snd (sync_yield lk d callee req opts args kw) =
                    o0 ++ [(callee, RAbort [("message", vstr "<text>")] e_protocol_violation)] /\ noend o0
    else noend (snd (sync_yield lk d callee req opts args kw)).
Proof.
  intros lk d callee req opts args kw Hc. unfold sync_yield, yield_aborts. cbv zeta.
  destruct (cget (d_invs d) (callee, req)) as [inv|].
  2:{ cbn [snd]. destruct (opt_bool opts "progress"); ne. }
  assert (E : forall dd, d_calls (if opt_bool opts "progress" then d
                                 else d_set_invs (cancel_timer d (inv_timer inv)) dd) = d_calls d).
  { intros dd. destruct (opt_bool opts "progress"); [reflexivity|]. cbn [d_calls d_set_invs]. apply ct_calls. }
  match goal with |- context [cget (d_calls ?D) (inv_call inv)] =>
    replace (d_calls D) with (d_calls d) by (symmetry; apply E) end.
  destruct (cget (d_calls d) (inv_call inv)) as [caller|]; [|cbn [snd]; apply noend_nil].
  destruct (lk callee) as [cs|]; [|congruence].
  destruct (ppt_active opts); cbn [andb].
  - destruct (sess_feature cs "callee" f_ppt); cbn [negb].
    + repeat match goal with |- context [if ?c then _ else _] => destruct c end; cbn [snd app]; ne.
    + destruct (opt_bool opts "progress"); cbn [snd].
      * exists []. split; [reflexivity|apply noend_nil].
      * eexists. split; [reflexivity|]. ne.
  - cbn [snd]. ne.
Qed.

Lemma sync_yield_plain_noend : forall lk d callee req args kw,
    noend (snd (sync_yield lk d callee req [] args kw)).
Proof.
  intros. unfold sync_yield. cbv zeta. change (opt_bool [] "progress") with false. cbv iota.
  destruct (cget (d_invs d) (callee, req)) as [inv|]; [|apply noend_nil].
  match goal with |- context [cget (d_calls ?D) ?c] => destruct (cget (d_calls D) c) end; cbn [snd]; [|apply noend_nil].
  change (ppt_active []) with false. cbv iota. cbn [snd]. ne.
Qed.

(** CALL: the caller is aborted exactly in the [CallAbort] outcome *)
Lemma call_ends : forall cfg lk now d caller req opts proc args kw oracle,
    match call cfg lk now d caller req opts proc args kw oracle with
    | CallRefused _ o => noend o
    | CallAbort o => o = [(s_id caller, RAbort [("message", vstr "<text>")] e_protocol_violation)]
    | CallInvoked _ _ o => noend o
    end.
Proof.
  intros. pose proof (call_cases cfg lk now d caller req opts proc args kw oracle) as C.
  inversion C; subst; try reflexivity; unfold no_proc_msg; ne.
Qed.

Lemma register_noend : forall cfg d s req opts proc, noend (snd (fst (register cfg d s req opts proc))).
Proof.
  intros. pose proof (register_event_order cfg d s req opts proc) as O.
  destruct (register cfg d s req opts proc) as [[d' o] mps]. cbn [fst snd].
  destruct O as [(_ & _ & (e & a & ->))|(id & -> & _)]; ne.
Qed.

Lemma unregister_noend : forall d sid req regid, noend (snd (fst (unregister d sid req regid))).
Proof.
  intros. pose proof (unregister_event_order d sid req regid) as O.
  destruct (unregister d sid req regid) as [[d' o] mps]. cbn [fst snd].
  destruct O as [(_ & ->)|(-> & _)]; ne.
Qed.

Lemma cancel_served_noend : forall lk sid acc e, noend (snd acc) -> noend (snd (cancel_served lk sid acc e)).
Proof.
  intros lk sid [d o] [ikey i0] A. unfold cancel_served. cbn [snd] in *.
  destruct (cget (d_invs d) ikey) as [inv|]; [|exact A].
  destruct (negb (inv_callee inv =? sid)); [exact A|].
  destruct (cget (d_calls d) (inv_call inv)) as [caller|]; [|exact A].
  match goal with |- context [sync_cancel ?a ?b ?c ?d0 ?e ?f ?g] =>
    pose proof (sync_cancel_noend a b c d0 e f g) as S; destruct (sync_cancel a b c d0 e f g) as [d3 o3] end.
  cbn [snd] in *. now apply noend_app.
Qed.

Lemma dealer_remove_session_noend : forall lk d sid, noend (snd (fst (dealer_remove_session lk d sid))).
Proof.
  intros lk d sid. unfold dealer_remove_session.
  destruct (fold_left (remove_callee_reg sid) _ (d, [])) as [d1 mp].
  assert (G : forall l acc, noend (snd acc) -> noend (snd (fold_left (cancel_served lk sid) l acc))).
  { induction l as [|e l IH]; intros acc A; cbn [fold_left]; [exact A|]. apply IH. now apply cancel_served_noend. }
  specialize (G (d_invs (d_set_callee_regs d1 (ndel (d_callee_regs d1) sid)))
                (d_set_callee_regs d1 (ndel (d_callee_regs d1) sid), []) noend_nil).
  destruct (fold_left (cancel_served lk sid) _ _) as [d3 o]. exact G.
Qed.

Lemma fire_timers_noend : forall lk now d, noend (snd (fire_timers lk now d)).
Proof.
  intros lk now d. rewrite fire_timers_fold.
  generalize (sort_timers (filter (fun '((_, (dl, _)) : N * (N * callid)) => dl <=? now) (d_timers d))). intros l.
  assert (G : forall l acc, noend (snd acc) -> noend (snd (fold_left (fire_step lk) l acc))).
  { clear. induction l as [|e l IH]; intros acc A; cbn [fold_left]; [exact A|]. apply IH.
    destruct acc as [d o]. destruct e as [tid [dl cid]]. unfold fire_step. cbn [snd] in *.
    destruct (amem N.eqb (d_timers d) tid); [|exact A].
    match goal with |- context [sync_cancel ?a ?b ?c ?d0 ?e0 ?f ?g] =>
      pose proof (sync_cancel_noend a b c d0 e0 f g) as S; destruct (sync_cancel a b c d0 e0 f g) as [d2 o2] end.
    cbn [snd] in *. now apply noend_app. }
  apply G. apply noend_nil.
Qed.

Lemma gate_refusal_noend : forall r s m out, gate r s m = inr out -> noend out.
Proof.
  intros r s m out. unfold gate.
  destruct (c_authz (r_cfg r)) as [f|]; [|discriminate].
  destruct (s_local s && negb (c_local_authz (r_cfg r))); [discriminate|].
  destruct (f (s_id s) (s_local s) (s_details s) m); [discriminate| |];
    intros H; inversion H; subst; clear H;
    destruct m; try (destruct (opt_bool opts "acknowledge")); ne.
Qed.

(** ** The meta session's registrations stay its own *)
Definition meta_reg (rg : registration) : Prop :=
  reg_callees rg = [meta_id] /\ reg_disclose rg = [meta_id] /\ reg_policy rg = "".

Definition mregs (d : dealer) : Prop :=
  forall id rg, nget (d_regs d) id = Some rg -> In meta_id (reg_callees rg) -> meta_reg rg.

Lemma mregs_ext : forall d d', d_regs d' = d_regs d -> mregs d -> mregs d'.
Proof. intros d d' E H id rg. rewrite E. apply H. Qed.

Lemma mregs_nset : forall d d' id rg',
    mregs d -> d_regs d' = nset (d_regs d) id rg' -> (In meta_id (reg_callees rg') -> meta_reg rg') -> mregs d'.
Proof.
  intros d d' id rg' H E Hn id1 rg1. rewrite E, ngs.
  destruct (N.eqb_spec id1 id) as [->|Hne]; [|apply H]. intros H1. inversion H1; subst. exact Hn.
Qed.

Lemma mregs_ndel : forall d d' id, mregs d -> d_regs d' = ndel (d_regs d) id -> mregs d'.
Proof.
  intros d d' id H E id1 rg1. rewrite E, ngd. destruct (N.eqb id1 id); [discriminate|apply H].
Qed.

Lemma mregs_register : forall cfg d s req opts proc,
    mregs d -> s_id s <> meta_id -> mregs (fst (fst (register cfg d s req opts proc))).
Proof.
  intros cfg d s req opts proc H Hs. unfold register.
  destruct (negb (valid_uri _ _ _)); [exact H|].
  destruct (str_prefix_wamp proc && _); [exact H|].
  destruct (negb (c_disclose cfg) && _ && _); [exact H|].
  assert (Hnew : forall d' rg', d_regs d' = nset (d_regs d) (idgen_next (d_idgen d)) rg' ->
                                reg_callees rg' = [s_id s] -> mregs d').
  { intros d' rg' E Ec. eapply mregs_nset; [exact H|exact E|]. rewrite Ec. intros [Hi|[]]. congruence. }
  destruct (sget (d_map d (mkind_of (opt_string opts "match"))) proc) as [id0|].
  - destruct (nget (d_regs d) id0) as [rg|] eqn:Hr.
    + destruct (negb (shared_policy (reg_policy rg)) || _ || _) eqn:Hc; [exact H|]. cbn [fst].
      eapply mregs_nset; [exact H|reflexivity|]. cbn [reg_callees]. intros Hin. exfalso.
      apply in_app_or in Hin. destruct Hin as [Hin|[Hin|[]]]; [|congruence].
      destruct (H id0 rg Hr Hin) as (_ & _ & Hp). rewrite Hp in Hc. cbn in Hc. discriminate.
    + cbn [fst]. eapply Hnew; [destruct (mkind_of (opt_string opts "match")); reflexivity|reflexivity].
  - cbn [fst]. eapply Hnew; [destruct (mkind_of (opt_string opts "match")); reflexivity|reflexivity].
Qed.

Lemma mregs_del_callee_reg : forall d sid id,
    mregs d -> sid <> meta_id -> mregs (fst (del_callee_reg d sid id)).
Proof.
  intros d sid id H Hs. unfold del_callee_reg.
  destruct (nget (d_regs d) id) as [rg|] eqn:Hr; [|exact H].
  destruct (nmem sid (reg_callees rg)) eqn:Hm; cbn [negb]; [|exact H].
  apply nmem_In in Hm.
  destruct (nremove1 sid (reg_callees rg)) as [|c cs] eqn:Ec; cbn [fst].
  - eapply mregs_ndel; [exact H|]. destruct (mkind_of (reg_match rg)); reflexivity.
  - eapply mregs_nset; [exact H|reflexivity|]. cbn [reg_callees]. rewrite <- Ec. intros Hin. exfalso.
    apply In_nremove1 in Hin. destruct (H id rg Hr Hin) as (Hc & _). rewrite Hc in Hm.
    destruct Hm as [Hm|[]]. congruence.
Qed.

Lemma mregs_unregister : forall d sid req id,
    mregs d -> sid <> meta_id -> mregs (fst (fst (unregister d sid req id))).
Proof.
  intros d sid req id H Hs. unfold unregister.
  pose proof (mregs_del_callee_reg (d_set_callee_regs d (callee_del_reg (d_callee_regs d) sid id)) sid id
                                   (mregs_ext d _ eq_refl H) Hs) as M.
  destruct (del_callee_reg _ sid id) as [d1 [deleted|]]; cbn [fst] in *; [exact M|].
  eapply mregs_ext; [|exact H]. reflexivity.
Qed.

Lemma mregs_remove_fold : forall sid regs d mp,
    mregs d -> sid <> meta_id -> mregs (fst (fold_left (remove_callee_reg sid) regs (d, mp))).
Proof.
  intros sid regs; induction regs as [|id regs IH]; intros d mp H Hs; cbn [fold_left]; [exact H|].
  destruct (remove_callee_reg sid (d, mp) id) as [d1 mp1] eqn:E. apply IH; [|exact Hs].
  unfold remove_callee_reg in E. pose proof (mregs_del_callee_reg d sid id H Hs) as M.
  destruct (del_callee_reg d sid id) as [d2 [deleted|]]; inversion E; subst; cbn [fst] in M; auto.
Qed.

Lemma mregs_drs : forall lk d sid,
    mregs d -> sid <> meta_id -> mregs (fst (fst (dealer_remove_session lk d sid))).
Proof.
  intros lk d sid H Hs. unfold dealer_remove_session.
  pose proof (mregs_remove_fold sid (match nget (d_callee_regs d) sid with Some l => l | None => [] end) d [] H Hs) as M1.
  destruct (fold_left (remove_callee_reg sid) _ (d, [])) as [d1 mp]. cbn [fst] in M1.
  assert (E2 : forall l acc, d_regs (fst (fold_left (cancel_served lk sid) l acc)) = d_regs (fst acc)).
  { induction l as [|e l IH]; intros acc; cbn [fold_left]; [reflexivity|]. rewrite IH. apply cancel_served_regs. }
  specialize (E2 (d_invs (d_set_callee_regs d1 (ndel (d_callee_regs d1) sid)))
                 (d_set_callee_regs d1 (ndel (d_callee_regs d1) sid), [])).
  destruct (fold_left (cancel_served lk sid) _ _) as [d3 o]. cbn [fst] in *.
  assert (E3 : forall l dd, d_regs (fold_left (drop_own_call sid) l dd) = d_regs dd).
  { induction l as [|e l IH]; intros dd; cbn [fold_left]; [reflexivity|]. rewrite IH. apply drop_own_call_regs. }
  eapply mregs_ext; [|exact M1]. rewrite E3, E2. reflexivity.
Qed.

(** a registration [match_procedure] returns is stored in the table *)
Lemma match_procedure_stored : forall d proc oracle rg,
    match_procedure d proc oracle = Some rg -> exists id, nget (d_regs d) id = Some rg.
Proof.
  intros d proc oracle rg. unfold match_procedure.
  destruct (sget (d_exact d) proc) as [id|]; [eauto|].
  destruct (longest (filter _ (d_pfx d))) as [|[p id] l]; [|eauto].
  destruct (nth_error _ _) as [[w id]|]; [eauto|discriminate].
Qed.

Lemma mregs_call : forall cfg lk now d caller req opts proc args kw oracle,
    mregs d ->
    match call cfg lk now d caller req opts proc args kw oracle with
    | CallRefused d' _ => mregs d'
    | CallAbort _ => True
    | CallInvoked d' _ _ => mregs d'
    end.
Proof.
  intros cfg lk now d caller req opts proc args kw oracle H.
  assert (Hn : forall rg next d', match_procedure d proc oracle = Some rg ->
                 d_regs d' = nset (d_regs d) (reg_id rg) (reg_set_next rg next) -> mregs d').
  { intros rg next d' Hm E. destruct (match_procedure_stored d proc oracle rg Hm) as (id & Hr).
    eapply mregs_nset; [exact H|exact E|]. cbn [reg_set_next reg_callees]. intros Hin.
    destruct (H id rg Hr Hin) as (A & B & C). repeat split; assumption. }
  pose proof (call_cases cfg lk now d caller req opts proc args kw oracle) as C.
  inversion C; subst; auto;
    try (eapply mregs_ext; [apply nps_frame|exact H]; fail);
    try (eapply mregs_ext; [apply chs_regs|exact H]; fail);
    try (eapply Hn; [eassumption|reflexivity]; fail);
    try (eapply Hn; [eassumption|apply cfs_regs]; fail).
Qed.

(** an aborted CALL moves at most the round-robin cursor of the matched registration *)
Lemma mregs_call_abort : forall lk d caller req opts proc oracle,
    mregs d -> mregs (call_abort_dealer lk d caller req opts proc oracle).
Proof.
  intros lk d caller req opts proc oracle H. unfold call_abort_dealer.
  destruct (match_procedure d proc oracle) as [rg|] eqn:Hm; [|exact H].
  destruct (reg_callees rg) eqn:Ec; [exact H|]. rewrite <- Ec.
  destruct (opt_bool opts "progress" && _); [exact H|].
  destruct (cget (d_bycall d) (s_id caller, req)); [exact H|].
  destruct (select_callee rg oracle) as [[cid next]|]; [|exact H].
  destruct (lk cid); [|exact H].
  destruct (match_procedure_stored d proc oracle rg Hm) as (id & Hr).
  eapply mregs_nset; [exact H|reflexivity|]. cbn [reg_callees]. intros Hin.
  destruct (H id rg Hr Hin) as (A & B & C). repeat split; assumption.
Qed.
