(** * Dealer proofs, part 12: from the per-step facts to histories.

    [reply_unique_abstract] is the combinatorial core of C02's trace claim, for
    ANY labelled transition system whose steps satisfy the three per-step facts
    the dealer functions are proved to satisfy (Props/C02.v [reply_owned],
    and [calls_grow_only_by_call] below):
    - own:   a reply for [cid] is sent only if [cid] is recorded before the
             step, or the step is itself a CALL [cid];
    - final: after a step that sent a final reply for [cid], [cid] is not recorded;
    - add:   [cid] becomes recorded only by a step that is a CALL [cid];
    - once:  within one step's output nothing for [cid] follows its final reply.
    Conclusion: after a final reply for [cid], any further reply for [cid] is
    preceded by a new CALL [cid].  The one dealer step that does not satisfy
    "final" is a non-progress YIELD while the caller is still sending chunks
    ([inv_inprogress], the documented exception in [reply_owned]); an
    instantiation over [Realm.run] has to exclude it (or treat that RESULT as
    not final). *)
From Nexus Require Import Router.Realm Router.DealerLib Router.DealerProofs Router.DealerReg
     Router.DealerCall Router.DealerWfCalls Router.DealerWfRegs Router.DealerWf Router.DealerRemove
     Router.DealerReply Router.DealerTimers Router.DealerOwned.
From Coq Require Import Lia.

Section Abstract.
  Variables (S L : Type).
  Variable rec : S -> callid -> Prop.          (* the call is recorded in the state *)
  Variable is_call : L -> callid -> Prop.      (* the step is a CALL with that (caller, request) *)

  (** one step: source, label, output, target *)
  Definition tstep := (S * L * list out * S)%type.
  Definition src (t : tstep) : S := fst (fst (fst t)).
  Definition lab (t : tstep) : L := snd (fst (fst t)).
  Definition outp (t : tstep) : list out := snd (fst t).
  Definition tgt (t : tstep) : S := snd t.

  Fixpoint chained (s : S) (l : list tstep) : Prop :=
    match l with
    | [] => True
    | t :: r => src t = s /\ chained (tgt t) r
    end.

  Definition replies_to (cid : callid) (m : out) : Prop := exists fin, reply_of m = Some (cid, fin).

  Record step_ok (t : tstep) : Prop := {
    so_own : forall m cid, In m (outp t) -> replies_to cid m -> rec (src t) cid \/ is_call (lab t) cid;
    so_final : forall m cid, In m (outp t) -> reply_of m = Some (cid, true) -> ~ rec (tgt t) cid;
    so_add : forall cid, rec (tgt t) cid -> rec (src t) cid \/ is_call (lab t) cid;
    so_once : forall o1 m o2 cid, outp t = o1 ++ m :: o2 -> reply_of m = Some (cid, true) ->
                forall m', In m' o2 -> ~ replies_to cid m'
  }.

  Lemma not_rec_persists : forall l s cid,
      chained s l -> Forall step_ok l -> ~ rec s cid ->
      (forall t, In t l -> ~ is_call (lab t) cid) ->
      forall t, In t l -> ~ rec (src t) cid /\ ~ rec (tgt t) cid.
  Proof.
    induction l as [|t0 l IH]; intros s cid Hch Hok Hn Hnc t Hin; [destruct Hin|].
    destruct Hch as [Hs Hch]. inversion Hok as [|a b Hok0 Hokl [Ea Eb]]. clear Ea Eb a b.
    assert (Hn0 : ~ rec (tgt t0) cid).
    { intros Hr. destruct (so_add _ Hok0 cid Hr) as [H|H]; [rewrite Hs in H; auto|].
      eapply Hnc; [left; reflexivity | exact H]. }
    destruct Hin as [<-|Hin].
    - split; [rewrite Hs; exact Hn | exact Hn0].
    - eapply IH; eauto. intros t' Ht'. apply Hnc. right; exact Ht'.
  Qed.

  (** After the final reply for [cid] sent by step [t1], a later step [t2]
      sends a reply for [cid] only if a CALL [cid] was issued in between
      (possibly [t2] itself).  (Stated without excluded middle: "no CALL in
      between" is contradictory.)  Within [t1] itself nothing for [cid] follows
      the final reply: [so_once]. *)
  Theorem reply_unique_abstract : forall s0 pre t1 mid t2 post cid m1 m2,
      chained s0 (pre ++ t1 :: mid ++ t2 :: post) ->
      Forall step_ok (pre ++ t1 :: mid ++ t2 :: post) ->
      In m1 (outp t1) -> reply_of m1 = Some (cid, true) ->
      In m2 (outp t2) -> replies_to cid m2 ->
      (forall t, In t (mid ++ [t2]) -> ~ is_call (lab t) cid) -> False.
  Proof.
    intros s0 pre t1 mid t2 post cid m1 m2 Hch Hok H1 F1 H2 R2 Hnone.
    assert (Hch' : forall l s, chained s (l ++ t1 :: mid ++ t2 :: post) -> chained (tgt t1) (mid ++ t2 :: post)).
    { induction l as [|a l IH]; intros s H; cbn in H; [tauto|]. destruct H as [_ H]. eapply IH; eauto. }
    pose proof (Hch' _ _ Hch) as Hc1.
    apply Forall_app in Hok. destruct Hok as [_ Hok]. inversion Hok as [|? ? Hok1 Hok2]; subst.
    pose proof (so_final _ Hok1 _ _ H1 F1) as Hn1.
    apply Forall_app in Hok2. destruct Hok2 as [Hokm Hokp]. inversion Hokp as [|? ? Hokt2 _]; subst.
    assert (Hok3 : Forall step_ok (mid ++ [t2])).
    { apply Forall_app. split; [exact Hokm | constructor; [exact Hokt2 | constructor]]. }
    assert (Hc3 : chained (tgt t1) (mid ++ [t2])).
    { clear - Hc1. revert Hc1. generalize (tgt t1). induction mid as [|a l IH]; intros s H; cbn in *.
      - tauto.
      - destruct H as [A B]. split; [exact A | apply IH; exact B]. }
    destruct (not_rec_persists (mid ++ [t2]) (tgt t1) cid Hc3 Hok3 Hn1 Hnone t2) as [Hs2 _].
    { apply in_or_app. right. left. reflexivity. }
    destruct (so_own _ Hokt2 _ _ H2 R2) as [H|H]; [auto|].
    eapply Hnone; [apply in_or_app; right; left; reflexivity | exact H].
  Qed.
End Abstract.

(** ** The "add" fact for the dealer: a call record appears only through [call],
    and only for the CALL being processed *)
Lemma nps_calls_sub : forall d cid c x,
    cget (d_calls (no_proc_state d cid)) c = Some x -> cget (d_calls d) c = Some x.
Proof.
  intros d cid c x. unfold no_proc_state. destruct (cget (d_bycall d) cid) as [k|]; [|auto].
  rewrite dc_calls, cget_cdel. destruct (pair_eqb c cid); [discriminate|].
  destruct (cget (d_invs d) k); [rewrite ct_calls|]; auto.
Qed.

Theorem calls_grow_only_by_call_proof : forall lookup d,
    dealer_wf lookup d ->
    (forall lk caller req opts c x,
        cget (d_calls (fst (cancel lk d caller req opts))) c = Some x -> cget (d_calls d) c = Some x) /\
    (forall callee req opts args kw c x,
        cget (d_calls (fst (sync_yield d callee req opts args kw))) c = Some x -> cget (d_calls d) c = Some x) /\
    (forall callee req det err args kw c x,
        cget (d_calls (fst (sync_error d callee req det err args kw))) c = Some x -> cget (d_calls d) c = Some x) /\
    (forall lk now c x,
        cget (d_calls (fst (fire_timers lk now d))) c = Some x -> cget (d_calls d) c = Some x) /\
    (forall lk sid c x,
        cget (d_calls (fst (fst (dealer_remove_session lk d sid)))) c = Some x -> cget (d_calls d) c = Some x) /\
    (forall cfg callee req opts proc, d_calls (fst (fst (register cfg d callee req opts proc))) = d_calls d) /\
    (forall sid req regid, d_calls (fst (fst (unregister d sid req regid))) = d_calls d) /\
    (forall cfg now caller req opts proc args kw oracle,
        match call cfg lookup now d caller req opts proc args kw oracle with
        | CallRefused d' _ => forall c x, cget (d_calls d') c = Some x -> cget (d_calls d) c = Some x
        | CallAbort _ => True
        | CallInvoked d' _ _ =>
            forall c x, cget (d_calls d') c = Some x -> cget (d_calls d) c = Some x \/ c = (s_id caller, req)
        end).
Proof.
  intros lookup d WF. pose proof (wf_calls _ _ WF) as W.
  split; [|split; [|split; [|split; [|split; [|split; [|split]]]]]].
  - intros lk caller req opts. destruct (cancel_core lk d caller req opts W) as [_ S]. apply (cs_sub_calls _ _ S).
  - intros callee req opts args kw. destruct (sync_yield_core d callee req opts args kw W) as [_ S]. apply (cs_sub_calls _ _ S).
  - intros callee req det err args kw. destruct (sync_error_core d callee req det err args kw W) as [_ S]. apply (cs_sub_calls _ _ S).
  - intros lk now. destruct (fire_timers_core lk now d W) as [_ S]. apply (cs_sub_calls _ _ S).
  - intros lk sid. apply (drs_calls_sub lookup lookup lk d sid WF (fun _ _ => eq_refl)).
  - intros. apply register_calls_same.
  - intros sid req regid. pose proof WF as [A B C _ _].
    destruct (unregister_regs_wf lookup d sid req regid A B C) as (_ & _ & _ & E & _). exact E.
  - intros cfg now caller req opts proc args kw oracle.
    pose proof (call_cases cfg lookup now d caller req opts proc args kw oracle) as H.
    inversion H; auto; try (intros c x; apply nps_calls_sub).
    + intros c x. rewrite chs_calls. auto.
    + intros c x. rewrite cfs_calls, cget_cset. destruct (pair_eqb_spec c (s_id caller, req)); auto.
Qed.

(** ** Non-vacuity: a three-step history of the model
    (the callee's ERROR ends call (10,7); the caller CALLs request 7 again;
    the new callee YIELDs) satisfies the hypotheses of [reply_unique_abstract]. *)
From Nexus Require Import Router.DealerExamples.

Definition ex_rec (d : dealer) (cid : callid) : Prop := cget (d_calls d) cid <> None.
Definition ex_is_call (b : bool) (cid : callid) : Prop := b = true /\ cid = (10, 7).

Definition e1 : dealer * list out := sync_error d3 11 1 [] "com.err" [] [].
Definition ex_call2 : call_result := call cfg0 (lk 1 0) 9 (fst e1) s10 7 [] "com.x" [] [] 0.
Definition e2 : dealer := match ex_call2 with CallInvoked d _ _ => d | _ => fst e1 end.
Definition e3 : dealer * list out := sync_yield e2 12 1 [] [vnat 5] [].

Definition ex_t1 : tstep dealer bool := (d3, false, snd e1, fst e1).
Definition ex_t2 : tstep dealer bool := (fst e1, true, call_out ex_call2, e2).
Definition ex_t3 : tstep dealer bool := (e2, false, snd e3, fst e3).

Example reply_unique_ex :
    chained dealer bool d3 ([] ++ ex_t1 :: [ex_t2] ++ ex_t3 :: []) /\
    Forall (step_ok dealer bool ex_rec ex_is_call) ([] ++ ex_t1 :: [ex_t2] ++ ex_t3 :: []) /\
    (exists m1, In m1 (outp _ _ ex_t1) /\ reply_of m1 = Some ((10, 7), true)) /\
    (exists m2, In m2 (outp _ _ ex_t3) /\ replies_to (10, 7) m2) /\
    ex_is_call (lab _ _ ex_t2) (10, 7).
Proof.
  assert (O1 : snd e1 = [(10, RError c_CALL 7 [] "com.err" [] [])]) by (vm_compute; reflexivity).
  assert (O2 : call_out ex_call2 = [(12, RInvocation 1 19 [("progress", VBool false); ("procedure", vuri "com.x")] [] [])])
    by (vm_compute; reflexivity).
  assert (O3 : snd e3 = [(10, RResult 7 [] [vnat 5] [])]) by (vm_compute; reflexivity).
  assert (C0 : d_calls d3 = [((10, 7), 10)]) by (vm_compute; reflexivity).
  assert (C1 : d_calls (fst e1) = []) by (vm_compute; reflexivity).
  assert (C2 : d_calls e2 = [((10, 7), 10)]) by (vm_compute; reflexivity).
  assert (C3 : d_calls (fst e3) = []) by (vm_compute; reflexivity).
  split; [change (chained dealer bool d3 [ex_t1; ex_t2; ex_t3]); cbn [chained];
          unfold src, tgt, ex_t1, ex_t2, ex_t3; cbn [fst snd]; auto|]. split.
  - assert (K1 : step_ok dealer bool ex_rec ex_is_call ex_t1).
    { constructor; unfold src, tgt, lab, outp, ex_t1; cbn [fst snd]; rewrite ?O1; unfold ex_rec, ex_is_call; rewrite ?C0, ?C1.
      + intros m cid [<-|[]] [fin H]. cbn in H. inversion H; subst. left. cbn. discriminate.
      + intros m cid [<-|[]] H. cbn. intros E; apply E; reflexivity.
      + intros cid H. exfalso. apply H. reflexivity.
      + intros o1 m o2 cid E H m' Hin. destruct o1 as [|a [|b o1]]; inversion E; subst; destruct Hin. }
    assert (K2 : step_ok dealer bool ex_rec ex_is_call ex_t2).
    { constructor; unfold src, tgt, lab, outp, ex_t2; cbn [fst snd]; rewrite ?O2; unfold ex_rec, ex_is_call; rewrite ?C1, ?C2.
      + intros m cid [<-|[]] [fin H]. discriminate H.
      + intros m cid [<-|[]] H. discriminate H.
      + intros cid H. unfold cget, aget in H.
        destruct (pair_eqb_spec cid (10, 7)) as [Ec|Ec]; [right; split; [reflexivity | exact Ec] | exfalso; apply H; reflexivity].
      + intros o1 m o2 cid E H m' Hin. destruct o1 as [|a [|b o1]]; inversion E; subst; destruct Hin. }
    assert (K3 : step_ok dealer bool ex_rec ex_is_call ex_t3).
    { constructor; unfold src, tgt, lab, outp, ex_t3; cbn [fst snd]; rewrite ?O3; unfold ex_rec, ex_is_call; rewrite ?C2, ?C3.
      + intros m cid [<-|[]] [fin H]. cbn in H. inversion H; subst. left. cbn. discriminate.
      + intros m cid [<-|[]] H. cbn. intros E; apply E; reflexivity.
      + intros cid H. exfalso. apply H. reflexivity.
      + intros o1 m o2 cid E H m' Hin. destruct o1 as [|a [|b o1]]; inversion E; subst; destruct Hin. }
    change ([] ++ ex_t1 :: [ex_t2] ++ ex_t3 :: []) with [ex_t1; ex_t2; ex_t3].
    constructor; [exact K1|]. constructor; [exact K2|]. constructor; [exact K3 | constructor].
  - unfold outp, lab, ex_t1, ex_t2, ex_t3; cbn [fst snd]. rewrite O1, O3. split; [|split].
    + eexists; split; [left; reflexivity | reflexivity].
    + eexists; split; [left; reflexivity | eexists; reflexivity].
    + split; reflexivity.
Qed.
