(** * Dealer proofs, part 12: from the per-step facts to histories.

    [reply_unique_abstract] is the combinatorial core of C02's trace claim, for
    ANY labelled transition system whose steps satisfy the three per-step facts
    the dealer functions are proved to satisfy (Props/C02.v [reply_owned],
    and [calls_grow_only_by_call] below):
    - own:   a reply for [cid] is sent only if [cid] is recorded before the
             step, or the step is itself a CALL [cid];
    - final: after a step that sent a final reply for [cid], [cid] is not recorded;
    - add:   [cid] becomes recorded only by a step that is a CALL [cid];
    - once:  within one step's output nothing for [cid] follows its final reply.
    Conclusion: after a final reply for [cid], any further reply for [cid] is
    preceded by a new CALL [cid].  Every dealer function satisfies the four
    facts from any well-formed state ([dealer_fn_step_ok] below), so the
    conclusion holds for every history of dealer function applications
    ([dealer_reply_unique]). *)
From Nexus Require Import Router.Realm Router.DealerLib Router.DealerProofs Router.DealerReg
     Router.DealerCall Router.DealerWfCalls Router.DealerWfRegs Router.DealerWf Router.DealerRemove
     Router.DealerReply Router.DealerTimers Router.DealerOwned.
From Coq Require Import Lia.

Section Abstract.
  Variables (S L : Type).
  Variable rec : S -> callid -> Prop.          (* the call is recorded in the state *)
  Variable is_call : L -> callid -> Prop.      (* the step is a CALL with that (caller, request) *)

  (** one step: source, label, output, target *)
  Definition tstep := (S * L * list out * S)%type.
  Definition src (t : tstep) : S := fst (fst (fst t)).
  Definition lab (t : tstep) : L := snd (fst (fst t)).
  Definition outp (t : tstep) : list out := snd (fst t).
  Definition tgt (t : tstep) : S := snd t.

  Fixpoint chained (s : S) (l : list tstep) : Prop :=
    match l with
    | [] => True
    | t :: r => src t = s /\ chained (tgt t) r
    end.

  Definition replies_to (cid : callid) (m : out) : Prop := exists fin, reply_of m = Some (cid, fin).

  Record step_ok (t : tstep) : Prop := {
    so_own : forall m cid, In m (outp t) -> replies_to cid m -> rec (src t) cid \/ is_call (lab t) cid;
    so_final : forall m cid, In m (outp t) -> reply_of m = Some (cid, true) -> ~ rec (tgt t) cid;
    so_add : forall cid, rec (tgt t) cid -> rec (src t) cid \/ is_call (lab t) cid;
    so_once : forall o1 m o2 cid, outp t = o1 ++ m :: o2 -> reply_of m = Some (cid, true) ->
                forall m', In m' o2 -> ~ replies_to cid m'
  }.

  Lemma not_rec_persists : forall l s cid,
      chained s l -> Forall step_ok l -> ~ rec s cid ->
      (forall t, In t l -> ~ is_call (lab t) cid) ->
      forall t, In t l -> ~ rec (src t) cid /\ ~ rec (tgt t) cid.
  Proof.
    induction l as [|t0 l IH]; intros s cid Hch Hok Hn Hnc t Hin; [destruct Hin|].
    destruct Hch as [Hs Hch]. inversion Hok as [|a b Hok0 Hokl [Ea Eb]]. clear Ea Eb a b.
    assert (Hn0 : ~ rec (tgt t0) cid).
    { intros Hr. destruct (so_add _ Hok0 cid Hr) as [H|H]; [rewrite Hs in H; auto|].
      eapply Hnc; [left; reflexivity | exact H]. }
    destruct Hin as [<-|Hin].
    - split; [rewrite Hs; exact Hn | exact Hn0].
    - eapply IH; eauto. intros t' Ht'. apply Hnc. right; exact Ht'.
  Qed.

  (** After the final reply for [cid] sent by step [t1], a later step [t2]
      sends a reply for [cid] only if a CALL [cid] was issued in between
      (possibly [t2] itself).  (Stated without excluded middle: "no CALL in
      between" is contradictory.)  Within [t1] itself nothing for [cid] follows
      the final reply: [so_once]. *)
  Theorem reply_unique_abstract : forall s0 pre t1 mid t2 post cid m1 m2,
      chained s0 (pre ++ t1 :: mid ++ t2 :: post) ->
      Forall step_ok (pre ++ t1 :: mid ++ t2 :: post) ->
      In m1 (outp t1) -> reply_of m1 = Some (cid, true) ->
      In m2 (outp t2) -> replies_to cid m2 ->
      (forall t, In t (mid ++ [t2]) -> ~ is_call (lab t) cid) -> False.
  Proof.
    intros s0 pre t1 mid t2 post cid m1 m2 Hch Hok H1 F1 H2 R2 Hnone.
    assert (Hch' : forall l s, chained s (l ++ t1 :: mid ++ t2 :: post) -> chained (tgt t1) (mid ++ t2 :: post)).
    { induction l as [|a l IH]; intros s H; cbn in H; [tauto|]. destruct H as [_ H]. eapply IH; eauto. }
    pose proof (Hch' _ _ Hch) as Hc1.
    apply Forall_app in Hok. destruct Hok as [_ Hok]. inversion Hok as [|? ? Hok1 Hok2]; subst.
    pose proof (so_final _ Hok1 _ _ H1 F1) as Hn1.
    apply Forall_app in Hok2. destruct Hok2 as [Hokm Hokp]. inversion Hokp as [|? ? Hokt2 _]; subst.
    assert (Hok3 : Forall step_ok (mid ++ [t2])).
    { apply Forall_app. split; [exact Hokm | constructor; [exact Hokt2 | constructor]]. }
    assert (Hc3 : chained (tgt t1) (mid ++ [t2])).
    { clear - Hc1. revert Hc1. generalize (tgt t1). induction mid as [|a l IH]; intros s H; cbn in *.
      - tauto.
      - destruct H as [A B]. split; [exact A | apply IH; exact B]. }
    destruct (not_rec_persists (mid ++ [t2]) (tgt t1) cid Hc3 Hok3 Hn1 Hnone t2) as [Hs2 _].
    { apply in_or_app. right. left. reflexivity. }
    destruct (so_own _ Hokt2 _ _ H2 R2) as [H|H]; [auto|].
    eapply Hnone; [apply in_or_app; right; left; reflexivity | exact H].
  Qed.
End Abstract.

(** ** The "add" fact for the dealer: a call record appears only through [call],
    and only for the CALL being processed *)
Lemma nps_calls_sub : forall d cid c x,
    cget (d_calls (no_proc_state d cid)) c = Some x -> cget (d_calls d) c = Some x.
Proof.
  intros d cid c x. unfold no_proc_state. destruct (cget (d_bycall d) cid) as [k|]; [|auto].
  rewrite dc_calls, cget_cdel. destruct (pair_eqb c cid); [discriminate|].
  destruct (cget (d_invs d) k); [rewrite ct_calls|]; auto.
Qed.

Theorem calls_grow_only_by_call_proof : forall lookup d,
    dealer_wf lookup d ->
    (forall lk caller req opts c x,
        cget (d_calls (fst (cancel lk d caller req opts))) c = Some x -> cget (d_calls d) c = Some x) /\
    (forall lk callee req opts args kw c x,
        cget (d_calls (fst (sync_yield lk d callee req opts args kw))) c = Some x -> cget (d_calls d) c = Some x) /\
    (forall callee req det err args kw c x,
        cget (d_calls (fst (sync_error d callee req det err args kw))) c = Some x -> cget (d_calls d) c = Some x) /\
    (forall lk now c x,
        cget (d_calls (fst (fire_timers lk now d))) c = Some x -> cget (d_calls d) c = Some x) /\
    (forall lk sid c x,
        cget (d_calls (fst (fst (dealer_remove_session lk d sid)))) c = Some x -> cget (d_calls d) c = Some x) /\
    (forall cfg callee req opts proc, d_calls (fst (fst (register cfg d callee req opts proc))) = d_calls d) /\
    (forall sid req regid, d_calls (fst (fst (unregister d sid req regid))) = d_calls d) /\
    (forall cfg now caller req opts proc args kw oracle,
        match call cfg lookup now d caller req opts proc args kw oracle with
        | CallRefused d' _ => forall c x, cget (d_calls d') c = Some x -> cget (d_calls d) c = Some x
        | CallAbort _ => True
        | CallInvoked d' _ _ =>
            forall c x, cget (d_calls d') c = Some x -> cget (d_calls d) c = Some x \/ c = (s_id caller, req)
        end).
Proof.
  intros lookup d WF. pose proof (wf_calls _ _ WF) as W.
  split; [|split; [|split; [|split; [|split; [|split; [|split]]]]]].
  - intros lk caller req opts. destruct (cancel_core lk d caller req opts W) as [_ S]. apply (cs_sub_calls _ _ S).
  - intros lk callee req opts args kw. destruct (sync_yield_core lk d callee req opts args kw W) as [_ S]. apply (cs_sub_calls _ _ S).
  - intros callee req det err args kw. destruct (sync_error_core d callee req det err args kw W) as [_ S]. apply (cs_sub_calls _ _ S).
  - intros lk now. destruct (fire_timers_core lk now d W) as [_ S]. apply (cs_sub_calls _ _ S).
  - intros lk sid. apply (drs_calls_sub lookup lookup lk d sid WF (fun _ _ => eq_refl)).
  - intros. apply register_calls_same.
  - intros sid req regid. pose proof WF as [A B C _ _].
    destruct (unregister_regs_wf lookup d sid req regid A B C) as (_ & _ & _ & E & _). exact E.
  - intros cfg now caller req opts proc args kw oracle.
    pose proof (call_cases cfg lookup now d caller req opts proc args kw oracle) as H.
    inversion H; auto; try (intros c x; apply nps_calls_sub).
    + intros c x. rewrite chs_calls. auto.
    + intros c x. rewrite cfs_calls, cget_cset. destruct (pair_eqb_spec c (s_id caller, req)); auto.
Qed.

(** ** Every dealer function application is an admissible step *)
Definition drec (d : dealer) (cid : callid) : Prop := cget (d_calls d) cid <> None.
Definition dis_call (l : option callid) (cid : callid) : Prop := l = Some cid.
Definition dstep := tstep dealer (option callid).
Definition dstep_ok := step_ok dealer (option callid) drec dis_call.

(** within one output: nothing for [cid] follows the final reply for [cid] *)
Definition once (o : list out) : Prop :=
  forall o1 m o2 cid, o = o1 ++ m :: o2 -> reply_of m = Some (cid, true) ->
    forall m', In m' o2 -> ~ replies_to cid m'.

Lemma once_nofinal : forall o, (forall m cid, In m o -> reply_of m <> Some (cid, true)) -> once o.
Proof.
  intros o H o1 m o2 cid E F. exfalso. eapply H; [|exact F]. rewrite E. apply in_or_app. right. left. reflexivity.
Qed.

Lemma once_last : forall o1 x, (forall m, In m o1 -> reply_of m = None) -> once (o1 ++ [x]).
Proof.
  induction o1 as [|y o1 IH]; intros x H a m b cid E F m' Hin.
  - destruct a as [|a0 a]; cbn in E.
    + inversion E; subst. destruct Hin.
    + inversion E as [[E1 E2]]. destruct a; discriminate E2.
  - destruct a as [|a0 a]; cbn in E; inversion E as [[E1 E2]]; subst.
    + rewrite (H m (or_introl eq_refl)) in F. discriminate.
    + eapply (IH x); eauto. intros m0 Hm0. apply H. right. exact Hm0.
Qed.

Lemma once_app : forall o n,
    once o -> once n ->
    (forall m cid, In m o -> reply_of m = Some (cid, true) -> forall m', In m' n -> ~ replies_to cid m') ->
    once (o ++ n).
Proof.
  intros o n Ho Hn Hx o1 m o2 cid E F m' Hin.
  apply app_eq_app in E. destruct E as (l & [[E1 E2]|[E1 E2]]).
  - (* o = o1 ++ l, m :: o2 = l ++ n *)
    destruct l as [|x l]; cbn in E2.
    + rewrite app_nil_r in E1. subst o1. eapply (Hn [] m o2); eauto.
    + inversion E2; subst x o2. apply in_app_or in Hin. destruct Hin as [Hin|Hin].
      * eapply (Ho o1 m l); eauto.
      * eapply Hx; [| exact F | exact Hin]. rewrite E1. apply in_or_app. right. left. reflexivity.
  - (* o1 = o ++ l, n = l ++ m :: o2 *)
    eapply (Hn l m o2); eauto.
Qed.

(** the generic route: owned replies + no new records + once *)
Lemma dstep_ok_of_owned : forall d d' o lb,
    (forall m, In m o -> owned_reply d d' m) ->
    (forall c x, cget (d_calls d') c = Some x -> cget (d_calls d) c = Some x) ->
    once o -> dstep_ok (d, lb, o, d').
Proof.
  intros d d' o lb Hown Hsub Honce. constructor; unfold src, tgt, lab, outp; cbn [fst snd].
  - intros m cid Hin [fin R]. left. destruct (Hown m Hin cid fin R) as [H _]. unfold drec. congruence.
  - intros m cid Hin R. destruct (Hown m Hin cid true R) as [_ H]. unfold drec. rewrite (H eq_refl). auto.
  - intros cid H. left. unfold drec in *. destruct (cget (d_calls d') cid) as [x|] eqn:E; [|congruence].
    rewrite (Hsub _ _ E). discriminate.
  - exact Honce.
Qed.

(** [once] for the two functions that can answer several calls *)
Definition finals_forgotten (d : dealer) (o : list out) : Prop :=
  forall m cid, In m o -> reply_of m = Some (cid, true) -> cget (d_calls d) cid = None.

Lemma forgotten_shrinks : forall d d' o, shrinks d d' -> finals_forgotten d o -> finals_forgotten d' o.
Proof.
  intros d d' o S H m cid Hin F. specialize (H m cid Hin F).
  destruct (cget (d_calls d') cid) eqn:E; [|reflexivity]. rewrite (sh_calls _ _ S _ _ E) in H. discriminate.
Qed.

Lemma cs_fold_once : forall lookup sid l d o,
    calls_core d -> once o -> finals_forgotten d o ->
    once (snd (fold_left (cancel_served lookup sid) l (d, o))).
Proof.
  intros lookup sid. induction l as [|[k e] l IH]; intros d o W Ho Hf; cbn [fold_left]; [exact Ho|].
  destruct (cancel_served_cases lookup sid d o k e W) as [[E _]|(inv & Hi & Hs & Hp & E)]; rewrite E.
  - apply IH; assumption.
  - pose proof Hp as (Hc & _).
    assert (Rg : forall cid, replies_to cid (gone_msg (inv_call inv)) -> cid = inv_call inv).
    { intros cid [fin R]. cbn in R. rewrite pair_eta in R. inversion R. reflexivity. }
    apply IH.
    + eapply sd_core; eauto.
    + apply once_app; [exact Ho | apply (once_last [] (gone_msg (inv_call inv))); intros m [] |].
      intros m cid Hin F m' [<-|[]] R. apply Rg in R. subst cid. rewrite (Hf m _ Hin F) in Hc. discriminate.
    + intros m cid Hin F. apply in_app_or in Hin. destruct Hin as [Hin|[<-|[]]].
      * eapply forgotten_shrinks; [apply sd_shrinks | exact Hf | exact Hin | exact F].
      * assert (cid = inv_call inv) by (apply Rg; eexists; exact F). subst cid.
        rewrite sd_calls. apply cget_cdel_same.
Qed.

Lemma fire_fold_once : forall lookup (l : list (N * (N * callid))) d o,
    calls_core d -> once o -> finals_forgotten d o ->
    once (snd (fold_left (fire_step lookup) l (d, o))).
Proof.
  intros lookup. induction l as [|[tid [dl cid]] l IH]; intros d o W Ho Hf; cbn [fold_left]; [exact Ho|].
  pose proof (fire_step_mono lookup d o (tid, (dl, cid)) W) as (W1 & S1 & _ & _).
  destruct (fire_step_cases lookup d o tid dl cid) as [[_ E]|[(_ & E & _)|(_ & k & inv & x & Hp & Hc & E)]];
    rewrite E in *; cbn [fst snd] in *.
  - apply IH; assumption.
  - apply IH; [exact W1 | exact Ho | eapply forgotten_shrinks; eauto].
  - set (intr := if callee_can_cancel lookup inv then [interrupt_msg k inv e_timeout "killnowait"] else []) in *.
    assert (Hintr : forall m, In m intr -> reply_of m = None).
    { intros m H. unfold intr in H. destruct (callee_can_cancel lookup inv); [destruct H as [<-|[]]; reflexivity | destruct H]. }
    assert (Rg : forall c, replies_to c (timeout_msg cid) -> c = cid).
    { intros c [fin R]. cbn in R. rewrite pair_eta' in R. inversion R. reflexivity. }
    apply pending_ct_fwd in Hp. destruct Hp as (Hcall & _).
    apply IH; [exact W1 | |].
    + apply once_app; [exact Ho | apply once_last; exact Hintr |].
      intros m c Hin F m' Hin' R. apply in_app_or in Hin'. destruct Hin' as [Hin'|[<-|[]]].
      * destruct R as [fin R]. rewrite (Hintr _ Hin') in R. discriminate.
      * apply Rg in R. subst c. rewrite (Hf m _ Hin F) in Hcall. discriminate.
    + intros m c Hin F. apply in_app_or in Hin. destruct Hin as [Hin|Hin].
      * eapply forgotten_shrinks; [exact S1 | exact Hf | exact Hin | exact F].
      * apply in_app_or in Hin. destruct Hin as [Hin|[<-|[]]].
        -- rewrite (Hintr _ Hin) in F. discriminate.
        -- assert (c = cid) by (apply Rg; eexists; exact F). subst c. rewrite dc_calls. apply cget_cdel_same.
Qed.

Lemma once_nil : once [].
Proof. intros o1 m o2 cid E. destruct o1; discriminate E. Qed.
Lemma forgotten_nil : forall d, finals_forgotten d [].
Proof. intros d m cid []. Qed.

(** one application of a dealer function from a well-formed state *)
Definition call_state (r : call_result) (d : dealer) : dealer :=
  match r with CallRefused d' _ => d' | CallAbort _ => d | CallInvoked d' _ _ => d' end.

Inductive dealer_fn_step : dstep -> Prop :=
| DS_cancel lookup lk d caller req opts : dealer_wf lookup d ->
    dealer_fn_step (d, None, snd (cancel lk d caller req opts), fst (cancel lk d caller req opts))
| DS_yield lookup lk d callee req opts args kw : dealer_wf lookup d ->
    dealer_fn_step (d, None, snd (sync_yield lk d callee req opts args kw), fst (sync_yield lk d callee req opts args kw))
| DS_error lookup d callee req det err args kw : dealer_wf lookup d ->
    dealer_fn_step (d, None, snd (sync_error d callee req det err args kw), fst (sync_error d callee req det err args kw))
| DS_fire lookup lk now d : dealer_wf lookup d ->
    dealer_fn_step (d, None, snd (fire_timers lk now d), fst (fire_timers lk now d))
| DS_remove lookup lk d sid : dealer_wf lookup d ->
    dealer_fn_step (d, None, snd (fst (dealer_remove_session lk d sid)), fst (fst (dealer_remove_session lk d sid)))
| DS_register lookup cfg d callee req opts proc : dealer_wf lookup d ->
    dealer_fn_step (d, None, snd (fst (register cfg d callee req opts proc)), fst (fst (register cfg d callee req opts proc)))
| DS_unregister lookup d sid req regid : dealer_wf lookup d ->
    dealer_fn_step (d, None, snd (fst (unregister d sid req regid)), fst (fst (unregister d sid req regid)))
| DS_call cfg lookup now d caller req opts proc args kw oracle : dealer_wf lookup d ->
    dealer_fn_step (d, Some (s_id caller, req),
                    call_out (call cfg lookup now d caller req opts proc args kw oracle),
                    call_state (call cfg lookup now d caller req opts proc args kw oracle) d).

Lemma once_short : forall o, (List.length o <= 1)%nat -> once o.
Proof.
  intros o H o1 m o2 cid E F m' Hin. subst o. rewrite app_length in H. cbn in H.
  destruct o2; [destruct Hin | cbn in H; lia].
Qed.

Theorem dealer_fn_step_ok : forall t, dealer_fn_step t -> dstep_ok t.
Proof.
  intros t H. destruct H as [lookup lk d caller req opts WF|lookup lk' d callee req opts args kw WF
                            |lookup d callee req det err args kw WF|lookup lk now d WF|lookup lk d sid WF
                            |lookup cfg d callee req opts proc WF|lookup d sid req regid WF
                            |cfg lookup now d caller req opts proc args kw oracle WF];
    pose proof (calls_grow_only_by_call_proof lookup d WF) as (G1 & G2 & G3 & G4 & G5 & G6 & G7 & G8).
  - apply dstep_ok_of_owned; [intros m Hm; eapply cancel_replies; eauto | apply G1 |].
    unfold cancel.
    assert (Hsc : forall mode, once (snd (sync_cancel lk d caller req mode e_canceled []))).
    { intros mode. destruct (sync_cancel_cases lk d caller req mode e_canceled []) as [E|(ikey & inv & x & Hp & Hc)].
      - rewrite E. apply once_nil.
      - rewrite (sync_cancel_live _ _ _ _ _ _ _ _ _ _ Hp Hc).
        assert (Hi : forall mm, In mm (if negb (mode =? "skip")%string && callee_can_cancel lk inv
                                      then [interrupt_msg ikey inv e_canceled mode] else []) -> reply_of mm = None).
        { intros mm H. destruct (negb (mode =? "skip")%string && callee_can_cancel lk inv);
            [destruct H as [<-|[]]; reflexivity | destruct H]. }
        destruct (negb (mode =? "skip")%string && callee_can_cancel lk inv && (mode =? "kill")%string); cbn [snd].
        + apply once_nofinal. intros m cid [<-|[]]. discriminate.
        + apply once_last. exact Hi. }
    destruct (_ || _ || _); [apply Hsc|]. destruct (String.eqb _ ""); [apply Hsc|].
    cbn [snd]. apply once_nofinal. intros m cid [<-|[]]. discriminate.
  - apply dstep_ok_of_owned; [| apply G2 |].
    + intros m Hm cid fin R. destruct (yield_replies lookup lk' d callee req opts args kw m WF Hm cid fin R)
        as (Hc & inv & _ & _ & _ & Hf). auto.
    + pose proof (answer_routing_yield_proof lookup lk' d callee req opts args kw WF) as AR.
      destruct (cget (d_invs d) (callee, req)) as [inv|] eqn:Hi.
      * cbv zeta in AR. destruct AR as (_ & _ & _ & _ & One).
        intros o1 m o2 cid E F m' Hin [fin R].
        assert (reply_of m' = None) by (eapply One; [exact E | congruence | apply in_or_app; right; exact Hin]).
        congruence.
      * rewrite AR. cbn [snd]. apply once_nofinal. intros m cid Hm R.
        destruct (opt_bool opts "progress"); [destruct Hm as [<-|[]]; discriminate R | destruct Hm].
  - apply dstep_ok_of_owned; [intros m Hm; eapply error_replies; eauto | apply G3 |].
    apply once_short. destruct (cget (d_invs d) (callee, req)) as [inv|] eqn:Hi.
    + rewrite (sync_error_owner _ _ _ _ _ _ _ _ Hi). destruct (cget (d_calls d) (inv_call inv)); cbn; lia.
    + rewrite sync_error_unknown by exact Hi. cbn; lia.
  - apply dstep_ok_of_owned; [intros m Hm; eapply fire_timers_replies; eauto | apply G4 |].
    rewrite fire_timers_fold. apply fire_fold_once; [apply (wf_calls _ _ WF) | apply once_nil | apply forgotten_nil].
  - apply dstep_ok_of_owned; [intros m Hm; eapply remove_session_replies; eauto | apply G5 |].
    rewrite drs_out. apply cs_fold_once; [| apply once_nil | apply forgotten_nil].
    apply (drs_core2 lookup lookup d sid WF (fun _ _ => eq_refl)).
  - apply dstep_ok_of_owned; [| intros c x; rewrite G6; auto |].
    + intros m Hm cid fin R. rewrite (register_no_reply _ _ _ _ _ _ _ Hm) in R. discriminate.
    + apply once_nofinal. intros m cid Hm R. rewrite (register_no_reply _ _ _ _ _ _ _ Hm) in R. discriminate.
  - apply dstep_ok_of_owned; [| intros c x; rewrite G7; auto |].
    + intros m Hm cid fin R. rewrite (unregister_no_reply _ _ _ _ _ Hm) in R. discriminate.
    + apply once_nofinal. intros m cid Hm R. rewrite (unregister_no_reply _ _ _ _ _ Hm) in R. discriminate.
  - specialize (G8 cfg now caller req opts proc args kw oracle).
    constructor; unfold src, tgt, lab, outp; cbn [fst snd].
    + intros m cid Hin [fin R]. right.
      destruct (call_replies _ _ _ _ _ _ _ _ _ _ _ m WF Hin cid fin R) as (-> & _). reflexivity.
    + intros m cid Hin R.
      destruct (call_replies _ _ _ _ _ _ _ _ _ _ _ m WF Hin cid true R) as (_ & _ & d' & E & Hn & _).
      rewrite E. cbn [call_state]. unfold drec. rewrite Hn. auto.
    + intros cid Hr. unfold drec, dis_call in *.
      destruct (call cfg lookup now d caller req opts proc args kw oracle) as [d' o|o|d' c o]; cbn [call_state] in Hr.
      * left. destruct (cget (d_calls d') cid) as [x|] eqn:E; [|congruence]. rewrite (G8 _ _ E). discriminate.
      * left. exact Hr.
      * destruct (cget (d_calls d') cid) as [x|] eqn:E; [|congruence].
        destruct (G8 _ _ E) as [H| ->]; [left; rewrite H; discriminate | right; reflexivity].
    + apply once_short.
      pose proof (call_cases cfg lookup now d caller req opts proc args kw oracle) as H. inversion H; cbn; lia.
Qed.

(** C02, histories of dealer function applications: after the final reply for
    [cid], a later reply for [cid] requires a CALL [cid] in between; within one
    function's output nothing for [cid] follows its final reply. *)
Theorem dealer_reply_unique_proof : forall s0 pre t1 mid t2 post cid m1 m2,
    chained dealer (option callid) s0 (pre ++ t1 :: mid ++ t2 :: post) ->
    Forall dealer_fn_step (pre ++ t1 :: mid ++ t2 :: post) ->
    In m1 (outp _ _ t1) -> reply_of m1 = Some (cid, true) ->
    In m2 (outp _ _ t2) -> replies_to cid m2 ->
    (forall t, In t (mid ++ [t2]) -> lab _ _ t <> Some cid) -> False.
Proof.
  intros s0 pre t1 mid t2 post cid m1 m2 Hch Hst H1 F1 H2 R2 Hn.
  eapply (reply_unique_abstract dealer (option callid) drec dis_call); eauto.
  eapply Forall_impl; [|exact Hst]. apply dealer_fn_step_ok.
Qed.

Theorem dealer_reply_once_proof : forall t, dealer_fn_step t -> once (outp _ _ t).
Proof. intros t H. destruct (dealer_fn_step_ok t H) as [_ _ _ O]. exact O. Qed.

(** ** Non-vacuity: a three-step history of the model
    (the callee's ERROR ends call (10,7); the caller CALLs request 7 again;
    the new callee YIELDs) satisfies the hypotheses of [reply_unique_abstract]. *)
From Nexus Require Import Router.DealerExamples.

Definition ex_rec (d : dealer) (cid : callid) : Prop := cget (d_calls d) cid <> None.
Definition ex_is_call (b : bool) (cid : callid) : Prop := b = true /\ cid = (10, 7).

Definition e1 : dealer * list out := sync_error d3 11 1 [] "com.err" [] [].
Definition ex_call2 : call_result := call cfg0 (lk 1 0) 9 (fst e1) s10 7 [] "com.x" [] [] 0.
Definition e2 : dealer := match ex_call2 with CallInvoked d _ _ => d | _ => fst e1 end.
Definition e3 : dealer * list out := sync_yield (lk 1 1) e2 12 1 [] [vnat 5] [].

Definition ex_t1 : tstep dealer bool := (d3, false, snd e1, fst e1).
Definition ex_t2 : tstep dealer bool := (fst e1, true, call_out ex_call2, e2).
Definition ex_t3 : tstep dealer bool := (e2, false, snd e3, fst e3).

Example reply_unique_ex :
    chained dealer bool d3 ([] ++ ex_t1 :: [ex_t2] ++ ex_t3 :: []) /\
    Forall (step_ok dealer bool ex_rec ex_is_call) ([] ++ ex_t1 :: [ex_t2] ++ ex_t3 :: []) /\
    (exists m1, In m1 (outp _ _ ex_t1) /\ reply_of m1 = Some ((10, 7), true)) /\
    (exists m2, In m2 (outp _ _ ex_t3) /\ replies_to (10, 7) m2) /\
    ex_is_call (lab _ _ ex_t2) (10, 7).
Proof.
  assert (O1 : snd e1 = [(10, RError c_CALL 7 [] "com.err" [] [])]) by (vm_compute; reflexivity).
  assert (O2 : call_out ex_call2 = [(12, RInvocation 1 19 [("progress", VBool false); ("procedure", vuri "com.x")] [] [])])
    by (vm_compute; reflexivity).
  assert (O3 : snd e3 = [(10, RResult 7 [] [vnat 5] [])]) by (vm_compute; reflexivity).
  assert (C0 : d_calls d3 = [((10, 7), 10)]) by (vm_compute; reflexivity).
  assert (C1 : d_calls (fst e1) = []) by (vm_compute; reflexivity).
  assert (C2 : d_calls e2 = [((10, 7), 10)]) by (vm_compute; reflexivity).
  assert (C3 : d_calls (fst e3) = []) by (vm_compute; reflexivity).
  split; [change (chained dealer bool d3 [ex_t1; ex_t2; ex_t3]); cbn [chained];
          unfold src, tgt, ex_t1, ex_t2, ex_t3; cbn [fst snd]; auto|]. split.
  - assert (K1 : step_ok dealer bool ex_rec ex_is_call ex_t1).
    { constructor; unfold src, tgt, lab, outp, ex_t1; cbn [fst snd]; rewrite ?O1; unfold ex_rec, ex_is_call; rewrite ?C0, ?C1.
      + intros m cid [<-|[]] [fin H]. cbn in H. inversion H; subst. left. cbn. discriminate.
      + intros m cid [<-|[]] H. cbn. intros E; apply E; reflexivity.
      + intros cid H. exfalso. apply H. reflexivity.
      + intros o1 m o2 cid E H m' Hin. destruct o1 as [|a [|b o1]]; inversion E; subst; destruct Hin. }
    assert (K2 : step_ok dealer bool ex_rec ex_is_call ex_t2).
    { constructor; unfold src, tgt, lab, outp, ex_t2; cbn [fst snd]; rewrite ?O2; unfold ex_rec, ex_is_call; rewrite ?C1, ?C2.
      + intros m cid [<-|[]] [fin H]. discriminate H.
      + intros m cid [<-|[]] H. discriminate H.
      + intros cid H. unfold cget, aget in H.
        destruct (pair_eqb_spec cid (10, 7)) as [Ec|Ec]; [right; split; [reflexivity | exact Ec] | exfalso; apply H; reflexivity].
      + intros o1 m o2 cid E H m' Hin. destruct o1 as [|a [|b o1]]; inversion E; subst; destruct Hin. }
    assert (K3 : step_ok dealer bool ex_rec ex_is_call ex_t3).
    { constructor; unfold src, tgt, lab, outp, ex_t3; cbn [fst snd]; rewrite ?O3; unfold ex_rec, ex_is_call; rewrite ?C2, ?C3.
      + intros m cid [<-|[]] [fin H]. cbn in H. inversion H; subst. left. cbn. discriminate.
      + intros m cid [<-|[]] H. cbn. intros E; apply E; reflexivity.
      + intros cid H. exfalso. apply H. reflexivity.
      + intros o1 m o2 cid E H m' Hin. destruct o1 as [|a [|b o1]]; inversion E; subst; destruct Hin. }
    change ([] ++ ex_t1 :: [ex_t2] ++ ex_t3 :: []) with [ex_t1; ex_t2; ex_t3].
    constructor; [exact K1|]. constructor; [exact K2|]. constructor; [exact K3 | constructor].
  - unfold outp, lab, ex_t1, ex_t2, ex_t3; cbn [fst snd]. rewrite O1, O3. split; [|split].
    + eexists; split; [left; reflexivity | reflexivity].
    + eexists; split; [left; reflexivity | eexists; reflexivity].
    + split; reflexivity.
Qed.

(** the same three-step history as applications of dealer functions *)
Definition hd1 : dealer := fst (sync_error d3 11 1 [] "com.err" [] []).
Definition hcall : call_result := call cfg0 (lk 1 0) 9 hd1 s10 7 [] "com.x" [] [] 0.
Definition hd2 : dealer := call_state hcall hd1.
Definition hx1 : dstep :=
  (d3, None, snd (sync_error d3 11 1 [] "com.err" [] []), fst (sync_error d3 11 1 [] "com.err" [] [])).
Definition hx2 : dstep :=
  (hd1, Some (s_id s10, 7), call_out (call cfg0 (lk 1 0) 9 hd1 s10 7 [] "com.x" [] [] 0),
   call_state (call cfg0 (lk 1 0) 9 hd1 s10 7 [] "com.x" [] [] 0) hd1).
Definition hx3 : dstep :=
  (hd2, None, snd (sync_yield (lk 1 1) hd2 12 1 [] [vnat 5] []), fst (sync_yield (lk 1 1) hd2 12 1 [] [vnat 5] [])).

Example dealer_reply_unique_ex :
    chained dealer (option callid) d3 ([] ++ hx1 :: [hx2] ++ hx3 :: []) /\
    Forall dealer_fn_step ([] ++ hx1 :: [hx2] ++ hx3 :: []) /\
    (exists m1, In m1 (outp _ _ hx1) /\ reply_of m1 = Some ((10, 7), true)) /\
    (exists m2, In m2 (outp _ _ hx3) /\ replies_to (10, 7) m2) /\
    lab _ _ hx2 = Some (10, 7).
Proof.
  assert (W1 : dealer_wf (lk 1 0) hd1) by (apply sync_error_wf; exact wf_d3).
  assert (E2 : exists d' o, hcall = CallInvoked d' (set_invgen s12 1) o) by (eexists; eexists; vm_compute; reflexivity).
  assert (O1 : snd (sync_error d3 11 1 [] "com.err" [] []) = [(10, RError c_CALL 7 [] "com.err" [] [])])
    by (vm_compute; reflexivity).
  assert (O3 : snd (sync_yield (lk 1 1) hd2 12 1 [] [vnat 5] []) = [(10, RResult 7 [] [vnat 5] [])])
    by (vm_compute; reflexivity).
  assert (W2 : dealer_wf (lk 1 1) hd2).
  { pose proof (call_wf cfg0 (lk 1 0) 9 hd1 s10 7 [] "com.x" [] [] 0 W1 (lk_ok 1 0)) as H.
    destruct E2 as (d' & o & E). unfold hd2. fold hcall in H. rewrite E in H. rewrite E. cbn [call_state].
    destruct H as [_ H].
    - apply lk_nowrap; vm_compute; reflexivity.
    - apply att; cbn; auto.
    - apply H; [apply lk_le; vm_compute; discriminate | reflexivity]. }
  split.
  { change (chained dealer (option callid) d3 [hx1; hx2; hx3]); cbn [chained];
    unfold src, tgt, hx1, hx2, hx3; cbn [fst snd]; repeat split. }
  split.
  - change ([] ++ hx1 :: [hx2] ++ hx3 :: []) with [hx1; hx2; hx3].
    constructor; [apply (DS_error (lk 1 0)); exact wf_d3|].
    constructor; [apply (DS_call cfg0 (lk 1 0)); exact W1|].
    constructor; [apply (DS_yield (lk 1 1)); exact W2 | constructor].
  - unfold outp, lab, hx1, hx2, hx3; cbn [fst snd]. rewrite O1, O3. split; [|split].
    + eexists. split; [left; reflexivity | reflexivity].
    + eexists. split; [left; reflexivity | eexists; reflexivity].
    + reflexivity.
Qed.
