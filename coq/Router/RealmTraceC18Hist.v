(** * Histories of the whole model, C18 part 8: on_join / on_leave balanced —
    one step, then whole windows of a history.

    [forges o]: the operation is a PUBLISH to wamp.session.on_join /
    wamp.session.on_leave, or a CALL of wamp.session.add_testament whose
    testament topic is one of the two.  The router reserves neither (only
    REGISTER of wamp.* procedures is refused), so the literal balance statement
    is false of the model ([RealmTraceC18Ex.Forge]); the true statement
    ([window_balanced]) assumes no forging operation from the start of the
    history (a forged testament stored before the window would be published
    inside it). *)
From Nexus Require Import Router.Realm Router.AssocLemmas Router.RealmLib Router.RealmProofs
     Router.RealmMetaProofs Router.RealmLeave.
From Nexus Require Import Router.BrokerWf Router.BrokerPres Router.BrokerSub Router.BrokerPublish.
From Nexus Require Import Router.DealerLib Router.DealerProofs Router.DealerReg Router.DealerCall Router.DealerWf
     Router.DealerWfCalls.
From Nexus Require Import Router.RealmWf Router.RealmStep Router.RealmC05 Router.RealmIdle.
From Nexus Require Import Router.RealmTraceLib Router.RealmTrace Router.RealmTraceC03.
From Nexus Require Import Router.RealmTraceC18 Router.RealmTraceC18Att Router.RealmTraceC18Obs
     Router.RealmTraceC18Bal Router.RealmTraceC18Meta Router.RealmTraceC18Step.
From Coq Require Import Lia ZifyN ZifyNat ZifyBool.

(** ** A meta procedure is reached only under its own name *)
Definition init_procs_ok (cfg : config) : bool :=
  forallb (fun '((id, name) : N * string) =>
             match nget (d_regs (dealer0 cfg)) id with
             | Some rg0 => String.eqb (reg_proc rg0) name && String.eqb (reg_match rg0) ""
             | None => false
             end) (r_metaprocs (init_realm cfg)).

Lemma init_procs_ok_all : forall cfg, init_procs_ok cfg = true.
Proof. intros [st di ms mk mm la hist az]. destruct st, di, mk, mm; vm_compute; reflexivity. Qed.

Lemma nget_In : forall {V} (l : list (N * V)) k v, nget l k = Some v -> In (k, v) l.
Proof.
  intros V l k v. induction l as [|[k' v'] l IH]; cbn; [discriminate|].
  destruct (N.eqb_spec k k') as [->|_]; [intros H; inversion H; now left|intros H; right; now apply IH].
Qed.

Definition mp_init (r : realm) : Prop := r_metaprocs r = r_metaprocs (init_realm (r_cfg r)).

Lemma metaproc_name : forall r proc orc rg mproc,
    realm_wf r -> mp_init r ->
    match_procedure (r_dealer r) proc orc = Some rg -> nget (r_metaprocs r) (reg_id rg) = Some mproc -> mproc = proc.
Proof.
  intros r proc orc rg mproc W Hi Hm Hmp. rewrite Hi in Hmp. apply nget_In in Hmp.
  pose proof (init_procs_ok_all (r_cfg r)) as Ok. unfold init_procs_ok in Ok.
  rewrite forallb_forall in Ok. specialize (Ok _ Hmp). cbv beta iota in Ok.
  destruct (nget (d_regs (dealer0 (r_cfg r))) (reg_id rg)) as [rg0|] eqn:E0; [|discriminate].
  apply andb_true_iff in Ok. destruct Ok as [Ep Em]. apply String.eqb_eq in Ep, Em.
  destruct (rw_metaregs r W) as (A & _). destruct (A _ _ E0) as (rg' & Hr & Hp & Hmt & _).
  destruct (best_match_sound (lookup r) (r_dealer r) (rw_dealer r W) proc orc rg Hm) as [Hreg Hk].
  unfold registered in Hreg. assert (rg' = rg) by congruence. subst rg'.
  assert (Kx : reg_kind rg = MExact) by (unfold reg_kind; rewrite Hmt, Em; reflexivity).
  destruct Hk as [[_ Hx]|[(_ & Hk & _)|(_ & _ & Hk & _)]]; [congruence|rewrite Kx in Hk; discriminate|rewrite Kx in Hk; discriminate].
Qed.

(** ** Forging operations *)
Definition forges (o : op) : bool :=
  match o with
  | OMsg _ (CPublish _ _ topic _ _) _ => forging topic
  | OMsg _ (CCall _ _ proc args _) _ =>
      String.eqb proc "wamp.session.add_testament" &&
      match arg0 args with
      | Some a0 => match as_string a0 with Some t => forging t | None => false end
      | None => false
      end
  | _ => false
  end.

Definition op_noforge (r : realm) (o : op) : Prop := forall sid m orc, o = OMsg sid m orc -> msg_noforge r m orc.

Lemma forges_noforge : forall r o, realm_wf r -> mp_init r -> forges o = false -> op_noforge r o.
Proof.
  intros r o W Hi H sid m orc ->. split.
  - intros req opts topic args kw ->. exact H.
  - intros req opts proc args kw rg mproc a0 t -> Hm Hmp Ep Ha Hs.
    pose proof (metaproc_name r proc orc rg mproc W Hi Hm Hmp) as E. subst mproc. subst proc.
    cbn [forges] in H. rewrite Ha, Hs in H. exact H.
Qed.

Section Windows.
  Variables (z J L : N).
  Local Notation obs := (obs z J L).
  Local Notation OBS := (OBS z J L).
  Local Notation observed := (observed z J L).

  (** the observer is passive: it sends nothing, is not dropped, is not ended *)
  Definition zpassive (e : event) : Prop := end_of e <> Some z /\ (forall m orc, e <> EIn (OMsg z m orc)).

  Lemma passive_zsafe : forall o out, (forall e, In e (step_events o out) -> zpassive e) -> zsafe z out.
  Proof.
    intros o out H m Hin. destruct (H (EOut (z, m))) as [A _]; [right; now apply in_map|].
    cbn [end_of] in A. destruct (is_end m); [exfalso; now apply A|reflexivity].
  Qed.

  Theorem step_bal : forall r o k,
      base k r -> k < max_idN -> op_ok o -> gate_transparent r o -> op_noforge r o ->
      base (k + 1) (fst (step r o)) /\
      (OBS r -> (forall e, In e (step_events o (snd (step r o))) -> zpassive e) ->
       OBS (fst (step r o)) /\
       observed (step_events o (snd (step r o))) = sess_changes (ids r) (step_events o (snd (step r o)))).
  Proof.
    intros r o k B Hk Ho Gt Nf. pose proof B as [W I I8 HT].
    destruct (step_wf r o k W I Hk Ho) as [W' I'].
    destruct (step_tracks r o I8) as (I8' & _ & _).
    assert (Goal' : T (fst (step r o)) /\
                    (OBS r -> (forall e, In e (step_events o (snd (step r o))) -> zpassive e) ->
                     OBS (fst (step r o)) /\
                     observed (step_events o (snd (step r o))) = sess_changes (ids r) (step_events o (snd (step r o))))).
    2:{ destruct Goal' as [T' G]. split; [constructor; assumption|exact G]. }
    clear W' I' I8'.
    unfold step_events. unfold RealmTraceC18Obs.observed. cbn [flat_map obs_ev app sess_changes].
    fold (RealmTraceC18Obs.observed z J L (map EOut (snd (step r o)))). rewrite observed_outs.
    destruct o as [sid lc h|sid m orc|sid|ms].
    - (* JOIN *)
      cbn [step change_step att_step]. unfold join. rewrite join_cond.
      destruct (joins (ids r) sid h) eqn:Jn; cbn [negb fst snd map sess_changes].
      2:{ split; [exact HT|]. intros O _. split; [exact O|reflexivity]. }
      assert (Hsm : sid <> meta_id).
      { intros ->. unfold joins in Jn. rewrite N.eqb_refl, andb_false_r in Jn. discriminate. }
      assert (Hnm : nmem sid (ids r) = false).
      { unfold joins in Jn. destruct (nmem sid (ids r)); [|reflexivity]. rewrite andb_false_r in Jn. discriminate. }
      assert (Hf : find_session (r_clients r) sid = None).
      { unfold ids in Hnm. rewrite nmem_ids in Hnm. destruct (find_session (r_clients r) sid); [discriminate|reflexivity]. }
      assert (Hlk : lookup r sid = None) by (unfold lookup; destruct (N.eqb_spec sid meta_id); [contradiction|exact Hf]).
      destruct (join_added_wf r sid lc h k W I Ho Hlk) as [W1 I1]. cbv zeta in W1, I1.
      match goal with |- context [meta_publish ?R ?M] => set (r1 := R) in *; set (mp := M) end.
      assert (Ei : ids r1 = ids r ++ [sid]) by (unfold ids, r1; cbn [r_clients r_set_clients]; now rewrite map_app).
      assert (Hnm1 : ~ In meta_id (ids r ++ [sid])).
      { intros Hin. apply in_app_or in Hin. destruct Hin as [Hin|[Hx|[]]]; [exact (i_nometa r I8 Hin)|congruence]. }
      pose proof (meta_publish_noend r1 mp (rw_meta_id r1 W1)) as Nn.
      destruct (meta_publish_frame r1 mp) as (_ & _ & _ & Ft & _).
      pose proof (meta_publish_OBS z J L r1 mp (lwf_of_wf r1 W1)) as Po.
      pose proof (meta_publish_obs_one z J L r1 t_on_join [VDict (clean_details (r_cfg r) (join_details sid lc h))] J
                                       (lwf_of_wf r1 W1)) as Pe.
      change (mkMetaPub t_on_join _ [] []) with mp in Pe.
      destruct (meta_publish r1 mp) as [r2 o2]. cbn [fst snd] in *.
      split; [eapply T_same; [exact HT|exact Ft]|]. intros O _.
      assert (O1 : OBS r1).
      { destruct O as [C Bz]. split; [|exact Bz]. unfold client, r1. cbn [r_clients r_set_clients].
        rewrite find_session_app. unfold client in C. destruct (find_session (r_clients r) z); [discriminate|congruence]. }
      split; [exact (Po O1)|]. rewrite (Pe O1 (or_introl (conj eq_refl eq_refl))).
      rewrite (sess_changes_noend o2 _ Hnm1 Nn), app_nil_r.
      unfold sub_read. rewrite N.eqb_refl. cbn [jread]. rewrite clean_details_session, join_details_session. cbn [bind].
      now rewrite (as_id_vid_ok sid Ho).
    - (* a client message *)
      cbn [change_step att_step end_of app]. rewrite step_msg_eq.
      destruct (find_session (r_clients r) sid) as [s|] eqn:F.
      2:{ cbn [fst snd map sess_changes]. split; [exact HT|]. intros O _. split; [exact O|reflexivity]. }
      assert (Hs : find_session (r_clients r) (s_id s) = Some s) by now rewrite (find_session_id _ _ _ F).
      rewrite (Gt sid m orc s eq_refl F).
      destruct (handle_bal z J L r s m orc k B Hk Hs (Nf sid m orc eq_refl)) as [B' G].
      split; [exact (b_T _ _ B')|]. intros O Hp.
      assert (Hn : s_id s <> z).
      { rewrite (find_session_id _ _ _ F). intros ->. destruct (Hp (EIn (OMsg z m orc)) (or_introl eq_refl)) as [_ A].
        exact (A m orc eq_refl). }
      apply G; [exact O|exact Hn|]. eapply passive_zsafe; exact Hp.
    - (* transport lost *)
      cbn [step change_step att_step end_of].
      pose proof (leave_base r sid k B) as B1.
      destruct (leave_props r sid I8) as (_ & _ & _ & N1).
      split; [exact (b_T _ _ B1)|]. intros O Hp.
      assert (Hn : sid <> z).
      { intros ->. destruct (Hp (EIn (ODrop z)) (or_introl eq_refl)) as [A _]. now apply A. }
      destruct (leave_obs z J L r sid k B O Hn) as [O1 E1]. split; [exact O1|].
      rewrite E1, sess_changes_noend; [|intros Hin; apply In_nremove in Hin; destruct Hin as [Hin _]; exact (i_nometa r I8 Hin)|exact N1].
      rewrite app_nil_r. unfold ids. rewrite nmem_ids. destruct (find_session (r_clients r) sid); reflexivity.
    - (* time passes *)
      cbn [step change_step att_step end_of app]. set (r1 := r_set_now r (r_now r + ms)).
      pose proof (fire_timers_noend (lookup r1) (r_now r1) (r_dealer r1)) as P.
      pose proof (fire_timers_noev (lookup r1) (r_now r1) (r_dealer r1)) as V.
      destruct (fire_timers _ _ _) as [d out]. cbn [fst snd] in *.
      split; [exact HT|]. intros O _. split; [exact O|].
      rewrite (noev_obs z J L out V). symmetry. apply sess_changes_noend; [exact (i_nometa r I8)|exact P].
  Qed.

  (** ** Windows *)
  Theorem run_bal : forall mid r k,
      base k r -> Forall op_ok mid -> k + N.of_nat (List.length mid) <= max_idN ->
      along gate_transparent r mid -> along op_noforge r mid ->
      base (k + N.of_nat (List.length mid)) (fst (run r mid)) /\
      (OBS r -> (forall e, In e (trace_from r mid) -> zpassive e) ->
       OBS (fst (run r mid)) /\ observed (trace_from r mid) = sess_changes (ids r) (trace_from r mid)).
  Proof.
    induction mid as [|o mid IH]; intros r k B Ho Hk Gt Nf.
    { rewrite run_nil. cbn [fst trace_from List.length]. split; [eapply base_mono; [exact B|lia]|]. intros O _. auto. }
    cbn [List.length] in Hk. inversion Ho as [|? ? Ho1 Ho2]; subst. destruct Gt as [Gt1 Gt2]. destruct Nf as [Nf1 Nf2].
    assert (Hk1 : k < max_idN) by lia.
    destruct (step_bal r o k B Hk1 Ho1 Gt1 Nf1) as [B1 G1].
    destruct (step_tracks r o (b_18 k r B)) as (_ & _ & J1).
    destruct (IH (fst (step r o)) (k + 1) B1 Ho2) as [B2 G2]; [lia|exact Gt2|exact Nf2|].
    rewrite run_cons. cbn [fst trace_from List.length].
    split; [eapply base_mono; [exact B2|lia]|]. intros O Hp.
    destruct (G1 O) as [O1 E1]; [intros e He; apply Hp; apply in_or_app; now left|].
    destruct (G2 O1) as [O2 E2]; [intros e He; apply Hp; apply in_or_app; now right|].
    split; [exact O2|]. rewrite observed_app, sess_changes_app, E1, <- J1, E2. reflexivity.
  Qed.

  Lemma mp_init_step : forall r o, inv18 r -> mp_init r -> mp_init (fst (step r o)).
  Proof.
    intros r o I H. unfold mp_init in *. destruct (step_tracks r o I) as (_ & P & _). now rewrite P, step_cfg.
  Qed.

  (** without authorizer, and with no forging operation, the two per-step hypotheses hold along the run *)
  Lemma along_hyps : forall ops r k,
      base k r -> mp_init r -> c_authz (r_cfg r) = None ->
      Forall op_ok ops -> k + N.of_nat (List.length ops) <= max_idN ->
      Forall (fun o => forges o = false) ops ->
      along gate_transparent r ops /\ along op_noforge r ops.
  Proof.
    induction ops as [|o ops IH]; intros r k B Hi Ha Ho Hk Hf; [split; exact I|].
    cbn [List.length] in Hk. inversion Ho as [|? ? Ho1 Ho2]; subst. inversion Hf as [|? ? Hf1 Hf2]; subst.
    assert (Gt1 : gate_transparent r o) by (now apply gate_transparent_no_authz).
    assert (Nf1 : op_noforge r o) by (apply forges_noforge; [exact (b_wf k r B)|exact Hi|exact Hf1]).
    assert (Hk1 : k < max_idN) by lia.
    destruct (step_bal r o k B Hk1 Ho1 Gt1 Nf1) as [B1 _].
    destruct (IH (fst (step r o)) (k + 1) B1) as [A1 A2]; auto.
    - apply mp_init_step; [exact (b_18 k r B)|exact Hi].
    - now rewrite step_cfg.
    - lia.
    - cbn [along]. auto.
  Qed.

  Lemma base_init : forall cfg, k0 cfg <= max_idN -> base (k0 cfg) (init_realm cfg) /\ mp_init (init_realm cfg).
  Proof.
    intros cfg Hk. destruct (init_realm_wf cfg Hk) as [W I]. split.
    - constructor; [exact W|exact I|apply inv18_init|].
      intros c det des t H. exfalso. unfold init_realm in H. destruct (fold_left _ _ _) in H. discriminate H.
    - unfold mp_init. now rewrite init_realm_cfg.
  Qed.

  (** the statement of Props/HistoriesC18.v *)
  Theorem window_balanced_proof : forall cfg pre mid,
      c_authz cfg = None ->
      Forall op_ok (pre ++ mid) -> k0 cfg + N.of_nat (List.length (pre ++ mid)) <= max_idN ->
      Forall (fun o => forges o = false) (pre ++ mid) ->
      let r := fst (run (init_realm cfg) pre) in
      In z (att [] (trace cfg pre)) ->
      holds_sig (r_broker r) z J t_on_join MExact -> holds_sig (r_broker r) z L t_on_leave MExact ->
      (forall e, In e (trace_from r mid) -> zpassive e) ->
      observed (trace_from r mid) = sess_changes (att [] (trace cfg pre)) (trace_from r mid).
  Proof.
    intros cfg pre mid Ha Ho Hk Hf r Hz HJ HL Hp. subst r.
    rewrite app_length in Hk. apply Forall_app in Ho. destruct Ho as [Ho1 Ho2].
    apply Forall_app in Hf. destruct Hf as [Hf1 Hf2].
    destruct (base_init cfg) as [B0 M0]; [lia|].
    assert (Ha0 : c_authz (r_cfg (init_realm cfg)) = None) by now rewrite init_realm_cfg.
    destruct (along_hyps pre (init_realm cfg) (k0 cfg) B0 M0 Ha0 Ho1) as [G1 N1]; [lia|exact Hf1|].
    destruct (run_bal pre (init_realm cfg) (k0 cfg) B0 Ho1) as [B1 _]; [lia|exact G1|exact N1|].
    set (r := fst (run (init_realm cfg) pre)) in *.
    assert (M1 : mp_init r).
    { unfold mp_init, r. rewrite run_metaprocs, run_cfg, init_realm_cfg. reflexivity. }
    assert (Ha1 : c_authz (r_cfg r) = None) by (unfold r; now rewrite run_cfg, init_realm_cfg).
    destruct (along_hyps mid r _ B1 M1 Ha1 Ho2) as [G2 N2]; [lia|exact Hf2|].
    destruct (run_bal mid r _ B1 Ho2) as [_ G]; [lia|exact G2|exact N2|].
    assert (O : OBS r).
    { split; [|split; assumption]. destruct (attached_find cfg pre z Hz) as (s & F). unfold client. fold r in F. congruence. }
    destruct (G O Hp) as [_ E]. rewrite E. unfold ids, r. now rewrite realm_attached_is_trace_proof.
  Qed.
End Windows.

(** the window is a segment of the history's trace *)
Lemma trace_split : forall cfg pre mid,
    trace cfg (pre ++ mid) = trace cfg pre ++ trace_from (fst (run (init_realm cfg) pre)) mid.
Proof.
  intros cfg pre mid. rewrite !trace_eq. generalize (init_realm cfg). induction pre as [|o pre IH]; intros r.
  - rewrite run_nil. reflexivity.
  - cbn [app trace_from]. rewrite run_cons. cbn [fst]. rewrite IH, app_assoc. reflexivity.
Qed.

(** ** The attachment changes of any trace alternate, per session id *)
Fixpoint alt (expect : bool) (l : list bool) : Prop :=
  match l with [] => True | b :: l' => b = expect /\ alt (negb expect) l' end.

Definition about (s : N) (l : list (bool * N)) : list bool :=
  map fst (filter (fun c => N.eqb (snd c) s) l).

Lemma about_app : forall s a b, about s (a ++ b) = about s a ++ about s b.
Proof. intros. unfold about. now rewrite filter_app, map_app. Qed.

Lemma nmem_app_other : forall s x A, s <> x -> nmem s (A ++ [x]) = nmem s A.
Proof.
  intros s x A H. unfold nmem. rewrite existsb_app. cbn. destruct (N.eqb_spec s x); [contradiction|]. now rewrite !orb_false_r.
Qed.

Lemma nmem_app_same : forall x A, nmem x (A ++ [x]) = true.
Proof. intros. unfold nmem. rewrite existsb_app. cbn. rewrite N.eqb_refl. now rewrite orb_true_r. Qed.

Lemma nmem_nremove_same : forall x A, nmem x (nremove x A) = false.
Proof. intros x A. apply nmem_false_notin. intros H. apply In_nremove in H. tauto. Qed.

Lemma nmem_nremove_other : forall s x A, s <> x -> nmem s (nremove x A) = nmem s A.
Proof.
  intros s x A H. destruct (nmem s A) eqn:E.
  - apply nmem_In. apply In_nremove. split; [now apply nmem_In|exact H].
  - apply nmem_false_notin. intros Hin. apply In_nremove in Hin. destruct Hin as [Hin _]. apply nmem_In in Hin. congruence.
Qed.

Theorem changes_alternate_proof : forall s tr A, alt (negb (nmem s A)) (about s (sess_changes A tr)).
Proof.
  intros s tr. induction tr as [|e tr IH]; intros A; [exact I|].
  cbn [sess_changes]. rewrite about_app.
  assert (Ends : forall x, change_step A e = (if nmem x A then [(false, x)] else []) -> att_step A e = nremove x A ->
                           alt (negb (nmem s A)) (about s (change_step A e) ++ about s (sess_changes (att_step A e) tr))).
  { intros x E1 E2. rewrite E1, E2. destruct (N.eqb_spec x s) as [->|Hn].
    - destruct (nmem s A) eqn:M.
      + unfold about at 1. cbn [filter snd map fst app]. rewrite N.eqb_refl. cbn [map fst app alt negb]. split; [reflexivity|].
        specialize (IH (nremove s A)). rewrite nmem_nremove_same in IH. exact IH.
      + rewrite nremove_notin by (intros H; apply nmem_In in H; congruence). cbn [about filter map app].
        specialize (IH A). rewrite M in IH. exact IH.
    - assert (E : about s (if nmem x A then [(false, x)] else []) = []).
      { destruct (nmem x A); [|reflexivity]. unfold about. cbn [filter snd]. destruct (N.eqb_spec x s); [contradiction|reflexivity]. }
      rewrite E. cbn [app]. specialize (IH (nremove x A)). rewrite nmem_nremove_other in IH by (apply not_eq_sym; exact Hn). exact IH. }
  destruct e as [o|[x m]].
  - destruct o as [x lc h|x m orc|x|ms].
    + change (change_step A (EIn (OJoin x lc h))) with (if joins A x h then [(true, x)] else []).
      change (att_step A (EIn (OJoin x lc h))) with (if joins A x h then A ++ [x] else A).
      destruct (joins A x h) eqn:Jn; [|cbn [about filter map app]; apply IH].
      assert (Hx : nmem x A = false).
      { unfold joins in Jn. destruct (nmem x A); [|reflexivity]. rewrite andb_false_r in Jn. discriminate. }
      destruct (N.eqb_spec x s) as [->|Hn].
      * unfold about at 1. cbn [filter snd map fst app]. rewrite N.eqb_refl. cbn [map fst app alt]. rewrite Hx. cbn [negb].
        split; [reflexivity|]. specialize (IH (A ++ [s])). rewrite nmem_app_same in IH. exact IH.
      * unfold about at 1. cbn [filter snd]. destruct (N.eqb_spec x s); [contradiction|]. cbn [map app].
        specialize (IH (A ++ [x])). rewrite nmem_app_other in IH by (apply not_eq_sym; exact Hn). exact IH.
    + cbn [change_step att_step end_of about filter map app]. apply IH.
    + apply (Ends x); reflexivity.
    + cbn [change_step att_step end_of about filter map app]. apply IH.
  - rewrite change_step_out, att_step_out. destruct (is_end m) eqn:Em.
    + specialize (Ends x). rewrite change_step_out, att_step_out, Em in Ends. apply Ends; reflexivity.
    + cbn [about filter map app]. apply IH.
Qed.

(** hence what a passive observer reads about any one session id alternates:
    on_join, on_leave, on_join, ... — starting with on_leave exactly when the
    session was attached at the window's start *)
Theorem observer_alternates_proof : forall z J L cfg pre mid s,
    c_authz cfg = None ->
    Forall op_ok (pre ++ mid) -> k0 cfg + N.of_nat (List.length (pre ++ mid)) <= max_idN ->
    Forall (fun o => forges o = false) (pre ++ mid) ->
    let r := fst (run (init_realm cfg) pre) in
    In z (att [] (trace cfg pre)) ->
    holds_sig (r_broker r) z J t_on_join MExact -> holds_sig (r_broker r) z L t_on_leave MExact ->
    (forall e, In e (trace_from r mid) -> zpassive z e) ->
    alt (negb (nmem s (att [] (trace cfg pre)))) (about s (observed z J L (trace_from r mid))).
Proof.
  intros z J L cfg pre mid s Ha Ho Hk Hf r Hz HJ HL Hp. subst r.
  rewrite (window_balanced_proof z J L cfg pre mid Ha Ho Hk Hf Hz HJ HL Hp). apply changes_alternate_proof.
Qed.
