(** * Histories, broker side, part 11 (C20): [wamp.subscription.get_events]
    at any point of a history answers from the store of the named
    subscription: the query function applied to the last <= limit reference
    publications of the history so far — nothing else. *)
From Nexus Require Import Router.Realm Router.AssocLemmas Router.RealmLib Router.RealmProofs Router.RealmMetaProofs.
From Nexus Require Import Router.BrokerWf Router.BrokerPres Router.BrokerPublish Router.BrokerSub Router.BrokerRun
     Router.BrokerHist Router.BrokerHistInit Router.BrokerQuery.
From Nexus Require Import Router.RealmWf Router.RealmStep Router.RealmIdle.
From Nexus Require Import Router.RealmTraceLib Router.RealmTrace Router.RealmTraceC01Seg Router.RealmTraceC20Store.
From Coq Require Import Lia ZifyN ZifyNat ZifyBool.

Lemma meta_get_events_eq : forall r details args kw oracle,
    meta_call r "wamp.subscription.get_events" details args kw oracle =
    match bind (arg0 args) as_id with
    | None => (r, MError e_invalid_argument, None)
    | Some subid =>
        match parse_hquery kw with
        | None => (r, MError e_invalid_argument, None)
        | Some q =>
            match (if amem N.eqb (b_subs (r_broker r)) subid then nget (b_hist (r_broker r)) subid else None) with
            | None => (r, MYield [] [("is_limit_reached", VBool false)], None)
            | Some st =>
                (r, MYield (map hentry_value (hquery_run q (hs_entries st)))
                           [("is_limit_reached", VBool (hs_limit st <=? N.of_nat (List.length (hs_entries st))))], None)
            end
        end
    end.
Proof. reflexivity. Qed.

(** the scan only selects stored entries *)
Lemma hscan_step_acc : forall q st e x, In x (sc_acc (hscan_step q st e)) -> In x (sc_acc st) \/ x = e.
Proof.
  intros q st e x. unfold hscan_step.
  repeat match goal with
         | |- context [if ?c then _ else _] => destruct c
         end; cbn [sc_acc]; intros H; auto; apply in_app_or in H; destruct H as [H|[<-|[]]]; auto.
Qed.

Lemma hscan_fold_acc : forall q es st x,
    In x (sc_acc (fold_left (hscan_step q) es st)) -> In x (sc_acc st) \/ In x es.
Proof.
  intros q es; induction es as [|e es IH]; intros st x H; cbn [fold_left] in H; [now left|].
  destruct (IH _ _ H) as [H1|H1]; [|right; now right].
  destruct (hscan_step_acc q st e x H1) as [H2 | ->]; [now left|right; now left].
Qed.

Theorem hquery_run_sub : forall q es x, In x (hquery_run q es) -> In x es.
Proof.
  intros q es x H. unfold hquery_run in H.
  assert (G : forall l, In x (match q_limit q with Some n => lastn n l | None => l end) -> In x l).
  { intros l. destruct (q_limit q); [apply In_lastn|auto]. }
  destruct (q_reverse q); [apply in_rev in H|]; apply G in H;
    (destruct (hscan_fold_acc _ _ _ _ H) as [[]|H']; exact H').
Qed.

(** at any point of a history *)
Theorem realm_get_events_sound_proof : forall cfg ops details args kw oracle vals kwr,
    Forall op_ok ops -> k0 cfg + N.of_nat (List.length ops) <= max_idN ->
    Forall (fun c => 1 <= hc_limit c) (c_hist cfg) ->
    let r := fst (run (init_realm cfg) ops) in
    resp_of (meta_call r "wamp.subscription.get_events" details args kw oracle) = MYield vals kwr ->
    realm_of (meta_call r "wamp.subscription.get_events" details args kw oracle) = r /\
    (vals = [] \/
     exists c id q,
       In c (c_hist cfg) /\ bind (arg0 args) as_id = Some id /\ parse_hquery kw = Some q /\
       sub_sig (r_broker r) id (hc_topic c) (mkind_of (hc_match c)) /\
       vals = map hentry_value
                  (hquery_run q (lastn (hc_limit c)
                                       (hist_ref cfg id (hc_topic c) (mkind_of (hc_match c)) (realm_pubs cfg ops))))).
Proof.
  intros cfg ops details args kw oracle vals kwr Ho Hk Hlim r. rewrite meta_get_events_eq.
  destruct (bind (arg0 args) as_id) as [id|] eqn:Ea; [|discriminate].
  destruct (parse_hquery kw) as [q|] eqn:Eq; [|discriminate].
  destruct (if amem N.eqb (b_subs (r_broker r)) id then nget (b_hist (r_broker r)) id else None) as [st|] eqn:Es.
  2:{ unfold resp_of, realm_of. cbn [fst snd]. intros E; inversion E; subst. split; [reflexivity|now left]. }
  unfold resp_of, realm_of. cbn [fst snd]. intros E; inversion E; subst vals kwr; clear E. split; [reflexivity|]. right.
  destruct (amem N.eqb (b_subs (r_broker r)) id); [|discriminate Es].
  (* the store exists in the final broker, hence in the initial one *)
  assert (Hh : has_history (broker_init (c_hist cfg)) id = true).
  { rewrite <- (realm_stores_only_preinit cfg ops id Ho Hk). fold r. unfold has_history, amem. unfold nget in Es. now rewrite Es. }
  assert (Hb0 : N.of_nat (List.length (c_hist cfg)) <= max_idN) by (unfold k0 in Hk; lia).
  destruct (preinit_configured (c_hist cfg) Hb0) as [_ Hc2].
  destruct (nget (b_hist (broker_init (c_hist cfg))) id) as [st0|] eqn:E0.
  2:{ unfold has_history, amem in Hh. unfold nget in E0. rewrite E0 in Hh. discriminate Hh. }
  destruct (Hc2 id st0 E0) as (He & c & HI & Hl & Hs).
  rewrite Forall_forall in Hlim.
  assert (Hok : store_ok st0). { split; [rewrite Hl; now apply Hlim|rewrite He; cbn; lia]. }
  destruct (realm_store_from cfg ops id (hc_topic c) (mkind_of (hc_match c)) st0 Ho Hk Hs E0 Hok) as [Hs2 Eh2].
  cbv zeta in Hs2, Eh2. fold r in Hs2, Eh2. rewrite Es in Eh2. inversion Eh2; subst st. cbn [hs_entries].
  rewrite He, Hl. cbn [app].
  exists c, id, q. auto.
Qed.

(** ... hence every returned entry is a reference publication of the history:
    an accepted publication, published earlier in this history on a matching
    topic, without exclude / eligible keys *)
Theorem realm_get_events_only_published_proof : forall cfg ops details args kw oracle vals kwr v,
    Forall op_ok ops -> k0 cfg + N.of_nat (List.length ops) <= max_idN ->
    Forall (fun c => 1 <= hc_limit c) (c_hist cfg) ->
    let r := fst (run (init_realm cfg) ops) in
    resp_of (meta_call r "wamp.subscription.get_events" details args kw oracle) = MYield vals kwr ->
    In v vals ->
    exists c id e pg lookup now pub req opts topic a k,
      In c (c_hist cfg) /\ bind (arg0 args) as_id = Some id /\ v = hentry_value e /\
      In (BPublish pg lookup now pub req opts topic a k) (realm_pubs cfg ops) /\
      dhas opts "exclude" = false /\ dhas opts "eligible" = false /\
      pub_accepted cfg pub opts topic /\ matches (mkind_of (hc_match c)) (hc_topic c) topic /\
      e = mkHEntry id (pg + 1)
                   (event_dict opts topic (is_pattern (mkind_of (hc_match c))) (opt_bool opts "disclose_me") pub None)
                   a k now.
Proof.
  intros cfg ops details args kw oracle vals kwr v Ho Hk Hlim r R Hv.
  destruct (realm_get_events_sound_proof cfg ops details args kw oracle vals kwr Ho Hk Hlim R) as [_ [-> | (c & id & q & HI & Ea & Eq & Hs & ->)]];
    [destruct Hv|].
  apply in_map_iff in Hv. destruct Hv as (e & <- & He). apply hquery_run_sub, In_lastn in He.
  destruct (restricted_never_stored _ _ _ _ _ _ He) as (pg & lk & now & pub & req & opts & topic & a & k & H1 & H2 & H3 & H4 & H5 & H6).
  exists c, id, e, pg, lk, now, pub, req, opts, topic, a, k. repeat split; auto; apply H4.
Qed.
