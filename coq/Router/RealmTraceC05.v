(** * Histories of the whole model, part 4 (C05): once a session has ended,
    no later step of the history sends it anything, until (if ever) a session
    with that id joins again.  History form of
    [RealmOutputs.no_output_to_ended]. *)
From Nexus Require Import Router.Realm Router.AssocLemmas Router.RealmLib Router.RealmProofs
     Router.RealmMetaProofs Router.RealmLeave.
From Nexus Require Import Router.DealerLib Router.DealerProofs Router.DealerWf.
From Nexus Require Import Router.RealmWf Router.RealmStep Router.RealmC05 Router.RealmOutputs.
From Nexus Require Import Router.RealmTraceLib.
From Coq Require Import Lia ZifyN ZifyNat ZifyBool.

(** ** [run] on a concatenation; the output of the step at a given position *)
Lemma run_app : forall a b r,
    run r (a ++ b) = (fst (run (fst (run r a)) b), snd (run r a) ++ snd (run (fst (run r a)) b)).
Proof.
  induction a as [|o a IH]; intros b r.
  - cbn [app]. rewrite run_nil. cbn [fst snd app]. destruct (run r b); reflexivity.
  - cbn [app]. rewrite !run_cons, IH. cbn [fst snd app]. reflexivity.
Qed.

Lemma run_output_at : forall pre o post r,
    nth_error (snd (run r (pre ++ o :: post))) (List.length pre) = Some (snd (step (fst (run r pre)) o)).
Proof.
  intros pre o post r. rewrite run_app. cbn [snd]. rewrite nth_error_app2 by (rewrite run_length; lia).
  rewrite run_length, Nat.sub_diag, run_cons. reflexivity.
Qed.

(** ** Sessions become attached only by joining *)
Lemma lookup_set_dealer : forall r d, lookup (r_set_dealer r d) = lookup r.
Proof. reflexivity. Qed.
Lemma lookup_set_broker : forall r b pg, lookup (r_set_broker r b pg) = lookup r.
Proof. reflexivity. Qed.

Lemma kill_sessions_lookup_sub : forall sids r g x,
    lookup (fst (kill_sessions r sids g)) x <> None -> lookup r x <> None.
Proof.
  induction sids as [|sid sids IH]; intros r g x; [auto|].
  rewrite kill_sessions_cons. pose proof (leave_lookup_sub r sid x) as L.
  destruct (leave r sid) as [r1 o1]. specialize (IH r1 g x).
  destruct (kill_sessions r1 sids g) as [r2 o2]. cbn [fst] in *. auto.
Qed.

Lemma meta_publish_all_lookup : forall mps r, lookup (fst (meta_publish_all r mps)) = lookup r.
Proof. intros. apply same_but_broker_lookup. apply meta_publish_all_frame. Qed.

Lemma run_meta_invocation_lookup_sub : forall r o oracle x,
    lookup (fst (run_meta_invocation r o oracle)) x <> None -> lookup r x <> None.
Proof.
  intros r o oracle x. unfold run_meta_invocation.
  destruct o as [|[rcv m] l]; [auto|]. destruct m; auto. destruct l; [|auto].
  destruct (negb (rcv =? meta_id)); [auto|].
  destruct (nget (r_metaprocs r) reg) as [proc|].
  - pose proof (meta_call_lookup r proc details args kw oracle x) as Lk.
    destruct (meta_call r proc details args kw oracle) as [[r1 resp] kills]. unfold realm_of in Lk. cbn [fst] in Lk.
    destruct (match resp with MYield a k0 => _ | MError e => _ end) as [d o1].
    destruct kills as [[sids g]|].
    + pose proof (kill_sessions_lookup_sub sids (r_set_dealer r1 d) g x) as K.
      destruct (kill_sessions (r_set_dealer r1 d) sids g) as [r3 o2]. cbn [fst] in *.
      intros H. apply Lk. apply K in H. exact H.
    + cbn [fst]. rewrite lookup_set_dealer. apply Lk.
  - destruct (sync_error _ _ _ _ _ _ _) as [d o1]. cbn [fst]. auto.
Qed.

Lemma handle_lookup_sub : forall r s m oracle k x,
    realm_wf r -> ids_below k r -> k < max_idN -> find_session (r_clients r) (s_id s) = Some s ->
    lookup (fst (handle r s m oracle)) x <> None -> lookup r x <> None.
Proof.
  intros r s m oracle k x W I Hk Hs.
  assert (Lv : forall r0, lookup (fst (leave r0 (s_id s))) x <> None -> lookup r0 x <> None)
    by (intros r0; apply leave_lookup_sub).
  destruct m; cbn [handle].
  - destruct (publish _ _ _ _ _ _ _ _ _ _ _) as [[b pg] o]. destruct (publish_aborts _ _ _ _).
    + specialize (Lv r). destruct (leave r (s_id s)). exact Lv.
    + cbn [fst]. auto.
  - destruct (subscribe _ _ _ _ _ _ _) as [[b pg] o]. cbn [fst]. auto.
  - destruct (unsubscribe _ _ _ _ _) as [[b pg] o]. cbn [fst]. auto.
  - destruct (register _ _ _ _ _ _) as [[d o] mps].
    pose proof (meta_publish_all_lookup mps (r_set_dealer r d)) as E.
    destruct (meta_publish_all _ mps) as [r1 o1]. cbn [fst] in *. rewrite E. auto.
  - destruct (unregister _ _ _ _) as [[d o] mps].
    pose proof (meta_publish_all_lookup mps (r_set_dealer r d)) as E.
    destruct (meta_publish_all _ mps) as [r1 o1]. cbn [fst] in *. rewrite E. auto.
  - destruct (call _ _ _ _ _ _ _ _ _ _ _) as [d o|o|d callee o] eqn:Ecall.
    + cbn [fst]. auto.
    + match goal with |- context [leave ?R (s_id s)] => specialize (Lv R); destruct (leave R (s_id s)) end. exact Lv.
    + destruct (call_invoked_wf r s req opts proc args kw oracle k d callee o W I Hk Hs Ecall) as (_ & _ & Lk & _).
      intros H. apply (proj1 (Lk x)). eapply run_meta_invocation_lookup_sub. exact H.
  - destruct (cancel _ _ _ _ _) as [d o]. cbn [fst]. auto.
  - destruct (sync_yield _ _ _ _ _ _ _) as [d o]. destruct (yield_aborts _ _ _ _ _); [|cbn [fst]; auto].
    specialize (Lv (r_set_dealer r d)). destruct (leave (r_set_dealer r d) (s_id s)). exact Lv.
  - destruct (negb (ty =? c_INVOCATION)).
    + specialize (Lv r). destruct (leave r (s_id s)). exact Lv.
    + destruct (sync_error _ _ _ _ _ _ _) as [d o]. cbn [fst]. auto.
  - specialize (Lv r). destruct (leave r (s_id s)). exact Lv.
  - specialize (Lv r). destruct (leave r (s_id s)). exact Lv.
Qed.

Theorem step_lookup_sub : forall r o k x,
    realm_wf r -> ids_below k r -> k < max_idN -> op_ok o ->
    lookup (fst (step r o)) x <> None -> lookup r x <> None \/ exists l h, o = OJoin x l h.
Proof.
  intros r o k x W I Hk Ho.
  destruct o as [sid l h|sid m oracle|sid|ms].
  - cbn [step]. unfold join.
    destruct (negb (has_role h) || is_some (lookup r sid)); [cbn [fst]; auto|].
    match goal with |- context [meta_publish ?R ?M] =>
      pose proof (same_but_broker_lookup R _ (meta_publish_frame R M)) as E end.
    rewrite E. unfold lookup. cbn [r_meta r_clients r_set_clients].
    destruct (N.eqb x meta_id); [auto|]. rewrite find_session_app.
    destruct (find_session (r_clients r) x); [left; discriminate|]. cbn [s_id].
    destruct (N.eqb_spec sid x); [subst; right; eauto|intros H; now left].
  - left. revert H. rewrite step_msg_eq. destruct (find_session (r_clients r) sid) as [s|] eqn:F; [|cbn [fst]; auto].
    assert (Hs : find_session (r_clients r) (s_id s) = Some s) by now rewrite (find_session_id _ _ _ F).
    destruct (gate r s m) as [m'|out]; [|cbn [fst]; auto].
    apply (handle_lookup_sub r s m' oracle k x W I Hk Hs).
  - left. revert H. apply leave_lookup_sub.
  - left. revert H. cbn [step]. destruct (fire_timers _ _ _) as [d out]. cbn [fst]. auto.
Qed.

(** a session that is not attached stays so while nobody joins with its id *)
Lemma unattached_persists : forall mid r k s,
    realm_wf r -> ids_below k r -> Forall op_ok mid -> k + N.of_nat (List.length mid) <= max_idN ->
    lookup r s = None -> (forall l h, ~ In (OJoin s l h) mid) ->
    lookup (fst (run r mid)) s = None.
Proof.
  induction mid as [|o mid IH]; intros r k s W I Ho Hk Hs Hj; [exact Hs|].
  rewrite run_cons. cbn [fst]. cbn [List.length] in Hk. inversion Ho as [|? ? Ho1 Ho2]; subst.
  assert (Hk1 : k < max_idN) by lia.
  destruct (step_wf r o k W I Hk1 Ho1) as [W1 I1].
  apply (IH (fst (step r o)) (k + 1) s W1 I1 Ho2); [lia| |intros l h Hin; apply (Hj l h); now right].
  destruct (lookup (fst (step r o)) s) eqn:E; [|reflexivity]. exfalso.
  destruct (step_lookup_sub r o k s W I Hk1 Ho1) as [H|(l & h & ->)]; [congruence|congruence|].
  apply (Hj l h). now left.
Qed.

(** ** ended_session_silent *)
Theorem ended_session_silent_proof : forall cfg pre o mid o' post s m out,
    let ops := pre ++ o :: mid ++ o' :: post in
    Forall op_ok ops -> k0 cfg + N.of_nat (List.length ops) <= max_idN ->
    (* [s] ends at [o]: attached before it, not after it *)
    client (fst (run (init_realm cfg) pre)) s ->
    ~ client (fst (run (init_realm cfg) (pre ++ [o]))) s ->
    (* nobody joins with the id of [s] up to and including [o'] *)
    (forall l h, ~ In (OJoin s l h) (mid ++ [o'])) ->
    (* the output of the later step [o'] *)
    nth_error (snd (run (init_realm cfg) ops)) (List.length (pre ++ o :: mid)) = Some out ->
    ~ In (s, m) out.
Proof.
  intros cfg pre o mid o' post s m out ops Ho Hk Hc Hn Hj Hout.
  unfold ops in *. clear ops.
  replace (pre ++ o :: mid ++ o' :: post) with ((pre ++ o :: mid) ++ o' :: post) in Hout
    by (rewrite <- app_assoc; reflexivity).
  rewrite run_output_at in Hout. inversion Hout; subst out. clear Hout.
  assert (Len : List.length (pre ++ o :: mid ++ o' :: post) =
                (List.length pre + 1 + List.length mid + 1 + List.length post)%nat)
    by (rewrite !app_length; cbn [List.length]; rewrite app_length; cbn [List.length]; lia).
  rewrite Len in Hk.
  apply Forall_app in Ho. destruct Ho as [Hpre Ho]. inversion Ho as [|? ? Ho1 Ho']; subst.
  apply Forall_app in Ho'. destruct Ho' as [Hmid Ho']. inversion Ho' as [|? ? Ho2 _]; subst.
  destruct (init_realm_wf cfg) as [W0 I0]; [lia|].
  (* the state after [pre ++ [o]] *)
  assert (Hpo : Forall op_ok (pre ++ [o])) by (apply Forall_app; split; [exact Hpre|constructor; [exact Ho1|constructor]]).
  destruct (run_wf (pre ++ [o]) (init_realm cfg) (k0 cfg) W0 I0 Hpo) as [W1 I1].
  { rewrite app_length. cbn [List.length]. lia. }
  destruct (run_wf pre (init_realm cfg) (k0 cfg) W0 I0 Hpre) as [Wp _]; [lia|].
  assert (Hm : s <> meta_id) by (intros ->; apply Hc; apply (rw_no_meta _ Wp)).
  assert (Hl : lookup (fst (run (init_realm cfg) (pre ++ [o]))) s = None).
  { unfold lookup. destruct (N.eqb_spec s meta_id); [contradiction|].
    destruct (find_session _ s) eqn:E; [exfalso; apply Hn; unfold client; congruence|reflexivity]. }
  (* through [mid] *)
  replace (pre ++ o :: mid) with ((pre ++ [o]) ++ mid) by (rewrite <- app_assoc; reflexivity).
  rewrite run_app. cbn [fst].
  set (r1 := fst (run (init_realm cfg) (pre ++ [o]))) in *.
  set (k1 := k0 cfg + N.of_nat (List.length (pre ++ [o]))) in *.
  assert (Ek1 : k1 = k0 cfg + N.of_nat (List.length pre) + 1) by (unfold k1; rewrite app_length; cbn [List.length]; lia).
  destruct (run_wf mid r1 k1 W1 I1 Hmid) as [W2 I2]; [lia|].
  pose proof (unattached_persists mid r1 k1 s W1 I1 Hmid) as P.
  assert (Hl2 : lookup (fst (run r1 mid)) s = None).
  { apply P; [lia|exact Hl|]. intros l h Hin. apply (Hj l h). apply in_or_app. now left. }
  eapply (no_output_to_ended (fst (run r1 mid)) o' (k1 + N.of_nat (List.length mid)) s m W2 I2); auto.
  - lia.
  - intros C. unfold lookup in Hl2. destruct (N.eqb_spec s meta_id); [contradiction|]. apply C. exact Hl2.
  - intros l h ->. apply (Hj l h). apply in_or_app. right. now left.
Qed.
