(** * Histories, broker side, part 3 (C01): the subscription monitor.

    The monitor of (session [y], subscription id [sub]) reads a history event
    by event.  Its state is a flag "[y] holds [sub]" and the operation being
    handled.  The flag is set by a SUBSCRIBED [sub] sent to [y]; it is cleared
    ("reset") by
      - an UNSUBSCRIBED [q] sent to [y] while the operation being handled is
        [y]'s UNSUBSCRIBE [q] of [sub],
      - an ABORT or a GOODBYE sent to [y],
      - the operation "transport of [y] lost" ([ODrop y]);
    the monitor fails exactly when an EVENT for [sub] is sent to [y] while the
    flag is clear.

    This file: the monitor, its readable consequence ([sm_event_needs_sub]),
    and the theorem over segment lists ([seg_mon]): a segment list that meets
    [seg_ok] moves the monitor without failure and keeps the invariant
    "whoever subscribes in the broker has the flag set". *)
From Nexus Require Import Router.Realm Router.AssocLemmas Router.BrokerWf Router.BrokerPres
     Router.BrokerPublish Router.BrokerSub Router.BrokerRun.
From Nexus Require Import Router.RealmTraceLib Router.RealmTraceC01Seg Router.RealmTraceC01Ev.
From Coq Require Import Lia ZifyN ZifyBool.

(** ** The monitor *)
Definition is_end (m : rmsg) : bool := match m with RAbort _ _ | RGoodbye _ _ => true | _ => false end.

Definition unsub_acked (y sub : N) (cur : option op) (q : N) : bool :=
  match cur with
  | Some (OMsg x (CUnsubscribe q' s) _) => (x =? y) && (q' =? q) && (s =? sub)
  | _ => false
  end.

Definition out_resets (y sub : N) (cur : option op) (m : out) : bool :=
  (fst m =? y) && (is_end (snd m) || match snd m with RUnsubscribed q => unsub_acked y sub cur q | _ => false end).

Definition resets (y sub : N) (cur : option op) (e : event) : bool :=
  match e with
  | EIn (ODrop x) => x =? y
  | EIn _ => false
  | EOut m => out_resets y sub cur m
  end.

Definition out_subd (y sub : N) (m : out) : bool :=
  match snd m with RSubscribed _ s => (fst m =? y) && (s =? sub) | _ => false end.
Definition out_evt (y sub : N) (m : out) : bool :=
  match snd m with REvent s _ _ _ _ => (fst m =? y) && (s =? sub) | _ => false end.

Definition is_subd (y sub : N) (e : event) : bool := match e with EOut m => out_subd y sub m | EIn _ => false end.
Definition is_evt (y sub : N) (e : event) : bool := match e with EOut m => out_evt y sub m | EIn _ => false end.

Definition next_cur (cur : option op) (e : event) : option op := match e with EIn o => Some o | EOut _ => cur end.
Definition cur_of (tr : list event) : option op := fold_left next_cur tr None.

Definition sm_step (y sub : N) (st : bool * option op) (e : event) : option (bool * option op) :=
  let '(h, cur) := st in
  if resets y sub cur e then Some (false, next_cur cur e)
  else if is_subd y sub e then Some (true, next_cur cur e)
  else if is_evt y sub e then (if h then Some (true, next_cur cur e) else None)
  else Some (h, next_cur cur e).

Fixpoint sm_run (y sub : N) (st : bool * option op) (tr : list event) : option (bool * option op) :=
  match tr with
  | [] => Some st
  | e :: rest => match sm_step y sub st e with Some st' => sm_run y sub st' rest | None => None end
  end.

Lemma sm_app : forall y sub a b st,
    sm_run y sub st (a ++ b) = match sm_run y sub st a with Some st' => sm_run y sub st' b | None => None end.
Proof.
  induction a as [|e a IH]; intros b st; cbn [app sm_run]; [reflexivity|].
  destruct (sm_step y sub st e); [apply IH|reflexivity].
Qed.

Lemma sm_step_cur : forall y sub h cur e st', sm_step y sub (h, cur) e = Some st' -> snd st' = next_cur cur e.
Proof.
  intros y sub h cur e st'. unfold sm_step.
  destruct (resets y sub cur e); [intros E; inversion E; reflexivity|].
  destruct (is_subd y sub e); [intros E; inversion E; reflexivity|].
  destruct (is_evt y sub e); [destruct h; intros E; inversion E; reflexivity|intros E; inversion E; reflexivity].
Qed.

(** no reset in [tr], the operation being handled at its start being [cur] *)
Fixpoint quiet_for (y sub : N) (cur : option op) (tr : list event) : Prop :=
  match tr with
  | [] => True
  | e :: rest => resets y sub cur e = false /\ quiet_for y sub (next_cur cur e) rest
  end.

(** the flag is set after [pre]: it was set before and nothing reset it, or a
    SUBSCRIBED in [pre] set it and nothing after that reset it *)
Lemma sm_true : forall y sub pre h cur cur',
    sm_run y sub (h, cur) pre = Some (true, cur') ->
    (h = true /\ quiet_for y sub cur pre) \/
    exists p1 e1 p2, pre = p1 ++ e1 :: p2 /\ is_subd y sub e1 = true /\
                     quiet_for y sub (fold_left next_cur (p1 ++ [e1]) cur) p2.
Proof.
  intros y sub. induction pre as [|e pre IH]; intros h cur cur' H; cbn [sm_run] in H.
  - inversion H; subst. left. split; [reflexivity|exact I].
  - destruct (sm_step y sub (h, cur) e) as [[h1 c1]|] eqn:E; [|discriminate H].
    pose proof (sm_step_cur _ _ _ _ _ _ E) as Ec. cbn [snd] in Ec. subst c1.
    destruct (IH _ _ _ H) as [[-> Q]|(p1 & e1 & p2 & -> & S & Q)].
    + unfold sm_step in E. destruct (resets y sub cur e) eqn:R; [inversion E|].
      destruct (is_subd y sub e) eqn:S.
      * right. exists [], e, pre. split; [reflexivity|]. split; [exact S|exact Q].
      * left. assert (h = true).
        { destruct (is_evt y sub e); [destruct h; [reflexivity|discriminate E]|inversion E; reflexivity]. }
        split; [assumption|]. split; [exact R|exact Q].
    + right. exists (e :: p1), e1, p2. split; [reflexivity|]. split; [exact S|exact Q].
Qed.

(** the readable consequence: an EVENT for [sub] sent to [y] is preceded by a
    SUBSCRIBED [sub] sent to [y], with no reset in between *)
Theorem sm_event_needs_sub : forall y sub pre e post,
    sm_run y sub (false, None) (pre ++ e :: post) <> None -> is_evt y sub e = true ->
    exists p1 e1 p2, pre = p1 ++ e1 :: p2 /\ is_subd y sub e1 = true /\
                     quiet_for y sub (cur_of (p1 ++ [e1])) p2.
Proof.
  intros y sub pre e post H Ev. rewrite sm_app in H.
  destruct (sm_run y sub (false, None) pre) as [[h c]|] eqn:R; [|exfalso; apply H; reflexivity].
  cbn [sm_run] in H. destruct h.
  - destruct (sm_true _ _ _ _ _ _ R) as [[F _]|X]; [discriminate F|exact X].
  - exfalso. apply H. unfold sm_step.
    assert (Rs : resets y sub c e = false).
    { destruct e as [o|[x m]]; [discriminate Ev|]. unfold is_evt, out_evt in Ev. unfold resets, out_resets. cbn [fst snd] in *.
      destruct m; try discriminate Ev. cbn [is_end orb]. apply andb_false_r. }
    assert (Sd : is_subd y sub e = false).
    { destruct e as [o|[x m]]; [reflexivity|]. unfold is_evt, out_evt in Ev. unfold is_subd, out_subd. cbn [snd] in *.
      destruct m; try discriminate Ev. reflexivity. }
    rewrite Rs, Sd, Ev. reflexivity.
Qed.

(** ** The monitor over the outputs of one step (the operation being handled is fixed) *)
Definition so_step (y sub : N) (cur : option op) (h : bool) (m : out) : option bool :=
  if out_resets y sub cur m then Some false
  else if out_subd y sub m then Some true
  else if out_evt y sub m then (if h then Some true else None)
  else Some h.

Fixpoint so_run (y sub : N) (cur : option op) (h : bool) (o : list out) : option bool :=
  match o with
  | [] => Some h
  | m :: rest => match so_step y sub cur h m with Some h' => so_run y sub cur h' rest | None => None end
  end.

Lemma so_app : forall y sub cur a b h,
    so_run y sub cur h (a ++ b) = match so_run y sub cur h a with Some h' => so_run y sub cur h' b | None => None end.
Proof.
  induction a as [|m a IH]; intros b h; cbn [app so_run]; [reflexivity|].
  destruct (so_step y sub cur h m); [apply IH|reflexivity].
Qed.

Lemma sm_outs : forall y sub cur o h,
    sm_run y sub (h, cur) (map EOut o) =
    match so_run y sub cur h o with Some h' => Some (h', cur) | None => None end.
Proof.
  induction o as [|m o IH]; intros h; cbn [map sm_run so_run]; [reflexivity|].
  unfold sm_step, so_step. cbn [resets is_subd is_evt next_cur].
  destruct (out_resets y sub cur m); [apply IH|].
  destruct (out_subd y sub m); [apply IH|].
  destruct (out_evt y sub m); [destruct h; [apply IH|reflexivity]|apply IH].
Qed.

(** messages of the dealer kind: the monitor ignores them *)
Definition dmsg (m : out) : bool :=
  match snd m with
  | RError _ _ _ _ _ _ | RRegistered _ _ | RUnregistered _ | RInvocation _ _ _ _ _ | RResult _ _ _ _ | RInterrupt _ _ => true
  | _ => false
  end.

(** a message that leaves the flag alone *)
Definition keeps (y sub : N) (h : bool) (m : out) : Prop :=
  fst m <> y \/ dmsg m = true \/ is_ack (snd m) = true \/
  exists s p d a k, snd m = REvent s p d a k /\ (s = sub -> h = true).

Lemma so_keep1 : forall y sub cur h m, keeps y sub h m -> so_step y sub cur h m = Some h.
Proof.
  intros y sub cur h [x m] K. unfold so_step, out_resets, out_subd, out_evt. cbn [fst snd].
  destruct K as [K|[K|[K|(s & p & d & a & k & E & K)]]]; cbn [fst snd] in *.
  - apply N.eqb_neq in K. rewrite K. cbn [andb]. destruct m; reflexivity.
  - destruct m; try discriminate K; cbn [is_end orb]; rewrite ?andb_false_r; reflexivity.
  - destruct m; try discriminate K; cbn [is_end orb]; rewrite ?andb_false_r; reflexivity.
  - subst m. cbn [is_end orb]. rewrite andb_false_r.
    destruct (N.eqb_spec x y); cbn [andb]; [|reflexivity].
    destruct (N.eqb_spec s sub); [|reflexivity]. rewrite K by assumption. reflexivity.
Qed.

Lemma so_keep : forall y sub cur h o, (forall m, In m o -> keeps y sub h m) -> so_run y sub cur h o = Some h.
Proof.
  induction o as [|m o IH]; intros K; cbn [so_run]; [reflexivity|].
  rewrite so_keep1 by (apply K; now left). apply IH. intros m' H. apply K. now right.
Qed.

Lemma so_step_subscribed : forall y sub cur h x q id,
    so_step y sub cur h (x, RSubscribed q id) = if (x =? y) && (id =? sub) then Some true else Some h.
Proof.
  intros. unfold so_step, out_resets, out_subd, out_evt. cbn [fst snd is_end orb]. rewrite andb_false_r. reflexivity.
Qed.

Lemma so_step_unsubscribed : forall y sub cur h x q,
    so_step y sub cur h (x, RUnsubscribed q) =
    if (x =? y) && unsub_acked y sub cur q then Some false else Some h.
Proof.
  intros. unfold so_step, out_resets, out_subd, out_evt. cbn [fst snd is_end orb]. reflexivity.
Qed.

Lemma unsub_acked_cur : forall y sub cur q, unsub_acked y sub (Some cur) q = true ->
    exists orc, cur = OMsg y (CUnsubscribe q sub) orc.
Proof.
  intros y sub cur q H. unfold unsub_acked in H. destruct cur as [| x m orc | |]; try discriminate H.
  destruct m; try discriminate H. apply andb_prop in H. destruct H as [H H3]. apply andb_prop in H. destruct H as [H1 H2].
  apply N.eqb_eq in H1, H2, H3. subst. eauto.
Qed.

Lemma so_step_end : forall y sub cur h x m, is_end m = true ->
    so_step y sub cur h (x, m) = if x =? y then Some false else Some h.
Proof.
  intros y sub cur h x m E. unfold so_step, out_resets, out_subd, out_evt. cbn [fst snd]. rewrite E. cbn [orb].
  rewrite andb_true_r. destruct (x =? y); [reflexivity|]. destruct m; try discriminate E; reflexivity.
Qed.

(** EVENTs to subscribers keep the flag, when subscribers have it set *)
Lemma keeps_events : forall y sub h b o,
    only_events o -> ev_held b o -> (sub_has (b_subs b) sub y -> h = true) ->
    forall m, In m o -> keeps y sub h m.
Proof.
  intros y sub h b o On Hh J [x m] Hin. specialize (On _ Hin). cbn [snd] in On.
  destruct m; try discriminate On.
  destruct (N.eq_dec x y) as [->|Hn]; [|left; exact Hn].
  right; right; right. do 5 eexists. split; [reflexivity|]. intros ->. apply J. eapply Hh; eauto.
Qed.

(** ** Segment lists the monitor accepts *)
Fixpoint doomed (y : N) (l : list seg) : Prop :=
  match l with
  | SO _ :: rest => doomed y rest
  | SB (BRemove _ x) :: _ => x = y
  | _ => False
  end.

(** [y] is about to be removed from the broker, or subscribes to nothing *)
Definition dying (y : N) (b : broker) (l : list seg) : Prop :=
  (forall sub, ~ sub_has (b_subs b) sub y) \/ doomed y l.

Definition bop_ok (cur : op) (cfg : config) (b : broker) (bo : bop) (rest : list seg) : Prop :=
  match bo with
  | BSubscribe _ _ _ _ _ => b_idgen b < max_idN
  | BPublish pg lk now pub req opts topic args kw =>
      lookup_ok lk /\ (publish_aborts cfg pub opts topic = true -> dying (s_id pub) b rest)
  | BUnsubscribe pg sid req subid => forall s orc, cur = OMsg sid (CUnsubscribe req s) orc -> s = subid
  | BRemove _ _ => True
  end.

Lemma bnext_wf : forall cfg b bo, broker_wf b ->
    (forall pg sid req opts topic, bo = BSubscribe pg sid req opts topic -> b_idgen b < max_idN) ->
    broker_wf (bnext cfg b bo).
Proof.
  intros cfg b bo W H. unfold bnext. destruct bo; cbn [bstep].
  - destruct (subscribe cfg b pg sid req opts topic) as [[b' pg'] o'] eqn:E. cbn [fst].
    eapply subscribe_wf; eauto.
  - destruct (unsubscribe b pg sid req subid) as [[b' pg'] o'] eqn:E. cbn [fst]. eapply unsubscribe_wf; eauto.
  - destruct (broker_remove_session b pg sid) as [[b' pg'] o'] eqn:E. cbn [fst]. eapply remove_session_wf; eauto.
  - destruct (publish cfg lookup now b pg pub req opts topic args kw) as [[b' pg'] o'] eqn:E. cbn [fst].
    eapply publish_wf; eauto.
Qed.

Fixpoint seg_ok (cur : op) (cfg : config) (b : broker) (l : list seg) : Prop :=
  match l with
  | [] => True
  | SO o :: rest =>
      (forall m, In m o -> dmsg m = true \/ (is_end (snd m) = true /\ dying (fst m) b rest)) /\
      seg_ok cur cfg b rest
  | SB bo :: rest => bop_ok cur cfg b bo rest /\ seg_ok cur cfg (bnext cfg b bo) rest
  end.

Lemma doomed_app : forall y l1 l2, doomed y l1 -> doomed y (l1 ++ l2).
Proof.
  intros y l1; induction l1 as [|s l1 IH]; intros l2 H; [destruct H|].
  destruct s as [bo|o]; cbn [app doomed] in *; [destruct bo; auto|auto].
Qed.

Lemma dying_app : forall y b l1 l2, dying y b l1 -> dying y b (l1 ++ l2).
Proof. intros y b l1 l2 [H|H]; [now left|right; now apply doomed_app]. Qed.

Lemma seg_ok_app : forall cur cfg l1 l2 b pg,
    seg_ok cur cfg b l1 -> seg_ok cur cfg (fst (fst (seg_run cfg b pg l1))) l2 -> seg_ok cur cfg b (l1 ++ l2).
Proof.
  intros cur cfg l1; induction l1 as [|s l1 IH]; intros l2 b pg H1 H2; cbn [app seg_run fst] in *; [exact H2|].
  destruct s as [bo|o]; cbn [seg_ok] in *.
  - destruct H1 as [Hb H1]. unfold bnext in *.
    destruct (bstep cfg b bo) as [[b1 pg1] o1]. cbn [fst] in *.
    specialize (IH l2 b1 pg1 H1).
    destruct (seg_run cfg b1 pg1 l1) as [[b2 pg2] o2]. cbn [fst] in *. split; [|now apply IH].
    destruct bo; auto. destruct Hb as [L D]. split; [exact L|]. intros A. apply dying_app. auto.
  - destruct H1 as [Hm H1]. specialize (IH l2 b pg H1).
    destruct (seg_run cfg b pg l1) as [[b2 pg2] o2]. cbn [fst] in *. split; [|now apply IH].
    intros m Hin. destruct (Hm m Hin) as [D|[E D]]; [now left|right]. split; [exact E|now apply dying_app].
Qed.

(** ** The theorem over segment lists *)
Definition flag_inv (y sub : N) (b : broker) (h : bool) (l : list seg) : Prop :=
  sub_has (b_subs b) sub y -> h = true \/ doomed y l.

Lemma so_segment : forall y sub cur b rest o h,
    (forall m, In m o -> dmsg m = true \/ (is_end (snd m) = true /\ dying (fst m) b rest)) ->
    flag_inv y sub b h rest ->
    exists h', so_run y sub cur h o = Some h' /\ flag_inv y sub b h' rest.
Proof.
  intros y sub cur b rest. induction o as [|m o IH]; intros h Hm J; cbn [so_run].
  - exists h. auto.
  - destruct (Hm m (or_introl eq_refl)) as [D|[E Dy]].
    + rewrite so_keep1 by (right; left; exact D). apply IH; [intros m' H; apply Hm; now right|exact J].
    + destruct (N.eq_dec (fst m) y) as [Ey|Hn].
      * assert (R : so_step y sub cur h m = Some false).
        { unfold so_step, out_resets. rewrite Ey, N.eqb_refl, E. reflexivity. }
        rewrite R. apply IH; [intros m' H; apply Hm; now right|].
        intros Hs. rewrite Ey in Dy. destruct Dy as [Dy|Dy]; [exfalso; eapply Dy; eauto|now right].
      * rewrite so_keep1 by (left; exact Hn). apply IH; [intros m' H; apply Hm; now right|exact J].
Qed.

Theorem seg_mon : forall cur cfg l b pg,
    broker_wf b -> seg_ok cur cfg b l ->
    forall y sub h, flag_inv y sub b h l ->
    exists h', so_run y sub (Some cur) h (snd (seg_run cfg b pg l)) = Some h' /\
               (sub_has (b_subs (fst (fst (seg_run cfg b pg l)))) sub y -> h' = true).
Proof.
  intros cur cfg l; induction l as [|s l IH]; intros b pg W Ok y sub h J.
  - cbn [seg_run fst snd so_run]. exists h. split; [reflexivity|]. intros Hs. destruct (J Hs) as [E|[]]. exact E.
  - destruct s as [bo|o]; cbn [seg_ok seg_run] in *.
    2:{ destruct Ok as [Hm Ok].
        destruct (so_segment y sub (Some cur) b l o h Hm J) as (h1 & R1 & J1).
        destruct (IH b pg W Ok y sub h1 J1) as (h' & R' & Hf).
        destruct (seg_run cfg b pg l) as [[b2 pg2] o2]. cbn [fst snd] in *.
        exists h'. rewrite so_app, R1. auto. }
    destruct Ok as [Hb Ok].
    assert (W1 : broker_wf (bnext cfg b bo)).
    { apply bnext_wf; [exact W|]. intros pg0 sid req opts topic ->. exact Hb. }
    unfold bnext in *.
    (* what the operation does to the flag *)
    assert (Hop : exists h1, so_run y sub (Some cur) h (snd (bstep cfg b bo)) = Some h1 /\
                             flag_inv y sub (fst (fst (bstep cfg b bo))) h1 l).
    { unfold flag_inv in J. destruct bo as [pg0 sid req opts topic|pg0 sid req subid|pg0 sid|pg0 lk now pub req opts topic args kw]; cbn [bstep doomed] in *.
      - (* SUBSCRIBE *)
        assert (Jp : sub_has (b_subs b) sub y -> h = true) by (intros Hs; destruct (J Hs) as [E|[]]; exact E).
        destruct (subscribe cfg b pg0 sid req opts topic) as [[b1 pg1] o1] eqn:S. cbn [fst snd] in *.
        destruct (subscribe_shape _ _ _ _ _ _ _ _ _ _ W Hb S) as [(-> & e & a & ->)|(id & rest & -> & On & Hne & Hh & Heff)].
        + exists h. split; [|intros Hs; left; auto]. apply so_keep. intros m [<-|[]]. right; left; reflexivity.
        + cbn [so_run]. rewrite so_step_subscribed.
          assert (Kr : forall h0, (sub_has (b_subs b) sub y -> h0 = true) -> so_run y sub (Some cur) h0 rest = Some h0).
          { intros h0 J0. apply so_keep. intros [x m] Hin. specialize (On _ Hin). cbn [snd] in On. destruct m; try discriminate On.
            destruct (N.eq_dec x y) as [->|Hn]; [|left; exact Hn].
            right; right; right. do 5 eexists. split; [reflexivity|]. intros ->. apply J0.
            pose proof (Hh _ _ _ _ _ _ Hin) as Hs. apply Heff in Hs. destruct Hs as [Hs|[E _]]; [exact Hs|].
            exfalso. apply (Hne _ Hin). cbn [fst]. congruence. }
          destruct ((sid =? y) && (id =? sub)) eqn:Eq.
          * apply andb_prop in Eq. destruct Eq as [E1 E2]. apply N.eqb_eq in E1, E2. subst.
            exists true. split; [apply Kr; auto|]. intros _. now left.
          * exists h. split; [apply Kr; exact Jp|]. intros Hs. left. apply Heff in Hs.
            destruct Hs as [Hs|[-> ->]]; [auto|]. rewrite !N.eqb_refl in Eq. discriminate Eq.
      - (* UNSUBSCRIBE *)
        assert (Jp : sub_has (b_subs b) sub y -> h = true) by (intros Hs; destruct (J Hs) as [E|[]]; exact E).
        destruct (unsubscribe b pg0 sid req subid) as [[b1 pg1] o1] eqn:S. cbn [fst snd] in *.
        destruct (unsubscribe_shape _ _ _ _ _ _ _ _ W S) as [(-> & ->)|(rest & -> & On & Hne & Hh & Heff)].
        + exists h. split; [|intros Hs; left; auto]. apply so_keep. intros m [<-|[]]. right; left; reflexivity.
        + cbn [so_run]. rewrite so_step_unsubscribed.
          assert (Kr : forall h0, (forall z, z <> sid -> sub_has (b_subs b) sub z -> z = y -> h0 = true) ->
                                  so_run y sub (Some cur) h0 rest = Some h0).
          { intros h0 J0. apply so_keep. intros [x m] Hin. specialize (On _ Hin). cbn [snd] in On. destruct m; try discriminate On.
            destruct (N.eq_dec x y) as [->|Hn]; [|left; exact Hn].
            right; right; right. do 5 eexists. split; [reflexivity|]. intros ->.
            pose proof (Hh _ _ _ _ _ _ Hin) as Hs. apply Heff in Hs. destruct Hs as [Hs _].
            apply (J0 y); auto. exact (Hne _ Hin). }
          destruct ((sid =? y) && unsub_acked y sub (Some cur) req) eqn:Eq.
          * apply andb_prop in Eq. destruct Eq as [E1 E2]. apply N.eqb_eq in E1. subst sid.
            destruct (unsub_acked_cur _ _ _ _ E2) as (orc & Ec). specialize (Hb _ _ Ec). subst subid.
            exists false. split; [apply Kr; intros z Hz _ E; congruence|].
            intros Hs. apply Heff in Hs. destruct Hs as [_ Hs]. exfalso. apply Hs. auto.
          * exists h. split; [apply Kr; intros z _ Hs ->; auto|].
            intros Hs. left. apply Heff in Hs. destruct Hs as [Hs _]. auto.
      - (* session removal *)
        destruct (broker_remove_session b pg0 sid) as [[b1 pg1] o1] eqn:R. cbn [fst snd] in *.
        destruct (remove_shape _ _ _ _ _ _ W R) as (On & Hne & Hh & Heff).
        exists h. split.
        + apply so_keep. intros [x m] Hin. specialize (On _ Hin). cbn [snd] in On. destruct m; try discriminate On.
          destruct (N.eq_dec x y) as [->|Hn]; [|left; exact Hn].
          right; right; right. do 5 eexists. split; [reflexivity|]. intros ->.
          destruct (J (Hh _ _ _ _ _ _ Hin)) as [E|E]; [exact E|]. exfalso. apply (Hne _ Hin). cbn [fst]. symmetry. exact E.
        + intros Hs. left. apply Heff in Hs. destruct Hs as [Hs Hn]. destruct (J Hs) as [E|E]; [exact E|congruence].
      - (* PUBLISH *)
        assert (Jp : sub_has (b_subs b) sub y -> h = true) by (intros Hs; destruct (J Hs) as [E|[]]; exact E).
        destruct Hb as [L Dy].
        pose proof (publish_shape cfg lk now b pg0 pub req opts topic args kw) as Sh. cbv zeta in Sh.
        pose proof (publish_subs_same cfg lk now b pg0 pub req opts topic args kw (wf_core _ W)) as Es.
        destruct (publish cfg lk now b pg0 pub req opts topic args kw) as [[b1 pg1] o1] eqn:P. cbn [fst snd] in *.
        destruct Sh as [(Ab & ->)|(Ab & Hk & Hh)].
        + cbn [so_run]. rewrite so_step_end by reflexivity.
          rewrite (publish_aborts_unchanged _ _ _ _ _ _ _ _ _ _ _ Ab) in P. inversion P; subst b1.
          destruct (N.eqb_spec (s_id pub) y) as [E|Hn].
          * exists false. split; [reflexivity|]. intros Hs. destruct (Dy Ab) as [D|D]; [exfalso; rewrite E in D; eapply D; eauto|].
            right. now rewrite <- E.
          * exists h. split; [reflexivity|]. intros Hs. left. auto.
        + exists h. split; [|intros Hs; left; apply Jp; now rewrite <- Es].
          apply so_keep. intros [x m] Hin. destruct (Hk _ Hin) as [Ev|Ak]; cbn [snd] in *.
          * destruct m; try discriminate Ev. destruct (N.eq_dec x y) as [->|Hn]; [|left; exact Hn].
            right; right; right. do 5 eexists. split; [reflexivity|]. intros ->. apply Jp.
            eapply (Hh (wf_core _ W) L); eauto.
          * right; right; left. exact Ak. }
    destruct Hop as (h1 & R1 & J1).
    destruct (bstep cfg b bo) as [[b1 pg1] o1]. cbn [fst snd] in *.
    destruct (IH b1 pg1 W1 Ok y sub h1 J1) as (h' & R' & Hf).
    destruct (seg_run cfg b1 pg1 l) as [[b2 pg2] o2]. cbn [fst snd] in *.
    exists h'. rewrite so_app, R1. auto.
Qed.
