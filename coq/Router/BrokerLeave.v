(** * Session end announces every subscription of the leaver (C18):
    on_unsubscribe [sid; subid] for each, followed by on_delete [sid; subid]
    iff the subscription went away (no other subscriber, no history store). *)
From Nexus Require Import Router.Broker Router.AssocLemmas Router.BrokerWf Router.BrokerPres Router.BrokerSub.
From Coq Require Import Lia ZifyN ZifyBool.

(** [sid] is the only subscriber of [subid] and [subid] has no history store *)
Definition sole_no_hist (b : broker) (sid subid : N) : bool :=
  match nget (b_subs b) subid with
  | Some s => match nremove sid (sub_subs s) with [] => negb (has_history b subid) | _ => false end
  | None => false
  end.

Lemma sole_no_hist_spec : forall b sid subid,
    sole_no_hist b sid subid = true <->
    exists s, nget (b_subs b) subid = Some s /\ (forall x, In x (sub_subs s) -> x = sid) /\
              has_history b subid = false.
Proof.
  intros b sid subid. unfold sole_no_hist. destruct (nget (b_subs b) subid) as [s|].
  2:{ split; [discriminate|intros (s & E & _); discriminate]. }
  destruct (nremove sid (sub_subs s)) as [|y l] eqn:R.
  - rewrite negb_true_iff. split.
    + intros Hh. exists s. split; auto. split; auto. intros x Hx. destruct (N.eq_dec x sid); auto.
      assert (In x (nremove sid (sub_subs s))) by (apply In_nremove; auto). rewrite R in H; destruct H.
    + intros (s0 & E & _ & Hh). auto.
  - split; [discriminate|]. intros (s0 & E & Ho & _). inversion E; subst s0.
    assert (Hy : In y (nremove sid (sub_subs s))) by (rewrite R; now left).
    apply In_nremove in Hy. destruct Hy as [Hy Hn]. apply Ho in Hy. contradiction.
Qed.

(** one step of the announcement: subscription, broker at that moment (the
    leaver already removed from it), id supply before, deleted? *)
Definition lstep := (N * broker * N * bool)%type.
Definition ls_sub (x : lstep) : N := fst (fst (fst x)).
Definition ls_broker (x : lstep) : broker := snd (fst (fst x)).
Definition ls_pg (x : lstep) : N := snd (fst x).
Definition ls_del (x : lstep) : bool := snd x.

Definition leave_step_events (sid : N) (x : lstep) : list out :=
  sub_meta_event (ls_broker x) t_sub_on_unsubscribe sid (ls_pg x + 1) [vid sid; vid (ls_sub x)] ++
  (if ls_del x
   then sub_meta_event (ls_broker x) t_sub_on_delete sid (ls_pg x + 2) [vid sid; vid (ls_sub x)]
   else []).

(** publication ids: one per on_unsubscribe, one more per on_delete, consecutive *)
Fixpoint pg_chain (pg : N) (steps : list lstep) (pg' : N) : Prop :=
  match steps with
  | [] => pg' = pg
  | x :: r => ls_pg x = pg /\ pg_chain (pg + (if ls_del x then 2 else 1)) r pg'
  end.

Lemma rs_step_shape : forall sid b pg o subid s,
    core_wf b -> nget (b_subs b) subid = Some s ->
    exists b1, remove_session_sub sid (b, pg, o) subid =
               (b1, pg + (if sole_no_hist b sid subid then 2 else 1),
                o ++ leave_step_events sid (subid, b1, pg, sole_no_hist b sid subid)) /\
               (forall id', id' <> subid -> nget (b_subs b1) id' = nget (b_subs b) id') /\
               b_hist b1 = b_hist b.
Proof.
  intros sid b pg o subid s Wc Es. unfold remove_session_sub, sole_no_hist, leave_step_events. rewrite Es.
  pose proof (wf_sub_id b Wc _ _ Es) as Hid.
  cbn [sub_subs ls_broker ls_pg ls_del ls_sub fst snd].
  destruct (match nremove sid (sub_subs s) with [] => negb (has_history b subid) | _ :: _ => false end).
  - eexists. split; [reflexivity|]. split.
    + intros id' Hn. unfold del_subscription. autorewrite with bproj. cbn [sub_id]. rewrite Hid, ngd.
      destruct (N.eqb_spec id' subid); [contradiction|reflexivity].
    + unfold del_subscription. now autorewrite with bproj.
  - eexists. split; [now rewrite app_nil_r|]. split.
    + intros id' Hn. autorewrite with bproj. rewrite ngs. destruct (N.eqb_spec id' subid); [contradiction|reflexivity].
    + reflexivity.
Qed.

Lemma sole_no_hist_ext : forall b b1 sid j,
    nget (b_subs b1) j = nget (b_subs b) j -> b_hist b1 = b_hist b ->
    sole_no_hist b1 sid j = sole_no_hist b sid j.
Proof. intros b b1 sid j E Hh. unfold sole_no_hist, has_history. now rewrite E, Hh. Qed.

Lemma rs_fold_trace : forall sid ids b pg o0 b' pg' o',
    rs_inv sid b ids -> NoDup ids ->
    (forall i, In i ids -> exists s, nget (b_subs b) i = Some s) ->
    fold_left (remove_session_sub sid) ids (b, pg, o0) = (b', pg', o') ->
    exists steps : list lstep,
      map ls_sub steps = ids /\
      o' = o0 ++ flat_map (leave_step_events sid) steps /\
      pg_chain pg steps pg' /\
      (forall x, In x steps ->
         ls_del x = sole_no_hist b sid (ls_sub x) /\
         forall r, r <> sid -> forall id t k,
             hsig (b_subs (ls_broker x)) r id t k <-> hsig (b_subs b) r id t k).
Proof.
  intros sid ids; induction ids as [|i rest IH]; intros b pg o0 b' pg' o' Hinv ND Hpres; cbn [fold_left].
  - intros H; inversion H; subst. exists []. cbn. rewrite app_nil_r. split; [reflexivity|]. split; [reflexivity|]. split; [reflexivity|]. intros x [].
  - destruct (Hpres i (or_introl eq_refl)) as (s & Es).
    assert (Wc : core_wf b) by apply Hinv.
    destruct (rs_step_shape sid b pg o0 i s Wc Es) as (b1 & E1 & Hoth & Hh).
    rewrite E1. inversion ND as [|? ? Hni ND']; subst.
    destruct (rs_step _ _ _ _ _ _ _ _ _ Hinv E1) as (Hinv1 & _).
    destruct (rs_step_effect _ _ _ _ _ _ _ _ Wc E1) as (He1 & _).
    intros H. apply IH in H; auto.
    2:{ intros j Hj. rewrite Hoth by (intros ->; contradiction). apply Hpres. now right. }
    destruct H as (steps & Hm & Ho & Hc & Hall).
    exists ((i, b1, pg, sole_no_hist b sid i) :: steps).
    split; [cbn [map ls_sub fst]; now rewrite Hm|].
    split; [cbn [flat_map]; now rewrite Ho, <- app_assoc|].
    split; [cbn [pg_chain ls_pg ls_del fst snd]; auto|].
    intros x [<-|Hx].
    + cbn [ls_del ls_sub ls_broker fst snd]. split; auto.
      intros r Hr id t k. rewrite He1. split; [tauto|]. intros Hh0; split; auto. intros [? _]; contradiction.
    + destruct (Hall x Hx) as (Hd & Hf).
      assert (Hin : In (ls_sub x) rest) by (rewrite <- Hm; now apply in_map).
      split.
      * rewrite Hd. apply sole_no_hist_ext; auto. apply Hoth. intros E. rewrite E in Hin. contradiction.
      * intros r Hr id t k. rewrite (Hf r Hr id t k), He1. split; [tauto|]. intros Hh0; split; auto. intros [? _]; contradiction.
Qed.

(** The announcement made by a session end. *)
Theorem leave_announces_unsubscribe : forall b pg sid ids b' pg' o,
    broker_wf b -> nget (b_sess b) sid = Some ids ->
    broker_remove_session b pg sid = (b', pg', o) ->
    NoDup ids /\
    exists steps : list lstep,
      (* one step per subscription the leaver held, in the order of its list *)
      map ls_sub steps = ids /\
      (* each: exactly one on_unsubscribe, then exactly one on_delete iff the
         leaver was the sole subscriber and there is no history store *)
      o = flat_map (leave_step_events sid) steps /\
      pg_chain pg steps pg' /\
      (forall x, In x steps ->
         ls_del x = sole_no_hist b sid (ls_sub x) /\
         (* the receivers are the holders of matching meta subscriptions in a
            broker where every other session holds exactly what it held *)
         forall r, r <> sid -> forall id t k,
             holds_sig (ls_broker x) r id t k <-> holds_sig b r id t k).
Proof.
  intros b pg sid ids b' pg' o W Es. unfold broker_remove_session. rewrite Es. intros H.
  assert (ND : NoDup ids) by (apply (wf_sess_list _ (wf_sess b W) sid ids Es)).
  split; auto.
  assert (Hpres : forall i, In i ids -> exists s, nget (b_subs (b_set_sess b (ndel (b_sess b) sid))) i = Some s).
  { intros i Hi. autorewrite with bproj.
    assert (Hs : sess_has (b_sess b) sid i) by (exists ids; auto).
    apply (wf_rel b W) in Hs. destruct Hs as (s & E & _). eauto. }
  destruct (rs_fold_trace sid ids _ pg [] b' pg' o (rs_inv_init sid b ids W Es) ND Hpres H)
    as (steps & Hm & Ho & Hc & Hall).
  exists steps. split; [exact Hm|]. split; [exact Ho|]. split; [exact Hc|].
  intros x Hx. destruct (Hall x Hx) as (Hd & Hf). split; [exact Hd|].
  intros r Hr id t k. apply (Hf r Hr id t k).
Qed.

Theorem leave_without_subscriptions : forall b pg sid,
    nget (b_sess b) sid = None -> broker_remove_session b pg sid = (b, pg, []).
Proof. intros b pg sid H. unfold broker_remove_session. now rewrite H. Qed.

(** nothing of it is addressed to the leaver, and every receiver holds a
    matching meta subscription *)
Lemma leave_step_events_receivers : forall sid x e, In e (leave_step_events sid x) ->
    fst e <> sid /\
    exists mt, (mt = t_sub_on_unsubscribe \/ (mt = t_sub_on_delete /\ ls_del x = true)) /\
      exists s st, In (s, st) (matching_subs (ls_broker x) mt) /\ In (fst e) (sub_subs s).
Proof.
  intros sid x e H. unfold leave_step_events in H. apply in_app_iff in H.
  assert (G : forall mt pub args, In e (sub_meta_event (ls_broker x) mt sid pub args) ->
              fst e <> sid /\ exists s st, In (s, st) (matching_subs (ls_broker x) mt) /\ In (fst e) (sub_subs s)).
  { intros mt pub args He. split; [eapply sub_meta_event_not_cause; eauto|].
    unfold sub_meta_event in He. apply in_flat_map in He. destruct He as ([s st] & Hs & He).
    apply in_flat_map in He. destruct He as (r & Hr & He).
    destruct (N.eqb r sid); [destruct He|]. destruct He as [<-|[]]. exists s, st. auto. }
  destruct H as [H|H].
  - destruct (G _ _ _ H) as (Hn & Hr). split; auto. exists t_sub_on_unsubscribe. split; auto.
  - destruct (ls_del x) eqn:D; [|destruct H]. destruct (G _ _ _ H) as (Hn & Hr). split; auto.
    exists t_sub_on_delete. split; auto.
Qed.
