(** * Histories, broker side, part 10 (C20): event-history retention over whole
    histories of the realm model.

    [realm_pubs cfg ops]: the broker operations of the history [ops], in order
    (the operations of [segs_run]): every SUBSCRIBE / UNSUBSCRIBE / session
    removal / PUBLISH the realm performed — the publications by clients and
    those by the meta session (session and registration meta events,
    testaments).  [BrokerHist.hist_ref] selects from them the accepted,
    matching publications without [exclude]/[eligible] option keys.

    [realm_store_from]: a history store that exists in the initial broker holds,
    after every history, the last <= limit of those, in order. *)
From Nexus Require Import Router.Realm Router.AssocLemmas Router.RealmLib Router.RealmProofs Router.RealmMetaProofs.
From Nexus Require Import Router.BrokerWf Router.BrokerPres Router.BrokerPublish Router.BrokerSub Router.BrokerRun
     Router.BrokerHist Router.BrokerHistInit.
From Nexus Require Import Router.RealmWf Router.RealmStep Router.RealmIdle.
From Nexus Require Import Router.RealmTraceLib Router.RealmTrace Router.RealmTraceC01Seg Router.RealmTraceC01Ev
     Router.RealmTraceC01Mon Router.RealmTraceC01Kind Router.RealmTraceC01Ok Router.RealmTraceC01Sub.
From Coq Require Import Lia ZifyN ZifyNat ZifyBool.

Definition realm_pubs (cfg : config) (ops : list op) : list bop := bops_of (segs_run (init_realm cfg) ops).

Lemma bops_of_app : forall a b, bops_of (a ++ b) = bops_of a ++ bops_of b.
Proof. intros. unfold bops_of. apply flat_map_app. Qed.

Lemma hist_ref_app : forall cfg id t k a b, hist_ref cfg id t k (a ++ b) = hist_ref cfg id t k a ++ hist_ref cfg id t k b.
Proof. intros. unfold hist_ref. apply flat_map_app. Qed.

(** one broker operation, the bound on the id generator needed for SUBSCRIBE only *)
Lemma bstep_store' : forall cfg b o id t k st,
    broker_wf b -> (forall pg sid req opts topic, o = BSubscribe pg sid req opts topic -> b_idgen b < max_idN) ->
    sub_sig b id t k -> nget (b_hist b) id = Some st -> store_ok st ->
    sub_sig (bnext cfg b o) id t k /\
    nget (b_hist (bnext cfg b o)) id =
    Some (mkHStore (hs_limit st) (lastn (hs_limit st) (hs_entries st ++ hist_contrib cfg id t k o))).
Proof.
  intros cfg b o id t k st W Hlt Hs Eh [Hl1 Hl2].
  assert (Hh : has_history b id = true) by (unfold has_history, amem; unfold nget in Eh; now rewrite Eh).
  assert (Hsame : Some st = Some (mkHStore (hs_limit st) (lastn (hs_limit st) (hs_entries st ++ [])))).
  { rewrite app_nil_r, lastn_all by auto. destruct st; reflexivity. }
  unfold bnext. destruct o; cbn [bstep hist_contrib].
  - split; [apply subscribe_sub_sig; eauto|]. now rewrite subscribe_hist, Eh.
  - split; [apply unsubscribe_sub_sig; auto; apply W|]. now rewrite unsubscribe_hist, Eh.
  - split; [now apply remove_session_sub_sig|]. now rewrite remove_session_hist, Eh.
  - destruct Hs as (s0 & E0 & Ht0 & Hk0). split.
    + destruct (publish cfg lookup now b pg pub req opts topic args kw) as [[b' pg'] o'] eqn:E. cbn [fst].
      apply publish_hist_ext in E; [|apply W]. destruct E as (E & _). rewrite E.
      exists s0. autorewrite with bproj. auto.
    + rewrite (publish_hist_at _ _ _ _ _ _ _ _ _ _ _ _ _ _ W E0 Eh). rewrite Ht0, Hk0.
      destruct (stored_b cfg pub t k opts topic); [|exact Hsame].
      f_equal. rewrite <- hist_push_entries by auto. reflexivity.
Qed.

(** a segment list that meets [seg_ok] *)
Theorem seg_store : forall cur cfg l b pg id t k st,
    broker_wf b -> seg_ok cur cfg b l ->
    sub_sig b id t k -> nget (b_hist b) id = Some st -> store_ok st ->
    let b' := fst (fst (seg_run cfg b pg l)) in
    sub_sig b' id t k /\
    nget (b_hist b') id =
    Some (mkHStore (hs_limit st) (lastn (hs_limit st) (hs_entries st ++ hist_ref cfg id t k (bops_of l)))).
Proof.
  intros cur cfg l; induction l as [|s l IH]; intros b pg id t k st W Ok Hs Eh Hok; cbv zeta.
  - cbn [seg_run fst bops_of flat_map hist_ref]. split; [exact Hs|].
    rewrite app_nil_r, lastn_all by apply Hok. rewrite Eh. destruct st; reflexivity.
  - destruct s as [bo|o]; cbn [seg_ok seg_run] in *.
    + destruct Ok as [Hb Ok].
      assert (Hlt : forall pg0 sid req opts topic, bo = BSubscribe pg0 sid req opts topic -> b_idgen b < max_idN)
        by (intros pg0 sid req opts topic ->; exact Hb).
      pose proof (bnext_wf cfg b bo W Hlt) as W1.
      destruct (bstep_store' cfg b bo id t k st W Hlt Hs Eh Hok) as [Hs1 Eh1].
      unfold bnext in *. destruct (bstep cfg b bo) as [[b1 pg1] o1]. cbn [fst] in *.
      assert (Hok1 : store_ok (mkHStore (hs_limit st) (lastn (hs_limit st) (hs_entries st ++ hist_contrib cfg id t k bo)))).
      { split; cbn [hs_limit hs_entries]; [apply Hok|apply lastn_length_le]. }
      destruct (IH b1 pg1 id t k _ W1 Ok Hs1 Eh1 Hok1) as [Hs2 Eh2]. cbv zeta in Hs2, Eh2.
      destruct (seg_run cfg b1 pg1 l) as [[b2 pg2] o2]. cbn [fst] in *.
      split; [exact Hs2|]. rewrite Eh2. cbn [hs_limit hs_entries].
      change (bops_of (SB bo :: l)) with ([bo] ++ bops_of l). rewrite hist_ref_app.
      change (hist_ref cfg id t k [bo]) with (hist_contrib cfg id t k bo ++ []). rewrite app_nil_r.
      now rewrite lastn_app_lastn, app_assoc.
    + destruct Ok as [_ Ok]. destruct (IH b pg id t k st W Ok Hs Eh Hok) as [Hs2 Eh2]. cbv zeta in Hs2, Eh2.
      destruct (seg_run cfg b pg l) as [[b2 pg2] o2]. cbn [fst] in *. auto.
Qed.

(** one step of the realm *)
Theorem step_store : forall r o k id t kd st,
    realm_wf r -> ids_below k r -> k < max_idN -> op_ok o ->
    sub_sig (r_broker r) id t kd -> nget (b_hist (r_broker r)) id = Some st -> store_ok st ->
    let b' := r_broker (fst (step r o)) in
    sub_sig b' id t kd /\
    nget (b_hist b') id =
    Some (mkHStore (hs_limit st) (lastn (hs_limit st) (hs_entries st ++ hist_ref (r_cfg r) id t kd (bops_of (segs_step r o))))).
Proof.
  intros r o k id t kd st W I Hk Ho Hs Eh Hok.
  destruct (step_decomp r o) as (_ & _ & E).
  assert (Ok : exists cur, seg_ok cur (r_cfg r) (r_broker r) (segs_step r o)).
  { destruct o as [sid l h|sid m oracle|sid|ms].
    - eexists. apply (ok_step r (OJoin sid l h) k W I Hk Ho). intros sid0 q sub orc s m' E0. discriminate E0.
    - exists (OTick 0). cbn [segs_step]. destruct (find_session (r_clients r) sid) as [s|] eqn:F; [|exact Logic.I].
      assert (Hs' : find_session (r_clients r) (s_id s) = Some s) by now rewrite (find_session_id _ _ _ F).
      destruct (gate r s m) as [m'|out] eqn:Eg.
      + apply (ok_handle _ r s m' oracle k W I Hk Hs'). intros q sub _ s0 orc E0. discriminate E0.
      + cbn [seg_ok]. split; [|exact Logic.I].
        destruct (gate_refusal_shape r s m out Eg) as [->|(det & e & a & ->)]; [intros x []|].
        intros x [<-|[]]. left. reflexivity.
    - eexists. apply (ok_step r (ODrop sid) k W I Hk Ho). intros sid0 q sub orc s m' E0. discriminate E0.
    - eexists. apply (ok_step r (OTick ms) k W I Hk Ho). intros sid0 q sub orc s m' E0. discriminate E0. }
  destruct Ok as (cur & Ok).
  pose proof (seg_store cur (r_cfg r) (segs_step r o) (r_broker r) (r_pubgen r) id t kd st (rw_broker r W) Ok Hs Eh Hok) as S.
  cbv zeta in S. rewrite E in S. exact S.
Qed.

(** every history *)
Theorem run_store : forall ops r k id t kd st,
    realm_wf r -> ids_below k r -> Forall op_ok ops -> k + N.of_nat (List.length ops) <= max_idN ->
    sub_sig (r_broker r) id t kd -> nget (b_hist (r_broker r)) id = Some st -> store_ok st ->
    let b' := r_broker (fst (run r ops)) in
    sub_sig b' id t kd /\
    nget (b_hist b') id =
    Some (mkHStore (hs_limit st) (lastn (hs_limit st) (hs_entries st ++ hist_ref (r_cfg r) id t kd (bops_of (segs_run r ops))))).
Proof.
  induction ops as [|o ops IH]; intros r k id t kd st W I Ho Hk Hs Eh Hok; cbv zeta.
  - cbn [run fold_left fst segs_run bops_of flat_map hist_ref]. split; [exact Hs|].
    rewrite app_nil_r, lastn_all by apply Hok. rewrite Eh. destruct st; reflexivity.
  - cbn [List.length] in Hk. inversion Ho as [|? ? Ho1 Ho2]; subst.
    assert (Hk1 : k < max_idN) by lia.
    destruct (step_wf r o k W I Hk1 Ho1) as [W1 I1].
    destruct (step_store r o k id t kd st W I Hk1 Ho1 Hs Eh Hok) as [Hs1 Eh1]. cbv zeta in Hs1, Eh1.
    assert (Hok1 : store_ok (mkHStore (hs_limit st) (lastn (hs_limit st) (hs_entries st ++ hist_ref (r_cfg r) id t kd (bops_of (segs_step r o)))))).
    { split; cbn [hs_limit hs_entries]; [apply Hok|apply lastn_length_le]. }
    destruct (IH (fst (step r o)) (k + 1) id t kd _ W1 I1 Ho2 ltac:(lia) Hs1 Eh1 Hok1) as [Hs2 Eh2]. cbv zeta in Hs2, Eh2.
    rewrite run_cons. cbn [fst segs_run]. split; [exact Hs2|]. rewrite Eh2. cbn [hs_limit hs_entries].
    rewrite step_cfg, bops_of_app, hist_ref_app. now rewrite lastn_app_lastn, app_assoc.
Qed.

Lemma init_realm_broker : forall cfg, r_broker (init_realm cfg) = broker_init (c_hist cfg).
Proof. intros cfg. unfold init_realm. destruct (fold_left _ _ _). reflexivity. Qed.

(** a store of the initial broker, after every history *)
Theorem realm_store_from : forall cfg ops id t kd st,
    Forall op_ok ops -> k0 cfg + N.of_nat (List.length ops) <= max_idN ->
    sub_sig (broker_init (c_hist cfg)) id t kd -> nget (b_hist (broker_init (c_hist cfg))) id = Some st -> store_ok st ->
    let b' := r_broker (fst (run (init_realm cfg) ops)) in
    sub_sig b' id t kd /\
    nget (b_hist b') id =
    Some (mkHStore (hs_limit st) (lastn (hs_limit st) (hs_entries st ++ hist_ref cfg id t kd (realm_pubs cfg ops)))).
Proof.
  intros cfg ops id t kd st Ho Hk Hs Eh Hok.
  destruct (init_realm_wf cfg) as [W I]; [lia|].
  rewrite <- init_realm_broker in Hs, Eh.
  pose proof (run_store ops (init_realm cfg) (k0 cfg) id t kd st W I Ho Hk Hs Eh Hok) as R.
  rewrite init_realm_cfg in R. exact R.
Qed.

(** the configured history subscriptions: for each, the subscription exists
    before and after with the same id, and its store holds exactly the last
    <= limit reference publications of the history, oldest first *)
Theorem realm_store_is_last_N_proof : forall cfg ops c,
    Forall op_ok ops -> k0 cfg + N.of_nat (List.length ops) <= max_idN ->
    Forall (fun c => 1 <= hc_limit c) (c_hist cfg) -> In c (c_hist cfg) ->
    exists id c' st,
      In c' (c_hist cfg) /\ hc_topic c' = hc_topic c /\ mkind_of (hc_match c') = mkind_of (hc_match c) /\
      sub_sig (r_broker (init_realm cfg)) id (hc_topic c) (mkind_of (hc_match c)) /\
      sub_sig (r_broker (fst (run (init_realm cfg) ops))) id (hc_topic c) (mkind_of (hc_match c)) /\
      nget (b_hist (r_broker (fst (run (init_realm cfg) ops)))) id = Some st /\
      hs_limit st = hc_limit c' /\
      hs_entries st = lastn (hc_limit c') (hist_ref cfg id (hc_topic c) (mkind_of (hc_match c)) (realm_pubs cfg ops)).
Proof.
  intros cfg ops c Ho Hk Hlim HI.
  assert (Hb0 : N.of_nat (List.length (c_hist cfg)) <= max_idN) by (unfold k0 in Hk; lia).
  destruct (preinit_configured (c_hist cfg) Hb0) as [Hc1 Hc2].
  destruct (Hc1 c HI) as (id & st & Hs & Eh).
  destruct (Hc2 id st Eh) as (He & c' & HI' & Hl & Hs').
  assert (Hsame : hc_topic c' = hc_topic c /\ mkind_of (hc_match c') = mkind_of (hc_match c)).
  { destruct Hs as (s1 & E1 & T1 & K1). destruct Hs' as (s2 & E2 & T2 & K2).
    rewrite E1 in E2; inversion E2; subst s2. split; congruence. }
  rewrite Forall_forall in Hlim.
  assert (Hok : store_ok st). { split; [rewrite Hl; now apply Hlim|rewrite He; cbn; lia]. }
  destruct (realm_store_from cfg ops id (hc_topic c) (mkind_of (hc_match c)) st Ho Hk Hs Eh Hok) as [Hs2 Eh2].
  cbv zeta in Hs2, Eh2. rewrite He in Eh2. cbn [app] in Eh2.
  exists id, c'. eexists. destruct Hsame. rewrite init_realm_broker.
  split; [exact HI'|]. split; [assumption|]. split; [assumption|]. split; [exact Hs|]. split; [exact Hs2|].
  split; [exact Eh2|]. cbn [hs_limit hs_entries]. rewrite Hl. auto.
Qed.

(** stores are created only by the pre-initialisation: after every history the
    subscriptions that carry a store are those of the initial broker *)
Theorem realm_stores_only_preinit : forall cfg ops id,
    Forall op_ok ops -> k0 cfg + N.of_nat (List.length ops) <= max_idN ->
    has_history (r_broker (fst (run (init_realm cfg) ops))) id = has_history (broker_init (c_hist cfg)) id.
Proof.
  intros cfg ops id Ho Hk. pose proof (reachable_realm_wf cfg ops Ho Hk) as W.
  destruct (rw_hist _ W) as [H _]. rewrite H. rewrite run_cfg, init_realm_cfg. reflexivity.
Qed.

(** the publications of a history are those of its steps *)
Lemma segs_run_app : forall a b r, segs_run r (a ++ b) = segs_run r a ++ segs_run (fst (run r a)) b.
Proof.
  induction a as [|o a IH]; intros b r; [reflexivity|].
  cbn [app segs_run]. rewrite IH, run_cons. cbn [fst]. now rewrite app_assoc.
Qed.

Theorem realm_pubs_snoc : forall cfg ops o,
    realm_pubs cfg (ops ++ [o]) = realm_pubs cfg ops ++ bops_of (segs_step (fst (run (init_realm cfg) ops)) o).
Proof.
  intros. unfold realm_pubs. rewrite segs_run_app, bops_of_app. cbn [segs_run]. now rewrite app_nil_r.
Qed.
