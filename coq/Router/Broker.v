(** * Broker model (router/broker.go, router/publishfilter.go).  Definitions only.
    Mirrors the repaired code: the tables are the Go maps, kept as association
    lists in insertion order; iteration order of a Go map is not modelled
    (outputs are compared per receiver as multisets). *)
From Nexus Require Export Router.Msg.

Record subscription := mkSub {
  sub_id : N; sub_topic : string; sub_match : string; sub_subs : list N }.

Record hentry := mkHEntry {
  h_sub : N; h_pub : N; h_details : dict; h_args : list value; h_kw : dict; h_time : N }.

Record hstore := mkHStore { hs_limit : N; hs_entries : list hentry }.

Record broker := mkBroker {
  b_exact : list (string * N);      (* topicSubscription *)
  b_pfx : list (string * N);        (* pfxTopicSubscription *)
  b_wc : list (string * N);         (* wcTopicSubscription *)
  b_subs : list (N * subscription); (* subscriptions *)
  b_sess : list (N * list N);       (* sessionSubIDSet *)
  b_hist : list (N * hstore);       (* eventHistoryStore, keyed by the subscription *)
  b_idgen : N }.

Definition empty_broker : broker := mkBroker [] [] [] [] [] [] 0.

Definition sget {V} (l : list (string * V)) k := aget String.eqb l k.
Definition sset {V} (l : list (string * V)) k v := aset String.eqb l k v.
Definition sdel {V} (l : list (string * V)) k := adel String.eqb l k.
Definition nget {V} (l : list (N * V)) k := aget N.eqb l k.
Definition nset {V} (l : list (N * V)) k v := aset N.eqb l k v.
Definition ndel {V} (l : list (N * V)) k := adel N.eqb l k.

Inductive mkind := MExact | MPrefix | MWildcard.
Definition mkind_of (m : string) : mkind :=
  if String.eqb m match_prefix then MPrefix
  else if String.eqb m match_wildcard then MWildcard else MExact.

Definition b_map (b : broker) (k : mkind) : list (string * N) :=
  match k with MExact => b_exact b | MPrefix => b_pfx b | MWildcard => b_wc b end.
Definition b_set_map (b : broker) (k : mkind) (m : list (string * N)) : broker :=
  match k with
  | MExact => mkBroker m (b_pfx b) (b_wc b) (b_subs b) (b_sess b) (b_hist b) (b_idgen b)
  | MPrefix => mkBroker (b_exact b) m (b_wc b) (b_subs b) (b_sess b) (b_hist b) (b_idgen b)
  | MWildcard => mkBroker (b_exact b) (b_pfx b) m (b_subs b) (b_sess b) (b_hist b) (b_idgen b)
  end.
Definition b_set_subs (b : broker) s :=
  mkBroker (b_exact b) (b_pfx b) (b_wc b) s (b_sess b) (b_hist b) (b_idgen b).
Definition b_set_sess (b : broker) s :=
  mkBroker (b_exact b) (b_pfx b) (b_wc b) (b_subs b) s (b_hist b) (b_idgen b).
Definition b_set_hist (b : broker) h :=
  mkBroker (b_exact b) (b_pfx b) (b_wc b) (b_subs b) (b_sess b) h (b_idgen b).
Definition b_set_idgen (b : broker) n :=
  mkBroker (b_exact b) (b_pfx b) (b_wc b) (b_subs b) (b_sess b) (b_hist b) n.

(** syncInitSubscription: find or create; [subscriber] = None for the event
    history pre-initialisation. *)
Definition init_subscription (b : broker) (topic m : string) (subscriber : option N)
  : broker * subscription * bool :=
  let k := mkind_of m in
  match sget (b_map b k) topic with
  | Some id =>
      match nget (b_subs b) id with
      | Some s => (b, s, true)
      | None => (b, mkSub id topic m [], true)      (* unreachable under broker_wf *)
      end
  | None =>
      let id := idgen_next (b_idgen b) in
      let s := mkSub id topic m (match subscriber with Some x => [x] | None => [] end) in
      let b1 := b_set_idgen b id in
      let b2 := b_set_map b1 k (sset (b_map b1 k) topic id) in
      (b_set_subs b2 (nset (b_subs b2) id s), s, false)
  end.

(** PreInitEventHistoryTopics (configuration validity is checked by the caller) *)
Definition preinit_history (b : broker) (cfgs : list hist_cfg) : broker :=
  fold_left (fun b c =>
    let '(b1, s, _) := init_subscription b (hc_topic c) (hc_match c) None in
    b_set_hist b1 (nset (b_hist b1) (sub_id s) (mkHStore (hc_limit c) []))) cfgs b.

(** ** Subscription meta events, produced inside the broker action *)
Definition matching_subs (b : broker) (topic : string) : list (subscription * bool) :=
  let get id := nget (b_subs b) id in
  (match sget (b_exact b) topic with
   | Some id => match get id with Some s => [(s, false)] | None => [] end
   | None => [] end)
  ++ flat_map (fun '((p, id) : string * N) => if prefix_match topic p
               then match get id with Some s => [(s, true)] | None => [] end else []) (b_pfx b)
  ++ flat_map (fun '((w, id) : string * N) => if wildcard_match topic w
               then match get id with Some s => [(s, true)] | None => [] end else []) (b_wc b).

Definition sub_meta_event (b : broker) (mtopic : string) (cause : N) (pub : N) (args : list value)
  : list out :=
  flat_map (fun '((s, send_topic) : subscription * bool) =>
    let details := if send_topic then [("topic", vuri mtopic)] else [] in
    flat_map (fun r => if N.eqb r cause then [] else [(r, REvent (sub_id s) pub details args [])])
             (sub_subs s))
    (matching_subs b mtopic).

Definition created_placeholder := "<created>".
Definition sub_dict (s : subscription) : value :=
  VDict [("id", vid (sub_id s)); ("created", vstr created_placeholder);
         ("uri", vuri (sub_topic s)); ("match", vstr (sub_match s))].

(** ** SUBSCRIBE.  [pg] is the supply of fresh publication ids (GlobalID). *)
Definition sess_add_sub (l : list (N * list N)) (sid id : N) : list (N * list N) :=
  match nget l sid with
  | Some ids => if nmem id ids then l else nset l sid (ids ++ [id])
  | None => nset l sid [id]
  end.

Definition subscribe (cfg : config) (b : broker) (pg : N) (sid req : N) (opts : dict) (topic : string)
  : broker * N * list out :=
  let m := opt_string opts "match" in
  if negb (valid_uri (c_strict cfg) m topic) then
    (b, pg, [(sid, RError c_SUBSCRIBE req [] e_invalid_uri [vstr "<text>"] [])])
  else
    let '(b1, s, existing) := init_subscription b topic m (Some sid) in
    if existing && nmem sid (sub_subs s) then
      (b1, pg, [(sid, RSubscribed req (sub_id s))])
    else
      let s' := if existing then mkSub (sub_id s) (sub_topic s) (sub_match s) (sub_subs s ++ [sid]) else s in
      let b2 := b_set_subs b1 (nset (b_subs b1) (sub_id s') s') in
      let b3 := b_set_sess b2 (sess_add_sub (b_sess b2) sid (sub_id s')) in
      let o1 := [(sid, RSubscribed req (sub_id s'))] in
      let '(pg1, o2) :=
        if existing then (pg, [])
        else (pg + 1, sub_meta_event b3 t_sub_on_create sid (pg + 1) [vid sid; sub_dict s']) in
      let o3 := sub_meta_event b3 t_sub_on_subscribe sid (pg1 + 1) [vid sid; vid (sub_id s')] in
      (b3, pg1 + 1, o1 ++ o2 ++ o3).

(** syncDelSubscription *)
Definition del_subscription (b : broker) (s : subscription) : broker :=
  let b1 := b_set_subs b (ndel (b_subs b) (sub_id s)) in
  let k := mkind_of (sub_match s) in
  b_set_map b1 k (sdel (b_map b1 k) (sub_topic s)).

Definition has_history (b : broker) (id : N) : bool := amem N.eqb (b_hist b) id.

Definition sess_del_sub (l : list (N * list N)) (sid id : N) : list (N * list N) :=
  match nget l sid with
  | Some ids => let ids' := nremove id ids in
                match ids' with [] => ndel l sid | _ => nset l sid ids' end
  | None => l
  end.

(** UNSUBSCRIBE (repaired: only a holder can unsubscribe) *)
Definition unsubscribe (b : broker) (pg : N) (sid req subid : N) : broker * N * list out :=
  match nget (b_subs b) subid with
  | None => (b, pg, [(sid, RError c_UNSUBSCRIBE req [] e_no_such_subscription [] [])])
  | Some s =>
      if negb (nmem sid (sub_subs s)) then
        (b, pg, [(sid, RError c_UNSUBSCRIBE req [] e_no_such_subscription [] [])])
      else
        let s' := mkSub (sub_id s) (sub_topic s) (sub_match s) (nremove sid (sub_subs s)) in
        let del := match sub_subs s' with [] => negb (has_history b subid) | _ => false end in
        let b1 := if del then del_subscription b s' else b_set_subs b (nset (b_subs b) subid s') in
        let b2 := b_set_sess b1 (sess_del_sub (b_sess b1) sid subid) in
        let o1 := [(sid, RUnsubscribed req)] in
        let o2 := sub_meta_event b2 t_sub_on_unsubscribe sid (pg + 1) [vid sid; vid subid] in
        if del then
          (b2, pg + 2, o1 ++ o2 ++ sub_meta_event b2 t_sub_on_delete sid (pg + 2) [vid sid; vid subid])
        else (b2, pg + 1, o1 ++ o2)
  end.

(** syncRemoveSession *)
Definition remove_session_sub (sid : N) (acc : broker * N * list out) (subid : N) : broker * N * list out :=
  let '(b, pg, o) := acc in
  match nget (b_subs b) subid with
  | None => acc
  | Some s =>
      let s' := mkSub (sub_id s) (sub_topic s) (sub_match s) (nremove sid (sub_subs s)) in
      let del := match sub_subs s' with [] => negb (has_history b subid) | _ => false end in
      (* as for an UNSUBSCRIBE: on_unsubscribe, then on_delete when the subscription went away *)
      if del then
        let b1 := del_subscription b s' in
        (b1, pg + 2, o ++ sub_meta_event b1 t_sub_on_unsubscribe sid (pg + 1) [vid sid; vid subid]
                       ++ sub_meta_event b1 t_sub_on_delete sid (pg + 2) [vid sid; vid subid])
      else
        let b1 := b_set_subs b (nset (b_subs b) subid s') in
        (b1, pg + 1, o ++ sub_meta_event b1 t_sub_on_unsubscribe sid (pg + 1) [vid sid; vid subid])
  end.

Definition broker_remove_session (b : broker) (pg : N) (sid : N) : broker * N * list out :=
  match nget (b_sess b) sid with
  | None => (b, pg, [])
  | Some ids =>
      let b1 := b_set_sess b (ndel (b_sess b) sid) in
      fold_left (remove_session_sub sid) ids (b1, pg, [])
  end.

(** ** Publish filter (publishfilter.go) *)
Record pfilter := mkFilter {
  f_bl_ids : list N; f_wl_ids : list N;
  f_bl : list (string * list string); f_wl : list (string * list string) }.

Definition ids_of (v : option value) : list N :=
  match v with
  | Some x => match as_list x with
              | Some l => flat_map (fun e => match as_id e with Some i => [i] | None => [] end) l
              | None => [] end
  | None => []
  end.

Definition strip_prefix (p s : string) : option string :=
  if String.prefix p s then Some (String.substring (String.length p) (String.length s - String.length p) s)
  else None.

Definition attr_map (prefix : string) (opts : dict) : list (string * list string) :=
  fold_left (fun acc '((k, v) : string * value) =>
    match strip_prefix prefix k with
    | None => acc
    | Some attr =>
        match (match v with VList l => Some l | VNull => Some [] | _ => None end) with
        | None => acc
        | Some l =>
            let vals := flat_map (fun e => match as_string e with
                                           | Some s => if nonempty s then [s] else []
                                           | None => [] end) l in
            match vals with [] => acc | _ => sset acc attr vals end
        end
    end) opts [].

Definition make_filter (opts : dict) : pfilter :=
  mkFilter (ids_of (dget opts "exclude")) (ids_of (dget opts "eligible"))
           (attr_map "exclude_" opts) (attr_map "eligible_" opts).

Definition attr_of (details : dict) (attr : string) : string :=
  match dget details attr with Some v => match as_string v with Some s => s | None => "" end | None => "" end.

Definition allowed (f : pfilter) (sid : N) (details : dict) : bool :=
  negb (nmem sid (f_bl_ids f)) &&
  (match f_wl_ids f with [] => true | _ => nmem sid (f_wl_ids f) end) &&
  forallb (fun '((attr, vals) : string * list string) => let a := attr_of details attr in
                                negb (nonempty a) || negb (smem a vals)) (f_bl f) &&
  forallb (fun '((attr, vals) : string * list string) => let a := attr_of details attr in
                                nonempty a && smem a vals) (f_wl f).

(** ** PUBLISH *)
Definition disclose_dict (role : string) (sid : N) (details : dict) (into : dict) : dict :=
  let d1 := dset into role (vid sid) in
  let d2 := match dget details "authid" with Some v => dset d1 (String.append role "_authid") v | None => d1 end in
  match dget details "authrole" with Some v => dset d2 (String.append role "_authrole") v | None => d2 end.

Definition f_pub_ident := "publisher_identification".
Definition f_ppt := "payload_passthru_mode".

(** ** Payload passthru mode.  [ppt_scheme] counts only as a Go string
    ([.(string)]); the four options are copied when they convert with
    AsString (router/helpers.go pptOptionsToDetails, as repaired). *)
Definition ppt_keys := ["ppt_scheme"; "ppt_serializer"; "ppt_cipher"; "ppt_keyid"].
Definition ppt_active (opts : dict) : bool := nonempty (opt_gostring opts "ppt_scheme").
Definition ppt_into (opts : dict) (details : dict) : dict :=
  fold_left (fun d k => match dget opts k with
                        | Some v => match as_string v with Some x => dset d k (vstr x) | None => d end
                        | None => d
                        end) ppt_keys details.
(** the passthru part of EVENT details *)
Definition ppt_part (opts : dict) : dict := if ppt_active opts then ppt_into opts [] else [].

(** a PUBLISH with a valid topic that uses passthru mode without having
    announced it is a protocol violation: the publisher is aborted *)
Definition publish_aborts (cfg : config) (pub : session) (opts : dict) (topic : string) : bool :=
  valid_uri (c_strict cfg) "" topic && ppt_active opts && negb (sess_feature pub "publisher" f_ppt).

Definition event_details (topic : string) (send_topic disclose : bool) (pub : session) (recv : option session) : dict :=
  let d1 := if send_topic then [("topic", vuri topic)] else [] in
  match recv with
  | Some r => if disclose && sess_feature r "subscriber" f_pub_ident
              then disclose_dict "publisher" (s_id pub) (s_details pub) d1 else d1
  | None => d1
  end.

Definition hist_push (st : hstore) (e : hentry) : hstore :=
  let es := hs_entries st in
  let es' := if (hs_limit st <=? N.of_nat (List.length es)) then tl es else es in
  mkHStore (hs_limit st) (es' ++ [e]).

(** The receivers of a publication through one subscription. *)
Definition sub_targets (lookup : N -> option session) (pubsid : N) (exclude_pub : bool)
           (f : pfilter) (s : subscription) : list session :=
  flat_map (fun r =>
    if N.eqb r pubsid && exclude_pub then []
    else match lookup r with
         | Some rs => if allowed f r (s_details rs) then [rs] else []
         | None => []
         end) (sub_subs s).

Definition pub_event (lookup : N -> option session) (now : N) (pub : session) (pubid : N) (opts : dict)
           (topic : string) (args : list value) (kw : dict)
           (exclude_pub disclose : bool) (f : pfilter)
           (acc : broker * list out) (sst : subscription * bool) : broker * list out :=
  let '(b, o) := acc in
  let '(s, send_topic) := sst in
  let evs := map (fun rs => (s_id rs, REvent (sub_id s) pubid
                               (ppt_part opts ++ event_details topic send_topic disclose pub (Some rs)) args kw))
                 (sub_targets lookup (s_id pub) exclude_pub f s) in
  let b' :=
    match nget (b_hist b) (sub_id s) with
    | Some st =>
        if dhas opts "exclude" || dhas opts "eligible" then b
        else b_set_hist b (nset (b_hist b) (sub_id s)
               (hist_push st (mkHEntry (sub_id s) pubid (ppt_part opts ++ event_details topic send_topic disclose pub None) args kw now)))
    | None => b
    end in
  (b', o ++ evs).

Definition publish (cfg : config) (lookup : N -> option session) (now : N) (b : broker) (pg : N)
           (pub : session) (req : N) (opts : dict) (topic : string) (args : list value) (kw : dict)
  : broker * N * list out :=
  let ack := opt_bool opts "acknowledge" in
  let sid := s_id pub in
  if negb (valid_uri (c_strict cfg) "" topic) then
    (b, pg, if ack then [(sid, RError c_PUBLISH req [] e_invalid_uri [vstr "<text>"] [])] else [])
  else if publish_aborts cfg pub opts topic then
    (* the caller of [publish] (Realm.handle) ends the session *)
    (b, pg, [(sid, RAbort [("message", vstr "<text>")] e_protocol_violation)])
  else
    let exclude_pub := match dget opts "exclude_me" with Some (VBool x) => x | _ => true end in
    let disclose := opt_bool opts "disclose_me" in
    if disclose && negb (c_disclose cfg) then
      (b, pg, if ack then [(sid, RError c_PUBLISH req [] e_disclose_me [] [])] else [])
    else
      let pubid := pg + 1 in
      let f := make_filter opts in
      let '(b1, o) := fold_left (pub_event lookup now pub pubid opts topic args kw exclude_pub disclose f)
                                (matching_subs b topic) (b, []) in
      (b1, pubid, o ++ (if ack then [(sid, RPublished req pubid)] else [])).
