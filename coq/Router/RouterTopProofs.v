(** * Router-level proofs (C11): realms are isolated from one another.

    The router is a table of realms keyed by realm name (an [N] here).  All
    theorems are for every router state with unique keys ([rt_wf], an
    invariant of [rstep] that holds of the empty router), every history and
    every pair of realms; ids inside different realms do collide (each realm
    has its own generators), which is what [same_ids_no_confusion] is about. *)
From Nexus Require Import Router.RouterTop Router.AssocLemmas Router.RealmLib.
From Coq Require Import Lia.

Definition rt_wf (rt : router) : Prop := NoDup (map fst (rt_realms rt)).

Definition empty_router : router := mkRouter [].

Lemma empty_router_wf : rt_wf empty_router.
Proof. constructor. Qed.

(** ** projections of tagged outputs *)
Lemma project_tag_same : forall i o, project i (tag i o) = o.
Proof.
  intros i o; unfold project, tag. induction o as [|x o IH]; cbn; [reflexivity|].
  rewrite N.eqb_refl; cbn. now rewrite IH.
Qed.

Lemma project_tag_other : forall i j o, i <> j -> project j (tag i o) = [].
Proof.
  intros i j o H; unfold project, tag. induction o as [|x o IH]; cbn; [reflexivity|].
  destruct (N.eqb_spec i j); [contradiction|]. exact IH.
Qed.

Lemma project_app : forall j a b, project j (a ++ b) = project j a ++ project j b.
Proof. intros; unfold project; apply flat_map_app. Qed.

Lemma tag_all : forall i o, Forall (fun x : rout => fst x = i) (tag i o).
Proof. intros; unfold tag; apply Forall_forall; intros x H; apply in_map_iff in H; destruct H as (y & <- & _); reflexivity. Qed.

(** ** What realm [j] sees of one router operation: a function of realm [j]'s
    own state only. *)
Definition view := (option realm * list out)%type.

Definition local_step (j : N) (st : option realm) (o : rop) : view :=
  match o with
  | RAddRealm i cfg =>
      if N.eqb i j then match st with Some _ => (st, []) | None => (Some (init_realm cfg), []) end
      else (st, [])
  | RRemoveRealm i =>
      if N.eqb i j then match st with Some r => (None, shutdown_outs r) | None => (None, []) end
      else (st, [])
  | ROp i o =>
      if N.eqb i j then match st with
                        | Some r => let '(r', out1) := step r o in (Some r', out1)
                        | None => (None, [])
                        end
      else (st, [])
  | RTick ms =>
      match st with
      | Some r => let '(r', out1) := step r (OTick ms) in (Some r', out1)
      | None => (None, [])
      end
  end.

Definition local_run (j : N) (st : option realm) (h : list rop) : option realm * list (list out) :=
  fold_left (fun '((st, acc) : option realm * list (list out)) o =>
               let '(st1, o1) := local_step j st o in (st1, acc ++ [o1])) h (st, []).

(** ** The tick visits every realm exactly once *)
Definition tick_f (ms : N) :=
  fun '((rt', acc) : router * list rout) '((i, r) : N * realm) =>
    let '(r', out1) := step r (OTick ms) in
    (mkRouter (nset (rt_realms rt') i r'), acc ++ tag i out1).

Lemma tick_f_eq : forall ms rt0 acc i r,
    tick_f ms (rt0, acc) (i, r) =
    (mkRouter (nset (rt_realms rt0) i (fst (step r (OTick ms)))), acc ++ tag i (snd (step r (OTick ms)))).
Proof. intros. unfold tick_f. destruct (step r (OTick ms)). reflexivity. Qed.

Lemma tick_fold : forall ms l rt0 acc j,
    NoDup (map fst l) ->
    let res := fold_left (tick_f ms) l (rt0, acc) in
    nget (rt_realms (fst res)) j =
      match nget l j with
      | Some r => Some (fst (step r (OTick ms)))
      | None => nget (rt_realms rt0) j
      end /\
    project j (snd res) =
      project j acc ++ match nget l j with Some r => snd (step r (OTick ms)) | None => [] end.
Proof.
  intros ms l; induction l as [|[i r] l IH]; intros rt0 acc j ND; cbn [fold_left].
  - cbn. rewrite app_nil_r. auto.
  - inversion ND as [|? ? Hn ND']; subst.
    rewrite tick_f_eq. set (r' := fst (step r (OTick ms))). set (out1 := snd (step r (OTick ms))).
    specialize (IH (mkRouter (nset (rt_realms rt0) i r')) (acc ++ tag i out1) j ND').
    cbn zeta in IH. destruct IH as [IH1 IH2]. cbn zeta.
    rewrite IH1, IH2. cbn [rt_realms].
    change (nget ((i, r) :: l) j) with (if N.eqb j i then Some r else nget l j).
    destruct (N.eqb_spec j i) as [->|N].
    + assert (Hl : nget l i = None) by (apply nget_None_keys; exact Hn).
      rewrite Hl. rewrite ngs_same, project_app, project_tag_same, app_nil_r. auto.
    + rewrite ngs_other by congruence.
      rewrite project_app, project_tag_other by congruence. rewrite app_nil_r. auto.
Qed.

Lemma tick_fold_keys : forall ms l rt0 acc,
    (forall i, In i (map fst l) -> In i (map fst (rt_realms rt0))) ->
    map fst (rt_realms (fst (fold_left (tick_f ms) l (rt0, acc)))) = map fst (rt_realms rt0).
Proof.
  intros ms l; induction l as [|[i r] l IH]; intros rt0 acc H; cbn [fold_left]; [reflexivity|].
  rewrite tick_f_eq. set (r' := fst (step r (OTick ms))). set (out1 := snd (step r (OTick ms))).
  assert (K : map fst (nset (rt_realms rt0) i r') = map fst (rt_realms rt0)).
  { apply nset_keys_present. apply H. now left. }
  rewrite IH; cbn [rt_realms]; rewrite K; [reflexivity|].
  intros k Hk. apply H. now right.
Qed.

Lemma tick_fold_tags : forall ms l rt0 acc,
    (forall x, In x acc -> In (fst x) (map fst l) \/ In (fst x) (map fst (rt_realms rt0))) ->
    forall x, In x (snd (fold_left (tick_f ms) l (rt0, acc))) ->
              In (fst x) (map fst l) \/ In (fst x) (map fst (rt_realms rt0)).
Proof.
  intros ms l; induction l as [|[i r] l IH]; intros rt0 acc H x; cbn [fold_left]; [apply H|].
  rewrite tick_f_eq. set (r' := fst (step r (OTick ms))). set (out1 := snd (step r (OTick ms))).
  intros Hx. apply IH in Hx.
  - cbn [rt_realms map fst] in *.
    destruct Hx as [Hx|Hx]; [left; now right|].
    rewrite nset_keys in Hx. destruct (amem N.eqb (rt_realms rt0) i); [now right|].
    apply in_app_or in Hx. destruct Hx as [Hx|[Hx|[]]]; [now right|left; now left].
  - intros y Hy. apply in_app_or in Hy. destruct Hy as [Hy|Hy].
    + destruct (H y Hy) as [[E|K]|K]; cbn [map fst] in *.
      * right. cbn [rt_realms]. rewrite nset_keys.
        destruct (amem N.eqb (rt_realms rt0) i) eqn:M.
        -- apply nmem_keys in M. now rewrite <- E.
        -- apply in_or_app; right; left; exact E.
      * now left.
      * right. cbn [rt_realms]. rewrite nset_keys.
        destruct (amem N.eqb (rt_realms rt0) i); [exact K|apply in_or_app; now left].
    + pose proof (tag_all i out1) as T. rewrite Forall_forall in T. rewrite (T y Hy).
      right. cbn [rt_realms]. rewrite nset_keys.
      destruct (amem N.eqb (rt_realms rt0) i) eqn:M.
      * now apply nmem_keys in M.
      * apply in_or_app; right; now left.
Qed.

(** ** [rt_wf] is an invariant *)
Lemma rstep_wf : forall rt o, rt_wf rt -> rt_wf (fst (rstep rt o)).
Proof.
  unfold rt_wf; intros rt o W. destruct o as [i cfg|i|i o|ms]; cbn [rstep].
  - destruct (amem N.eqb (rt_realms rt) i); cbn; [exact W|].
    now apply NoDup_nset.
  - destruct (nget (rt_realms rt) i); cbn; [|exact W].
    now apply NoDup_ndel.
  - destruct (nget (rt_realms rt) i); cbn; [|exact W].
    destruct (step r o). cbn. now apply NoDup_nset.
  - change (NoDup (map fst (rt_realms (fst (fold_left (tick_f ms) (rt_realms rt) (rt, [])))))).
    rewrite tick_fold_keys; auto.
Qed.

Lemma rrun_app : forall h1 h2 rt,
    rrun rt (h1 ++ h2) =
    let '(rt1, o1) := rrun rt h1 in let '(rt2, o2) := rrun rt1 h2 in (rt2, o1 ++ o2).
Proof.
  unfold rrun.
  assert (G : forall h rt acc,
             fold_left (fun '((rt, acc) : router * list (list rout)) o =>
                          let '(rt1, out1) := rstep rt o in (rt1, acc ++ [out1])) h (rt, acc) =
             let '(rt2, o2) := fold_left (fun '((rt, acc) : router * list (list rout)) o =>
                          let '(rt1, out1) := rstep rt o in (rt1, acc ++ [out1])) h (rt, []) in
             (rt2, acc ++ o2)).
  { induction h as [|o h IH]; intros rt acc; cbn [fold_left].
    - now rewrite app_nil_r.
    - destruct (rstep rt o) as [rt1 out1]. rewrite IH. rewrite (IH rt1 ([] ++ [out1])).
      destruct (fold_left _ h (rt1, [])) as [rt2 o2]. now rewrite <- app_assoc. }
  intros h1 h2 rt. rewrite fold_left_app.
  destruct (fold_left _ h1 (rt, [])) as [rt1 o1]. rewrite G.
  destruct (fold_left _ h2 (rt1, [])) as [rt2 o2]. reflexivity.
Qed.

Lemma rrun_cons : forall o h rt,
    rrun rt (o :: h) =
    let '(rt1, o1) := rstep rt o in let '(rt2, o2) := rrun rt1 h in (rt2, o1 :: o2).
Proof.
  intros. change (o :: h) with ([o] ++ h). rewrite rrun_app.
  unfold rrun at 1. cbn [fold_left]. destruct (rstep rt o) as [rt1 o1].
  destruct (rrun rt1 h). reflexivity.
Qed.

Lemma rrun_wf : forall h rt, rt_wf rt -> rt_wf (fst (rrun rt h)).
Proof.
  induction h as [|o h IH]; intros rt W; [exact W|].
  rewrite rrun_cons. pose proof (rstep_wf rt o W) as W1.
  destruct (rstep rt o) as [rt1 o1]. specialize (IH rt1 W1).
  destruct (rrun rt1 h). exact IH.
Qed.

(** every router reachable from the empty one is well formed *)
Lemma reachable_wf : forall h, rt_wf (fst (rrun empty_router h)).
Proof. intros; apply rrun_wf, empty_router_wf. Qed.

(** ** The view theorem: realm [j]'s state and the outputs tagged [j] after one
    router operation are [local_step] of realm [j]'s state before. *)
Theorem rstep_view : forall rt o j,
    rt_wf rt ->
    (nget (rt_realms (fst (rstep rt o))) j, project j (snd (rstep rt o))) =
    local_step j (nget (rt_realms rt) j) o.
Proof.
  intros rt o j W. destruct o as [i cfg|i|i o|ms]; cbn [rstep local_step].
  - destruct (amem N.eqb (rt_realms rt) i) eqn:M; cbn [fst snd rt_realms project flat_map].
    + destruct (N.eqb_spec i j) as [->|N]; [|reflexivity].
      apply nmem_true in M. destruct M as [v M]. now rewrite M.
    + destruct (N.eqb_spec i j) as [->|N].
      * apply nmem_false' in M. rewrite M.
        now rewrite ngs_same.
      * now rewrite ngs_other.
  - destruct (nget (rt_realms rt) i) as [r|] eqn:G; cbn [fst snd rt_realms].
    + destruct (N.eqb_spec i j) as [->|N].
      * rewrite G, ngd_same, project_tag_same. reflexivity.
      * rewrite ngd_other, project_tag_other by assumption. reflexivity.
    + destruct (N.eqb_spec i j) as [->|N]; [now rewrite G|reflexivity].
  - destruct (nget (rt_realms rt) i) as [r|] eqn:G; cbn [fst snd rt_realms].
    + destruct (step r o) as [r' out1] eqn:E. cbn [fst snd rt_realms].
      destruct (N.eqb_spec i j) as [->|N].
      * rewrite G, E, ngs_same, project_tag_same. reflexivity.
      * rewrite ngs_other, project_tag_other by assumption. reflexivity.
    + destruct (N.eqb_spec i j) as [->|N]; [now rewrite G|reflexivity].
  - pose proof (tick_fold ms (rt_realms rt) rt [] j W) as T. cbn zeta in T.
    destruct T as [T1 T2].
    change (fold_left _ (rt_realms rt) (rt, [])) with (fold_left (tick_f ms) (rt_realms rt) (rt, [])).
    rewrite T1, T2. cbn [project flat_map app].
    destruct (nget (rt_realms rt) j) as [r|]; [|reflexivity].
    destruct (step r (OTick ms)); reflexivity.
Qed.

(** ** frame *)
Definition target (o : rop) : option N :=
  match o with RAddRealm i _ | RRemoveRealm i | ROp i _ => Some i | RTick _ => None end.

Lemma local_step_other : forall j st o, concerns j o = false -> local_step j st o = (st, []).
Proof.
  intros j st o H. destruct o; cbn in *; try discriminate; now rewrite H.
Qed.

Theorem frame : forall rt o i j,
    rt_wf rt -> target o = Some i -> j <> i ->
    nget (rt_realms (fst (rstep rt o))) j = nget (rt_realms rt) j /\
    project j (snd (rstep rt o)) = [].
Proof.
  intros rt o i j W T N.
  pose proof (rstep_view rt o j W) as V.
  rewrite local_step_other in V.
  - inversion V; auto.
  - destruct o; cbn in *; inversion T; subst; try apply N.eqb_neq; congruence.
Qed.

(** only outputs tagged with the realm operated upon *)
Theorem outputs_tagged : forall rt o i,
    target o = Some i -> Forall (fun x : rout => fst x = i) (snd (rstep rt o)).
Proof.
  intros rt o i T. destruct o as [k cfg|k|k o|ms]; cbn in T; inversion T; subst; cbn [rstep].
  - destruct (amem N.eqb (rt_realms rt) i); constructor.
  - destruct (nget (rt_realms rt) i); cbn; [apply tag_all|constructor].
  - destruct (nget (rt_realms rt) i); cbn; [|constructor].
    destruct (step r o); cbn. apply tag_all.
Qed.

(** a tick emits only outputs of existing realms *)
Theorem tick_outputs_tagged : forall rt ms x,
    In x (snd (rstep rt (RTick ms))) -> In (fst x) (map fst (rt_realms rt)).
Proof.
  intros rt ms x H. cbn [rstep] in H.
  change (fold_left _ (rt_realms rt) (rt, [])) with (fold_left (tick_f ms) (rt_realms rt) (rt, [])) in H.
  apply tick_fold_tags in H; [tauto|]. intros y [].
Qed.

(** ** remove_realm_frame *)
Theorem remove_realm_frame : forall rt i,
    rt_wf rt ->
    let res := rstep rt (RRemoveRealm i) in
    nget (rt_realms (fst res)) i = None /\
    (forall j, j <> i -> nget (rt_realms (fst res)) j = nget (rt_realms rt) j /\ project j (snd res) = []) /\
    snd res = match nget (rt_realms rt) i with Some r => tag i (shutdown_outs r) | None => [] end.
Proof.
  intros rt i W res. subst res. split; [|split].
  - cbn [rstep]. destruct (nget (rt_realms rt) i) eqn:G; cbn; [apply ngd_same|exact G].
  - intros j N. apply (frame rt (RRemoveRealm i) i j W eq_refl N).
  - cbn [rstep]. destruct (nget (rt_realms rt) i); reflexivity.
Qed.

Theorem add_realm_frame : forall rt i cfg,
    rt_wf rt ->
    let res := rstep rt (RAddRealm i cfg) in
    snd res = [] /\
    (forall j, j <> i -> nget (rt_realms (fst res)) j = nget (rt_realms rt) j) /\
    nget (rt_realms (fst res)) i =
      match nget (rt_realms rt) i with Some r => Some r | None => Some (init_realm cfg) end.
Proof.
  intros rt i cfg W res. subst res. split; [|split].
  - cbn [rstep]. destruct (amem N.eqb (rt_realms rt) i); reflexivity.
  - intros j N. apply (frame rt (RAddRealm i cfg) i j W eq_refl N).
  - pose proof (rstep_view rt (RAddRealm i cfg) i W) as V. cbn [local_step] in V.
    rewrite N.eqb_refl in V. destruct (nget (rt_realms rt) i); inversion V; reflexivity.
Qed.

(** ** Histories *)
Lemma local_run_cons : forall j st o h,
    local_run j st (o :: h) =
    let '(st1, o1) := local_step j st o in let '(st2, o2) := local_run j st1 h in (st2, o1 :: o2).
Proof.
  intros j. unfold local_run.
  assert (G : forall h st acc,
             fold_left (fun '((st, acc) : option realm * list (list out)) o =>
                          let '(st1, o1) := local_step j st o in (st1, acc ++ [o1])) h (st, acc) =
             let '(st2, o2) := fold_left (fun '((st, acc) : option realm * list (list out)) o =>
                          let '(st1, o1) := local_step j st o in (st1, acc ++ [o1])) h (st, []) in
             (st2, acc ++ o2)).
  { induction h as [|o h IH]; intros st acc; cbn [fold_left].
    - now rewrite app_nil_r.
    - destruct (local_step j st o) as [st1 o1]. rewrite IH. rewrite (IH st1 ([] ++ [o1])).
      destruct (fold_left _ h (st1, [])) as [st2 o2]. now rewrite <- app_assoc. }
  intros st o h. cbn [fold_left]. destruct (local_step j st o) as [st1 o1].
  rewrite G. destruct (fold_left _ h (st1, [])). reflexivity.
Qed.

(** the run as realm [j] sees it, step by step *)
Theorem rrun_view : forall h rt j,
    rt_wf rt ->
    (nget (rt_realms (fst (rrun rt h))) j, map (project j) (snd (rrun rt h))) =
    local_run j (nget (rt_realms rt) j) h.
Proof.
  induction h as [|o h IH]; intros rt j W; [reflexivity|].
  rewrite rrun_cons, local_run_cons.
  pose proof (rstep_view rt o j W) as V. pose proof (rstep_wf rt o W) as W1.
  destruct (rstep rt o) as [rt1 o1]. cbn [fst snd] in *. rewrite <- V.
  specialize (IH rt1 j W1). destruct (rrun rt1 h) as [rt2 o2]. cbn [fst snd] in *.
  rewrite <- IH. reflexivity.
Qed.

(** operations that do not concern [j] are invisible to [j] *)
Lemma local_run_filter : forall h j st,
    fst (local_run j st h) = fst (local_run j st (filter (concerns j) h)) /\
    List.concat (snd (local_run j st h)) = List.concat (snd (local_run j st (filter (concerns j) h))).
Proof.
  induction h as [|o h IH]; intros j st; [auto|].
  cbn [filter]. destruct (concerns j o) eqn:C.
  - rewrite !local_run_cons. destruct (local_step j st o) as [st1 o1].
    destruct (IH j st1) as [I1 I2].
    destruct (local_run j st1 h), (local_run j st1 (filter (concerns j) h)). cbn in *.
    split; congruence.
  - rewrite local_run_cons, (local_step_other j st o C).
    destruct (IH j st) as [I1 I2]. destruct (local_run j st h). cbn in *. auto.
Qed.

(** per-step alignment: the outputs at the positions that concern [j] *)
Definition at_concerning (j : N) (h : list rop) (outs : list (list out)) : list (list out) :=
  map snd (filter (fun p => concerns j (fst p)) (combine h outs)).

Lemma local_run_length : forall h j st, List.length (snd (local_run j st h)) = List.length h.
Proof.
  induction h as [|o h IH]; intros j st; [reflexivity|].
  rewrite local_run_cons. destruct (local_step j st o) as [st1 o1].
  specialize (IH j st1). destruct (local_run j st1 h). cbn in *. now rewrite IH.
Qed.

Lemma local_run_aligned : forall h j st,
    at_concerning j h (snd (local_run j st h)) = snd (local_run j st (filter (concerns j) h)) /\
    Forall (fun p => concerns j (fst p) = false -> snd p = []) (combine h (snd (local_run j st h))).
Proof.
  unfold at_concerning.
  induction h as [|o h IH]; intros j st; [split; [reflexivity|constructor]|].
  rewrite local_run_cons. cbn [filter].
  destruct (concerns j o) eqn:C.
  - rewrite local_run_cons. destruct (local_step j st o) as [st1 o1].
    destruct (IH j st1) as [I1 I2].
    destruct (local_run j st1 h), (local_run j st1 (filter (concerns j) h)).
    cbn [snd combine filter fst map] in *. rewrite C. cbn [map snd]. split; [congruence|].
    constructor; [cbn; congruence|exact I2].
  - rewrite (local_step_other j st o C). destruct (IH j st) as [I1 I2].
    destruct (local_run j st h). cbn [snd combine filter fst map] in *. rewrite C.
    split; [exact I1|]. constructor; [reflexivity|exact I2].
Qed.

(** ** non_interference, in its general form: two routers that agree on realm
    [j], two histories that agree on what concerns [j] — realm [j] ends in the
    same state and received the same outputs. *)
Theorem non_interference_general : forall rt1 rt2 h1 h2 j,
    rt_wf rt1 -> rt_wf rt2 ->
    nget (rt_realms rt1) j = nget (rt_realms rt2) j ->
    filter (concerns j) h1 = filter (concerns j) h2 ->
    nget (rt_realms (fst (rrun rt1 h1))) j = nget (rt_realms (fst (rrun rt2 h2))) j /\
    List.concat (map (project j) (snd (rrun rt1 h1))) = List.concat (map (project j) (snd (rrun rt2 h2))) /\
    at_concerning j h1 (map (project j) (snd (rrun rt1 h1))) =
    at_concerning j h2 (map (project j) (snd (rrun rt2 h2))).
Proof.
  intros rt1 rt2 h1 h2 j W1 W2 E F.
  pose proof (rrun_view h1 rt1 j W1) as V1. pose proof (rrun_view h2 rt2 j W2) as V2.
  pose proof (local_run_filter h1 j (nget (rt_realms rt1) j)) as [A1 A2].
  pose proof (local_run_filter h2 j (nget (rt_realms rt2) j)) as [B1 B2].
  pose proof (local_run_aligned h1 j (nget (rt_realms rt1) j)) as [C1 _].
  pose proof (local_run_aligned h2 j (nget (rt_realms rt2) j)) as [D1 _].
  rewrite <- V1 in A1, A2, C1. rewrite <- V2 in B1, B2, D1. cbn [fst snd] in *.
  rewrite A1, A2, B1, B2, C1, D1, E, F. auto.
Qed.

Lemma filter_idem : forall {A} (p : A -> bool) l, filter p (filter p l) = filter p l.
Proof.
  induction l as [|x l IH]; cbn; [reflexivity|].
  destruct (p x) eqn:E; cbn; rewrite ?E, IH; reflexivity.
Qed.

Theorem non_interference : forall rt h j,
    rt_wf rt ->
    nget (rt_realms (fst (rrun rt h))) j = nget (rt_realms (fst (rrun rt (filter (concerns j) h)))) j /\
    List.concat (map (project j) (snd (rrun rt h))) =
    List.concat (map (project j) (snd (rrun rt (filter (concerns j) h)))) /\
    (* step by step: at the operations that concern j the outputs agree, at the others j gets nothing *)
    at_concerning j h (map (project j) (snd (rrun rt h))) =
    map (project j) (snd (rrun rt (filter (concerns j) h))) /\
    Forall (fun p => concerns j (fst p) = false -> snd p = [])
           (combine h (map (project j) (snd (rrun rt h)))).
Proof.
  intros rt h j W.
  destruct (non_interference_general rt rt h (filter (concerns j) h) j W W eq_refl
                                     (eq_sym (filter_idem _ _))) as (A & B & C).
  split; [exact A|]. split; [exact B|].
  pose proof (rrun_view h rt j W) as V.
  pose proof (local_run_aligned h j (nget (rt_realms rt) j)) as [C1 C2].
  rewrite <- V in C1, C2. cbn [fst snd] in *.
  pose proof (rrun_view (filter (concerns j) h) rt j W) as V'.
  split; [|exact C2].
  rewrite C1. rewrite <- V'. reflexivity.
Qed.

(** ** A realm in a router runs exactly as it would run alone: the realm-level
    [run] on the operations addressed to it. *)
Fixpoint realm_ops (j : N) (h : list rop) : option (list op) :=
  match h with
  | [] => Some []
  | RAddRealm i _ :: t | RRemoveRealm i :: t => if N.eqb i j then None else realm_ops j t
  | ROp i o :: t => if N.eqb i j then option_map (cons o) (realm_ops j t) else realm_ops j t
  | RTick ms :: t => option_map (cons (OTick ms)) (realm_ops j t)
  end.

Lemma run_cons : forall o h r,
    run r (o :: h) = let '(r1, o1) := step r o in let '(r2, o2) := run r1 h in (r2, o1 :: o2).
Proof.
  unfold run.
  assert (G : forall h r acc,
             fold_left (fun '((r, acc) : realm * list (list out)) o =>
                          let '(r1, out1) := step r o in (r1, acc ++ [out1])) h (r, acc) =
             let '(r2, o2) := fold_left (fun '((r, acc) : realm * list (list out)) o =>
                          let '(r1, out1) := step r o in (r1, acc ++ [out1])) h (r, []) in
             (r2, acc ++ o2)).
  { induction h as [|o h IH]; intros r acc; cbn [fold_left].
    - now rewrite app_nil_r.
    - destruct (step r o) as [r1 o1]. rewrite IH. rewrite (IH r1 ([] ++ [o1])).
      destruct (fold_left _ h (r1, [])) as [r2 o2]. now rewrite <- app_assoc. }
  intros o h r. cbn [fold_left]. destruct (step r o) as [r1 o1].
  rewrite G. destruct (fold_left _ h (r1, [])). reflexivity.
Qed.

Lemma local_run_realm_ops : forall h j r ops,
    realm_ops j h = Some ops ->
    fst (local_run j (Some r) h) = Some (fst (run r ops)) /\
    List.concat (snd (local_run j (Some r) h)) = List.concat (snd (run r ops)).
Proof.
  induction h as [|o h IH]; intros j r ops H.
  - inversion H; subst. auto.
  - rewrite local_run_cons. destruct o as [i cfg|i|i o|ms]; cbn [realm_ops local_step] in *.
    + destruct (N.eqb i j); [discriminate|].
      destruct (IH j r ops H) as [A B]. destruct (local_run j (Some r) h). cbn in *. auto.
    + destruct (N.eqb i j); [discriminate|].
      destruct (IH j r ops H) as [A B]. destruct (local_run j (Some r) h). cbn in *. auto.
    + destruct (N.eqb i j).
      * destruct (realm_ops j h) as [ops'|] eqn:R; [|discriminate]. inversion H; subst.
        rewrite run_cons. destruct (step r o) as [r1 o1].
        destruct (IH j r1 ops' R) as [A B].
        destruct (local_run j (Some r1) h), (run r1 ops'). cbn in *. split; congruence.
      * destruct (IH j r ops H) as [A B]. destruct (local_run j (Some r) h). cbn in *. auto.
    + destruct (realm_ops j h) as [ops'|] eqn:R; [|discriminate]. inversion H; subst.
      rewrite run_cons. destruct (step r (OTick ms)) as [r1 o1].
      destruct (IH j r1 ops' R) as [A B].
      destruct (local_run j (Some r1) h), (run r1 ops'). cbn in *. split; congruence.
Qed.

Theorem realm_runs_alone : forall rt h j r ops,
    rt_wf rt -> nget (rt_realms rt) j = Some r -> realm_ops j h = Some ops ->
    nget (rt_realms (fst (rrun rt h))) j = Some (fst (run r ops)) /\
    List.concat (map (project j) (snd (rrun rt h))) = List.concat (snd (run r ops)).
Proof.
  intros rt h j r ops W G R.
  pose proof (rrun_view h rt j W) as V. rewrite G in V.
  destruct (local_run_realm_ops h j r ops R) as [A B].
  rewrite <- V in A, B. exact (conj A B).
Qed.

(** ** same_ids_no_confusion: two realms in the same state (e.g. both just
    created from the same configuration) that are sent the same operations —
    interleaved in any way with each other and with anything else — produce the
    SAME outputs, id for id (ids do collide across realms), and end in the same
    state; by [frame] neither has touched the other. *)
Theorem same_ids_no_confusion : forall rt h i j r ops,
    rt_wf rt -> i <> j ->
    nget (rt_realms rt) i = Some r -> nget (rt_realms rt) j = Some r ->
    realm_ops i h = Some ops -> realm_ops j h = Some ops ->
    nget (rt_realms (fst (rrun rt h))) i = nget (rt_realms (fst (rrun rt h))) j /\
    List.concat (map (project i) (snd (rrun rt h))) = List.concat (map (project j) (snd (rrun rt h))) /\
    List.concat (map (project i) (snd (rrun rt h))) = List.concat (snd (run r ops)).
Proof.
  intros rt h i j r ops W N Gi Gj Ri Rj.
  destruct (realm_runs_alone rt h i r ops W Gi Ri) as [A B].
  destruct (realm_runs_alone rt h j r ops W Gj Rj) as [C D].
  rewrite A, B, C, D. auto.
Qed.

(** ** Non-vacuity: two realms created from the same configuration, the same
    scenario in both (colliding session, request and subscription ids), a
    third realm added and removed meanwhile. *)
Module C11Ex.
  Definition cfg0 : config := mkConfig false false false true true false [] None.
  Definition hello0 : dict :=
    [("roles", VDict [("subscriber", VDict []); ("publisher", VDict []);
                      ("caller", VDict []); ("callee", VDict [])])].
  Definition scenario : list op :=
    [OJoin 10 false hello0; OJoin 11 false hello0;
     OMsg 11 (CSubscribe 1 [] "t") 0; OMsg 10 (CPublish 2 [("acknowledge", VBool true)] "t" [vnat 7] []) 0].
  Definition hist : list rop :=
    [RAddRealm 1 cfg0; RAddRealm 2 cfg0; RAddRealm 3 cfg0]
      ++ flat_map (fun o => [ROp 1 o; ROp 2 o]) scenario
      ++ [ROp 3 (OJoin 10 false hello0); RRemoveRealm 3; ROp 1 (ODrop 10)].
  Definition rt0 : router := fst (rrun empty_router [RAddRealm 1 cfg0; RAddRealm 2 cfg0; RAddRealm 3 cfg0]).
  Definition tail : list rop :=
    flat_map (fun o => [ROp 1 o; ROp 2 o]) scenario ++ [ROp 3 (OJoin 10 false hello0); ROp 3 (ODrop 10)].

  Lemma hyps : rt_wf rt0 /\ nget (rt_realms rt0) 1 = Some (init_realm cfg0) /\
               nget (rt_realms rt0) 2 = Some (init_realm cfg0) /\
               realm_ops 1 tail = Some scenario /\ realm_ops 2 tail = Some scenario.
  Proof.
    split; [apply reachable_wf|]. vm_compute. repeat split; reflexivity.
  Qed.

  (** the same EVENT with the same subscription and publication ids in both realms *)
  Lemma collide : List.concat (map (project 1) (snd (rrun rt0 tail))) =
                  List.concat (map (project 2) (snd (rrun rt0 tail))) /\
                  In (11, REvent 1 5 [] [vnat 7] []) (List.concat (map (project 1) (snd (rrun rt0 tail)))).
  Proof. vm_compute. split; [reflexivity|]. tauto. Qed.

  (** removing realm 3 tells its own client only *)
  Lemma removal : snd (rstep (fst (rrun rt0 [ROp 3 (OJoin 10 false hello0)])) (RRemoveRealm 3)) =
                  [(3, (10, RGoodbye [] e_system_shutdown))].
  Proof. vm_compute. reflexivity. Qed.
End C11Ex.
