(** * Histories of the whole model, C12 part 3: one [step] and the publisher
    identity in the EVENTs it sends ([step_ev]); the meta session's id, HELLO
    and details are the same after every step ([step_meta_fixed]). *)
From Nexus Require Import Router.Realm Router.AssocLemmas Router.RealmLib Router.RealmProofs
     Router.RealmMetaProofs Router.RealmLeave.
From Nexus Require Import Router.BrokerWf Router.BrokerPres Router.BrokerPublish Router.BrokerSub Router.BrokerHist
     Router.BrokerDisclose.
From Nexus Require Import Router.DealerLib Router.DealerProofs Router.DealerReg Router.DealerCall Router.DealerWf
     Router.DealerWfCalls Router.DealerWfRegs Router.DealerRemove Router.DealerReply Router.DealerTimers
     Router.DealerOwned.
From Nexus Require Import Router.RealmWf Router.RealmStep Router.RealmC05 Router.RealmOutputs.
From Nexus Require Import Router.RealmTraceLib Router.RealmTrace Router.RealmTraceC05 Router.RealmTraceInv.
From Nexus Require Import Router.RealmTraceC12Dealer Router.RealmTraceC12Ev.
From Coq Require Import Lia ZifyN ZifyNat ZifyBool.

(** the publisher [p] (record [ps] in the state before the step) asked for
    disclosure; the realm allows it; the receiver announced the feature; the
    values are [p]'s own *)
Definition client_disclosure (r : realm) (p : N) (ps : session) (opts : dict) (args : list value) (kw : dict)
           (y : N) (det : dict) (a : list value) (k : dict) : Prop :=
  c_disclose (r_cfg r) = true /\ recv_ok r y /\ opt_bool opts "disclose_me" = true /\
  dget det "publisher" = Some (vid p) /\ dget det "publisher_authid" = dget (s_details ps) "authid" /\
  dget det "publisher_authrole" = dget (s_details ps) "authrole" /\ a = args /\ k = kw.

Definition pub_src (s : session) (m : cmsg) : option (N * session * dict * list value * dict) :=
  match m with CPublish _ opts _ args kw => Some (s_id s, s, opts, args, kw) | _ => None end.

Definition ev_step (r rf : realm) (src : option (N * session * dict * list value * dict)) (o : list out) : Prop :=
  forall y sub pid det a k, In (y, REvent sub pid det a k) o -> pub_keys det = true ->
    (exists p ps opts args kw, src = Some (p, ps, opts, args, kw) /\ client_disclosure r p ps opts args kw y det a k) \/
    meta_disclosure r rf y det a k.

Lemma ev_step_meta : forall r rf src o, ev_meta r rf o -> ev_step r rf src o.
Proof. intros r rf src o H y sub pid det a k Hin Hk. right. eauto. Qed.
Lemma ev_step_app : forall r rf src a b, ev_step r rf src a -> ev_step r rf src b -> ev_step r rf src (a ++ b).
Proof. intros r rf src a b A B y sub pid det a0 k H. apply in_app_or in H. destruct H; eauto. Qed.
Lemma ev_step_noev : forall r rf src o, noev o -> ev_step r rf src o.
Proof. intros. apply ev_step_meta, ev_meta_plain, noev_plain. assumption. Qed.
Lemma ev_step_plain : forall r rf src o, ev_plain o -> ev_step r rf src o.
Proof. intros. apply ev_step_meta, ev_meta_plain. assumption. Qed.
Lemma ev_step_cons : forall r rf src m o, is_ev m = false -> ev_step r rf src o -> ev_step r rf src (m :: o).
Proof.
  intros r rf src m o A B. change (m :: o) with ([m] ++ o). apply ev_step_app; [|exact B].
  apply ev_step_noev. now apply noev_one.
Qed.

Lemma set_invgen_fixed : forall r c c0 d,
    meta_fixed r -> s_id c = meta_id -> lookup r (s_id c) = Some c0 ->
    (c = c0 \/ exists n, c = set_invgen c0 n) ->
    meta_fixed (r_set_meta (r_set_dealer r d) c).
Proof.
  intros r c c0 d (M1 & M2 & M3) Hc Hl Hs. rewrite Hc in Hl. unfold lookup in Hl. rewrite N.eqb_refl in Hl.
  inversion Hl; subst c0. unfold meta_fixed. cbn [r_meta r_set_meta].
  destruct Hs as [->|(n & ->)]; cbn [set_invgen s_id s_hello s_details]; auto.
Qed.

(** ** One client message *)
Theorem handle_ev : forall r s m oracle,
    realm_wf r -> meta_fixed r -> find_session (r_clients r) (s_id s) = Some s ->
    ev_step r (fst (handle r s m oracle)) (pub_src s m) (snd (handle r s m oracle)).
Proof.
  intros r s m oracle W M Hs.
  pose proof (rw_dealer r W) as Wd.
  pose proof (sub_st_refl r M) as S0.
  assert (Lv : forall r0 src, sub_st r r0 -> ev_step r (fst (leave r0 (s_id s))) src (snd (leave r0 (s_id s)))).
  { intros r0 src S. apply ev_step_meta. apply (leave_ev r r0 (s_id s) S). }
  destruct m; cbn [handle pub_src].
  - (* PUBLISH *)
    assert (P : forall rf, ev_step r rf (Some (s_id s, s, opts, args, kw))
                        (snd (publish (r_cfg r) (lookup r) (r_now r) (r_broker r) (r_pubgen r) s req opts topic args kw))).
    { intros rf y sub pid det a k Hin Hk. left. exists (s_id s), s, opts, args, kw. split; [reflexivity|].
      destruct (publish_ev _ _ _ _ _ _ _ _ _ _ _ _ _ _ _ _ _ Hin) as (-> & -> & Q).
      destruct (Q Hk) as (Hc & Hd & r0 & rs & Hl & Hy & Hf & D1 & D2 & D3).
      pose proof (meta_fixed_lookup_ok r M r0 rs Hl) as Er0. rewrite <- Hy in Er0. subst r0.
      split; [exact Hc|]. split; [exists rs; split; [apply recv_is_client; assumption|exact Hf]|].
      repeat split; assumption. }
    destruct (publish _ _ _ _ _ _ _ _ _ _ _) as [[b pg] o]. cbn [snd] in P.
    destruct (publish_aborts _ _ _ _); [|apply P].
    specialize (Lv r (Some (s_id s, s, opts, args, kw)) S0). destruct (leave r (s_id s)) as [r1 o1]. cbn [fst snd] in *.
    apply ev_step_app; [apply P|exact Lv].
  - (* SUBSCRIBE *)
    pose proof (subscribe_plain (r_cfg r) (r_broker r) (r_pubgen r) (s_id s) req opts topic) as P.
    destruct (subscribe _ _ _ _ _ _ _) as [[b pg] o]. cbn [fst snd] in *. now apply ev_step_plain.
  - (* UNSUBSCRIBE *)
    pose proof (unsubscribe_plain (r_broker r) (r_pubgen r) (s_id s) req sub) as P.
    destruct (unsubscribe _ _ _ _ _) as [[b pg] o]. cbn [fst snd] in *. now apply ev_step_plain.
  - (* REGISTER *)
    pose proof (register_noev (r_cfg r) (r_dealer r) s req opts proc) as Rn.
    pose proof (register_mps_plain (r_cfg r) (r_dealer r) s req opts proc) as Rp.
    destruct (register _ _ _ _ _ _) as [[d o] mps]. cbn [fst snd] in *.
    pose proof (meta_publish_all_plain mps (r_set_dealer r d) Rp) as Mp.
    destruct (meta_publish_all _ mps) as [r1 o1]. cbn [fst snd] in *.
    apply ev_step_app; [now apply ev_step_noev|now apply ev_step_plain].
  - (* UNREGISTER *)
    pose proof (unregister_dk (r_dealer r) (s_id s) req reg) as [Rn _ _].
    pose proof (unregister_mps_plain (r_dealer r) (s_id s) req reg) as Rp.
    destruct (unregister _ _ _ _) as [[d o] mps]. cbn [fst snd] in *.
    pose proof (meta_publish_all_plain mps (r_set_dealer r d) Rp) as Mp.
    destruct (meta_publish_all _ mps) as [r1 o1]. cbn [fst snd] in *.
    apply ev_step_app; [now apply ev_step_noev|now apply ev_step_plain].
  - (* CALL *)
    pose proof (call_c12 (r_cfg r) (lookup r) (r_now r) (r_dealer r) s req opts proc args kw oracle Wd
                         (meta_fixed_lookup_ok r M)) as CF.
    destruct (call _ _ _ _ _ _ _ _ _ _ _) as [d o|o|d callee' o].
    + cbn [fst snd]. destruct CF as [[Cn _ _] _]. apply ev_step_noev. exact Cn.
    + cbv zeta. specialize (Lv (r_set_dealer r (call_abort_dealer (lookup r) (r_dealer r) s req opts proc oracle)) None (sub_st_dealer _ _ _ S0)).
      destruct (leave _ (s_id s)) as [r1 o1]. cbn [fst snd] in *.
      apply ev_step_app; [apply ev_step_noev; exact (proj1 CF)|exact Lv].
    + destruct CF as ([Cn _ _] & (b & rid & det & Eo) & c0 & Hl & Hc).
      destruct (N.eqb_spec (s_id callee') meta_id) as [Em|Em].
      * rewrite Eo, Em. unfold update_session. rewrite Em, N.eqb_refl.
        apply ev_step_meta. apply run_meta_invocation_ev.
        constructor; cbn [r_cfg r_clients r_testaments r_set_meta r_set_dealer]; auto.
        eapply set_invgen_fixed; eauto.
      * rewrite Eo. rewrite (run_meta_invocation_client _ (s_id callee') b rid det args kw oracle Em). cbn [snd].
        rewrite <- Eo. now apply ev_step_noev.
  - (* CANCEL *)
    pose proof (cancel_dk (lookup r) (r_dealer r) (s_id s) req opts) as [D _ _].
    destruct (cancel _ _ _ _ _) as [d o]. cbn [fst snd] in *. now apply ev_step_noev.
  - (* YIELD *)
    pose proof (sync_yield_dk (lookup r) (r_dealer r) (s_id s) req opts args kw) as [D _ _].
    destruct (sync_yield _ _ _ _ _ _ _) as [d o]. cbn [fst snd] in *.
    destruct (yield_aborts _ _ _ _ _); [|now apply ev_step_noev].
    specialize (Lv (r_set_dealer r d) None (sub_st_dealer _ _ d S0)).
    destruct (leave (r_set_dealer r d) (s_id s)) as [r1 o1]. cbn [fst snd] in *.
    apply ev_step_app; [now apply ev_step_noev|exact Lv].
  - (* ERROR *)
    destruct (negb (ty =? c_INVOCATION)).
    + specialize (Lv r None S0). destruct (leave r (s_id s)) as [r1 o1]. cbn [fst snd] in *.
      apply ev_step_cons; [reflexivity|exact Lv].
    + pose proof (sync_error_dk (r_dealer r) (s_id s) req details err args kw) as [D _ _].
      destruct (sync_error _ _ _ _ _ _ _) as [d o]. cbn [fst snd] in *. now apply ev_step_noev.
  - specialize (Lv r None S0). destruct (leave r (s_id s)) as [r1 o1]. cbn [fst snd] in *.
    apply ev_step_cons; [reflexivity|exact Lv].
  - specialize (Lv r None S0). destruct (leave r (s_id s)) as [r1 o1]. cbn [fst snd] in *.
    apply ev_step_cons; [reflexivity|exact Lv].
Qed.

(** ** One step *)
Theorem step_ev : forall r o,
    realm_wf r -> meta_fixed r ->
    forall y sub pid det a k, In (y, REvent sub pid det a k) (snd (step r o)) -> pub_keys det = true ->
      (exists p m orc ps req opts topic args kw,
          o = OMsg p m orc /\ find_session (r_clients r) p = Some ps /\
          gate r ps m = inl (CPublish req opts topic args kw) /\
          client_disclosure r p ps opts args kw y det a k) \/
      meta_disclosure r (fst (step r o)) y det a k.
Proof.
  intros r o W M y sub pid det a k.
  destruct o as [sid lc h|sid m oracle|sid|ms].
  - cbn [step]. unfold join.
    destruct (negb (has_role h) || is_some (lookup r sid)); [intros []|].
    intros Hin Hk. exfalso.
    match goal with Hin : In _ (snd (meta_publish ?R ?MP)) |- _ =>
      pose proof (meta_publish_plain R MP eq_refl _ _ _ _ _ _ Hin) as P end.
    congruence.
  - rewrite step_msg_eq. destruct (find_session (r_clients r) sid) as [s|] eqn:F; [|intros []].
    pose proof (find_session_id _ _ _ F) as Es.
    assert (Hs : find_session (r_clients r) (s_id s) = Some s) by now rewrite Es.
    destruct (gate r s m) as [m'|out] eqn:Eg.
    + intros Hin Hk. destruct (handle_ev r s m' oracle W M Hs y sub pid det a k Hin Hk) as [(p & ps & opts & args & kw & Esrc & C)|C];
        [left|now right].
      destruct m'; cbn [pub_src] in Esrc; try discriminate.
      injection Esrc as E1 E2 E3 E4 E5. subst p ps opts args kw.
      rewrite Es in C. exists sid, m, oracle, s. do 5 eexists. split; [reflexivity|]. split; [exact F|]. split; [exact Eg|exact C].
    + cbn [snd]. intros Hin. exfalso.
      destruct (gate_refusal_shape r s m out Eg) as [->|(dt & e & ar & ->)]; [destruct Hin|].
      destruct Hin as [H|[]]. discriminate H.
  - cbn [step]. intros Hin Hk. right. exact (proj1 (leave_ev r r sid (sub_st_refl r M)) _ _ _ _ _ _ Hin Hk).
  - cbn [step]. set (r1 := r_set_now r (r_now r + ms)).
    pose proof (fire_timers_dk (lookup r1) (r_now r1) (r_dealer r1)) as [D _ _].
    destruct (fire_timers _ _ _) as [d out]. cbn [fst snd] in *. intros Hin. specialize (D _ Hin). discriminate D.
Qed.

(** ** The meta session's record: only its invocation id generator moves *)
Lemma run_meta_invocation_meta : forall r o oracle, r_meta (fst (run_meta_invocation r o oracle)) = r_meta r.
Proof.
  intros r o oracle. unfold run_meta_invocation.
  destruct o as [|[rcv m] l]; [reflexivity|]. destruct m; try reflexivity. destruct l; [|reflexivity].
  destruct (negb (rcv =? meta_id)); [reflexivity|].
  destruct (nget (r_metaprocs r) reg) as [proc|].
  - pose proof (meta_call_cases r proc details args kw oracle) as MC. cbv zeta in MC.
    destruct (meta_call r proc details args kw oracle) as [[r1 resp] kills]. unfold realm_of in MC. cbn [fst snd] in MC.
    assert (E1 : r_meta r1 = r_meta r).
    { destruct MC as [->|[(sid & s0 & dd & F & Hm & ->)|(c & p & _ & [->| ->])]]; try reflexivity.
      unfold update_session. cbn [set_details s_id]. rewrite (find_session_id _ _ _ F), Hm. reflexivity. }
    destruct (match resp with MYield a k0 => _ | MError e => _ end) as [d o1].
    destruct kills as [[sids g]|]; [|exact E1].
    pose proof (kill_sessions_exact sids (r_set_dealer r1 d) g) as K. cbv zeta in K.
    destruct (kill_sessions (r_set_dealer r1 d) sids g) as [r3 o2]. cbn [fst snd] in *.
    destruct K as (_ & _ & _ & K & _). rewrite K. exact E1.
  - destruct (sync_error _ _ _ _ _ _ _) as [d o1]. reflexivity.
Qed.

Lemma leave_meta : forall r sid, r_meta (fst (leave r sid)) = r_meta r.
Proof. intros r sid. destruct (leave_frame r sid) as (_ & _ & E & _). exact E. Qed.

Lemma meta_publish_all_meta : forall mps r, r_meta (fst (meta_publish_all r mps)) = r_meta r.
Proof. intros. destruct (meta_publish_all_frame mps r) as (_ & _ & E & _). exact E. Qed.

Theorem handle_meta_fixed : forall r s m oracle,
    realm_wf r -> meta_fixed r -> meta_fixed (fst (handle r s m oracle)).
Proof.
  intros r s m oracle W M.
  pose proof (rw_dealer r W) as Wd.
  assert (Lv : forall r0, r_meta r0 = r_meta r -> meta_fixed (fst (leave r0 (s_id s)))).
  { intros r0 E. eapply meta_fixed_ext; [|exact M]. rewrite leave_meta. exact E. }
  destruct m; cbn [handle].
  - destruct (publish _ _ _ _ _ _ _ _ _ _ _) as [[b pg] o].
    destruct (publish_aborts _ _ _ _); [|exact M].
    specialize (Lv r eq_refl). destruct (leave r (s_id s)) as [r1 o1]. exact Lv.
  - destruct (subscribe _ _ _ _ _ _ _) as [[b pg] o]. exact M.
  - destruct (unsubscribe _ _ _ _ _) as [[b pg] o]. exact M.
  - destruct (register _ _ _ _ _ _) as [[d o] mps].
    pose proof (meta_publish_all_meta mps (r_set_dealer r d)) as E.
    destruct (meta_publish_all _ mps) as [r1 o1]. cbn [fst] in *. eapply meta_fixed_ext; [exact E|exact M].
  - destruct (unregister _ _ _ _) as [[d o] mps].
    pose proof (meta_publish_all_meta mps (r_set_dealer r d)) as E.
    destruct (meta_publish_all _ mps) as [r1 o1]. cbn [fst] in *. eapply meta_fixed_ext; [exact E|exact M].
  - pose proof (call_c12 (r_cfg r) (lookup r) (r_now r) (r_dealer r) s req opts proc args kw oracle Wd
                         (meta_fixed_lookup_ok r M)) as CF.
    destruct (call _ _ _ _ _ _ _ _ _ _ _) as [d o|o|d callee' o].
    + exact M.
    + cbv zeta. specialize (Lv (r_set_dealer r (call_abort_dealer (lookup r) (r_dealer r) s req opts proc oracle)) eq_refl). destruct (leave _ (s_id s)) as [r1 o1]. exact Lv.
    + destruct CF as (_ & _ & c0 & Hl & Hc).
      eapply meta_fixed_ext; [apply run_meta_invocation_meta|].
      unfold update_session. destruct (N.eqb_spec (s_id callee') meta_id) as [Em|Em]; [|exact M].
      eapply set_invgen_fixed; eauto.
  - destruct (cancel _ _ _ _ _) as [d o]. exact M.
  - destruct (sync_yield _ _ _ _ _ _ _) as [d o].
    destruct (yield_aborts _ _ _ _ _); [|exact M].
    specialize (Lv (r_set_dealer r d) eq_refl). destruct (leave (r_set_dealer r d) (s_id s)) as [r1 o1]. exact Lv.
  - destruct (negb (ty =? c_INVOCATION)).
    + specialize (Lv r eq_refl). destruct (leave r (s_id s)) as [r1 o1]. exact Lv.
    + destruct (sync_error _ _ _ _ _ _ _) as [d o]. exact M.
  - specialize (Lv r eq_refl). destruct (leave r (s_id s)) as [r1 o1]. exact Lv.
  - specialize (Lv r eq_refl). destruct (leave r (s_id s)) as [r1 o1]. exact Lv.
Qed.

Theorem step_meta_fixed : forall r o, realm_wf r -> meta_fixed r -> meta_fixed (fst (step r o)).
Proof.
  intros r o W M. destruct o as [sid lc h|sid m oracle|sid|ms].
  - cbn [step]. unfold join. destruct (negb (has_role h) || is_some (lookup r sid)); [exact M|].
    match goal with |- context [meta_publish ?R ?MP] =>
      destruct (meta_publish_frame R MP) as (_ & _ & E & _) end.
    eapply meta_fixed_ext; [exact E|exact M].
  - rewrite step_msg_eq. destruct (find_session (r_clients r) sid) as [s|]; [|exact M].
    destruct (gate r s m) as [m'|out]; [|exact M]. now apply handle_meta_fixed.
  - cbn [step]. eapply meta_fixed_ext; [apply leave_meta|exact M].
  - cbn [step]. destruct (fire_timers _ _ _) as [d out]. exact M.
Qed.

Lemma init_meta_fixed : forall cfg, meta_fixed (init_realm cfg).
Proof. intros cfg. unfold init_realm. destruct (fold_left _ _ _) as [d procs]. repeat split. Qed.

Theorem run_meta_fixed : forall cfg ops,
    Forall op_ok ops -> k0 cfg + N.of_nat (List.length ops) <= max_idN ->
    meta_fixed (fst (run (init_realm cfg) ops)).
Proof.
  intros cfg ops. induction ops as [|o ops IH] using rev_ind; intros Ho Hk.
  - apply init_meta_fixed.
  - rewrite run_app1. rewrite app_length in Hk. cbn [List.length] in Hk.
    apply Forall_app in Ho. destruct Ho as [Ho1 _].
    apply step_meta_fixed; [apply reachable_realm_wf; [exact Ho1|lia]|apply IH; [exact Ho1|lia]].
Qed.
