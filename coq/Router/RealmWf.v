(** * Realm-level proofs, part 4: the reachable-state invariant [realm_wf]
    (C05, C18 listed_fetchable).  It assembles the broker invariant
    ([BrokerWf.broker_wf]) and the dealer invariant ([DealerProofs.dealer_wf],
    relative to the realm's own session lookup) with what the realm itself
    owns: every key of a per-session table names an attached session. *)
From Nexus Require Import Router.Realm Router.AssocLemmas Router.RealmLib Router.RealmProofs
     Router.RealmMetaProofs Router.RealmLeave.
From Nexus Require Import Router.BrokerWf Router.BrokerPres Router.BrokerSub Router.BrokerHist.
From Nexus Require Import Router.DealerLib Router.DealerProofs Router.DealerReg Router.DealerCall Router.DealerWf.
From Coq Require Import Lia ZifyN ZifyBool.

Definition client (r : realm) (sid : N) : Prop := find_session (r_clients r) sid <> None.

(** the broker a realm starts with, and what never changes about it: which
    subscriptions carry a history store, and their topic and match policy *)
Definition broker0 (cfg : config) : broker := preinit_history empty_broker (c_hist cfg).

Definition hist_same (b0 b : broker) : Prop :=
  (forall id, has_history b id = has_history b0 id) /\
  (forall id t k, has_history b0 id = true -> sub_sig b0 id t k -> sub_sig b id t k).

Lemma hist_same_refl : forall b, hist_same b b.
Proof. intros b; split; auto. Qed.

(** the dealer a realm starts with, and what never changes about it: the
    registrations of the meta session *)
Definition init_f (cfg : config) :=
  fun '((d, procs) : dealer * list (N * string)) name =>
    let '(d1, o, _) := register cfg d meta_session (N.of_nat (List.length procs) + 1) [("disclose_caller", VBool true)] name in
    match o with
    | [(_, RRegistered _ id)] => (d1, procs ++ [(id, name)])
    | _ => (d1, procs)
    end.

Definition dealer0 (cfg : config) : dealer :=
  fst (fold_left (init_f cfg) (meta_proc_names cfg) (empty_dealer, [])).

Definition meta_regs_same (d0 d : dealer) : Prop :=
  (forall id rg0, nget (d_regs d0) id = Some rg0 ->
     exists rg, nget (d_regs d) id = Some rg /\ reg_proc rg = reg_proc rg0 /\ reg_match rg = reg_match rg0 /\
                In meta_id (reg_callees rg)) /\
  (forall id rg, nget (d_regs d) id = Some rg -> In meta_id (reg_callees rg) -> nget (d_regs d0) id <> None) /\
  (* registration ids are positive (the generator never hands out 0) *)
  (forall id rg, nget (d_regs d) id = Some rg -> 0 < id).

Lemma meta_regs_same_ext : forall d0 d d', d_regs d' = d_regs d -> meta_regs_same d0 d -> meta_regs_same d0 d'.
Proof. intros d0 d d' E [A [B P]]. split; [|split]; rewrite E; assumption. Qed.

Record realm_wf (r : realm) : Prop := mkRealmWf {
  rw_meta_id : s_id (r_meta r) = meta_id;
  rw_no_meta : find_session (r_clients r) meta_id = None;
  rw_ids : forall s, In s (r_clients r) -> 0 < s_id s <= max_idN;
  rw_broker : broker_wf (r_broker r);
  rw_dealer : dealer_wf (lookup r) (r_dealer r);
  (* per-session tables name attached sessions only *)
  rw_sess_att : forall sid, nget (b_sess (r_broker r)) sid <> None -> client r sid;
  rw_test_att : forall sid, nget (r_testaments r) sid <> None -> client r sid;
  rw_test_keys : NoDup (map fst (r_testaments r));
  rw_cr_nonempty : forall sid ids, nget (d_callee_regs (r_dealer r)) sid = Some ids -> ids <> [];
  (* the meta session never calls *)
  rw_calls_nometa : forall c x, cget (d_calls (r_dealer r)) c = Some x -> fst c <> meta_id;
  (* the history subscriptions are the configured ones *)
  rw_hist : hist_same (broker0 (r_cfg r)) (r_broker r);
  (* the meta session's registrations are the initial ones *)
  rw_metaregs : meta_regs_same (dealer0 (r_cfg r)) (r_dealer r)
}.

(** the id generators stay below [k] (ids wrap around at 2^53; the invariant
    is proved for histories that do not reach the wrap-around) *)
Definition ids_below (k : N) (r : realm) : Prop :=
  b_idgen (r_broker r) <= k /\ d_idgen (r_dealer r) <= k /\
  forall x s, lookup r x = Some s -> s_invgen s <= k.

Lemma lookup_ok_realm : forall r, s_id (r_meta r) = meta_id -> lookup_ok (lookup r).
Proof.
  intros r H sid s. unfold lookup. destruct (N.eqb_spec sid meta_id) as [->|N].
  - intros E; inversion E; subst; exact H.
  - apply find_session_id.
Qed.

Lemma nowrap_below : forall k r, ids_below k r -> k < max_idN -> nowrap (lookup r).
Proof. intros k r (_ & _ & H) Hk x s E. specialize (H x s E). lia. Qed.

(** ** Frame lemmas about the broker's per-session table *)
Lemma sess_add_sub_keys : forall l sid id x,
    nget (sess_add_sub l sid id) x <> None -> x = sid \/ nget l x <> None.
Proof.
  intros l sid id x. unfold sess_add_sub.
  destruct (nget l sid) as [ids|] eqn:G.
  - destruct (nmem id ids); [auto|]. rewrite ngs. destruct (N.eqb_spec x sid); auto.
  - rewrite ngs. destruct (N.eqb_spec x sid); auto.
Qed.

Lemma sess_del_sub_keys : forall l sid id x, nget (sess_del_sub l sid id) x <> None -> nget l x <> None.
Proof.
  intros l sid id x. unfold sess_del_sub.
  destruct (nget l sid) as [ids|] eqn:G; [|auto].
  destruct (nremove id ids).
  - rewrite ngd. destruct (N.eqb_spec x sid); [congruence|auto].
  - rewrite ngs. destruct (N.eqb_spec x sid); [subst; congruence|auto].
Qed.

Lemma subscribe_sess_keys : forall cfg b pg sid req opts topic x,
    nget (b_sess (fst (fst (subscribe cfg b pg sid req opts topic)))) x <> None ->
    x = sid \/ nget (b_sess b) x <> None.
Proof.
  intros cfg b pg sid req opts topic x. unfold subscribe.
  destruct (negb (valid_uri _ _ _)); [auto|].
  destruct (init_subscription b topic (opt_string opts "match") (Some sid)) as [[b1 s] ex] eqn:I.
  assert (E : b_sess b1 = b_sess b).
  { unfold init_subscription in I. destruct (sget _ _) as [id|].
    - destruct (nget (b_subs b) id); inversion I; reflexivity.
    - inversion I; subst. destruct (mkind_of (opt_string opts "match")); reflexivity. }
  destruct (ex && nmem sid (sub_subs s)).
  - cbn [fst]. rewrite E. auto.
  - destruct (if ex then _ else _) as [pg1 o2]. cbn [fst b_sess b_set_sess b_set_subs].
    rewrite E. apply sess_add_sub_keys.
Qed.

Lemma del_subscription_sess : forall b s, b_sess (del_subscription b s) = b_sess b.
Proof. intros b s. unfold del_subscription. destruct (mkind_of (sub_match s)); reflexivity. Qed.

Lemma unsubscribe_sess_keys : forall b pg sid req subid x,
    nget (b_sess (fst (fst (unsubscribe b pg sid req subid)))) x <> None -> nget (b_sess b) x <> None.
Proof.
  intros b pg sid req subid x. unfold unsubscribe.
  destruct (nget (b_subs b) subid) as [s|]; [|auto].
  destruct (negb (nmem sid (sub_subs s))); [auto|].
  match goal with |- context [if ?d then del_subscription _ _ else _] => destruct d end;
    cbn [fst b_sess b_set_sess]; rewrite ?del_subscription_sess; cbn [b_sess b_set_subs]; apply sess_del_sub_keys.
Qed.

Lemma remove_session_sub_sess : forall sid acc id,
    b_sess (fst (fst (remove_session_sub sid acc id))) = b_sess (fst (fst acc)).
Proof.
  intros sid [[b pg] o] id. unfold remove_session_sub.
  destruct (nget (b_subs b) id) as [s|]; [|reflexivity].
  match goal with |- context [if ?d then _ else _] => destruct d end; cbn [fst].
  - apply del_subscription_sess.
  - reflexivity.
Qed.

Lemma remove_session_sess : forall b pg sid,
    b_sess (fst (fst (broker_remove_session b pg sid))) = ndel (b_sess b) sid.
Proof.
  intros b pg sid. unfold broker_remove_session.
  destruct (nget (b_sess b) sid) as [ids|] eqn:G.
  - assert (H : forall ids acc, b_sess (fst (fst (fold_left (remove_session_sub sid) ids acc))) = b_sess (fst (fst acc))).
    { induction ids0 as [|id ids0 IH]; intros acc; cbn [fold_left]; [reflexivity|].
      rewrite IH. apply remove_session_sub_sess. }
    rewrite H. reflexivity.
  - cbn [fst]. symmetry. now apply ndel_absent.
Qed.

Lemma publish_sess : forall cfg lk now b pg pub req opts topic args kw,
    core_wf b -> b_sess (fst (fst (publish cfg lk now b pg pub req opts topic args kw))) = b_sess b.
Proof.
  intros. destruct (publish cfg lk now b pg pub req opts topic args kw) as [[b' pg'] o] eqn:P.
  apply publish_hist_ext in P; [|assumption]. destruct P as (E & _). cbn [fst]. rewrite E. reflexivity.
Qed.

(** ** Frame lemmas about the dealer's per-callee table *)
Definition cr_nonempty (l : list (N * list N)) : Prop := forall sid ids, nget l sid = Some ids -> ids <> [].

Lemma callee_add_reg_nonempty : forall l sid id, cr_nonempty l -> cr_nonempty (callee_add_reg l sid id).
Proof.
  intros l sid id H x ids. unfold callee_add_reg.
  destruct (nget l sid) as [ids0|] eqn:G.
  - destruct (nmem id ids0); [apply H|]. rewrite ngs. destruct (N.eqb_spec x sid); [|apply H].
    intros E; inversion E. destruct ids0; discriminate.
  - rewrite ngs. destruct (N.eqb_spec x sid); [|apply H]. intros E; inversion E; discriminate.
Qed.

Lemma callee_del_reg_nonempty : forall l sid id, cr_nonempty l -> cr_nonempty (callee_del_reg l sid id).
Proof.
  intros l sid id H x ids. unfold callee_del_reg.
  destruct (nget l sid) as [ids0|] eqn:G; [|apply H].
  destruct (nremove id ids0) eqn:R.
  - rewrite ngd. destruct (N.eqb_spec x sid); [discriminate|apply H].
  - rewrite ngs. destruct (N.eqb_spec x sid); [|apply H]. intros E; inversion E; discriminate.
Qed.

Lemma register_cr_nonempty : forall cfg d s req opts proc,
    cr_nonempty (d_callee_regs d) -> cr_nonempty (d_callee_regs (fst (fst (register cfg d s req opts proc)))).
Proof.
  intros cfg d s req opts proc H. unfold register.
  destruct (negb (valid_uri _ _ _)); [exact H|].
  destruct (str_prefix_wamp proc && _); [exact H|].
  destruct (negb (c_disclose cfg) && _ && _); [exact H|].
  destruct (match sget _ _ with Some id => nget (d_regs d) id | None => None end) as [rg|].
  - destruct (negb (shared_policy _) || _ || _); [exact H|].
    cbn [fst d_callee_regs d_set_callee_regs d_set_regs]. now apply callee_add_reg_nonempty.
  - cbn [fst d_callee_regs d_set_callee_regs].
    destruct (mkind_of (opt_string opts "match")); cbn [d_callee_regs d_set_map d_set_regs d_set_idgen];
      now apply callee_add_reg_nonempty.
Qed.

Lemma del_callee_reg_cr : forall d sid id, d_callee_regs (fst (del_callee_reg d sid id)) = d_callee_regs d.
Proof.
  intros d sid id. unfold del_callee_reg.
  destruct (nget (d_regs d) id) as [rg|]; [|reflexivity].
  destruct (negb (nmem sid (reg_callees rg))); [reflexivity|].
  destruct (nremove1 sid (reg_callees rg)); [|reflexivity].
  destruct (mkind_of (reg_match rg)); reflexivity.
Qed.

Lemma unregister_cr_nonempty : forall d sid req id,
    cr_nonempty (d_callee_regs d) -> cr_nonempty (d_callee_regs (fst (fst (unregister d sid req id)))).
Proof.
  intros d sid req id H. unfold unregister.
  pose proof (del_callee_reg_cr (d_set_callee_regs d (callee_del_reg (d_callee_regs d) sid id)) sid id) as E.
  destruct (del_callee_reg _ sid id) as [d1 [deleted|]]; cbn [fst] in *.
  - rewrite E. cbn [d_callee_regs d_set_callee_regs]. now apply callee_del_reg_nonempty.
  - cbn [d_callee_regs d_set_callee_regs]. now apply callee_del_reg_nonempty.
Qed.

(** ** Frame lemmas: what [dealer_remove_session] does to the per-callee table *)
From Nexus Require Import Router.DealerWfCalls Router.DealerWfRegs Router.DealerRemove.

Lemma remove_callee_reg_fold_cr : forall sid regs d mp,
    d_callee_regs (fst (fold_left (remove_callee_reg sid) regs (d, mp))) = d_callee_regs d.
Proof.
  intros sid regs; induction regs as [|id regs IH]; intros d mp; cbn [fold_left]; [reflexivity|].
  destruct (remove_callee_reg sid (d, mp) id) as [d1 mp1] eqn:E. rewrite IH.
  unfold remove_callee_reg in E. pose proof (del_callee_reg_cr d sid id) as C.
  destruct (del_callee_reg d sid id) as [d2 [deleted|]]; inversion E; subst; cbn [fst] in C; auto.
Qed.

Lemma cancel_served_cr : forall lk sid acc e,
    d_callee_regs (fst (cancel_served lk sid acc e)) = d_callee_regs (fst acc).
Proof.
  intros lk sid [d o] [ikey i0]. unfold cancel_served. cbn [fst].
  destruct (cget (d_invs d) ikey) as [inv|]; [|reflexivity].
  destruct (negb (inv_callee inv =? sid)); [reflexivity|].
  destruct (cget (d_calls d) (inv_call inv)) as [caller|]; [|reflexivity].
  match goal with |- context [sync_cancel ?a ?b ?c ?d0 ?e ?f ?g] =>
    pose proof (sync_cancel_regs_same a b c d0 e f g) as S; destruct (sync_cancel a b c d0 e f g) as [d3 o3] end.
  cbn [fst] in *. destruct S as (_ & _ & _ & _ & E & _). rewrite E.
  cbn [d_callee_regs d_set_invs]. apply ct_callee_regs.
Qed.

Lemma drop_own_call_cr : forall sid d e, d_callee_regs (drop_own_call sid d e) = d_callee_regs d.
Proof.
  intros sid d [cid caller]. unfold drop_own_call.
  destruct (negb (caller =? sid)); [reflexivity|]. cbn [d_bycall d_set_calls d_invs].
  destruct (cget (d_bycall d) cid) as [ikey|]; [|reflexivity].
  destruct (cget (d_invs d) ikey) as [inv|]; cbn [d_callee_regs d_set_invs d_set_bycall];
    rewrite ?ct_callee_regs; reflexivity.
Qed.

Lemma drs_callee_regs : forall lk d sid,
    d_callee_regs (fst (fst (dealer_remove_session lk d sid))) = ndel (d_callee_regs d) sid.
Proof.
  intros lk d sid. unfold dealer_remove_session.
  pose proof (remove_callee_reg_fold_cr sid (match nget (d_callee_regs d) sid with Some l => l | None => [] end) d []) as E1.
  destruct (fold_left (remove_callee_reg sid) _ (d, [])) as [d1 mp]. cbn [fst] in E1.
  assert (E2 : forall l acc, d_callee_regs (fst (fold_left (cancel_served lk sid) l acc)) = d_callee_regs (fst acc)).
  { induction l as [|e l IH]; intros acc; cbn [fold_left]; [reflexivity|]. rewrite IH. apply cancel_served_cr. }
  specialize (E2 (d_invs (d_set_callee_regs d1 (ndel (d_callee_regs d1) sid)))
                 (d_set_callee_regs d1 (ndel (d_callee_regs d1) sid), [])).
  destruct (fold_left (cancel_served lk sid) _ _) as [d3 o]. cbn [fst] in *.
  assert (E3 : forall l d0, d_callee_regs (fold_left (drop_own_call sid) l d0) = d_callee_regs d0).
  { induction l as [|e l IH]; intros d0; cbn [fold_left]; [reflexivity|]. rewrite IH. apply drop_own_call_cr. }
  rewrite E3, E2. cbn [d_callee_regs d_set_callee_regs]. now rewrite E1.
Qed.

Lemma drs_calls_sub : forall lookup lk d sid, dealer_wf lookup d ->
    forall c x, cget (d_calls (fst (fst (dealer_remove_session lk d sid)))) c = Some x -> cget (d_calls d) c = Some x.
Proof.
  intros lookup lk d sid WF c x. rewrite drs_unfold. cbv zeta. cbn [fst].
  pose proof WF as [A B C D E].
  destruct (unreg_all_wf lookup lookup d sid A B C (fun _ _ H => H)) as (_ & _ & _ & _ & S2 & _).
  assert (W2 : calls_core (unreg_all d sid)).
  { eapply calls_core_ext; [|exact D]. destruct S2 as (E1 & E2 & E3 & E4 & E5). repeat split; assumption. }
  destruct (cs_fold_mono lk sid (d_invs (unreg_all d sid)) (unreg_all d sid) [] W2) as (W3 & S3 & _).
  cbv zeta in W3, S3.
  destruct (own_fold_mono sid (d_calls (fst (fold_left (cancel_served lk sid) (d_invs (unreg_all d sid)) (unreg_all d sid, []))))
                          (fst (fold_left (cancel_served lk sid) (d_invs (unreg_all d sid)) (unreg_all d sid, []))) W3) as (_ & S4).
  intros H. apply (sh_calls _ _ S4) in H. apply (sh_calls _ _ S3) in H.
  destruct S2 as (E1 & _). rewrite E1 in H. exact H.
Qed.

Lemma cr_nonempty_ndel : forall l sid, cr_nonempty l -> cr_nonempty (ndel l sid).
Proof. intros l sid H x ids. rewrite ngd. destruct (N.eqb x sid); [discriminate|apply H]. Qed.

(** ** Building [realm_wf] for a realm that differs in one component *)

Lemma wf_set_broker : forall r b pg,
    realm_wf r -> broker_wf b -> (forall x, nget (b_sess b) x <> None -> client r x) ->
    hist_same (broker0 (r_cfg r)) b ->
    realm_wf (r_set_broker r b pg).
Proof.
  intros r b pg [A B C D E F G H I J K L] Wb Hs Hh. constructor; cbn [r_set_broker r_meta r_clients r_broker r_dealer r_testaments r_cfg]; auto.
Qed.

(** the four broker operations keep the history subscriptions *)
Lemma hist_same_subscribe : forall b0 cfg b pg sid req opts topic,
    broker_wf b -> b_idgen b < max_idN -> hist_same b0 b ->
    hist_same b0 (fst (fst (subscribe cfg b pg sid req opts topic))).
Proof.
  intros b0 cfg b pg sid req opts topic W Hlt [H1 H2]. split.
  - intros id. unfold has_history. rewrite subscribe_hist. apply H1.
  - intros id t k Hh Hs. apply subscribe_sub_sig; auto.
Qed.

Lemma hist_same_unsubscribe : forall b0 b pg sid req subid,
    broker_wf b -> hist_same b0 b -> hist_same b0 (fst (fst (unsubscribe b pg sid req subid))).
Proof.
  intros b0 b pg sid req subid W [H1 H2]. split.
  - intros id. unfold has_history. rewrite unsubscribe_hist. apply H1.
  - intros id t k Hh Hs. apply unsubscribe_sub_sig; [apply W|rewrite H1; exact Hh|auto].
Qed.

Lemma hist_same_remove : forall b0 b pg sid,
    broker_wf b -> hist_same b0 b -> hist_same b0 (fst (fst (broker_remove_session b pg sid))).
Proof.
  intros b0 b pg sid W [H1 H2]. split.
  - intros id. unfold has_history. rewrite remove_session_hist by exact W. apply H1.
  - intros id t k Hh Hs. apply remove_session_sub_sig; [exact W|rewrite H1; exact Hh|auto].
Qed.

Lemma hist_same_publish : forall b0 cfg lk now b pg pub req opts topic args kw,
    core_wf b -> hist_same b0 b ->
    hist_same b0 (fst (fst (publish cfg lk now b pg pub req opts topic args kw))).
Proof.
  intros b0 cfg lk now b pg pub req opts topic args kw W [H1 H2].
  destruct (publish cfg lk now b pg pub req opts topic args kw) as [[b' pg'] o] eqn:P. cbn [fst].
  apply publish_hist_ext in P; [|exact W]. destruct P as (E & _ & M). split.
  - intros id. unfold has_history. rewrite M. apply H1.
  - intros id t k Hh Hs. specialize (H2 id t k Hh Hs). unfold sub_sig in *. rewrite E. exact H2.
Qed.

Definition calls_nometa (d : dealer) : Prop := forall c x, cget (d_calls d) c = Some x -> fst c <> meta_id.

Lemma calls_nometa_sub : forall d d', calls_sub d d' -> calls_nometa d -> calls_nometa d'.
Proof. intros d d' [S _] H c x Hc. eapply H. eapply S. exact Hc. Qed.

Lemma wf_set_dealer : forall r d,
    realm_wf r -> dealer_wf (lookup r) d -> cr_nonempty (d_callee_regs d) -> calls_nometa d ->
    meta_regs_same (dealer0 (r_cfg r)) d ->
    realm_wf (r_set_dealer r d).
Proof.
  intros r d [A B C D E F G H I J K L] Wd Hc Hn Hm. constructor; cbn [r_set_dealer r_meta r_clients r_broker r_dealer r_testaments r_cfg]; auto.
Qed.

Lemma ids_below_mono : forall k k' r, ids_below k r -> k <= k' -> ids_below k' r.
Proof. intros k k' r (A & B & C) H. repeat split; try lia. intros x s E. specialize (C x s E). lia. Qed.

(** ** The registrations of the meta session are never touched by clients *)
Lemma mrs_update : forall d0 d d' id rg rg',
    meta_regs_same d0 d -> nget (d_regs d) id = Some rg -> d_regs d' = nset (d_regs d) id rg' ->
    reg_proc rg' = reg_proc rg -> reg_match rg' = reg_match rg ->
    (In meta_id (reg_callees rg) <-> In meta_id (reg_callees rg')) ->
    meta_regs_same d0 d'.
Proof.
  intros d0 d d' id rg rg' [A [B P]] Hr E Hp Hm Hi. split; [|split]; rewrite E.
  - intros id0 rg0 H0. destruct (A id0 rg0 H0) as (rg1 & H1 & P1 & M1 & I1). rewrite ngs.
    destruct (N.eqb_spec id0 id) as [->|Hn]; [|eauto].
    assert (rg1 = rg) by congruence. subst rg1. exists rg'. repeat split; try congruence. now apply Hi.
  - intros id1 rg1. rewrite ngs. destruct (N.eqb_spec id1 id) as [->|Hn]; [|apply B].
    intros H1 Hin. inversion H1; subst rg1. eapply B; [exact Hr|now apply Hi].
  - intros id1 rg1. rewrite ngs. destruct (N.eqb_spec id1 id) as [->|Hn]; [intros _; eapply P; eauto|apply P].
Qed.

Lemma mrs_add : forall d0 d d' id rg',
    meta_regs_same d0 d -> nget (d_regs d) id = None -> d_regs d' = nset (d_regs d) id rg' ->
    ~ In meta_id (reg_callees rg') -> 0 < id -> meta_regs_same d0 d'.
Proof.
  intros d0 d d' id rg' [A [B Pz]] Hn E Hi Hpos. split; [|split]; rewrite E.
  - intros id0 rg0 H0. destruct (A id0 rg0 H0) as (rg1 & H1 & P). rewrite ngs.
    destruct (N.eqb_spec id0 id) as [->|Hne]; [congruence|eauto].
  - intros id1 rg1. rewrite ngs. destruct (N.eqb_spec id1 id) as [->|Hne]; [|apply B].
    intros H1 Hin. inversion H1; subst. contradiction.
  - intros id1 rg1. rewrite ngs. destruct (N.eqb_spec id1 id) as [->|Hne]; [intros _; exact Hpos|apply Pz].
Qed.

Lemma mrs_del : forall d0 d d' id rg,
    meta_regs_same d0 d -> nget (d_regs d) id = Some rg -> ~ In meta_id (reg_callees rg) ->
    d_regs d' = ndel (d_regs d) id -> meta_regs_same d0 d'.
Proof.
  intros d0 d d' id rg [A [B P]] Hr Hi E. split; [|split]; rewrite E.
  - intros id0 rg0 H0. destruct (A id0 rg0 H0) as (rg1 & H1 & P1 & M1 & I1). rewrite ngd.
    destruct (N.eqb_spec id0 id) as [->|Hne]; [|eauto]. assert (rg1 = rg) by congruence. subst. contradiction.
  - intros id1 rg1. rewrite ngd. destruct (N.eqb_spec id1 id); [discriminate|apply B].
  - intros id1 rg1. rewrite ngd. destruct (N.eqb_spec id1 id); [discriminate|apply P].
Qed.

Lemma mrs_register : forall d0 cfg d s req opts proc,
    meta_regs_same d0 d -> regs_core d -> d_idgen d < max_idN -> s_id s <> meta_id ->
    meta_regs_same d0 (fst (fst (register cfg d s req opts proc))).
Proof.
  intros d0 cfg d s req opts proc H W Hlt Hs. unfold register.
  destruct (negb (valid_uri _ _ _)); [exact H|].
  destruct (str_prefix_wamp proc && _); [exact H|].
  destruct (negb (c_disclose cfg) && _ && _); [exact H|].
  destruct (sget (d_map d (mkind_of (opt_string opts "match"))) proc) as [id0|] eqn:Hm.
  - destruct (nget (d_regs d) id0) as [rg|] eqn:Hr.
    + destruct (negb (shared_policy _) || _ || _); [exact H|]. cbn [fst].
      destruct (rw_reg d W id0 rg Hr) as (Eid & _). rewrite Eid.
      eapply (mrs_update d0 d _ id0 rg); [exact H|exact Hr|reflexivity|reflexivity|reflexivity|].
      cbn [reg_callees]. rewrite in_app_iff. cbn [In]. split; [auto|]. intros [Hi|[Hi|[]]]; [exact Hi|congruence].
    + cbn [fst]. eapply (mrs_add d0 d _ (idgen_next (d_idgen d))); [exact H| | | |].
      * destruct (nget (d_regs d) (idgen_next (d_idgen d))) as [rg|] eqn:E; [|reflexivity].
        destruct (rw_reg d W _ _ E) as (_ & _ & Hle). rewrite idgen_next_nowrap in Hle by exact Hlt. lia.
      * destruct (mkind_of (opt_string opts "match")); reflexivity.
      * cbn [reg_callees In]. intros [Hi|[]]. congruence.
      * rewrite idgen_next_nowrap by exact Hlt. lia.
  - cbn [fst]. eapply (mrs_add d0 d _ (idgen_next (d_idgen d))); [exact H| | | |].
    + destruct (nget (d_regs d) (idgen_next (d_idgen d))) as [rg|] eqn:E; [|reflexivity].
      destruct (rw_reg d W _ _ E) as (_ & _ & Hle). rewrite idgen_next_nowrap in Hle by exact Hlt. lia.
    + destruct (mkind_of (opt_string opts "match")); reflexivity.
    + cbn [reg_callees In]. intros [Hi|[]]. congruence.
    + rewrite idgen_next_nowrap by exact Hlt. lia.
Qed.

(** registration ids stay positive whoever registers (used for the initial dealer) *)
Definition regs_pos (d : dealer) : Prop := forall id rg, nget (d_regs d) id = Some rg -> 0 < id.

Lemma regs_pos_register : forall cfg d s req opts proc,
    regs_pos d -> regs_core d -> d_idgen d < max_idN ->
    regs_pos (fst (fst (register cfg d s req opts proc))).
Proof.
  intros cfg d s req opts proc P W Hlt. unfold register.
  destruct (negb (valid_uri _ _ _)); [exact P|].
  destruct (str_prefix_wamp proc && _); [exact P|].
  destruct (negb (c_disclose cfg) && _ && _); [exact P|].
  assert (Hnew : forall d' rg', d_regs d' = nset (d_regs d) (idgen_next (d_idgen d)) rg' -> regs_pos d').
  { intros d' rg' E id rg. rewrite E, ngs. destruct (N.eqb_spec id (idgen_next (d_idgen d))) as [->|Hn]; [|apply P].
    intros _. rewrite idgen_next_nowrap by exact Hlt. lia. }
  destruct (sget (d_map d (mkind_of (opt_string opts "match"))) proc) as [id0|] eqn:Hm.
  - destruct (nget (d_regs d) id0) as [rg|] eqn:Hr.
    + destruct (negb (shared_policy _) || _ || _); [exact P|]. cbn [fst].
      destruct (rw_reg d W id0 rg Hr) as (Eid & _). rewrite Eid.
      intros id rg1. cbn [d_regs d_set_callee_regs d_set_regs]. rewrite ngs.
      destruct (N.eqb_spec id id0) as [->|Hn]; [intros _; eapply P; eauto|apply P].
    + cbn [fst]. eapply Hnew. destruct (mkind_of (opt_string opts "match")); reflexivity.
  - cbn [fst]. eapply Hnew. destruct (mkind_of (opt_string opts "match")); reflexivity.
Qed.

Lemma mrs_del_callee_reg : forall d0 d sid id,
    meta_regs_same d0 d -> sid <> meta_id -> meta_regs_same d0 (fst (del_callee_reg d sid id)).
Proof.
  intros d0 d sid id H Hs. unfold del_callee_reg.
  destruct (nget (d_regs d) id) as [rg|] eqn:Hr; [|exact H].
  destruct (negb (nmem sid (reg_callees rg))); [exact H|].
  destruct (nremove1 sid (reg_callees rg)) as [|c cs] eqn:Ec; cbn [fst].
  - eapply (mrs_del d0 d _ id rg); [exact H|exact Hr| |].
    + intros Hi. assert (Hin : In meta_id (nremove1 sid (reg_callees rg))) by (apply In_nremove1_other; [congruence|exact Hi]).
      rewrite Ec in Hin. destruct Hin.
    + destruct (mkind_of (reg_match rg)); reflexivity.
  - eapply (mrs_update d0 d _ id rg); [exact H|exact Hr|reflexivity|reflexivity|reflexivity|].
    cbn [reg_callees]. rewrite <- Ec. split.
    + intros Hi. apply In_nremove1_other; [congruence|exact Hi].
    + apply In_nremove1.
Qed.

Lemma mrs_unregister : forall d0 d sid req id,
    meta_regs_same d0 d -> sid <> meta_id -> meta_regs_same d0 (fst (fst (unregister d sid req id))).
Proof.
  intros d0 d sid req id H Hs. unfold unregister.
  pose proof (mrs_del_callee_reg d0 (d_set_callee_regs d (callee_del_reg (d_callee_regs d) sid id)) sid id
                                 (meta_regs_same_ext d0 d _ eq_refl H) Hs) as M.
  destruct (del_callee_reg _ sid id) as [d1 [deleted|]]; cbn [fst] in *; [exact M|].
  eapply meta_regs_same_ext; [|exact H]. reflexivity.
Qed.

Lemma cancel_served_regs : forall lk sid acc e,
    d_regs (fst (cancel_served lk sid acc e)) = d_regs (fst acc).
Proof.
  intros lk sid [d o] [ikey i0]. unfold cancel_served. cbn [fst].
  destruct (cget (d_invs d) ikey) as [inv|]; [|reflexivity].
  destruct (negb (inv_callee inv =? sid)); [reflexivity|].
  destruct (cget (d_calls d) (inv_call inv)) as [caller|]; [|reflexivity].
  match goal with |- context [sync_cancel ?a ?b ?c ?d0 ?e ?f ?g] =>
    pose proof (sync_cancel_regs_same a b c d0 e f g) as S; destruct (sync_cancel a b c d0 e f g) as [d3 o3] end.
  cbn [fst] in *. destruct S as (_ & _ & _ & E & _). rewrite E.
  cbn [d_regs d_set_invs]. apply ct_regs.
Qed.

Lemma drop_own_call_regs : forall sid d e, d_regs (drop_own_call sid d e) = d_regs d.
Proof.
  intros sid d [cid caller]. unfold drop_own_call.
  destruct (negb (caller =? sid)); [reflexivity|]. cbn [d_bycall d_set_calls d_invs].
  destruct (cget (d_bycall d) cid) as [ikey|]; [|reflexivity].
  destruct (cget (d_invs d) ikey) as [inv|]; cbn [d_regs d_set_invs d_set_bycall];
    rewrite ?ct_regs; reflexivity.
Qed.

Lemma mrs_remove_fold : forall d0 sid regs d mp,
    meta_regs_same d0 d -> sid <> meta_id ->
    meta_regs_same d0 (fst (fold_left (remove_callee_reg sid) regs (d, mp))).
Proof.
  intros d0 sid regs; induction regs as [|id regs IH]; intros d mp H Hs; cbn [fold_left]; [exact H|].
  destruct (remove_callee_reg sid (d, mp) id) as [d1 mp1] eqn:E. apply IH; [|exact Hs].
  unfold remove_callee_reg in E. pose proof (mrs_del_callee_reg d0 d sid id H Hs) as M.
  destruct (del_callee_reg d sid id) as [d2 [deleted|]]; inversion E; subst; cbn [fst] in M; auto.
Qed.

Lemma mrs_drs : forall d0 lk d sid,
    meta_regs_same d0 d -> sid <> meta_id ->
    meta_regs_same d0 (fst (fst (dealer_remove_session lk d sid))).
Proof.
  intros d0 lk d sid H Hs. unfold dealer_remove_session.
  pose proof (mrs_remove_fold d0 sid (match nget (d_callee_regs d) sid with Some l => l | None => [] end) d [] H Hs) as M1.
  destruct (fold_left (remove_callee_reg sid) _ (d, [])) as [d1 mp]. cbn [fst] in M1.
  assert (E2 : forall l acc, d_regs (fst (fold_left (cancel_served lk sid) l acc)) = d_regs (fst acc)).
  { induction l as [|e l IH]; intros acc; cbn [fold_left]; [reflexivity|]. rewrite IH. apply cancel_served_regs. }
  specialize (E2 (d_invs (d_set_callee_regs d1 (ndel (d_callee_regs d1) sid)))
                 (d_set_callee_regs d1 (ndel (d_callee_regs d1) sid), [])).
  destruct (fold_left (cancel_served lk sid) _ _) as [d3 o]. cbn [fst] in *.
  assert (E3 : forall l dd, d_regs (fold_left (drop_own_call sid) l dd) = d_regs dd).
  { induction l as [|e l IH]; intros dd; cbn [fold_left]; [reflexivity|]. rewrite IH. apply drop_own_call_regs. }
  eapply meta_regs_same_ext; [|exact M1]. rewrite E3, E2. reflexivity.
Qed.

(** ** Publications of the meta session and of clients *)
Lemma publish_realm_wf : forall r pub req opts topic args kw,
    realm_wf r ->
    let '(b, pg, o) := publish (r_cfg r) (lookup r) (r_now r) (r_broker r) (r_pubgen r) pub req opts topic args kw in
    realm_wf (r_set_broker r b pg) /\ b_idgen b = b_idgen (r_broker r).
Proof.
  intros r pub req opts topic args kw W.
  pose proof (publish_sess (r_cfg r) (lookup r) (r_now r) (r_broker r) (r_pubgen r) pub req opts topic args kw
                           (wf_core _ (rw_broker r W))) as S.
  destruct (publish _ _ _ _ _ _ _ _ _ _ _) as [[b pg] o] eqn:P. cbn [fst] in S.
  split.
  - apply wf_set_broker; [exact W|eapply publish_wf; [apply (rw_broker r W)|exact P]| |].
    + rewrite S. apply (rw_sess_att r W).
    + pose proof (hist_same_publish (broker0 (r_cfg r)) (r_cfg r) (lookup r) (r_now r) (r_broker r) (r_pubgen r)
                                    pub req opts topic args kw (wf_core _ (rw_broker r W)) (rw_hist r W)) as Hh.
      rewrite P in Hh. exact Hh.
  - eapply publish_idgen; [apply (wf_core _ (rw_broker r W))|exact P].
Qed.

Lemma ids_below_set_broker : forall k r b pg, ids_below k r -> b_idgen b <= k -> ids_below k (r_set_broker r b pg).
Proof. intros k r b pg (A & B & C) H. repeat split; auto. Qed.

Lemma meta_publish_wf : forall r mp k,
    realm_wf r -> ids_below k r ->
    realm_wf (fst (meta_publish r mp)) /\ ids_below k (fst (meta_publish r mp)).
Proof.
  intros r mp k W I. unfold meta_publish.
  pose proof (publish_realm_wf r (r_meta r) 0 (mp_opts mp) (mp_topic mp) (mp_args mp) (mp_kw mp) W) as P.
  destruct (publish _ _ _ _ _ _ _ _ _ _ _) as [[b pg] o]. cbn [fst]. destruct P as [P1 P2].
  split; [exact P1|]. apply ids_below_set_broker; [exact I|]. rewrite P2. apply I.
Qed.

Lemma meta_publish_all_wf : forall mps r k,
    realm_wf r -> ids_below k r ->
    realm_wf (fst (meta_publish_all r mps)) /\ ids_below k (fst (meta_publish_all r mps)).
Proof.
  induction mps as [|mp mps IH]; intros r k W I; [auto|].
  rewrite meta_publish_all_cons. destruct (meta_publish_wf r mp k W I) as [W1 I1].
  destruct (meta_publish r mp) as [r1 o1]. cbn [fst] in *.
  destruct (IH r1 k W1 I1) as [W2 I2]. destruct (meta_publish_all r1 mps) as [r2 o2]. auto.
Qed.

(** ** Departure *)
Lemma lookup_del_other : forall r sid x te,
    x <> sid -> lookup (r_set_testaments (r_set_clients r (del_session (r_clients r) sid)) te) x = lookup r x.
Proof.
  intros r sid x te H. unfold lookup. cbn [r_meta r_clients r_set_clients r_set_testaments].
  destruct (N.eqb x meta_id); [reflexivity|]. now apply find_del_other.
Qed.

Lemma client_del : forall r sid x, x <> sid -> client r x ->
    find_session (del_session (r_clients r) sid) x <> None.
Proof. intros r sid x H C. rewrite find_del_other by exact H. exact C. Qed.

Lemma In_del_session : forall l sid s, In s (del_session l sid) -> In s l /\ s_id s <> sid.
Proof.
  intros l sid s H. unfold del_session in H. apply filter_In in H. destruct H as [H1 H2].
  split; [exact H1|]. apply negb_true_iff, N.eqb_neq in H2. exact H2.
Qed.

Lemma leave_core_wf : forall r sid k,
    realm_wf r -> ids_below k r -> client r sid ->
    let r4 := fst (fst (leave_core r sid)) in
    realm_wf r4 /\ ids_below k r4 /\
    (* the leaver is in no table *)
    find_session (r_clients r4) sid = None /\ nget (r_testaments r4) sid = None /\
    nget (b_sess (r_broker r4)) sid = None /\
    (forall id s, nget (b_subs (r_broker r4)) id = Some s -> ~ In sid (sub_subs s)) /\
    nget (d_callee_regs (r_dealer r4)) sid = None /\
    (forall id rg, nget (d_regs (r_dealer r4)) id = Some rg -> ~ In sid (reg_callees rg)) /\
    (forall c x, cget (d_calls (r_dealer r4)) c = Some x -> fst c <> sid /\ x <> sid) /\
    (forall c q, cget (d_bycall (r_dealer r4)) c = Some q -> fst c <> sid /\ fst q <> sid) /\
    (forall q inv, cget (d_invs (r_dealer r4)) q = Some inv ->
                   fst q <> sid /\ inv_callee inv <> sid /\ fst (inv_call inv) <> sid).
Proof.
  intros r sid k W I C r4. subst r4. unfold leave_core.
  set (r2 := r_set_testaments (r_set_clients r (del_session (r_clients r) sid))
                              (ndel (r_testaments (r_set_clients r (del_session (r_clients r) sid))) sid)).
  assert (Hsid : sid <> meta_id).
  { intros ->. apply C. apply (rw_no_meta r W). }
  assert (Hsame : forall x, x <> sid -> lookup r2 x = lookup r x).
  { intros x Hx. unfold r2. now apply lookup_del_other. }
  pose proof (dealer_remove_session_wf (lookup r) (lookup r2) (lookup r2) (r_dealer r) sid (rw_dealer r W) Hsame) as D.
  cbv zeta in D. destruct D as (D1 & D2 & D3 & D4 & D5 & D6 & D7).
  assert (Hcr : cr_nonempty (d_callee_regs (fst (fst (dealer_remove_session (lookup r2) (r_dealer r) sid))))).
  { rewrite drs_callee_regs. apply cr_nonempty_ndel. exact (rw_cr_nonempty r W). }
  assert (Hnm : calls_nometa (fst (fst (dealer_remove_session (lookup r2) (r_dealer r) sid)))).
  { intros c x Hc. apply (drs_calls_sub (lookup r) _ _ _ (rw_dealer r W)) in Hc. eapply (rw_calls_nometa r W); eauto. }
  pose proof (mrs_drs (dealer0 (r_cfg r)) (lookup r2) (r_dealer r) sid (rw_metaregs r W) Hsid) as Hmr.
  change (r_dealer r2) with (r_dealer r).
  destruct (dealer_remove_session (lookup r2) (r_dealer r) sid) as [[d o1] mps]. cbn [fst] in *.
  change (r_broker (r_set_dealer r2 d)) with (r_broker r). change (r_pubgen (r_set_dealer r2 d)) with (r_pubgen r).
  pose proof (remove_session_sess (r_broker r) (r_pubgen r) sid) as S.
  destruct (broker_remove_session (r_broker r) (r_pubgen r) sid) as [[b pg] o2] eqn:B. cbn [fst] in *.
  pose proof (remove_session_wf _ _ _ _ _ _ (rw_broker r W) B) as Wb.
  pose proof (remove_session_idgen _ _ _ _ _ _ (rw_broker r W) B) as Ib.
  destruct (remove_session_effect _ _ _ _ _ _ (rw_broker r W) B) as (Eff & _).
  subst r2.
  cbn [r_set_broker r_clients r_testaments r_broker r_dealer r_set_dealer r_set_testaments r_set_clients r_meta].
  split; [|split].
  - constructor; cbn [r_set_broker r_clients r_testaments r_broker r_dealer r_set_dealer r_set_testaments r_set_clients r_meta r_cfg].
    + apply (rw_meta_id r W).
    + rewrite find_del_other by congruence. apply (rw_no_meta r W).
    + intros s Hs. apply In_del_session in Hs. apply (rw_ids r W). tauto.
    + exact Wb.
    + exact D1.
    + intros x Hx. rewrite S, ngd in Hx. unfold client. cbn [r_clients].
      destruct (N.eqb_spec x sid); [congruence|]. apply client_del; [exact n|]. now apply (rw_sess_att r W).
    + intros x Hx. rewrite ngd in Hx. unfold client. cbn [r_clients].
      destruct (N.eqb_spec x sid); [congruence|]. apply client_del; [exact n|]. now apply (rw_test_att r W).
    + apply NoDup_ndel. apply (rw_test_keys r W).
    + exact Hcr.
    + exact Hnm.
    + pose proof (hist_same_remove (broker0 (r_cfg r)) (r_broker r) (r_pubgen r) sid (rw_broker r W) (rw_hist r W)) as Hh.
      rewrite B in Hh. exact Hh.
    + exact Hmr.
  - destruct I as (I1 & I2 & I3). unfold ids_below.
    cbn [r_broker r_dealer r_set_broker r_set_dealer r_set_testaments r_set_clients].
    split; [lia|]. split; [lia|].
    intros x s E.
    assert (Hx : x <> sid).
    { intros ->. unfold lookup in E.
      cbn [r_meta r_clients r_set_broker r_set_dealer r_set_testaments r_set_clients] in E.
      destruct (N.eqb_spec sid meta_id); [contradiction|]. rewrite find_del_same in E. discriminate. }
    apply (I3 x s). rewrite <- (Hsame x Hx). exact E.
  - split; [apply find_del_same|]. split; [apply ngd_same|]. split; [rewrite S; apply ngd_same|].
    split.
    { intros id s Hs Hin.
      pose proof (wf_core _ Wb) as Wc.
      assert (HS : holds_sig b sid id (sub_topic s) (kind s)) by (exists s; auto).
      apply Eff in HS. destruct HS as [_ HS]. congruence. }
    split; [exact D2|]. split; [exact D4|].
    split.
    { intros c x Hc. split; [eapply D5; eauto|].
      destruct (cw_call _ (wf_calls _ _ D1) _ _ Hc) as (-> & _). eapply D5; eauto. }
    split; [exact D6|].
    intros q inv Hi. destruct (D7 _ _ Hi) as (Q1 & Q2). split; [exact Q1|]. split; [|exact Q2].
    destruct (cw_inv _ (wf_calls _ _ D1) _ _ Hi) as (_ & ->). exact Q1.
Qed.

(** meta publications change only the history stores of the broker *)
Lemma meta_publish_hist_only : forall r mp, realm_wf r ->
    exists h, r_broker (fst (meta_publish r mp)) = b_set_hist (r_broker r) h.
Proof.
  intros r mp W. unfold meta_publish.
  destruct (publish _ _ _ _ _ _ _ _ _ _ _) as [[b pg] o] eqn:P.
  apply publish_hist_ext in P; [|apply (wf_core _ (rw_broker r W))].
  destruct P as (E & _). exists (b_hist b). exact E.
Qed.

Lemma meta_publish_all_hist_only : forall mps r k, realm_wf r -> ids_below k r ->
    exists h, r_broker (fst (meta_publish_all r mps)) = b_set_hist (r_broker r) h.
Proof.
  induction mps as [|mp mps IH]; intros r k W I.
  - exists (b_hist (r_broker r)). cbn. destruct (r_broker r); reflexivity.
  - rewrite meta_publish_all_cons. destruct (meta_publish_hist_only r mp W) as (h1 & E1).
    destruct (meta_publish_wf r mp k W I) as [W1 I1].
    destruct (meta_publish r mp) as [r1 o1]. cbn [fst] in *.
    destruct (IH r1 k W1 I1) as (h2 & E2). destruct (meta_publish_all r1 mps) as [r2 o2]. cbn [fst] in *.
    exists h2. rewrite E2, E1. reflexivity.
Qed.

(** ** [leave] preserves the invariant; afterwards the leaver is in no table *)
Definition nowhere (r : realm) (sid : N) : Prop :=
  find_session (r_clients r) sid = None /\ nget (r_testaments r) sid = None /\
  nget (b_sess (r_broker r)) sid = None /\
  (forall id s, nget (b_subs (r_broker r)) id = Some s -> ~ In sid (sub_subs s)) /\
  nget (d_callee_regs (r_dealer r)) sid = None /\
  (forall id rg, nget (d_regs (r_dealer r)) id = Some rg -> ~ In sid (reg_callees rg)) /\
  (forall c x, cget (d_calls (r_dealer r)) c = Some x -> fst c <> sid /\ x <> sid) /\
  (forall c q, cget (d_bycall (r_dealer r)) c = Some q -> fst c <> sid /\ fst q <> sid) /\
  (forall q inv, cget (d_invs (r_dealer r)) q = Some inv ->
                 fst q <> sid /\ inv_callee inv <> sid /\ fst (inv_call inv) <> sid).

Theorem leave_wf : forall r sid k,
    realm_wf r -> ids_below k r ->
    realm_wf (fst (leave r sid)) /\ ids_below k (fst (leave r sid)) /\
    (client r sid -> nowhere (fst (leave r sid)) sid).
Proof.
  intros r sid k W I.
  destruct (find_session (r_clients r) sid) as [s|] eqn:F.
  - assert (C : client r sid) by (unfold client; congruence).
    rewrite (leave_event_order r sid s F).
    pose proof (leave_core_wf r sid k W I C) as L. cbv zeta in L.
    destruct (leave_core r sid) as [[r4 o12] mps]. cbn [fst] in L.
    destruct L as (W4 & I4 & N4).
    pose proof (meta_publish_all_wf (mps ++ testament_pubs r sid ++ [on_leave_pub s]) r4 k W4 I4) as [W5 I5].
    pose proof (meta_publish_all_frame (mps ++ testament_pubs r sid ++ [on_leave_pub s]) r4) as Fr.
    destruct (meta_publish_all_hist_only (mps ++ testament_pubs r sid ++ [on_leave_pub s]) r4 k W4 I4) as (h & Eh).
    destruct (meta_publish_all r4 _) as [r5 o3]. cbn [fst] in *.
    split; [exact W5|]. split; [exact I5|]. intros _.
    destruct Fr as (_ & F2 & _ & F4 & F5 & _). unfold nowhere. rewrite F2, F4, F5, Eh.
    cbn [b_sess b_subs b_set_hist]. exact N4.
  - rewrite (leave_absent r sid F). cbn [fst]. split; [exact W|]. split; [exact I|].
    intros C. exfalso. apply C. exact F.
Qed.

Lemma kill_sessions_wf : forall sids r g k,
    realm_wf r -> ids_below k r ->
    realm_wf (fst (kill_sessions r sids g)) /\ ids_below k (fst (kill_sessions r sids g)).
Proof.
  induction sids as [|sid sids IH]; intros r g k W I; [auto|].
  rewrite kill_sessions_cons. destruct (leave_wf r sid k W I) as (W1 & I1 & _).
  destruct (leave r sid) as [r1 o1]. cbn [fst] in *.
  destruct (IH r1 g k W1 I1) as [W2 I2]. destruct (kill_sessions r1 sids g) as [r2 o2]. auto.
Qed.

(** ** Joining *)
Lemma find_session_app : forall l s x,
    find_session (l ++ [s]) x =
    match find_session l x with Some y => Some y | None => if N.eqb (s_id s) x then Some s else None end.
Proof.
  induction l as [|y l IH]; intros s x; cbn; [reflexivity|].
  destruct (N.eqb (s_id y) x); [reflexivity|apply IH].
Qed.

Definition op_ok (o : op) : Prop :=
  match o with OJoin sid _ _ => 0 < sid <= max_idN | _ => True end.

Lemma join_added_wf : forall r sid l h k,
    realm_wf r -> ids_below k r -> 0 < sid <= max_idN -> lookup r sid = None ->
    let r1 := r_set_clients r (r_clients r ++ [mkSession sid l h (join_details sid l h) 0]) in
    realm_wf r1 /\ ids_below k r1.
Proof.
  intros r sid l h k W I Hsid Hl.
  assert (Hm : sid <> meta_id).
  { intros ->. unfold lookup in Hl. rewrite N.eqb_refl in Hl. discriminate. }
  assert (Hf : find_session (r_clients r) sid = None).
  { unfold lookup in Hl. destruct (N.eqb_spec sid meta_id); [contradiction|exact Hl]. }
  set (s := mkSession sid l h (join_details sid l h) 0).
  intros r1. subst r1. set (r1 := r_set_clients r (r_clients r ++ [s])).
  assert (Hle : lookup_le (lookup r) (lookup r1)).
  { intros x sx E. exists sx. split; [|lia]. unfold lookup in *. cbn [r1 r_meta r_clients r_set_clients].
    destruct (N.eqb x meta_id); [exact E|]. rewrite find_session_app, E. reflexivity. }
  assert (Hc : forall x, client r x -> client r1 x).
  { intros x C. unfold client in *. cbn [r1 r_clients r_set_clients]. rewrite find_session_app.
    destruct (find_session (r_clients r) x); [discriminate|contradiction]. }
  split.
  - destruct W as [A B C D E F' G' H' I' J' K' L']. constructor; cbn [r1 r_set_clients r_meta r_clients r_broker r_dealer r_testaments r_cfg]; auto.
    + rewrite find_session_app, B. cbn [s s_id]. destruct (N.eqb_spec sid meta_id); [contradiction|reflexivity].
    + intros x Hx. apply in_app_or in Hx. destruct Hx as [Hx|[<-|[]]]; [auto|exact Hsid].
    + eapply dealer_wf_lookup_le; [exact Hle|exact E].
  - destruct I as (I1 & I2 & I3). repeat split; auto.
    intros x sx E. unfold lookup in E. cbn [r1 r_meta r_clients r_set_clients] in E.
    destruct (N.eqb x meta_id) eqn:Ex.
    + apply (I3 x sx). unfold lookup. now rewrite Ex.
    + rewrite find_session_app in E. destruct (find_session (r_clients r) x) as [y|] eqn:Fy.
      * inversion E; subst. apply (I3 x sx). unfold lookup. now rewrite Ex.
      * destruct (N.eqb (s_id s) x); inversion E; subst. cbn. lia.
Qed.

Lemma join_wf : forall r sid l h k,
    realm_wf r -> ids_below k r -> 0 < sid <= max_idN ->
    realm_wf (fst (join r sid l h)) /\ ids_below k (fst (join r sid l h)).
Proof.
  intros r sid l h k W I Hsid. unfold join.
  destruct (negb (has_role h) || is_some (lookup r sid)) eqn:G; [auto|].
  apply orb_false_iff in G. destruct G as [_ G].
  assert (Hl : lookup r sid = None) by (destruct (lookup r sid); [discriminate|reflexivity]).
  destruct (join_added_wf r sid l h k W I Hsid Hl) as [W1 I1]. cbv zeta in W1, I1.
  match goal with |- context [meta_publish ?R ?M] => change (r_cfg r) with (r_cfg R) end.
  apply meta_publish_wf; assumption.
Qed.

(** ** Replacing a session record *)
Lemma find_put_same : forall l c, find_session l (s_id c) <> None -> find_session (put_session l c) (s_id c) = Some c.
Proof.
  induction l as [|y l IH]; intros c H; cbn in *; [congruence|].
  destruct (N.eqb_spec (s_id y) (s_id c)); cbn; [now rewrite N.eqb_refl|].
  destruct (N.eqb_spec (s_id y) (s_id c)); [contradiction|]. now apply IH.
Qed.

Lemma find_put_other : forall l c x, x <> s_id c -> find_session (put_session l c) x = find_session l x.
Proof.
  induction l as [|y l IH]; intros c x H; cbn; [reflexivity|].
  destruct (N.eqb_spec (s_id y) (s_id c)) as [E|E]; cbn.
  - destruct (N.eqb_spec (s_id c) x); [congruence|]. destruct (N.eqb_spec (s_id y) x); [congruence|reflexivity].
  - destruct (N.eqb (s_id y) x); [reflexivity|]. now apply IH.
Qed.

Lemma In_put_session : forall l c s, In s (put_session l c) -> In s l \/ (s = c /\ find_session l (s_id c) <> None).
Proof.
  induction l as [|y l IH]; intros c s; cbn; [tauto|].
  destruct (N.eqb_spec (s_id y) (s_id c)) as [E|E]; cbn.
  - intros [<-|H]; [right; split; [reflexivity|discriminate]|left; now right].
  - intros [<-|H]; [left; now left|]. destruct (IH c s H) as [H1|[H1 H2]]; [left; now right|right; auto].
Qed.

Lemma lookup_update : forall r c x, lookup r (s_id c) <> None ->
    lookup (update_session r c) x = if N.eqb x (s_id c) then Some c else lookup r x.
Proof.
  intros r c x H. unfold update_session, lookup in *.
  destruct (N.eqb_spec (s_id c) meta_id) as [E|E]; cbn [r_meta r_clients r_set_meta r_set_clients].
  - rewrite E. destruct (N.eqb x meta_id); reflexivity.
  - destruct (N.eqb_spec x (s_id c)) as [->|Hx].
    + destruct (N.eqb_spec (s_id c) meta_id); [contradiction|]. now apply find_put_same.
    + destruct (N.eqb x meta_id); [reflexivity|]. now apply find_put_other.
Qed.

Lemma update_session_frame : forall r c,
    r_cfg (update_session r c) = r_cfg r /\ r_testaments (update_session r c) = r_testaments r /\
    r_broker (update_session r c) = r_broker r /\ r_dealer (update_session r c) = r_dealer r /\
    r_metaprocs (update_session r c) = r_metaprocs r /\ r_now (update_session r c) = r_now r /\
    r_pubgen (update_session r c) = r_pubgen r.
Proof. intros. unfold update_session. destruct (s_id c =? meta_id); repeat split. Qed.

Lemma update_session_wf : forall r c c0 k k',
    realm_wf r -> lookup r (s_id c) = Some c0 -> s_invgen c0 <= s_invgen c ->
    realm_wf (update_session r c) /\
    (ids_below k r -> s_invgen c <= k' -> k <= k' -> ids_below k' (update_session r c)).
Proof.
  intros r c c0 k k' W Hl Hle.
  assert (Ha : lookup r (s_id c) <> None) by congruence.
  pose proof (lookup_update r c) as LU.
  destruct (update_session_frame r c) as (F1 & F2 & F3 & F4 & F5 & F6 & F7).
  assert (Hlle : lookup_le (lookup r) (lookup (update_session r c))).
  { intros x sx E. rewrite (LU x Ha). destruct (N.eqb_spec x (s_id c)) as [->|Hx].
    - exists c. split; [reflexivity|]. rewrite Hl in E. inversion E; subst. exact Hle.
    - exists sx. split; [exact E|lia]. }
  assert (Hcl : forall x, client r x -> client (update_session r c) x).
  { intros x C. unfold client, update_session in *. destruct (s_id c =? meta_id); [exact C|].
    cbn [r_clients r_set_clients]. destruct (N.eq_dec x (s_id c)) as [->|Hx].
    - rewrite find_put_same; [discriminate|exact C].
    - now rewrite find_put_other. }
  split.
  - destruct W as [A B C D E F G H I J K L].
    constructor; rewrite ?F1, ?F2, ?F3, ?F4; auto.
    + unfold update_session. destruct (N.eqb_spec (s_id c) meta_id) as [Em|Em]; [exact Em|exact A].
    + unfold update_session. destruct (N.eqb_spec (s_id c) meta_id) as [Em|Em]; [exact B|].
      cbn [r_clients r_set_clients]. rewrite find_put_other by congruence. exact B.
    + intros s Hs. unfold update_session in Hs. destruct (N.eqb_spec (s_id c) meta_id) as [Em|Em]; [now apply C|].
      cbn [r_clients r_set_clients] in Hs. apply In_put_session in Hs. destruct Hs as [Hs|[-> Hs]]; [now apply C|].
      destruct (find_session (r_clients r) (s_id c)) as [y|] eqn:Fy; [|congruence].
      rewrite <- (find_session_id _ _ _ Fy). apply C. eapply find_session_In; eauto.
    + eapply dealer_wf_lookup_le; [exact Hlle|exact E].
  - intros (I1 & I2 & I3) Hk Hkk. unfold ids_below. rewrite F3, F4. split; [lia|]. split; [lia|].
    intros x sx E. rewrite (LU x Ha) in E. destruct (N.eqb x (s_id c)).
    + inversion E; subst. exact Hk.
    + specialize (I3 x sx E). lia.
Qed.

(** ** The meta procedures *)
Definition caller_opt (details : dict) : option N :=
  match dget details "caller" with Some v => as_id v | None => None end.

Lemma meta_call_cases : forall r proc det args kw oracle,
    let r' := realm_of (meta_call r proc det args kw oracle) in
    r' = r \/
    (exists sid s dd, find_session (r_clients r) sid = Some s /\ N.eqb sid meta_id = false /\
                      r' = update_session r (set_details s dd)) \/
    (exists c p, caller_opt det = Some c /\
                 (r' = r_set_testaments r (nset (r_testaments r) c p) \/
                  r' = r_set_testaments r (ndel (r_testaments r) c))).
Proof.
  intros r proc det args kw oracle. cbv zeta. unfold meta_call, realm_of, caller_opt.
  brk; cbn [fst snd];
    first [ left; reflexivity
          | right; left; do 3 eexists; split; [eassumption|split; [eassumption|reflexivity]]
          | right; right; do 2 eexists; split; [reflexivity|left; reflexivity]
          | right; right; eexists; exists ([], []); split; [reflexivity|right; reflexivity]
          | right; right; do 2 eexists; split; [reflexivity|right; reflexivity] ].
Qed.

Lemma meta_call_wf : forall r proc det args kw oracle k,
    realm_wf r -> ids_below k r ->
    (forall c, caller_opt det = Some c -> client r c) ->
    realm_wf (realm_of (meta_call r proc det args kw oracle)) /\
    ids_below k (realm_of (meta_call r proc det args kw oracle)).
Proof.
  intros r proc det args kw oracle k W I Hc.
  destruct (meta_call_cases r proc det args kw oracle) as [E|[(sid & s & dd & F & Hm & E)|(c & p & Ec & E)]];
    cbv zeta in E.
  - rewrite E. auto.
  - rewrite E. apply N.eqb_neq in Hm.
    assert (Hl : lookup r (s_id (set_details s dd)) = Some s).
    { cbn [set_details s_id]. rewrite (find_session_id _ _ _ F). unfold lookup.
      destruct (N.eqb_spec sid meta_id); [contradiction|exact F]. }
    destruct (update_session_wf r (set_details s dd) s k k W Hl (N.le_refl _)) as [W' I'].
    split; [exact W'|]. apply I'; [exact I| |lia].
    destruct I as (_ & _ & I3). apply (I3 _ _ Hl).
  - specialize (Hc c Ec).
    assert (G : forall te, (forall x, nget te x <> None -> x = c \/ nget (r_testaments r) x <> None) ->
                           NoDup (map fst te) -> realm_wf (r_set_testaments r te) /\ ids_below k (r_set_testaments r te)).
    { intros te Hk Hn. split; [|exact I]. destruct W as [A B C D E' F G H I' J K L].
      constructor; cbn [r_set_testaments r_meta r_clients r_broker r_dealer r_testaments r_cfg]; auto.
      intros x Hx. destruct (Hk x Hx) as [->|Hx']; [exact Hc|now apply G]. }
    destruct E as [E|E]; rewrite E; apply G.
    + intros x. rewrite ngs. destruct (N.eqb_spec x c); auto.
    + apply NoDup_nset. apply (rw_test_keys r W).
    + intros x. rewrite ngd. destruct (N.eqb_spec x c); auto.
    + apply NoDup_ndel. apply (rw_test_keys r W).
Qed.

(** ** Dealer operations that only touch the call tables *)
Lemma dealer_step_wf : forall r d' k,
    realm_wf r -> ids_below k r -> dealer_wf (lookup r) d' ->
    d_callee_regs d' = d_callee_regs (r_dealer r) -> d_idgen d' = d_idgen (r_dealer r) ->
    d_regs d' = d_regs (r_dealer r) ->
    calls_sub (r_dealer r) d' ->
    realm_wf (r_set_dealer r d') /\ ids_below k (r_set_dealer r d').
Proof.
  intros r d' k W I Wd Ecr Eid Ereg S. split.
  - apply wf_set_dealer; auto.
    + rewrite Ecr. exact (rw_cr_nonempty r W).
    + eapply calls_nometa_sub; [exact S|exact (rw_calls_nometa r W)].
    + eapply meta_regs_same_ext; [exact Ereg|exact (rw_metaregs r W)].
  - destruct I as (I1 & I2 & I3). repeat split; cbn [r_set_dealer r_broker r_dealer]; auto. lia.
Qed.

Lemma drop_call_cr : forall d c k, d_callee_regs (drop_call d c k) = d_callee_regs d.
Proof. reflexivity. Qed.
Lemma drop_call_idgen : forall d c k, d_idgen (drop_call d c k) = d_idgen d.
Proof. reflexivity. Qed.

Lemma drop_call_regs : forall d c k, d_regs (drop_call d c k) = d_regs d.
Proof. reflexivity. Qed.

Lemma sync_yield_frame : forall lk d callee req opts args kw,
    d_callee_regs (fst (sync_yield lk d callee req opts args kw)) = d_callee_regs d /\
    d_idgen (fst (sync_yield lk d callee req opts args kw)) = d_idgen d /\
    d_regs (fst (sync_yield lk d callee req opts args kw)) = d_regs d.
Proof.
  intros. unfold sync_yield.
  destruct (cget (d_invs d) (callee, req)) as [inv|]; [|auto].
  destruct (opt_bool opts "progress").
  - repeat match goal with
           | |- context [match cget ?a ?b with _ => _ end] => destruct (cget a b)
           | |- context [if ?c then _ else _] => destruct c
           end; cbn [fst]; auto.
  - repeat match goal with
           | |- context [match cget ?a ?b with _ => _ end] => destruct (cget a b)
           | |- context [if ?c then _ else _] => destruct c
           end; cbn [fst];
      rewrite ?drop_call_cr, ?drop_call_idgen, ?drop_call_regs; cbn [d_callee_regs d_idgen d_regs d_set_invs];
      rewrite ?ct_callee_regs, ?ct_idgen, ?ct_regs; auto.
Qed.

Lemma sync_error_frame : forall d callee req det err args kw,
    d_callee_regs (fst (sync_error d callee req det err args kw)) = d_callee_regs d /\
    d_idgen (fst (sync_error d callee req det err args kw)) = d_idgen d /\
    d_regs (fst (sync_error d callee req det err args kw)) = d_regs d.
Proof.
  intros. unfold sync_error.
  destruct (cget (d_invs d) (callee, req)) as [inv|]; [|auto].
  match goal with |- context [cget (d_calls ?D) ?c] => destruct (cget (d_calls D) c) end; cbn [fst];
    cbn [d_callee_regs d_idgen d_regs d_set_invs d_set_bycall d_set_calls]; rewrite ?ct_callee_regs, ?ct_idgen, ?ct_regs; auto.
Qed.

Lemma sync_yield_realm_wf : forall r lk callee req opts args kw k,
    realm_wf r -> ids_below k r ->
    realm_wf (r_set_dealer r (fst (sync_yield lk (r_dealer r) callee req opts args kw))) /\
    ids_below k (r_set_dealer r (fst (sync_yield lk (r_dealer r) callee req opts args kw))).
Proof.
  intros. destruct (sync_yield_frame lk (r_dealer r) callee req opts args kw) as (E1 & E2 & E3).
  apply dealer_step_wf; auto.
  - apply sync_yield_wf. apply (rw_dealer r H).
  - apply sync_yield_core. apply (wf_calls _ _ (rw_dealer r H)).
Qed.

Lemma sync_error_realm_wf : forall r callee req det err args kw k,
    realm_wf r -> ids_below k r ->
    realm_wf (r_set_dealer r (fst (sync_error (r_dealer r) callee req det err args kw))) /\
    ids_below k (r_set_dealer r (fst (sync_error (r_dealer r) callee req det err args kw))).
Proof.
  intros. destruct (sync_error_frame (r_dealer r) callee req det err args kw) as (E1 & E2 & E3).
  apply dealer_step_wf; auto.
  - apply sync_error_wf. apply (rw_dealer r H).
  - apply sync_error_core. apply (wf_calls _ _ (rw_dealer r H)).
Qed.

Lemma meta_call_dealer : forall r proc det args kw oracle,
    r_dealer (realm_of (meta_call r proc det args kw oracle)) = r_dealer r.
Proof.
  intros. destruct (meta_call_cases r proc det args kw oracle) as [E|[(sid & s & dd & F & Hm & E)|(c & p & Ec & [E|E])]];
    cbv zeta in E; rewrite E; try reflexivity.
  apply update_session_frame.
Qed.

Lemma run_meta_invocation_wf : forall r o oracle k,
    realm_wf r -> ids_below k r ->
    (forall rcv invid regid det args kw, o = [(rcv, RInvocation invid regid det args kw)] ->
                                          forall c, caller_opt det = Some c -> client r c) ->
    realm_wf (fst (run_meta_invocation r o oracle)) /\ ids_below k (fst (run_meta_invocation r o oracle)).
Proof.
  intros r o oracle k W I Hc. unfold run_meta_invocation.
  destruct o as [|[rcv m] l]; [auto|]. destruct m; auto. destruct l; [|auto].
  destruct (negb (rcv =? meta_id)); [auto|].
  specialize (Hc rcv req reg details args kw eq_refl).
  destruct (nget (r_metaprocs r) reg) as [proc|].
  - destruct (meta_call_wf r proc details args kw oracle k W I Hc) as [W1 I1].
    destruct (meta_call r proc details args kw oracle) as [[r1 resp] kills]. unfold realm_of in *. cbn [fst] in *.
    assert (G : forall d o1, (d, o1) = match resp with
                                        | MYield a k0 => sync_yield (lookup r1) (r_dealer r1) meta_id req [] a k0
                                        | MError e => sync_error (r_dealer r1) meta_id req [] e [] []
                                        end -> realm_wf (r_set_dealer r1 d) /\ ids_below k (r_set_dealer r1 d)).
    { intros d o1 E. destruct resp.
      - pose proof (sync_yield_realm_wf r1 (lookup r1) meta_id req [] args0 kw0 k W1 I1) as Y.
        rewrite <- E in Y. exact Y.
      - pose proof (sync_error_realm_wf r1 meta_id req [] err [] [] k W1 I1) as Y.
        rewrite <- E in Y. exact Y. }
    destruct (match resp with MYield a k0 => _ | MError e => _ end) as [d o1].
    destruct (G d o1 eq_refl) as [W2 I2].
    destruct kills as [[sids g]|]; [|auto].
    destruct (kill_sessions_wf sids (r_set_dealer r1 d) g k W2 I2) as [W3 I3].
    destruct (kill_sessions (r_set_dealer r1 d) sids g). auto.
  - pose proof (sync_error_realm_wf r meta_id req [] e_no_such_procedure [] [] k W I) as Y.
    destruct (sync_error (r_dealer r) meta_id req [] e_no_such_procedure [] []). exact Y.
Qed.

(** ** CALL *)
Lemma dget_disclose_caller : forall sid det d0,
    dget (disclose_dict "caller" sid det d0) "caller" = Some (vid sid).
Proof.
  intros. unfold disclose_dict.
  destruct (dget det "authid"); destruct (dget det "authrole"); rewrite ?dget_dset; reflexivity.
Qed.

Lemma dget_ppt_into_caller : forall opts d, dget (ppt_into opts d) "caller" = dget d "caller".
Proof.
  intros opts d. unfold ppt_into, ppt_keys. cbn [fold_left].
  repeat match goal with
         | |- context [match dget opts ?k with _ => _ end] => destruct (dget opts k) as [?v|]
         | |- context [match as_string ?v with _ => _ end] => destruct (as_string v)
         end; rewrite ?dget_dset; reflexivity.
Qed.

Lemma call_details_caller : forall cfg caller callee callee_id rg opts proc,
    dget (call_details cfg caller callee callee_id rg opts proc) "caller" = None \/
    dget (call_details cfg caller callee callee_id rg opts proc) "caller" = Some (vid (s_id caller)).
Proof.
  intros. unfold call_details.
  repeat match goal with |- context [if ?c then _ else _] => destruct c end;
    rewrite ?dget_dset; cbn [String.eqb Ascii.eqb Bool.eqb];
    rewrite ?dget_disclose_caller, ?dget_ppt_into_caller; auto.
Qed.

Lemma as_id_vid : forall n c, n <= max_idN -> as_id (vid n) = Some c -> c = n.
Proof.
  intros n c Hn. unfold as_id, vid, as_int64, to_int64.
  assert (E : ((Z.of_N n + two63) mod two64 - two63 = Z.of_N n)%Z).
  { unfold two63, two64, max_idN in *. rewrite Z.mod_small; lia. }
  rewrite E. destruct ((0 <? Z.of_N n)%Z && (Z.of_N n <=? max_id)%Z); [|discriminate].
  intros H; inversion H. apply N2Z.id.
Qed.

Lemma idgen_next_le : forall n, n < max_idN -> n <= idgen_next n <= n + 1.
Proof. intros n H. rewrite idgen_next_nowrap by exact H. lia. Qed.

Lemma nps_frame : forall d cid,
    d_callee_regs (no_proc_state d cid) = d_callee_regs d /\ d_idgen (no_proc_state d cid) = d_idgen d /\
    d_regs (no_proc_state d cid) = d_regs d /\
    (forall c x, cget (d_calls (no_proc_state d cid)) c = Some x -> cget (d_calls d) c = Some x).
Proof.
  intros d cid. unfold no_proc_state.
  destruct (cget (d_bycall d) cid) as [k|]; [|auto].
  destruct (cget (d_invs d) k) as [inv|];
    rewrite ?drop_call_cr, ?drop_call_idgen, ?drop_call_regs, ?ct_callee_regs, ?ct_idgen, ?ct_regs;
    (repeat split; try reflexivity); intros c x; rewrite dc_calls, ?ct_calls, cget_cdel;
    destruct (pair_eqb c cid); [discriminate|auto|discriminate|auto].
Qed.

Lemma call_facts : forall cfg lk now d caller req opts proc args kw oracle,
    lookup_ok lk -> nowrap lk ->
    match call cfg lk now d caller req opts proc args kw oracle with
    | CallRefused d' o => d_callee_regs d' = d_callee_regs d /\ d_idgen d' = d_idgen d /\
                          (forall c x, cget (d_calls d') c = Some x -> cget (d_calls d) c = Some x)
    | CallAbort _ => True
    | CallInvoked d' callee' o =>
        (exists callee0, lk (s_id callee') = Some callee0 /\
                         s_invgen callee0 <= s_invgen callee' <= s_invgen callee0 + 1) /\
        d_callee_regs d' = d_callee_regs d /\ d_idgen d' = d_idgen d /\
        (forall c x, cget (d_calls d') c = Some x -> c = (s_id caller, req) \/ cget (d_calls d) c = Some x) /\
        exists rcv invid regid det, o = [(rcv, RInvocation invid regid det args kw)] /\
          (dget det "caller" = None \/ dget det "caller" = Some (vid (s_id caller))) /\ lk rcv <> None
    end.
Proof.
  intros cfg lk now d caller req opts proc args kw oracle LOK NW.
  pose proof (call_cases cfg lk now d caller req opts proc args kw oracle) as H.
  inversion H; subst; auto;
    try (unfold call_d0; cbn [d_callee_regs d_idgen d_calls d_set_regs]; auto; fail);
    try (split; [reflexivity|split; [reflexivity|auto]]; fail);
    try (destruct (nps_frame d (s_id caller, req)) as (N1 & N2 & N3 & N4); auto; fail).
  - (* chunk *)
    match goal with Hl : lk (inv_callee inv) = Some callee |- _ => rename Hl into Hlk end.
    split; [exists callee; rewrite (LOK _ _ Hlk); split; [exact Hlk|lia]|].
    rewrite chs_callee_regs, chs_idgen. split; [reflexivity|]. split; [reflexivity|].
    split; [intros c x; rewrite chs_calls; auto|].
    do 4 eexists. split; [reflexivity|]. split; [left; reflexivity|]. rewrite (LOK _ _ Hlk). congruence.
  - (* first *)
    match goal with Hl : lk callee_id = Some callee |- _ => rename Hl into Hlk end.
    cbn [set_invgen s_id s_invgen].
    split; [exists callee; rewrite (LOK _ _ Hlk); split; [exact Hlk|apply idgen_next_le; eapply NW; eauto]|].
    rewrite cfs_callee_regs, cfs_idgen. split; [reflexivity|]. split; [reflexivity|].
    split.
    + intros c x. rewrite cfs_calls, cget_cset. destruct (pair_eqb_spec c (s_id caller, req)); auto.
    + do 4 eexists. split; [reflexivity|]. split; [apply call_details_caller|congruence].
Qed.

(** ** Timers, CANCEL *)
Lemma cancel_frame : forall lk d caller req opts,
    d_callee_regs (fst (cancel lk d caller req opts)) = d_callee_regs d /\
    d_idgen (fst (cancel lk d caller req opts)) = d_idgen d /\
    d_regs (fst (cancel lk d caller req opts)) = d_regs d.
Proof.
  intros. unfold cancel.
  destruct (_ || _ || _).
  - destruct (sync_cancel_regs_same lk d caller req (opt_string opts "mode") e_canceled []) as (_ & _ & _ & G & E & F). auto.
  - destruct (String.eqb _ ""); [|auto].
    destruct (sync_cancel_regs_same lk d caller req "killnowait" e_canceled []) as (_ & _ & _ & G & E & F). auto.
Qed.

Lemma fire_timers_frame : forall lk now d,
    d_callee_regs (fst (fire_timers lk now d)) = d_callee_regs d /\
    d_idgen (fst (fire_timers lk now d)) = d_idgen d /\
    d_regs (fst (fire_timers lk now d)) = d_regs d /\
    (calls_core d -> calls_sub d (fst (fire_timers lk now d))).
Proof.
  intros lk now d. rewrite fire_timers_fold.
  assert (G : forall l d o,
             d_callee_regs (fst (fold_left (fire_step lk) l (d, o))) = d_callee_regs d /\
             d_idgen (fst (fold_left (fire_step lk) l (d, o))) = d_idgen d /\
             d_regs (fst (fold_left (fire_step lk) l (d, o))) = d_regs d /\
             (calls_core d -> calls_sub d (fst (fold_left (fire_step lk) l (d, o))))); [|apply G].
  clear d. induction l as [|e l IH]; intros d o; cbn [fold_left].
  - cbn [fst]. split; [reflexivity|]. split; [reflexivity|]. split; [reflexivity|]. intros _. apply calls_sub_refl.
  - destruct (fire_step lk (d, o) e) as [d1 o1] eqn:E.
    pose proof (fire_step_regs_same lk d o e) as R. pose proof (fire_step_core lk d o e) as C.
    rewrite E in R, C. cbn [fst] in R, C.
    destruct (IH d1 o1) as (I1 & I2 & I4 & I3). destruct R as (_ & _ & _ & R4 & R5 & R6).
    split; [congruence|]. split; [congruence|]. split; [congruence|].
    intros W. destruct (C W) as [W1 S1]. eapply calls_sub_trans; [exact S1|]. now apply I3.
Qed.
