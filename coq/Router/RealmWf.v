(** * Realm-level proofs, part 4: the reachable-state invariant [realm_wf]
    (C05, C18 listed_fetchable).  It assembles the broker invariant
    ([BrokerWf.broker_wf]) and the dealer invariant ([DealerProofs.dealer_wf],
    relative to the realm's own session lookup) with what the realm itself
    owns: every key of a per-session table names an attached session. *)
From Nexus Require Import Router.Realm Router.AssocLemmas Router.RealmLib Router.RealmProofs
     Router.RealmMetaProofs Router.RealmLeave.
From Nexus Require Import Router.BrokerWf Router.BrokerPres Router.BrokerSub.
From Nexus Require Import Router.DealerLib Router.DealerProofs Router.DealerCall Router.DealerWf.
From Coq Require Import Lia ZifyN ZifyBool.

Definition client (r : realm) (sid : N) : Prop := find_session (r_clients r) sid <> None.

Record realm_wf (r : realm) : Prop := mkRealmWf {
  rw_meta_id : s_id (r_meta r) = meta_id;
  rw_no_meta : find_session (r_clients r) meta_id = None;
  rw_ids : forall s, In s (r_clients r) -> s_id s <= max_idN;
  rw_broker : broker_wf (r_broker r);
  rw_dealer : dealer_wf (lookup r) (r_dealer r);
  (* per-session tables name attached sessions only *)
  rw_sess_att : forall sid, nget (b_sess (r_broker r)) sid <> None -> client r sid;
  rw_test_att : forall sid, nget (r_testaments r) sid <> None -> client r sid;
  rw_test_keys : NoDup (map fst (r_testaments r));
  rw_cr_nonempty : forall sid ids, nget (d_callee_regs (r_dealer r)) sid = Some ids -> ids <> []
}.

(** the id generators stay below [k] (ids wrap around at 2^53; the invariant
    is proved for histories that do not reach the wrap-around) *)
Definition ids_below (k : N) (r : realm) : Prop :=
  b_idgen (r_broker r) <= k /\ d_idgen (r_dealer r) <= k /\
  forall x s, lookup r x = Some s -> s_invgen s <= k.

Lemma lookup_ok_realm : forall r, s_id (r_meta r) = meta_id -> lookup_ok (lookup r).
Proof.
  intros r H sid s. unfold lookup. destruct (N.eqb_spec sid meta_id) as [->|N].
  - intros E; inversion E; subst; exact H.
  - apply find_session_id.
Qed.

Lemma nowrap_below : forall k r, ids_below k r -> k < max_idN -> nowrap (lookup r).
Proof. intros k r (_ & _ & H) Hk x s E. specialize (H x s E). lia. Qed.

(** ** Frame lemmas about the broker's per-session table *)
Lemma sess_add_sub_keys : forall l sid id x,
    nget (sess_add_sub l sid id) x <> None -> x = sid \/ nget l x <> None.
Proof.
  intros l sid id x. unfold sess_add_sub.
  destruct (nget l sid) as [ids|] eqn:G.
  - destruct (nmem id ids); [auto|]. rewrite ngs. destruct (N.eqb_spec x sid); auto.
  - rewrite ngs. destruct (N.eqb_spec x sid); auto.
Qed.

Lemma sess_del_sub_keys : forall l sid id x, nget (sess_del_sub l sid id) x <> None -> nget l x <> None.
Proof.
  intros l sid id x. unfold sess_del_sub.
  destruct (nget l sid) as [ids|] eqn:G; [|auto].
  destruct (nremove id ids).
  - rewrite ngd. destruct (N.eqb_spec x sid); [congruence|auto].
  - rewrite ngs. destruct (N.eqb_spec x sid); [subst; congruence|auto].
Qed.

Lemma subscribe_sess_keys : forall cfg b pg sid req opts topic x,
    nget (b_sess (fst (fst (subscribe cfg b pg sid req opts topic)))) x <> None ->
    x = sid \/ nget (b_sess b) x <> None.
Proof.
  intros cfg b pg sid req opts topic x. unfold subscribe.
  destruct (negb (valid_uri _ _ _)); [auto|].
  destruct (init_subscription b topic (opt_string opts "match") (Some sid)) as [[b1 s] ex] eqn:I.
  assert (E : b_sess b1 = b_sess b).
  { unfold init_subscription in I. destruct (sget _ _) as [id|].
    - destruct (nget (b_subs b) id); inversion I; reflexivity.
    - inversion I; subst. destruct (mkind_of (opt_string opts "match")); reflexivity. }
  destruct (ex && nmem sid (sub_subs s)).
  - cbn [fst]. rewrite E. auto.
  - destruct (if ex then _ else _) as [pg1 o2]. cbn [fst b_sess b_set_sess b_set_subs].
    rewrite E. apply sess_add_sub_keys.
Qed.

Lemma del_subscription_sess : forall b s, b_sess (del_subscription b s) = b_sess b.
Proof. intros b s. unfold del_subscription. destruct (mkind_of (sub_match s)); reflexivity. Qed.

Lemma unsubscribe_sess_keys : forall b pg sid req subid x,
    nget (b_sess (fst (fst (unsubscribe b pg sid req subid)))) x <> None -> nget (b_sess b) x <> None.
Proof.
  intros b pg sid req subid x. unfold unsubscribe.
  destruct (nget (b_subs b) subid) as [s|]; [|auto].
  destruct (negb (nmem sid (sub_subs s))); [auto|].
  match goal with |- context [if ?d then del_subscription _ _ else _] => destruct d end;
    cbn [fst b_sess b_set_sess]; rewrite ?del_subscription_sess; cbn [b_sess b_set_subs]; apply sess_del_sub_keys.
Qed.

Lemma remove_session_sub_sess : forall sid acc id,
    b_sess (fst (fst (remove_session_sub sid acc id))) = b_sess (fst (fst acc)).
Proof.
  intros sid [[b pg] o] id. unfold remove_session_sub.
  destruct (nget (b_subs b) id) as [s|]; [|reflexivity].
  match goal with |- context [if ?d then _ else _] => destruct d end; cbn [fst].
  - apply del_subscription_sess.
  - reflexivity.
Qed.

Lemma remove_session_sess : forall b pg sid,
    b_sess (fst (fst (broker_remove_session b pg sid))) = ndel (b_sess b) sid.
Proof.
  intros b pg sid. unfold broker_remove_session.
  destruct (nget (b_sess b) sid) as [ids|] eqn:G.
  - assert (H : forall ids acc, b_sess (fst (fst (fold_left (remove_session_sub sid) ids acc))) = b_sess (fst (fst acc))).
    { induction ids0 as [|id ids0 IH]; intros acc; cbn [fold_left]; [reflexivity|].
      rewrite IH. apply remove_session_sub_sess. }
    rewrite H. reflexivity.
  - cbn [fst]. symmetry. now apply ndel_absent.
Qed.

Lemma publish_sess : forall cfg lk now b pg pub req opts topic args kw,
    core_wf b -> b_sess (fst (fst (publish cfg lk now b pg pub req opts topic args kw))) = b_sess b.
Proof.
  intros. destruct (publish cfg lk now b pg pub req opts topic args kw) as [[b' pg'] o] eqn:P.
  apply publish_hist_ext in P; [|assumption]. destruct P as (E & _). cbn [fst]. rewrite E. reflexivity.
Qed.

(** ** Frame lemmas about the dealer's per-callee table *)
Definition cr_nonempty (l : list (N * list N)) : Prop := forall sid ids, nget l sid = Some ids -> ids <> [].

Lemma callee_add_reg_nonempty : forall l sid id, cr_nonempty l -> cr_nonempty (callee_add_reg l sid id).
Proof.
  intros l sid id H x ids. unfold callee_add_reg.
  destruct (nget l sid) as [ids0|] eqn:G.
  - destruct (nmem id ids0); [apply H|]. rewrite ngs. destruct (N.eqb_spec x sid); [|apply H].
    intros E; inversion E. destruct ids0; discriminate.
  - rewrite ngs. destruct (N.eqb_spec x sid); [|apply H]. intros E; inversion E; discriminate.
Qed.

Lemma callee_del_reg_nonempty : forall l sid id, cr_nonempty l -> cr_nonempty (callee_del_reg l sid id).
Proof.
  intros l sid id H x ids. unfold callee_del_reg.
  destruct (nget l sid) as [ids0|] eqn:G; [|apply H].
  destruct (nremove id ids0) eqn:R.
  - rewrite ngd. destruct (N.eqb_spec x sid); [discriminate|apply H].
  - rewrite ngs. destruct (N.eqb_spec x sid); [|apply H]. intros E; inversion E; discriminate.
Qed.

Lemma register_cr_nonempty : forall cfg d s req opts proc,
    cr_nonempty (d_callee_regs d) -> cr_nonempty (d_callee_regs (fst (fst (register cfg d s req opts proc)))).
Proof.
  intros cfg d s req opts proc H. unfold register.
  destruct (negb (valid_uri _ _ _)); [exact H|].
  destruct (str_prefix_wamp proc && _); [exact H|].
  destruct (negb (c_disclose cfg) && _ && _); [exact H|].
  destruct (match sget _ _ with Some id => nget (d_regs d) id | None => None end) as [rg|].
  - destruct (negb (shared_policy _) || _ || _); [exact H|].
    cbn [fst d_callee_regs d_set_callee_regs d_set_regs]. now apply callee_add_reg_nonempty.
  - cbn [fst d_callee_regs d_set_callee_regs].
    destruct (mkind_of (opt_string opts "match")); cbn [d_callee_regs d_set_map d_set_regs d_set_idgen];
      now apply callee_add_reg_nonempty.
Qed.

Lemma del_callee_reg_cr : forall d sid id, d_callee_regs (fst (del_callee_reg d sid id)) = d_callee_regs d.
Proof.
  intros d sid id. unfold del_callee_reg.
  destruct (nget (d_regs d) id) as [rg|]; [|reflexivity].
  destruct (negb (nmem sid (reg_callees rg))); [reflexivity|].
  destruct (nremove1 sid (reg_callees rg)); [|reflexivity].
  destruct (mkind_of (reg_match rg)); reflexivity.
Qed.

Lemma unregister_cr_nonempty : forall d sid req id,
    cr_nonempty (d_callee_regs d) -> cr_nonempty (d_callee_regs (fst (fst (unregister d sid req id)))).
Proof.
  intros d sid req id H. unfold unregister.
  pose proof (del_callee_reg_cr (d_set_callee_regs d (callee_del_reg (d_callee_regs d) sid id)) sid id) as E.
  destruct (del_callee_reg _ sid id) as [d1 [deleted|]]; cbn [fst] in *.
  - rewrite E. cbn [d_callee_regs d_set_callee_regs]. now apply callee_del_reg_nonempty.
  - cbn [d_callee_regs d_set_callee_regs]. now apply callee_del_reg_nonempty.
Qed.
