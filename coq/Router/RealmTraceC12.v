(** * Histories of the whole model, C12 part 6: the history theorems.

    For every history [ops = pre ++ o :: post] of a realm created with [cfg]
    (side hypotheses of the reachable-state theorems), with
    [r = fst (run (init_realm cfg) pre)] the state before the step [o]:
    [realm_no_identity_leak_event_proof], [..._invocation_proof] (and the
    [_noauthz] readings), [realm_invocation_identity_iff_proof],
    [realm_disclose_flag_origin_proof]. *)
From Nexus Require Import Router.Realm Router.AssocLemmas Router.RealmLib Router.RealmProofs
     Router.RealmMetaProofs Router.RealmLeave.
From Nexus Require Import Router.DealerLib Router.DealerProofs Router.DealerWf.
From Nexus Require Import Router.RealmWf Router.RealmStep Router.RealmIdle.
From Nexus Require Import Router.RealmTraceLib Router.RealmTrace Router.RealmTraceC05.
From Nexus Require Import Router.RealmTraceC12Dealer Router.RealmTraceC12Ev Router.RealmTraceC12Step
     Router.RealmTraceC12Inv Router.RealmTraceC12Reg.
From Coq Require Import Lia ZifyN ZifyNat ZifyBool.

Lemma reach_prefix : forall cfg pre o post,
    Forall op_ok (pre ++ o :: post) -> k0 cfg + N.of_nat (List.length (pre ++ o :: post)) <= max_idN ->
    Forall op_ok pre /\ k0 cfg + N.of_nat (List.length pre) <= max_idN /\
    realm_wf (fst (run (init_realm cfg) pre)) /\ meta_fixed (fst (run (init_realm cfg) pre)) /\
    r_cfg (fst (run (init_realm cfg) pre)) = cfg.
Proof.
  intros cfg pre o post Ho Hk. apply Forall_app in Ho. destruct Ho as [Ho1 _].
  rewrite app_length in Hk. cbn [List.length] in Hk.
  assert (Hk1 : k0 cfg + N.of_nat (List.length pre) <= max_idN) by lia.
  split; [exact Ho1|]. split; [exact Hk1|].
  split; [now apply reachable_realm_wf|]. split; [now apply run_meta_fixed|].
  rewrite run_cfg. apply init_realm_cfg.
Qed.

Lemma pub_keys_of : forall det,
    dhas det "publisher" = true \/ dhas det "publisher_authid" = true \/ dhas det "publisher_authrole" = true ->
    pub_keys det = true.
Proof. intros det [H|[H|H]]; unfold pub_keys; rewrite H; cbn; rewrite ?orb_true_r; reflexivity. Qed.

Lemma caller_keys_of : forall det,
    dhas det "caller" = true \/ dhas det "caller_authid" = true \/ dhas det "caller_authrole" = true ->
    caller_keys det = true.
Proof. intros det [H|[H|H]]; unfold caller_keys; rewrite H; cbn; rewrite ?orb_true_r; reflexivity. Qed.

(** ** EVENT *)
Theorem realm_no_identity_leak_event_proof : forall cfg pre o post y sub pubid det a k,
    let ops := pre ++ o :: post in
    let r := fst (run (init_realm cfg) pre) in
    Forall op_ok ops -> k0 cfg + N.of_nat (List.length ops) <= max_idN ->
    In (y, REvent sub pubid det a k) (snd (step r o)) ->
    dhas det "publisher" = true \/ dhas det "publisher_authid" = true \/ dhas det "publisher_authrole" = true ->
    c_disclose cfg = true /\
    (exists rs, find_session (r_clients r) y = Some rs /\
                sess_feature rs "subscriber" "publisher_identification" = true) /\
    ((exists p m orc ps req opts topic,
         o = OMsg p m orc /\ find_session (r_clients r) p = Some ps /\
         gate r ps m = inl (CPublish req opts topic a k) /\ opt_bool opts "disclose_me" = true /\
         dget det "publisher" = Some (vid p) /\
         dget det "publisher_authid" = dget (s_details ps) "authid" /\
         dget det "publisher_authrole" = dget (s_details ps) "authrole")
     \/
     (dget det "publisher" = Some (vid meta_id) /\ dget det "publisher_authid" = None /\
      dget det "publisher_authrole" = Some (vstr "trusted") /\
      exists z zs dt ds t,
        find_session (r_clients r) z = Some zs /\ nget (r_testaments r) z = Some (dt, ds) /\ In t (dt ++ ds) /\
        opt_bool (t_opts t) "disclose_me" = true /\ a = t_args t /\ k = t_kw t /\
        (* the testament's owner departs in this step *)
        find_session (r_clients (fst (step r o))) z = None)).
Proof.
  intros cfg pre o post y sub pubid det a k ops r Ho Hk Hin Hd.
  destruct (reach_prefix cfg pre o post Ho Hk) as (_ & _ & W & M & Ec). fold r in W, M, Ec.
  destruct (step_ev r o W M y sub pubid det a k Hin (pub_keys_of det Hd))
    as [(p & m & orc & ps & req & opts & topic & args & kw & Eo & Fp & Eg & C)|C].
  - destruct C as (Cd & Rv & Dm & D1 & D2 & D3 & -> & ->). rewrite Ec in Cd.
    split; [exact Cd|]. split; [exact Rv|]. left.
    exists p, m, orc, ps, req, opts, topic. repeat (split; [assumption|]). assumption.
  - destruct C as (Cd & Rv & (D1 & D2 & D3) & T). rewrite Ec in Cd.
    split; [exact Cd|]. split; [exact Rv|]. right. auto.
Qed.

Theorem realm_no_identity_leak_event_noauthz_proof : forall cfg pre o post y sub pubid det a k,
    let ops := pre ++ o :: post in
    let r := fst (run (init_realm cfg) pre) in
    c_authz cfg = None ->
    Forall op_ok ops -> k0 cfg + N.of_nat (List.length ops) <= max_idN ->
    In (y, REvent sub pubid det a k) (snd (step r o)) ->
    dhas det "publisher" = true \/ dhas det "publisher_authid" = true \/ dhas det "publisher_authrole" = true ->
    c_disclose cfg = true /\
    (exists rs, find_session (r_clients r) y = Some rs /\
                sess_feature rs "subscriber" "publisher_identification" = true) /\
    ((exists p orc ps req opts topic,
         o = OMsg p (CPublish req opts topic a k) orc /\ find_session (r_clients r) p = Some ps /\
         opt_bool opts "disclose_me" = true /\
         dget det "publisher" = Some (vid p) /\
         dget det "publisher_authid" = dget (s_details ps) "authid" /\
         dget det "publisher_authrole" = dget (s_details ps) "authrole")
     \/
     (dget det "publisher" = Some (vid meta_id) /\ dget det "publisher_authid" = None /\
      dget det "publisher_authrole" = Some (vstr "trusted") /\
      exists z zs dt ds t,
        find_session (r_clients r) z = Some zs /\ nget (r_testaments r) z = Some (dt, ds) /\ In t (dt ++ ds) /\
        opt_bool (t_opts t) "disclose_me" = true /\ a = t_args t /\ k = t_kw t /\
        (* the testament's owner departs in this step *)
        find_session (r_clients (fst (step r o))) z = None)).
Proof.
  intros cfg pre o post y sub pubid det a k ops r Ha Ho Hk Hin Hd.
  destruct (reach_prefix cfg pre o post Ho Hk) as (_ & _ & _ & _ & Ec). fold r in Ec.
  destruct (realm_no_identity_leak_event_proof cfg pre o post y sub pubid det a k Ho Hk Hin Hd) as (Cd & Rv & C).
  split; [exact Cd|]. split; [exact Rv|].
  destruct C as [(p & m & orc & ps & req & opts & topic & Eo & Fp & Eg & Rest)|C]; [left|now right].
  fold r in Eg. rewrite gate_none in Eg by (rewrite Ec; exact Ha). inversion Eg; subst m.
  exists p, orc, ps, req, opts, topic. split; [exact Eo|]. split; [exact Fp|exact Rest].
Qed.

(** ** INVOCATION *)
Theorem realm_invocation_identity_iff_proof : forall cfg pre o post y inv rid det a k,
    let ops := pre ++ o :: post in
    let r := fst (run (init_realm cfg) pre) in
    Forall op_ok ops -> k0 cfg + N.of_nat (List.length ops) <= max_idN ->
    In (y, RInvocation inv rid det a k) (snd (step r o)) ->
    y <> meta_id /\
    exists x m orc xs q opts proc,
      o = OMsg x m orc /\ find_session (r_clients r) x = Some xs /\
      gate r xs m = inl (CCall q opts proc a k) /\
      ((cget (d_bycall (r_dealer r)) (x, q) <> None /\ det = [("progress", VBool (opt_bool opts "progress"))]) \/
       (cget (d_bycall (r_dealer r)) (x, q) = None /\
        exists rg ys,
          nget (d_regs (r_dealer r)) rid = Some rg /\ In y (reg_callees rg) /\
          find_session (r_clients r) y = Some ys /\
          let allowed := reg_discloses rg y ||
                         (opt_bool opts "disclose_me" && c_disclose cfg &&
                          sess_feature ys "callee" "caller_identification") in
          dget det "caller" = (if allowed then Some (vid x) else None) /\
          dget det "caller_authid" = (if allowed then dget (s_details xs) "authid" else None) /\
          dget det "caller_authrole" = (if allowed then dget (s_details xs) "authrole" else None))).
Proof.
  intros cfg pre o post y inv rid det a k ops r Ho Hk Hin.
  destruct (reach_prefix cfg pre o post Ho Hk) as (_ & _ & W & _ & Ec). fold r in W, Ec.
  destruct (step_inv r o W y inv rid det a k Hin) as (Hy & x & m & orc & xs & q & opts & proc & Eo & Fx & Eg & Kind).
  split; [exact Hy|]. exists x, m, orc, xs, q, opts, proc. repeat (split; [assumption|]).
  destruct Kind as [K|(Hb & K)]; [now left|right]. split; [exact Hb|].
  unfold inv_first in K. rewrite Ec in K. exact K.
Qed.

Theorem realm_no_identity_leak_invocation_proof : forall cfg pre o post y inv rid det a k,
    let ops := pre ++ o :: post in
    let r := fst (run (init_realm cfg) pre) in
    Forall op_ok ops -> k0 cfg + N.of_nat (List.length ops) <= max_idN ->
    In (y, RInvocation inv rid det a k) (snd (step r o)) ->
    dhas det "caller" = true \/ dhas det "caller_authid" = true \/ dhas det "caller_authrole" = true ->
    exists x m orc xs q opts proc rg ys,
      o = OMsg x m orc /\ find_session (r_clients r) x = Some xs /\
      gate r xs m = inl (CCall q opts proc a k) /\
      cget (d_bycall (r_dealer r)) (x, q) = None /\
      y <> meta_id /\ find_session (r_clients r) y = Some ys /\
      nget (d_regs (r_dealer r)) rid = Some rg /\ In y (reg_callees rg) /\
      dget det "caller" = Some (vid x) /\
      dget det "caller_authid" = dget (s_details xs) "authid" /\
      dget det "caller_authrole" = dget (s_details xs) "authrole" /\
      ((In y (reg_disclose rg) /\ disc_witness cfg pre rid y) \/
       (opt_bool opts "disclose_me" = true /\ c_disclose cfg = true /\
        sess_feature ys "callee" "caller_identification" = true)).
Proof.
  intros cfg pre o post y inv rid det a k ops r Ho Hk Hin Hd.
  destruct (reach_prefix cfg pre o post Ho Hk) as (Ho1 & Hk1 & W & _ & Ec). fold r in W, Ec.
  destruct (step_inv_only_if r o W y inv rid det a k Hin (caller_keys_of det Hd))
    as (x & m & orc & xs & q & opts & proc & rg & ys & Eo & Fx & Eg & Hb & Hr & Hc & Fy & Hy & Al & D1 & D2 & D3).
  exists x, m, orc, xs, q, opts, proc, rg, ys. repeat (split; [assumption|]).
  destruct Al as [Al|(A1 & A2 & A3)]; [left|right].
  - unfold reg_discloses in Al. apply nmem_In in Al. split; [exact Al|].
    apply (reg_origin_proof cfg pre rid y Ho1 Hk1); [exists rg; split; assumption|exact Hy].
  - rewrite Ec in A2. auto.
Qed.

Theorem realm_no_identity_leak_invocation_noauthz_proof : forall cfg pre o post y inv rid det a k,
    let ops := pre ++ o :: post in
    let r := fst (run (init_realm cfg) pre) in
    c_authz cfg = None ->
    Forall op_ok ops -> k0 cfg + N.of_nat (List.length ops) <= max_idN ->
    In (y, RInvocation inv rid det a k) (snd (step r o)) ->
    dhas det "caller" = true \/ dhas det "caller_authid" = true \/ dhas det "caller_authrole" = true ->
    exists x orc xs q opts proc rg ys,
      o = OMsg x (CCall q opts proc a k) orc /\ find_session (r_clients r) x = Some xs /\
      cget (d_bycall (r_dealer r)) (x, q) = None /\
      y <> meta_id /\ find_session (r_clients r) y = Some ys /\
      nget (d_regs (r_dealer r)) rid = Some rg /\ In y (reg_callees rg) /\
      dget det "caller" = Some (vid x) /\
      dget det "caller_authid" = dget (s_details xs) "authid" /\
      dget det "caller_authrole" = dget (s_details xs) "authrole" /\
      ((In y (reg_disclose rg) /\ disc_witness cfg pre rid y) \/
       (opt_bool opts "disclose_me" = true /\ c_disclose cfg = true /\
        sess_feature ys "callee" "caller_identification" = true)).
Proof.
  intros cfg pre o post y inv rid det a k ops r Ha Ho Hk Hin Hd.
  destruct (reach_prefix cfg pre o post Ho Hk) as (_ & _ & _ & _ & Ec). fold r in Ec.
  destruct (realm_no_identity_leak_invocation_proof cfg pre o post y inv rid det a k Ho Hk Hin Hd)
    as (x & m & orc & xs & q & opts & proc & rg & ys & Eo & Fx & Eg & Rest).
  fold r in Eg. rewrite gate_none in Eg by (rewrite Ec; exact Ha). inversion Eg; subst m.
  exists x, orc, xs, q, opts, proc, rg, ys. split; [exact Eo|]. split; [exact Fx|exact Rest].
Qed.

(** ** Who is in a registration's [reg_disclose], and since when *)

(** [disc_witness] spelled out *)
Lemma disc_witness_iff : forall cfg ops rid sid,
    disc_witness cfg ops rid sid <->
    exists pre o post m orc xs req opts proc,
      ops = pre ++ o :: post /\
      o = OMsg sid m orc /\ find_session (r_clients (fst (run (init_realm cfg) pre))) sid = Some xs /\
      gate (fst (run (init_realm cfg) pre)) xs m = inl (CRegister req opts proc) /\
      In (sid, RRegistered req rid) (snd (step (fst (run (init_realm cfg) pre)) o)) /\
      opt_bool opts "disclose_caller" = true /\
      (c_disclose cfg = true \/ attr_of (s_details xs) "authrole" = "trusted") /\
      forall mid rest, post = mid ++ rest ->
        exists rg, nget (d_regs (r_dealer (fst (run (init_realm cfg) (pre ++ o :: mid))))) rid = Some rg /\
                   In sid (reg_disclose rg).
Proof.
  intros cfg ops rid sid. unfold disc_witness, disc_asked, holds_flag. split.
  - intros (pre & o & post & E & (m & orc & xs & req & opts & proc & Eo & Fx & Eg & Hin & Hd & Al) & Since).
    rewrite run_cfg, init_realm_cfg in Al. exists pre, o, post, m, orc, xs, req, opts, proc. auto 12.
  - intros (pre & o & post & m & orc & xs & req & opts & proc & E & Eo & Fx & Eg & Hin & Hd & Al & Since).
    exists pre, o, post. split; [exact E|]. split; [|exact Since]. exists m, orc, xs, req, opts, proc.
    rewrite run_cfg, init_realm_cfg. auto 10.
Qed.

Lemma prefix_hyps : forall cfg (a b : list op),
    Forall op_ok (a ++ b) -> k0 cfg + N.of_nat (List.length (a ++ b)) <= max_idN ->
    Forall op_ok a /\ k0 cfg + N.of_nat (List.length a) <= max_idN.
Proof.
  intros cfg a b Ho Hk. apply Forall_app in Ho. destruct Ho as [Ho1 _]. rewrite app_length in Hk. split; [exact Ho1|lia].
Qed.

Theorem realm_disclose_flag_origin_proof : forall cfg ops rid rg sid,
    Forall op_ok ops -> k0 cfg + N.of_nat (List.length ops) <= max_idN ->
    nget (d_regs (r_dealer (fst (run (init_realm cfg) ops)))) rid = Some rg ->
    In sid (reg_disclose rg) -> sid <> meta_id ->
    exists pre o post m orc xs req opts proc,
      ops = pre ++ o :: post /\
      let r1 := fst (run (init_realm cfg) pre) in
      (* the session's own REGISTER, asking, admitted *)
      o = OMsg sid m orc /\ find_session (r_clients r1) sid = Some xs /\
      gate r1 xs m = inl (CRegister req opts proc) /\
      In (sid, RRegistered req rid) (snd (step r1 o)) /\
      opt_bool opts "disclose_caller" = true /\
      (c_disclose cfg = true \/ attr_of (s_details xs) "authrole" = "trusted") /\
      (* in every state since: in the list, a callee of [rid], attached *)
      (forall mid rest, post = mid ++ rest ->
         let r2 := fst (run (init_realm cfg) (pre ++ o :: mid)) in
         client r2 sid /\
         exists rg2, nget (d_regs (r_dealer r2)) rid = Some rg2 /\ In sid (reg_disclose rg2) /\ In sid (reg_callees rg2)) /\
      (* no UNREGISTER of [rid] by it was answered UNREGISTERED since *)
      (forall mid u rest m2 orc2 s2 q q', post = mid ++ u :: rest ->
         let r2 := fst (run (init_realm cfg) (pre ++ o :: mid)) in
         u = OMsg sid m2 orc2 -> find_session (r_clients r2) sid = Some s2 ->
         gate r2 s2 m2 = inl (CUnregister q rid) -> ~ In (sid, RUnregistered q') (snd (step r2 u))).
Proof.
  intros cfg ops rid rg sid Ho Hk H Hy Hn.
  destruct (reg_origin_proof cfg ops rid sid Ho Hk (ex_intro _ rg (conj H Hy)) Hn) as (pre & o & post & E & As & Since).
  destruct As as (m & orc & xs & req & opts & proc & Eo & Fx & Eg & Hin & Hd & Al).
  rewrite run_cfg, init_realm_cfg in Al.
  exists pre, o, post, m, orc, xs, req, opts, proc. split; [exact E|]. cbv zeta.
  repeat (split; [assumption|]). split.
  - intros mid rest Ep. pose proof (Since mid rest Ep) as Hf.
    assert (Hp : Forall op_ok (pre ++ o :: mid) /\ k0 cfg + N.of_nat (List.length (pre ++ o :: mid)) <= max_idN).
    { apply (prefix_hyps cfg (pre ++ o :: mid) rest); rewrite <- app_assoc; cbn [app]; rewrite <- Ep, <- E; assumption. }
    destruct Hp as [Hp1 Hp2].
    destruct (holder_attached cfg (pre ++ o :: mid) rid sid Hp1 Hp2 Hf) as [(rg2 & H2 & Hc2) [Em|Cl]]; [contradiction|].
    split; [exact Cl|]. destruct Hf as (rg3 & H3 & Hy3). exists rg3. split; [exact H3|]. split; [exact Hy3|]. congruence.
  - intros mid u rest m2 orc2 s2 q q' Ep Eu F2 Eg2 Hin2.
    assert (Hp : Forall op_ok (pre ++ o :: mid) /\ k0 cfg + N.of_nat (List.length (pre ++ o :: mid)) <= max_idN).
    { apply (prefix_hyps cfg (pre ++ o :: mid) (u :: rest)); rewrite <- app_assoc; cbn [app]; rewrite <- Ep, <- E; assumption. }
    destruct Hp as [Hp1 Hp2].
    pose proof (reachable_realm_wf cfg _ Hp1 Hp2) as W2.
    destruct (run_reg_inv cfg _ Hp1 Hp2) as [OK2 _].
    rewrite Eu in Hin2.
    apply (step_unregistered_drops_flag _ sid m2 s2 q rid q' orc2 W2 OK2 F2 Eg2 Hin2).
    pose proof (Since (mid ++ [u]) rest) as Hf. rewrite <- app_assoc in Hf. specialize (Hf Ep).
    replace (pre ++ o :: mid ++ [u]) with ((pre ++ o :: mid) ++ [u]) in Hf by (rewrite <- app_assoc; reflexivity).
    rewrite run_app1, Eu in Hf. exact Hf.
Qed.

(** a session that is not attached holds no flag, and joining gives none: a
    session id that left and joins again starts without it *)
Theorem realm_rejoin_without_flag_proof : forall cfg ops sid l h rid,
    Forall op_ok ops -> k0 cfg + N.of_nat (List.length ops) <= max_idN ->
    sid <> meta_id -> ~ client (fst (run (init_realm cfg) ops)) sid ->
    (forall rg, nget (d_regs (r_dealer (fst (run (init_realm cfg) ops)))) rid = Some rg -> ~ In sid (reg_disclose rg)) /\
    (forall rg, nget (d_regs (r_dealer (fst (step (fst (run (init_realm cfg) ops)) (OJoin sid l h))))) rid = Some rg ->
                ~ In sid (reg_disclose rg)).
Proof.
  intros cfg ops sid l h rid Ho Hk Hn Hc. split.
  - intros rg H Hy. destruct (holder_attached cfg ops rid sid Ho Hk (ex_intro _ rg (conj H Hy))) as [_ [E|C]]; contradiction.
  - intros rg H Hy. apply (join_no_flag cfg ops sid l h rid Ho Hk Hn Hc). exists rg. auto.
Qed.

(** ** The positive reading that replaced the refutation: caller identity
    reaches a callee only if the caller asked (and the realm allows it and
    this callee announced caller_identification) or THIS callee asked at its
    own REGISTER and was allowed to *)
Theorem realm_invocation_callee_asked_proof : forall cfg pre o post y inv rid det a k,
    let ops := pre ++ o :: post in
    let r := fst (run (init_realm cfg) pre) in
    Forall op_ok ops -> k0 cfg + N.of_nat (List.length ops) <= max_idN ->
    In (y, RInvocation inv rid det a k) (snd (step r o)) ->
    dhas det "caller" = true \/ dhas det "caller_authid" = true \/ dhas det "caller_authrole" = true ->
    (exists x m orc xs q opts proc ys,
        o = OMsg x m orc /\ find_session (r_clients r) x = Some xs /\ gate r xs m = inl (CCall q opts proc a k) /\
        opt_bool opts "disclose_me" = true /\ c_disclose cfg = true /\
        find_session (r_clients r) y = Some ys /\ sess_feature ys "callee" "caller_identification" = true)
    \/
    (exists pre1 o1 post1 m1 orc1 ys1 q1 opts1 proc1,
        pre = pre1 ++ o1 :: post1 /\
        let r1 := fst (run (init_realm cfg) pre1) in
        o1 = OMsg y m1 orc1 /\ find_session (r_clients r1) y = Some ys1 /\
        gate r1 ys1 m1 = inl (CRegister q1 opts1 proc1) /\
        In (y, RRegistered q1 rid) (snd (step r1 o1)) /\
        opt_bool opts1 "disclose_caller" = true /\
        (c_disclose cfg = true \/ attr_of (s_details ys1) "authrole" = "trusted")).
Proof.
  intros cfg pre o post y inv rid det a k ops r Ho Hk Hin Hd.
  destruct (realm_no_identity_leak_invocation_proof cfg pre o post y inv rid det a k Ho Hk Hin Hd)
    as (x & m & orc & xs & q & opts & proc & rg & ys & Eo & Fx & Eg & _ & _ & Fy & _ & _ & _ & _ & _ & Al).
  destruct Al as [(_ & Wn)|(A1 & A2 & A3)].
  - right. apply disc_witness_iff in Wn.
    destruct Wn as (pre1 & o1 & post1 & m1 & orc1 & ys1 & q1 & opts1 & proc1 & E & Eo1 & F1 & Eg1 & Hin1 & Hd1 & Al1 & _).
    exists pre1, o1, post1, m1, orc1, ys1, q1, opts1, proc1. cbv zeta. auto 10.
  - left. exists x, m, orc, xs, q, opts, proc, ys. auto 10.
Qed.

Theorem realm_invocation_callee_asked_noauthz_proof : forall cfg pre o post y inv rid det a k,
    let ops := pre ++ o :: post in
    let r := fst (run (init_realm cfg) pre) in
    c_authz cfg = None ->
    Forall op_ok ops -> k0 cfg + N.of_nat (List.length ops) <= max_idN ->
    In (y, RInvocation inv rid det a k) (snd (step r o)) ->
    dhas det "caller" = true \/ dhas det "caller_authid" = true \/ dhas det "caller_authrole" = true ->
    (exists x orc q opts proc ys,
        o = OMsg x (CCall q opts proc a k) orc /\
        opt_bool opts "disclose_me" = true /\ c_disclose cfg = true /\
        find_session (r_clients r) y = Some ys /\ sess_feature ys "callee" "caller_identification" = true)
    \/
    (exists pre1 post1 orc1 ys1 q1 opts1 proc1,
        pre = pre1 ++ OMsg y (CRegister q1 opts1 proc1) orc1 :: post1 /\
        let r1 := fst (run (init_realm cfg) pre1) in
        find_session (r_clients r1) y = Some ys1 /\
        In (y, RRegistered q1 rid) (snd (step r1 (OMsg y (CRegister q1 opts1 proc1) orc1))) /\
        opt_bool opts1 "disclose_caller" = true /\
        (c_disclose cfg = true \/ attr_of (s_details ys1) "authrole" = "trusted")).
Proof.
  intros cfg pre o post y inv rid det a k ops r Ha Ho Hk Hin Hd.
  destruct (reach_prefix cfg pre o post Ho Hk) as (_ & _ & _ & _ & Ec). fold r in Ec.
  destruct (realm_invocation_callee_asked_proof cfg pre o post y inv rid det a k Ho Hk Hin Hd)
    as [(x & m & orc & xs & q & opts & proc & ys & Eo & Fx & Eg & Rest)
       |(pre1 & o1 & post1 & m1 & orc1 & ys1 & q1 & opts1 & proc1 & E & Eo1 & F1 & Eg1 & Rest)].
  - left. fold r in Eg. rewrite gate_none in Eg by (rewrite Ec; exact Ha). inversion Eg; subst m.
    exists x, orc, q, opts, proc, ys. split; [exact Eo|exact Rest].
  - right. rewrite gate_none in Eg1 by (rewrite run_cfg, init_realm_cfg; exact Ha). inversion Eg1; subst m1.
    exists pre1, post1, orc1, ys1, q1, opts1, proc1. cbv zeta. rewrite <- Eo1. auto 10.
Qed.
