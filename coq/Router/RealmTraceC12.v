(** * Histories of the whole model, C12 part 6: the history theorems.

    For every history [ops = pre ++ o :: post] of a realm created with [cfg]
    (side hypotheses of the reachable-state theorems), with
    [r = fst (run (init_realm cfg) pre)] the state before the step [o]:
    [realm_no_identity_leak_event_proof], [..._invocation_proof] (and the
    [_noauthz] readings), [realm_invocation_identity_iff_proof],
    [realm_disclose_flag_origin_proof]. *)
From Nexus Require Import Router.Realm Router.AssocLemmas Router.RealmLib Router.RealmProofs
     Router.RealmMetaProofs Router.RealmLeave.
From Nexus Require Import Router.DealerLib Router.DealerProofs.
From Nexus Require Import Router.RealmWf Router.RealmStep Router.RealmIdle.
From Nexus Require Import Router.RealmTraceLib Router.RealmTrace Router.RealmTraceC05.
From Nexus Require Import Router.RealmTraceC12Dealer Router.RealmTraceC12Ev Router.RealmTraceC12Step
     Router.RealmTraceC12Inv Router.RealmTraceC12Reg.
From Coq Require Import Lia ZifyN ZifyNat ZifyBool.

Lemma reach_prefix : forall cfg pre o post,
    Forall op_ok (pre ++ o :: post) -> k0 cfg + N.of_nat (List.length (pre ++ o :: post)) <= max_idN ->
    Forall op_ok pre /\ k0 cfg + N.of_nat (List.length pre) <= max_idN /\
    realm_wf (fst (run (init_realm cfg) pre)) /\ meta_fixed (fst (run (init_realm cfg) pre)) /\
    r_cfg (fst (run (init_realm cfg) pre)) = cfg.
Proof.
  intros cfg pre o post Ho Hk. apply Forall_app in Ho. destruct Ho as [Ho1 _].
  rewrite app_length in Hk. cbn [List.length] in Hk.
  assert (Hk1 : k0 cfg + N.of_nat (List.length pre) <= max_idN) by lia.
  split; [exact Ho1|]. split; [exact Hk1|].
  split; [now apply reachable_realm_wf|]. split; [now apply run_meta_fixed|].
  rewrite run_cfg. apply init_realm_cfg.
Qed.

Lemma pub_keys_of : forall det,
    dhas det "publisher" = true \/ dhas det "publisher_authid" = true \/ dhas det "publisher_authrole" = true ->
    pub_keys det = true.
Proof. intros det [H|[H|H]]; unfold pub_keys; rewrite H; cbn; rewrite ?orb_true_r; reflexivity. Qed.

Lemma caller_keys_of : forall det,
    dhas det "caller" = true \/ dhas det "caller_authid" = true \/ dhas det "caller_authrole" = true ->
    caller_keys det = true.
Proof. intros det [H|[H|H]]; unfold caller_keys; rewrite H; cbn; rewrite ?orb_true_r; reflexivity. Qed.

(** ** EVENT *)
Theorem realm_no_identity_leak_event_proof : forall cfg pre o post y sub pubid det a k,
    let ops := pre ++ o :: post in
    let r := fst (run (init_realm cfg) pre) in
    Forall op_ok ops -> k0 cfg + N.of_nat (List.length ops) <= max_idN ->
    In (y, REvent sub pubid det a k) (snd (step r o)) ->
    dhas det "publisher" = true \/ dhas det "publisher_authid" = true \/ dhas det "publisher_authrole" = true ->
    c_disclose cfg = true /\
    (exists rs, find_session (r_clients r) y = Some rs /\
                sess_feature rs "subscriber" "publisher_identification" = true) /\
    ((exists p m orc ps req opts topic,
         o = OMsg p m orc /\ find_session (r_clients r) p = Some ps /\
         gate r ps m = inl (CPublish req opts topic a k) /\ opt_bool opts "disclose_me" = true /\
         dget det "publisher" = Some (vid p) /\
         dget det "publisher_authid" = dget (s_details ps) "authid" /\
         dget det "publisher_authrole" = dget (s_details ps) "authrole")
     \/
     (dget det "publisher" = Some (vid meta_id) /\ dget det "publisher_authid" = None /\
      dget det "publisher_authrole" = Some (vstr "trusted") /\
      exists z zs dt ds t,
        find_session (r_clients r) z = Some zs /\ nget (r_testaments r) z = Some (dt, ds) /\ In t (dt ++ ds) /\
        opt_bool (t_opts t) "disclose_me" = true /\ a = t_args t /\ k = t_kw t /\
        (* the testament's owner departs in this step *)
        find_session (r_clients (fst (step r o))) z = None)).
Proof.
  intros cfg pre o post y sub pubid det a k ops r Ho Hk Hin Hd.
  destruct (reach_prefix cfg pre o post Ho Hk) as (_ & _ & W & M & Ec). fold r in W, M, Ec.
  destruct (step_ev r o W M y sub pubid det a k Hin (pub_keys_of det Hd))
    as [(p & m & orc & ps & req & opts & topic & args & kw & Eo & Fp & Eg & C)|C].
  - destruct C as (Cd & Rv & Dm & D1 & D2 & D3 & -> & ->). rewrite Ec in Cd.
    split; [exact Cd|]. split; [exact Rv|]. left.
    exists p, m, orc, ps, req, opts, topic. repeat (split; [assumption|]). assumption.
  - destruct C as (Cd & Rv & (D1 & D2 & D3) & T). rewrite Ec in Cd.
    split; [exact Cd|]. split; [exact Rv|]. right. auto.
Qed.

Theorem realm_no_identity_leak_event_noauthz_proof : forall cfg pre o post y sub pubid det a k,
    let ops := pre ++ o :: post in
    let r := fst (run (init_realm cfg) pre) in
    c_authz cfg = None ->
    Forall op_ok ops -> k0 cfg + N.of_nat (List.length ops) <= max_idN ->
    In (y, REvent sub pubid det a k) (snd (step r o)) ->
    dhas det "publisher" = true \/ dhas det "publisher_authid" = true \/ dhas det "publisher_authrole" = true ->
    c_disclose cfg = true /\
    (exists rs, find_session (r_clients r) y = Some rs /\
                sess_feature rs "subscriber" "publisher_identification" = true) /\
    ((exists p orc ps req opts topic,
         o = OMsg p (CPublish req opts topic a k) orc /\ find_session (r_clients r) p = Some ps /\
         opt_bool opts "disclose_me" = true /\
         dget det "publisher" = Some (vid p) /\
         dget det "publisher_authid" = dget (s_details ps) "authid" /\
         dget det "publisher_authrole" = dget (s_details ps) "authrole")
     \/
     (dget det "publisher" = Some (vid meta_id) /\ dget det "publisher_authid" = None /\
      dget det "publisher_authrole" = Some (vstr "trusted") /\
      exists z zs dt ds t,
        find_session (r_clients r) z = Some zs /\ nget (r_testaments r) z = Some (dt, ds) /\ In t (dt ++ ds) /\
        opt_bool (t_opts t) "disclose_me" = true /\ a = t_args t /\ k = t_kw t /\
        (* the testament's owner departs in this step *)
        find_session (r_clients (fst (step r o))) z = None)).
Proof.
  intros cfg pre o post y sub pubid det a k ops r Ha Ho Hk Hin Hd.
  destruct (reach_prefix cfg pre o post Ho Hk) as (_ & _ & _ & _ & Ec). fold r in Ec.
  destruct (realm_no_identity_leak_event_proof cfg pre o post y sub pubid det a k Ho Hk Hin Hd) as (Cd & Rv & C).
  split; [exact Cd|]. split; [exact Rv|].
  destruct C as [(p & m & orc & ps & req & opts & topic & Eo & Fp & Eg & Rest)|C]; [left|now right].
  fold r in Eg. rewrite gate_none in Eg by (rewrite Ec; exact Ha). inversion Eg; subst m.
  exists p, orc, ps, req, opts, topic. split; [exact Eo|]. split; [exact Fp|exact Rest].
Qed.

(** ** INVOCATION *)
Theorem realm_invocation_identity_iff_proof : forall cfg pre o post y inv rid det a k,
    let ops := pre ++ o :: post in
    let r := fst (run (init_realm cfg) pre) in
    Forall op_ok ops -> k0 cfg + N.of_nat (List.length ops) <= max_idN ->
    In (y, RInvocation inv rid det a k) (snd (step r o)) ->
    y <> meta_id /\
    exists x m orc xs q opts proc,
      o = OMsg x m orc /\ find_session (r_clients r) x = Some xs /\
      gate r xs m = inl (CCall q opts proc a k) /\
      ((cget (d_bycall (r_dealer r)) (x, q) <> None /\ det = [("progress", VBool (opt_bool opts "progress"))]) \/
       (cget (d_bycall (r_dealer r)) (x, q) = None /\
        exists rg ys,
          nget (d_regs (r_dealer r)) rid = Some rg /\ In y (reg_callees rg) /\
          find_session (r_clients r) y = Some ys /\
          let allowed := reg_disclose rg ||
                         (opt_bool opts "disclose_me" && c_disclose cfg &&
                          sess_feature ys "callee" "caller_identification") in
          dget det "caller" = (if allowed then Some (vid x) else None) /\
          dget det "caller_authid" = (if allowed then dget (s_details xs) "authid" else None) /\
          dget det "caller_authrole" = (if allowed then dget (s_details xs) "authrole" else None))).
Proof.
  intros cfg pre o post y inv rid det a k ops r Ho Hk Hin.
  destruct (reach_prefix cfg pre o post Ho Hk) as (_ & _ & W & _ & Ec). fold r in W, Ec.
  destruct (step_inv r o W y inv rid det a k Hin) as (Hy & x & m & orc & xs & q & opts & proc & Eo & Fx & Eg & Kind).
  split; [exact Hy|]. exists x, m, orc, xs, q, opts, proc. repeat (split; [assumption|]).
  destruct Kind as [K|(Hb & K)]; [now left|right]. split; [exact Hb|].
  unfold inv_first in K. rewrite Ec in K. exact K.
Qed.

Theorem realm_no_identity_leak_invocation_proof : forall cfg pre o post y inv rid det a k,
    let ops := pre ++ o :: post in
    let r := fst (run (init_realm cfg) pre) in
    Forall op_ok ops -> k0 cfg + N.of_nat (List.length ops) <= max_idN ->
    In (y, RInvocation inv rid det a k) (snd (step r o)) ->
    dhas det "caller" = true \/ dhas det "caller_authid" = true \/ dhas det "caller_authrole" = true ->
    exists x m orc xs q opts proc rg ys,
      o = OMsg x m orc /\ find_session (r_clients r) x = Some xs /\
      gate r xs m = inl (CCall q opts proc a k) /\
      cget (d_bycall (r_dealer r)) (x, q) = None /\
      y <> meta_id /\ find_session (r_clients r) y = Some ys /\
      nget (d_regs (r_dealer r)) rid = Some rg /\ In y (reg_callees rg) /\
      dget det "caller" = Some (vid x) /\
      dget det "caller_authid" = dget (s_details xs) "authid" /\
      dget det "caller_authrole" = dget (s_details xs) "authrole" /\
      ((reg_disclose rg = true /\ disc_witness cfg pre rid) \/
       (opt_bool opts "disclose_me" = true /\ c_disclose cfg = true /\
        sess_feature ys "callee" "caller_identification" = true)).
Proof.
  intros cfg pre o post y inv rid det a k ops r Ho Hk Hin Hd.
  destruct (reach_prefix cfg pre o post Ho Hk) as (Ho1 & Hk1 & W & _ & Ec). fold r in W, Ec.
  destruct (step_inv_only_if r o W y inv rid det a k Hin (caller_keys_of det Hd))
    as (x & m & orc & xs & q & opts & proc & rg & ys & Eo & Fx & Eg & Hb & Hr & Hc & Fy & Hy & Al & D1 & D2 & D3).
  exists x, m, orc, xs, q, opts, proc, rg, ys. repeat (split; [assumption|]).
  destruct Al as [Al|(A1 & A2 & A3)]; [left|right].
  - split; [exact Al|]. exact (reg_origin_proof cfg pre rid rg y Ho1 Hk1 Hr Al Hc Hy).
  - rewrite Ec in A2. auto.
Qed.

Theorem realm_no_identity_leak_invocation_noauthz_proof : forall cfg pre o post y inv rid det a k,
    let ops := pre ++ o :: post in
    let r := fst (run (init_realm cfg) pre) in
    c_authz cfg = None ->
    Forall op_ok ops -> k0 cfg + N.of_nat (List.length ops) <= max_idN ->
    In (y, RInvocation inv rid det a k) (snd (step r o)) ->
    dhas det "caller" = true \/ dhas det "caller_authid" = true \/ dhas det "caller_authrole" = true ->
    exists x orc xs q opts proc rg ys,
      o = OMsg x (CCall q opts proc a k) orc /\ find_session (r_clients r) x = Some xs /\
      cget (d_bycall (r_dealer r)) (x, q) = None /\
      y <> meta_id /\ find_session (r_clients r) y = Some ys /\
      nget (d_regs (r_dealer r)) rid = Some rg /\ In y (reg_callees rg) /\
      dget det "caller" = Some (vid x) /\
      dget det "caller_authid" = dget (s_details xs) "authid" /\
      dget det "caller_authrole" = dget (s_details xs) "authrole" /\
      ((reg_disclose rg = true /\ disc_witness cfg pre rid) \/
       (opt_bool opts "disclose_me" = true /\ c_disclose cfg = true /\
        sess_feature ys "callee" "caller_identification" = true)).
Proof.
  intros cfg pre o post y inv rid det a k ops r Ha Ho Hk Hin Hd.
  destruct (reach_prefix cfg pre o post Ho Hk) as (_ & _ & _ & _ & Ec). fold r in Ec.
  destruct (realm_no_identity_leak_invocation_proof cfg pre o post y inv rid det a k Ho Hk Hin Hd)
    as (x & m & orc & xs & q & opts & proc & rg & ys & Eo & Fx & Eg & Rest).
  fold r in Eg. rewrite gate_none in Eg by (rewrite Ec; exact Ha). inversion Eg; subst m.
  exists x, orc, xs, q, opts, proc, rg, ys. split; [exact Eo|]. split; [exact Fx|exact Rest].
Qed.

(** ** The registration's flag *)
Theorem realm_disclose_flag_origin_proof : forall cfg ops rid rg y,
    Forall op_ok ops -> k0 cfg + N.of_nat (List.length ops) <= max_idN ->
    nget (d_regs (r_dealer (fst (run (init_realm cfg) ops)))) rid = Some rg ->
    reg_disclose rg = true -> In y (reg_callees rg) -> y <> meta_id ->
    exists pre o post x m orc xs req opts proc,
      ops = pre ++ o :: post /\
      let r1 := fst (run (init_realm cfg) pre) in
      o = OMsg x m orc /\ find_session (r_clients r1) x = Some xs /\
      gate r1 xs m = inl (CRegister req opts proc) /\
      In (x, RRegistered req rid) (snd (step r1 o)) /\
      opt_bool opts "disclose_caller" = true /\
      (c_disclose cfg = true \/ attr_of (s_details xs) "authrole" = "trusted").
Proof.
  intros cfg ops rid rg y Ho Hk H Hd Hy Hn.
  destruct (reg_origin_proof cfg ops rid rg y Ho Hk H Hd Hy Hn) as (pre & o & post & E & C).
  destruct C as (x & m & orc & xs & req & opts & proc & Eo & Fx & Eg & Hin & Hdc & Al).
  exists pre, o, post, x, m, orc, xs, req, opts, proc. split; [exact E|]. cbv zeta.
  rewrite run_cfg, init_realm_cfg in Al. auto 10.
Qed.

(** [disc_witness] spelled out, for readers of the statements *)
Lemma disc_witness_iff : forall cfg ops rid,
    disc_witness cfg ops rid <->
    exists pre o post x m orc xs req opts proc,
      ops = pre ++ o :: post /\
      o = OMsg x m orc /\ find_session (r_clients (fst (run (init_realm cfg) pre))) x = Some xs /\
      gate (fst (run (init_realm cfg) pre)) xs m = inl (CRegister req opts proc) /\
      In (x, RRegistered req rid) (snd (step (fst (run (init_realm cfg) pre)) o)) /\
      opt_bool opts "disclose_caller" = true /\
      (c_disclose cfg = true \/ attr_of (s_details xs) "authrole" = "trusted").
Proof.
  intros cfg ops rid. unfold disc_witness, disc_created. split.
  - intros (pre & o & post & E & x & m & orc & xs & req & opts & proc & Eo & Fx & Eg & Hin & Hd & Al).
    rewrite run_cfg, init_realm_cfg in Al. exists pre, o, post, x, m, orc, xs, req, opts, proc. auto 10.
  - intros (pre & o & post & x & m & orc & xs & req & opts & proc & E & Eo & Fx & Eg & Hin & Hd & Al).
    exists pre, o, post. split; [exact E|]. exists x, m, orc, xs, req, opts, proc.
    rewrite run_cfg, init_realm_cfg. auto 10.
Qed.
