(** * Dealer proofs, part 4: the call side of [dealer_wf] is preserved by the
    primitive state changes, by CANCEL / YIELD / ERROR / timer expiry. *)
From Nexus Require Import Router.Dealer Router.DealerLib Router.DealerProofs.
From Coq Require Import Lia ZifyN ZifyBool.

Ltac keq :=
  repeat match goal with
  | H : context [pair_eqb ?a ?b] |- _ => destruct (pair_eqb_spec a b); [try subst|]
  | |- context [pair_eqb ?a ?b] => destruct (pair_eqb_spec a b); [try subst|]
  | H : context [N.eqb ?a ?b] |- _ => destruct (N.eqb_spec a b); [try subst|]
  | |- context [N.eqb ?a ?b] => destruct (N.eqb_spec a b); [try subst|]
  end.

(** Only the five call-side fields matter. *)
Definition calls_side_eq (d d' : dealer) : Prop :=
  d_calls d' = d_calls d /\ d_invs d' = d_invs d /\ d_bycall d' = d_bycall d /\
  d_timers d' = d_timers d /\ d_timergen d' = d_timergen d.

Lemma calls_core_ext : forall d d', calls_side_eq d d' -> calls_core d -> calls_core d'.
Proof.
  intros d d' (E1 & E2 & E3 & E4 & E5) [A B C D E F G K].
  constructor; rewrite ?E1, ?E2, ?E3, ?E4, ?E5; assumption.
Qed.

Lemma calls_att_ext : forall lookup d d', d_calls d' = d_calls d -> d_invs d' = d_invs d ->
    calls_att lookup d -> calls_att lookup d'.
Proof. intros lookup d d' E1 E2 [A B]. constructor; rewrite ?E1, ?E2; assumption. Qed.

(** The tables only lose entries / keep their keys. *)
Record calls_sub (d d' : dealer) : Prop := {
  cs_sub_calls : forall c x, cget (d_calls d') c = Some x -> cget (d_calls d) c = Some x;
  cs_sub_invs : forall k v, cget (d_invs d') k = Some v -> cget (d_invs d) k <> None
}.

Lemma calls_sub_refl : forall d, calls_sub d d.
Proof. intros d; constructor; intros; congruence. Qed.

Lemma calls_sub_trans : forall d1 d2 d3, calls_sub d1 d2 -> calls_sub d2 d3 -> calls_sub d1 d3.
Proof.
  intros d1 d2 d3 [A1 B1] [A2 B2]. constructor.
  - eauto.
  - intros k v H. specialize (B2 k v H). destruct (cget (d_invs d2) k) eqn:E; [eauto | congruence].
Qed.

Lemma calls_att_sub : forall lookup d d', calls_sub d d' -> calls_att lookup d -> calls_att lookup d'.
Proof.
  intros lookup d d' [A B] [I C]. constructor.
  - intros ikey inv H. specialize (B ikey inv H). destruct (cget (d_invs d) ikey) eqn:E; [eauto | congruence].
  - intros cid x H. eauto.
Qed.

(** ** Primitive changes *)
Lemma core_cancel_timer : forall d t, calls_core d -> calls_core (cancel_timer d t).
Proof.
  intros d t [A B C D E F G K].
  assert (Hsub : forall t1 v, nget (d_timers (cancel_timer d t)) t1 = Some v -> nget (d_timers d) t1 = Some v).
  { intros t1 v H. rewrite ct_timers in H. destruct t as [t0|]; [|exact H].
    destruct (N.eqb t1 t0); [discriminate | exact H]. }
  constructor; rewrite ?ct_calls, ?ct_invs, ?ct_bycall, ?ct_timergen; auto.
  - intros t1 dl cid H. apply (E t1 dl cid). apply Hsub. exact H.
  - intros ikey inv t1 dl cid H1 H2 H3. eapply G; eauto.
  - destruct t as [t0|]; [|exact K]. cbn [cancel_timer]. dproj.
    apply NoDup_keys_adel; auto using N.eqb_spec.
Qed.

(** no timer is armed for a call whose invocation's timer was just stopped *)
Lemma no_timer_after_cancel : forall d cid ikey inv,
    calls_core d -> cget (d_bycall d) cid = Some ikey -> cget (d_invs d) ikey = Some inv ->
    forall t dl, nget (d_timers (cancel_timer d (inv_timer inv))) t <> Some (dl, cid).
Proof.
  intros d cid ikey inv W Hb Hi t dl H. rewrite ct_timers in H.
  assert (Hold : nget (d_timers d) t = Some (dl, cid)).
  { destruct (inv_timer inv); [destruct (N.eqb t n); [discriminate | exact H] | exact H]. }
  destruct (cw_timer _ W _ _ _ Hold) as (_ & ikey' & inv' & Hb' & Hi' & Ht).
  assert (ikey' = ikey) by congruence. subst ikey'. assert (inv' = inv) by congruence. subst inv'.
  rewrite Ht in H. rewrite N.eqb_refl in H. discriminate.
Qed.

Lemma no_timer_untimed : forall d cid ikey inv,
    calls_core d -> cget (d_bycall d) cid = Some ikey -> cget (d_invs d) ikey = Some inv ->
    inv_timer inv = None ->
    forall t dl, nget (d_timers d) t <> Some (dl, cid).
Proof.
  intros d cid ikey inv W Hb Hi Hn t dl H.
  destruct (cw_timer _ W _ _ _ H) as (_ & ikey' & inv' & Hb' & Hi' & Ht).
  assert (ikey' = ikey) by congruence. subst ikey'. assert (inv' = inv) by congruence. subst inv'. congruence.
Qed.

(** replace an invocation record, keeping call, callee and timer *)
Lemma core_set_inv : forall d ikey inv inv',
    calls_core d -> cget (d_invs d) ikey = Some inv ->
    inv_call inv' = inv_call inv -> inv_callee inv' = inv_callee inv -> inv_timer inv' = inv_timer inv ->
    calls_core (d_set_invs d (cset (d_invs d) ikey inv')).
Proof.
  intros d ikey inv inv' [A B C D E F G K] Hi E1 E2 E3.
  constructor; dproj; intros *.
  - intros H. destruct (A _ _ H) as (i0 & Hi0 & Hc). rewrite cget_cset. keq.
    + exists inv'. split; [reflexivity|]. assert (i0 = inv) by congruence. subst. congruence.
    + eauto.
  - rewrite cget_cset. keq.
    + intros H; inversion H; subst. rewrite E1, E2. eauto.
    + eauto.
  - eauto.
  - eauto.
  - intros H. destruct (E _ _ _ H) as (Hle & k & i0 & Hb & Hi0 & Ht). split; [exact Hle|].
    exists k. rewrite cget_cset. keq.
    + exists inv'. assert (i0 = inv) by congruence. subst. repeat split; auto. congruence.
    + exists i0. auto.
  - rewrite cget_cset. keq.
    + intros H; inversion H; subst. rewrite E3. eauto.
    + eauto.
  - rewrite cget_cset. keq.
    + intros H; inversion H; subst. rewrite E3, E1. eauto.
    + eauto.
  - exact K.
Qed.

(** stop an invocation's timer and replace its record by one without timer *)
Lemma core_untime : forall d ikey inv inv',
    calls_core d -> cget (d_invs d) ikey = Some inv ->
    inv_call inv' = inv_call inv -> inv_callee inv' = inv_callee inv -> inv_timer inv' = None ->
    let d1 := cancel_timer d (inv_timer inv) in
    calls_core (d_set_invs d1 (cset (d_invs d1) ikey inv')).
Proof.
  intros d ikey inv inv' W Hi E1 E2 E3 d1.
  pose proof (no_timer_after_cancel d (inv_call inv) ikey inv W (proj1 (cw_inv _ W _ _ Hi)) Hi) as NT.
  fold d1 in NT.
  assert (W1 : calls_core d1) by (apply core_cancel_timer; exact W).
  assert (Hi1 : cget (d_invs d1) ikey = Some inv) by (unfold d1; rewrite ct_invs; exact Hi).
  destruct W1 as [A B C D E F G K].
  constructor; dproj; intros *.
  - intros H. destruct (A _ _ H) as (i0 & Hi0 & Hc). rewrite cget_cset. keq.
    + exists inv'. split; [reflexivity|]. assert (i0 = inv) by congruence. subst. congruence.
    + eauto.
  - rewrite cget_cset. keq.
    + intros H; inversion H; subst. rewrite E1, E2. eauto.
    + eauto.
  - eauto.
  - eauto.
  - intros H. destruct (E _ _ _ H) as (Hle & k & i0 & Hb & Hi0 & Ht). split; [exact Hle|].
    exists k. rewrite cget_cset. keq.
    + exfalso. assert (i0 = inv) by congruence. subst i0.
      destruct (B _ _ Hi1) as (Hb1 & _).
      destruct (A _ _ Hb) as (i1 & Hi1' & Hc1). assert (i1 = inv) by congruence. subst i1.
      apply (NT t dl). rewrite Hc1. exact H.
    + exists i0. auto.
  - rewrite cget_cset. keq.
    + intros H; inversion H; subst. congruence.
    + eauto.
  - rewrite cget_cset. keq.
    + intros H; inversion H; subst. congruence.
    + eauto.
  - exact K.
Qed.

Lemma core_drop : forall d cid ikey,
    calls_core d -> cget (d_bycall d) cid = Some ikey ->
    (forall t dl, nget (d_timers d) t <> Some (dl, cid)) ->
    calls_core (drop_call d cid ikey).
Proof.
  intros d cid ikey [A B C D E F G K] Hb NT.
  destruct (A _ _ Hb) as (inv & Hi & Hc).
  constructor; intros *; rewrite ?dc_calls, ?dc_bycall, ?dc_invs.
  - rewrite !cget_cdel. keq; intros H;
      first [discriminate | solve [eauto] | (exfalso; destruct (A _ _ H) as (i0 & Hi0 & Hc0); congruence)].
  - rewrite !cget_cdel. keq; intros H;
      first [discriminate | solve [apply B; exact H] | (exfalso; destruct (B _ _ H) as (Hb0 & _); congruence)].
  - rewrite !cget_cdel. keq; intros H; first [discriminate | solve [eauto]].
  - rewrite !cget_cdel. keq; intros H; first [discriminate | solve [eauto]].
  - change (d_timers (drop_call d cid ikey)) with (d_timers d).
    change (d_timergen (drop_call d cid ikey)) with (d_timergen d).
    intros H. destruct (E _ _ _ H) as (Hle & k & i0 & Hb0 & Hi0 & Ht). split; [exact Hle|].
    exists k, i0. rewrite !cget_cdel.
    assert (cid0 <> cid) by (intros ->; eapply NT; eauto).
    assert (k <> ikey).
    { intros ->. destruct (B _ _ Hi0) as (Hb1 & _). destruct (A _ _ Hb0) as (i1 & Hi1 & Hc1).
      assert (i1 = i0) by congruence. subst. congruence. }
    keq; try congruence. auto.
  - change (d_timergen (drop_call d cid ikey)) with (d_timergen d).
    rewrite cget_cdel. keq; intros H; first [discriminate | solve [eauto]].
  - change (d_timers (drop_call d cid ikey)) with (d_timers d).
    rewrite cget_cdel. keq; intros H; first [discriminate | solve [eauto]].
  - exact K.
Qed.

Lemma sub_cancel_timer : forall d t, calls_sub d (cancel_timer d t).
Proof. intros; constructor; intros *; rewrite ?ct_calls, ?ct_invs; congruence. Qed.

Lemma sub_set_inv : forall d ikey inv inv', cget (d_invs d) ikey = Some inv ->
    calls_sub d (d_set_invs d (cset (d_invs d) ikey inv')).
Proof.
  intros d ikey inv inv' Hi. constructor; dproj; intros *; [auto|].
  rewrite cget_cset. keq; congruence.
Qed.

Lemma sub_drop : forall d cid ikey, calls_sub d (drop_call d cid ikey).
Proof.
  intros. constructor; intros *; rewrite ?dc_calls, ?dc_invs, cget_cdel; keq; congruence.
Qed.

(** ** CANCEL *)
Lemma core_cancel_state : forall d ikey inv,
    calls_core d -> cget (d_invs d) ikey = Some inv -> calls_core (cancel_state d ikey inv).
Proof. intros d ikey inv W Hi. unfold cancel_state. eapply core_untime; eauto. Qed.

Lemma sub_cancel_state : forall d ikey inv,
    cget (d_invs d) ikey = Some inv -> calls_sub d (cancel_state d ikey inv).
Proof.
  intros d ikey inv Hi. unfold cancel_state.
  eapply calls_sub_trans; [apply (sub_cancel_timer d (inv_timer inv))|].
  eapply sub_set_inv. rewrite ct_invs. exact Hi.
Qed.

Lemma core_cancel_drop : forall d cid ikey inv x,
    calls_core d -> pending d cid ikey inv x ->
    calls_core (drop_call (cancel_state d ikey inv) cid ikey).
Proof.
  intros d cid ikey inv x W (Hc & Hb & Hi).
  pose proof (core_cancel_state d ikey inv W Hi) as W1.
  apply core_drop; [exact W1 | rewrite cs_bycall; exact Hb |].
  eapply no_timer_untimed; [exact W1 | rewrite cs_bycall; exact Hb | rewrite cs_invs; apply cget_cset_same | reflexivity].
Qed.

Theorem sync_cancel_core : forall lookup d caller req mode reason ea,
    calls_core d ->
    calls_core (fst (sync_cancel lookup d caller req mode reason ea)) /\
    calls_sub d (fst (sync_cancel lookup d caller req mode reason ea)).
Proof.
  intros lookup d caller req mode reason ea W.
  destruct (sync_cancel_cases lookup d caller req mode reason ea) as [E|(ikey & inv & x & Hp & Hc)].
  - rewrite E. split; [exact W | apply calls_sub_refl].
  - rewrite (sync_cancel_live _ _ _ _ _ _ _ _ _ _ Hp Hc).
    pose proof Hp as (_ & _ & Hi).
    destruct (negb (mode =? "skip")%string && callee_can_cancel lookup inv && (mode =? "kill")%string); cbn [fst].
    + split; [apply core_cancel_state; assumption | apply sub_cancel_state; assumption].
    + split; [eapply core_cancel_drop; eassumption|].
      eapply calls_sub_trans; [apply sub_cancel_state; eassumption | apply sub_drop].
Qed.

Theorem cancel_core : forall lookup d caller req opts,
    calls_core d ->
    calls_core (fst (cancel lookup d caller req opts)) /\ calls_sub d (fst (cancel lookup d caller req opts)).
Proof.
  intros lookup d caller req opts W. unfold cancel.
  destruct (_ || _ || _); [apply sync_cancel_core; exact W|].
  destruct (String.eqb _ ""); [apply sync_cancel_core; exact W|].
  cbn [fst]. split; [exact W | apply calls_sub_refl].
Qed.

(** ** YIELD *)
Theorem sync_yield_core : forall lk d callee req opts args kw,
    calls_core d ->
    calls_core (fst (sync_yield lk d callee req opts args kw)) /\
    calls_sub d (fst (sync_yield lk d callee req opts args kw)).
Proof.
  intros lk d callee req opts args kw W.
  destruct (cget (d_invs d) (callee, req)) as [inv|] eqn:Hi.
  2:{ rewrite sync_yield_unknown by assumption. cbn [fst]. split; [exact W | apply calls_sub_refl]. }
  rewrite (sync_yield_owner _ _ _ _ _ _ _ _ Hi). cbn [fst]. unfold yield_result_state.
  destruct (opt_bool opts "progress"); [split; [exact W | apply calls_sub_refl]|].
  assert (W1 : calls_core (yield_state d (callee, req) inv)).
  { unfold yield_state. eapply core_untime; eauto. }
  assert (S1 : calls_sub d (yield_state d (callee, req) inv)).
  { unfold yield_state. eapply calls_sub_trans; [apply (sub_cancel_timer d (inv_timer inv))|].
    eapply sub_set_inv. rewrite ct_invs. exact Hi. }
  destruct (cw_inv _ W _ _ Hi) as (Hb & _).
  split.
  - apply core_drop; [exact W1 | rewrite ys_bycall; exact Hb |].
    eapply no_timer_untimed; [exact W1 | rewrite ys_bycall; exact Hb | rewrite ys_invs; apply cget_cset_same | reflexivity].
  - eapply calls_sub_trans; [exact S1 | apply sub_drop].
Qed.

(** ** ERROR *)
Lemma error_final_side_eq : forall d ikey inv,
    calls_side_eq (drop_call (cancel_timer d (inv_timer inv)) (inv_call inv) ikey)
                  (d_set_calls (error_state d ikey inv) (cdel (d_calls d) (inv_call inv))).
Proof.
  intros d ikey inv. unfold calls_side_eq, error_state, drop_call. dproj.
  rewrite ?ct_calls, ?ct_invs, ?ct_bycall. repeat split; reflexivity.
Qed.

Theorem sync_error_core : forall d callee req det err args kw,
    calls_core d ->
    calls_core (fst (sync_error d callee req det err args kw)) /\
    calls_sub d (fst (sync_error d callee req det err args kw)).
Proof.
  intros d callee req det err args kw W.
  destruct (cget (d_invs d) (callee, req)) as [inv|] eqn:Hi.
  2:{ rewrite sync_error_unknown by assumption. cbn [fst]. split; [exact W | apply calls_sub_refl]. }
  rewrite (sync_error_owner _ _ _ _ _ _ _ _ Hi).
  destruct (cw_inv _ W _ _ Hi) as (Hb & _).
  pose proof (cw_bycall_call _ W _ _ Hb) as Hc.
  destruct (cget (d_calls d) (inv_call inv)) as [x|] eqn:Ec; [|congruence]. cbn [fst].
  assert (W1 : calls_core (drop_call (cancel_timer d (inv_timer inv)) (inv_call inv) (callee, req))).
  { apply core_drop; [apply core_cancel_timer; exact W | rewrite ct_bycall; exact Hb |].
    eapply no_timer_after_cancel; eauto. }
  split.
  - eapply calls_core_ext; [apply error_final_side_eq | exact W1].
  - constructor; dproj; intros *.
    + rewrite cget_cdel. keq; congruence.
    + rewrite es_invs, cget_cdel. keq; congruence.
Qed.

(** ** Timer expiry *)
Lemma In_insert_timer : forall t l x, In x (insert_timer t l) <-> x = t \/ In x l.
Proof.
  induction l as [|a l IH]; intros x; cbn.
  - intuition.
  - destruct (_ || _); cbn; [intuition | rewrite IH; intuition].
Qed.

Lemma In_sort_timers : forall l x, In x (sort_timers l) <-> In x l.
Proof.
  induction l as [|a l IH]; intros x; cbn; [tauto|].
  rewrite In_insert_timer, IH. intuition.
Qed.

Definition fire_step (lookup : N -> option session) :=
  fun '((d, o) : dealer * list out) '((tid, (_, cid)) : N * (N * callid)) =>
    if amem N.eqb (d_timers d) tid then
      let d1 := d_set_timers d (ndel (d_timers d) tid) (d_timergen d) in
      let '(d2, o2) := sync_cancel lookup d1 (fst cid) (snd cid) "killnowait" e_timeout [vstr "call timeout"] in
      (d2, o ++ o2)
    else (d, o).

Lemma fire_timers_fold : forall lookup now d,
    fire_timers lookup now d =
    fold_left (fire_step lookup)
              (sort_timers (filter (fun '((_, (dl, _)) : N * (N * callid)) => dl <=? now) (d_timers d))) (d, []).
Proof. reflexivity. Qed.

Lemma fire_step_core : forall lookup d o e,
    calls_core d ->
    calls_core (fst (fire_step lookup (d, o) e)) /\ calls_sub d (fst (fire_step lookup (d, o) e)).
Proof.
  intros lookup d o [tid [dl cid]] W. unfold fire_step.
  destruct (amem N.eqb (d_timers d) tid); [|cbn [fst]; split; [exact W | apply calls_sub_refl]].
  change (d_set_timers d (ndel (d_timers d) tid) (d_timergen d)) with (cancel_timer d (Some tid)).
  pose proof (core_cancel_timer d (Some tid) W) as W1.
  pose proof (sync_cancel_core lookup (cancel_timer d (Some tid)) (fst cid) (snd cid) "killnowait" e_timeout [vstr "call timeout"] W1) as [W2 S2].
  destruct (sync_cancel lookup (cancel_timer d (Some tid)) (fst cid) (snd cid) "killnowait" e_timeout [vstr "call timeout"]) as [d2 o2].
  cbn [fst] in *. split; [exact W2|].
  eapply calls_sub_trans; [apply (sub_cancel_timer d (Some tid)) | exact S2].
Qed.

Theorem fire_timers_core : forall lookup now d,
    calls_core d ->
    calls_core (fst (fire_timers lookup now d)) /\ calls_sub d (fst (fire_timers lookup now d)).
Proof.
  intros lookup now d W. rewrite fire_timers_fold.
  generalize (sort_timers (filter (fun '((_, (dl, _)) : N * (N * callid)) => dl <=? now) (d_timers d))) as l.
  intros l.
  assert (G : forall l d0 o0, calls_core d0 -> calls_sub d d0 ->
              calls_core (fst (fold_left (fire_step lookup) l (d0, o0))) /\
              calls_sub d (fst (fold_left (fire_step lookup) l (d0, o0)))).
  { clear l. induction l as [|e l IH]; intros d0 o0 W0 S0; cbn [fold_left]; [cbn [fst]; auto|].
    destruct (fire_step_core lookup d0 o0 e W0) as [W1 S1].
    destruct (fire_step lookup (d0, o0) e) as [d1 o1]. cbn [fst] in *.
    apply IH; [exact W1 | eapply calls_sub_trans; eassumption]. }
  apply G; [exact W | apply calls_sub_refl].
Qed.
