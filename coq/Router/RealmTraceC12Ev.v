(** * Histories of the whole model, C12 part 2: publisher identity in EVENTs,
    from the broker functions up to [leave], [kill_sessions] and the meta
    session's answer to an INVOCATION.

    - [publish_ev]: an EVENT of a publication carries a publisher key only if
      the publication asked for it ([disclose_me]), the realm allows it, and
      the receiver's session record announces publisher_identification; the
      values are the publisher's.
    - every other EVENT of the broker (subscription meta events) is plain.
    - the meta session ([meta_fixed]: id, HELLO and details never change) is
      the publisher of [meta_publish]; the only meta publications with options
      are the testaments of a departing client ([leave]).
    - [sub_st r r']: an intermediate state [r'] inside the step that started
      in [r] has the clients of [r] (with the records of [r]) or fewer, and
      the testaments of [r] or fewer. *)
From Nexus Require Import Router.Realm Router.AssocLemmas Router.RealmLib Router.RealmProofs
     Router.RealmMetaProofs Router.RealmLeave.
From Nexus Require Import Router.BrokerWf Router.BrokerPres Router.BrokerPublish Router.BrokerSub Router.BrokerHist
     Router.BrokerDisclose.
From Nexus Require Import Router.DealerLib Router.DealerProofs Router.DealerReg Router.DealerCall Router.DealerWf
     Router.DealerWfCalls Router.DealerWfRegs Router.DealerRemove Router.DealerReply Router.DealerTimers
     Router.DealerOwned.
From Nexus Require Import Router.RealmWf Router.RealmStep Router.RealmC05 Router.RealmOutputs.
From Nexus Require Import Router.RealmTraceLib Router.RealmTrace Router.RealmTraceC05 Router.RealmTraceInv.
From Nexus Require Import Router.RealmTraceC12Dealer.
From Coq Require Import Lia ZifyN ZifyNat ZifyBool.

(** ** Vocabulary *)
Definition pub_keys (det : dict) : bool :=
  dhas det "publisher" || dhas det "publisher_authid" || dhas det "publisher_authrole".

Definition ev_plain (o : list out) : Prop :=
  forall y sub pid det a k, In (y, REvent sub pid det a k) o -> pub_keys det = false.

Lemma ev_plain_nil : ev_plain [].
Proof. intros y sub pid det a k []. Qed.
Lemma ev_plain_app : forall a b, ev_plain a -> ev_plain b -> ev_plain (a ++ b).
Proof. intros a b A B y sub pid det a0 k H. apply in_app_or in H. destruct H; eauto. Qed.
Lemma noev_plain : forall o, noev o -> ev_plain o.
Proof. intros o H y sub pid det a k Hin. specialize (H _ Hin). discriminate H. Qed.
Lemma ev_plain_one : forall m, is_ev m = false -> ev_plain [m].
Proof. intros. apply noev_plain. now apply noev_one. Qed.
Lemma ev_plain_cons : forall m o, is_ev m = false -> ev_plain o -> ev_plain (m :: o).
Proof. intros m o A B. change (m :: o) with ([m] ++ o). apply ev_plain_app; [now apply ev_plain_one|exact B]. Qed.

(** ** The broker *)
Lemma not_ppt_key : forall k, (k = "publisher" \/ k = "publisher_authid" \/ k = "publisher_authrole") -> ~ In k ppt_keys.
Proof. intros k [->|[->| ->]]; unfold ppt_keys; cbn; intuition discriminate. Qed.

Lemma dhas_of_dget : forall d k, dhas d k = match dget d k with Some _ => true | None => false end.
Proof. reflexivity. Qed.

Lemma publish_ev : forall cfg lk now b pg pub req opts topic args kw y sub pid det a k,
    In (y, REvent sub pid det a k) (snd (publish cfg lk now b pg pub req opts topic args kw)) ->
    a = args /\ k = kw /\
    (pub_keys det = true ->
     c_disclose cfg = true /\ opt_bool opts "disclose_me" = true /\
     exists r0 rs, lk r0 = Some rs /\ y = s_id rs /\ sess_feature rs "subscriber" f_pub_ident = true /\
       dget det "publisher" = Some (vid (s_id pub)) /\
       dget det "publisher_authid" = dget (s_details pub) "authid" /\
       dget det "publisher_authrole" = dget (s_details pub) "authrole").
Proof.
  intros cfg lk now b pg pub req opts topic args kw y sub pid det a k. unfold publish.
  destruct (negb (valid_uri _ _ _)).
  { cbn [snd]. destruct (opt_bool opts "acknowledge"); intros H; [destruct H as [H|[]]; discriminate H|destruct H]. }
  destruct (publish_aborts cfg pub opts topic).
  { cbn [snd]. intros [H|[]]; discriminate H. }
  destruct (opt_bool opts "disclose_me" && negb (c_disclose cfg)) eqn:Hd.
  { cbn [snd]. destruct (opt_bool opts "acknowledge"); intros H; [destruct H as [H|[]]; discriminate H|destruct H]. }
  pose proof (pub_event_fold lk now pub (pg + 1) opts topic args kw (matching_subs b topic) b []) as F.
  destruct (fold_left _ (matching_subs b topic) (b, [])) as [b1 o]. cbn [snd] in *. rewrite F. cbn [app].
  intros Hin. apply in_app_or in Hin. destruct Hin as [Hin|Hin].
  2:{ destruct (opt_bool opts "acknowledge"); [destruct Hin as [H|[]]; discriminate H|destruct Hin]. }
  unfold pub_events in Hin. apply in_flat_map in Hin. destruct Hin as ([s st] & _ & Hin).
  apply in_map_iff in Hin. destruct Hin as (rs & E & Ht).
  assert (Ey : y = s_id rs) by (inversion E; reflexivity).
  assert (Ea : a = args) by (inversion E; reflexivity).
  assert (Ek : k = kw) by (inversion E; reflexivity).
  assert (Edet : det = event_dict opts topic st (opt_bool opts "disclose_me") pub (Some rs)) by (inversion E; reflexivity).
  clear E. subst y a k det.
  split; [reflexivity|]. split; [reflexivity|].
  apply sub_targets_In in Ht. destruct Ht as (r0 & _ & _ & Hl & _).
  pose proof (event_dict_other opts topic st (opt_bool opts "disclose_me") pub (Some rs) "publisher"
                               (not_ppt_key _ (or_introl eq_refl))) as P1.
  pose proof (event_dict_other opts topic st (opt_bool opts "disclose_me") pub (Some rs) "publisher_authid"
                               (not_ppt_key _ (or_intror (or_introl eq_refl)))) as P2.
  pose proof (event_dict_other opts topic st (opt_bool opts "disclose_me") pub (Some rs) "publisher_authrole"
                               (not_ppt_key _ (or_intror (or_intror eq_refl)))) as P3.
  rewrite event_details_publisher in P1. rewrite event_details_authid in P2. rewrite event_details_authrole in P3.
  unfold pub_keys. rewrite !dhas_of_dget, P1, P2, P3.
  destruct (discloses (opt_bool opts "disclose_me") rs) eqn:HD.
  - intros _. unfold discloses in HD. apply andb_true_iff in HD. destruct HD as [D1 D2].
    rewrite D1 in Hd. cbn [andb] in Hd. apply negb_false_iff in Hd.
    split; [exact Hd|]. split; [exact D1|]. exists r0, rs. repeat split; auto.
  - cbn [orb]. discriminate.
Qed.

Lemma sub_meta_event_plain : forall b t cause pub args, ev_plain (sub_meta_event b t cause pub args).
Proof.
  intros b t cause pub args y sub pid det a k Hin.
  destruct (sub_meta_event_receivers b t cause pub args _ Hin) as (s & st & _ & _ & E).
  cbn [snd] in E. inversion E; subst. destruct st; reflexivity.
Qed.

Lemma subscribe_plain : forall cfg b pg sid req opts topic, ev_plain (snd (subscribe cfg b pg sid req opts topic)).
Proof.
  intros. pose proof (subscribe_event_order cfg b pg sid req opts topic) as O.
  destruct (subscribe _ _ _ _ _ _ _) as [[b' pg'] o]. cbn [snd].
  destruct O as [(_ & _ & (e & a & ->))|[(id & _ & ->)|[(id & _ & ->)|(sb & _ & _ & _ & ->)]]].
  - now apply ev_plain_one.
  - now apply ev_plain_one.
  - apply ev_plain_app; [now apply ev_plain_one|apply sub_meta_event_plain].
  - apply ev_plain_app; [now apply ev_plain_one|]. apply ev_plain_app; apply sub_meta_event_plain.
Qed.

Lemma unsubscribe_plain : forall b pg sid req subid, ev_plain (snd (unsubscribe b pg sid req subid)).
Proof.
  intros. pose proof (unsubscribe_event_order b pg sid req subid) as O.
  destruct (unsubscribe _ _ _ _ _) as [[b' pg'] o]. cbn [snd].
  destruct O as [(_ & _ & ->)|[(_ & ->)|(_ & ->)]].
  - now apply ev_plain_one.
  - apply ev_plain_app; [now apply ev_plain_one|apply sub_meta_event_plain].
  - apply ev_plain_app; [now apply ev_plain_one|]. apply ev_plain_app; apply sub_meta_event_plain.
Qed.

Lemma broker_remove_session_plain : forall b pg sid, ev_plain (snd (broker_remove_session b pg sid)).
Proof.
  intros b pg sid. unfold broker_remove_session.
  destruct (nget (b_sess b) sid) as [ids|]; [|apply ev_plain_nil].
  assert (G : forall ids acc, ev_plain (snd acc) -> ev_plain (snd (fold_left (remove_session_sub sid) ids acc))).
  { induction ids0 as [|id ids0 IH]; intros acc A; cbn [fold_left]; [exact A|].
    apply IH. destruct acc as [[b1 pg1] o1]. cbn [snd] in *. unfold remove_session_sub.
    destruct (nget (b_subs b1) id) as [s|]; [|exact A].
    match goal with |- context [if ?c then _ else _] => destruct c end; cbn [snd];
      repeat first [exact A | apply sub_meta_event_plain | apply ev_plain_app]. }
  apply G. apply ev_plain_nil.
Qed.

(** ** The meta session *)
Definition meta_fixed (r : realm) : Prop :=
  s_id (r_meta r) = meta_id /\ s_hello (r_meta r) = meta_hello /\
  s_details (r_meta r) = [("authrole", vstr "trusted")].

Lemma meta_fixed_ext : forall r r', r_meta r' = r_meta r -> meta_fixed r -> meta_fixed r'.
Proof. intros r r' E H. unfold meta_fixed. rewrite E. exact H. Qed.

Lemma meta_fixed_lookup_ok : forall r, meta_fixed r -> forall x s, lookup r x = Some s -> s_id s = x.
Proof. intros r (H & _) x s. apply (lookup_ok_realm r H). Qed.

(** the meta session does not announce publisher_identification: a receiver
    that does is a client *)
Lemma recv_is_client : forall r y rs,
    meta_fixed r -> lookup r y = Some rs -> sess_feature rs "subscriber" f_pub_ident = true ->
    find_session (r_clients r) y = Some rs.
Proof.
  intros r y rs (_ & Hh & _) Hl Hf. unfold lookup in Hl. destruct (N.eqb y meta_id); [|exact Hl].
  exfalso. inversion Hl; subst rs. unfold sess_feature in Hf. rewrite Hh in Hf. discriminate Hf.
Qed.

(** ** What a disclosure inside a step looks like, relative to the state [r]
    the step started in *)
Definition recv_ok (r : realm) (y : N) : Prop :=
  exists rs, find_session (r_clients r) y = Some rs /\ sess_feature rs "subscriber" f_pub_ident = true.

Definition meta_identity (det : dict) : Prop :=
  dget det "publisher" = Some (vid meta_id) /\ dget det "publisher_authid" = None /\
  dget det "publisher_authrole" = Some (vstr "trusted").

(** [a], [k] are the payload of a testament stored (in [r]) for a session
    attached in [r] and no longer attached in [rf] (the state after the
    step), whose publish options ask for disclosure *)
Definition testament_of (r rf : realm) (a : list value) (k : dict) : Prop :=
  exists z zs dt ds t,
    find_session (r_clients r) z = Some zs /\ nget (r_testaments r) z = Some (dt, ds) /\ In t (dt ++ ds) /\
    opt_bool (t_opts t) "disclose_me" = true /\ a = t_args t /\ k = t_kw t /\
    find_session (r_clients rf) z = None.

Definition meta_disclosure (r rf : realm) (y : N) (det : dict) (a : list value) (k : dict) : Prop :=
  c_disclose (r_cfg r) = true /\ recv_ok r y /\ meta_identity det /\ testament_of r rf a k.

Definition ev_meta (r rf : realm) (o : list out) : Prop :=
  forall y sub pid det a k, In (y, REvent sub pid det a k) o -> pub_keys det = true -> meta_disclosure r rf y det a k.

Lemma ev_meta_plain : forall r rf o, ev_plain o -> ev_meta r rf o.
Proof. intros r rf o H y sub pid det a k Hin Hk. rewrite (H _ _ _ _ _ _ Hin) in Hk. discriminate. Qed.
Lemma ev_meta_app : forall r rf a b, ev_meta r rf a -> ev_meta r rf b -> ev_meta r rf (a ++ b).
Proof. intros r rf a b A B y sub pid det a0 k H. apply in_app_or in H. destruct H; eauto. Qed.
Lemma ev_meta_nil : forall r rf, ev_meta r rf [].
Proof. intros r rf. apply ev_meta_plain, ev_plain_nil. Qed.

Record sub_st (r r' : realm) : Prop := {
  ss_cfg : r_cfg r' = r_cfg r;
  ss_cl : forall y rs, find_session (r_clients r') y = Some rs -> find_session (r_clients r) y = Some rs;
  ss_ts : forall z p, nget (r_testaments r') z = Some p -> nget (r_testaments r) z = Some p;
  ss_meta : meta_fixed r'
}.

Lemma sub_st_refl : forall r, meta_fixed r -> sub_st r r.
Proof. intros r H. constructor; auto. Qed.

Lemma sub_st_broker : forall r r' r'', sub_st r r' -> same_but_broker r' r'' -> sub_st r r''.
Proof.
  intros r r' r'' [A B C D] (E1 & E2 & E3 & E4 & _). constructor.
  - congruence.
  - rewrite E2. exact B.
  - rewrite E4. exact C.
  - eapply meta_fixed_ext; eauto.
Qed.

Lemma sub_st_dealer : forall r r' d, sub_st r r' -> sub_st r (r_set_dealer r' d).
Proof. intros r r' d [A B C D]. constructor; assumption. Qed.

(** one publication of the meta session *)
Lemma meta_publish_ev : forall r rf r' mp,
    sub_st r r' ->
    (opt_bool (mp_opts mp) "disclose_me" = true -> testament_of r rf (mp_args mp) (mp_kw mp)) ->
    ev_meta r rf (snd (meta_publish r' mp)).
Proof.
  intros r rf r' mp S T y sub pid det a k Hin Hk. unfold meta_publish in Hin.
  pose proof (publish_ev (r_cfg r') (lookup r') (r_now r') (r_broker r') (r_pubgen r') (r_meta r') 0
                         (mp_opts mp) (mp_topic mp) (mp_args mp) (mp_kw mp) y sub pid det a k) as P.
  destruct (publish _ _ _ _ _ _ _ _ _ _ _) as [[b pg] o]. cbn [snd] in *.
  destruct (P Hin) as (-> & -> & Q). destruct (Q Hk) as (Hc & Hd & r0 & rs & Hl & Hy & Hf & D1 & D2 & D3).
  pose proof (ss_meta _ _ S) as M.
  pose proof (meta_fixed_lookup_ok r' M r0 rs Hl) as Er0. rewrite <- Hy in Er0. subst r0.
  destruct M as (M1 & M2 & M3).
  split; [rewrite <- (ss_cfg _ _ S); exact Hc|]. split.
  - exists rs. split; [|exact Hf]. apply (ss_cl _ _ S). apply recv_is_client; [repeat split; assumption|exact Hl|exact Hf].
  - split; [|exact (T Hd)]. unfold meta_identity. rewrite D1, D2, D3, M1, M3. repeat split.
Qed.

Lemma meta_publish_sub_st : forall r r' mp, sub_st r r' -> sub_st r (fst (meta_publish r' mp)).
Proof. intros r r' mp S. eapply sub_st_broker; [exact S|apply meta_publish_frame]. Qed.

Lemma meta_publish_all_ev : forall mps r rf r',
    sub_st r r' ->
    (forall mp, In mp mps -> opt_bool (mp_opts mp) "disclose_me" = true -> testament_of r rf (mp_args mp) (mp_kw mp)) ->
    ev_meta r rf (snd (meta_publish_all r' mps)) /\ sub_st r (fst (meta_publish_all r' mps)).
Proof.
  induction mps as [|mp mps IH]; intros r rf r' S T.
  - rewrite meta_publish_all_nil. split; [apply ev_meta_nil|exact S].
  - rewrite meta_publish_all_cons.
    pose proof (meta_publish_ev r rf r' mp S (T mp (or_introl eq_refl))) as A.
    pose proof (meta_publish_sub_st r r' mp S) as S1.
    destruct (meta_publish r' mp) as [r1 o1]. cbn [fst snd] in *.
    destruct (IH r rf r1 S1 (fun m H => T m (or_intror H))) as [B S2].
    destruct (meta_publish_all r1 mps) as [r2 o2]. cbn [fst snd] in *.
    split; [now apply ev_meta_app|exact S2].
Qed.

Lemma opt_bool_nil : forall k, opt_bool [] k = false.
Proof. reflexivity. Qed.

(** meta publications without options are plain, whatever the state *)
Lemma meta_publish_plain : forall r mp, opt_bool (mp_opts mp) "disclose_me" = false -> ev_plain (snd (meta_publish r mp)).
Proof.
  intros r mp Ho y sub pid det a k Hin. unfold meta_publish in Hin.
  pose proof (publish_ev (r_cfg r) (lookup r) (r_now r) (r_broker r) (r_pubgen r) (r_meta r) 0
                         (mp_opts mp) (mp_topic mp) (mp_args mp) (mp_kw mp) y sub pid det a k) as P.
  destruct (publish _ _ _ _ _ _ _ _ _ _ _) as [[b pg] o]. cbn [snd] in *.
  destruct (P Hin) as (_ & _ & Q). destruct (pub_keys det); [|reflexivity].
  destruct (Q eq_refl) as (_ & Hd & _). congruence.
Qed.

Lemma meta_publish_all_plain : forall mps r,
    (forall mp, In mp mps -> mp_opts mp = []) -> ev_plain (snd (meta_publish_all r mps)).
Proof.
  induction mps as [|mp mps IH]; intros r T; [rewrite meta_publish_all_nil; apply ev_plain_nil|].
  rewrite meta_publish_all_cons.
  assert (A : ev_plain (snd (meta_publish r mp))).
  { apply meta_publish_plain. rewrite (T mp (or_introl eq_refl)). reflexivity. }
  destruct (meta_publish r mp) as [r1 o1]. specialize (IH r1 (fun m H => T m (or_intror H))).
  destruct (meta_publish_all r1 mps) as [r2 o2]. cbn [fst snd] in *. now apply ev_plain_app.
Qed.

(** ** Departure: the testaments *)
Lemma test_pubs_app : forall a b, test_pubs a ++ test_pubs b = test_pubs (a ++ b).
Proof. intros. unfold test_pubs. now rewrite map_app. Qed.

Lemma leave_gone : forall r sid, find_session (r_clients (fst (leave r sid))) sid = None.
Proof. intros r sid. destruct (leave_frame r sid) as (_ & -> & _). apply find_del_same. Qed.

Lemma leave_ev_gen : forall r rf r' sid,
    sub_st r r' -> find_session (r_clients rf) sid = None ->
    ev_meta r rf (snd (leave r' sid)) /\ sub_st r (fst (leave r' sid)).
Proof.
  intros r rf r' sid S Gone.
  destruct (find_session (r_clients r') sid) as [s|] eqn:F;
    [|rewrite (leave_absent r' sid F); split; [apply ev_meta_nil|exact S]].
  rewrite (leave_event_order r' sid s F). unfold leave_core.
  set (r2 := r_set_testaments (r_set_clients r' (del_session (r_clients r') sid))
                              (ndel (r_testaments (r_set_clients r' (del_session (r_clients r') sid))) sid)).
  change (r_dealer r2) with (r_dealer r').
  destruct (dealer_remove_session_dk (lookup r2) (r_dealer r') sid) as [[D1 _ _] D3].
  destruct (dealer_remove_session (lookup r2) (r_dealer r') sid) as [[d o1] mps]. cbn [fst snd] in *.
  pose proof (broker_remove_session_plain (r_broker (r_set_dealer r2 d)) (r_pubgen (r_set_dealer r2 d)) sid) as B.
  destruct (broker_remove_session _ _ sid) as [[b pg] o2]. cbn [snd] in B.
  assert (S4 : sub_st r (r_set_broker (r_set_dealer r2 d) b pg)).
  { destruct S as [A1 A2 A3 A4]. constructor.
    - exact A1.
    - intros y rs H. cbn [r_clients r_set_broker r_set_dealer] in H. unfold r2 in H.
      cbn [r_clients r_set_testaments r_set_clients] in H. apply A2.
      destruct (N.eq_dec y sid) as [->|Hn]; [rewrite find_del_same in H; discriminate|].
      now rewrite find_del_other in H.
    - intros z p H. cbn [r_testaments r_set_broker r_set_dealer] in H. unfold r2 in H.
      cbn [r_testaments r_set_testaments r_set_clients] in H. apply A3.
      rewrite ngd in H. destruct (N.eqb z sid); [discriminate|exact H].
    - exact A4. }
  destruct (meta_publish_all_ev (mps ++ testament_pubs r' sid ++ [on_leave_pub s]) r rf _ S4) as [M S5].
  { intros mp Hin Ho. apply in_app_or in Hin. destruct Hin as [Hin|Hin].
    { rewrite (D3 mp Hin) in Ho. discriminate Ho. }
    apply in_app_or in Hin. destruct Hin as [Hin|[<-|[]]]; [|discriminate Ho].
    unfold testament_pubs in Hin. destruct (nget (r_testaments r') sid) as [[dt ds]|] eqn:Ht; [|destruct Hin].
    rewrite test_pubs_app in Hin. unfold test_pubs in Hin. apply in_map_iff in Hin. destruct Hin as (t & <- & Hin).
    cbn [mp_opts mp_args mp_kw] in *.
    exists sid, s, dt, ds, t. split; [apply (ss_cl _ _ S); exact F|]. split; [apply (ss_ts _ _ S); exact Ht|].
    split; [exact Hin|]. split; [exact Ho|]. split; [reflexivity|]. split; [reflexivity|exact Gone]. }
  destruct (meta_publish_all _ _) as [r5 o3]. cbn [fst snd] in *.
  split; [|exact S5]. apply ev_meta_app; [|exact M].
  apply ev_meta_plain. apply ev_plain_app; [apply noev_plain; exact D1|exact B].
Qed.

Lemma leave_ev : forall r r' sid,
    sub_st r r' -> ev_meta r (fst (leave r' sid)) (snd (leave r' sid)) /\ sub_st r (fst (leave r' sid)).
Proof. intros r r' sid S. apply leave_ev_gen; [exact S|apply leave_gone]. Qed.

(** a later state of the step has fewer clients: what is gone stays gone *)
Lemma sub_st_gone : forall r r' z, sub_st r r' -> find_session (r_clients r) z = None -> find_session (r_clients r') z = None.
Proof.
  intros r r' z S H. destruct (find_session (r_clients r') z) as [s|] eqn:E; [|reflexivity].
  apply (ss_cl _ _ S) in E. congruence.
Qed.

Lemma kill_sessions_ev_gen : forall sids r rf r' g,
    sub_st r r' -> is_ev (0, g) = false ->
    (forall z, find_session (r_clients (fst (kill_sessions r' sids g))) z = None -> find_session (r_clients rf) z = None) ->
    ev_meta r rf (snd (kill_sessions r' sids g)) /\ sub_st r (fst (kill_sessions r' sids g)).
Proof.
  induction sids as [|sid sids IH]; intros r rf r' g S Hg Hrf.
  - rewrite kill_sessions_nil. split; [apply ev_meta_nil|exact S].
  - pose proof (leave_gone r' sid) as G1.
    destruct (leave_ev r r' sid S) as [_ S1].
    pose proof (fun Gone => leave_ev_gen r rf r' sid S Gone) as L.
    rewrite kill_sessions_cons in Hrf |- *.
    destruct (leave r' sid) as [r1 o1]. cbn [fst snd] in *.
    destruct (IH r1 (fst (kill_sessions r1 sids g)) r1 g (sub_st_refl r1 (ss_meta _ _ S1)) Hg (fun z H => H)) as [_ S12].
    pose proof (IH r rf r1 g S1 Hg) as K.
    destruct (kill_sessions r1 sids g) as [r2 o2]. cbn [fst snd] in *.
    pose proof (sub_st_gone r1 r2 sid S12 G1) as G2.
    destruct (L (Hrf sid G2)) as [Lv _]. destruct (K Hrf) as [Kv S2].
    split; [|exact S2]. change ((sid, g) :: o1 ++ o2) with ([(sid, g)] ++ (o1 ++ o2)).
    apply ev_meta_app; [apply ev_meta_plain, ev_plain_one; exact Hg|]. now apply ev_meta_app.
Qed.

Lemma kill_sessions_ev : forall sids r r' g,
    sub_st r r' -> is_ev (0, g) = false ->
    ev_meta r (fst (kill_sessions r' sids g)) (snd (kill_sessions r' sids g)) /\ sub_st r (fst (kill_sessions r' sids g)).
Proof. intros sids r r' g S Hg. apply kill_sessions_ev_gen; auto. Qed.

(** ** The meta session's answer to an INVOCATION *)
Lemma meta_call_kills_same : forall r proc det args kw oracle sids g,
    kills_of (meta_call r proc det args kw oracle) = Some (sids, g) ->
    realm_of (meta_call r proc det args kw oracle) = r /\ is_ev (0, g) = false.
Proof.
  intros r proc det args kw oracle sids g. unfold meta_call, kills_of, realm_of, goodbye_msg.
  brk; cbn [fst snd]; intros H; inversion H; subst; clear H; split; reflexivity.
Qed.

Lemma run_meta_invocation_ev : forall r r' invid regid det args kw oracle,
    sub_st r r' ->
    ev_meta r (fst (run_meta_invocation r' [(meta_id, RInvocation invid regid det args kw)] oracle))
              (snd (run_meta_invocation r' [(meta_id, RInvocation invid regid det args kw)] oracle)).
Proof.
  intros r r' invid regid det args kw oracle S. unfold run_meta_invocation. rewrite N.eqb_refl. cbn [negb].
  destruct (nget (r_metaprocs r') regid) as [proc|].
  - pose proof (meta_call_kills_same r' proc det args kw oracle) as Ks.
    destruct (meta_call r' proc det args kw oracle) as [[r1 resp] kills]. unfold realm_of, kills_of in *. cbn [fst snd] in *.
    assert (G : forall d o1, (d, o1) = match resp with
                                        | MYield a k0 => sync_yield (lookup r1) (r_dealer r1) meta_id invid [] a k0
                                        | MError e => sync_error (r_dealer r1) meta_id invid [] e [] []
                                        end -> noev o1).
    { intros d o1 E. destruct resp.
      - pose proof (sync_yield_dk (lookup r1) (r_dealer r1) meta_id invid [] args0 kw0) as [A _ _]. rewrite <- E in A. exact A.
      - pose proof (sync_error_dk (r_dealer r1) meta_id invid [] err [] []) as [A _ _]. rewrite <- E in A. exact A. }
    destruct (match resp with MYield a k0 => _ | MError e => _ end) as [d o1].
    specialize (G d o1 eq_refl).
    destruct kills as [[sids g]|]; [|cbn [snd]; apply ev_meta_plain, noev_plain; exact G].
    destruct (Ks sids g eq_refl) as [-> Hg].
    destruct (kill_sessions_ev sids r (r_set_dealer r' d) g (sub_st_dealer _ _ d S) Hg) as [K _].
    destruct (kill_sessions (r_set_dealer r' d) sids g) as [r3 o2]. cbn [fst snd] in *.
    apply ev_meta_app; [apply ev_meta_plain, noev_plain; exact G|exact K].
  - pose proof (sync_error_dk (r_dealer r') meta_id invid [] e_no_such_procedure [] []) as [A _ _].
    destruct (sync_error _ _ _ _ _ _ _) as [d o1]. cbn [fst snd] in *. apply ev_meta_plain, noev_plain; exact A.
Qed.
