(** * Conformance of the router-core model's constants with the source.

    [gen/GenRouter.v] is regenerated from /repo on every run by
    go/cmd/genrouter.  The lemmas below are re-checked on every run: a changed
    URI, option key, feature name, message code, meta procedure (or the order /
    condition under which it is registered) or standard session-detail item in
    the source makes one of them fail to compile. *)
From Nexus Require Import Router.Realm.
From Nexus Require Import gen.GenRouter.

Lemma error_uris_conform :
  [e_invalid_uri; e_no_such_procedure; e_procedure_exists; e_no_such_registration;
   e_no_such_subscription; e_no_such_session; e_invalid_argument; e_not_authorized;
   e_authz_failed; e_canceled; e_timeout; e_disclose_me; e_feature_not_supported;
   e_protocol_violation; e_goodbye_and_out; e_close_normal; e_system_shutdown]
  = [g_ErrInvalidURI; g_ErrNoSuchProcedure; g_ErrProcedureAlreadyExists; g_ErrNoSuchRegistration;
     g_ErrNoSuchSubscription; g_ErrNoSuchSession; g_ErrInvalidArgument; g_ErrNotAuthorized;
     g_ErrAuthorizationFailed; g_ErrCanceled; g_ErrTimeout; g_ErrOptionDisallowedDiscloseMe;
     g_ErrFeatureNotSupported; g_ErrProtocolViolation; g_CloseGoodbyeAndOut; g_CloseNormal;
     g_CloseSystemShutdown].
Proof. reflexivity. Qed.

Lemma meta_topics_conform :
  [t_on_join; t_on_leave; t_reg_on_create; t_reg_on_register; t_reg_on_unregister; t_reg_on_delete;
   t_sub_on_create; t_sub_on_subscribe; t_sub_on_unsubscribe; t_sub_on_delete]
  = [g_MetaEventSessionOnJoin; g_MetaEventSessionOnLeave; g_MetaEventRegOnCreate; g_MetaEventRegOnRegister;
     g_MetaEventRegOnUnregister; g_MetaEventRegOnDelete; g_MetaEventSubOnCreate; g_MetaEventSubOnSubscribe;
     g_MetaEventSubOnUnsubscribe; g_MetaEventSubOnDelete].
Proof. reflexivity. Qed.

Lemma message_codes_conform :
  [c_ERROR; c_PUBLISH; c_SUBSCRIBE; c_UNSUBSCRIBE; c_CALL; c_CANCEL; c_REGISTER; c_UNREGISTER;
   c_INVOCATION; c_YIELD; c_GOODBYE]
  = [g_code_ERROR; g_code_PUBLISH; g_code_SUBSCRIBE; g_code_UNSUBSCRIBE; g_code_CALL; g_code_CANCEL;
     g_code_REGISTER; g_code_UNREGISTER; g_code_INVOCATION; g_code_YIELD; g_code_GOODBYE].
Proof. reflexivity. Qed.

(** option keys, match / cancel / invoke values and feature names the model reads *)
Lemma option_keys_conform :
  ["acknowledge"; "disclose_caller"; "disclose_me"; "exclude_me"; "invoke"; "match"; "mode";
   "procedure"; "progress"; "reason"; "receive_progress"; "timeout"; "forward_timeout";
   "exclude"; "eligible"; match_exact; match_prefix; match_wildcard;
   "kill"; "killnowait"; "skip"; policy_single; "roundrobin"; "random"; "first"; "last"]
  = [g_OptAcknowledge; g_OptDiscloseCaller; g_OptDiscloseMe; g_OptExcludeMe; g_OptInvoke; g_OptMatch; g_OptMode;
     g_OptProcedure; g_OptProgress; g_OptReason; g_OptReceiveProgress; g_OptTimeout; g_OptForwardTimeout;
     g_BlacklistKey; g_WhitelistKey; g_MatchExact; g_MatchPrefix; g_MatchWildcard;
     g_CancelModeKill; g_CancelModeKillNoWait; g_CancelModeSkip; g_InvokeSingle; g_InvokeRoundRobin;
     g_InvokeRandom; g_InvokeFirst; g_InvokeLast].
Proof. reflexivity. Qed.

Lemma features_conform :
  [f_pub_ident; f_call_canceling; f_prog_inv; f_prog_res; f_caller_ident; f_call_timeout;
   "publisher"; "subscriber"; "caller"; "callee"]
  = [g_FeaturePubIdent; g_FeatureCallCanceling; g_FeatureProgCallInvocations; g_FeatureProgCallResults;
     g_FeatureCallerIdent; g_FeatureCallTimeout; g_RolePublisher; g_RoleSubscriber; g_RoleCaller; g_RoleCallee].
Proof. reflexivity. Qed.

(** setupMetaProcedures registers exactly the model's meta procedures, in the
    model's order, under the model's conditions, for every configuration *)
Definition gen_meta_proc_names (kill modify : bool) : list string :=
  flat_map (fun '((c, u) : string * string) =>
              if String.eqb c "" then [u]
              else if String.eqb c "kill" then (if kill then [u] else [])
              else if String.eqb c "modify" then (if modify then [u] else [])
              else []) g_meta_procs.

Lemma meta_procs_conform : forall cfg,
  meta_proc_names cfg = gen_meta_proc_names (c_meta_kill cfg) (c_meta_modify cfg).
Proof. intros cfg. unfold meta_proc_names. destruct (c_meta_kill cfg), (c_meta_modify cfg); reflexivity. Qed.

Lemma std_items_conform : std_items = g_std_items.
Proof. reflexivity. Qed.

Lemma testament_scopes_conform : ("destroyed", "detached") = (g_destroyedScope, g_detachedScope).
Proof. reflexivity. Qed.
