(** * Lemmas about the [N]-keyed tables stated with the model's own wrappers
    ([nget]/[nset]/[ndel]), so that they rewrite without unfolding. *)
From Nexus Require Import Router.Realm Router.AssocLemmas.
From Coq Require Import Lia.

Section NTables.
  Context {V : Type}.
  Implicit Types (l : list (N * V)) (i j : N) (v : V).

  Lemma ngs_same : forall l i v, nget (nset l i v) i = Some v.
  Proof. intros; apply nget_nset_same. Qed.
  Lemma ngs_other : forall l i j v, i <> j -> nget (nset l i v) j = nget l j.
  Proof. intros; now apply nget_nset_other. Qed.
  Lemma ngs : forall l i j v, nget (nset l i v) j = if N.eqb j i then Some v else nget l j.
  Proof. intros; apply nget_nset. Qed.
  Lemma ngd_same : forall l i, nget (ndel l i) i = None.
  Proof. intros; apply nget_ndel_same. Qed.
  Lemma ngd_other : forall l i j, i <> j -> nget (ndel l i) j = nget l j.
  Proof. intros; now apply nget_ndel_other. Qed.
  Lemma ngd : forall l i j, nget (ndel l i) j = if N.eqb j i then None else nget l j.
  Proof. intros; apply nget_ndel. Qed.
  Lemma nget_cons : forall l i j v, nget ((i, v) :: l) j = if N.eqb j i then Some v else nget l j.
  Proof. reflexivity. Qed.
  Lemma nget_None_keys : forall l i, nget l i = None <-> ~ In i (map fst l).
  Proof. intros; apply (aget_None_iff N.eqb N.eqb_spec). Qed.
  Lemma nget_Some_keys : forall l i v, nget l i = Some v -> In i (map fst l).
  Proof. intros l i v; apply (aget_Some_key N.eqb N.eqb_spec). Qed.
  Lemma nget_In : forall l i v, nget l i = Some v -> In (i, v) l.
  Proof. intros l i v; apply (aget_In N.eqb N.eqb_spec). Qed.
  Lemma In_nget : forall l i v, NoDup (map fst l) -> In (i, v) l -> nget l i = Some v.
  Proof. intros l i v; apply (In_aget N.eqb N.eqb_spec). Qed.
  Lemma keys_nget : forall l i, In i (map fst l) -> exists v, nget l i = Some v.
  Proof. intros l i; apply (In_key_aget N.eqb N.eqb_spec). Qed.
  Lemma nset_keys : forall l i v,
      map fst (nset l i v) = if amem N.eqb l i then map fst l else map fst l ++ [i].
  Proof. intros; apply (aset_keys N.eqb N.eqb_spec). Qed.
  Lemma nset_keys_present : forall l i v, In i (map fst l) -> map fst (nset l i v) = map fst l.
  Proof. intros; now apply (aset_keys_present N.eqb N.eqb_spec). Qed.
  Lemma ndel_keys : forall l i, map fst (ndel l i) = filter (fun x => negb (N.eqb i x)) (map fst l).
  Proof. intros; apply (adel_keys N.eqb). Qed.
  Lemma NoDup_nset : forall l i v, NoDup (map fst l) -> NoDup (map fst (nset l i v)).
  Proof. intros; now apply (NoDup_aset N.eqb N.eqb_spec). Qed.
  Lemma NoDup_ndel : forall l i, NoDup (map fst l) -> NoDup (map fst (ndel l i)).
  Proof. intros; now apply (NoDup_adel N.eqb). Qed.
  Lemma nmem_true : forall l i, amem N.eqb l i = true <-> exists v, nget l i = Some v.
  Proof. intros; apply (amem_true_iff N.eqb). Qed.
  Lemma nmem_false' : forall l i, amem N.eqb l i = false <-> nget l i = None.
  Proof. intros; apply (amem_false_iff N.eqb). Qed.
  Lemma nmem_keys : forall l i, amem N.eqb l i = true <-> In i (map fst l).
  Proof. intros; apply (amem_In_iff N.eqb N.eqb_spec). Qed.
  Lemma In_ndel : forall l i j v, In (j, v) (ndel l i) <-> In (j, v) l /\ j <> i.
  Proof. intros; apply (In_adel N.eqb N.eqb_spec). Qed.
  Lemma ndel_absent : forall l i, nget l i = None -> ndel l i = l.
  Proof. intros; now apply (adel_absent N.eqb N.eqb_spec). Qed.
  Lemma length_nset : forall l i v,
      List.length (nset l i v) = if amem N.eqb l i then List.length l else S (List.length l).
  Proof. intros; apply (length_aset N.eqb N.eqb_spec). Qed.
End NTables.
