(** * SUBSCRIBE / UNSUBSCRIBE / session removal: stable ids, errors, exact
    effect on the holding relation and frame properties. *)
From Nexus Require Import Router.Broker Router.AssocLemmas Router.BrokerWf Router.BrokerPres Router.BrokerPublish.
From Coq Require Import Lia ZifyN ZifyBool.

(** ** The holding relation over a subscription table *)
Definition hsig (l : list (N * subscription)) (r id : N) (t : string) (k : mkind) : Prop :=
  exists s, nget l id = Some s /\ sub_topic s = t /\ kind s = k /\ In r (sub_subs s).

Lemma holds_sig_hsig : forall b r id t k, holds_sig b r id t k <-> hsig (b_subs b) r id t k.
Proof. reflexivity. Qed.

Lemma hsig_nset : forall l id s r id' t k,
    hsig (nset l id s) r id' t k <->
    (id' = id /\ sub_topic s = t /\ kind s = k /\ In r (sub_subs s)) \/ (id' <> id /\ hsig l r id' t k).
Proof.
  intros. unfold hsig. setoid_rewrite ngs. destruct (N.eqb_spec id' id) as [->|Hn].
  - split.
    + intros (s0 & E & H). inversion E; subst. left; auto.
    + intros [(_ & H)|[Hn _]]; [eauto|congruence].
  - split; [intros H; right; auto | intros [[E _]|[_ H]]; [congruence|auto]].
Qed.

Lemma hsig_ndel : forall l id r id' t k,
    hsig (ndel l id) r id' t k <-> id' <> id /\ hsig l r id' t k.
Proof.
  intros. unfold hsig. setoid_rewrite ngd. destruct (N.eqb_spec id' id) as [->|Hn].
  - split; [intros (s0 & E & _); discriminate | intros [H _]; congruence].
  - tauto.
Qed.

Lemma hsig_at : forall l id s r t k, nget l id = Some s ->
    (hsig l r id t k <-> sub_topic s = t /\ kind s = k /\ In r (sub_subs s)).
Proof.
  intros l id s r t k E. unfold hsig. split.
  - intros (s0 & E0 & H). rewrite E in E0; inversion E0; subst; auto.
  - intros H; exists s; auto.
Qed.

Lemma holds_sig_holds : forall b, core_wf b -> forall r id t k,
    holds_sig b r id t k <-> exists s, holds b r s /\ sub_id s = id /\ sub_topic s = t /\ kind s = k.
Proof.
  intros b W r id t k. split.
  - intros (s & E & Ht & Hk & Hr). exists s. pose proof (wf_sub_id b W _ _ E) as Hid.
    unfold holds, sub_in. rewrite Hid. auto.
  - intros (s & (Hin & Hr) & <- & Ht & Hk). exists s; auto.
Qed.

Lemma sub_has_holds : forall b, core_wf b -> forall id r,
    sub_has (b_subs b) id r <-> exists s, holds b r s /\ sub_id s = id.
Proof.
  intros b W id r. split.
  - intros (s & E & Hr). exists s. pose proof (wf_sub_id b W _ _ E) as Hid.
    unfold holds, sub_in. rewrite Hid. auto.
  - intros (s & (Hin & Hr) & <-). exists s; auto.
Qed.

(** meta events are never addressed to the session that caused them *)
Lemma sub_meta_event_not_cause : forall b mt cause pub args x,
    In x (sub_meta_event b mt cause pub args) -> fst x <> cause.
Proof.
  intros b mt cause pub args x. unfold sub_meta_event. rewrite in_flat_map.
  intros ([s st] & _ & H). apply in_flat_map in H. destruct H as (r & _ & H).
  destruct (N.eqb_spec r cause); [destruct H|]. destruct H as [<-|[]]. auto.
Qed.

(** ** Errors: the broker is unchanged and the only output is the ERROR *)
Theorem subscribe_invalid_uri : forall cfg b pg sid req opts topic,
    valid_uri (c_strict cfg) (opt_string opts "match") topic = false ->
    subscribe cfg b pg sid req opts topic =
    (b, pg, [(sid, RError c_SUBSCRIBE req [] e_invalid_uri [vstr "<text>"] [])]).
Proof. intros. unfold subscribe. rewrite H. reflexivity. Qed.

Theorem unsubscribe_no_such : forall b pg sid req subid,
    ~ sub_has (b_subs b) subid sid ->
    unsubscribe b pg sid req subid =
    (b, pg, [(sid, RError c_UNSUBSCRIBE req [] e_no_such_subscription [] [])]).
Proof.
  intros b pg sid req subid H. unfold unsubscribe.
  destruct (nget (b_subs b) subid) as [s|] eqn:E; auto.
  destruct (nmem sid (sub_subs s)) eqn:M; auto.
  exfalso. apply H. exists s. split; auto. now apply nmem_In.
Qed.

(** ** SUBSCRIBE: answer, stable id, exact effect *)
Theorem subscribe_effect : forall cfg b pg sid req opts topic b' pg' o,
    broker_wf b -> b_idgen b < max_idN ->
    valid_uri (c_strict cfg) (opt_string opts "match") topic = true ->
    subscribe cfg b pg sid req opts topic = (b', pg', o) ->
    let k := mkind_of (opt_string opts "match") in
    exists id rest,
      o = (sid, RSubscribed req id) :: rest /\ (forall x, In x rest -> fst x <> sid) /\
      (* stable: the id of the existing subscription for (topic, kind), else fresh *)
      (forall id0, sub_sig b id0 topic k -> id = id0) /\
      ((forall id0, ~ sub_sig b id0 topic k) ->
       id = b_idgen b + 1 /\ forall id' s', nget (b_subs b) id' = Some s' -> id' < id) /\
      (* exact effect on the holding relation *)
      (forall r id' t' k', holds_sig b' r id' t' k' <->
                           holds_sig b r id' t' k' \/ (r = sid /\ id' = id /\ t' = topic /\ k' = k)).
Proof.
  intros cfg b pg sid req opts topic b' pg' o W Hlt Hv. unfold subscribe. rewrite Hv. cbn [negb].
  destruct (init_subscription b topic (opt_string opts "match") (Some sid)) as [[b1 s] ex] eqn:Ei.
  destruct W as [Wc We Ws Wr].
  intros H. set (k := mkind_of (opt_string opts "match")).
  destruct (init_subscription_spec _ _ _ _ _ _ _ Wc Hlt Ei)
    as [(-> & -> & Es & Ht & Hk & Hm) | (-> & Hm & Hs & Wc1 & Hse & Hh & Hg & Hget & Hmap)].
  - (* existing *)
    fold k in Hk, Hm.
    assert (Hstable : forall id0, sub_sig b id0 topic k -> sub_id s = id0).
    { intros id0 (s0 & E0 & Ht0 & Hk0). pose proof (wf_sub_map b Wc _ _ E0) as M0.
      rewrite Ht0, Hk0, Hm in M0. congruence. }
    assert (Hex : sub_sig b (sub_id s) topic k) by (exists s; auto).
    cbn [andb] in H. destruct (nmem sid (sub_subs s)) eqn:Mem.
    + inversion H; subst b' pg' o; clear H. apply nmem_In in Mem.
      exists (sub_id s), []. split; [reflexivity|]. split; [intros x []|]. split; [exact Hstable|].
      split; [intros Hno; exfalso; eapply Hno; eauto|].
      intros r id' t' k'. split.
      * intros Hh; now left.
      * intros [Hh|(-> & -> & -> & ->)]; auto. exists s; auto.
    + apply nmem_false in Mem.
      set (s' := mkSub (sub_id s) (sub_topic s) (sub_match s) (sub_subs s ++ [sid])) in *.
      inversion H; subst b' pg' o; clear H.
      exists (sub_id s). eexists. split; [reflexivity|].
      split; [intros x Hx; eapply sub_meta_event_not_cause; eauto|]. split; [exact Hstable|].
      split; [intros Hno; exfalso; eapply Hno; eauto|].
      intros r id' t' k'. split.
      * change (sub_id s') with (sub_id s). rewrite !holds_sig_hsig. autorewrite with bproj.
        rewrite hsig_nset. cbn [sub_subs s' sub_topic]. change (kind s') with (kind s).
        rewrite in_app_iff. cbn [In].
        intros [(-> & Ht' & Hk' & [Hr|[<-|[]]])|[Hn Hh]]; auto.
        -- left. apply (hsig_at _ _ _ _ _ _ Es). auto.
        -- right. repeat split; congruence.
      * change (sub_id s') with (sub_id s). rewrite !holds_sig_hsig. autorewrite with bproj.
        rewrite hsig_nset. cbn [sub_subs s' sub_topic]. change (kind s') with (kind s).
        rewrite in_app_iff. cbn [In].
        intros [Hh|(-> & -> & -> & ->)].
        -- destruct (N.eq_dec id' (sub_id s)) as [->|Hn]; [left|right; auto].
           apply (hsig_at _ _ _ _ _ _ Es) in Hh. tauto.
        -- left. repeat split; auto.
  - (* new *)
    fold k in Hm, Hmap. subst s. cbn [sub_list sub_id andb] in *.
    set (id := b_idgen b + 1) in *.
    set (s := mkSub id topic (opt_string opts "match") [sid]) in *.
    inversion H; subst b' pg' o; clear H.
    assert (Hfresh : nget (b_subs b) id = None) by (apply fresh_id_absent; auto; unfold id; lia).
    assert (Hnone : forall id0, ~ sub_sig b id0 topic k).
    { intros id0 (s0 & E0 & Ht0 & Hk0). pose proof (wf_sub_map b Wc _ _ E0) as M0.
      rewrite Ht0, Hk0, Hm in M0. discriminate. }
    exists id. eexists. split; [reflexivity|].
    split; [intros x Hx; apply in_app_iff in Hx; destruct Hx as [Hx|Hx]; eapply sub_meta_event_not_cause; eauto|].
    split; [intros id0 Hs; exfalso; eapply Hnone; eauto|].
    split; [intros _; split; [reflexivity|]; intros id' s' E'; apply (wf_sub_le b Wc) in E'; unfold id; lia|].
    intros r id' t' k'. split.
    + rewrite !holds_sig_hsig. autorewrite with bproj. rewrite hsig_nset. cbn [sub_subs s sub_topic In].
      change (kind s) with k.
      intros [(-> & <- & <- & [<-|[]])|[Hn (s0 & E0 & Hh0)]]; auto.
      left. rewrite Hget in E0. destruct (N.eqb_spec id' id); [congruence|]. exists s0; auto.
    + rewrite !holds_sig_hsig. autorewrite with bproj. rewrite hsig_nset. cbn [sub_subs s sub_topic In].
      change (kind s) with k.
      intros [(s0 & E0 & Hh0)|(-> & -> & -> & ->)]; [right|left; auto].
      assert (id' <> id) by congruence. split; auto. exists s0. rewrite Hget.
      destruct (N.eqb_spec id' id); [congruence|auto].
Qed.

Corollary subscribe_id_stable : forall cfg b pg sid req opts topic b' pg' o,
    broker_wf b -> b_idgen b < max_idN ->
    valid_uri (c_strict cfg) (opt_string opts "match") topic = true ->
    subscribe cfg b pg sid req opts topic = (b', pg', o) ->
    let k := mkind_of (opt_string opts "match") in
    exists id rest,
      o = (sid, RSubscribed req id) :: rest /\ (forall x, In x rest -> fst x <> sid) /\
      (forall id0, sub_sig b id0 topic k -> id = id0) /\
      ((forall id0, ~ sub_sig b id0 topic k) -> forall id' s', nget (b_subs b) id' = Some s' -> id' < id) /\
      holds_sig b' sid id topic k.
Proof.
  intros. destruct (subscribe_effect _ _ _ _ _ _ _ _ _ _ H H0 H1 H2) as (id & rest & Ho & Hr & Hs & Hf & He).
  exists id, rest. repeat split; auto.
  - intros Hn. now apply Hf.
  - apply He. right; auto.
Qed.

Corollary subscribe_frame : forall cfg b pg sid req opts topic b' pg' o,
    broker_wf b -> b_idgen b < max_idN ->
    subscribe cfg b pg sid req opts topic = (b', pg', o) ->
    forall r, r <> sid -> forall id t k, holds_sig b' r id t k <-> holds_sig b r id t k.
Proof.
  intros cfg b pg sid req opts topic b' pg' o W Hlt H r Hn id t k.
  destruct (valid_uri (c_strict cfg) (opt_string opts "match") topic) eqn:Hv.
  - destruct (subscribe_effect _ _ _ _ _ _ _ _ _ _ W Hlt Hv H) as (id0 & rest & _ & _ & _ & _ & He).
    rewrite He. split; [intros [Hh|(E & _)]; [auto|contradiction] | auto].
  - rewrite subscribe_invalid_uri in H by auto. inversion H; subst. tauto.
Qed.

(** ** UNSUBSCRIBE *)
Theorem unsubscribe_effect : forall b pg sid req subid b' pg' o,
    core_wf b -> unsubscribe b pg sid req subid = (b', pg', o) ->
    forall r id t k, holds_sig b' r id t k <-> holds_sig b r id t k /\ ~ (r = sid /\ id = subid).
Proof.
  intros b pg sid req subid b' pg' o Wc H r id t k.
  destruct (nget (b_subs b) subid) as [s|] eqn:Es.
  2:{ rewrite unsubscribe_no_such in H by (intros (x & Ex & _); congruence).
      inversion H; subst. split; [|tauto]. intros Hh; split; auto.
      intros [-> ->]. destruct Hh as (x & Ex & _); congruence. }
  destruct (nmem sid (sub_subs s)) eqn:Mem.
  2:{ apply nmem_false in Mem.
      rewrite unsubscribe_no_such in H by (intros (x & Ex & Ix); congruence).
      inversion H; subst. split; [|tauto]. intros Hh; split; auto.
      intros [-> ->]. apply (hsig_at _ _ _ _ _ _ Es) in Hh. tauto. }
  apply nmem_In in Mem.
  revert H. unfold unsubscribe. rewrite Es.
  assert (nmem sid (sub_subs s) = true) as -> by now apply nmem_In. cbn [negb].
  pose proof (wf_sub_id b Wc _ _ Es) as Hid.
  set (s' := mkSub (sub_id s) (sub_topic s) (sub_match s) (nremove sid (sub_subs s))).
  set (del := match sub_subs s' with [] => negb (has_history b subid) | _ => false end).
  assert (Hb : forall b2, b2 = (if del then del_subscription b s' else b_set_subs b (nset (b_subs b) subid s')) ->
               (hsig (b_subs (b_set_sess b2 (sess_del_sub (b_sess b2) sid subid))) r id t k <->
                hsig (b_subs b) r id t k /\ ~ (r = sid /\ id = subid))).
  { intros b2 ->. autorewrite with bproj. destruct del eqn:Ed.
    - assert (Hempty : nremove sid (sub_subs s) = []).
      { unfold del in Ed. cbn [sub_subs s'] in Ed. destruct (nremove sid (sub_subs s)); [auto|discriminate]. }
      assert (Honly : forall x, In x (sub_subs s) -> x = sid).
      { intros x Hx. destruct (N.eq_dec x sid); auto.
        assert (In x (nremove sid (sub_subs s))) by (apply In_nremove; auto). rewrite Hempty in H; destruct H. }
      unfold del_subscription. autorewrite with bproj. cbn [sub_id s']. rewrite Hid, hsig_ndel.
      split.
      + intros [Hn Hh]. split; auto. intros [_ ?]; auto.
      + intros [Hh Hne]. split; auto. intros ->. apply (hsig_at _ _ _ _ _ _ Es) in Hh.
        destruct Hh as (_ & _ & Hr). apply Honly in Hr. auto.
    - autorewrite with bproj.
      rewrite hsig_nset. cbn [sub_subs s' sub_topic]. change (kind s') with (kind s). rewrite In_nremove.
      split.
      + intros [(-> & Ht & Hk & Hr & Hn)|[Hn Hh]].
        * split; [apply (hsig_at _ _ _ _ _ _ Es); auto|]. intros [? _]; auto.
        * split; auto. intros [_ ?]; auto.
      + intros [Hh Hne]. destruct (N.eq_dec id subid) as [->|Hn]; [left|right; auto].
        apply (hsig_at _ _ _ _ _ _ Es) in Hh. destruct Hh as (Ht & Hk & Hr).
        repeat split; auto; try (intros ->; auto). }
  fold s'. fold del. destruct del; intros H; inversion H; subst b' pg' o; rewrite !holds_sig_hsig; exact (Hb _ eq_refl).
Qed.

Theorem unsubscribe_ok : forall b pg sid req subid b' pg' o,
    sub_has (b_subs b) subid sid -> unsubscribe b pg sid req subid = (b', pg', o) ->
    exists rest, o = (sid, RUnsubscribed req) :: rest /\ forall x, In x rest -> fst x <> sid.
Proof.
  intros b pg sid req subid b' pg' o (s & Es & Hr). unfold unsubscribe. rewrite Es.
  assert (nmem sid (sub_subs s) = true) as -> by now apply nmem_In. cbn [negb].
  match goal with |- context [if ?d then del_subscription _ _ else _] => destruct d end;
    intros H; inversion H; subst; eexists; (split; [reflexivity|]); intros x Hx.
  - apply in_app_iff in Hx. destruct Hx as [Hx|Hx]; eapply sub_meta_event_not_cause; eauto.
  - eapply sub_meta_event_not_cause; eauto.
Qed.

Corollary unsubscribe_frame : forall b pg sid req subid b' pg' o,
    core_wf b -> unsubscribe b pg sid req subid = (b', pg', o) ->
    forall r, r <> sid -> forall id t k, holds_sig b' r id t k <-> holds_sig b r id t k.
Proof.
  intros b pg sid req subid b' pg' o W H r Hn id t k.
  rewrite (unsubscribe_effect _ _ _ _ _ _ _ _ W H). split; [tauto|]. intros Hh; split; auto. intros [? _]; auto.
Qed.

(** ** Session removal *)
Lemma rs_step_effect : forall sid b pg o id b' pg' o',
    core_wf b -> remove_session_sub sid (b, pg, o) id = (b', pg', o') ->
    (forall r id' t k, hsig (b_subs b') r id' t k <-> hsig (b_subs b) r id' t k /\ ~ (r = sid /\ id' = id)) /\
    (forall x, In x o' -> In x o \/ fst x <> sid).
Proof.
  intros sid b pg o id b' pg' o' Wc. unfold remove_session_sub.
  destruct (nget (b_subs b) id) as [s|] eqn:Es.
  2:{ intros H; inversion H; subst. split; auto. intros r id' t k. split; [|tauto]. intros Hh; split; auto.
      intros [-> ->]. destruct Hh as (x & Ex & _); congruence. }
  pose proof (wf_sub_id b Wc _ _ Es) as Hid.
  set (s' := mkSub (sub_id s) (sub_topic s) (sub_match s) (nremove sid (sub_subs s))).
  set (del := match sub_subs s' with [] => negb (has_history b id) | _ => false end).
  destruct del eqn:Ed.
  - assert (Hempty : nremove sid (sub_subs s) = []).
    { unfold del in Ed. cbn [sub_subs s'] in Ed. destruct (nremove sid (sub_subs s)); [auto|discriminate]. }
    assert (Honly : forall x, In x (sub_subs s) -> x = sid).
    { intros x Hx. destruct (N.eq_dec x sid); auto.
      assert (In x (nremove sid (sub_subs s))) by (apply In_nremove; auto). rewrite Hempty in H; destruct H. }
    intros H; inversion H; subst b' pg' o'; clear H. split.
    + intros r id' t k. unfold del_subscription. autorewrite with bproj. cbn [sub_id s']. rewrite Hid, hsig_ndel.
      split.
      * intros [Hn Hh]. split; auto. intros [_ ?]; auto.
      * intros [Hh Hne]. split; auto. intros ->. apply (hsig_at _ _ _ _ _ _ Es) in Hh.
        destruct Hh as (_ & _ & Hr). apply Honly in Hr. auto.
    + intros x Hx. apply in_app_iff in Hx. destruct Hx as [Hx|Hx]; auto.
      right. apply in_app_iff in Hx. destruct Hx as [Hx|Hx]; eapply sub_meta_event_not_cause; eauto.
  - intros H; inversion H; subst b' pg' o'; clear H. split.
    2:{ intros x Hx. apply in_app_iff in Hx. destruct Hx as [Hx|Hx]; auto.
        right. eapply sub_meta_event_not_cause; eauto. }
    intros r id' t k. autorewrite with bproj.
    rewrite hsig_nset. cbn [sub_subs s' sub_topic]. change (kind s') with (kind s). rewrite In_nremove.
    split.
    + intros [(-> & Ht & Hk & Hr & Hn)|[Hn Hh]].
      * split; [apply (hsig_at _ _ _ _ _ _ Es); auto|]. intros [? _]; auto.
      * split; auto. intros [_ ?]; auto.
    + intros [Hh Hne]. destruct (N.eq_dec id' id) as [->|Hn]; [left|right; auto].
      apply (hsig_at _ _ _ _ _ _ Es) in Hh. destruct Hh as (Ht & Hk & Hr).
      repeat split; auto; try (intros ->; auto).
Qed.

Lemma rs_fold_effect : forall sid ids b pg o b' pg' o',
    rs_inv sid b ids ->
    fold_left (remove_session_sub sid) ids (b, pg, o) = (b', pg', o') ->
    (forall r id' t k, hsig (b_subs b') r id' t k <-> hsig (b_subs b) r id' t k /\ ~ (r = sid /\ In id' ids)) /\
    (forall x, In x o' -> In x o \/ fst x <> sid).
Proof.
  intros sid ids; induction ids as [|id rest IH]; intros b pg o b' pg' o' Hinv; cbn [fold_left].
  - intros H; inversion H; subst. split; auto. intros. cbn [In]. tauto.
  - destruct (remove_session_sub sid (b, pg, o) id) as [[b1 pg1] o1] eqn:E1.
    destruct (rs_step _ _ _ _ _ _ _ _ _ Hinv E1) as (Hinv1 & _).
    assert (Wc : core_wf b) by apply Hinv.
    destruct (rs_step_effect _ _ _ _ _ _ _ _ Wc E1) as (He1 & Ho1).
    intros H. destruct (IH _ _ _ _ _ _ Hinv1 H) as (He' & Ho').
    split.
    + intros r id' t k. rewrite He', He1. cbn [In]. intuition congruence.
    + intros x Hx. destruct (Ho' x Hx) as [Hx1|]; auto.
Qed.

Theorem remove_session_effect : forall b pg sid b' pg' o,
    broker_wf b -> broker_remove_session b pg sid = (b', pg', o) ->
    (forall r id t k, holds_sig b' r id t k <-> holds_sig b r id t k /\ r <> sid) /\
    (forall x, In x o -> fst x <> sid).
Proof.
  intros b pg sid b' pg' o W. unfold broker_remove_session.
  destruct (nget (b_sess b) sid) as [ids|] eqn:Es.
  - intros H. apply rs_fold_effect in H; [|now apply rs_inv_init].
    destruct H as (He & Ho). split.
    + intros r id t k. rewrite !holds_sig_hsig, He. autorewrite with bproj.
      split; [|intros [Hh Hn]; split; auto; intros [? _]; auto].
      intros [Hh Hne]. split; auto. intros ->. apply Hne. split; auto.
      destruct Hh as (s & E & _ & _ & Hr).
      assert (Hs : sub_has (b_subs b) id sid) by (exists s; auto).
      apply (wf_rel b W) in Hs. destruct Hs as (ids' & E' & I'). congruence.
    + intros x Hx. destruct (Ho x Hx) as [[]|]; auto.
  - intros H; inversion H; subst b' pg' o; clear H. split; [|intros x []].
    intros r id t k. split; [|tauto]. intros Hh; split; auto. intros ->.
    destruct Hh as (s & E & _ & _ & Hr).
    assert (Hs : sub_has (b_subs b) id sid) by (exists s; auto).
    apply (wf_rel b W) in Hs. destruct Hs as (ids' & E' & _). congruence.
Qed.

Corollary remove_session_frame : forall b pg sid b' pg' o,
    broker_wf b -> broker_remove_session b pg sid = (b', pg', o) ->
    forall r, r <> sid -> forall id t k, holds_sig b' r id t k <-> holds_sig b r id t k.
Proof.
  intros b pg sid b' pg' o W H r Hn id t k.
  destruct (remove_session_effect _ _ _ _ _ _ W H) as (He & _). rewrite He. tauto.
Qed.

(** ** What PUBLISH delivers depends only on the holdings *)
Theorem publish_depends_on_holdings : forall cfg lookup now now' b1 b2 pg pub req opts topic args kw b1' pg1 o1 b2' pg2 o2 (P : N -> Prop),
    broker_wf b1 -> broker_wf b2 -> lookup_ok lookup -> pub_accepted cfg pub opts topic ->
    (forall r, P r -> forall id t k, holds_sig b1 r id t k <-> holds_sig b2 r id t k) ->
    publish cfg lookup now b1 pg pub req opts topic args kw = (b1', pg1, o1) ->
    publish cfg lookup now' b2 pg pub req opts topic args kw = (b2', pg2, o2) ->
    forall x, P (fst x) -> (In x o1 <-> In x o2).
Proof.
  intros cfg lookup now now' b1 b2 pg pub req opts topic args kw b1' pg1 o1 b2' pg2 o2 P W1 W2 Hok Hacc Hsame H1 H2 x HP.
  destruct (publish_exact _ _ _ _ _ _ _ _ _ _ _ _ _ _ W1 Hok Hacc H1) as (_ & _ & I1).
  destruct (publish_exact _ _ _ _ _ _ _ _ _ _ _ _ _ _ W2 Hok Hacc H2) as (_ & _ & I2).
  rewrite I1, I2.
  assert (Hgen : forall ba bb, broker_wf ba -> broker_wf bb ->
            (forall r, P r -> forall id t k, holds_sig ba r id t k -> holds_sig bb r id t k) ->
            (exists s r rs, receives lookup ba pub opts topic s r rs /\ x = event_for pub pg opts topic args kw s rs) ->
            (exists s r rs, receives lookup bb pub opts topic s r rs /\ x = event_for pub pg opts topic args kw s rs)).
  { intros ba bb Wa Wb Himp (s & r & rs & ((Hin & Hr) & Hm & Hne & Hl & Ha) & Hx).
    assert (Er : fst x = r) by (rewrite Hx; cbn; now apply Hok). rewrite Er in HP.
    assert (Hh : holds_sig ba r (sub_id s) (sub_topic s) (kind s)) by (exists s; auto).
    apply (Himp r HP) in Hh. destruct Hh as (s2 & E2 & Ht2 & Hk2 & Hr2).
    pose proof (wf_sub_id bb (wf_core bb Wb) _ _ E2) as Hid2.
    exists s2, r, rs. split.
    - repeat split; auto; try congruence; unfold sub_in; try (now rewrite Hid2).
    - rewrite Hx. unfold event_for. now rewrite Hid2, Hk2. }
  split; (intros [Hack|Hev]; [left; auto|right]).
  - eapply (Hgen b1 b2); eauto. intros; now apply Hsame.
  - eapply (Hgen b2 b1); eauto. intros; now apply Hsame.
Qed.
