(** * Histories of the whole model, C13 part 5: a timeout FIRES.

    [timeout_fires_proof]: in any history, let [x] have opened a call with
    request id [q] (the id was not in use: the reply monitor is shut) with a
    positive timeout that the router kept for itself (the INVOCATION carries no
    [timeout]), let no further chunk and no kill-mode CANCEL have followed, and
    let the call still be recorded when a tick crosses clock-at-the-CALL +
    timeout.  Then that tick was not crossed before, its output contains the
    timeout ERROR for ([x], [q]) exactly once, the INTERRUPT for the callee iff
    the callee announced call_canceling, and the call is erased. *)
From Nexus Require Import Router.Realm Router.AssocLemmas Router.RealmLib Router.RealmProofs
     Router.RealmMetaProofs Router.RealmLeave.
From Nexus Require Import Router.DealerLib Router.DealerProofs Router.DealerReg Router.DealerCall Router.DealerWf
     Router.DealerWfCalls Router.DealerWfRegs Router.DealerRemove Router.DealerReply Router.DealerTimers
     Router.DealerOwned Router.DealerTrace.
From Nexus Require Import Router.RealmWf Router.RealmStep Router.RealmC05 Router.RealmOutputs.
From Nexus Require Import Router.RealmTraceLib Router.RealmTrace Router.RealmTraceC05 Router.RealmTraceInv
     Router.RealmTraceC03.
From Nexus Require Import Router.RealmTraceC13 Router.RealmTraceC13Step Router.RealmTraceC13Nd Router.RealmTraceC13Inv
     Router.RealmTraceC13Thm.
From Coq Require Import Lia ZifyN ZifyNat ZifyBool.

(** ** The INTERRUPT that goes with a timeout (completeness; the ERROR is
    [DealerTimers.fire_fold_prompt]) *)
Lemma fire_fold_prompt_intr : forall lookup (l : list (N * (N * callid))) d o tid dl cid k inv x,
    calls_core d ->
    (forall t v v', In (t, v) l -> nget (d_timers d) t = Some v' -> v' = v) ->
    In (tid, (dl, cid)) l -> nget (d_timers d) tid = Some (dl, cid) ->
    pending d cid k inv x -> inv_canceled inv = false -> callee_can_cancel lookup inv = true ->
    In (interrupt_msg k inv e_timeout "killnowait") (snd (fold_left (fire_step lookup) l (d, o))).
Proof.
  intros lookup. induction l as [|[t_h [dl_h cid_h]] l IH]; intros d o tid dl cid k inv x W Cons Hin Ht Hp Hc Hcc;
    [destruct Hin|].
  cbn [fold_left].
  assert (Cons' : forall d', (forall t v, nget (d_timers d') t = Some v -> nget (d_timers d) t = Some v) ->
            forall t v v', In (t, v) l -> nget (d_timers d') t = Some v' -> v' = v).
  { intros d' Hsub t v v' Hl Hn. eapply Cons; [right; exact Hl | apply Hsub; exact Hn]. }
  destruct (fire_step_cases lookup d o t_h dl_h cid_h) as [[Ha E]|[(Ha & E & Hno)|(Ha & k_h & inv_h & x_h & Hp_h & Hc_h & E)]];
    rewrite E.
  - assert (t_h <> tid).
    { intros ->. unfold amem in Ha. fold (nget (d_timers d) tid) in Ha. rewrite Ht in Ha. discriminate. }
    destruct Hin as [Eh|Hin]; [inversion Eh; congruence|].
    eapply (IH _ _ tid dl cid k inv x); eauto.
  - destruct (N.eq_dec t_h tid) as [->|Hne].
    + exfalso. assert (Ev : (dl, cid) = (dl_h, cid_h)) by (eapply Cons; [left; reflexivity | exact Ht]).
      inversion Ev; subst dl_h cid_h. apply (pending_ct_bwd d (Some tid)) in Hp.
      specialize (Hno _ _ _ Hp). congruence.
    + destruct Hin as [Eh|Hin]; [inversion Eh; congruence|].
      eapply (IH _ _ tid dl cid k inv x); [ apply core_cancel_timer; exact W | | exact Hin | | apply pending_ct_bwd; exact Hp | exact Hc | exact Hcc ].
      * apply Cons'. intros t v. rewrite ct_timers. destruct (N.eqb t t_h); [discriminate | auto].
      * rewrite ct_timers. destruct (N.eqb_spec tid t_h); [congruence | exact Ht].
  - pose proof (core_cancel_timer d (Some t_h) W) as W1.
    assert (WD : calls_core (drop_call (cancel_state (cancel_timer d (Some t_h)) k_h inv_h) cid_h k_h))
      by (eapply core_cancel_drop; eauto).
    set (D := drop_call (cancel_state (cancel_timer d (Some t_h)) k_h inv_h) cid_h k_h) in *.
    set (o1 := o ++ (if callee_can_cancel lookup inv_h then [interrupt_msg k_h inv_h e_timeout "killnowait"] else [])
                 ++ [timeout_msg cid_h]) in *.
    apply pending_ct_fwd in Hp_h.
    destruct (pair_eqb_spec cid_h cid) as [->|Hnc].
    + assert (k_h = k) by (destruct Hp as (_ & B1 & _), Hp_h as (_ & B2 & _); congruence). subst k_h.
      assert (inv_h = inv) by (destruct Hp as (_ & _ & I1), Hp_h as (_ & _ & I2); congruence). subst inv_h.
      destruct (fire_fold_mono lookup l D o1 WD) as (_ & _ & M2).
      apply M2. unfold o1. rewrite Hcc. apply in_or_app. right. now left.
    + assert (t_h <> tid).
      { intros ->. assert (Ev : (dl, cid) = (dl_h, cid_h)) by (eapply Cons; [left; reflexivity | exact Ht]).
        inversion Ev; congruence. }
      destruct Hin as [Eh|Hin]; [inversion Eh; congruence|].
      assert (Hk : k <> k_h).
      { intros ->. destruct Hp as (_ & B1 & I1), Hp_h as (_ & B2 & I2).
        destruct (cw_bycall _ W _ _ B1) as (i1 & Hi1 & Hc1). destruct (cw_bycall _ W _ _ B2) as (i2 & Hi2 & Hc2).
        congruence. }
      eapply (IH _ _ tid dl cid k inv x); [ exact WD | | exact Hin | | | exact Hc | exact Hcc ].
      * apply Cons'. intros t v Hn. apply timers_sub_cancel_drop in Hn. rewrite ct_timers in Hn.
        destruct (N.eqb t t_h); [discriminate | auto].
      * change (d_timers D) with (d_timers (cancel_state (cancel_timer d (Some t_h)) k_h inv_h)).
        unfold cancel_state. dproj. rewrite !ct_timers.
        destruct (inv_timer inv_h) as [t'|] eqn:Et'.
        -- destruct (N.eqb_spec tid t') as [->|]; [exfalso|].
           ++ destruct Hp_h as (_ & B2 & I2). destruct (cw_bycall _ W _ _ B2) as (i2 & Hi2 & Hc2).
              assert (i2 = inv_h) by congruence. subst i2.
              pose proof (cw_timer_inj _ W _ _ _ _ _ I2 Et' Ht). congruence.
           ++ destruct (N.eqb_spec tid t_h); [congruence | exact Ht].
        -- destruct (N.eqb_spec tid t_h); [congruence | exact Ht].
      * destruct Hp as (P1 & P2 & P3). unfold pending, D.
        rewrite dc_calls, dc_bycall, dc_invs, cs_calls, cs_bycall, cs_invs, ct_calls, ct_bycall, ct_invs.
        rewrite !cget_cdel_other, cget_cset_other by congruence. auto.
Qed.

Lemma prompt_timeout_intr : forall lookup now d tid dl cid k inv x,
    calls_core d ->
    nget (d_timers d) tid = Some (dl, cid) -> dl <= now ->
    pending d cid k inv x -> inv_canceled inv = false -> callee_can_cancel lookup inv = true ->
    In (interrupt_msg k inv e_timeout "killnowait") (snd (fire_timers lookup now d)).
Proof.
  intros lookup now d tid dl cid k inv x W Ht Hdl Hp Hc Hcc. rewrite fire_timers_fold.
  eapply fire_fold_prompt_intr; eauto.
  - intros t v v' Hin Hn. apply (proj1 (In_sort_timers _ _)) in Hin. apply (proj1 (filter_In _ _ _)) in Hin. destruct Hin as [Hin _].
    apply (In_aget N.eqb N.eqb_spec) in Hin; [|apply (cw_timerkeys _ W)].
    unfold nget in Hn. congruence.
  - apply (proj2 (In_sort_timers _ _)). apply (proj2 (filter_In _ _ _)). split.
    + eapply aget_In; [apply N.eqb_spec | exact Ht].
    + apply N.leb_le. exact Hdl.
Qed.

(** ** Pure list / monitor facts *)
Lemma two_splits : forall {A} (a : list A) e1 b a' e2 b',
    a ++ e1 :: b = a' ++ e2 :: b' ->
    (a = a' /\ e1 = e2 /\ b = b') \/
    (exists l, a' = a ++ e1 :: l /\ b = l ++ e2 :: b') \/
    (exists l, a = a' ++ e2 :: l /\ b' = l ++ e1 :: b).
Proof.
  intros A. induction a as [|x a IH]; intros e1 b a' e2 b' E.
  - destruct a' as [|y a']; cbn [app] in E.
    + inversion E; subst. now left.
    + inversion E; subst. right; left. exists a'. auto.
  - destruct a' as [|y a']; cbn [app] in E.
    + inversion E; subst. right; right. exists a. auto.
    + inversion E as [[E1 E2]]. destruct (IH _ _ _ _ _ E2) as [(-> & -> & ->)|[(l & -> & ->)|(l & -> & ->)]].
      * now left.
      * right; left. exists l. auto.
      * right; right. exists l. auto.
Qed.

Lemma mon_stays_open : forall c l, (forall e, In e l -> ~ is_reply_ev c true e) -> mon_run c true l = Some true.
Proof.
  intros c. induction l as [|e l IH]; intros H; cbn [mon_run]; [reflexivity|].
  assert (E : mon_step c true e = Some true).
  { destruct e as [o|m]; cbn [mon_step]; [now rewrite orb_true_r|].
    destruct (reply_of m) as [[c' fin]|] eqn:R; [|reflexivity].
    destruct (pair_eqb_spec c' c) as [->|]; [|reflexivity].
    destruct fin; [|reflexivity]. exfalso. apply (H (EOut m)); [now left|]. exists m. auto. }
  rewrite E. apply IH. intros e' Hin. apply H. now right.
Qed.

Lemma mon_after_call : forall c st a o l,
    is_call_op c o = true -> (forall e, In e l -> ~ is_reply_ev c true e) ->
    mon_run c st (a ++ EIn o :: l) <> Some false.
Proof.
  intros c st a o l Hc Hl. rewrite mon_app. destruct (mon_run c st a) as [st1|]; [|discriminate].
  cbn [mon_run mon_step]. rewrite Hc. cbn [orb]. rewrite (mon_stays_open c l Hl). discriminate.
Qed.

(** ** The theorem *)
Theorem timeout_fires_proof : forall cfg ops1 ms ops2 pre0 x q opts proc a kw orc y i rid det rest,
    Forall op_ok (ops1 ++ OTick ms :: ops2) ->
    k0 cfg + N.of_nat (List.length (ops1 ++ OTick ms :: ops2)) <= max_idN ->
    along gate_transparent (init_realm cfg) (ops1 ++ OTick ms :: ops2) ->
    let r1 := fst (run (init_realm cfg) ops1) in
    trace cfg ops1 = pre0 ++ EIn (OMsg x (CCall q opts proc a kw) orc) :: EOut (y, RInvocation i rid det a kw) :: rest ->
    mon_run (x, q) false pre0 = Some false ->
    (0 < opt_int64 opts "timeout")%Z -> dget det "timeout" = None ->
    (forall e, In e rest -> ~ is_call_ev (x, q) e) ->
    (forall e, In e rest -> ~ kill_cancel_ev x q e) ->
    rrec r1 (x, q) ->
    clock pre0 + Z.to_N (opt_int64 opts "timeout") <= clock (trace cfg ops1) + ms ->
    let out := snd (step r1 (OTick ms)) in
    clock (trace cfg ops1) < clock pre0 + Z.to_N (opt_int64 opts "timeout") /\
    (exists o1 o2, out = o1 ++ timeout_msg (x, q) :: o2 /\
                   ~ In (timeout_msg (x, q)) o1 /\ ~ In (timeout_msg (x, q)) o2) /\
    (In (y, RInterrupt i [("reason", vuri e_timeout); ("mode", vstr "killnowait")]) out <->
     exists ys, find_session (r_clients r1) y = Some ys /\ sess_feature ys "callee" f_call_canceling = true) /\
    ~ rrec (fst (step r1 (OTick ms))) (x, q).
Proof.
  intros cfg ops1 ms ops2 pre0 x q opts proc a kw orc y i rid det rest Ho Hk Hg r1 Etr Hmon Hpos Hdet Hnc Hnk Hrec Hdue out.
  destruct (at_position cfg ops1 (OTick ms) ops2 Ho Hk Hg) as (W1 & B1 & K & On). cbv zeta in *. fold r1 in W1, B1, K, On.
  pose proof (wf_calls _ _ (rw_dealer r1 W1)) as Wc.
  (* the record of the pending call *)
  unfold rrec, drec in Hrec.
  destruct (cget (d_calls (r_dealer r1)) (x, q)) as [x0|] eqn:Hc; [|congruence].
  destruct (cw_call _ Wc _ _ Hc) as (_ & Hb0).
  destruct (cget (d_bycall (r_dealer r1)) (x, q)) as [k1|] eqn:Hb; [|congruence].
  destruct (cw_bycall _ Wc _ _ Hb) as (inv & Hi & Ec).
  pose proof (record_pending _ _ _ Wc Hi) as Hp. rewrite Ec in Hp. cbn [fst] in Hp.
  (* its history *)
  destruct (bi_open _ _ B1 _ _ Hi) as (pre0' & proc' & a' & kw' & orc' & rid' & det' & rest' & Etr' & (Q1 & Q2 & Q3) & Qt & Qc & Qf).
  rewrite Ec in *. cbn [fst snd] in *.
  assert (Same : pre0' = pre0 /\ inv_opts inv = opts /\ k1 = (y, i) /\ det' = det /\ rest' = rest).
  { rewrite Etr in Etr'. destruct (two_splits _ _ _ _ _ _ Etr') as [(E1 & E2 & E3)|[(l & E1 & E2)|(l & E1 & E2)]].
    - inversion E2; subst. inversion E3; subst. destruct k1; cbn [fst snd] in *. repeat split; congruence.
    - (* the record's opening CALL comes after ours: it would be in [rest] *)
      exfalso. destruct l as [|e l]; cbn [app] in E2; [discriminate E2|]. inversion E2 as [[X1 X2]].
      apply (Hnc (EIn (OMsg x (CCall q (inv_opts inv) proc' a' kw') orc'))).
      + rewrite X2. apply in_or_app. right. now left.
      + exists q, (inv_opts inv), proc', a', kw', orc'. auto.
    - (* it comes before ours: the monitor would be open at our CALL *)
      exfalso. destruct l as [|e l]; cbn [app] in E2; [discriminate E2|]. inversion E2 as [[X1 X2]].
      rewrite E1, <- X1 in Hmon.
      apply (mon_after_call (x, q) false pre0' (OMsg x (CCall q (inv_opts inv) proc' a' kw') orc')
                            (EOut (fst k1, RInvocation (snd k1) rid' det' a' kw') :: l)); [| |exact Hmon].
      + cbn [is_call_op]. apply pair_eqb_refl.
      + intros e0 [<-|Hin]; [intros (m & X & R); inversion X; subst m; discriminate R|].
        apply Q1. rewrite X2. apply in_or_app. now left. }
  destruct Same as (-> & Eo & -> & -> & ->). cbn [fst snd] in *.
  (* not marked, timer armed with the original deadline *)
  assert (Hcan : inv_canceled inv = false).
  { destruct (inv_canceled inv) eqn:Hcan; [|reflexivity]. destruct (Qc eq_refl) as (e & Hin & He). destruct (Hnk e Hin He). }
  rewrite Eo in Qf. destruct (Qf Hcan Hpos Hdet Hnc) as (t & Hti & Htm).
  destruct (Qt t _ _ Hti Htm) as (Hlt & _).
  rewrite (bi_now _ _ B1) in Hlt. split; [exact Hlt|].
  set (dl := clock pre0 + Z.to_N (opt_int64 opts "timeout")) in *.
  assert (Hdl : dl <= r_now r1 + ms) by (rewrite (bi_now _ _ B1); exact Hdue).
  (* the tick *)
  subst out. cbn [step] in *. set (r1' := r_set_now r1 (r_now r1 + ms)) in *.
  pose proof (prompt_timeout_proof (lookup r1') (r_now r1') (r_dealer r1') t dl (x, q) (y, i) inv x Wc Htm Hdl Hp Hcan) as [Hin Hgone].
  pose proof (prompt_timeout_intr (lookup r1') (r_now r1') (r_dealer r1') t dl (x, q) (y, i) inv x Wc Htm Hdl Hp Hcan) as Hintr.
  destruct K as (_ & _ & _ & Km).
  destruct (fire_timers (lookup r1') (r_now r1') (r_dealer r1')) as [d' out] eqn:Ef. cbn [fst snd] in *.
  split; [|split].
  - apply in_split in Hin. destruct Hin as (o1 & o2 & Eout). exists o1, o2. split; [exact Eout|].
    assert (Rt : reply_of (timeout_msg (x, q)) = Some ((x, q), true)) by reflexivity.
    split.
    + intros Hin1. apply in_split in Hin1. destruct Hin1 as (l1 & l2 & El).
      apply (On l1 (timeout_msg (x, q)) (l2 ++ timeout_msg (x, q) :: o2) (x, q)) with (m' := timeout_msg (x, q)).
      * rewrite Eout, El, <- app_assoc. reflexivity.
      * exact Rt.
      * apply in_or_app. right. now left.
      * exists true. exact Rt.
    + intros Hin2. apply (On o1 (timeout_msg (x, q)) o2 (x, q) Eout Rt _ Hin2). exists true. exact Rt.
  - split.
    + intros Hm. destruct (Km _ Hm) as (tid & dl0 & cid & k0 & inv0 & _ & _ & Hi0 & _ & _ & _ & _ & [Em|(Hcc & Em)]); [discriminate Em|].
      assert (X : y = inv_callee inv0 /\ i = snd k0) by (unfold interrupt_msg in Em; inversion Em; auto).
      destruct X as (Ey & Ei). destruct (cw_inv _ Wc _ _ Hi0) as (_ & Hce).
      assert (Ek : k0 = (y, i)) by (destruct k0; cbn [fst snd] in *; congruence).
      rewrite Ek in Hi0. assert (inv0 = inv) by congruence. subst inv0.
      pose proof (bi_nometa _ _ B1 _ _ Hi) as Hnm. cbn [fst] in Hnm.
      destruct (can_cancel_feature r1 inv W1) as (ys & F & Hf); [congruence|exact Hcc|].
      exists ys. rewrite Ey. auto.
    + intros (ys & F & Hf). destruct (cw_inv _ Wc _ _ Hi) as (_ & Hce). cbn [fst] in Hce.
      replace (y, RInterrupt i [("reason", vuri e_timeout); ("mode", vstr "killnowait")])
        with (interrupt_msg (y, i) inv e_timeout "killnowait") by (unfold interrupt_msg; rewrite Hce; reflexivity).
      apply Hintr. unfold callee_can_cancel, lookup.
      pose proof (bi_nometa _ _ B1 _ _ Hi) as Hnm. cbn [fst] in Hnm. rewrite Hce.
      cbn [r_meta r_clients r_set_now r1']. destruct (N.eqb_spec y meta_id); [contradiction|].
      change (r_clients r1') with (r_clients r1). rewrite F. exact Hf.
  - unfold rrec, drec. destruct Hgone as (G1 & _). cbn [r_dealer r_set_dealer]. rewrite G1. congruence.
Qed.

(** ** A timeout the router keeps for itself arms a timer *)
Theorem timeout_kept_arms_timer_proof : forall cfg ops1 x q opts proc a kw orc ops2 y i rid det,
    Forall op_ok (ops1 ++ OMsg x (CCall q opts proc a kw) orc :: ops2) ->
    k0 cfg + N.of_nat (List.length (ops1 ++ OMsg x (CCall q opts proc a kw) orc :: ops2)) <= max_idN ->
    along gate_transparent (init_realm cfg) (ops1 ++ OMsg x (CCall q opts proc a kw) orc :: ops2) ->
    let r1 := fst (run (init_realm cfg) ops1) in
    snd (step r1 (OMsg x (CCall q opts proc a kw) orc)) = [(y, RInvocation i rid det a kw)] ->
    ~ rrec r1 (x, q) ->
    (0 < opt_int64 opts "timeout")%Z -> dget det "timeout" = None ->
    exists t, nget (d_timers (r_dealer r1)) t = None /\
              nget (d_timers (r_dealer (fst (step r1 (OMsg x (CCall q opts proc a kw) orc))))) t =
              Some (clock (trace cfg ops1) + Z.to_N (opt_int64 opts "timeout"), (x, q)).
Proof.
  intros cfg ops1 x q opts proc a kw orc ops2 y i rid det Ho Hk Hg r1 Eout Hnr Hpos Hdet.
  destruct (at_position cfg ops1 _ ops2 Ho Hk Hg) as (W1 & B1 & K & _). cbv zeta in *. fold r1 in W1, B1, K.
  pose proof (wf_calls _ _ (rw_dealer r1 W1)) as Wc.
  cbn [step13_kind] in K. destruct (find_session (r_clients r1) x) as [s|] eqn:F.
  2:{ rewrite step_msg_eq, F in Eout. discriminate Eout. }
  cbn [msg13] in K. destruct K as [(_ & Hn)|(y' & i' & rid' & det' & Eo & _ & _ & _ & Kind)].
  { rewrite Eout in Hn. specialize (Hn _ (or_introl eq_refl)). discriminate Hn. }
  rewrite Eout in Eo. assert (X : y' = y /\ i' = i /\ det' = det) by (inversion Eo; auto). destruct X as (-> & -> & ->).
  destruct Kind as [(_ & _ & inv' & _ & _ & _ & _ & Ht)|(inv & inv' & Hi & Ec & _)].
  - destruct Ht as [(_ & _ & [Hle|Hne])|(t & _ & Hfr & Et & _ & _)]; [lia|contradiction|].
    exists t. split; [exact Hfr|]. rewrite Et, nget_nset, N.eqb_refl, (bi_now _ _ B1). reflexivity.
  - exfalso. apply Hnr. unfold rrec, drec. destruct (record_pending _ _ _ Wc Hi) as (Hc & _). rewrite Ec in Hc.
    cbn [fst] in Hc. congruence.
Qed.
