(** * Histories of the whole model, C18 part 5: a passive observer of the
    session meta events — vocabulary and the broker / dealer level facts.

    An observer [z] holds the exact subscriptions [J] on wamp.session.on_join
    and [L] on wamp.session.on_leave.  [observed z J L tr] reads off a trace
    what the observer is told: an EVENT through [J] carrying one dictionary
    with a "session" id [s] reads [(true, s)], an EVENT through [L] whose first
    argument is an id [s] reads [(false, s)].  [sess_changes A tr] are the
    attachment changes the trace defines ([RealmTraceC18.att]): the accepted
    JOINs [(true, x)] and the ends [(false, x)] of attached sessions.

    Broker level: an exact subscription receives only publications to exactly
    its topic ([matching_exact]); a publication by another session with
    options that exclude nobody reaches the observer exactly once
    ([obs_pub_one]); other sessions' SUBSCRIBE / UNSUBSCRIBE / departure and
    every publication leave the observer's holdings intact ([OBSb] frames).
    Dealer level: no dealer function sends an EVENT ([noev]). *)
From Nexus Require Import Router.Realm Router.AssocLemmas Router.RealmLib Router.RealmProofs
     Router.RealmMetaProofs Router.RealmLeave.
From Nexus Require Import Router.BrokerWf Router.BrokerPres Router.BrokerSub Router.BrokerPublish.
From Nexus Require Import Router.DealerLib Router.DealerProofs Router.DealerReg Router.DealerCall Router.DealerWf
     Router.DealerWfCalls.
From Nexus Require Import Router.RealmWf Router.RealmStep.
From Nexus Require Import Router.RealmTraceLib Router.RealmTraceC18.
From Coq Require Import Lia ZifyN ZifyNat ZifyBool.

(** ** The attachment changes of a trace *)
Definition change_step (A : list N) (e : event) : list (bool * N) :=
  match e with
  | EIn (OJoin x _ h) => if joins A x h then [(true, x)] else []
  | _ => match end_of e with Some x => if nmem x A then [(false, x)] else [] | None => [] end
  end.

Fixpoint sess_changes (A : list N) (tr : list event) : list (bool * N) :=
  match tr with
  | [] => []
  | e :: tr' => change_step A e ++ sess_changes (att_step A e) tr'
  end.

Lemma sess_changes_app : forall a b A, sess_changes A (a ++ b) = sess_changes A a ++ sess_changes (att A a) b.
Proof.
  induction a as [|e a IH]; intros b A; [reflexivity|].
  cbn [app sess_changes]. rewrite IH, att_cons, app_assoc. reflexivity.
Qed.

Lemma change_step_out : forall A x m,
    change_step A (EOut (x, m)) = if is_end m then (if nmem x A then [(false, x)] else []) else [].
Proof. intros. cbn. destruct (is_end m); reflexivity. Qed.

Lemma nmem_false_notin : forall x l, ~ In x l -> nmem x l = false.
Proof. intros x l H. destruct (nmem x l) eqn:E; [|reflexivity]. apply nmem_In in E. contradiction. Qed.

Lemma sess_changes_noend : forall o A, ~ In meta_id A -> noend o -> sess_changes A (map EOut o) = [].
Proof.
  induction o as [|[x m] o IH]; intros A H Q; [reflexivity|].
  assert (Q' : noend o) by (intros y n Hin; apply Q; now right).
  cbn [map sess_changes]. rewrite change_step_out, att_step_out.
  destruct (is_end m) eqn:E; [|cbn [app]; now apply IH].
  rewrite (Q x m (or_introl eq_refl) E), (nmem_false_notin _ _ H), nremove_notin by exact H. cbn [app]. now apply IH.
Qed.

(** an end marker for [x] among messages that are none *)
Lemma sess_changes_end : forall o1 o2 x m A,
    ~ In meta_id A -> noend o1 -> noend o2 -> is_end m = true ->
    sess_changes A (map EOut (o1 ++ (x, m) :: o2)) = if nmem x A then [(false, x)] else [].
Proof.
  intros o1 o2 x m A H Q1 Q2 E. rewrite map_app, sess_changes_app, (sess_changes_noend o1 A H Q1), (att_noend o1 A H Q1).
  cbn [map sess_changes app]. rewrite change_step_out, att_step_out, E, sess_changes_noend; [apply app_nil_r| |exact Q2].
  intros Hin. apply In_nremove in Hin. tauto.
Qed.

(** ** Lists *)
Lemma flat_map_nil_all : forall {A B} (f : A -> list B) l, (forall x, In x l -> f x = []) -> flat_map f l = [].
Proof.
  intros A B f l. induction l as [|x l IH]; intros H; [reflexivity|]. cbn [flat_map].
  rewrite (H x (or_introl eq_refl)), IH; [reflexivity|]. intros y Hy. apply H. now right.
Qed.

Lemma flat_map_single : forall {A B} (f : A -> list B) l a,
    NoDup l -> In a l -> (forall x, In x l -> x <> a -> f x = []) -> flat_map f l = f a.
Proof.
  intros A B f l a. induction l as [|x l IH]; intros ND Hin H; [destruct Hin|].
  inversion ND as [|? ? Hx ND']; subst. cbn [flat_map]. destruct Hin as [->|Hin].
  - rewrite flat_map_nil_all; [apply app_nil_r|]. intros y Hy. apply H; [now right|]. intros ->. contradiction.
  - rewrite (H x (or_introl eq_refl)); [|intros ->; contradiction]. cbn [app]. apply IH; auto.
    intros y Hy. apply H. now right.
Qed.

Lemma flat_map_flat_map : forall {A B C} (f : B -> list C) (g : A -> list B) l,
    flat_map f (flat_map g l) = flat_map (fun x => flat_map f (g x)) l.
Proof.
  intros A B C f g l. induction l as [|x l IH]; [reflexivity|]. cbn [flat_map]. now rewrite flat_map_app, IH.
Qed.

Lemma flat_map_map_in : forall {A B C} (f : B -> list C) (g : A -> B) l,
    flat_map f (map g l) = flat_map (fun x => f (g x)) l.
Proof. intros A B C f g l. induction l as [|x l IH]; [reflexivity|]. cbn [map flat_map]. now rewrite IH. Qed.

(** ** What the observer is told *)
Section Observer.
  Variables (z J L : N).

  Definition jread (args : list value) : list (bool * N) :=
    match args with
    | [VDict d] => match bind (dget d "session") as_id with Some s => [(true, s)] | None => [] end
    | _ => []
    end.
  Definition lread (args : list value) : list (bool * N) :=
    match args with
    | a :: _ => match as_id a with Some s => [(false, s)] | None => [] end
    | [] => []
    end.
  Definition sub_read (sub : N) (args : list value) : list (bool * N) :=
    if sub =? J then jread args else if sub =? L then lread args else [].
  Definition obs_msg (m : out) : list (bool * N) :=
    match m with
    | (y, REvent sub _ _ args _) => if y =? z then sub_read sub args else []
    | _ => []
    end.
  Definition obs_ev (e : event) : list (bool * N) := match e with EOut m => obs_msg m | EIn _ => [] end.
  Definition observed (tr : list event) : list (bool * N) := flat_map obs_ev tr.
  Definition obs (o : list out) : list (bool * N) := flat_map obs_msg o.

  Lemma observed_outs : forall o, observed (map EOut o) = obs o.
  Proof. intros. unfold observed, obs. now rewrite flat_map_map_in. Qed.
  Lemma observed_app : forall a b, observed (a ++ b) = observed a ++ observed b.
  Proof. intros. apply flat_map_app. Qed.
  Lemma obs_app : forall a b, obs (a ++ b) = obs a ++ obs b.
  Proof. intros. apply flat_map_app. Qed.
  Lemma obs_nil_all : forall o, (forall m, In m o -> obs_msg m = []) -> obs o = [].
  Proof. intros. now apply flat_map_nil_all. Qed.

  Lemma sub_read_other : forall sub args, sub <> J -> sub <> L -> sub_read sub args = [].
  Proof.
    intros sub args A B. unfold sub_read.
    destruct (N.eqb_spec sub J); [contradiction|]. destruct (N.eqb_spec sub L); [contradiction|reflexivity].
  Qed.

  (** no EVENT at all *)
  Definition is_ev (m : rmsg) : bool := match m with REvent _ _ _ _ _ => true | _ => false end.
  Definition noev (o : list out) : Prop := forall x m, In (x, m) o -> is_ev m = false.

  Lemma noev_nil : noev [].
  Proof. intros x m []. Qed.
  Lemma noev_app : forall a b, noev a -> noev b -> noev (a ++ b).
  Proof. intros a b A B x m H. apply in_app_or in H. destruct H; eauto. Qed.
  Lemma noev_cons : forall x m o, is_ev m = false -> noev o -> noev ((x, m) :: o).
  Proof. intros x m o A B y n [E|H]; [inversion E; subst; exact A|eauto]. Qed.
  Lemma noev_obs : forall o, noev o -> obs o = [].
  Proof. intros o H. apply obs_nil_all. intros [x m] Hin. specialize (H x m Hin). destruct m; try reflexivity; discriminate. Qed.

  (** ** Broker: the events of a publication, read by the observer *)
  Lemma obs_pub_events : forall lk pub pubid opts topic args kw subs,
      obs (pub_events lk pub pubid opts topic args kw subs) =
      flat_map (fun sst : subscription * bool =>
                  flat_map (fun rs => if s_id rs =? z then sub_read (sub_id (fst sst)) args else [])
                           (sub_targets lk (s_id pub)
                                        (match dget opts "exclude_me" with Some (VBool x) => x | _ => true end)
                                        (make_filter opts) (fst sst))) subs.
  Proof.
    intros. unfold obs, pub_events. rewrite flat_map_flat_map. apply flat_map_ext. intros [s st].
    rewrite flat_map_map_in. reflexivity.
  Qed.

  Lemma obs_pub_none : forall lk pub pubid opts topic args kw subs,
      (forall s st, In (s, st) subs -> sub_id s <> J /\ sub_id s <> L) ->
      obs (pub_events lk pub pubid opts topic args kw subs) = [].
  Proof.
    intros lk pub pubid opts topic args kw subs H. rewrite obs_pub_events.
    apply flat_map_nil_all. intros [s st] Hin. apply flat_map_nil_all. intros rs _. cbn [fst].
    destruct (H s st Hin) as [A B]. rewrite (sub_read_other _ _ A B). now destruct (s_id rs =? z).
  Qed.

  Lemma obs_sub_meta_event_none : forall b mt cause pub args,
      (forall s st, In (s, st) (matching_subs b mt) -> sub_id s <> J /\ sub_id s <> L) ->
      obs (sub_meta_event b mt cause pub args) = [].
  Proof.
    intros b mt cause pub args H. apply obs_nil_all. intros [x m] Hin.
    destruct (sub_meta_event_receivers b mt cause pub args (x, m) Hin) as (s & st & Hs & _ & E).
    cbn [snd] in E. subst m. cbn [obs_msg]. destruct (H s st Hs) as [A B].
    rewrite (sub_read_other _ _ A B). now destruct (x =? z).
  Qed.

  (** an exact subscription is matched by its own topic only *)
  Lemma matching_exact : forall b topic S T r s st,
      core_wf b -> holds_sig b r S T MExact ->
      In (s, st) (matching_subs b topic) -> sub_id s = S -> topic = T.
  Proof.
    intros b topic S T r s st W (sb & Eb & Ht & Hk & _) Hin Es.
    apply (matching_subs_In b topic W) in Hin. destruct Hin as (Hs & Hm & _).
    unfold sub_in in Hs. rewrite Es in Hs. assert (s = sb) by congruence. subst s.
    rewrite Hk in Hm. cbn [matches] in Hm. congruence.
  Qed.

  (** the observer's holdings *)
  Definition OBSb (b : broker) : Prop :=
    holds_sig b z J t_on_join MExact /\ holds_sig b z L t_on_leave MExact.

  Lemma no_JL : forall b topic, core_wf b -> OBSb b -> topic <> t_on_join -> topic <> t_on_leave ->
      forall s st, In (s, st) (matching_subs b topic) -> sub_id s <> J /\ sub_id s <> L.
  Proof.
    intros b topic W [HJ HL] N1 N2 s st Hin. split; intros E.
    - apply N1. eapply matching_exact; eauto.
    - apply N2. eapply matching_exact; eauto.
  Qed.

  (** a publication to the topic of the exact subscription [S] (one of [J],
      [L]) by a session other than [z], with options that exclude nobody:
      the observer reads it exactly once *)
  Lemma obs_pub_one : forall b lk pub pubid opts topic args kw S rs,
      core_wf b -> lookup_ok lk -> holds_sig b z S topic MExact ->
      (forall s st, In (s, st) (matching_subs b topic) -> sub_id s <> S -> sub_id s <> J /\ sub_id s <> L) ->
      lk z = Some rs -> z <> s_id pub -> allowed (make_filter opts) z (s_details rs) = true ->
      obs (pub_events lk pub pubid opts topic args kw (matching_subs b topic)) = sub_read S args.
  Proof.
    intros b lk pub pubid opts topic args kw S rs W LOK (sb & Eb & Ht & Hk & Hz) Hoth Hl Hne Hal.
    pose proof (wf_sub_id b W _ _ Eb) as Hid.
    rewrite obs_pub_events.
    rewrite (flat_map_single _ (matching_subs b topic) (sb, false)).
    - cbn [fst]. unfold sub_targets. rewrite flat_map_flat_map.
      rewrite (flat_map_single _ (sub_subs sb) z); [| exact (wf_sub_nodup b W _ _ Eb) | exact Hz |].
      + destruct (N.eqb_spec z (s_id pub)) as [E|_]; [contradiction|]. cbn [andb]. rewrite Hl, Hal.
        cbn [flat_map app]. rewrite (LOK _ _ Hl), N.eqb_refl, Hid, app_nil_r. reflexivity.
      + intros r _ Hr. destruct (N.eqb r (s_id pub) && _); [reflexivity|].
        destruct (lk r) as [rs'|] eqn:El; [|reflexivity].
        destruct (allowed _ r _); [|reflexivity]. cbn [flat_map app]. rewrite (LOK _ _ El).
        destruct (N.eqb_spec r z); [contradiction|reflexivity].
    - now apply matching_subs_NoDup.
    - apply (matching_subs_In b topic W). split; [unfold sub_in; rewrite Hid; exact Eb|].
      rewrite Hk. cbn [matches is_pattern]. auto.
    - intros [s st] Hin Hn. cbn [fst].
      assert (Hs : sub_id s <> S).
      { intros E. apply Hn. eapply matching_subs_same_id; eauto.
        - apply (matching_subs_In b topic W). split; [unfold sub_in; rewrite Hid; exact Eb|].
          rewrite Hk. cbn [matches is_pattern]. auto.
        - now rewrite Hid. }
      destruct (Hoth s st Hin Hs) as [A B]. apply flat_map_nil_all. intros rs' _.
      rewrite (sub_read_other _ _ A B). now destruct (s_id rs' =? z).
  Qed.

  (** ** The observer's holdings are left intact *)
  Lemma OBSb_subs_same : forall b b', b_subs b' = b_subs b -> OBSb b -> OBSb b'.
  Proof. intros b b' E [A B]. unfold OBSb, holds_sig in *. rewrite E. auto. Qed.

  Lemma OBSb_publish : forall cfg lk now b pg pub req opts topic args kw,
      core_wf b -> OBSb b -> OBSb (fst (fst (publish cfg lk now b pg pub req opts topic args kw))).
  Proof.
    intros cfg lk now b pg pub req opts topic args kw W H.
    destruct (publish cfg lk now b pg pub req opts topic args kw) as [[b' pg'] o] eqn:E. cbn [fst].
    destruct (publish_hist_ext _ _ _ _ _ _ _ _ _ _ _ _ _ _ W E) as (Eb & _).
    eapply OBSb_subs_same; [|exact H]. rewrite Eb. reflexivity.
  Qed.

  Lemma OBSb_subscribe : forall cfg b pg sid req opts topic,
      broker_wf b -> b_idgen b < max_idN -> OBSb b ->
      OBSb (fst (fst (subscribe cfg b pg sid req opts topic))).
  Proof.
    intros cfg b pg sid req opts topic W Hid [A B].
    destruct (valid_uri (c_strict cfg) (opt_string opts "match") topic) eqn:V.
    - destruct (subscribe cfg b pg sid req opts topic) as [[b' pg'] o] eqn:E. cbn [fst].
      destruct (subscribe_effect _ _ _ _ _ _ _ _ _ _ W Hid V E) as (id & rest & _ & _ & _ & _ & He).
      split; apply He; now left.
    - rewrite subscribe_invalid_uri by exact V. cbn [fst]. split; assumption.
  Qed.

  Lemma OBSb_unsubscribe : forall b pg sid req subid,
      core_wf b -> sid <> z -> OBSb b -> OBSb (fst (fst (unsubscribe b pg sid req subid))).
  Proof.
    intros b pg sid req subid W Hn [A B].
    destruct (unsubscribe b pg sid req subid) as [[b' pg'] o] eqn:E. cbn [fst].
    split; apply (unsubscribe_frame _ _ _ _ _ _ _ _ W E z (not_eq_sym Hn)); assumption.
  Qed.

  Lemma OBSb_remove : forall b pg sid,
      broker_wf b -> sid <> z -> OBSb b -> OBSb (fst (fst (broker_remove_session b pg sid))).
  Proof.
    intros b pg sid W Hn [A B].
    destruct (broker_remove_session b pg sid) as [[b' pg'] o] eqn:E. cbn [fst].
    split; apply (remove_session_frame _ _ _ _ _ _ W E z (not_eq_sym Hn)); assumption.
  Qed.

  (** the subscription meta events of the broker functions are not read *)
  Definition sub_topics_ok : Prop :=
    forall t, In t [t_sub_on_create; t_sub_on_subscribe; t_sub_on_unsubscribe; t_sub_on_delete] ->
              t <> t_on_join /\ t <> t_on_leave.
  Lemma sub_topics_distinct : sub_topics_ok.
  Proof. intros t H. cbn in H. destruct H as [<-|[<-|[<-|[<-|[]]]]]; split; discriminate. Qed.

  Lemma sme_none : forall b t cause pub args, core_wf b -> OBSb b ->
      In t [t_sub_on_create; t_sub_on_subscribe; t_sub_on_unsubscribe; t_sub_on_delete] ->
      obs (sub_meta_event b t cause pub args) = [].
  Proof.
    intros b t cause pub args W H Ht. destruct (sub_topics_distinct t Ht) as [N1 N2].
    apply obs_sub_meta_event_none. now apply no_JL.
  Qed.

  Lemma obs_one_noev : forall x m, is_ev m = false -> obs [(x, m)] = [].
  Proof. intros x m H. apply noev_obs. apply noev_cons; [exact H|apply noev_nil]. Qed.

  Lemma subscribe_obs : forall cfg b pg sid req opts topic,
      broker_wf b -> b_idgen b < max_idN -> OBSb b -> obs (snd (subscribe cfg b pg sid req opts topic)) = [].
  Proof.
    intros cfg b pg sid req opts topic W Hid H.
    pose proof (OBSb_subscribe cfg b pg sid req opts topic W Hid H) as H'.
    pose proof (subscribe_event_order cfg b pg sid req opts topic) as O.
    destruct (subscribe cfg b pg sid req opts topic) as [[b' pg'] o] eqn:E. cbn [fst snd] in *.
    pose proof (subscribe_wf _ _ _ _ _ _ _ _ _ _ W Hid E) as W'.
    destruct O as [(_ & _ & (e & a & ->))|[(id & _ & ->)|[(id & _ & ->)|(sb & _ & _ & _ & ->)]]].
    - now apply obs_one_noev.
    - now apply obs_one_noev.
    - rewrite obs_app, obs_one_noev by reflexivity. cbn [app].
      apply sme_none; [apply W'|exact H'|cbn; auto].
    - rewrite !obs_app, obs_one_noev by reflexivity. cbn [app].
      rewrite !sme_none; [reflexivity|apply W'|exact H'|cbn; auto|apply W'|exact H'|cbn; auto].
  Qed.

  Lemma unsubscribe_obs : forall b pg sid req subid,
      broker_wf b -> sid <> z -> OBSb b -> obs (snd (unsubscribe b pg sid req subid)) = [].
  Proof.
    intros b pg sid req subid W Hn H.
    pose proof (OBSb_unsubscribe b pg sid req subid (wf_core b W) Hn H) as H'.
    pose proof (unsubscribe_event_order b pg sid req subid) as O.
    destruct (unsubscribe b pg sid req subid) as [[b' pg'] o] eqn:E. cbn [fst snd] in *.
    pose proof (unsubscribe_wf _ _ _ _ _ _ _ _ W E) as W'.
    destruct O as [(_ & _ & ->)|[(_ & ->)|(_ & ->)]].
    - now apply obs_one_noev.
    - rewrite obs_app, obs_one_noev by reflexivity. cbn [app]. apply sme_none; [apply W'|exact H'|cbn; auto].
    - rewrite !obs_app, obs_one_noev by reflexivity. cbn [app].
      rewrite !sme_none; [reflexivity|apply W'|exact H'|cbn; auto 6|apply W'|exact H'|cbn; auto].
  Qed.

  Lemma rs_fold_obs : forall sid ids b pg o b' pg' o',
      sid <> z -> rs_inv sid b ids -> OBSb b ->
      fold_left (remove_session_sub sid) ids (b, pg, o) = (b', pg', o') -> obs o = [] -> obs o' = [].
  Proof.
    intros sid ids; induction ids as [|id rest IH]; intros b pg o b' pg' o' Hn Hinv H; cbn [fold_left].
    - intros E; inversion E; subst; auto.
    - destruct (remove_session_sub sid (b, pg, o) id) as [[b1 pg1] o1] eqn:E1.
      destruct (rs_step _ _ _ _ _ _ _ _ _ Hinv E1) as (Hinv1 & _).
      assert (Wc : core_wf b) by apply Hinv.
      destruct (rs_step_effect _ _ _ _ _ _ _ _ Wc E1) as (He1 & _).
      assert (H1 : OBSb b1).
      { destruct H as [A B]. split; apply holds_sig_hsig; apply He1; (split; [now apply holds_sig_hsig|]);
          intros [Ez _]; apply Hn; now rewrite Ez. }
      intros E Ho. apply (IH _ _ _ _ _ _ Hn Hinv1 H1 E).
      unfold remove_session_sub in E1. destruct (nget (b_subs b) id) as [s|]; [|inversion E1; subst; exact Ho].
      match type of E1 with (if ?c then _ else _) = _ => destruct c end; inversion E1; subst;
        rewrite ?obs_app, Ho; cbn [app]; rewrite !sme_none; try reflexivity;
        first [apply Hinv1 | exact H1 | cbn; auto 6].
  Qed.

  Lemma remove_obs : forall b pg sid,
      broker_wf b -> sid <> z -> OBSb b -> obs (snd (broker_remove_session b pg sid)) = [].
  Proof.
    intros b pg sid W Hn H. unfold broker_remove_session.
    destruct (nget (b_sess b) sid) as [l|] eqn:Es; [|reflexivity].
    destruct (fold_left (remove_session_sub sid) l (b_set_sess b (ndel (b_sess b) sid), pg, [])) as [[b' pg'] o'] eqn:E.
    cbn [snd]. eapply (rs_fold_obs sid l (b_set_sess b (ndel (b_sess b) sid)) pg [] b' pg' o' Hn); [apply rs_inv_init; assumption| |exact E|reflexivity].
    eapply OBSb_subs_same; [|exact H]. reflexivity.
  Qed.

  (** ** Dealer: no EVENT *)
  Ltac nv := repeat first [ apply noev_nil | apply noev_cons; [reflexivity|] | apply noev_app ].

  Lemma sync_cancel_noev : forall lk d caller req mode reason ea,
      noev (snd (sync_cancel lk d caller req mode reason ea)).
  Proof.
    intros. unfold sync_cancel.
    destruct (cget (d_calls d) (caller, req)); [|apply noev_nil].
    destruct (cget (d_bycall d) (caller, req)) as [ikey|]; [|apply noev_nil].
    destruct (cget (d_invs d) ikey) as [inv|]; [|apply noev_nil].
    destruct (inv_canceled inv); [apply noev_nil|].
    repeat match goal with |- context [if ?c then _ else _] => destruct c end; cbn [snd app]; nv.
  Qed.

  Lemma cancel_noev : forall lk d caller req opts, noev (snd (cancel lk d caller req opts)).
  Proof.
    intros. unfold cancel. destruct (_ || _ || _); [apply sync_cancel_noev|].
    destruct (String.eqb _ ""); [apply sync_cancel_noev|]. cbn [snd]. nv.
  Qed.

  Lemma sync_error_noev : forall d callee req det err args kw, noev (snd (sync_error d callee req det err args kw)).
  Proof.
    intros. unfold sync_error.
    destruct (cget (d_invs d) (callee, req)) as [inv|]; [|apply noev_nil].
    match goal with |- context [cget (d_calls ?D) ?c] => destruct (cget (d_calls D) c) end; cbn [snd]; nv.
  Qed.

  Lemma sync_yield_noev : forall lk d callee req opts args kw, noev (snd (sync_yield lk d callee req opts args kw)).
  Proof.
    intros. unfold sync_yield. cbv zeta.
    destruct (cget (d_invs d) (callee, req)) as [inv|].
    2:{ cbn [snd]. destruct (opt_bool opts "progress"); nv. }
    match goal with |- context [cget (d_calls ?D) ?c] => destruct (cget (d_calls D) c) end; [|cbn [snd]; apply noev_nil].
    repeat match goal with |- context [if ?c then _ else _] => destruct c end; cbn [snd app]; nv.
  Qed.

  Lemma call_noev : forall cfg lk now d caller req opts proc args kw oracle,
      match call cfg lk now d caller req opts proc args kw oracle with
      | CallRefused _ o => noev o | CallAbort o => noev o | CallInvoked _ _ o => noev o
      end.
  Proof.
    intros. pose proof (call_cases cfg lk now d caller req opts proc args kw oracle) as C.
    inversion C; subst; unfold no_proc_msg; nv.
  Qed.

  Lemma register_noev : forall cfg d s req opts proc, noev (snd (fst (register cfg d s req opts proc))).
  Proof.
    intros. pose proof (register_event_order cfg d s req opts proc) as O.
    destruct (register cfg d s req opts proc) as [[d' o] mps]. cbn [fst snd].
    destruct O as [(_ & _ & (e & a & ->))|(id & -> & _)]; nv.
  Qed.

  Lemma unregister_noev : forall d sid req regid, noev (snd (fst (unregister d sid req regid))).
  Proof.
    intros. pose proof (unregister_event_order d sid req regid) as O.
    destruct (unregister d sid req regid) as [[d' o] mps]. cbn [fst snd].
    destruct O as [(_ & ->)|(-> & _)]; nv.
  Qed.

  Lemma cancel_served_noev : forall lk sid acc e, noev (snd acc) -> noev (snd (cancel_served lk sid acc e)).
  Proof.
    intros lk sid [d o] [ikey i0] A. unfold cancel_served. cbn [snd] in *.
    destruct (cget (d_invs d) ikey) as [inv|]; [|exact A].
    destruct (negb (inv_callee inv =? sid)); [exact A|].
    destruct (cget (d_calls d) (inv_call inv)) as [caller|]; [|exact A].
    match goal with |- context [sync_cancel ?a ?b ?c ?d0 ?e ?f ?g] =>
      pose proof (sync_cancel_noev a b c d0 e f g) as S; destruct (sync_cancel a b c d0 e f g) as [d3 o3] end.
    cbn [snd] in *. now apply noev_app.
  Qed.

  Lemma dealer_remove_session_noev : forall lk d sid, noev (snd (fst (dealer_remove_session lk d sid))).
  Proof.
    intros lk d sid. unfold dealer_remove_session.
    destruct (fold_left (remove_callee_reg sid) _ (d, [])) as [d1 mp].
    assert (G : forall l acc, noev (snd acc) -> noev (snd (fold_left (cancel_served lk sid) l acc))).
    { induction l as [|e l IH]; intros acc A; cbn [fold_left]; [exact A|]. apply IH. now apply cancel_served_noev. }
    specialize (G (d_invs (d_set_callee_regs d1 (ndel (d_callee_regs d1) sid)))
                  (d_set_callee_regs d1 (ndel (d_callee_regs d1) sid), []) noev_nil).
    destruct (fold_left (cancel_served lk sid) _ _) as [d3 o]. exact G.
  Qed.

  Lemma fire_timers_noev : forall lk now d, noev (snd (fire_timers lk now d)).
  Proof.
    intros lk now d. rewrite fire_timers_fold.
    generalize (sort_timers (filter (fun '((_, (dl, _)) : N * (N * callid)) => dl <=? now) (d_timers d))). intros l.
    assert (G : forall l acc, noev (snd acc) -> noev (snd (fold_left (fire_step lk) l acc))).
    { clear. induction l as [|e l IH]; intros acc A; cbn [fold_left]; [exact A|]. apply IH.
      destruct acc as [d o]. destruct e as [tid [dl cid]]. unfold fire_step. cbn [snd] in *.
      destruct (amem N.eqb (d_timers d) tid); [|exact A].
      match goal with |- context [sync_cancel ?a ?b ?c ?d0 ?e0 ?f ?g] =>
        pose proof (sync_cancel_noev a b c d0 e0 f g) as S; destruct (sync_cancel a b c d0 e0 f g) as [d2 o2] end.
      cbn [snd] in *. now apply noev_app. }
    apply G. apply noev_nil.
  Qed.

  Lemma gate_refusal_noev : forall r s m out, gate r s m = inr out -> noev out.
  Proof.
    intros r s m out. unfold gate.
    destruct (c_authz (r_cfg r)) as [f|]; [|discriminate].
    destruct (s_local s && negb (c_local_authz (r_cfg r))); [discriminate|].
    destruct (f (s_id s) (s_local s) (s_details s) m); [discriminate| |];
      intros H; inversion H; subst; clear H;
      destruct m; try (destruct (opt_bool opts "acknowledge")); nv.
  Qed.
End Observer.
