(** * Histories, broker side, part 7 (C01): exact delivery of a PUBLISH at a
    reachable realm state, through the whole [Realm.step]: what [step] sends
    while handling an admitted PUBLISH is exactly what
    [BrokerPublish.publish_exact] describes — one EVENT per (matching
    subscription, subscriber) that is attached, allowed by the filter and not
    the excluded publisher, plus the PUBLISHED if asked for — and nothing else. *)
From Nexus Require Import Router.Realm Router.AssocLemmas Router.RealmLib Router.RealmProofs
     Router.RealmMetaProofs Router.RealmLeave.
From Nexus Require Import Router.BrokerWf Router.BrokerPres Router.BrokerPublish Router.BrokerSub Router.BrokerRun.
From Nexus Require Import Router.RealmWf Router.RealmStep Router.RealmC05 Router.RealmOutputs Router.RealmIdle.
From Nexus Require Import Router.RealmTraceLib Router.RealmTrace Router.RealmTraceC01Seg.
From Coq Require Import Lia ZifyN ZifyNat ZifyBool.

(** the step that handles an admitted PUBLISH *)
Lemma step_publish_eq : forall r sid s m req opts topic args kw oracle,
    find_session (r_clients r) sid = Some s ->
    gate r s m = inl (CPublish req opts topic args kw) ->
    publish_aborts (r_cfg r) s opts topic = false ->
    step r (OMsg sid m oracle) =
    let '(b, pg, o) := publish (r_cfg r) (lookup r) (r_now r) (r_broker r) (r_pubgen r) s req opts topic args kw in
    (r_set_broker r b pg, o).
Proof.
  intros r sid s m req opts topic args kw oracle F G Ab. rewrite step_msg_eq, F, G. cbn [handle].
  destruct (publish _ _ _ _ _ _ _ _ _ _ _) as [[b pg] o]. now rewrite Ab.
Qed.

Theorem step_publish_exact : forall r sid s m req opts topic args kw oracle,
    realm_wf r ->
    find_session (r_clients r) sid = Some s ->
    gate r s m = inl (CPublish req opts topic args kw) ->
    pub_accepted (r_cfg r) s opts topic ->
    let r' := fst (step r (OMsg sid m oracle)) in
    let out := snd (step r (OMsg sid m oracle)) in
    r_pubgen r' = r_pubgen r + 1 /\ r_clients r' = r_clients r /\ r_dealer r' = r_dealer r /\
    NoDup out /\
    forall x, In x out <->
      (opt_bool opts "acknowledge" = true /\ x = (sid, RPublished req (r_pubgen r + 1))) \/
      (exists sb z zs, receives (lookup r) (r_broker r) s opts topic sb z zs /\
                       x = event_for s (r_pubgen r) opts topic args kw sb zs).
Proof.
  intros r sid s m req opts topic args kw oracle W F G Acc r' out. subst r' out.
  pose proof Acc as (_ & Ab & _).
  rewrite (step_publish_eq r sid s m req opts topic args kw oracle F G Ab).
  destruct (publish _ _ _ _ _ _ _ _ _ _ _) as [[b pg] o] eqn:P. cbn [fst snd].
  destruct (publish_exact _ _ _ _ _ _ _ _ _ _ _ _ _ _ (rw_broker r W) (lookup_ok_realm r (rw_meta_id r W)) Acc P)
    as (Epg & ND & Hin).
  rewrite <- (find_session_id _ _ _ F).
  split; [exact Epg|]. split; [reflexivity|]. split; [reflexivity|]. split; [exact ND|exact Hin].
Qed.

(** refused: the only output is the ERROR (if an acknowledgement was asked
    for) and the realm is unchanged *)
Theorem step_publish_refused : forall r sid s m req opts topic args kw oracle,
    find_session (r_clients r) sid = Some s ->
    gate r s m = inl (CPublish req opts topic args kw) ->
    valid_uri (c_strict (r_cfg r)) "" topic = false \/
    (publish_aborts (r_cfg r) s opts topic = false /\ opt_bool opts "disclose_me" = true /\ c_disclose (r_cfg r) = false) ->
    fst (step r (OMsg sid m oracle)) = r /\
    exists e a, snd (step r (OMsg sid m oracle)) =
                if opt_bool opts "acknowledge" then [(sid, RError c_PUBLISH req [] e a [])] else [].
Proof.
  intros r sid s m req opts topic args kw oracle F G H.
  assert (Ab : publish_aborts (r_cfg r) s opts topic = false).
  { destruct H as [H|[H _]]; [|exact H]. unfold publish_aborts. now rewrite H. }
  rewrite (step_publish_eq r sid s m req opts topic args kw oracle F G Ab).
  rewrite <- (find_session_id _ _ _ F). unfold publish.
  destruct H as [H|(_ & Hd & Hc)].
  - rewrite H. cbn [negb fst snd]. split; [apply r_set_broker_same|eauto].
  - destruct (valid_uri (c_strict (r_cfg r)) "" topic); cbn [negb]; [|cbn [fst snd]; split; [apply r_set_broker_same|eauto]].
    rewrite Ab, Hd, Hc. cbn [negb andb fst snd]. split; [apply r_set_broker_same|eauto].
Qed.

(** passthru-mode violation: the ABORT, then the session ends *)
Theorem step_publish_aborts : forall r sid s m req opts topic args kw oracle,
    find_session (r_clients r) sid = Some s ->
    gate r s m = inl (CPublish req opts topic args kw) ->
    publish_aborts (r_cfg r) s opts topic = true ->
    step r (OMsg sid m oracle) =
    (fst (leave r sid), (sid, RAbort [("message", vstr "<text>")] e_protocol_violation) :: snd (leave r sid)).
Proof.
  intros r sid s m req opts topic args kw oracle F G Ab. rewrite step_msg_eq, F, G. cbn [handle].
  rewrite (publish_aborts_unchanged _ _ _ _ _ _ _ _ _ _ _ Ab), Ab. rewrite (find_session_id _ _ _ F).
  destruct (leave r sid). reflexivity.
Qed.

(** a publication of the meta session (meta events, testaments): same description *)
Theorem meta_publish_exact : forall r mp,
    realm_wf r -> pub_accepted (r_cfg r) (r_meta r) (mp_opts mp) (mp_topic mp) ->
    r_pubgen (fst (meta_publish r mp)) = r_pubgen r + 1 /\ NoDup (snd (meta_publish r mp)) /\
    forall x, In x (snd (meta_publish r mp)) <->
      (opt_bool (mp_opts mp) "acknowledge" = true /\ x = (meta_id, RPublished 0 (r_pubgen r + 1))) \/
      (exists sb z zs, receives (lookup r) (r_broker r) (r_meta r) (mp_opts mp) (mp_topic mp) sb z zs /\
                       x = event_for (r_meta r) (r_pubgen r) (mp_opts mp) (mp_topic mp) (mp_args mp) (mp_kw mp) sb zs).
Proof.
  intros r mp W Acc. unfold meta_publish.
  destruct (publish _ _ _ _ _ _ _ _ _ _ _) as [[b pg] o] eqn:P. cbn [fst snd r_pubgen r_set_broker].
  destruct (publish_exact _ _ _ _ _ _ _ _ _ _ _ _ _ _ (rw_broker r W) (lookup_ok_realm r (rw_meta_id r W)) Acc P)
    as (Epg & ND & Hin).
  rewrite <- (rw_meta_id r W). auto.
Qed.

(** ** At every state a history reaches *)
Theorem realm_publish_exact_proof : forall cfg ops sid s m req opts topic args kw oracle,
    Forall op_ok ops -> k0 cfg + N.of_nat (List.length ops) <= max_idN ->
    let r := fst (run (init_realm cfg) ops) in
    find_session (r_clients r) sid = Some s ->
    gate r s m = inl (CPublish req opts topic args kw) ->
    pub_accepted cfg s opts topic ->
    let r' := fst (step r (OMsg sid m oracle)) in
    let out := snd (step r (OMsg sid m oracle)) in
    r_pubgen r' = r_pubgen r + 1 /\ r_clients r' = r_clients r /\ r_dealer r' = r_dealer r /\
    NoDup out /\
    forall x, In x out <->
      (opt_bool opts "acknowledge" = true /\ x = (sid, RPublished req (r_pubgen r + 1))) \/
      (exists sb z zs, receives (lookup r) (r_broker r) s opts topic sb z zs /\
                       x = event_for s (r_pubgen r) opts topic args kw sb zs).
Proof.
  intros cfg ops sid s m req opts topic args kw oracle Ho Hk r F G Acc.
  apply step_publish_exact; auto.
  - now apply reachable_realm_wf.
  - unfold r. now rewrite run_cfg, init_realm_cfg.
Qed.

Theorem realm_publish_exact_noauthz_proof : forall cfg ops sid s req opts topic args kw oracle,
    c_authz cfg = None ->
    Forall op_ok ops -> k0 cfg + N.of_nat (List.length ops) <= max_idN ->
    let r := fst (run (init_realm cfg) ops) in
    find_session (r_clients r) sid = Some s ->
    pub_accepted cfg s opts topic ->
    let o := OMsg sid (CPublish req opts topic args kw) oracle in
    r_pubgen (fst (step r o)) = r_pubgen r + 1 /\ r_clients (fst (step r o)) = r_clients r /\
    r_dealer (fst (step r o)) = r_dealer r /\ NoDup (snd (step r o)) /\
    forall x, In x (snd (step r o)) <->
      (opt_bool opts "acknowledge" = true /\ x = (sid, RPublished req (r_pubgen r + 1))) \/
      (exists sb z zs, receives (lookup r) (r_broker r) s opts topic sb z zs /\
                       x = event_for s (r_pubgen r) opts topic args kw sb zs).
Proof.
  intros cfg ops sid s req opts topic args kw oracle Hn Ho Hk r F Acc o.
  apply (realm_publish_exact_proof cfg ops sid s (CPublish req opts topic args kw) req opts topic args kw oracle Ho Hk F); [|exact Acc].
  apply gate_none. fold r. unfold r. now rewrite run_cfg, init_realm_cfg.
Qed.
