(** * Histories of the whole model, broker side (C01, C20), part 1: every
    [Realm.step] is a sequence of broker operations interleaved with outputs
    that do not come from the broker.

    A segment is either a broker operation [SB bo] ([BrokerRun.bop]: SUBSCRIBE,
    UNSUBSCRIBE, session removal, PUBLISH — by a client or by the meta
    session) or a list of messages [SO o] the realm or the dealer sent.
    [segs_step r o] lists the segments of the step [step r o], in order; it is
    defined by recursion along the definition of [step], case by case.
    [seg_run] replays a segment list on a broker and a publication-id supply.

    [step_decomp]: replaying [segs_step r o] from the broker and the id supply
    of [r] yields exactly the broker and the id supply of [fst (step r o)] and
    exactly the output [snd (step r o)]; every broker operation is run with
    the current value of the id supply ([seg_thr]).  No hypothesis. *)
From Nexus Require Import Router.Realm Router.BrokerRun Router.RealmProofs Router.RealmMetaProofs
     Router.RealmLeave Router.RealmWf Router.RealmIdle Router.RealmTraceLib.
From Coq Require Import Lia.

Inductive seg :=
| SB (bo : bop)           (* one broker operation *)
| SO (o : list out).      (* messages sent by the realm itself or by the dealer *)

Fixpoint seg_run (cfg : config) (b : broker) (pg : N) (l : list seg) : broker * N * list out :=
  match l with
  | [] => (b, pg, [])
  | SB bo :: rest =>
      let '(b1, pg1, o1) := bstep cfg b bo in
      let '(b2, pg2, o2) := seg_run cfg b1 pg1 rest in (b2, pg2, o1 ++ o2)
  | SO o :: rest =>
      let '(b2, pg2, o2) := seg_run cfg b pg rest in (b2, pg2, o ++ o2)
  end.

(** every broker operation runs with the current value of the id supply *)
Fixpoint seg_thr (cfg : config) (b : broker) (pg : N) (l : list seg) : Prop :=
  match l with
  | [] => True
  | SB bo :: rest => bop_pg bo = pg /\ let '(b1, pg1, _) := bstep cfg b bo in seg_thr cfg b1 pg1 rest
  | SO _ :: rest => seg_thr cfg b pg rest
  end.

(** the broker operations of a segment list *)
Definition bops_of (l : list seg) : list bop :=
  flat_map (fun s => match s with SB bo => [bo] | SO _ => [] end) l.

(** ** The segments of each realm function *)

(** a publication of the meta session *)
Definition mp_bop (r : realm) (mp : metapub) : bop :=
  BPublish (r_pubgen r) (lookup r) (r_now r) (r_meta r) 0 (mp_opts mp) (mp_topic mp) (mp_args mp) (mp_kw mp).

Fixpoint segs_mps (r : realm) (mps : list metapub) : list seg :=
  match mps with
  | [] => []
  | mp :: rest => SB (mp_bop r mp) :: segs_mps (fst (meta_publish r mp)) rest
  end.

(** a session ends: the dealer's messages, the removal from the broker, then
    the meta session publishes registration events, testaments, on_leave *)
Definition segs_leave (r : realm) (sid : N) : list seg :=
  match find_session (r_clients r) sid with
  | None => []
  | Some s =>
      let r2 := r_set_testaments (r_set_clients r (del_session (r_clients r) sid)) (ndel (r_testaments r) sid) in
      let '(_, o1, mps) := dealer_remove_session (lookup r2) (r_dealer r2) sid in
      SO o1 :: SB (BRemove (r_pubgen r) sid) ::
      segs_mps (fst (fst (leave_core r sid))) (mps ++ testament_pubs r sid ++ [on_leave_pub s])
  end.

Fixpoint segs_kill (r : realm) (sids : list N) (g : rmsg) : list seg :=
  match sids with
  | [] => []
  | sid :: rest => SO [(sid, g)] :: segs_leave r sid ++ segs_kill (fst (leave r sid)) rest g
  end.

(** the meta session answers an INVOCATION *)
Definition segs_rmi (r : realm) (o : list out) (oracle : N) : list seg :=
  match o with
  | [(rcv, RInvocation invid regid details args kw)] =>
      if negb (N.eqb rcv meta_id) then [SO o]
      else
        match nget (r_metaprocs r) regid with
        | None => [SO (snd (sync_error (r_dealer r) meta_id invid [] e_no_such_procedure [] []))]
        | Some proc =>
            let '(r1, resp, kills) := meta_call r proc details args kw oracle in
            let '(d, o1) :=
              match resp with
              | MYield a k => sync_yield (lookup r1) (r_dealer r1) meta_id invid [] a k
              | MError e => sync_error (r_dealer r1) meta_id invid [] e [] []
              end in
            SO o1 :: match kills with
                     | None => []
                     | Some (sids, g) => segs_kill (r_set_dealer r1 d) sids g
                     end
        end
  | _ => [SO o]
  end.

Definition segs_handle (r : realm) (s : session) (m : cmsg) (oracle : N) : list seg :=
  let sid := s_id s in
  match m with
  | CPublish req opts topic args kw =>
      SB (BPublish (r_pubgen r) (lookup r) (r_now r) s req opts topic args kw) ::
      (if publish_aborts (r_cfg r) s opts topic then segs_leave r sid else [])
  | CSubscribe req opts topic => [SB (BSubscribe (r_pubgen r) sid req opts topic)]
  | CUnsubscribe req subid => [SB (BUnsubscribe (r_pubgen r) sid req subid)]
  | CRegister req opts proc =>
      let '(d, o, mps) := register (r_cfg r) (r_dealer r) s req opts proc in
      SO o :: segs_mps (r_set_dealer r d) mps
  | CUnregister req regid =>
      let '(d, o, mps) := unregister (r_dealer r) sid req regid in
      SO o :: segs_mps (r_set_dealer r d) mps
  | CCall req opts proc args kw =>
      match call (r_cfg r) (lookup r) (r_now r) (r_dealer r) s req opts proc args kw oracle with
      | CallRefused d o => [SO o]
      | CallAbort o =>
          SO o :: segs_leave (r_set_dealer r (call_abort_dealer (lookup r) (r_dealer r) s req opts proc oracle)) sid
      | CallInvoked d callee o => segs_rmi (update_session (r_set_dealer r d) callee) o oracle
      end
  | CCancel req opts => [SO (snd (cancel (lookup r) (r_dealer r) sid req opts))]
  | CYield req opts args kw =>
      let '(d, o) := sync_yield (lookup r) (r_dealer r) sid req opts args kw in
      SO o :: (if yield_aborts (lookup r) (r_dealer r) sid req opts then segs_leave (r_set_dealer r d) sid else [])
  | CError ty req details err args kw =>
      if negb (N.eqb ty c_INVOCATION) then SO [(sid, abort_violation)] :: segs_leave r sid
      else [SO (snd (sync_error (r_dealer r) sid req details err args kw))]
  | CGoodbye _ _ => SO [(sid, RGoodbye [] e_goodbye_and_out)] :: segs_leave r sid
  | COther _ => SO [(sid, abort_violation)] :: segs_leave r sid
  end.

Definition join_pub (r : realm) (sid : N) (local : bool) (hello : dict) : metapub :=
  mkMetaPub t_on_join [VDict (clean_details (r_cfg r) (join_details sid local hello))] [] [].

Definition segs_step (r : realm) (o : op) : list seg :=
  match o with
  | OJoin sid local hello =>
      if negb (has_role hello) || is_some (lookup r sid) then []
      else [SB (mp_bop (r_set_clients r (r_clients r ++ [mkSession sid local hello (join_details sid local hello) 0]))
                       (join_pub r sid local hello))]
  | OMsg sid m oracle =>
      match find_session (r_clients r) sid with
      | None => []
      | Some s => match gate r s m with
                  | inr out => [SO out]
                  | inl m' => segs_handle r s m' oracle
                  end
      end
  | ODrop sid => segs_leave r sid
  | OTick ms =>
      let r1 := r_set_now r (r_now r + ms) in
      [SO (snd (fire_timers (lookup r1) (r_now r1) (r_dealer r1)))]
  end.

(** the segments of a whole history *)
Fixpoint segs_run (r : realm) (ops : list op) : list seg :=
  match ops with
  | [] => []
  | o :: rest => segs_step r o ++ segs_run (fst (step r o)) rest
  end.

(** ** Replaying *)
Lemma seg_run_app : forall cfg l1 l2 b pg,
    seg_run cfg b pg (l1 ++ l2) =
    let '(b1, pg1, o1) := seg_run cfg b pg l1 in
    let '(b2, pg2, o2) := seg_run cfg b1 pg1 l2 in (b2, pg2, o1 ++ o2).
Proof.
  intros cfg l1; induction l1 as [|s l1 IH]; intros l2 b pg; cbn [app seg_run].
  - destruct (seg_run cfg b pg l2) as [[b2 pg2] o2]. reflexivity.
  - destruct s as [bo|o].
    + destruct (bstep cfg b bo) as [[b1 pg1] o1]. rewrite IH.
      destruct (seg_run cfg b1 pg1 l1) as [[b2 pg2] o2]. destruct (seg_run cfg b2 pg2 l2) as [[b3 pg3] o3].
      now rewrite app_assoc.
    + rewrite IH. destruct (seg_run cfg b pg l1) as [[b2 pg2] o2]. destruct (seg_run cfg b2 pg2 l2) as [[b3 pg3] o3].
      now rewrite app_assoc.
Qed.

Lemma seg_thr_app : forall cfg l1 l2 b pg,
    seg_thr cfg b pg (l1 ++ l2) <->
    seg_thr cfg b pg l1 /\ seg_thr cfg (fst (fst (seg_run cfg b pg l1))) (snd (fst (seg_run cfg b pg l1))) l2.
Proof.
  intros cfg l1; induction l1 as [|s l1 IH]; intros l2 b pg; cbn [app seg_thr seg_run fst snd]; [tauto|].
  destruct s as [bo|o].
  - destruct (bstep cfg b bo) as [[b1 pg1] o1]. rewrite IH.
    destruct (seg_run cfg b1 pg1 l1) as [[b2 pg2] o2]. cbn [fst snd]. tauto.
  - rewrite IH. destruct (seg_run cfg b pg l1) as [[b2 pg2] o2]. cbn [fst snd]. tauto.
Qed.

(** [l] takes the broker side of [r] to that of [r'], sending [o] *)
Definition decomp (r : realm) (l : list seg) (r' : realm) (o : list out) : Prop :=
  r_cfg r' = r_cfg r /\ seg_thr (r_cfg r) (r_broker r) (r_pubgen r) l /\
  seg_run (r_cfg r) (r_broker r) (r_pubgen r) l = (r_broker r', r_pubgen r', o).

Definition bside_eq (r r' : realm) : Prop :=
  r_cfg r' = r_cfg r /\ r_broker r' = r_broker r /\ r_pubgen r' = r_pubgen r.

Lemma decomp_nil : forall r r', bside_eq r r' -> decomp r [] r' [].
Proof. intros r r' (A & B & C). split; [exact A|]. split; [exact I|]. cbn. now rewrite B, C. Qed.

Lemma decomp_so : forall r r' o, bside_eq r r' -> decomp r [SO o] r' o.
Proof. intros r r' o (A & B & C). split; [exact A|]. split; [exact I|]. cbn. now rewrite B, C, app_nil_r. Qed.

Lemma decomp_sb : forall r r' bo o,
    r_cfg r' = r_cfg r -> bop_pg bo = r_pubgen r ->
    bstep (r_cfg r) (r_broker r) bo = (r_broker r', r_pubgen r', o) -> decomp r [SB bo] r' o.
Proof.
  intros r r' bo o A B C. split; [exact A|]. split.
  - cbn. rewrite C. auto.
  - cbn. rewrite C. now rewrite app_nil_r.
Qed.

Lemma decomp_app : forall r l1 r1 o1 l2 r2 o2,
    decomp r l1 r1 o1 -> decomp r1 l2 r2 o2 -> decomp r (l1 ++ l2) r2 (o1 ++ o2).
Proof.
  intros r l1 r1 o1 l2 r2 o2 (A1 & T1 & E1) (A2 & T2 & E2). rewrite A1 in *.
  split; [congruence|]. split.
  - apply seg_thr_app. rewrite E1. cbn [fst snd]. auto.
  - rewrite seg_run_app, E1, E2. reflexivity.
Qed.

Lemma decomp_pre : forall r0 r l r' o, bside_eq r0 r -> decomp r l r' o -> decomp r0 l r' o.
Proof. intros r0 r l r' o (A & B & C) (A1 & T1 & E1). rewrite A, B, C in *. split; [congruence|]. auto. Qed.

Lemma decomp_post : forall r l r1 r' o, decomp r l r1 o -> bside_eq r1 r' -> decomp r l r' o.
Proof. intros r l r1 r' o (A1 & T1 & E1) (A & B & C). rewrite <- B, <- C in *. split; [congruence|]. auto. Qed.

Lemma decomp_cons_so : forall r o0 l r' o, decomp r l r' o -> decomp r (SO o0 :: l) r' (o0 ++ o).
Proof.
  intros r o0 l r' o H. change (SO o0 :: l) with ([SO o0] ++ l).
  eapply decomp_app; [apply (decomp_so r r o0); repeat split|exact H].
Qed.

Lemma bside_refl : forall r, bside_eq r r.
Proof. intros; repeat split. Qed.

Lemma bside_set_dealer : forall r d, bside_eq r (r_set_dealer r d).
Proof. intros; repeat split. Qed.

(** ** The realm functions *)
Lemma decomp_meta_publish : forall r mp,
    decomp r [SB (mp_bop r mp)] (fst (meta_publish r mp)) (snd (meta_publish r mp)).
Proof.
  intros r mp. unfold meta_publish.
  destruct (publish _ _ _ _ _ _ _ _ _ _ _) as [[b pg] o] eqn:P. cbn [fst snd].
  apply decomp_sb; [reflexivity|reflexivity|]. cbn [bstep mp_bop r_set_broker r_broker r_pubgen]. exact P.
Qed.

Lemma decomp_mps : forall mps r,
    decomp r (segs_mps r mps) (fst (meta_publish_all r mps)) (snd (meta_publish_all r mps)).
Proof.
  induction mps as [|mp mps IH]; intros r.
  - apply decomp_nil, bside_refl.
  - rewrite meta_publish_all_cons. cbn [segs_mps].
    pose proof (decomp_meta_publish r mp) as D. specialize (IH (fst (meta_publish r mp))).
    destruct (meta_publish r mp) as [r1 o1]. cbn [fst snd] in *.
    destruct (meta_publish_all r1 mps) as [r2 o2]. cbn [fst snd] in *.
    change (SB (mp_bop r mp) :: segs_mps r1 mps) with ([SB (mp_bop r mp)] ++ segs_mps r1 mps).
    eapply decomp_app; eauto.
Qed.

Lemma decomp_leave : forall r sid,
    decomp r (segs_leave r sid) (fst (leave r sid)) (snd (leave r sid)).
Proof.
  intros r sid. unfold segs_leave.
  destruct (find_session (r_clients r) sid) as [s|] eqn:F.
  - rewrite (leave_event_order r sid s F).
    pose proof (decomp_mps (snd (leave_core r sid) ++ testament_pubs r sid ++ [on_leave_pub s]) (fst (fst (leave_core r sid)))) as M.
    unfold leave_core in *. cbn [r_testaments r_set_clients] in *.
    destruct (dealer_remove_session _ _ sid) as [[d o1] mps].
    cbn [r_broker r_pubgen r_set_dealer r_set_testaments r_set_clients] in *.
    destruct (broker_remove_session (r_broker r) (r_pubgen r) sid) as [[b pg] o2] eqn:B.
    cbn [fst snd] in M.
    destruct (meta_publish_all _ _) as [r5 o3]. cbn [fst snd] in *.
    rewrite <- app_assoc.
    apply decomp_cons_so.
    match goal with |- decomp _ (SB ?bo :: ?l) _ _ => change (SB bo :: l) with ([SB bo] ++ l) end.
    eapply decomp_app; [|exact M].
    apply decomp_sb; [reflexivity|reflexivity|]. cbn [bstep r_set_broker r_broker r_pubgen]. exact B.
  - rewrite (leave_absent r sid F). apply decomp_nil, bside_refl.
Qed.

Lemma decomp_kill : forall sids r g,
    decomp r (segs_kill r sids g) (fst (kill_sessions r sids g)) (snd (kill_sessions r sids g)).
Proof.
  induction sids as [|sid sids IH]; intros r g.
  - apply decomp_nil, bside_refl.
  - rewrite kill_sessions_cons. cbn [segs_kill].
    pose proof (decomp_leave r sid) as L. specialize (IH (fst (leave r sid)) g).
    destruct (leave r sid) as [r1 o1]. cbn [fst snd] in *.
    destruct (kill_sessions r1 sids g) as [r2 o2]. cbn [fst snd] in *.
    change ((sid, g) :: o1 ++ o2) with ([(sid, g)] ++ (o1 ++ o2)).
    apply decomp_cons_so. eapply decomp_app; eauto.
Qed.

Lemma meta_call_bside : forall r proc det args kw oracle,
    bside_eq r (realm_of (meta_call r proc det args kw oracle)).
Proof.
  intros. destruct (meta_call_cases r proc det args kw oracle) as [E|[(sid & s & dd & F & Hm & E)|(c & p & Ec & [E|E])]];
    cbv zeta in E; rewrite E; try (repeat split; fail).
  destruct (update_session_frame r (set_details s dd)) as (A & _ & B & _ & _ & _ & C). repeat split; assumption.
Qed.

Lemma decomp_rmi : forall r o oracle,
    decomp r (segs_rmi r o oracle) (fst (run_meta_invocation r o oracle)) (snd (run_meta_invocation r o oracle)).
Proof.
  intros r o oracle. unfold segs_rmi, run_meta_invocation.
  destruct o as [|[rcv m] l]; [apply decomp_so, bside_refl|].
  destruct m; try (apply decomp_so, bside_refl). destruct l; [|apply decomp_so, bside_refl].
  destruct (negb (rcv =? meta_id)); [apply decomp_so, bside_refl|].
  destruct (nget (r_metaprocs r) reg) as [proc|].
  - pose proof (meta_call_bside r proc details args kw oracle) as C.
    destruct (meta_call r proc details args kw oracle) as [[r1 resp] kills]. unfold realm_of in C. cbn [fst] in C.
    destruct (match resp with MYield a k => _ | MError e => _ end) as [d o1].
    destruct kills as [[sids g]|].
    + pose proof (decomp_kill sids (r_set_dealer r1 d) g) as K.
      destruct (kill_sessions (r_set_dealer r1 d) sids g) as [r3 o2]. cbn [fst snd] in *.
      apply decomp_cons_so. eapply decomp_pre; [|exact K].
      destruct C as (A & B & D). repeat split; assumption.
    + cbn [fst snd]. apply decomp_so. destruct C as (A & B & D). repeat split; assumption.
  - destruct (sync_error _ _ _ _ _ _ _) as [d o1]. cbn [fst snd]. apply decomp_so, bside_set_dealer.
Qed.

Lemma publish_aborts_unchanged : forall cfg lk now b pg pub req opts topic args kw,
    publish_aborts cfg pub opts topic = true ->
    publish cfg lk now b pg pub req opts topic args kw =
    (b, pg, [(s_id pub, RAbort [("message", vstr "<text>")] e_protocol_violation)]).
Proof.
  intros cfg lk now b pg pub req opts topic args kw H. unfold publish. rewrite H.
  unfold publish_aborts in H. destruct (valid_uri (c_strict cfg) "" topic); [reflexivity|discriminate H].
Qed.

Lemma decomp_handle : forall r s m oracle,
    decomp r (segs_handle r s m oracle) (fst (handle r s m oracle)) (snd (handle r s m oracle)).
Proof.
  intros r s m oracle.
  assert (Lv : forall r0 pre, bside_eq r r0 ->
             decomp r (SO pre :: segs_leave r0 (s_id s)) (fst (leave r0 (s_id s))) (pre ++ snd (leave r0 (s_id s)))).
  { intros r0 pre E. apply decomp_cons_so. eapply decomp_pre; [exact E|apply decomp_leave]. }
  destruct m; cbn [handle segs_handle].
  - (* PUBLISH *)
    destruct (publish_aborts (r_cfg r) s opts topic) eqn:Ab.
    + rewrite (publish_aborts_unchanged _ _ _ _ _ _ _ _ _ _ _ Ab).
      pose proof (decomp_leave r (s_id s)) as L. destruct (leave r (s_id s)) as [r1 o1]. cbn [fst snd] in *.
      match goal with |- decomp _ (SB ?bo :: ?l) _ _ => change (SB bo :: l) with ([SB bo] ++ l) end.
      eapply decomp_app; [|exact L].
      apply decomp_sb; [reflexivity|reflexivity|]. cbn [bstep]. now apply publish_aborts_unchanged.
    + destruct (publish _ _ _ _ _ _ _ _ _ _ _) as [[b pg] o] eqn:P. cbn [fst snd].
      apply decomp_sb; [reflexivity|reflexivity|]. cbn [bstep r_set_broker r_broker r_pubgen]. exact P.
  - (* SUBSCRIBE *)
    destruct (subscribe _ _ _ _ _ _ _) as [[b pg] o] eqn:P. cbn [fst snd].
    apply decomp_sb; [reflexivity|reflexivity|]. cbn [bstep r_set_broker r_broker r_pubgen]. exact P.
  - (* UNSUBSCRIBE *)
    destruct (unsubscribe _ _ _ _ _) as [[b pg] o] eqn:P. cbn [fst snd].
    apply decomp_sb; [reflexivity|reflexivity|]. cbn [bstep r_set_broker r_broker r_pubgen]. exact P.
  - (* REGISTER *)
    destruct (register _ _ _ _ _ _) as [[d o] mps].
    pose proof (decomp_mps mps (r_set_dealer r d)) as M.
    destruct (meta_publish_all _ mps) as [r1 o1]. cbn [fst snd] in *.
    apply decomp_cons_so. eapply decomp_pre; [apply bside_set_dealer|exact M].
  - (* UNREGISTER *)
    destruct (unregister _ _ _ _) as [[d o] mps].
    pose proof (decomp_mps mps (r_set_dealer r d)) as M.
    destruct (meta_publish_all _ mps) as [r1 o1]. cbn [fst snd] in *.
    apply decomp_cons_so. eapply decomp_pre; [apply bside_set_dealer|exact M].
  - (* CALL *)
    destruct (call _ _ _ _ _ _ _ _ _ _ _) as [d o|o|d callee o].
    + cbn [fst snd]. apply decomp_so, bside_set_dealer.
    + match goal with |- context [leave ?ra (s_id s)] => specialize (Lv ra o (bside_set_dealer r _)); destruct (leave ra (s_id s)) as [r1 o1] end.
      exact Lv.
    + eapply decomp_pre; [|apply decomp_rmi].
      destruct (update_session_frame (r_set_dealer r d) callee) as (A & _ & B & _ & _ & _ & C).
      repeat split; assumption.
  - (* CANCEL *)
    destruct (cancel _ _ _ _ _) as [d o]. cbn [fst snd]. apply decomp_so, bside_set_dealer.
  - (* YIELD *)
    destruct (sync_yield _ _ _ _ _ _ _) as [d o].
    destruct (yield_aborts _ _ _ _ _).
    + specialize (Lv (r_set_dealer r d) o (bside_set_dealer r d)).
      destruct (leave (r_set_dealer r d) (s_id s)) as [r1 o1]. exact Lv.
    + cbn [fst snd]. apply decomp_so, bside_set_dealer.
  - (* ERROR *)
    destruct (negb (ty =? c_INVOCATION)).
    + specialize (Lv r [(s_id s, abort_violation)] (bside_refl r)). destruct (leave r (s_id s)) as [r1 o1]. exact Lv.
    + destruct (sync_error _ _ _ _ _ _ _) as [d o]. cbn [fst snd]. apply decomp_so, bside_set_dealer.
  - specialize (Lv r [(s_id s, RGoodbye [] e_goodbye_and_out)] (bside_refl r)). destruct (leave r (s_id s)) as [r1 o1]. exact Lv.
  - specialize (Lv r [(s_id s, abort_violation)] (bside_refl r)). destruct (leave r (s_id s)) as [r1 o1]. exact Lv.
Qed.

Theorem step_decomp : forall r o, decomp r (segs_step r o) (fst (step r o)) (snd (step r o)).
Proof.
  intros r o. destruct o as [sid l h|sid m oracle|sid|ms].
  - cbn [step segs_step]. unfold join.
    destruct (negb (has_role h) || is_some (lookup r sid)); [apply decomp_nil, bside_refl|].
    cbn [s_details].
    eapply decomp_pre; [|apply decomp_meta_publish]. repeat split.
  - rewrite step_msg_eq. cbn [segs_step].
    destruct (find_session (r_clients r) sid) as [s|]; [|apply decomp_nil, bside_refl].
    destruct (gate r s m) as [m'|out]; [apply decomp_handle|apply decomp_so, bside_refl].
  - apply decomp_leave.
  - cbn [step segs_step]. destruct (fire_timers _ _ _) as [d out]. cbn [fst snd]. apply decomp_so. repeat split.
Qed.

(** ** Whole histories *)
Theorem run_decomp : forall ops r,
    decomp r (segs_run r ops) (fst (run r ops)) (List.concat (snd (run r ops))).
Proof.
  induction ops as [|o ops IH]; intros r.
  - apply decomp_nil, bside_refl.
  - rewrite run_cons. cbn [segs_run fst snd List.concat]. eapply decomp_app; [apply step_decomp|apply IH].
Qed.
