(** * [broker_wf] is preserved by every broker operation. *)
From Nexus Require Import Router.Broker Router.AssocLemmas Router.BrokerWf.
From Coq Require Import Lia ZifyN ZifyBool.

Ltac bsimp := try rewrite_strat (topdown (hints bproj)).

Lemma amem_nset : forall {V} (l : list (N * V)) k k' v, amem N.eqb (nset l k v) k' = N.eqb k' k || amem N.eqb l k'.
Proof. intros; apply (amem_aset N.eqb N.eqb_spec). Qed.

(** ** [core_wf] under the primitive table updates *)
Lemma core_wf_set_sess : forall b x, core_wf b -> core_wf (b_set_sess b x).
Proof.
  intros b x W. destruct W. split; unfold has_history in *; bsimp; auto.
Qed.

(** replace the subscriber list of an existing subscription *)
Lemma core_wf_upd : forall b id s s', core_wf b -> nget (b_subs b) id = Some s ->
    sub_id s' = sub_id s -> sub_topic s' = sub_topic s -> sub_match s' = sub_match s ->
    NoDup (sub_subs s') ->
    core_wf (b_set_subs b (nset (b_subs b) id s')).
Proof.
  intros b id s s' W E Hid Ht Hm Hn.
  assert (Hk : kind s' = kind s) by (unfold kind; congruence).
  split; unfold has_history; bsimp.
  - apply W.
  - intros k t id0 H. destruct (wf_map_sub b W k t id0 H) as (s0 & E0 & Ht0 & Hk0).
    rewrite ngs. destruct (N.eqb_spec id0 id) as [->|]; [|eauto].
    exists s'. rewrite E in E0; inversion E0; subst. repeat split; congruence.
  - apply nset_nodup, W.
  - intros id0 s0. rewrite ngs. destruct (N.eqb_spec id0 id) as [->|]; [|apply W].
    intros H; inversion H; subst. rewrite Hid. eapply wf_sub_id; eauto.
  - intros id0 s0. rewrite ngs. destruct (N.eqb_spec id0 id) as [->|]; [|apply W].
    intros H; inversion H; subst. rewrite Hk, Ht. eapply wf_sub_map; eauto.
  - intros id0 s0. rewrite ngs. destruct (N.eqb_spec id0 id) as [->|]; [|apply W].
    intros H; inversion H; subst; auto.
  - intros id0 s0. rewrite ngs. destruct (N.eqb_spec id0 id) as [->|]; [|apply W].
    intros _. eapply wf_sub_le; eauto.
  - apply W.
  - intros id0 H. rewrite ngs. destruct (N.eqb_spec id0 id); eauto. apply (wf_hist_sub b W); auto.
Qed.

(** delete a subscription that has no history store *)
Lemma core_wf_del : forall b s s', core_wf b -> nget (b_subs b) (sub_id s) = Some s ->
    sub_id s' = sub_id s -> sub_topic s' = sub_topic s -> sub_match s' = sub_match s ->
    has_history b (sub_id s) = false ->
    core_wf (del_subscription b s').
Proof.
  intros b s s' W E Hid Ht Hm Hh.
  unfold del_subscription. rewrite Hid, Ht, Hm. fold (kind s).
  remember (kind s) as k eqn:Dk. remember (sub_topic s) as t eqn:Dt. remember (sub_id s) as id eqn:Did.
  assert (Ms : sget (b_map b k) t = Some id) by (subst k t; eapply wf_sub_map; eauto).
  split; unfold has_history; bsimp.
  - intros k'. rewrite b_map_set. destruct (mkind_eqb k k'); bsimp; [apply sdel_nodup|]; apply W.
  - intros k' t0 id0. rewrite b_map_set. destruct (mkind_eqb_spec k k') as [<-|Hk]; bsimp.
    + rewrite sgd. destruct (String.eqb_spec t0 t) as [->|Hn]; [discriminate|].
      intros H. destruct (wf_map_sub b W k t0 id0 H) as (s0 & E0 & Ht0 & Hk0).
      exists s0. rewrite ngd. destruct (N.eqb_spec id0 id) as [->|]; auto.
      rewrite E in E0; inversion E0; subst. congruence.
    + intros H. destruct (wf_map_sub b W k' t0 id0 H) as (s0 & E0 & Ht0 & Hk0).
      exists s0. rewrite ngd. destruct (N.eqb_spec id0 id) as [->|]; auto.
      rewrite E in E0; inversion E0; subst. congruence.
  - apply ndel_nodup, W.
  - intros id0 s0. rewrite ngd. destruct (N.eqb_spec id0 id); [discriminate|apply W].
  - intros id0 s0. rewrite ngd. destruct (N.eqb_spec id0 id) as [|Hn]; [discriminate|].
    intros E0. pose proof (wf_sub_map b W id0 s0 E0) as M0.
    rewrite b_map_set. destruct (mkind_eqb_spec k (kind s0)) as [Hk|Hk]; bsimp; auto.
    rewrite sgd. destruct (String.eqb_spec (sub_topic s0) t) as [Et|]; [|rewrite Hk; auto].
    rewrite <- Hk, Et in M0. congruence.
  - intros id0 s0. rewrite ngd. destruct (N.eqb_spec id0 id); [discriminate|apply W].
  - intros id0 s0. rewrite ngd. destruct (N.eqb_spec id0 id); [discriminate|apply W].
  - apply W.
  - intros id0 H. rewrite ngd. destruct (N.eqb_spec id0 id) as [->|].
    + unfold has_history in Hh; congruence.
    + apply (wf_hist_sub b W); auto.
Qed.

Lemma idgen_next_lt : forall n, n < max_idN -> idgen_next n = n + 1.
Proof. intros n H. unfold idgen_next. destruct (N.leb_spec (n + 1) max_idN); lia. Qed.

Lemma idgen_next_pos : forall n, 1 <= idgen_next n.
Proof. intros n. unfold idgen_next. destruct (n + 1 <=? max_idN); lia. Qed.

Lemma fresh_id_absent : forall b, core_wf b -> forall id, b_idgen b < id -> nget (b_subs b) id = None.
Proof.
  intros b W id H. destruct (nget (b_subs b) id) eqn:E; auto.
  apply (wf_sub_le b W) in E. lia.
Qed.

(** ** [init_subscription] *)
Definition sub_list (o : option N) : list N := match o with Some x => [x] | None => [] end.

Lemma init_subscription_spec : forall b topic m sub b1 s ex,
    core_wf b -> b_idgen b < max_idN ->
    init_subscription b topic m sub = (b1, s, ex) ->
    (ex = true /\ b1 = b /\ nget (b_subs b) (sub_id s) = Some s /\ sub_topic s = topic /\
     kind s = mkind_of m /\ sget (b_map b (mkind_of m)) topic = Some (sub_id s))
    \/
    (ex = false /\ sget (b_map b (mkind_of m)) topic = None /\
     s = mkSub (b_idgen b + 1) topic m (sub_list sub) /\
     core_wf b1 /\ b_sess b1 = b_sess b /\ b_hist b1 = b_hist b /\ b_idgen b1 = b_idgen b + 1 /\
     (forall id', nget (b_subs b1) id' = if N.eqb id' (b_idgen b + 1) then Some s else nget (b_subs b) id') /\
     (forall k' t', sget (b_map b1 k') t' =
                    if mkind_eqb (mkind_of m) k' && String.eqb t' topic then Some (b_idgen b + 1)
                    else sget (b_map b k') t')).
Proof.
  intros b topic m sub b1 s ex W Hlt. unfold init_subscription.
  set (k := mkind_of m).
  destruct (sget (b_map b k) topic) as [id|] eqn:Em.
  - destruct (wf_map_sub b W k topic id Em) as (s0 & E0 & Ht0 & Hk0).
    rewrite E0. intros H; inversion H; subst b1 s ex; clear H. left.
    pose proof (wf_sub_id b W _ _ E0) as Hid. rewrite Hid. repeat split; auto.
  - rewrite idgen_next_lt by auto. set (id := b_idgen b + 1).
    intros H; inversion H; subst b1 s ex; clear H. right.
    change (match sub with Some x => [x] | None => [] end) with (sub_list sub).
    set (s := mkSub id topic m (sub_list sub)).
    bsimp.
    assert (Hfresh : nget (b_subs b) id = None) by (apply fresh_id_absent; auto; unfold id; lia).
    assert (Hget : forall id', nget (nset (b_subs b) id s) id' = if N.eqb id' id then Some s else nget (b_subs b) id')
      by (intros; apply ngs).
    assert (Hmap : forall k' t', sget (b_map (b_set_map (b_set_idgen b id) k (sset (b_map b k) topic id)) k') t' =
                    if mkind_eqb k k' && String.eqb t' topic then Some id else sget (b_map b k') t').
    { intros k' t'. rewrite b_map_set. destruct (mkind_eqb_spec k k') as [<-|]; cbn [andb]; [apply sgs|now bsimp]. }
    split; [reflexivity|]. split; [reflexivity|]. split; [reflexivity|].
    split; [|repeat split; auto].
    split; unfold has_history; bsimp.
    + intros k'. rewrite b_map_set. destruct (mkind_eqb k k'); bsimp; [apply sset_nodup|]; apply W.
    + intros k' t' id0. rewrite Hmap, Hget.
      destruct (mkind_eqb_spec k k') as [<-|Hk]; cbn [andb].
      * destruct (String.eqb_spec t' topic) as [->|Ht].
        -- intros H; inversion H; subst id0. rewrite N.eqb_refl. exists s; auto.
        -- intros H. destruct (wf_map_sub b W k t' id0 H) as (s0 & E0 & R).
           destruct (N.eqb_spec id0 id) as [->|]; [congruence|eauto].
      * intros H. destruct (wf_map_sub b W k' t' id0 H) as (s0 & E0 & R).
        destruct (N.eqb_spec id0 id) as [->|]; [congruence|eauto].
    + apply nset_nodup, W.
    + intros id0 s0. rewrite Hget. destruct (N.eqb_spec id0 id) as [->|]; [|apply W].
      intros H; inversion H; subst; reflexivity.
    + intros id0 s0. rewrite Hget. destruct (N.eqb_spec id0 id) as [->|Hn].
      * intros H; inversion H; subst s0. rewrite Hmap. change (kind s) with k. cbn [sub_topic s].
        destruct (mkind_eqb_spec k k); [|congruence]. now rewrite String.eqb_refl.
      * intros E0. rewrite Hmap. pose proof (wf_sub_map b W _ _ E0) as M0.
        destruct (mkind_eqb_spec k (kind s0)) as [Hk|]; cbn [andb]; auto.
        destruct (String.eqb_spec (sub_topic s0) topic) as [Et|]; auto.
        rewrite <- Hk, Et in M0. congruence.
    + intros id0 s0. rewrite Hget. destruct (N.eqb_spec id0 id) as [->|]; [|apply W].
      intros H; inversion H; subst s0. cbn. destruct sub; cbn; repeat constructor; intros [].
    + intros id0 s0. rewrite Hget. destruct (N.eqb_spec id0 id) as [->|].
      * intros _. unfold id; lia.
      * intros E0. apply (wf_sub_le b W) in E0. unfold id; lia.
    + apply W.
    + intros id0 H0. rewrite Hget. destruct (N.eqb_spec id0 id); eauto. apply (wf_hist_sub b W); auto.
Qed.

(** ** SUBSCRIBE *)
Lemma NoDup_snoc_N : forall (l : list N) x, NoDup l -> ~ In x l -> NoDup (l ++ [x]).
Proof. intros; now apply NoDup_snoc. Qed.

Theorem subscribe_wf : forall cfg b pg sid req opts topic b' pg' o,
    broker_wf b -> b_idgen b < max_idN ->
    subscribe cfg b pg sid req opts topic = (b', pg', o) -> broker_wf b'.
Proof.
  intros cfg b pg sid req opts topic b' pg' o W Hlt. unfold subscribe.
  destruct (negb (valid_uri (c_strict cfg) (opt_string opts "match") topic)).
  { intros H; inversion H; subst; auto. }
  destruct (init_subscription b topic (opt_string opts "match") (Some sid)) as [[b1 s] ex] eqn:Ei.
  destruct W as [Wc We Ws Wr].
  destruct (init_subscription_spec _ _ _ _ _ _ _ Wc Hlt Ei)
    as [(-> & -> & Es & Ht & Hk & Hm) | (-> & Hm & Hs & Wc1 & Hse & Hh & Hg & Hget & Hmap)].
  - (* existing subscription *)
    cbn [andb]. destruct (nmem sid (sub_subs s)) eqn:Mem.
    { intros H; inversion H; subst. split; auto. }
    apply nmem_false in Mem.
    set (s' := mkSub (sub_id s) (sub_topic s) (sub_match s) (sub_subs s ++ [sid])).
    intros H; inversion H; subst b' pg' o; clear H.
    change (sub_id s') with (sub_id s).
    split; bsimp.
    + apply core_wf_set_sess. eapply core_wf_upd; eauto.
      cbn. apply NoDup_snoc_N; auto. eapply wf_sub_nodup; eauto.
    + intros id0 s0. unfold has_history; bsimp. rewrite ngs.
      destruct (N.eqb_spec id0 (sub_id s)) as [->|]; [|apply We].
      intros E0; inversion E0; subst s0. cbn. intros E1. destruct (sub_subs s); discriminate.
    + now apply sess_ok_add.
    + intros sid' id'. bsimp. rewrite sess_has_add, sub_has_nset, (Wr sid' id').
      cbn [sub_subs s']. rewrite in_app_iff.
      destruct (N.eq_dec id' (sub_id s)) as [->|Hn].
      * assert (sub_has (b_subs b) (sub_id s) sid' <-> In sid' (sub_subs s)).
        { split; [intros (x & Ex & Ix); congruence | intros; exists s; auto]. }
        cbn [In]. intuition congruence.
      * intuition congruence.
  - (* new subscription *)
    cbn [andb]. subst s. cbn [sub_list sub_id] in *.
    set (id := b_idgen b + 1) in *.
    set (s := mkSub id topic (opt_string opts "match") [sid]) in *.
    intros H; inversion H; subst b' pg' o; clear H.
    assert (Hfresh : nget (b_subs b) id = None) by (apply fresh_id_absent; auto; unfold id; lia).
    assert (E1 : nget (b_subs b1) id = Some s) by (rewrite Hget, N.eqb_refl; auto).
    split; bsimp.
    + apply core_wf_set_sess. eapply core_wf_upd; eauto. apply (wf_sub_nodup b1 Wc1 id s E1).
    + intros id0 s0. unfold has_history; bsimp. rewrite ngs, Hh.
      destruct (N.eqb_spec id0 id) as [->|Hn].
      * intros E0; inversion E0; subst s0. discriminate.
      * rewrite Hget. destruct (N.eqb_spec id0 id); [congruence|apply We].
    + rewrite Hse. now apply sess_ok_add.
    + intros sid' id'. bsimp. rewrite Hse, sess_has_add, sub_has_nset, (Wr sid' id').
      assert (Hold : forall x, ~ sub_has (b_subs b) id x) by (intros x (y & Ey & _); congruence).
      assert (Hoth : id' <> id -> (sub_has (b_subs b1) id' sid' <-> sub_has (b_subs b) id' sid')).
      { intros Hn. unfold sub_has. rewrite Hget. destruct (N.eqb_spec id' id); [congruence|tauto]. }
      cbn [sub_subs s In].
      destruct (N.eq_dec id' id) as [->|Hn].
      * specialize (Hold sid'). intuition congruence.
      * specialize (Hoth Hn). intuition congruence.
Qed.

(** ** UNSUBSCRIBE *)
Lemma has_history_del_subscription : forall b s id, has_history (del_subscription b s) id = has_history b id.
Proof. intros. unfold has_history, del_subscription. now bsimp. Qed.

Theorem unsubscribe_wf : forall b pg sid req subid b' pg' o,
    broker_wf b -> unsubscribe b pg sid req subid = (b', pg', o) -> broker_wf b'.
Proof.
  intros b pg sid req subid b' pg' o W. unfold unsubscribe.
  destruct (nget (b_subs b) subid) as [s|] eqn:Es; [|intros H; inversion H; subst; auto].
  destruct (nmem sid (sub_subs s)) eqn:Mem; cbn [negb]; [|intros H; inversion H; subst; auto].
  apply nmem_In in Mem.
  destruct W as [Wc We Ws Wr].
  pose proof (wf_sub_id b Wc _ _ Es) as Hid.
  set (s' := mkSub (sub_id s) (sub_topic s) (sub_match s) (nremove sid (sub_subs s))).
  set (del := match sub_subs s' with [] => negb (has_history b subid) | _ => false end).
  assert (Hhas : forall x, sub_has (b_subs b) subid x <-> In x (sub_subs s)).
  { intros x; split; [intros (y & Ey & Iy); congruence | intros; exists s; auto]. }
  assert (Hb' : broker_wf (b_set_sess (if del then del_subscription b s' else b_set_subs b (nset (b_subs b) subid s'))
                                      (sess_del_sub (b_sess (if del then del_subscription b s' else b_set_subs b (nset (b_subs b) subid s'))) sid subid))).
  { destruct del eqn:Ed.
    - (* the subscription is deleted *)
      assert (Hempty : nremove sid (sub_subs s) = []).
      { unfold del in Ed. cbn [sub_subs s'] in Ed. destruct (nremove sid (sub_subs s)); [auto|discriminate]. }
      assert (Hnh : has_history b subid = false).
      { unfold del in Ed. cbn [sub_subs s'] in Ed. rewrite Hempty in Ed. destruct (has_history b subid); auto; discriminate. }
      assert (Honly : forall x, In x (sub_subs s) -> x = sid).
      { intros x Hx. destruct (N.eq_dec x sid); auto.
        assert (In x (nremove sid (sub_subs s))) by (apply In_nremove; auto). rewrite Hempty in H; destruct H. }
      assert (Hsess : b_sess (del_subscription b s') = b_sess b) by (unfold del_subscription; now bsimp).
      assert (Hsubs : b_subs (del_subscription b s') = ndel (b_subs b) subid)
        by (unfold del_subscription; bsimp; cbn [sub_id s']; now rewrite Hid).
      split; bsimp.
      + apply core_wf_set_sess. eapply core_wf_del with (s := s); eauto; rewrite Hid; auto.
      + intros id0 s0. unfold has_history; bsimp. fold (has_history (del_subscription b s') id0).
        rewrite has_history_del_subscription, Hsubs, ngd.
        destruct (N.eqb_spec id0 subid); [discriminate|apply We].
      + rewrite Hsess. now apply sess_ok_del.
      + intros sid' id'. bsimp. rewrite Hsess, Hsubs, sess_has_del, sub_has_ndel, (Wr sid' id').
        destruct (N.eq_dec id' subid) as [->|Hn].
        * rewrite Hhas. split; [|tauto]. intros [Hi Hne]. apply Honly in Hi. tauto.
        * tauto.
    - (* the subscription stays *)
      split; bsimp.
      + apply core_wf_set_sess. eapply core_wf_upd; eauto.
        cbn. apply NoDup_nremove. eapply wf_sub_nodup; eauto.
      + intros id0 s0. unfold has_history; bsimp. rewrite ngs.
        destruct (N.eqb_spec id0 subid) as [->|]; [|apply We].
        intros E0; inversion E0; subst s0. intros E1.
        unfold del in Ed. rewrite E1 in Ed. unfold has_history in Ed.
        destruct (amem N.eqb (b_hist b) subid); auto; discriminate.
      + now apply sess_ok_del.
      + intros sid' id'. bsimp. rewrite sess_has_del, sub_has_nset, (Wr sid' id').
        cbn [sub_subs s']. rewrite In_nremove.
        destruct (N.eq_dec id' subid) as [->|Hn].
        * rewrite Hhas. intuition congruence.
        * intuition congruence. }
  fold s'. fold del. destruct del; intros H; inversion H; subst; exact Hb'.
Qed.

(** ** Session removal *)
Definition rs_inv (sid : N) (b : broker) (rest : list N) : Prop :=
  core_wf b /\ empty_ok b /\ sess_ok (b_sess b) /\
  (forall sid' id, sid' <> sid -> (sess_has (b_sess b) sid' id <-> sub_has (b_subs b) id sid')) /\
  nget (b_sess b) sid = None /\
  (forall id, sub_has (b_subs b) id sid -> In id rest).

Lemma rs_inv_intro : forall sid b rest,
  core_wf b -> empty_ok b -> sess_ok (b_sess b) ->
  (forall sid' id, sid' <> sid -> sess_has (b_sess b) sid' id -> sub_has (b_subs b) id sid') ->
  (forall sid' id, sid' <> sid -> sub_has (b_subs b) id sid' -> sess_has (b_sess b) sid' id) ->
  nget (b_sess b) sid = None ->
  (forall id, sub_has (b_subs b) id sid -> In id rest) -> rs_inv sid b rest.
Proof.
  intros sid b rest H1 H2 H3 H4 H5 H6 H7. unfold rs_inv.
  split; [auto|]. split; [auto|]. split; [auto|]. split; [|auto].
  intros; split; auto.
Qed.

Lemma rs_inv_init : forall sid b ids, broker_wf b -> nget (b_sess b) sid = Some ids ->
  rs_inv sid (b_set_sess b (ndel (b_sess b) sid)) ids.
Proof.
  intros sid b ids [Wc We Ws Wr] Es. apply rs_inv_intro; bsimp.
  - now apply core_wf_set_sess.
  - exact We.
  - apply (sess_ok_ndel _ sid Ws).
  - intros sid' id Hn. rewrite sess_has_ndel. intros [_ Hh]. now apply Wr.
  - intros sid' id Hn. rewrite sess_has_ndel. intros Hh. split; auto. now apply Wr.
  - apply ngd_same.
  - intros id Hh. apply Wr in Hh. destruct Hh as (x & Ex & Ix). congruence.
Qed.

Lemma rs_step : forall sid b pg o id rest b' pg' o',
    rs_inv sid b (id :: rest) ->
    remove_session_sub sid (b, pg, o) id = (b', pg', o') ->
    rs_inv sid b' rest /\ b_sess b' = b_sess b /\ b_hist b' = b_hist b /\ b_idgen b' = b_idgen b.
Proof.
  intros sid b pg o id rest b' pg' o' (Wc & We & Ws & Wr & Hno & Hrest). unfold remove_session_sub.
  destruct (nget (b_subs b) id) as [s|] eqn:Es.
  2:{ intros H; inversion H; subst b' pg' o'. split; [|auto]. apply rs_inv_intro; auto.
      - intros sid' id0 Hn Hh. now apply (Wr _ _ Hn).
      - intros sid' id0 Hn Hh. now apply (Wr _ _ Hn).
      - intros id0 Hh. destruct (Hrest id0 Hh) as [<-|]; auto. destruct Hh as (x & Ex & _); congruence. }
  pose proof (wf_sub_id b Wc _ _ Es) as Hid.
  set (s' := mkSub (sub_id s) (sub_topic s) (sub_match s) (nremove sid (sub_subs s))).
  set (del := match sub_subs s' with [] => negb (has_history b id) | _ => false end).
  assert (Hhas : forall x, sub_has (b_subs b) id x <-> In x (sub_subs s)).
  { intros x; split; [intros (y & Ey & Iy); congruence | intros; exists s; auto]. }
  destruct del eqn:Ed.
  - assert (Hempty : nremove sid (sub_subs s) = []).
    { unfold del in Ed. cbn [sub_subs s'] in Ed. destruct (nremove sid (sub_subs s)); [auto|discriminate]. }
    assert (Hnh : has_history b id = false).
    { unfold del in Ed. cbn [sub_subs s'] in Ed. rewrite Hempty in Ed. destruct (has_history b id); auto; discriminate. }
    assert (Honly : forall x, In x (sub_subs s) -> x = sid).
    { intros x Hx. destruct (N.eq_dec x sid); auto.
      assert (In x (nremove sid (sub_subs s))) by (apply In_nremove; auto). rewrite Hempty in H; destruct H. }
    assert (Hsess : b_sess (del_subscription b s') = b_sess b) by (unfold del_subscription; now bsimp).
    assert (Hsubs : b_subs (del_subscription b s') = ndel (b_subs b) id)
      by (unfold del_subscription; bsimp; cbn [sub_id s']; now rewrite Hid).
    intros H; inversion H; subst b' pg' o'; clear H.
    split; [apply rs_inv_intro | repeat split; unfold del_subscription; now bsimp].
    + eapply core_wf_del with (s := s); eauto; rewrite Hid; auto.
    + intros id0 s0. rewrite has_history_del_subscription, Hsubs, ngd.
      destruct (N.eqb_spec id0 id); [discriminate|apply We].
    + rewrite Hsess; apply Ws.
    + intros sid' id0 H. rewrite Hsess, Hsubs, sub_has_ndel. intros Hh. apply (Wr _ _ H) in Hh. split; auto.
      intros ->. apply Hhas, Honly in Hh. contradiction.
    + intros sid' id0 H. rewrite Hsess, Hsubs, sub_has_ndel. intros [_ Hh]. now apply Wr.
    + rewrite Hsess; auto.
    + rewrite Hsubs. intros id0. rewrite sub_has_ndel. intros [Hn Hh].
      destruct (Hrest id0 Hh); [congruence|auto].
  - intros H; inversion H; subst b' pg' o'; clear H.
    split; [apply rs_inv_intro; bsimp | repeat split; now bsimp].
    + eapply core_wf_upd; eauto. cbn. apply NoDup_nremove. eapply wf_sub_nodup; eauto.
    + intros id0 s0. unfold has_history; bsimp. rewrite ngs.
      destruct (N.eqb_spec id0 id) as [->|]; [|apply We].
      intros E0; inversion E0; subst s0. intros E1.
      unfold del in Ed. rewrite E1 in Ed. unfold has_history in Ed.
      destruct (amem N.eqb (b_hist b) id); auto; discriminate.
    + apply Ws.
    + intros sid' id0 H. rewrite sub_has_nset. intros Hh. apply (Wr _ _ H) in Hh. cbn [sub_subs s']. rewrite In_nremove.
      destruct (N.eq_dec id0 id) as [->|]; [left|right]; auto. apply Hhas in Hh. auto.
    + intros sid' id0 H. rewrite sub_has_nset. cbn [sub_subs s']. rewrite In_nremove. intros [[-> [Hi _]]|[_ Hh]]; apply Wr; auto.
      now apply Hhas.
    + auto.
    + intros id0. rewrite sub_has_nset. cbn [sub_subs s']. rewrite In_nremove.
      intros [[_ [_ Hn]]|[Hn Hh]]; [congruence|]. destruct (Hrest id0 Hh); [congruence|auto].
Qed.

Lemma rs_fold : forall sid ids b pg o b' pg' o',
    rs_inv sid b ids ->
    fold_left (remove_session_sub sid) ids (b, pg, o) = (b', pg', o') ->
    rs_inv sid b' [] /\ b_sess b' = b_sess b /\ b_hist b' = b_hist b /\ b_idgen b' = b_idgen b.
Proof.
  intros sid ids; induction ids as [|id rest IH]; intros b pg o b' pg' o' Hinv; cbn [fold_left].
  - intros H; inversion H; subst; auto.
  - destruct (remove_session_sub sid (b, pg, o) id) as [[b1 pg1] o1] eqn:E1.
    destruct (rs_step _ _ _ _ _ _ _ _ _ Hinv E1) as (Hinv1 & Hs1 & Hh1 & Hg1).
    intros H. destruct (IH _ _ _ _ _ _ Hinv1 H) as (Hinv' & Hs' & Hh' & Hg').
    split; [auto|]. split; [congruence|]. split; congruence.
Qed.

Theorem remove_session_wf : forall b pg sid b' pg' o,
    broker_wf b -> broker_remove_session b pg sid = (b', pg', o) -> broker_wf b'.
Proof.
  intros b pg sid b' pg' o W. unfold broker_remove_session.
  destruct (nget (b_sess b) sid) as [ids|] eqn:Es; [|intros H; inversion H; subst; auto].
  destruct W as [Wc We Ws Wr].
  intros H. apply rs_fold in H.
  - destruct H as ((Wc' & We' & Ws' & Wr' & Hno & Hrest) & _).
    split; auto. intros sid' id. destruct (N.eq_dec sid' sid) as [->|Hn]; [|now apply Wr'].
    split.
    + intros (x & Ex & _); congruence.
    + intros Hh. destruct (Hrest _ Hh).
  - apply rs_inv_init; auto. split; auto.
Qed.

(** ** PUBLISH: only the history table changes, and only at existing keys *)
Definition hist_ext (b b' : broker) : Prop :=
  b' = b_set_hist b (b_hist b') /\ NoDup (map fst (b_hist b')) /\
  forall id, amem N.eqb (b_hist b') id = amem N.eqb (b_hist b) id.

Lemma hist_ext_refl : forall b, core_wf b -> hist_ext b b.
Proof. intros b W. split; [destruct b; reflexivity|]. split; [apply W|auto]. Qed.

Lemma hist_ext_trans : forall a b c, hist_ext a b -> hist_ext b c -> hist_ext a c.
Proof.
  intros a b c (E1 & N1 & M1) (E2 & N2 & M2). split; [|split; auto; intros; rewrite M2; auto].
  rewrite E2 at 1. rewrite E1. reflexivity.
Qed.

Lemma hist_ext_push : forall b id st st', core_wf b -> nget (b_hist b) id = Some st ->
    hist_ext b (b_set_hist b (nset (b_hist b) id st')).
Proof.
  intros b id st st' W E. split; [reflexivity|]. bsimp. split; [apply nset_nodup, W|].
  intros id0. rewrite amem_nset. destruct (N.eqb_spec id0 id) as [->|]; auto.
  cbn. unfold amem. unfold nget in E. now rewrite E.
Qed.

Lemma hist_ext_wf : forall b b', broker_wf b -> hist_ext b b' -> broker_wf b'.
Proof.
  intros b b' [Wc We Ws Wr] (E & ND & M). rewrite E.
  split; bsimp; auto.
  - destruct Wc. split; unfold has_history; bsimp; auto.
    intros id. rewrite M. auto.
  - intros id s. unfold has_history; bsimp. rewrite M. apply We.
Qed.

Lemma hist_ext_core : forall b b', core_wf b -> hist_ext b b' -> core_wf b'.
Proof.
  intros b b' Wc (E & ND & M). rewrite E.
  destruct Wc. split; unfold has_history; bsimp; auto.
  intros id. rewrite M. auto.
Qed.

Lemma pub_event_hist_ext : forall lookup now pub pubid opts topic args kw ep disc f b o sst,
    core_wf b ->
    hist_ext b (fst (pub_event lookup now pub pubid opts topic args kw ep disc f (b, o) sst)).
Proof.
  intros. unfold pub_event. destruct sst as [s st]. cbn [fst].
  destruct (nget (b_hist b) (sub_id s)) eqn:E; [|now apply hist_ext_refl].
  destruct (dhas opts "exclude" || dhas opts "eligible"); [now apply hist_ext_refl|].
  eapply hist_ext_push; eauto.
Qed.

Lemma pub_fold_hist_ext : forall lookup now pub pubid opts topic args kw ep disc f l b o,
    core_wf b ->
    hist_ext b (fst (fold_left (pub_event lookup now pub pubid opts topic args kw ep disc f) l (b, o))).
Proof.
  intros lookup now pub pubid opts topic args kw ep disc f l; induction l as [|sst l IH]; intros b o W; cbn [fold_left].
  - now apply hist_ext_refl.
  - pose proof (pub_event_hist_ext lookup now pub pubid opts topic args kw ep disc f b o sst W) as H1.
    destruct (pub_event lookup now pub pubid opts topic args kw ep disc f (b, o) sst) as [b1 o1]. cbn [fst] in H1.
    eapply hist_ext_trans; [exact H1|]. apply IH. eapply hist_ext_core; eauto.
Qed.

Lemma publish_hist_ext : forall cfg lookup now b pg pub req opts topic args kw b' pg' o,
    core_wf b -> publish cfg lookup now b pg pub req opts topic args kw = (b', pg', o) -> hist_ext b b'.
Proof.
  intros cfg lookup now b pg pub req opts topic args kw b' pg' o W. unfold publish.
  destruct (negb (valid_uri (c_strict cfg) "" topic)); [intros H; inversion H; subst; now apply hist_ext_refl|].
  destruct (publish_aborts cfg pub opts topic); [intros H; inversion H; subst; now apply hist_ext_refl|].
  destruct (opt_bool opts "disclose_me" && negb (c_disclose cfg)); [intros H; inversion H; subst; now apply hist_ext_refl|].
  match goal with |- context [fold_left ?f ?l (b, [])] =>
    pose proof (pub_fold_hist_ext lookup now pub (pg + 1) opts topic args kw
                  (match dget opts "exclude_me" with Some (VBool x) => x | _ => true end)
                  (opt_bool opts "disclose_me") (make_filter opts) l b [] W) as HF;
    destruct (fold_left f l (b, [])) as [b1 o1] end.
  intros H; inversion H; subst. exact HF.
Qed.

Theorem publish_wf : forall cfg lookup now b pg pub req opts topic args kw b' pg' o,
    broker_wf b -> publish cfg lookup now b pg pub req opts topic args kw = (b', pg', o) -> broker_wf b'.
Proof.
  intros. eapply hist_ext_wf; eauto. eapply publish_hist_ext; eauto. apply H.
Qed.

(** ** History pre-initialisation *)
Lemma preinit_step_wf : forall b c, broker_wf b -> b_idgen b < max_idN ->
    let '(b1, s, _) := init_subscription b (hc_topic c) (hc_match c) None in
    broker_wf (b_set_hist b1 (nset (b_hist b1) (sub_id s) (mkHStore (hc_limit c) []))) /\
    b_idgen b1 <= b_idgen b + 1.
Proof.
  intros b c [Wc We Ws Wr] Hlt.
  destruct (init_subscription b (hc_topic c) (hc_match c) None) as [[b1 s] ex] eqn:Ei.
  destruct (init_subscription_spec _ _ _ _ _ _ _ Wc Hlt Ei)
    as [(-> & -> & Es & Ht & Hk & Hm) | (-> & Hm & Hs & Wc1 & Hse & Hh & Hg & Hget & Hmap)].
  - split; [|lia]. split; bsimp; auto.
    + destruct Wc. split; unfold has_history; bsimp; auto.
      * now apply nset_nodup.
      * intros id. rewrite amem_nset. destruct (N.eqb_spec id (sub_id s)) as [->|]; cbn; eauto.
    + intros id s0 E0 E1. unfold has_history; bsimp. rewrite amem_nset.
      pose proof (We id s0 E0 E1) as Hw. unfold has_history in Hw. rewrite Hw. apply orb_true_r.
  - split; [|lia]. subst s. cbn [sub_id sub_list] in *.
    set (id := b_idgen b + 1) in *.
    split; bsimp.
    + destruct Wc1. split; unfold has_history; bsimp; auto.
      * now apply nset_nodup.
      * intros id0. rewrite amem_nset, Hget.
        destruct (N.eqb_spec id0 id) as [->|]; cbn; eauto. intros H. rewrite Hh in H.
        apply (BrokerWf.wf_hist_sub b Wc); auto.
    + intros id0 s0. unfold has_history; bsimp. rewrite amem_nset, Hget, Hh.
      destruct (N.eqb_spec id0 id) as [->|]; cbn; auto. apply We.
    + now rewrite Hse.
    + intros sid' id'. bsimp. rewrite Hse, (Wr sid' id'). unfold sub_has. rewrite Hget.
      destruct (N.eqb_spec id' id) as [->|]; [|tauto].
      assert (Hfresh : nget (b_subs b) id = None) by (apply fresh_id_absent; auto; unfold id; lia).
      split; [intros (x & Ex & _); congruence | intros (x & Ex & Ix); inversion Ex; subst x; destruct Ix].
Qed.

Theorem preinit_wf_gen : forall cfgs b, broker_wf b -> b_idgen b + N.of_nat (List.length cfgs) <= max_idN ->
    broker_wf (preinit_history b cfgs) /\
    b_idgen (preinit_history b cfgs) <= b_idgen b + N.of_nat (List.length cfgs).
Proof.
  unfold preinit_history.
  induction cfgs as [|c cfgs IH]; intros b W Hlt; cbn [fold_left List.length] in *.
  - split; auto. lia.
  - assert (Hlt1 : b_idgen b < max_idN) by lia.
    pose proof (preinit_step_wf b c W Hlt1) as Hs.
    destruct (init_subscription b (hc_topic c) (hc_match c) None) as [[b1 s] ex].
    destruct Hs as [W1 Hg1].
    destruct (IH (b_set_hist b1 (nset (b_hist b1) (sub_id s) (mkHStore (hc_limit c) []))) W1) as [W2 Hg2].
    + bsimp. lia.
    + split; auto. revert Hg2. bsimp. lia.
Qed.

Theorem preinit_wf : forall cfgs, N.of_nat (List.length cfgs) <= max_idN ->
    broker_wf (preinit_history empty_broker cfgs).
Proof. intros cfgs H. apply preinit_wf_gen; [apply empty_wf|cbn; lia]. Qed.

(** ** the id generator only moves forward (while below 2^53) *)
Lemma subscribe_idgen : forall cfg b pg sid req opts topic b' pg' o,
    b_idgen b < max_idN -> subscribe cfg b pg sid req opts topic = (b', pg', o) ->
    b_idgen b <= b_idgen b' <= b_idgen b + 1.
Proof.
  intros cfg b pg sid req opts topic b' pg' o Hlt. unfold subscribe.
  destruct (negb (valid_uri (c_strict cfg) (opt_string opts "match") topic)); [intros H; inversion H; subst; lia|].
  unfold init_subscription.
  destruct (sget (b_map b (mkind_of (opt_string opts "match"))) topic) as [id|].
  - destruct (nget (b_subs b) id) as [s|]; cbn [andb].
    + destruct (nmem sid (sub_subs s)); intros H; inversion H; subst; bsimp; lia.
    + cbn [nmem existsb sub_subs]. intros H; inversion H; subst; bsimp; lia.
  - cbn [andb]. rewrite idgen_next_lt by auto. intros H; inversion H; subst; bsimp. lia.
Qed.

Lemma unsubscribe_idgen : forall b pg sid req subid b' pg' o,
    unsubscribe b pg sid req subid = (b', pg', o) -> b_idgen b' = b_idgen b.
Proof.
  intros b pg sid req subid b' pg' o. unfold unsubscribe.
  destruct (nget (b_subs b) subid) as [s|]; [|intros H; inversion H; subst; auto].
  destruct (negb (nmem sid (sub_subs s))); [intros H; inversion H; subst; auto|].
  match goal with |- context [if ?d then del_subscription _ _ else _] => destruct d end;
    intros H; inversion H; subst; unfold del_subscription; now bsimp.
Qed.

Lemma remove_session_idgen : forall b pg sid b' pg' o,
    broker_wf b -> broker_remove_session b pg sid = (b', pg', o) -> b_idgen b' = b_idgen b.
Proof.
  intros b pg sid b' pg' o W. unfold broker_remove_session.
  destruct (nget (b_sess b) sid) as [ids|] eqn:Es; [|intros H; inversion H; subst; auto].
  destruct W as [Wc We Ws Wr].
  intros H. apply rs_fold in H.
  - destruct H as (_ & _ & _ & Hg). rewrite Hg. now bsimp.
  - apply rs_inv_init; auto. split; auto.
Qed.

Lemma publish_idgen : forall cfg lookup now b pg pub req opts topic args kw b' pg' o,
    core_wf b -> publish cfg lookup now b pg pub req opts topic args kw = (b', pg', o) -> b_idgen b' = b_idgen b.
Proof.
  intros. apply publish_hist_ext in H0; auto. destruct H0 as (E & _). rewrite E. now bsimp.
Qed.
