(** * Histories, broker side, part 4: the dealer's outputs are of the dealer
    kind ([dmsg]: ERROR, REGISTERED, UNREGISTERED, INVOCATION, RESULT,
    INTERRUPT) — never an EVENT, a PUBLISHED, a SUBSCRIBED, an UNSUBSCRIBED —
    except the ABORT that CALL and YIELD send to a session that uses payload
    passthru mode without having announced it (and that [Realm.handle] then
    ends). *)
From Nexus Require Import Router.Realm Router.AssocLemmas Router.RealmMetaProofs.
From Nexus Require Import Router.DealerLib Router.DealerProofs Router.DealerCall Router.DealerWfCalls.
From Nexus Require Import Router.RealmTraceC01Mon.
From Coq Require Import Lia.

Definition alld (o : list out) : Prop := forall m, In m o -> dmsg m = true.

Lemma alld_nil : alld [].
Proof. intros m []. Qed.
Lemma alld_app : forall a b, alld a -> alld b -> alld (a ++ b).
Proof. intros a b A B m H. apply in_app_or in H. destruct H; auto. Qed.
Lemma alld_cons : forall m o, dmsg m = true -> alld o -> alld (m :: o).
Proof. intros m o A B x [<-|H]; auto. Qed.
Lemma alld_one : forall m, dmsg m = true -> alld [m].
Proof. intros. apply alld_cons; [assumption|apply alld_nil]. Qed.

Lemma sync_cancel_alld : forall lk d caller req mode reason ea, alld (snd (sync_cancel lk d caller req mode reason ea)).
Proof.
  intros lk d caller req mode reason ea.
  destruct (sync_cancel_cases lk d caller req mode reason ea) as [E|(ikey & inv & x & Hp & Hc)].
  - rewrite E. apply alld_nil.
  - rewrite (sync_cancel_live _ _ _ _ _ _ _ _ _ _ Hp Hc).
    destruct (negb (mode =? "skip")%string && callee_can_cancel lk inv && (mode =? "kill")%string); cbn [snd].
    + now apply alld_one.
    + apply alld_app; [|now apply alld_one].
      destruct (negb (mode =? "skip")%string && callee_can_cancel lk inv); [now apply alld_one|apply alld_nil].
Qed.

Lemma cancel_alld : forall lk d caller req opts, alld (snd (cancel lk d caller req opts)).
Proof.
  intros. unfold cancel. destruct (_ || _ || _); [apply sync_cancel_alld|].
  destruct (String.eqb _ ""); [apply sync_cancel_alld|]. cbn [snd]. now apply alld_one.
Qed.

Lemma sync_error_alld : forall d callee req det err args kw, alld (snd (sync_error d callee req det err args kw)).
Proof.
  intros d callee req det err args kw.
  destruct (cget (d_invs d) (callee, req)) as [inv|] eqn:Hi.
  - rewrite (sync_error_owner _ _ _ _ _ _ _ _ Hi). destruct (cget (d_calls d) (inv_call inv)); cbn [snd];
      [now apply alld_one|apply alld_nil].
  - rewrite sync_error_unknown by exact Hi. apply alld_nil.
Qed.

Lemma fire_timers_alld : forall lk now d, alld (snd (fire_timers lk now d)).
Proof.
  intros lk now d. rewrite fire_timers_fold.
  generalize (sort_timers (filter (fun '((_, (dl, _)) : N * (N * callid)) => dl <=? now) (d_timers d))). intros l.
  assert (G : forall l d0 o, alld o -> alld (snd (fold_left (fire_step lk) l (d0, o)))).
  { clear. induction l as [|[tid [dl cid]] l IH]; intros d0 o A; cbn [fold_left]; [exact A|].
    unfold fire_step at 2. destruct (amem N.eqb (d_timers d0) tid); [|apply IH; exact A].
    pose proof (sync_cancel_alld lk (d_set_timers d0 (ndel (d_timers d0) tid) (d_timergen d0)) (fst cid) (snd cid)
                                 "killnowait" e_timeout [vstr "call timeout"]) as S.
    destruct (sync_cancel _ _ _ _ _ _ _) as [d2 o2]. cbn [snd] in *. apply IH. now apply alld_app. }
  apply G, alld_nil.
Qed.

Lemma register_alld : forall cfg d callee req opts proc, alld (snd (fst (register cfg d callee req opts proc))).
Proof.
  intros. pose proof (register_event_order cfg d callee req opts proc) as O.
  destruct (register _ _ _ _ _ _) as [[d' o] mps]. cbn [fst snd].
  destruct O as [(_ & _ & (e & a & ->))|(id & -> & _)]; now apply alld_one.
Qed.

Lemma unregister_alld : forall d sid req regid, alld (snd (fst (unregister d sid req regid))).
Proof.
  intros. pose proof (unregister_event_order d sid req regid) as O.
  destruct (unregister _ _ _ _) as [[d' o] mps]. cbn [fst snd].
  destruct O as [(_ & ->)|(-> & _)]; now apply alld_one.
Qed.

Lemma cancel_served_alld : forall lk sid d o e, alld o -> alld (snd (cancel_served lk sid (d, o) e)).
Proof.
  intros lk sid d o [ikey e] A. unfold cancel_served.
  destruct (cget (d_invs d) ikey) as [inv|]; [|exact A].
  destruct (negb (inv_callee inv =? sid)); [exact A|].
  destruct (cget (d_calls d) (inv_call inv)) as [caller|]; [|exact A].
  match goal with |- context [sync_cancel lk ?D ?a ?b ?c ?dd ?e0] =>
    pose proof (sync_cancel_alld lk D a b c dd e0) as S; destruct (sync_cancel lk D a b c dd e0) as [d3 o3] end.
  cbn [snd] in *. now apply alld_app.
Qed.

Lemma dealer_remove_session_alld : forall lk d sid, alld (snd (fst (dealer_remove_session lk d sid))).
Proof.
  intros lk d sid. unfold dealer_remove_session.
  destruct (fold_left (remove_callee_reg sid) _ (d, [])) as [d1 mp].
  set (d2 := d_set_callee_regs d1 (ndel (d_callee_regs d1) sid)).
  assert (G : forall l d0 o, alld o -> alld (snd (fold_left (cancel_served lk sid) l (d0, o)))).
  { clear. induction l as [|e l IH]; intros d0 o A; cbn [fold_left]; [exact A|].
    pose proof (cancel_served_alld lk sid d0 o e A) as B.
    destruct (cancel_served lk sid (d0, o) e) as [d3 o3]. cbn [snd] in *. now apply IH. }
  pose proof (G (d_invs d2) d2 [] alld_nil) as A.
  destruct (fold_left (cancel_served lk sid) (d_invs d2) (d2, [])) as [d3 o]. exact A.
Qed.

(** YIELD: dealer-kind messages, or the ABORT to the yielding callee when the
    session is to be ended *)
Lemma sync_yield_kinds : forall lk d callee req opts args kw m,
    In m (snd (sync_yield lk d callee req opts args kw)) ->
    dmsg m = true \/
    (m = (callee, RAbort [("message", vstr "<text>")] e_protocol_violation) /\
     (lk callee <> None -> yield_aborts lk d callee req opts = true)).
Proof.
  intros lk d callee req opts args kw m H.
  destruct (cget (d_invs d) (callee, req)) as [inv|] eqn:Hi.
  - rewrite (sync_yield_owner _ _ _ _ _ _ _ _ Hi) in H. cbn [snd] in H.
    destruct (cget (d_calls d) (inv_call inv)) as [caller|] eqn:Hc; [|destruct H].
    unfold yield_out, ppt_caller_err in H.
    destruct (ppt_active opts) eqn:Pa.
    + destruct (has_ppt lk callee "callee") eqn:Hp; cbn [negb] in H.
      * left. destruct (negb (has_ppt lk caller "caller")).
        -- destruct H as [<-|H]; [reflexivity|]. destruct (opt_bool opts "progress"); [destruct H|]. destruct H as [<-|[]]. reflexivity.
        -- destruct H as [<-|[]]. reflexivity.
      * apply in_app_or in H. destruct H as [H|[<-|[]]].
        -- left. destruct (opt_bool opts "progress"); [destruct H|]. destruct H as [<-|[]]. reflexivity.
        -- right. split; [reflexivity|]. intros Hl. unfold yield_aborts. rewrite Hi, Hc, Pa. cbn [andb].
           unfold has_ppt in Hp. destruct (lk callee) as [cs|]; [now rewrite Hp|congruence].
    + left. destruct H as [<-|[]]. reflexivity.
  - rewrite sync_yield_unknown in H by exact Hi. cbn [snd] in H. left.
    destruct (opt_bool opts "progress"); [|destruct H]. destruct H as [<-|[]]. reflexivity.
Qed.

(** CALL *)
Lemma call_kinds : forall cfg lk now d caller req opts proc args kw oracle,
    match call cfg lk now d caller req opts proc args kw oracle with
    | CallRefused _ o => alld o
    | CallAbort o => o = [(s_id caller, RAbort [("message", vstr "<text>")] e_protocol_violation)]
    | CallInvoked _ _ o => alld o
    end.
Proof.
  intros cfg lk now d caller req opts proc args kw oracle.
  pose proof (call_cases cfg lk now d caller req opts proc args kw oracle) as C.
  inversion C; subst; try reflexivity; try (apply alld_nil); try (now apply alld_one).
Qed.
