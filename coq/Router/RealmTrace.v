(** * Histories of the whole model, part 2 (C02): every [Realm.step] taken
    from a well-formed realm satisfies the four per-step facts [ok4] about the
    dealer's table of recorded calls; hence along every history
    [run (init_realm cfg) ops] the reply monitor of every call id never fails
    ([realm_reply_discipline]), which gives reply ownership and reply
    uniqueness over histories.

    The step is decomposed into the dealer-function applications it performs
    (CALL, then possibly the meta session's YIELD/ERROR, kills, departures;
    timers on a tick); each is an admissible step by
    [DealerTrace.dealer_fn_step_ok]; the broker, the meta publications and the
    gate are shown never to send RESULT / ERROR(CALL) (the gate's refusal of a
    CALL excepted, which is the subject of [gate_fresh]). *)
From Nexus Require Import Router.Realm Router.AssocLemmas Router.RealmLib Router.RealmProofs
     Router.RealmMetaProofs Router.RealmLeave.
From Nexus Require Import Router.BrokerWf Router.BrokerPres Router.BrokerSub Router.BrokerHist.
From Nexus Require Import Router.DealerLib Router.DealerProofs Router.DealerReg Router.DealerCall Router.DealerWf
     Router.DealerWfCalls Router.DealerWfRegs Router.DealerRemove Router.DealerReply Router.DealerTimers
     Router.DealerOwned Router.DealerTrace.
From Nexus Require Import Router.RealmWf Router.RealmStep Router.RealmC05 Router.RealmOutputs Router.RealmIdle.
From Nexus Require Import Router.RealmTraceLib.
From Coq Require Import Lia ZifyN ZifyNat ZifyBool.

(** ** Messages of the broker kind: never a RESULT, an ERROR(CALL), an
    INVOCATION, an INTERRUPT or a REGISTERED/UNREGISTERED *)
Definition bmsg (m : out) : bool :=
  match snd m with
  | REvent _ _ _ _ _ | RPublished _ _ | RSubscribed _ _ | RUnsubscribed _ | RAbort _ _ | RGoodbye _ _ => true
  | RError ty _ _ _ _ _ => (ty =? c_PUBLISH) || (ty =? c_SUBSCRIBE) || (ty =? c_UNSUBSCRIBE)
  | _ => false
  end.

Definition allb (o : list out) : Prop := forall m, In m o -> bmsg m = true.

Lemma allb_nil : allb [].
Proof. intros m []. Qed.
Lemma allb_app : forall a b, allb a -> allb b -> allb (a ++ b).
Proof. intros a b A B m H. apply in_app_or in H. destruct H; auto. Qed.
Lemma allb_cons : forall m o, bmsg m = true -> allb o -> allb (m :: o).
Proof. intros m o A B x [<-|H]; auto. Qed.
Lemma allb_one : forall m, bmsg m = true -> allb [m].
Proof. intros. apply allb_cons; [assumption|apply allb_nil]. Qed.

Lemma bmsg_no_reply : forall m, bmsg m = true -> reply_of m = None.
Proof.
  intros [x m] H. destruct m; try reflexivity; try discriminate H.
  unfold bmsg in H. cbn [snd] in H. cbn [reply_of].
  destruct (N.eqb_spec ty c_CALL) as [->|]; [discriminate H|reflexivity].
Qed.

Lemma allb_quiet : forall o, allb o -> quiet o.
Proof. intros o H m Hin. apply bmsg_no_reply. auto. Qed.

Lemma sub_meta_event_allb : forall b t cause pub args, allb (sub_meta_event b t cause pub args).
Proof.
  intros b t cause pub args m Hin.
  destruct (sub_meta_event_receivers b t cause pub args m Hin) as (s & st & _ & _ & E).
  unfold bmsg. now rewrite E.
Qed.

Lemma publish_allb : forall cfg lk now b pg pub req opts topic args kw,
    allb (snd (publish cfg lk now b pg pub req opts topic args kw)).
Proof.
  intros cfg lk now b pg pub req opts topic args kw. unfold publish.
  destruct (negb (valid_uri _ _ _)).
  { cbn [snd]. destruct (opt_bool opts "acknowledge"); [now apply allb_one|apply allb_nil]. }
  destruct (publish_aborts cfg pub opts topic).
  { cbn [snd]. now apply allb_one. }
  destruct (opt_bool opts "disclose_me" && negb (c_disclose cfg)).
  { cbn [snd]. destruct (opt_bool opts "acknowledge"); [now apply allb_one|apply allb_nil]. }
  pose proof (pub_event_fold lk now pub (pg + 1) opts topic args kw (matching_subs b topic) b []) as F.
  destruct (fold_left _ (matching_subs b topic) (b, [])) as [b1 o]. cbn [snd] in *. rewrite F. cbn [app].
  apply allb_app; [|destruct (opt_bool opts "acknowledge"); [now apply allb_one|apply allb_nil]].
  intros m Hin. unfold pub_events in Hin. apply in_flat_map in Hin. destruct Hin as ([s st] & _ & Hin).
  apply in_map_iff in Hin. destruct Hin as (rs & <- & _). reflexivity.
Qed.

Lemma subscribe_allb : forall cfg b pg sid req opts topic,
    allb (snd (subscribe cfg b pg sid req opts topic)).
Proof.
  intros. pose proof (subscribe_event_order cfg b pg sid req opts topic) as O.
  destruct (subscribe _ _ _ _ _ _ _) as [[b' pg'] o]. cbn [snd].
  destruct O as [(_ & _ & (e & a & ->))|[(id & _ & ->)|[(id & _ & ->)|(sb & _ & _ & _ & ->)]]].
  - now apply allb_one.
  - now apply allb_one.
  - apply allb_app; [now apply allb_one|apply sub_meta_event_allb].
  - apply allb_app; [now apply allb_one|]. apply allb_app; apply sub_meta_event_allb.
Qed.

Lemma unsubscribe_allb : forall b pg sid req subid, allb (snd (unsubscribe b pg sid req subid)).
Proof.
  intros. pose proof (unsubscribe_event_order b pg sid req subid) as O.
  destruct (unsubscribe _ _ _ _ _) as [[b' pg'] o]. cbn [snd].
  destruct O as [(_ & _ & ->)|[(_ & ->)|(_ & ->)]].
  - now apply allb_one.
  - apply allb_app; [now apply allb_one|apply sub_meta_event_allb].
  - apply allb_app; [now apply allb_one|]. apply allb_app; apply sub_meta_event_allb.
Qed.

Lemma broker_remove_session_allb : forall b pg sid, allb (snd (broker_remove_session b pg sid)).
Proof.
  intros b pg sid. unfold broker_remove_session.
  destruct (nget (b_sess b) sid) as [ids|]; [|apply allb_nil].
  assert (G : forall ids acc, allb (snd acc) -> allb (snd (fold_left (remove_session_sub sid) ids acc))).
  { induction ids0 as [|id ids0 IH]; intros acc A; cbn [fold_left]; [exact A|].
    apply IH. destruct acc as [[b1 pg1] o1]. cbn [snd] in *. unfold remove_session_sub.
    destruct (nget (b_subs b1) id) as [s|]; [|exact A].
    match goal with |- context [if ?c then _ else _] => destruct c end; cbn [snd];
      repeat (apply allb_app); try exact A; apply sub_meta_event_allb. }
  apply G. apply allb_nil.
Qed.

Lemma meta_publish_allb : forall r mp, allb (snd (meta_publish r mp)).
Proof.
  intros r mp. unfold meta_publish.
  pose proof (publish_allb (r_cfg r) (lookup r) (r_now r) (r_broker r) (r_pubgen r) (r_meta r) 0
                           (mp_opts mp) (mp_topic mp) (mp_args mp) (mp_kw mp)) as P.
  destruct (publish _ _ _ _ _ _ _ _ _ _ _) as [[b pg] o]. exact P.
Qed.

Lemma meta_publish_all_allb : forall mps r, allb (snd (meta_publish_all r mps)).
Proof.
  induction mps as [|mp mps IH]; intros r; [apply allb_nil|].
  rewrite meta_publish_all_cons. pose proof (meta_publish_allb r mp) as A.
  destruct (meta_publish r mp) as [r1 o1]. specialize (IH r1).
  destruct (meta_publish_all r1 mps) as [r2 o2]. cbn [snd] in *. now apply allb_app.
Qed.

Lemma meta_publish_all_dealer : forall mps r, r_dealer (fst (meta_publish_all r mps)) = r_dealer r.
Proof. intros. destruct (meta_publish_all_frame mps r) as (_ & _ & _ & _ & E & _). exact E. Qed.

Lemma meta_publish_dealer : forall mp r, r_dealer (fst (meta_publish r mp)) = r_dealer r.
Proof. intros. destruct (meta_publish_frame r mp) as (_ & _ & _ & _ & E & _). exact E. Qed.

(** the dealer an aborted CALL leaves behind differs from [d] in a round-robin cursor only *)
Lemma call_abort_dealer_tables : forall lk d caller req opts proc oracle,
    let d' := call_abort_dealer lk d caller req opts proc oracle in
    d_calls d' = d_calls d /\ d_invs d' = d_invs d /\ d_bycall d' = d_bycall d /\ d_timers d' = d_timers d.
Proof.
  intros. subst d'. unfold call_abort_dealer.
  destruct (match_procedure d proc oracle) as [rg|]; [|auto].
  destruct (reg_callees rg); [auto|].
  destruct (opt_bool opts "progress" && _); [auto|].
  destruct (cget (d_bycall d) (s_id caller, req)); [auto|].
  destruct (select_callee rg oracle) as [[cid next]|]; [|auto].
  destruct (lk cid); auto.
Qed.

Lemma call_abort_dealer_calls : forall lk d caller req opts proc oracle,
    d_calls (call_abort_dealer lk d caller req opts proc oracle) = d_calls d.
Proof. intros. apply call_abort_dealer_tables. Qed.

(** ** The recorded calls of a realm *)
Definition rrec (r : realm) : callid -> Prop := drec (r_dealer r).

Definition rok (r : realm) (l : option callid) (o : list out) (r' : realm) : Prop :=
  ok4 (rrec r) l o (rrec r').

Lemma rok_quiet_same : forall r r' l o, quiet o -> r_dealer r' = r_dealer r -> rok r l o r'.
Proof.
  intros r r' l o Q E. unfold rok, rrec. rewrite E. apply ok4_quiet; [exact Q|auto].
Qed.

Lemma rok_dealer : forall r r' d l o,
    dstep_ok (r_dealer r, l, o, d) -> r_dealer r' = d -> rok r l o r'.
Proof. intros r r' d l o H E. unfold rok, rrec. rewrite E. now apply ok4_of_dstep. Qed.

(** ** Departure *)
Theorem leave_rok : forall r sid k, realm_wf r -> ids_below k r -> rok r None (snd (leave r sid)) (fst (leave r sid)).
Proof.
  intros r sid k W I.
  destruct (find_session (r_clients r) sid) as [s|] eqn:F;
    [|rewrite (leave_absent r sid F); apply ok4_refl].
  rewrite (leave_event_order r sid s F). unfold leave_core.
  set (r2 := r_set_testaments (r_set_clients r (del_session (r_clients r) sid))
                              (ndel (r_testaments (r_set_clients r (del_session (r_clients r) sid))) sid)).
  change (r_dealer r2) with (r_dealer r).
  pose proof (dealer_fn_step_ok _ (DS_remove (lookup r) (lookup r2) (r_dealer r) sid (rw_dealer r W))) as D.
  destruct (dealer_remove_session (lookup r2) (r_dealer r) sid) as [[d o1] mps]. cbn [fst snd] in D.
  pose proof (broker_remove_session_allb (r_broker (r_set_dealer r2 d)) (r_pubgen (r_set_dealer r2 d)) sid) as B.
  destruct (broker_remove_session _ _ sid) as [[b pg] o2]. cbn [snd] in B.
  pose proof (meta_publish_all_allb (mps ++ testament_pubs r sid ++ [on_leave_pub s]) (r_set_broker (r_set_dealer r2 d) b pg)) as M.
  pose proof (meta_publish_all_dealer (mps ++ testament_pubs r sid ++ [on_leave_pub s]) (r_set_broker (r_set_dealer r2 d) b pg)) as E.
  destruct (meta_publish_all _ _) as [r5 o3]. cbn [fst snd] in *.
  unfold rok. eapply ok4_seq with (C1 := drec d).
  - eapply ok4_seq with (C1 := drec d); [apply ok4_of_dstep; exact D|].
    apply ok4_quiet; [apply allb_quiet; exact B|auto].
  - unfold rrec. rewrite E. cbn [r_dealer r_set_broker r_set_dealer]. apply ok4_quiet; [apply allb_quiet; exact M|auto].
Qed.

Lemma kill_sessions_rok : forall sids r g k, realm_wf r -> ids_below k r ->
    (forall x, reply_of (x, g) = None) ->
    rok r None (snd (kill_sessions r sids g)) (fst (kill_sessions r sids g)).
Proof.
  induction sids as [|sid sids IH]; intros r g k W I Hg; [apply ok4_refl|].
  rewrite kill_sessions_cons. pose proof (leave_rok r sid k W I) as L.
  destruct (leave_wf r sid k W I) as (W1 & I1 & _).
  destruct (leave r sid) as [r1 o1]. cbn [fst snd] in *.
  specialize (IH r1 g k W1 I1 Hg). destruct (kill_sessions r1 sids g) as [r2 o2]. cbn [fst snd] in *.
  unfold rok in *. apply ok4_cons_quiet; [apply Hg|]. eapply ok4_seq; eauto.
Qed.

Lemma meta_call_kills_goodbye : forall r proc det args kw oracle sids g,
    kills_of (meta_call r proc det args kw oracle) = Some (sids, g) ->
    forall x, reply_of (x, g) = None.
Proof.
  intros r proc det args kw oracle sids g. unfold meta_call, kills_of, goodbye_msg.
  brk; cbn [snd]; intros H; inversion H; subst; clear H; intros x; reflexivity.
Qed.

(** ** The meta session's answer to an INVOCATION *)
Lemma run_meta_invocation_rok : forall r o oracle k,
    realm_wf r -> ids_below k r -> quiet o ->
    (forall rcv invid regid det args kw, o = [(rcv, RInvocation invid regid det args kw)] ->
                                          forall c, caller_opt det = Some c -> client r c) ->
    rok r None (snd (run_meta_invocation r o oracle)) (fst (run_meta_invocation r o oracle)).
Proof.
  intros r o oracle k W I Ho Hc. unfold run_meta_invocation.
  assert (Same : rok r None o r) by (apply rok_quiet_same; [exact Ho|reflexivity]).
  destruct o as [|[rcv m] l]; [exact Same|]. destruct m; try exact Same. destruct l; [|exact Same].
  destruct (negb (rcv =? meta_id)); [exact Same|]. clear Same.
  specialize (Hc rcv req reg details args kw eq_refl).
  destruct (nget (r_metaprocs r) reg) as [proc|].
  - destruct (meta_call_wf r proc details args kw oracle k W I Hc) as [W1 I1].
    pose proof (meta_call_dealer r proc details args kw oracle) as Ed.
    pose proof (meta_call_kills_goodbye r proc details args kw oracle) as Kg.
    destruct (meta_call r proc details args kw oracle) as [[r1 resp] kills]. unfold realm_of, kills_of in *. cbn [fst snd] in *.
    pose proof (rw_dealer r1 W1) as Wd.
    assert (G : forall d o1, (d, o1) = match resp with
                                        | MYield a k0 => sync_yield (lookup r1) (r_dealer r1) meta_id req [] a k0
                                        | MError e => sync_error (r_dealer r1) meta_id req [] e [] []
                                        end ->
                 ok4 (rrec r1) None o1 (drec d) /\ realm_wf (r_set_dealer r1 d) /\ ids_below k (r_set_dealer r1 d)).
    { intros d o1 E. destruct resp.
      - pose proof (dealer_fn_step_ok _ (DS_yield (lookup r1) (lookup r1) (r_dealer r1) meta_id req [] args0 kw0 Wd)) as A.
        pose proof (sync_yield_realm_wf r1 (lookup r1) meta_id req [] args0 kw0 k W1 I1) as Y.
        rewrite <- E in A, Y. cbn [fst snd] in *. split; [apply ok4_of_dstep; exact A|exact Y].
      - pose proof (dealer_fn_step_ok _ (DS_error (lookup r1) (r_dealer r1) meta_id req [] err [] [] Wd)) as A.
        pose proof (sync_error_realm_wf r1 meta_id req [] err [] [] k W1 I1) as Y.
        rewrite <- E in A, Y. cbn [fst snd] in *. split; [apply ok4_of_dstep; exact A|exact Y]. }
    destruct (match resp with MYield a k0 => _ | MError e => _ end) as [d o1].
    destruct (G d o1 eq_refl) as (A1 & W2 & I2).
    assert (A1' : ok4 (rrec r) None o1 (drec d)) by (unfold rrec in *; rewrite <- Ed; exact A1).
    destruct kills as [[sids g]|]; [|exact A1'].
    pose proof (kill_sessions_rok sids (r_set_dealer r1 d) g k W2 I2 (Kg sids g eq_refl)) as K.
    destruct (kill_sessions (r_set_dealer r1 d) sids g) as [r3 o2]. cbn [fst snd] in *.
    unfold rok. eapply ok4_seq; [exact A1'|exact K].
  - pose proof (dealer_fn_step_ok _ (DS_error (lookup r) (r_dealer r) meta_id req [] e_no_such_procedure [] [] (rw_dealer r W))) as A.
    destruct (sync_error _ _ _ _ _ _ _) as [d o1]. cbn [fst snd] in *. eapply rok_dealer; [exact A|reflexivity].
Qed.

(** ** One client message *)
Definition call_req (m : cmsg) : option N :=
  match m with CCall q _ _ _ _ => Some q | _ => None end.

Definition msg_label (sid : N) (m : cmsg) : option callid :=
  match call_req m with Some q => Some (sid, q) | None => None end.

Lemma invocation_quiet : forall rcv a b c d e, quiet [(rcv, RInvocation a b c d e)].
Proof. intros. apply quiet_cons; [reflexivity|apply quiet_nil]. Qed.

Theorem handle_rok : forall r s m oracle k,
    realm_wf r -> ids_below k r -> k < max_idN -> find_session (r_clients r) (s_id s) = Some s ->
    rok r (msg_label (s_id s) m) (snd (handle r s m oracle)) (fst (handle r s m oracle)).
Proof.
  intros r s m oracle k W I Hk Hs.
  pose proof (rw_dealer r W) as Wd.
  assert (Lv : forall r0 l, realm_wf r0 -> ids_below k r0 ->
                            rok r0 l (snd (leave r0 (s_id s))) (fst (leave r0 (s_id s)))).
  { intros r0 l W0 I0. apply ok4_label. eapply leave_rok; eauto. }
  destruct m; cbn [handle msg_label call_req].
  - (* PUBLISH *)
    pose proof (publish_allb (r_cfg r) (lookup r) (r_now r) (r_broker r) (r_pubgen r) s req opts topic args kw) as P.
    destruct (publish _ _ _ _ _ _ _ _ _ _ _) as [[b pg] o]. cbn [snd] in P.
    destruct (publish_aborts _ _ _ _).
    + specialize (Lv r None W I). destruct (leave r (s_id s)) as [r1 o1]. cbn [fst snd] in *.
      unfold rok. eapply ok4_seq; [|exact Lv]. apply ok4_quiet; [apply allb_quiet; exact P|auto].
    + cbn [fst snd]. apply rok_quiet_same; [apply allb_quiet; exact P|reflexivity].
  - (* SUBSCRIBE *)
    pose proof (subscribe_allb (r_cfg r) (r_broker r) (r_pubgen r) (s_id s) req opts topic) as P.
    destruct (subscribe _ _ _ _ _ _ _) as [[b pg] o]. cbn [fst snd] in *.
    apply rok_quiet_same; [apply allb_quiet; exact P|reflexivity].
  - (* UNSUBSCRIBE *)
    pose proof (unsubscribe_allb (r_broker r) (r_pubgen r) (s_id s) req sub) as P.
    destruct (unsubscribe _ _ _ _ _) as [[b pg] o]. cbn [fst snd] in *.
    apply rok_quiet_same; [apply allb_quiet; exact P|reflexivity].
  - (* REGISTER *)
    pose proof (dealer_fn_step_ok _ (DS_register (lookup r) (r_cfg r) (r_dealer r) s req opts proc Wd)) as D.
    destruct (register _ _ _ _ _ _) as [[d o] mps]. cbn [fst snd] in D.
    pose proof (meta_publish_all_allb mps (r_set_dealer r d)) as M.
    pose proof (meta_publish_all_dealer mps (r_set_dealer r d)) as E.
    destruct (meta_publish_all _ mps) as [r1 o1]. cbn [fst snd] in *.
    unfold rok. eapply ok4_seq with (C1 := drec d); [apply ok4_of_dstep; exact D|].
    unfold rrec. rewrite E. apply ok4_quiet; [apply allb_quiet; exact M|auto].
  - (* UNREGISTER *)
    pose proof (dealer_fn_step_ok _ (DS_unregister (lookup r) (r_dealer r) (s_id s) req reg Wd)) as D.
    destruct (unregister _ _ _ _) as [[d o] mps]. cbn [fst snd] in D.
    pose proof (meta_publish_all_allb mps (r_set_dealer r d)) as M.
    pose proof (meta_publish_all_dealer mps (r_set_dealer r d)) as E.
    destruct (meta_publish_all _ mps) as [r1 o1]. cbn [fst snd] in *.
    unfold rok. eapply ok4_seq with (C1 := drec d); [apply ok4_of_dstep; exact D|].
    unfold rrec. rewrite E. apply ok4_quiet; [apply allb_quiet; exact M|auto].
  - (* CALL *)
    pose proof (dealer_fn_step_ok _ (DS_call (r_cfg r) (lookup r) (r_now r) (r_dealer r) s req opts proc args kw oracle Wd)) as D.
    apply ok4_of_dstep in D.
    destruct (call _ _ _ _ _ _ _ _ _ _ _) as [d o|o|d callee o] eqn:Ecall; cbn [DealerOwned.call_out call_state] in D.
    + exact D.
    + destruct (call_abort_realm_wf r s req opts proc oracle k W I) as (Wa & Ia & _). cbv zeta in Wa, Ia.
      pose proof (call_abort_dealer_calls (lookup r) (r_dealer r) s req opts proc oracle) as Ec.
      match goal with |- context [leave ?R (s_id s)] =>
        specialize (Lv R None Wa Ia); destruct (leave R (s_id s)) as [r1 o1] end. cbn [fst snd] in *.
      unfold rok, rrec, drec in *. cbn [r_dealer r_set_dealer] in Lv. rewrite Ec in Lv.
      eapply ok4_seq; [exact D|exact Lv].
    + destruct (call_invoked_wf r s req opts proc args kw oracle k d callee o W I Hk Hs Ecall)
        as (W2 & J2 & _ & (rcv & invid & regid & det & Eo & _) & Hcl).
      assert (Q : quiet o) by (rewrite Eo; apply invocation_quiet).
      pose proof (run_meta_invocation_rok _ o oracle (k + 1) W2 J2 Q Hcl) as R.
      destruct (run_meta_invocation _ o oracle) as [r3 o3]. cbn [fst snd] in *.
      unfold rok in *. change o3 with ([] ++ o3). eapply ok4_seq; [|exact R].
      unfold rrec at 2. destruct (update_session_frame (r_set_dealer r d) callee) as (_ & _ & _ & -> & _).
      cbn [r_dealer r_set_dealer]. eapply ok4_forget_quiet; [exact Q|exact D].
  - (* CANCEL *)
    pose proof (dealer_fn_step_ok _ (DS_cancel (lookup r) (lookup r) (r_dealer r) (s_id s) req opts Wd)) as D.
    destruct (cancel _ _ _ _ _) as [d o]. cbn [fst snd] in *. eapply rok_dealer; [exact D|reflexivity].
  - (* YIELD *)
    pose proof (dealer_fn_step_ok _ (DS_yield (lookup r) (lookup r) (r_dealer r) (s_id s) req opts args kw Wd)) as D.
    pose proof (sync_yield_realm_wf r (lookup r) (s_id s) req opts args kw k W I) as Y.
    destruct (sync_yield _ _ _ _ _ _ _) as [d o]. cbn [fst snd] in *.
    destruct (yield_aborts _ _ _ _ _); [|eapply rok_dealer; [exact D|reflexivity]].
    destruct Y as [Y1 Y2]. specialize (Lv (r_set_dealer r d) None Y1 Y2).
    destruct (leave (r_set_dealer r d) (s_id s)) as [r1 o1]. cbn [fst snd] in *.
    unfold rok. eapply ok4_seq; [apply ok4_of_dstep; exact D|exact Lv].
  - (* ERROR *)
    destruct (negb (ty =? c_INVOCATION)).
    + specialize (Lv r None W I). destruct (leave r (s_id s)) as [r1 o1]. cbn [fst snd] in *.
      apply ok4_cons_quiet; [reflexivity|exact Lv].
    + pose proof (dealer_fn_step_ok _ (DS_error (lookup r) (r_dealer r) (s_id s) req details err args kw Wd)) as D.
      destruct (sync_error _ _ _ _ _ _ _) as [d o]. cbn [fst snd] in *. eapply rok_dealer; [exact D|reflexivity].
  - (* GOODBYE *)
    specialize (Lv r None W I). destruct (leave r (s_id s)) as [r1 o1]. cbn [fst snd] in *.
    apply ok4_cons_quiet; [reflexivity|exact Lv].
  - specialize (Lv r None W I). destruct (leave r (s_id s)) as [r1 o1]. cbn [fst snd] in *.
    apply ok4_cons_quiet; [reflexivity|exact Lv].
Qed.

(** ** The authorization gate.

    The authorizer is an arbitrary function: it may hand back a different
    message, and it may refuse.  A refused CALL is answered ERROR(CALL) by the
    realm without the dealer being told.  [gate_fresh r o] states what the
    history theorems need of the gate at one step: an admitted message is a
    CALL with request id [q] exactly when the received one is, and a refusal
    that is an ERROR(CALL) answers a CALL message whose id is not that of a
    pending (progressive) call.  Without the second part the statement is
    false of the model: see [RealmTraceEx.reply_unique_refuted]. *)
Definition gate_fresh (r : realm) (o : op) : Prop :=
  forall sid m oracle s, o = OMsg sid m oracle -> find_session (r_clients r) sid = Some s ->
    match gate r s m with
    | inl m' => call_req m' = call_req m
    | inr out => forall mm cid fin, In mm out -> reply_of mm = Some (cid, fin) ->
                                    call_req m = Some (snd cid) /\ ~ rrec r cid
    end.

(** what the gate sends on a refusal: at most one message, to the sender *)
Lemma gate_refusal_shape : forall r s m out,
    gate r s m = inr out ->
    out = [] \/ exists det e a, out = [(s_id s, RError (cmsg_code m) (req_of m) det e a [])].
Proof.
  intros r s m out. unfold gate.
  destruct (c_authz (r_cfg r)) as [f|]; [|discriminate].
  destruct (s_local s && negb (c_local_authz (r_cfg r))); [discriminate|].
  destruct (f (s_id s) (s_local s) (s_details s) m); [discriminate| |];
    intros H; inversion H; subst; clear H;
    destruct m; try (right; do 3 eexists; reflexivity);
    destruct (opt_bool opts "acknowledge"); try (right; do 3 eexists; reflexivity); now left.
Qed.

(** ** One step *)
Theorem step_rok : forall r o k,
    realm_wf r -> ids_below k r -> k < max_idN -> op_ok o -> gate_fresh r o ->
    exists l, rok r l (snd (step r o)) (fst (step r o)) /\ (forall c, l = Some c -> is_call_op c o = true).
Proof.
  intros r o k W I Hk Ho G.
  destruct o as [sid lc h|sid m oracle|sid|ms].
  - exists None. split; [|discriminate]. cbn [step]. unfold join.
    destruct (negb (has_role h) || is_some (lookup r sid)); [apply ok4_refl|].
    match goal with |- context [meta_publish ?R ?M] =>
      pose proof (meta_publish_allb R M) as A; pose proof (meta_publish_dealer M R) as E;
      destruct (meta_publish R M) as [r1 o1] end.
    cbn [fst snd] in *. apply rok_quiet_same; [apply allb_quiet; exact A|exact E].
  - rewrite step_msg_eq. destruct (find_session (r_clients r) sid) as [s|] eqn:F;
      [|exists None; split; [apply ok4_refl|discriminate]].
    assert (Hs : find_session (r_clients r) (s_id s) = Some s) by now rewrite (find_session_id _ _ _ F).
    specialize (G sid m oracle s eq_refl F).
    pose proof (find_session_id _ _ _ F) as Es.
    destruct (gate r s m) as [m'|out] eqn:Eg.
    + exists (msg_label (s_id s) m'). split; [apply (handle_rok r s m' oracle k W I Hk Hs)|].
      intros c. unfold msg_label. rewrite G. destruct m; cbn [call_req]; try discriminate.
      intros E; inversion E; subst. cbn [is_call_op]. apply pair_eqb_refl.
    + cbn [fst snd]. destruct (gate_refusal_shape r s m out Eg) as [->|(det & e & a & ->)].
      * exists None. split; [apply ok4_refl|discriminate].
      * destruct (reply_of (s_id s, RError (cmsg_code m) (req_of m) det e a [])) as [[cid fin]|] eqn:R.
        -- destruct (G _ cid fin (or_introl eq_refl) R) as [Gq Gn].
           assert (Ec : cid = (sid, req_of m) /\ fin = true).
           { cbn [reply_of] in R. destruct (cmsg_code m =? c_CALL); [|discriminate]. inversion R; subst. auto. }
           destruct Ec as [-> ->].
           exists (Some (sid, req_of m)). split.
           ++ repeat split.
              ** intros mm c [<-|[]] [f R']. rewrite R in R'. inversion R'; subst. now right.
              ** intros mm c [<-|[]] R'. rewrite R in R'. inversion R'; subst. exact Gn.
              ** intros c H. now left.
              ** apply once_short. cbn. lia.
           ++ intros c E. inversion E; subst. destruct m; cbn [call_req] in Gq; try discriminate.
              cbn [is_call_op req_of]. apply pair_eqb_refl.
        -- exists None. split; [|discriminate]. apply rok_quiet_same; [|reflexivity].
           apply quiet_cons; [exact R|apply quiet_nil].
  - exists None. split; [|discriminate]. cbn [step]. eapply leave_rok; eauto.
  - exists None. split; [|discriminate]. cbn [step]. set (r1 := r_set_now r (r_now r + ms)).
    assert (Wd : dealer_wf (lookup r1) (r_dealer r1)) by exact (rw_dealer r W).
    pose proof (dealer_fn_step_ok _ (DS_fire (lookup r1) (lookup r1) (r_now r1) (r_dealer r1) Wd)) as D.
    destruct (fire_timers _ _ _) as [d out]. cbn [fst snd] in *.
    eapply (rok_dealer r _ d); [exact D|reflexivity].
Qed.

(** ** Histories: the monitor of any call id never fails *)
Theorem reply_discipline_from : forall ops r k c st,
    realm_wf r -> ids_below k r -> Forall op_ok ops -> k + N.of_nat (List.length ops) <= max_idN ->
    along gate_fresh r ops -> (st = false -> ~ rrec r c) ->
    mon_run c st (trace_from r ops) <> None.
Proof.
  induction ops as [|o ops IH]; intros r k c st W I Ho Hk G Hst; [discriminate|].
  cbn [trace_from step_events]. cbn [List.length] in Hk. inversion Ho as [|? ? Ho1 Ho2]; subst.
  destruct G as [G1 G2].
  assert (Hk1 : k < max_idN) by lia.
  destruct (step_rok r o k W I Hk1 Ho1 G1) as (l & R & Hl).
  destruct (step_wf r o k W I Hk1 Ho1) as [W1 I1].
  rewrite mon_app.
  destruct (mon_outs (rrec r) (rrec (fst (step r o))) l (snd (step r o)) c (is_call_op c o || st) R)
    as (st2 & E2 & H2).
  - intros E. rewrite (Hl c E). reflexivity.
  - intros E. apply orb_false_iff in E. destruct E as [_ E]. auto.
  - change (mon_run c st (step_events o (snd (step r o))))
      with (mon_run c (is_call_op c o || st) (map EOut (snd (step r o)))).
    rewrite E2. apply (IH (fst (step r o)) (k + 1) c st2 W1 I1 Ho2); [lia|exact G2|exact H2].
Qed.

Lemma init_no_calls : forall cfg c, k0 cfg <= max_idN -> ~ rrec (init_realm cfg) c.
Proof.
  intros cfg c Hk. destruct (init_realm_wf cfg Hk) as [W _].
  assert (Ec : r_clients (init_realm cfg) = []) by (unfold init_realm; destruct (fold_left _ _ _); reflexivity).
  pose proof (empty_when_idle_partial (init_realm cfg) W Ec) as (_ & _ & E & _).
  unfold rrec, drec. rewrite E. intros H. apply H. reflexivity.
Qed.

Theorem realm_reply_discipline_proof : forall cfg ops c,
    Forall op_ok ops -> k0 cfg + N.of_nat (List.length ops) <= max_idN ->
    along gate_fresh (init_realm cfg) ops ->
    mon_run c false (trace cfg ops) <> None.
Proof.
  intros cfg ops c Ho Hk G. rewrite trace_eq.
  destruct (init_realm_wf cfg) as [W I]; [lia|].
  apply (reply_discipline_from ops (init_realm cfg) (k0 cfg) c false W I Ho Hk G).
  intros _. apply init_no_calls. lia.
Qed.

(** reply ownership: a RESULT / ERROR(CALL) with request id [q] is sent to
    [x] only after [x] sent a CALL with request id [q] *)
Theorem realm_reply_owned_proof : forall cfg ops x q pre e post fin,
    Forall op_ok ops -> k0 cfg + N.of_nat (List.length ops) <= max_idN ->
    along gate_fresh (init_realm cfg) ops ->
    trace cfg ops = pre ++ e :: post -> is_reply_ev (x, q) fin e ->
    exists e0, In e0 pre /\ is_call_ev (x, q) e0.
Proof.
  intros cfg ops x q pre e post fin Ho Hk G E R.
  pose proof (realm_reply_discipline_proof cfg ops (x, q) Ho Hk G) as M. rewrite E in M.
  eapply mon_owned; eauto.
Qed.

(** reply uniqueness: after the final reply for ([x], [q]) any further reply
    for ([x], [q]) is preceded by a new CALL [q] of [x] *)
Theorem realm_reply_unique_proof : forall cfg ops x q pre e1 mid e2 post fin,
    Forall op_ok ops -> k0 cfg + N.of_nat (List.length ops) <= max_idN ->
    along gate_fresh (init_realm cfg) ops ->
    trace cfg ops = pre ++ e1 :: mid ++ e2 :: post ->
    is_reply_ev (x, q) true e1 -> is_reply_ev (x, q) fin e2 ->
    exists e0, In e0 mid /\ is_call_ev (x, q) e0.
Proof.
  intros cfg ops x q pre e1 mid e2 post fin Ho Hk G E R1 R2.
  pose proof (realm_reply_discipline_proof cfg ops (x, q) Ho Hk G) as M. rewrite E in M.
  eapply mon_unique; eauto.
Qed.

(** ** Sufficient static conditions for [gate_fresh] *)
Lemma along_cfg : forall (P : realm -> op -> Prop) cfg,
    (forall r o, r_cfg r = cfg -> P r o) -> forall ops r, r_cfg r = cfg -> along P r ops.
Proof.
  intros P cfg H. induction ops as [|o ops IH]; intros r E; cbn [along]; [exact I|].
  split; [now apply H|]. apply IH. now rewrite step_cfg.
Qed.

Lemma init_realm_cfg : forall cfg, r_cfg (init_realm cfg) = cfg.
Proof. intros cfg. unfold init_realm. destruct (fold_left _ _ _). reflexivity. Qed.

(** no authorizer configured *)
Lemma gate_fresh_no_authz : forall cfg ops, c_authz cfg = None -> along gate_fresh (init_realm cfg) ops.
Proof.
  intros cfg ops H. apply (along_cfg gate_fresh cfg); [|apply init_realm_cfg].
  intros r o E sid m oracle s _ _. rewrite gate_none by (rewrite E; exact H). reflexivity.
Qed.

(** an authorizer that leaves the CALL identity of messages alone and never
    refuses a message whose type code is CALL *)
Definition authz_call_safe (cfg : config) : Prop :=
  forall f, c_authz cfg = Some f -> forall sid lc det m,
    match f sid lc det m with
    | AAllow m' => call_req m' = call_req m
    | _ => cmsg_code m <> c_CALL
    end.

Lemma gate_fresh_call_safe : forall cfg ops, authz_call_safe cfg -> along gate_fresh (init_realm cfg) ops.
Proof.
  intros cfg ops H. apply (along_cfg gate_fresh cfg); [|apply init_realm_cfg].
  intros r o E sid m oracle s _ _. unfold gate. rewrite E.
  destruct (c_authz cfg) as [f|] eqn:Ef; [|reflexivity].
  destruct (s_local s && negb (c_local_authz cfg)); [reflexivity|].
  specialize (H f Ef (s_id s) (s_local s) (s_details s) m).
  destruct (f (s_id s) (s_local s) (s_details s) m); [exact H| |];
    intros mm cid fin Hin R; exfalso;
    (assert (Q : reply_of mm = None);
     [|rewrite Q in R; discriminate]);
    destruct m; cbn [cmsg_code] in *;
      try (destruct (opt_bool opts "acknowledge")); try destruct Hin as [<-|[]]; try destruct Hin;
      cbn [reply_of cmsg_code]; try reflexivity; try (exfalso; apply H; reflexivity);
      (match goal with |- context [N.eqb ?a ?b] => destruct (N.eqb_spec a b) end; [contradiction|reflexivity]).
Qed.

(** ** Full-strength corollaries for realms without authorizer *)
Theorem realm_reply_owned_noauthz_proof : forall cfg ops x q pre e post fin,
    c_authz cfg = None ->
    Forall op_ok ops -> k0 cfg + N.of_nat (List.length ops) <= max_idN ->
    trace cfg ops = pre ++ e :: post -> is_reply_ev (x, q) fin e ->
    exists e0, In e0 pre /\ is_call_ev (x, q) e0.
Proof.
  intros cfg ops x q pre e post fin Ha Ho Hk.
  exact (realm_reply_owned_proof cfg ops x q pre e post fin Ho Hk (gate_fresh_no_authz cfg ops Ha)).
Qed.

Theorem realm_reply_unique_noauthz_proof : forall cfg ops x q pre e1 mid e2 post fin,
    c_authz cfg = None ->
    Forall op_ok ops -> k0 cfg + N.of_nat (List.length ops) <= max_idN ->
    trace cfg ops = pre ++ e1 :: mid ++ e2 :: post ->
    is_reply_ev (x, q) true e1 -> is_reply_ev (x, q) fin e2 ->
    exists e0, In e0 mid /\ is_call_ev (x, q) e0.
Proof.
  intros cfg ops x q pre e1 mid e2 post fin Ha Ho Hk.
  exact (realm_reply_unique_proof cfg ops x q pre e1 mid e2 post fin Ho Hk (gate_fresh_no_authz cfg ops Ha)).
Qed.

Theorem broker_outputs_quiet_proof :
    (forall cfg lk now b pg pub req opts topic args kw, allb (snd (publish cfg lk now b pg pub req opts topic args kw))) /\
    (forall cfg b pg sid req opts topic, allb (snd (subscribe cfg b pg sid req opts topic))) /\
    (forall b pg sid req subid, allb (snd (unsubscribe b pg sid req subid))) /\
    (forall b pg sid, allb (snd (broker_remove_session b pg sid))) /\
    (forall mps r, allb (snd (meta_publish_all r mps))) /\
    (forall m, bmsg m = true -> reply_of m = None).
Proof.
  exact (conj publish_allb (conj subscribe_allb (conj unsubscribe_allb
        (conj broker_remove_session_allb (conj meta_publish_all_allb bmsg_no_reply))))).
Qed.
