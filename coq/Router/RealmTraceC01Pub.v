(** * Histories, broker side, part 8 (C01): publication ids.

    [pubid_of m]: the publication id an EVENT or a PUBLISHED carries.
    [prange pg o pg']: the ids carried by the messages of [o], in order, are
    non-decreasing, all greater than [pg] and at most [pg'] ([pg <= pg']).
    Every broker operation run with id supply [pg] yields an output in
    [prange pg _ pg'] for its new supply [pg']; an accepted PUBLISH uses the
    single id [pg + 1]; outputs that do not come from the broker carry no
    id.  Hence along every history the ids are non-decreasing, every id sent
    in a step is greater than every id sent in an earlier step, and at every
    cut between two segments of a step the ids before are at most the supply
    at the cut and the ids after are greater. *)
From Nexus Require Import Router.Realm Router.AssocLemmas Router.RealmLib Router.RealmProofs Router.RealmMetaProofs.
From Nexus Require Import Router.BrokerWf Router.BrokerPres Router.BrokerPublish Router.BrokerSub Router.BrokerRun.
From Nexus Require Import Router.RealmWf Router.RealmStep Router.RealmIdle.
From Nexus Require Import Router.RealmTraceLib Router.RealmTrace Router.RealmTraceC01Seg Router.RealmTraceC01Ev
     Router.RealmTraceC01Mon Router.RealmTraceC01Kind Router.RealmTraceC01Ok Router.RealmTraceC01Sub.
From Coq Require Import Lia ZifyN ZifyNat ZifyBool.

Definition pubid_of (m : rmsg) : option N :=
  match m with REvent _ p _ _ _ => Some p | RPublished _ p => Some p | _ => None end.

Definition pubids (o : list out) : list N :=
  flat_map (fun m => match pubid_of (snd m) with Some p => [p] | None => [] end) o.

Fixpoint ascending (lo : N) (l : list N) : Prop :=
  match l with [] => True | p :: rest => lo <= p /\ ascending p rest end.

Definition prange (pg : N) (o : list out) (pg' : N) : Prop :=
  pg <= pg' /\ ascending (pg + 1) (pubids o) /\ Forall (fun p => p <= pg') (pubids o).

Definition nopub (o : list out) : Prop := forall m, In m o -> pubid_of (snd m) = None.
Definition all_ids (q : N) (o : list out) : Prop := forall m p, In m o -> pubid_of (snd m) = Some p -> p = q.

Lemma pubids_app : forall a b, pubids (a ++ b) = pubids a ++ pubids b.
Proof. intros. unfold pubids. apply flat_map_app. Qed.

Lemma pubids_In : forall o p, In p (pubids o) <-> exists m, In m o /\ pubid_of (snd m) = Some p.
Proof.
  intros o p. unfold pubids. rewrite in_flat_map. split.
  - intros (m & Hm & H). exists m. split; [exact Hm|]. destruct (pubid_of (snd m)); [destruct H as [<-|[]]; reflexivity|destruct H].
  - intros (m & Hm & E). exists m. split; [exact Hm|]. rewrite E. now left.
Qed.

Lemma ascending_weaken : forall l lo lo', lo' <= lo -> ascending lo l -> ascending lo' l.
Proof. intros [|p l] lo lo' H A; cbn in *; [exact I|]. destruct A. split; [lia|assumption]. Qed.

Lemma ascending_app : forall l1 l2 lo hi lo2,
    ascending lo l1 -> Forall (fun p => p <= hi) l1 -> ascending lo2 l2 -> hi <= lo2 -> lo <= lo2 ->
    ascending lo (l1 ++ l2).
Proof.
  induction l1 as [|p l1 IH]; intros l2 lo hi lo2 A F B H1 H2; cbn [app].
  - eapply ascending_weaken; eauto.
  - cbn in A. destruct A as [A1 A2]. inversion F; subst. split; [exact A1|].
    eapply IH; eauto. lia.
Qed.

Lemma ascending_all : forall q l, (forall p, In p l -> p = q) -> ascending q l.
Proof.
  intros q l; induction l as [|p l IH]; intros H; cbn; [exact I|].
  assert (p = q) by (apply H; now left). subst. split; [lia|]. apply IH. intros; apply H; now right.
Qed.

Lemma ascending_lower : forall l lo p, ascending lo l -> In p l -> lo <= p.
Proof.
  induction l as [|x l IH]; intros lo p A H; [destruct H|]. cbn in A. destruct A as [A1 A2].
  destruct H as [<-|H]; [exact A1|]. specialize (IH _ _ A2 H). lia.
Qed.

Lemma ascending_split : forall l1 l2 lo p1 p2, ascending lo (l1 ++ p1 :: l2) -> In p2 l2 -> p1 <= p2.
Proof.
  induction l1 as [|x l1 IH]; intros l2 lo p1 p2 A H; cbn [app] in A; cbn in A; destruct A as [A1 A2].
  - eapply ascending_lower; eauto.
  - eapply IH; eauto.
Qed.

Lemma prange_nopub : forall pg o, nopub o -> prange pg o pg.
Proof.
  intros pg o H. assert (E : pubids o = []).
  { unfold pubids. induction o as [|m o IH]; [reflexivity|]. cbn [flat_map]. rewrite (H m) by now left.
    apply IH. intros m' Hm. apply H. now right. }
  unfold prange. rewrite E. repeat split; [lia|constructor].
Qed.

Lemma prange_nil : forall pg, prange pg [] pg.
Proof. intros. apply prange_nopub. intros m []. Qed.

Lemma prange_all : forall pg o, all_ids (pg + 1) o -> prange pg o (pg + 1).
Proof.
  intros pg o H.
  assert (A : forall p, In p (pubids o) -> p = pg + 1).
  { intros p Hp. apply pubids_In in Hp. destruct Hp as (m & Hm & E). eapply H; eauto. }
  split; [lia|]. split; [now apply ascending_all|]. apply Forall_forall. intros p Hp. rewrite (A p Hp). lia.
Qed.

Lemma prange_app : forall pg o1 pg1 o2 pg2, prange pg o1 pg1 -> prange pg1 o2 pg2 -> prange pg (o1 ++ o2) pg2.
Proof.
  intros pg o1 pg1 o2 pg2 (L1 & A1 & F1) (L2 & A2 & F2).
  split; [lia|]. rewrite pubids_app. split.
  - eapply ascending_app; eauto; lia.
  - apply Forall_app. split; [|exact F2]. eapply Forall_impl; [|exact F1]. intros p Hp. cbv beta in Hp. lia.
Qed.

Lemma prange_cons_nopub : forall pg m o pg', pubid_of (snd m) = None -> prange pg o pg' -> prange pg (m :: o) pg'.
Proof.
  intros pg m o pg' E H. change (m :: o) with ([m] ++ o). eapply prange_app; [|exact H].
  apply prange_nopub. intros x [<-|[]]. exact E.
Qed.

(** ** The broker operations *)
Lemma sme_all_ids : forall b mt cause p args, all_ids p (sub_meta_event b mt cause p args).
Proof.
  intros b mt cause p args m q Hm E. destruct (sub_meta_event_receivers b mt cause p args m Hm) as (s & st & _ & _ & Em).
  rewrite Em in E. cbn in E. congruence.
Qed.

(** an accepted PUBLISH uses the single id [pg + 1]; a refused one none *)
Lemma publish_all_ids : forall cfg lk now b pg pub req opts topic args kw,
    all_ids (pg + 1) (snd (publish cfg lk now b pg pub req opts topic args kw)).
Proof.
  intros cfg lk now b pg pub req opts topic args kw m p Hm E. unfold publish in Hm.
  destruct (negb (valid_uri _ _ _)).
  { cbn [snd] in Hm. destruct (opt_bool opts "acknowledge"); [|destruct Hm]. destruct Hm as [<-|[]]. discriminate E. }
  destruct (publish_aborts cfg pub opts topic).
  { cbn [snd] in Hm. destruct Hm as [<-|[]]. discriminate E. }
  destruct (opt_bool opts "disclose_me" && negb (c_disclose cfg)).
  { cbn [snd] in Hm. destruct (opt_bool opts "acknowledge"); [|destruct Hm]. destruct Hm as [<-|[]]. discriminate E. }
  pose proof (pub_event_fold lk now pub (pg + 1) opts topic args kw (matching_subs b topic) b []) as F.
  destruct (fold_left _ (matching_subs b topic) (b, [])) as [b1 o]. cbn [snd] in *. rewrite F in Hm. cbn [app] in Hm.
  apply in_app_or in Hm. destruct Hm as [Hm|Hm].
  - pose proof (pub_events_only _ _ _ _ _ _ _ _ _ Hm) as Ev. destruct m as [x mm]. cbn [snd] in E, Ev.
    destruct mm; try discriminate Ev. cbn in E. inversion E; subst.
    destruct (pub_events_subs _ _ _ _ _ _ _ _ _ _ _ _ _ _ Hm) as [_ Ep]. exact Ep.
  - destruct (opt_bool opts "acknowledge"); [|destruct Hm]. destruct Hm as [<-|[]]. cbn in E. congruence.
Qed.

Lemma publish_pg_cases : forall cfg lk now b pg pub req opts topic args kw,
    let r := publish cfg lk now b pg pub req opts topic args kw in
    (snd (fst r) = pg /\ nopub (snd r)) \/ snd (fst r) = pg + 1.
Proof.
  intros cfg lk now b pg pub req opts topic args kw. cbv zeta. unfold publish.
  destruct (negb (valid_uri _ _ _)).
  { left. cbn [fst snd]. split; [reflexivity|]. destruct (opt_bool opts "acknowledge"); intros m H; [destruct H as [<-|[]]; reflexivity|destruct H]. }
  destruct (publish_aborts cfg pub opts topic).
  { left. cbn [fst snd]. split; [reflexivity|]. intros m [<-|[]]. reflexivity. }
  destruct (opt_bool opts "disclose_me" && negb (c_disclose cfg)).
  { left. cbn [fst snd]. split; [reflexivity|]. destruct (opt_bool opts "acknowledge"); intros m H; [destruct H as [<-|[]]; reflexivity|destruct H]. }
  right. destruct (fold_left _ (matching_subs b topic) (b, [])). reflexivity.
Qed.

Lemma rs_step_prange : forall sid b pg o id b' pg' o',
    remove_session_sub sid (b, pg, o) id = (b', pg', o') -> exists new, o' = o ++ new /\ prange pg new pg'.
Proof.
  intros sid b pg o id b' pg' o'. unfold remove_session_sub.
  destruct (nget (b_subs b) id) as [s|].
  2:{ intros H; inversion H; subst. exists []. rewrite app_nil_r. split; [reflexivity|apply prange_nil]. }
  cbv zeta. match goal with |- context [if ?c then _ else _] => destruct c end; intros H; inversion H; subst.
  - eexists. split; [reflexivity|].
    eapply prange_app; [apply prange_all, sme_all_ids|].
    replace (pg + 2) with (pg + 1 + 1) by lia. apply prange_all. replace (pg + 1 + 1) with (pg + 2) by lia. apply sme_all_ids.
  - eexists. split; [reflexivity|]. apply prange_all, sme_all_ids.
Qed.

Lemma rs_fold_prange : forall sid ids b pg o b' pg' o',
    fold_left (remove_session_sub sid) ids (b, pg, o) = (b', pg', o') -> exists new, o' = o ++ new /\ prange pg new pg'.
Proof.
  intros sid ids; induction ids as [|id ids IH]; intros b pg o b' pg' o'; cbn [fold_left].
  - intros H; inversion H; subst. exists []. rewrite app_nil_r. split; [reflexivity|apply prange_nil].
  - destruct (remove_session_sub sid (b, pg, o) id) as [[b1 pg1] o1] eqn:E1.
    destruct (rs_step_prange _ _ _ _ _ _ _ _ E1) as (n1 & -> & P1).
    intros H. destruct (IH _ _ _ _ _ _ H) as (n2 & -> & P2).
    exists (n1 ++ n2). split; [now rewrite app_assoc|]. eapply prange_app; eauto.
Qed.

Theorem bstep_prange : forall cfg b bo,
    prange (bop_pg bo) (snd (bstep cfg b bo)) (snd (fst (bstep cfg b bo))).
Proof.
  intros cfg b bo. destruct bo as [pg sid req opts topic|pg sid req subid|pg sid|pg lk now pub req opts topic args kw]; cbn [bstep bop_pg].
  - pose proof (subscribe_event_order cfg b pg sid req opts topic) as O.
    destruct (subscribe cfg b pg sid req opts topic) as [[b' pg'] o]. cbn [fst snd].
    destruct O as [(_ & -> & (e & a & ->))|[(id & -> & ->)|[(id & -> & ->)|(s & -> & _ & _ & ->)]]].
    + apply prange_nopub. intros m [<-|[]]. reflexivity.
    + apply prange_nopub. intros m [<-|[]]. reflexivity.
    + cbn [app]. apply prange_cons_nopub; [reflexivity|]. apply prange_all, sme_all_ids.
    + cbn [app]. apply prange_cons_nopub; [reflexivity|].
      eapply prange_app; [apply prange_all, sme_all_ids|].
      replace (pg + 2) with (pg + 1 + 1) by lia. apply prange_all. replace (pg + 1 + 1) with (pg + 2) by lia. apply sme_all_ids.
  - pose proof (unsubscribe_event_order b pg sid req subid) as O.
    destruct (unsubscribe b pg sid req subid) as [[b' pg'] o]. cbn [fst snd].
    destruct O as [(_ & -> & ->)|[(-> & ->)|(-> & ->)]].
    + apply prange_nopub. intros m [<-|[]]. reflexivity.
    + cbn [app]. apply prange_cons_nopub; [reflexivity|]. apply prange_all, sme_all_ids.
    + cbn [app]. apply prange_cons_nopub; [reflexivity|].
      eapply prange_app; [apply prange_all, sme_all_ids|].
      replace (pg + 2) with (pg + 1 + 1) by lia. apply prange_all. replace (pg + 1 + 1) with (pg + 2) by lia. apply sme_all_ids.
  - unfold broker_remove_session. destruct (nget (b_sess b) sid) as [ids|]; [|apply prange_nil].
    destruct (fold_left (remove_session_sub sid) ids (b_set_sess b (ndel (b_sess b) sid), pg, [])) as [[b' pg'] o'] eqn:E.
    destruct (rs_fold_prange _ _ _ _ _ _ _ _ E) as (new & -> & P). exact P.
  - pose proof (publish_all_ids cfg lk now b pg pub req opts topic args kw) as A.
    destruct (publish_pg_cases cfg lk now b pg pub req opts topic args kw) as [[E N]|E]; rewrite E.
    + now apply prange_nopub.
    + now apply prange_all.
Qed.

(** ** Segment lists *)
Fixpoint so_nopub (l : list seg) : Prop :=
  match l with [] => True | SO o :: rest => nopub o /\ so_nopub rest | SB _ :: rest => so_nopub rest end.

Lemma dmsg_nopub : forall m, dmsg m = true -> pubid_of (snd m) = None.
Proof. intros [x m] H. destruct m; try discriminate H; reflexivity. Qed.
Lemma is_end_nopub : forall m, is_end m = true -> pubid_of m = None.
Proof. intros m H. destruct m; try discriminate H; reflexivity. Qed.

Lemma seg_ok_so_nopub : forall cur cfg l b, seg_ok cur cfg b l -> so_nopub l.
Proof.
  intros cur cfg l; induction l as [|s l IH]; intros b H; [exact I|].
  destruct s as [bo|o]; cbn [seg_ok so_nopub] in *.
  - destruct H as [_ H]. eapply IH; eauto.
  - destruct H as [Hm H]. split; [|eapply IH; eauto].
    intros m Hin. destruct (Hm m Hin) as [D|[E _]]; [now apply dmsg_nopub|now apply is_end_nopub].
Qed.

Theorem seg_prange : forall cfg l b pg,
    so_nopub l -> seg_thr cfg b pg l ->
    prange pg (snd (seg_run cfg b pg l)) (snd (fst (seg_run cfg b pg l))).
Proof.
  intros cfg l; induction l as [|s l IH]; intros b pg N T; cbn [seg_run]; [apply prange_nil|].
  destruct s as [bo|o]; cbn [so_nopub seg_thr] in *.
  - destruct T as [Ep T]. pose proof (bstep_prange cfg b bo) as P. rewrite Ep in P.
    destruct (bstep cfg b bo) as [[b1 pg1] o1]. cbn [fst snd] in *.
    specialize (IH b1 pg1 N T). destruct (seg_run cfg b1 pg1 l) as [[b2 pg2] o2]. cbn [fst snd] in *.
    eapply prange_app; eauto.
  - destruct N as [No N]. specialize (IH b pg N T). destruct (seg_run cfg b pg l) as [[b2 pg2] o2]. cbn [fst snd] in *.
    eapply prange_app; [apply prange_nopub; exact No|exact IH].
Qed.

(** at every cut of a segment list: ids before <= the supply at the cut < ids after *)
Theorem seg_prange_cut : forall cfg l1 l2 b pg,
    so_nopub (l1 ++ l2) -> seg_thr cfg b pg (l1 ++ l2) ->
    let '(b1, pg1, o1) := seg_run cfg b pg l1 in
    let '(b2, pg2, o2) := seg_run cfg b1 pg1 l2 in
    snd (seg_run cfg b pg (l1 ++ l2)) = o1 ++ o2 /\
    (forall p, In p (pubids o1) -> pg < p <= pg1) /\ (forall p, In p (pubids o2) -> pg1 < p <= pg2).
Proof.
  intros cfg l1 l2 b pg N T.
  assert (N12 : so_nopub l1 /\ so_nopub l2).
  { clear T. induction l1 as [|s l1 IH]; cbn [app so_nopub] in *; [auto|]. destruct s; [auto|]. destruct N as [A N]. destruct (IH N). auto. }
  destruct N12 as [N1 N2]. apply seg_thr_app in T. destruct T as [T1 T2].
  pose proof (seg_prange cfg l1 b pg N1 T1) as P1. rewrite seg_run_app.
  destruct (seg_run cfg b pg l1) as [[b1 pg1] o1]. cbn [fst snd] in *.
  pose proof (seg_prange cfg l2 b1 pg1 N2 T2) as P2.
  destruct (seg_run cfg b1 pg1 l2) as [[b2 pg2] o2]. cbn [fst snd] in *.
  split; [reflexivity|].
  destruct P1 as (L1 & A1 & F1). destruct P2 as (L2 & A2 & F2). rewrite Forall_forall in F1, F2. split.
  - intros p Hp. pose proof (ascending_lower _ _ _ A1 Hp). specialize (F1 p Hp). cbv beta in F1. lia.
  - intros p Hp. pose proof (ascending_lower _ _ _ A2 Hp). specialize (F2 p Hp). cbv beta in F2. lia.
Qed.
