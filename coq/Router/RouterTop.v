(** * The router: a table of realms (router/router.go).  Definitions only.
    Every realm has its own broker, dealer, id generators and clock reading;
    an operation names the realm it happens in (a session is attached to
    exactly one realm: the one its HELLO named). *)
From Nexus Require Export Router.Realm.

Record router := mkRouter { rt_realms : list (N * realm) }.

Inductive rop :=
| RAddRealm (i : N) (cfg : config)        (* Router.AddRealm / template creation *)
| RRemoveRealm (i : N)                    (* Router.RemoveRealm *)
| ROp (i : N) (o : op)                    (* a client-side event in realm i *)
| RTick (ms : N).                         (* virtual time passes everywhere *)

Definition rout := (N * out)%type.        (* realm, (receiver, message) *)

Definition tag (i : N) (o : list out) : list rout := map (fun x => (i, x)) o.

(** realm.close: every attached client is told GOODBYE system_shutdown; no
    meta events, no testaments *)
Definition shutdown_outs (r : realm) : list out :=
  map (fun s => (s_id s, RGoodbye [] e_system_shutdown)) (r_clients r).

Definition rstep (rt : router) (o : rop) : router * list rout :=
  match o with
  | RAddRealm i cfg =>
      if amem N.eqb (rt_realms rt) i then (rt, [])
      else (mkRouter (nset (rt_realms rt) i (init_realm cfg)), [])
  | RRemoveRealm i =>
      match nget (rt_realms rt) i with
      | None => (rt, [])
      | Some r => (mkRouter (ndel (rt_realms rt) i), tag i (shutdown_outs r))
      end
  | ROp i o =>
      match nget (rt_realms rt) i with
      | None => (rt, [])
      | Some r => let '(r', out1) := step r o in (mkRouter (nset (rt_realms rt) i r'), tag i out1)
      end
  | RTick ms =>
      fold_left (fun '((rt', acc) : router * list rout) '((i, r) : N * realm) =>
                   let '(r', out1) := step r (OTick ms) in
                   (mkRouter (nset (rt_realms rt') i r'), acc ++ tag i out1))
                (rt_realms rt) (rt, [])
  end.

Definition rrun (rt : router) (ops : list rop) : router * list (list rout) :=
  fold_left (fun '((rt, acc) : router * list (list rout)) o =>
               let '(rt1, out1) := rstep rt o in (rt1, acc ++ [out1])) ops (rt, []).

(** the part of a history that concerns realm [j] *)
Definition concerns (j : N) (o : rop) : bool :=
  match o with
  | RAddRealm i _ | RRemoveRealm i | ROp i _ => N.eqb i j
  | RTick _ => true
  end.

Definition project (j : N) (outs : list rout) : list out :=
  flat_map (fun '((i, x) : rout) => if N.eqb i j then [x] else []) outs.
