(** * The publish filter (publishfilter.go): [allowed] and [make_filter]. *)
From Nexus Require Import Router.Broker Router.AssocLemmas Router.BrokerWf.
From Coq Require Import Lia ZifyN ZifyBool.

Lemma nonempty_iff : forall s, nonempty s = true <-> s <> "".
Proof. intros [|c s]; cbn; split; congruence. Qed.

(** ** [allowed] *)
Theorem allowed_spec : forall f sid details,
    allowed f sid details = true <->
    (* not excluded by id *)
    ~ In sid (f_bl_ids f) /\
    (* listed, when an eligible-id list is given *)
    (f_wl_ids f <> [] -> In sid (f_wl_ids f)) /\
    (* no blacklisted attribute value (a session without the attribute passes) *)
    (forall attr vals, In (attr, vals) (f_bl f) ->
                       attr_of details attr = "" \/ ~ In (attr_of details attr) vals) /\
    (* every whitelisted attribute present with a listed value *)
    (forall attr vals, In (attr, vals) (f_wl f) ->
                       attr_of details attr <> "" /\ In (attr_of details attr) vals).
Proof.
  intros f sid details. unfold allowed.
  rewrite !andb_true_iff, negb_true_iff, nmem_false, !forallb_forall.
  assert (Hwl : (match f_wl_ids f with [] => true | _ :: _ => nmem sid (f_wl_ids f) end) = true <->
                (f_wl_ids f <> [] -> In sid (f_wl_ids f))).
  { destruct (f_wl_ids f) as [|x l] eqn:E.
    - split; auto. intros _ H; congruence.
    - rewrite nmem_In. split; auto. intros H; apply H; discriminate. }
  rewrite Hwl. clear Hwl.
  assert (Hb : (forall x : string * list string, In x (f_bl f) ->
                  (let '(attr, vals) := x in negb (nonempty (attr_of details attr)) || negb (smem (attr_of details attr) vals)) = true) <->
               (forall attr vals, In (attr, vals) (f_bl f) -> attr_of details attr = "" \/ ~ In (attr_of details attr) vals)).
  { split.
    - intros H attr vals HI. specialize (H _ HI). cbn in H. apply orb_true_iff in H.
      destruct H as [H|H]; apply negb_true_iff in H.
      + left. destruct (attr_of details attr); [auto|discriminate].
      + right. rewrite <- smem_In. congruence.
    - intros H [attr vals] HI. destruct (H _ _ HI) as [E|E]; apply orb_true_iff.
      + left. rewrite E. reflexivity.
      + right. apply negb_true_iff. rewrite <- smem_In in E. destruct (smem (attr_of details attr) vals); congruence. }
  assert (Hw : (forall x : string * list string, In x (f_wl f) ->
                  (let '(attr, vals) := x in nonempty (attr_of details attr) && smem (attr_of details attr) vals) = true) <->
               (forall attr vals, In (attr, vals) (f_wl f) -> attr_of details attr <> "" /\ In (attr_of details attr) vals)).
  { split.
    - intros H attr vals HI. specialize (H _ HI). cbn in H. apply andb_true_iff in H.
      destruct H as [H1 H2]. split; [now apply nonempty_iff|now apply smem_In].
    - intros H [attr vals] HI. destruct (H _ _ HI) as [E1 E2]. apply andb_true_iff.
      split; [now apply nonempty_iff|now apply smem_In]. }
  rewrite Hb, Hw. tauto.
Qed.

(** ** Session-id lists go through [as_id]: out-of-range ids are dropped *)
Lemma as_id_range : forall v i, as_id v = Some i -> 1 <= i <= max_idN.
Proof.
  intros v i. unfold as_id. destruct (as_int64 v) as [j|]; [|discriminate].
  destruct (Z.ltb_spec 0 j), (Z.leb_spec j max_id); cbn [andb]; try discriminate.
  intros E; inversion E; subst. unfold max_id, max_idN in *. lia.
Qed.

Lemma as_id_spec : forall v i,
    as_id v = Some i <-> exists k z, v = VInt k z /\ (0 < to_int64 k z <= max_id)%Z /\ i = Z.to_N (to_int64 k z).
Proof.
  intros v i. unfold as_id. destruct v as [| |k z| | |]; cbn [as_int64];
    try (split; [discriminate|intros (k0 & z0 & E & _); discriminate]).
  destruct (Z.ltb_spec 0 (to_int64 k z)), (Z.leb_spec (to_int64 k z) max_id); cbn [andb]; split;
    try discriminate; try (intros (k0 & z0 & E & H1 & _); inversion E; subst; lia).
  - intros E; inversion E; subst. exists k, z. repeat split; auto.
  - intros (k0 & z0 & E & _ & ->). inversion E; subst. reflexivity.
Qed.

Lemma ids_of_In : forall v i,
    In i (ids_of (Some v)) <-> exists l e, as_list v = Some l /\ In e l /\ as_id e = Some i.
Proof.
  intros v i. unfold ids_of. destruct (as_list v) as [l|].
  - rewrite in_flat_map. split.
    + intros (e & He & Hi). destruct (as_id e) as [j|] eqn:E; [|destruct Hi].
      destruct Hi as [<-|[]]. exists l, e. auto.
    + intros (l' & e & El & He & Hi). inversion El; subst l'. exists e. split; auto. rewrite Hi. now left.
  - split; [intros []|intros (l & e & El & _); discriminate].
Qed.

Corollary ids_of_range : forall o i, In i (ids_of o) -> 1 <= i <= max_idN.
Proof.
  intros [v|] i H; [|destruct H]. apply ids_of_In in H. destruct H as (l & e & _ & _ & Hi).
  eapply as_id_range; eauto.
Qed.

Theorem make_filter_ids : forall opts,
    f_bl_ids (make_filter opts) = ids_of (dget opts "exclude") /\
    f_wl_ids (make_filter opts) = ids_of (dget opts "eligible") /\
    f_bl (make_filter opts) = attr_map "exclude_" opts /\
    f_wl (make_filter opts) = attr_map "eligible_" opts.
Proof. intros; repeat split; reflexivity. Qed.

(** ** Attribute maps *)
Definition strings_of (l : list value) : list string :=
  flat_map (fun e => match as_string e with Some s => if nonempty s then [s] else [] | None => [] end) l.

(** what one option entry contributes to the attribute map *)
Definition contributes (prefix k : string) (v : value) : option (string * list string) :=
  match strip_prefix prefix k with
  | None => None
  | Some attr =>
      match (match v with VList l => Some l | VNull => Some [] | _ => None end) with
      | None => None
      | Some l => match strings_of l with [] => None | vals => Some (attr, vals) end
      end
  end.

Definition attr_step (prefix : string) (acc : list (string * list string)) (kv : string * value) :=
  match contributes prefix (fst kv) (snd kv) with
  | None => acc
  | Some (attr, vals) => sset acc attr vals
  end.

Lemma fold_left_ext_eq : forall {A B} (f g : A -> B -> A) l a, (forall a b, f a b = g a b) ->
    fold_left f l a = fold_left g l a.
Proof. intros A B f g l; induction l as [|x l IH]; intros a H; cbn; auto. rewrite H. now apply IH. Qed.

Lemma attr_map_fold : forall prefix opts, attr_map prefix opts = fold_left (attr_step prefix) opts [].
Proof.
  intros. unfold attr_map. apply fold_left_ext_eq. intros acc [k v]. unfold attr_step, contributes. cbn [fst snd].
  destruct (strip_prefix prefix k); auto.
  destruct (match v with VList l => Some l | VNull => Some [] | _ => None end) as [l|]; auto.
  fold (strings_of l). destruct (strings_of l); reflexivity.
Qed.

(** empty strings are skipped; a contribution is never an empty list *)
Lemma strings_of_nonempty : forall l s, In s (strings_of l) -> s <> "".
Proof.
  intros l s H. unfold strings_of in H. apply in_flat_map in H. destruct H as (e & _ & H).
  destruct (as_string e) as [x|]; [|destruct H]. destruct (nonempty x) eqn:E; [|destruct H].
  destruct H as [<-|[]]. now apply nonempty_iff.
Qed.

Lemma strings_of_In : forall l s, In s (strings_of l) <-> s <> "" /\ exists e, In e l /\ as_string e = Some s.
Proof.
  intros l s. unfold strings_of. rewrite in_flat_map. split.
  - intros (e & He & H). destruct (as_string e) as [x|] eqn:Ex; [|destruct H].
    destruct (nonempty x) eqn:E; [|destruct H]. destruct H as [<-|[]].
    split; [now apply nonempty_iff|eauto].
  - intros (Hn & e & He & Ex). exists e. split; auto. rewrite Ex.
    apply nonempty_iff in Hn. rewrite Hn. now left.
Qed.

Lemma contributes_vals : forall prefix k v attr vals, contributes prefix k v = Some (attr, vals) ->
    vals <> [] /\ (forall s, In s vals -> s <> "") /\ strip_prefix prefix k = Some attr /\
    exists l, as_list v = Some l /\ vals = strings_of l.
Proof.
  intros prefix k v attr vals. unfold contributes.
  destruct (strip_prefix prefix k) as [a|]; [|discriminate].
  destruct v as [| | | |l|]; try discriminate.
  destruct (strings_of l) as [|x r] eqn:E; [discriminate|]. intros H; inversion H; subst.
    split; [discriminate|]. split; [|split; [reflexivity|exists l; auto]].
    intros s Hs. rewrite <- E in Hs. eapply strings_of_nonempty; eauto.
Qed.

(** every filter entry comes from an option entry *)
Theorem attr_map_sound : forall prefix opts attr vals,
    sget (attr_map prefix opts) attr = Some vals ->
    exists k v, In (k, v) opts /\ contributes prefix k v = Some (attr, vals).
Proof.
  intros prefix opts attr vals. rewrite attr_map_fold.
  assert (G : forall acc, sget (fold_left (attr_step prefix) opts acc) attr = Some vals ->
                sget acc attr = Some vals \/ exists k v, In (k, v) opts /\ contributes prefix k v = Some (attr, vals)).
  { induction opts as [|[k v] opts IH]; intros acc H; cbn [fold_left] in H; auto.
    destruct (IH _ H) as [H1|(k' & v' & HI & Hc)].
    - unfold attr_step in H1. cbn [fst snd] in H1.
      destruct (contributes prefix k v) as [[a vs]|] eqn:Ec; auto.
      rewrite sgs in H1. destruct (String.eqb_spec attr a) as [->|]; auto.
      inversion H1; subst. right. exists k, v. split; [now left|auto].
    - right. exists k', v'. split; [now right|auto]. }
  intros H. destruct (G [] H) as [H1|H1]; [discriminate|auto].
Qed.

(** no contributing entry (e.g. the value list is empty after dropping
    non-strings and empty strings): no filter for that attribute *)
Theorem attr_map_none : forall prefix opts attr,
    (forall k v vals, In (k, v) opts -> contributes prefix k v <> Some (attr, vals)) ->
    sget (attr_map prefix opts) attr = None.
Proof.
  intros prefix opts attr H. destruct (sget (attr_map prefix opts) attr) as [vals|] eqn:E; auto.
  apply attr_map_sound in E. destruct E as (k & v & HI & Hc). exfalso. eapply H; eauto.
Qed.

(** the last contributing entry for an attribute is its filter (in a Go map
    there is exactly one key "prefix ++ attr") *)
Theorem attr_map_last : forall prefix o1 k v o2 attr vals,
    contributes prefix k v = Some (attr, vals) ->
    (forall k' v' vals', In (k', v') o2 -> contributes prefix k' v' <> Some (attr, vals')) ->
    sget (attr_map prefix (o1 ++ (k, v) :: o2)) attr = Some vals.
Proof.
  intros prefix o1 k v o2 attr vals Hc Hn. rewrite attr_map_fold, fold_left_app. cbn [fold_left].
  set (acc := fold_left (attr_step prefix) o1 []).
  assert (E : sget (attr_step prefix acc (k, v)) attr = Some vals).
  { unfold attr_step. cbn [fst snd]. rewrite Hc. apply (aget_aset_same String.eqb String.eqb_spec). }
  generalize dependent (attr_step prefix acc (k, v)). clear acc.
  induction o2 as [|[k' v'] o2 IH]; intros acc E; cbn [fold_left]; auto.
  apply IH.
  - intros; eapply Hn; right; eauto.
  - unfold attr_step. cbn [fst snd]. destruct (contributes prefix k' v') as [[a vs]|] eqn:Ec; auto.
    rewrite sgs. destruct (String.eqb_spec attr a) as [->|]; auto.
    exfalso. eapply (Hn k' v' vs); [now left|auto].
Qed.
