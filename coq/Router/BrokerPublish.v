(** * PUBLISH delivers exactly to the matching, eligible holders ([publish_exact]). *)
From Nexus Require Import Router.Broker Router.AssocLemmas Router.BrokerWf Router.BrokerPres.
From Coq Require Import Lia ZifyN ZifyBool.

(** ** [matching_subs] under the invariant *)
Lemma NoDup_keys_NoDup : forall {K V} (l : list (K * V)), NoDup (map fst l) -> NoDup l.
Proof. intros K V l. apply NoDup_map_inv. Qed.

Definition pat_part (b : broker) (k : mkind) (topic : string) : list (subscription * bool) :=
  flat_map (fun '((p, id) : string * N) => if matches_b k p topic
               then match nget (b_subs b) id with Some s => [(s, true)] | None => [] end else []) (b_map b k).

Lemma matching_subs_eq : forall b topic,
    matching_subs b topic =
    (match sget (b_map b MExact) topic with
     | Some id => match nget (b_subs b) id with Some s => [(s, false)] | None => [] end
     | None => [] end) ++ pat_part b MPrefix topic ++ pat_part b MWildcard topic.
Proof. reflexivity. Qed.

Lemma pat_part_In : forall b k topic, core_wf b -> k <> MExact -> forall s st,
    In (s, st) (pat_part b k topic) <->
    sub_in b s /\ kind s = k /\ matches k (sub_topic s) topic /\ st = true.
Proof.
  intros b k topic W Hk s st. unfold pat_part. rewrite in_flat_map. split.
  - intros ([p id] & HI & Hx).
    destruct (wf_map_entry b W k p id HI) as (s0 & E0 & Hid & Ht & Hk0).
    destruct (matches_b k p topic) eqn:M; [|destruct Hx].
    rewrite E0 in Hx. destruct Hx as [Hx|[]]. inversion Hx; subst s0 st.
    unfold sub_in. rewrite Hid, Ht. repeat split; auto. now apply matches_b_spec.
  - intros (Hin & Hk0 & Hm & ->). unfold sub_in in Hin.
    exists (sub_topic s, sub_id s). split.
    + rewrite <- Hk0. apply (aget_In String.eqb String.eqb_spec). eapply wf_sub_map; eauto.
    + apply matches_b_spec in Hm. rewrite Hm, Hin. now left.
Qed.

Lemma pat_part_NoDup : forall b k topic, core_wf b -> NoDup (pat_part b k topic).
Proof.
  intros b k topic W. unfold pat_part. apply NoDup_flat_map.
  - apply NoDup_keys_NoDup, W.
  - intros [p id] _. destruct (matches_b k p topic); [|constructor].
    destruct (nget (b_subs b) id); repeat constructor. intros [].
  - intros [p id] [p' id'] [s st] H1 H2 Z1 Z2.
    destruct (wf_map_entry b W k p id H1) as (s1 & E1 & Hid1 & Ht1 & _).
    destruct (wf_map_entry b W k p' id' H2) as (s2 & E2 & Hid2 & Ht2 & _).
    destruct (matches_b k p topic); [|destruct Z1].
    destruct (matches_b k p' topic); [|destruct Z2].
    rewrite E1 in Z1. rewrite E2 in Z2. destruct Z1 as [Z1|[]]. destruct Z2 as [Z2|[]].
    inversion Z1; inversion Z2; subst. congruence.
Qed.

Theorem matching_subs_In : forall b topic, core_wf b -> forall s st,
    In (s, st) (matching_subs b topic) <->
    sub_in b s /\ matches (kind s) (sub_topic s) topic /\ st = is_pattern (kind s).
Proof.
  intros b topic W s st. rewrite matching_subs_eq, !in_app_iff.
  rewrite (pat_part_In b MPrefix topic W) by discriminate.
  rewrite (pat_part_In b MWildcard topic W) by discriminate.
  split.
  - intros [H|[H|H]].
    + destruct (sget (b_map b MExact) topic) as [id|] eqn:Em; [|destruct H].
      destruct (wf_map_sub b W _ _ _ Em) as (s0 & E0 & Ht & Hk).
      rewrite E0 in H. destruct H as [H|[]]. inversion H; subst s0 st.
      pose proof (wf_sub_id b W _ _ E0) as Hid.
      unfold sub_in. rewrite Hid, Hk. cbn. auto.
    + destruct H as (Hin & Hk & Hm & ->). rewrite Hk. auto.
    + destruct H as (Hin & Hk & Hm & ->). rewrite Hk. auto.
  - intros (Hin & Hm & ->). destruct (kind s) eqn:Hk; cbn [matches is_pattern] in *.
    + left. unfold sub_in in Hin. pose proof (wf_sub_map b W _ _ Hin) as M.
      rewrite Hk, Hm in M. rewrite M, Hin. now left.
    + right; left; auto.
    + right; right; auto.
Qed.

Theorem matching_subs_NoDup : forall b topic, core_wf b -> NoDup (matching_subs b topic).
Proof.
  intros b topic W. rewrite matching_subs_eq.
  apply NoDup_app_intro; [|apply NoDup_app_intro|].
  - destruct (sget (b_map b MExact) topic); [|constructor].
    destruct (nget (b_subs b) n); repeat constructor. intros [].
  - now apply pat_part_NoDup.
  - now apply pat_part_NoDup.
  - intros [s st] H1 H2.
    apply (pat_part_In b MPrefix topic W) in H1; [|discriminate].
    apply (pat_part_In b MWildcard topic W) in H2; [|discriminate].
    destruct H1 as (_ & K1 & _). destruct H2 as (_ & K2 & _). congruence.
  - intros [s st] H1 H2.
    assert (st = true).
    { apply in_app_iff in H2. destruct H2 as [H2|H2];
        [apply (pat_part_In b MPrefix topic W) in H2|apply (pat_part_In b MWildcard topic W) in H2];
        try discriminate; tauto. }
    subst st. destruct (sget (b_map b MExact) topic); [|destruct H1].
    destruct (nget (b_subs b) n); [|destruct H1]. destruct H1 as [H1|[]]. inversion H1.
Qed.

(** the subscription determines its pair in [matching_subs] *)
Lemma matching_subs_same_id : forall b topic, core_wf b -> forall s1 st1 s2 st2,
    In (s1, st1) (matching_subs b topic) -> In (s2, st2) (matching_subs b topic) ->
    sub_id s1 = sub_id s2 -> (s1, st1) = (s2, st2).
Proof.
  intros b topic W s1 st1 s2 st2 H1 H2 E.
  apply (matching_subs_In b topic W) in H1. apply (matching_subs_In b topic W) in H2.
  destruct H1 as (I1 & _ & ->). destruct H2 as (I2 & _ & ->).
  unfold sub_in in *. rewrite E in I1. assert (s1 = s2) by congruence. subst. reflexivity.
Qed.

(** ** The events of one subscription *)
Definition exclude_me_of (opts : dict) : bool :=
  match dget opts "exclude_me" with Some (VBool x) => x | _ => true end.

(** the details dictionary of an EVENT (and of a stored history entry, with
    [recv = None]): the passthru part, then topic / publisher disclosure *)
Definition event_dict (opts : dict) (topic : string) (send_topic disclose : bool) (pub : session)
           (recv : option session) : dict :=
  ppt_part opts ++ event_details topic send_topic disclose pub recv.

Definition sub_events (lookup : N -> option session) (pub : session) (pubid : N) (opts : dict) (topic : string)
           (args : list value) (kw : dict) (ep disc : bool) (f : pfilter) (sst : subscription * bool) : list out :=
  map (fun rs => (s_id rs, REvent (sub_id (fst sst)) pubid (event_dict opts topic (snd sst) disc pub (Some rs)) args kw))
      (sub_targets lookup (s_id pub) ep f (fst sst)).

Lemma pub_event_out : forall lookup now pub pubid opts topic args kw ep disc f b o sst,
    snd (pub_event lookup now pub pubid opts topic args kw ep disc f (b, o) sst) =
    o ++ sub_events lookup pub pubid opts topic args kw ep disc f sst.
Proof. intros. destruct sst as [s st]. reflexivity. Qed.

Lemma pub_fold_out : forall lookup now pub pubid opts topic args kw ep disc f l b o,
    snd (fold_left (pub_event lookup now pub pubid opts topic args kw ep disc f) l (b, o)) =
    o ++ flat_map (sub_events lookup pub pubid opts topic args kw ep disc f) l.
Proof.
  intros lookup now pub pubid opts topic args kw ep disc f l; induction l as [|sst l IH]; intros b o; cbn [fold_left flat_map].
  - now rewrite app_nil_r.
  - pose proof (pub_event_out lookup now pub pubid opts topic args kw ep disc f b o sst) as H1.
    destruct (pub_event lookup now pub pubid opts topic args kw ep disc f (b, o) sst) as [b1 o1]. cbn [snd] in H1.
    rewrite IH, H1, app_assoc. reflexivity.
Qed.

Lemma sub_targets_In : forall lookup pubsid ep f s rs,
    In rs (sub_targets lookup pubsid ep f s) <->
    exists r, In r (sub_subs s) /\ ~ (r = pubsid /\ ep = true) /\ lookup r = Some rs /\
              allowed f r (s_details rs) = true.
Proof.
  intros. unfold sub_targets. rewrite in_flat_map. split.
  - intros (r & Hr & Hx). exists r. split; auto.
    destruct (N.eqb_spec r pubsid) as [->|Hn]; cbn [andb] in Hx.
    + destruct ep; [destruct Hx|].
      destruct (lookup pubsid) as [rs'|]; [|destruct Hx].
      destruct (allowed f pubsid (s_details rs')) eqn:A; [|destruct Hx].
      destruct Hx as [<-|[]]. repeat split; auto. intros [_ ?]; discriminate.
    + destruct (lookup r) as [rs'|]; [|destruct Hx].
      destruct (allowed f r (s_details rs')) eqn:A; [|destruct Hx].
      destruct Hx as [<-|[]]. repeat split; auto. intros [? _]; contradiction.
  - intros (r & Hr & Hne & Hl & Ha). exists r. split; auto.
    destruct (N.eqb_spec r pubsid) as [->|Hn]; cbn [andb].
    + destruct ep; [exfalso; auto|]. rewrite Hl, Ha. now left.
    + rewrite Hl, Ha. now left.
Qed.

Definition lookup_ok (lookup : N -> option session) : Prop :=
  forall r rs, lookup r = Some rs -> s_id rs = r.

Lemma sub_targets_NoDup_ids : forall lookup pubsid ep f s, lookup_ok lookup -> NoDup (sub_subs s) ->
    NoDup (map s_id (sub_targets lookup pubsid ep f s)).
Proof.
  intros lookup pubsid ep f s Hok. unfold sub_targets.
  induction (sub_subs s) as [|r l IH]; intros ND; cbn [flat_map map]; [constructor|].
  inversion ND as [|? ? Hn ND']; subst. rewrite map_app.
  apply NoDup_app_intro; auto.
  - destruct (N.eqb r pubsid && ep); [constructor|].
    destruct (lookup r) as [rs|]; [|constructor].
    destruct (allowed f r (s_details rs)); repeat constructor. intros [].
  - intros x H1 H2.
    assert (x = r).
    { destruct (N.eqb r pubsid && ep); [destruct H1|].
      destruct (lookup r) as [rs|] eqn:El; [|destruct H1].
      destruct (allowed f r (s_details rs)); [|destruct H1].
      destruct H1 as [<-|[]]. now apply Hok. }
    subst x. apply in_map_iff in H2. destruct H2 as (rs & E & H2).
    apply in_flat_map in H2. destruct H2 as (r' & Hr' & Hx).
    assert (r' = r).
    { destruct (N.eqb r' pubsid && ep); [destruct Hx|].
      destruct (lookup r') as [rs'|] eqn:El; [|destruct Hx].
      destruct (allowed f r' (s_details rs')); [|destruct Hx].
      destruct Hx as [<-|[]]. apply Hok in El. congruence. }
    subst r'. contradiction.
Qed.

Lemma NoDup_map_key : forall {A B} (h : A -> N) (k : A -> N * B) (l : list A),
    (forall a, fst (k a) = h a) -> NoDup (map h l) -> NoDup (map k l).
Proof.
  intros A B h k l Hk ND. induction l as [|a l IH]; cbn in *; [constructor|].
  inversion ND as [|? ? Hn ND']; subst. constructor; auto.
  intros HI. apply Hn. apply in_map_iff in HI. destruct HI as (a' & E & HI).
  apply in_map_iff. exists a'. split; auto. rewrite <- !Hk. now rewrite E.
Qed.

Lemma sub_events_NoDup : forall lookup pub pubid opts topic args kw ep disc f sst,
    lookup_ok lookup -> NoDup (sub_subs (fst sst)) ->
    NoDup (sub_events lookup pub pubid opts topic args kw ep disc f sst).
Proof.
  intros. unfold sub_events.
  apply (NoDup_map_key s_id); [reflexivity|].
  apply sub_targets_NoDup_ids; auto.
Qed.

(** ** [publish_exact] *)
(** the EVENT recipient [rs] gets through subscription [s] *)
Definition event_for (pub : session) (pg : N) (opts : dict) (topic : string) (args : list value) (kw : dict)
           (s : subscription) (rs : session) : out :=
  (s_id rs, REvent (sub_id s) (pg + 1)
                   (event_dict opts topic (is_pattern (kind s)) (opt_bool opts "disclose_me") pub (Some rs)) args kw).

(** session [r], attached as [rs], is to receive the publication through [s] *)
Definition receives (lookup : N -> option session) (b : broker) (pub : session) (opts : dict) (topic : string)
           (s : subscription) (r : N) (rs : session) : Prop :=
  holds b r s /\ matches (kind s) (sub_topic s) topic /\
  ~ (r = s_id pub /\ exclude_me_of opts = true) /\
  lookup r = Some rs /\ allowed (make_filter opts) r (s_details rs) = true.

(** the PUBLISH is neither refused (invalid URI, disallowed disclose_me) nor a
    protocol violation (passthru mode used without the publisher feature) *)
Definition pub_accepted (cfg : config) (pub : session) (opts : dict) (topic : string) : Prop :=
  valid_uri (c_strict cfg) "" topic = true /\
  publish_aborts cfg pub opts topic = false /\
  (opt_bool opts "disclose_me" = true -> c_disclose cfg = true).

Lemma publish_unfold : forall cfg lookup now b pg pub req opts topic args kw,
    pub_accepted cfg pub opts topic ->
    publish cfg lookup now b pg pub req opts topic args kw =
    (fst (fold_left (pub_event lookup now pub (pg + 1) opts topic args kw (exclude_me_of opts)
                               (opt_bool opts "disclose_me") (make_filter opts)) (matching_subs b topic) (b, [])),
     pg + 1,
     flat_map (sub_events lookup pub (pg + 1) opts topic args kw (exclude_me_of opts) (opt_bool opts "disclose_me") (make_filter opts))
              (matching_subs b topic)
     ++ (if opt_bool opts "acknowledge" then [(s_id pub, RPublished req (pg + 1))] else [])).
Proof.
  intros cfg lookup now b pg pub req opts topic args kw (Hv & Hab & Hd). unfold publish.
  rewrite Hv, Hab. cbn [negb].
  assert (opt_bool opts "disclose_me" && negb (c_disclose cfg) = false) as ->.
  { destruct (opt_bool opts "disclose_me"); auto. rewrite Hd; auto. }
  fold (exclude_me_of opts).
  pose proof (pub_fold_out lookup now pub (pg + 1) opts topic args kw (exclude_me_of opts)
                (opt_bool opts "disclose_me") (make_filter opts) (matching_subs b topic) b []) as HF.
  destruct (fold_left _ (matching_subs b topic) (b, [])) as [b1 o1]. cbn [fst snd] in *.
  now rewrite HF.
Qed.

Theorem publish_exact : forall cfg lookup now b pg pub req opts topic args kw b' pg' o,
    broker_wf b -> lookup_ok lookup -> pub_accepted cfg pub opts topic ->
    publish cfg lookup now b pg pub req opts topic args kw = (b', pg', o) ->
    pg' = pg + 1 /\ NoDup o /\
    forall x, In x o <->
      (opt_bool opts "acknowledge" = true /\ x = (s_id pub, RPublished req (pg + 1))) \/
      (exists s r rs, receives lookup b pub opts topic s r rs /\ x = event_for pub pg opts topic args kw s rs).
Proof.
  intros cfg lookup now b pg pub req opts topic args kw b' pg' o W Hok Hacc.
  rewrite publish_unfold by auto. intros H; inversion H; subst b' pg' o; clear H.
  destruct W as [Wc _ _ _].
  split; [reflexivity|]. split.
  - apply NoDup_app_intro.
    + apply NoDup_flat_map.
      * now apply matching_subs_NoDup.
      * intros [s st] HI. apply sub_events_NoDup; auto.
        apply (matching_subs_In b topic Wc) in HI. destruct HI as (HI & _).
        apply (wf_sub_nodup b Wc _ _ HI).
      * intros [s1 st1] [s2 st2] z H1 H2 Z1 Z2.
        eapply matching_subs_same_id; eauto.
        unfold sub_events in Z1, Z2. apply in_map_iff in Z1, Z2.
        destruct Z1 as (r1 & <- & _). destruct Z2 as (r2 & E & _). cbn [fst] in E. congruence.
    + destruct (opt_bool opts "acknowledge"); repeat constructor. intros [].
    + intros x H1 H2. apply in_flat_map in H1. destruct H1 as (sst & _ & H1).
      unfold sub_events in H1. apply in_map_iff in H1. destruct H1 as (rs & <- & _).
      destruct (opt_bool opts "acknowledge"); [|destruct H2]. destruct H2 as [H2|[]]. discriminate.
  - intros x. rewrite in_app_iff, in_flat_map. split.
    + intros [([s st] & HI & Hx)|Hx].
      * right. apply (matching_subs_In b topic Wc) in HI. destruct HI as (HI & Hm & ->).
        unfold sub_events in Hx. cbn [fst snd] in Hx. apply in_map_iff in Hx. destruct Hx as (rs & <- & Hx).
        apply sub_targets_In in Hx. destruct Hx as (r & Hr & Hne & Hl & Ha).
        exists s, r, rs. split; [|reflexivity]. repeat split; auto.
      * left. destruct (opt_bool opts "acknowledge"); [|destruct Hx]. destruct Hx as [<-|[]]. auto.
    + intros [[Ha ->]|(s & r & rs & ((Hin & Hr) & Hm & Hne & Hl & Ha) & ->)].
      * right. rewrite Ha. now left.
      * left. exists (s, is_pattern (kind s)). split.
        -- apply (matching_subs_In b topic Wc). auto.
        -- unfold sub_events, event_for. cbn [fst snd]. apply in_map_iff. exists rs. split; auto.
           apply sub_targets_In. exists r. auto.
Qed.

(** exactly once: the event of a (subscription, recipient) pair determines the pair *)
Lemma event_for_inj : forall lookup b pub pg opts topic args kw s1 r1 rs1 s2 r2 rs2,
    core_wf b -> lookup_ok lookup ->
    receives lookup b pub opts topic s1 r1 rs1 -> receives lookup b pub opts topic s2 r2 rs2 ->
    event_for pub pg opts topic args kw s1 rs1 = event_for pub pg opts topic args kw s2 rs2 ->
    s1 = s2 /\ r1 = r2 /\ rs1 = rs2.
Proof.
  intros lookup b pub pg opts topic args kw s1 r1 rs1 s2 r2 rs2 W Hok
         ((I1 & _) & _ & _ & L1 & _) ((I2 & _) & _ & _ & L2 & _) E.
  unfold event_for in E. inversion E as [[E1 E2]].
  pose proof (Hok _ _ L1). pose proof (Hok _ _ L2).
  assert (r1 = r2) by congruence. subst r2.
  unfold sub_in in *. rewrite E2 in I1. repeat split; congruence.
Qed.

(** the refusals: nothing is delivered, the broker is unchanged *)
Theorem publish_invalid_uri : forall cfg lookup now b pg pub req opts topic args kw,
    valid_uri (c_strict cfg) "" topic = false ->
    publish cfg lookup now b pg pub req opts topic args kw =
    (b, pg, if opt_bool opts "acknowledge"
            then [(s_id pub, RError c_PUBLISH req [] e_invalid_uri [vstr "<text>"] [])] else []).
Proof. intros. unfold publish. rewrite H. reflexivity. Qed.

(** ** The details of an event *)
Lemma event_details_topic : forall topic st disc pub recv,
    dget (event_details topic st disc pub recv) "topic" = if st then Some (vuri topic) else None.
Proof.
  intros. unfold event_details.
  assert (H : forall into, dget (disclose_dict "publisher" (s_id pub) (s_details pub) into) "topic" = dget into "topic").
  { intros into. unfold disclose_dict.
    destruct (dget (s_details pub) "authrole"); destruct (dget (s_details pub) "authid");
      unfold dget, dset; rewrite ?(aget_aset_other String.eqb String.eqb_spec); auto; cbn; discriminate. }
  destruct recv as [r|]; [destruct (disc && sess_feature r "subscriber" f_pub_ident)|]; rewrite ?H;
    destruct st; reflexivity.
Qed.

Corollary event_topic_iff : forall topic k disc pub recv,
    dhas (event_details topic (is_pattern k) disc pub recv) "topic" = true <-> k <> MExact.
Proof.
  intros. unfold dhas, amem. fold (dget (event_details topic (is_pattern k) disc pub recv) "topic").
  rewrite event_details_topic. destruct k; cbn; split; congruence.
Qed.

(** ** Payload passthru mode *)

(** a valid-topic PUBLISH that uses passthru mode without the publisher having
    announced it: the broker and the id supply are unchanged and the output is
    exactly the ABORT — no EVENT, no PUBLISHED, nothing stored *)
Theorem publish_ppt_violation_aborts : forall cfg lookup now b pg pub req opts topic args kw,
    valid_uri (c_strict cfg) "" topic = true -> ppt_active opts = true ->
    sess_feature pub "publisher" f_ppt = false ->
    publish cfg lookup now b pg pub req opts topic args kw =
    (b, pg, [(s_id pub, RAbort [("message", vstr "<text>")] e_protocol_violation)]).
Proof.
  intros cfg lookup now b pg pub req opts topic args kw Hv Ha Hf. unfold publish, publish_aborts.
  rewrite Hv, Ha, Hf. reflexivity.
Qed.

Lemma publish_aborts_iff : forall cfg pub opts topic,
    publish_aborts cfg pub opts topic = true <->
    valid_uri (c_strict cfg) "" topic = true /\ ppt_active opts = true /\
    sess_feature pub "publisher" f_ppt = false.
Proof.
  intros. unfold publish_aborts. rewrite !andb_true_iff, negb_true_iff. tauto.
Qed.

(** the option as the router copies it: present and convertible with AsString *)
Definition ppt_opt (opts : dict) (k : string) : option string :=
  match dget opts k with Some v => as_string v | None => None end.

Lemma dget_app : forall (d1 d2 : dict) k,
    dget (d1 ++ d2) k = match dget d1 k with Some v => Some v | None => dget d2 k end.
Proof.
  intros d1 d2 k. unfold dget. induction d1 as [|[k' v'] d1 IH]; cbn [app aget]; auto.
  destruct (String.eqb k k'); auto.
Qed.

Lemma ppt_fold_get : forall opts ks d k, NoDup ks ->
    dget (fold_left (fun d k => match dget opts k with
                                | Some v => match as_string v with Some x => dset d k (vstr x) | None => d end
                                | None => d end) ks d) k =
    if smem k ks then match ppt_opt opts k with Some x => Some (vstr x) | None => dget d k end
    else dget d k.
Proof.
  intros opts ks; induction ks as [|a ks IH]; intros d k ND; cbn [fold_left]; [reflexivity|].
  inversion ND as [|? ? Hn ND']; subst. rewrite IH by auto.
  unfold smem. cbn [existsb]. fold (smem k ks).
  assert (Hstep : dget (match dget opts a with
                        | Some v => match as_string v with Some x => dset d a (vstr x) | None => d end
                        | None => d end) k =
                  if String.eqb k a then match ppt_opt opts a with Some x => Some (vstr x) | None => dget d k end
                  else dget d k).
  { unfold ppt_opt. destruct (dget opts a) as [v|]; [destruct (as_string v)|];
      unfold dget, dset; rewrite ?(aget_aset String.eqb String.eqb_spec); destruct (String.eqb k a); reflexivity. }
  rewrite Hstep. destruct (String.eqb_spec k a) as [->|Hne]; cbn [orb].
  - assert (smem a ks = false) as -> by (destruct (smem a ks) eqn:E; auto; apply smem_In in E; contradiction).
    reflexivity.
  - destruct (smem k ks); reflexivity.
Qed.

Lemma ppt_keys_NoDup : NoDup ppt_keys.
Proof. unfold ppt_keys. repeat constructor; cbn; intuition discriminate. Qed.

Lemma ppt_part_get : forall opts k,
    dget (ppt_part opts) k =
    if smem k ppt_keys && ppt_active opts then option_map vstr (ppt_opt opts k) else None.
Proof.
  intros opts k. unfold ppt_part. destruct (ppt_active opts); [|now rewrite andb_false_r].
  rewrite andb_true_r. unfold ppt_into. rewrite ppt_fold_get by apply ppt_keys_NoDup.
  destruct (smem k ppt_keys); [|reflexivity]. destruct (ppt_opt opts k); reflexivity.
Qed.

Lemma event_details_no_ppt : forall topic st disc pub recv k, In k ppt_keys ->
    dget (event_details topic st disc pub recv) k = None.
Proof.
  intros topic st disc pub recv k Hk.
  destruct (dget (event_details topic st disc pub recv) k) as [w|] eqn:E; auto. exfalso.
  assert (Hh : dhas (event_details topic st disc pub recv) k = true)
    by (apply (amem_true_iff String.eqb); eexists; exact E).
  unfold event_details, disclose_dict in Hh.
  assert (Hbase : dhas (if st then [("topic", vuri topic)] else []) k = true -> k = "topic").
  { destruct st; unfold dhas, amem; cbn [aget]; [|discriminate].
    destruct (String.eqb_spec k "topic"); auto; discriminate. }
  assert (Hset : forall d k0 v, dhas (dset d k0 v) k = true -> k = k0 \/ dhas d k = true).
  { intros d k0 v. unfold dhas, dset. rewrite (amem_aset String.eqb String.eqb_spec).
    destruct (String.eqb_spec k k0); cbn; auto. }
  assert (Hk' : k <> "topic" /\ k <> "publisher" /\ k <> "publisher_authid" /\ k <> "publisher_authrole").
  { unfold ppt_keys in Hk. cbn in Hk. repeat split; intros ->; intuition discriminate. }
  destruct Hk' as (K1 & K2 & K3 & K4).
  destruct recv as [r|]; [destruct (disc && sess_feature r "subscriber" f_pub_ident)|]; try (apply Hbase in Hh; auto).
  destruct (dget (s_details pub) "authid"), (dget (s_details pub) "authrole");
    repeat (apply Hset in Hh; destruct Hh as [Hh|Hh]; [cbn in Hh; congruence|]); apply Hbase in Hh; auto.
Qed.

(** the passthru keys of an EVENT's details: the publisher's options, as
    strings, when (and only when) the publication is in passthru mode *)
Theorem event_ppt_details : forall opts topic st disc pub recv k, In k ppt_keys ->
    dget (event_dict opts topic st disc pub recv) k =
    if ppt_active opts then option_map vstr (ppt_opt opts k) else None.
Proof.
  intros opts topic st disc pub recv k Hk. unfold event_dict.
  rewrite dget_app, ppt_part_get, event_details_no_ppt by auto.
  apply smem_In in Hk. rewrite Hk. cbn [andb].
  destruct (ppt_active opts); [|reflexivity]. destruct (option_map vstr (ppt_opt opts k)); reflexivity.
Qed.

(** every other key is as before passthru mode existed *)
Theorem event_dict_other : forall opts topic st disc pub recv k, ~ In k ppt_keys ->
    dget (event_dict opts topic st disc pub recv) k = dget (event_details topic st disc pub recv) k.
Proof.
  intros opts topic st disc pub recv k Hk. unfold event_dict.
  rewrite dget_app, ppt_part_get.
  assert (smem k ppt_keys = false) as -> by (destruct (smem k ppt_keys) eqn:E; auto; apply smem_In in E; contradiction).
  reflexivity.
Qed.

Lemma topic_not_ppt : ~ In "topic" ppt_keys.
Proof. unfold ppt_keys; cbn; intuition discriminate. Qed.

Corollary event_dict_topic : forall opts topic st disc pub recv,
    dget (event_dict opts topic st disc pub recv) "topic" = if st then Some (vuri topic) else None.
Proof. intros. rewrite event_dict_other by apply topic_not_ppt. apply event_details_topic. Qed.

Corollary event_dict_topic_iff : forall opts topic k disc pub recv,
    dhas (event_dict opts topic (is_pattern k) disc pub recv) "topic" = true <-> k <> MExact.
Proof.
  intros. unfold dhas, amem. fold (dget (event_dict opts topic (is_pattern k) disc pub recv) "topic").
  rewrite event_dict_topic. destruct k; cbn; split; congruence.
Qed.
