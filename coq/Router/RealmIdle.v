(** * Realm-level proofs, part 7: the broker of an idle realm has the size of
    the initial broker (C05 empty_when_idle, broker half). *)
From Nexus Require Import Router.Realm Router.AssocLemmas Router.RealmLib Router.RealmProofs
     Router.RealmMetaProofs Router.RealmLeave.
From Nexus Require Import Router.BrokerWf Router.BrokerPres Router.BrokerSub Router.BrokerHist.
From Nexus Require Import Router.DealerLib Router.DealerProofs Router.DealerWf.
From Nexus Require Import Router.RealmWf Router.RealmStep Router.RealmC05.
From Coq Require Import Lia ZifyN ZifyNat ZifyBool.

(** two duplicate-free lists with the same elements have the same length *)
Lemma NoDup_same_length : forall {A} (l1 l2 : list A),
    NoDup l1 -> NoDup l2 -> (forall x, In x l1 <-> In x l2) -> List.length l1 = List.length l2.
Proof.
  intros A l1 l2 N1 N2 H.
  assert (L1 : (List.length l1 <= List.length l2)%nat) by (apply NoDup_incl_length; [exact N1|intros x; apply H]).
  assert (L2 : (List.length l2 <= List.length l1)%nat) by (apply NoDup_incl_length; [exact N2|intros x; apply H]).
  lia.
Qed.

Lemma NoDup_map_on : forall {A B} (f : A -> B) (l : list A),
    NoDup l -> (forall x y, In x l -> In y l -> f x = f y -> x = y) -> NoDup (map f l).
Proof.
  intros A B f l; induction l as [|a l IH]; intros ND Hi; cbn; [constructor|].
  inversion ND as [|? ? Hn ND']; subst. constructor.
  - intros H. apply in_map_iff in H. destruct H as (y & E & Hy).
    assert (y = a) by (apply Hi; [now right|now left|exact E]). subst. contradiction.
  - apply IH; [exact ND'|]. intros x y Hx Hy. apply Hi; now right.
Qed.

(** a broker without subscribers *)
Definition idle_broker (b : broker) : Prop :=
  forall id s, nget (b_subs b) id = Some s -> sub_subs s = [].

Lemma sget_In : forall {V} (l : list (string * V)) k v, sget l k = Some v -> In (k, v) l.
Proof. intros V l k v. apply (aget_In String.eqb String.eqb_spec). Qed.
Lemma In_sget : forall {V} (l : list (string * V)) k v, NoDup (map fst l) -> In (k, v) l -> sget l k = Some v.
Proof. intros V l k v. apply (In_aget String.eqb String.eqb_spec). Qed.

Lemma map_ids_spec : forall b k id, core_wf b ->
    (In id (map snd (b_map b k)) <-> exists s, nget (b_subs b) id = Some s /\ kind s = k).
Proof.
  intros b k id W. split.
  - intros H. apply in_map_iff in H. destruct H as ([t id'] & E & Hin). cbn in E. subst id'.
    apply In_sget in Hin; [|apply (wf_map_nodup b W)].
    destruct (wf_map_sub b W k t id Hin) as (s & Hs & _ & Hk). eauto.
  - intros (s & Hs & Hk). pose proof (wf_sub_map b W id s Hs) as Hm. rewrite Hk in Hm.
    apply sget_In in Hm. apply in_map_iff. exists (sub_topic s, id). auto.
Qed.

Lemma map_ids_NoDup : forall b k, core_wf b -> NoDup (map snd (b_map b k)).
Proof.
  intros b k W. apply NoDup_map_on.
  - assert (ND : NoDup (map fst (b_map b k))) by apply (wf_map_nodup b W).
    clear -ND. induction (b_map b k) as [|[t i] l IH]; [constructor|].
    cbn in ND. inversion ND as [|? ? Hn ND']; subst. constructor; [|now apply IH].
    intros H. apply Hn. apply in_map_iff. exists (t, i). auto.
  - intros [t1 i1] [t2 i2] H1 H2 E. cbn in E. subst i2.
    apply In_sget in H1; [|apply (wf_map_nodup b W)]. apply In_sget in H2; [|apply (wf_map_nodup b W)].
    destruct (wf_map_sub b W k t1 i1 H1) as (s1 & Hs1 & Ht1 & _).
    destruct (wf_map_sub b W k t2 i1 H2) as (s2 & Hs2 & Ht2 & _).
    assert (s1 = s2) by congruence. subst. reflexivity.
Qed.

Lemma idle_has_history : forall b id s, broker_wf b -> idle_broker b ->
    nget (b_subs b) id = Some s -> has_history b id = true.
Proof. intros b id s W I H. eapply (wf_empty b W); eauto. Qed.

(** the kind of the subscription with a given id is the same in both brokers *)
Lemma idle_kind_agree : forall b0 b id k,
    broker_wf b0 -> broker_wf b -> idle_broker b0 -> idle_broker b -> hist_same b0 b ->
    ((exists s, nget (b_subs b) id = Some s /\ kind s = k) <->
     (exists s, nget (b_subs b0) id = Some s /\ kind s = k)).
Proof.
  intros b0 b id k W0 W I0 I [H1 H2]. split.
  - intros (s & Hs & Hk).
    pose proof (idle_has_history b id s W I Hs) as Hh. rewrite H1 in Hh.
    destruct (wf_hist_sub b0 (wf_core _ W0) id Hh) as (s0 & Hs0).
    assert (S0 : sub_sig b0 id (sub_topic s0) (kind s0)) by (exists s0; auto).
    destruct (H2 id _ _ Hh S0) as (s' & Hs' & _ & Hk').
    assert (s' = s) by congruence. subst s'. exists s0. split; [exact Hs0|congruence].
  - intros (s0 & Hs0 & Hk).
    pose proof (idle_has_history b0 id s0 W0 I0 Hs0) as Hh.
    assert (S0 : sub_sig b0 id (sub_topic s0) (kind s0)) by (exists s0; auto).
    destruct (H2 id _ _ Hh S0) as (s' & Hs' & _ & Hk'). exists s'. split; [exact Hs'|congruence].
Qed.

Theorem idle_broker_sizes : forall b0 b,
    broker_wf b0 -> broker_wf b -> idle_broker b0 -> idle_broker b -> hist_same b0 b ->
    (forall k, List.length (b_map b k) = List.length (b_map b0 k)) /\
    List.length (b_subs b) = List.length (b_subs b0) /\
    List.length (b_hist b) = List.length (b_hist b0).
Proof.
  intros b0 b W0 W I0 I H. pose proof (wf_core _ W0) as C0. pose proof (wf_core _ W) as C.
  split; [|split].
  - intros k. rewrite <- (map_length snd (b_map b k)), <- (map_length snd (b_map b0 k)).
    apply NoDup_same_length; try (apply map_ids_NoDup; assumption).
    intros id. rewrite !map_ids_spec by assumption. now apply idle_kind_agree.
  - rewrite <- (map_length fst (b_subs b)), <- (map_length fst (b_subs b0)).
    apply NoDup_same_length; [apply (wf_subs_nodup b C)|apply (wf_subs_nodup b0 C0)|].
    intros id. split; intros Hin; apply keys_nget in Hin; destruct Hin as (s & Hs).
    + assert (E : exists s', nget (b_subs b) id = Some s' /\ kind s' = kind s) by eauto.
      apply (idle_kind_agree b0 b id (kind s) W0 W I0 I H) in E. destruct E as (s0 & Hs0 & _).
      eapply nget_Some_keys; eauto.
    + assert (E : exists s', nget (b_subs b0) id = Some s' /\ kind s' = kind s) by eauto.
      apply (idle_kind_agree b0 b id (kind s) W0 W I0 I H) in E. destruct E as (s1 & Hs1 & _).
      eapply nget_Some_keys; eauto.
  - rewrite <- (map_length fst (b_hist b)), <- (map_length fst (b_hist b0)).
    apply NoDup_same_length; [apply (wf_hist_nodup b C)|apply (wf_hist_nodup b0 C0)|].
    intros id. destruct H as [H1 _]. specialize (H1 id). unfold has_history in H1.
    rewrite <- !nmem_keys. rewrite H1. tauto.
Qed.

(** the initial broker is idle *)
Lemma broker0_idle : forall cfg, broker_wf (broker0 cfg) -> idle_broker (broker0 cfg).
Proof.
  intros cfg W id s Hs. destruct (sub_subs s) as [|x l] eqn:E; [reflexivity|]. exfalso.
  assert (Hh : sub_has (b_subs (broker0 cfg)) id x) by (exists s; rewrite E; split; [exact Hs|now left]).
  apply (wf_rel _ W) in Hh. destruct Hh as (ids & E' & _).
  unfold broker0 in E'. rewrite preinit_sess in E'. cbn in E'. discriminate.
Qed.

(** ** empty_when_idle, broker half and call tables, as [sizes] *)
Theorem empty_when_idle_broker : forall r,
    realm_wf r -> broker_wf (broker0 (r_cfg r)) -> r_clients r = [] ->
    let b := r_broker r in let b0 := broker0 (r_cfg r) in
    List.length (b_exact b) = List.length (b_exact b0) /\
    List.length (b_pfx b) = List.length (b_pfx b0) /\
    List.length (b_wc b) = List.length (b_wc b0) /\
    List.length (b_subs b) = List.length (b_subs b0) /\
    List.length (b_sess b) = List.length (b_sess b0) /\
    List.length (b_hist b) = List.length (b_hist b0).
Proof.
  intros r W W0 Hc b b0. subst b b0.
  destruct (empty_when_idle_partial r W Hc) as (_ & Hs & _ & _ & _ & _ & Hidle & _).
  destruct (idle_broker_sizes (broker0 (r_cfg r)) (r_broker r) W0 (rw_broker r W)
                              (broker0_idle _ W0) Hidle (rw_hist r W)) as (Hm & Hsub & Hh).
  pose proof (Hm MExact) as M1. pose proof (Hm MPrefix) as M2. pose proof (Hm MWildcard) as M3.
  cbn [b_map] in M1, M2, M3.
  repeat split; auto. rewrite Hs. unfold broker0. now rewrite preinit_sess.
Qed.
