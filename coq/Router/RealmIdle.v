(** * Realm-level proofs, part 7: the broker of an idle realm has the size of
    the initial broker (C05 empty_when_idle, broker half). *)
From Nexus Require Import Router.Realm Router.AssocLemmas Router.RealmLib Router.RealmProofs
     Router.RealmMetaProofs Router.RealmLeave.
From Nexus Require Import Router.BrokerWf Router.BrokerPres Router.BrokerSub Router.BrokerHist.
From Nexus Require Import Router.DealerLib Router.DealerProofs Router.DealerWf.
From Nexus Require Import Router.RealmWf Router.RealmStep Router.RealmC05.
From Coq Require Import Lia ZifyN ZifyNat ZifyBool.

(** two duplicate-free lists with the same elements have the same length *)
Lemma NoDup_same_length : forall {A} (l1 l2 : list A),
    NoDup l1 -> NoDup l2 -> (forall x, In x l1 <-> In x l2) -> List.length l1 = List.length l2.
Proof.
  intros A l1 l2 N1 N2 H.
  assert (L1 : (List.length l1 <= List.length l2)%nat) by (apply NoDup_incl_length; [exact N1|intros x; apply H]).
  assert (L2 : (List.length l2 <= List.length l1)%nat) by (apply NoDup_incl_length; [exact N2|intros x; apply H]).
  lia.
Qed.

Lemma NoDup_map_on : forall {A B} (f : A -> B) (l : list A),
    NoDup l -> (forall x y, In x l -> In y l -> f x = f y -> x = y) -> NoDup (map f l).
Proof.
  intros A B f l; induction l as [|a l IH]; intros ND Hi; cbn; [constructor|].
  inversion ND as [|? ? Hn ND']; subst. constructor.
  - intros H. apply in_map_iff in H. destruct H as (y & E & Hy).
    assert (y = a) by (apply Hi; [now right|now left|exact E]). subst. contradiction.
  - apply IH; [exact ND'|]. intros x y Hx Hy. apply Hi; now right.
Qed.

(** a broker without subscribers *)
Definition idle_broker (b : broker) : Prop :=
  forall id s, nget (b_subs b) id = Some s -> sub_subs s = [].

Lemma sget_In : forall {V} (l : list (string * V)) k v, sget l k = Some v -> In (k, v) l.
Proof. intros V l k v. apply (aget_In String.eqb String.eqb_spec). Qed.
Lemma In_sget : forall {V} (l : list (string * V)) k v, NoDup (map fst l) -> In (k, v) l -> sget l k = Some v.
Proof. intros V l k v. apply (In_aget String.eqb String.eqb_spec). Qed.

Lemma map_ids_spec : forall b k id, core_wf b ->
    (In id (map snd (b_map b k)) <-> exists s, nget (b_subs b) id = Some s /\ kind s = k).
Proof.
  intros b k id W. split.
  - intros H. apply in_map_iff in H. destruct H as ([t id'] & E & Hin). cbn in E. subst id'.
    apply In_sget in Hin; [|apply (wf_map_nodup b W)].
    destruct (wf_map_sub b W k t id Hin) as (s & Hs & _ & Hk). eauto.
  - intros (s & Hs & Hk). pose proof (wf_sub_map b W id s Hs) as Hm. rewrite Hk in Hm.
    apply sget_In in Hm. apply in_map_iff. exists (sub_topic s, id). auto.
Qed.

Lemma map_ids_NoDup : forall b k, core_wf b -> NoDup (map snd (b_map b k)).
Proof.
  intros b k W. apply NoDup_map_on.
  - assert (ND : NoDup (map fst (b_map b k))) by apply (wf_map_nodup b W).
    clear -ND. induction (b_map b k) as [|[t i] l IH]; [constructor|].
    cbn in ND. inversion ND as [|? ? Hn ND']; subst. constructor; [|now apply IH].
    intros H. apply Hn. apply in_map_iff. exists (t, i). auto.
  - intros [t1 i1] [t2 i2] H1 H2 E. cbn in E. subst i2.
    apply In_sget in H1; [|apply (wf_map_nodup b W)]. apply In_sget in H2; [|apply (wf_map_nodup b W)].
    destruct (wf_map_sub b W k t1 i1 H1) as (s1 & Hs1 & Ht1 & _).
    destruct (wf_map_sub b W k t2 i1 H2) as (s2 & Hs2 & Ht2 & _).
    assert (s1 = s2) by congruence. subst. reflexivity.
Qed.

Lemma idle_has_history : forall b id s, broker_wf b -> idle_broker b ->
    nget (b_subs b) id = Some s -> has_history b id = true.
Proof. intros b id s W I H. eapply (wf_empty b W); eauto. Qed.

(** the kind of the subscription with a given id is the same in both brokers *)
Lemma idle_kind_agree : forall b0 b id k,
    broker_wf b0 -> broker_wf b -> idle_broker b0 -> idle_broker b -> hist_same b0 b ->
    ((exists s, nget (b_subs b) id = Some s /\ kind s = k) <->
     (exists s, nget (b_subs b0) id = Some s /\ kind s = k)).
Proof.
  intros b0 b id k W0 W I0 I [H1 H2]. split.
  - intros (s & Hs & Hk).
    pose proof (idle_has_history b id s W I Hs) as Hh. rewrite H1 in Hh.
    destruct (wf_hist_sub b0 (wf_core _ W0) id Hh) as (s0 & Hs0).
    assert (S0 : sub_sig b0 id (sub_topic s0) (kind s0)) by (exists s0; auto).
    destruct (H2 id _ _ Hh S0) as (s' & Hs' & _ & Hk').
    assert (s' = s) by congruence. subst s'. exists s0. split; [exact Hs0|congruence].
  - intros (s0 & Hs0 & Hk).
    pose proof (idle_has_history b0 id s0 W0 I0 Hs0) as Hh.
    assert (S0 : sub_sig b0 id (sub_topic s0) (kind s0)) by (exists s0; auto).
    destruct (H2 id _ _ Hh S0) as (s' & Hs' & _ & Hk'). exists s'. split; [exact Hs'|congruence].
Qed.

Theorem idle_broker_sizes : forall b0 b,
    broker_wf b0 -> broker_wf b -> idle_broker b0 -> idle_broker b -> hist_same b0 b ->
    (forall k, List.length (b_map b k) = List.length (b_map b0 k)) /\
    List.length (b_subs b) = List.length (b_subs b0) /\
    List.length (b_hist b) = List.length (b_hist b0).
Proof.
  intros b0 b W0 W I0 I H. pose proof (wf_core _ W0) as C0. pose proof (wf_core _ W) as C.
  split; [|split].
  - intros k. rewrite <- (map_length snd (b_map b k)), <- (map_length snd (b_map b0 k)).
    apply NoDup_same_length; try (apply map_ids_NoDup; assumption).
    intros id. rewrite !map_ids_spec by assumption. now apply idle_kind_agree.
  - rewrite <- (map_length fst (b_subs b)), <- (map_length fst (b_subs b0)).
    apply NoDup_same_length; [apply (wf_subs_nodup b C)|apply (wf_subs_nodup b0 C0)|].
    intros id. split; intros Hin; apply keys_nget in Hin; destruct Hin as (s & Hs).
    + assert (E : exists s', nget (b_subs b) id = Some s' /\ kind s' = kind s) by eauto.
      apply (idle_kind_agree b0 b id (kind s) W0 W I0 I H) in E. destruct E as (s0 & Hs0 & _).
      eapply nget_Some_keys; eauto.
    + assert (E : exists s', nget (b_subs b0) id = Some s' /\ kind s' = kind s) by eauto.
      apply (idle_kind_agree b0 b id (kind s) W0 W I0 I H) in E. destruct E as (s1 & Hs1 & _).
      eapply nget_Some_keys; eauto.
  - rewrite <- (map_length fst (b_hist b)), <- (map_length fst (b_hist b0)).
    apply NoDup_same_length; [apply (wf_hist_nodup b C)|apply (wf_hist_nodup b0 C0)|].
    intros id. destruct H as [H1 _]. specialize (H1 id). unfold has_history in H1.
    rewrite <- !nmem_keys. rewrite H1. tauto.
Qed.

(** the initial broker is idle *)
Lemma broker0_idle : forall cfg, broker_wf (broker0 cfg) -> idle_broker (broker0 cfg).
Proof.
  intros cfg W id s Hs. destruct (sub_subs s) as [|x l] eqn:E; [reflexivity|]. exfalso.
  assert (Hh : sub_has (b_subs (broker0 cfg)) id x) by (exists s; rewrite E; split; [exact Hs|now left]).
  apply (wf_rel _ W) in Hh. destruct Hh as (ids & E' & _).
  unfold broker0 in E'. rewrite preinit_sess in E'. cbn in E'. discriminate.
Qed.

(** ** empty_when_idle, broker half and call tables, as [sizes] *)
Theorem empty_when_idle_broker : forall r,
    realm_wf r -> broker_wf (broker0 (r_cfg r)) -> r_clients r = [] ->
    let b := r_broker r in let b0 := broker0 (r_cfg r) in
    List.length (b_exact b) = List.length (b_exact b0) /\
    List.length (b_pfx b) = List.length (b_pfx b0) /\
    List.length (b_wc b) = List.length (b_wc b0) /\
    List.length (b_subs b) = List.length (b_subs b0) /\
    List.length (b_sess b) = List.length (b_sess b0) /\
    List.length (b_hist b) = List.length (b_hist b0).
Proof.
  intros r W W0 Hc b b0. subst b b0.
  destruct (empty_when_idle_partial r W Hc) as (_ & Hs & _ & _ & _ & _ & Hidle & _).
  destruct (idle_broker_sizes (broker0 (r_cfg r)) (r_broker r) W0 (rw_broker r W)
                              (broker0_idle _ W0) Hidle (rw_hist r W)) as (Hm & Hsub & Hh).
  pose proof (Hm MExact) as M1. pose proof (Hm MPrefix) as M2. pose proof (Hm MWildcard) as M3.
  cbn [b_map] in M1, M2, M3.
  repeat split; auto. rewrite Hs. unfold broker0. now rewrite preinit_sess.
Qed.

(** ** The dealer half *)
Definition idle_dealer (d : dealer) : Prop :=
  forall id rg, nget (d_regs d) id = Some rg -> reg_callees rg = [meta_id].

Lemma dmap_ids_spec : forall d k id, regs_core d ->
    (In id (map snd (d_map d k)) <-> exists rg, nget (d_regs d) id = Some rg /\ reg_kind rg = k).
Proof.
  intros d k id W. split.
  - intros H. apply in_map_iff in H. destruct H as ([p id'] & E & Hin). cbn in E. subst id'.
    apply In_sget in Hin; [|apply (rw_mapkeys d W)].
    destruct (rw_map d W k p id Hin) as (rg & Hr & _ & Hk). eauto.
  - intros (rg & Hr & Hk). destruct (rw_reg d W id rg Hr) as (_ & Hm & _). rewrite Hk in Hm.
    apply sget_In in Hm. apply in_map_iff. exists (reg_proc rg, id). auto.
Qed.

Lemma dmap_ids_NoDup : forall d k, regs_core d -> NoDup (map snd (d_map d k)).
Proof.
  intros d k W. apply NoDup_map_on.
  - assert (ND : NoDup (map fst (d_map d k))) by apply (rw_mapkeys d W).
    clear -ND. induction (d_map d k) as [|[t i] l IH]; [constructor|].
    cbn in ND. inversion ND as [|? ? Hn ND']; subst. constructor; [|now apply IH].
    intros H. apply Hn. apply in_map_iff. exists (t, i). auto.
  - intros [t1 i1] [t2 i2] H1 H2 E. cbn in E. subst i2.
    apply In_sget in H1; [|apply (rw_mapkeys d W)]. apply In_sget in H2; [|apply (rw_mapkeys d W)].
    destruct (rw_map d W k t1 i1 H1) as (r1 & Hr1 & Ht1 & _).
    destruct (rw_map d W k t2 i1 H2) as (r2 & Hr2 & Ht2 & _).
    assert (r1 = r2) by congruence. subst. reflexivity.
Qed.

Lemma idle_reg_agree : forall d0 d id k,
    idle_dealer d -> meta_regs_same d0 d ->
    ((exists rg, nget (d_regs d) id = Some rg /\ reg_kind rg = k) <->
     (exists rg, nget (d_regs d0) id = Some rg /\ reg_kind rg = k)).
Proof.
  intros d0 d id k I [A [B _]]. split.
  - intros (rg & Hr & Hk).
    assert (Hin : In meta_id (reg_callees rg)) by (rewrite (I id rg Hr); now left).
    pose proof (B id rg Hr Hin) as H0. destruct (nget (d_regs d0) id) as [rg0|] eqn:E0; [|congruence].
    destruct (A id rg0 E0) as (rg' & Hr' & _ & Hm & _). assert (rg' = rg) by congruence. subst rg'.
    exists rg0. split; [reflexivity|]. unfold reg_kind in *. congruence.
  - intros (rg0 & H0 & Hk). destruct (A id rg0 H0) as (rg & Hr & _ & Hm & _).
    exists rg. split; [exact Hr|]. unfold reg_kind in *. congruence.
Qed.

Lemma idle_callee_regs_length : forall lk d,
    dealer_wf lk d -> idle_dealer d -> cr_nonempty (d_callee_regs d) ->
    (List.length (d_callee_regs d) <= 1)%nat ->
    List.length (d_callee_regs d) = match d_regs d with [] => 0%nat | _ => 1%nat end.
Proof.
  intros lk d W I Hne Hle. destruct (d_regs d) as [|[id rg] l] eqn:E.
  - destruct (d_callee_regs d) as [|[x ids] l'] eqn:Ec; [reflexivity|]. exfalso.
    rewrite <- Ec in Hne.
    assert (Hx : nget (d_callee_regs d) x = Some ids) by (rewrite Ec; cbn; now rewrite N.eqb_refl).
    pose proof (Hne x ids Hx) as Hn. destruct ids as [|i ids]; [congruence|].
    assert (Hin : In i (callee_reg_ids d x)) by (unfold callee_reg_ids; rewrite Hx; now left).
    apply (wf_cr _ _ W x i) in Hin. destruct Hin as (rg & Hr & _). rewrite E in Hr. discriminate.
  - assert (Hr : nget (d_regs d) id = Some rg) by (rewrite E; cbn; now rewrite N.eqb_refl).
    assert (Hin : In id (callee_reg_ids d meta_id)).
    { apply (wf_cr _ _ W meta_id id). exists rg. split; [exact Hr|]. rewrite (I id rg Hr). now left. }
    unfold callee_reg_ids in Hin. destruct (d_callee_regs d) as [|a l']; [destruct Hin|]. cbn in *. lia.
Qed.

Theorem idle_dealer_sizes : forall lk0 lk d0 d,
    dealer_wf lk0 d0 -> dealer_wf lk d -> idle_dealer d0 -> idle_dealer d -> meta_regs_same d0 d ->
    cr_nonempty (d_callee_regs d0) -> cr_nonempty (d_callee_regs d) ->
    (List.length (d_callee_regs d0) <= 1)%nat -> (List.length (d_callee_regs d) <= 1)%nat ->
    (forall k, List.length (d_map d k) = List.length (d_map d0 k)) /\
    List.length (d_regs d) = List.length (d_regs d0) /\
    List.length (d_callee_regs d) = List.length (d_callee_regs d0).
Proof.
  intros lk0 lk d0 d W0 W I0 I H N0 N1 L0 L1.
  pose proof (wf_regs _ _ W0) as C0. pose proof (wf_regs _ _ W) as C.
  assert (Hregs : List.length (d_regs d) = List.length (d_regs d0)).
  { rewrite <- (map_length fst (d_regs d)), <- (map_length fst (d_regs d0)).
    apply NoDup_same_length; [apply (rw_regkeys d C)|apply (rw_regkeys d0 C0)|].
    intros id. split; intros Hin; apply keys_nget in Hin; destruct Hin as (rg & Hr).
    - assert (E : exists rg', nget (d_regs d) id = Some rg' /\ reg_kind rg' = reg_kind rg) by eauto.
      apply (idle_reg_agree d0 d id _ I H) in E. destruct E as (rg0 & H0 & _). eapply nget_Some_keys; eauto.
    - assert (E : exists rg', nget (d_regs d0) id = Some rg' /\ reg_kind rg' = reg_kind rg) by eauto.
      apply (idle_reg_agree d0 d id _ I H) in E. destruct E as (rg1 & H1 & _). eapply nget_Some_keys; eauto. }
  split; [|split; [exact Hregs|]].
  - intros k. rewrite <- (map_length snd (d_map d k)), <- (map_length snd (d_map d0 k)).
    apply NoDup_same_length; try (apply dmap_ids_NoDup; assumption).
    intros id. rewrite !dmap_ids_spec by assumption. now apply idle_reg_agree.
  - rewrite (idle_callee_regs_length lk d W I N1 L1), (idle_callee_regs_length lk0 d0 W0 I0 N0 L0).
    destruct (d_regs d), (d_regs d0); cbn in Hregs; try reflexivity; discriminate.
Qed.

(** ** [step] never changes the configuration *)
Lemma meta_call_cfg : forall r proc det args kw oracle,
    r_cfg (realm_of (meta_call r proc det args kw oracle)) = r_cfg r.
Proof.
  intros. destruct (meta_call_cases r proc det args kw oracle) as [E|[(sid & s & dd & F & Hm & E)|(c & p & Ec & [E|E])]];
    cbv zeta in E; rewrite E; try reflexivity.
  apply update_session_frame.
Qed.

Lemma leave_cfg : forall r sid, r_cfg (fst (leave r sid)) = r_cfg r.
Proof. intros. apply leave_frame. Qed.

Lemma meta_publish_all_cfg : forall r mps, r_cfg (fst (meta_publish_all r mps)) = r_cfg r.
Proof. intros. apply (meta_publish_all_frame mps r). Qed.

Lemma run_meta_invocation_cfg : forall r o oracle, r_cfg (fst (run_meta_invocation r o oracle)) = r_cfg r.
Proof.
  intros r o oracle. unfold run_meta_invocation.
  destruct o as [|[rcv m] l]; [reflexivity|]. destruct m; try reflexivity. destruct l; [|reflexivity].
  destruct (negb (rcv =? meta_id)); [reflexivity|].
  destruct (nget (r_metaprocs r) reg) as [proc|].
  - pose proof (meta_call_cfg r proc details args kw oracle) as C.
    destruct (meta_call r proc details args kw oracle) as [[r1 resp] kills]. unfold realm_of in C. cbn [fst] in C.
    destruct (match resp with MYield a k => _ | MError e => _ end) as [d o1].
    destruct kills as [[sids g]|]; [|exact C].
    destruct (kill_sessions_exact sids (r_set_dealer r1 d) g) as (_ & _ & K & _). cbv zeta in K.
    destruct (kill_sessions (r_set_dealer r1 d) sids g). cbn [fst] in *. rewrite K. exact C.
  - destruct (sync_error _ _ _ _ _ _ _). reflexivity.
Qed.

Lemma handle_cfg : forall r s m oracle, r_cfg (fst (handle r s m oracle)) = r_cfg r.
Proof.
  intros r s m oracle. destruct m; cbn [handle].
  - destruct (publish _ _ _ _ _ _ _ _ _ _ _) as [[b pg] o].
    destruct (publish_aborts _ _ _ _); [|reflexivity].
    pose proof (leave_cfg r (s_id s)) as C. destruct (leave r (s_id s)). exact C.
  - destruct (subscribe _ _ _ _ _ _ _) as [[b pg] o]. reflexivity.
  - destruct (unsubscribe _ _ _ _ _) as [[b pg] o]. reflexivity.
  - destruct (register _ _ _ _ _ _) as [[d o] mps].
    pose proof (meta_publish_all_cfg (r_set_dealer r d) mps) as C. destruct (meta_publish_all _ mps). exact C.
  - destruct (unregister _ _ _ _) as [[d o] mps].
    pose proof (meta_publish_all_cfg (r_set_dealer r d) mps) as C. destruct (meta_publish_all _ mps). exact C.
  - destruct (call _ _ _ _ _ _ _ _ _ _ _) as [d o|o|d callee o].
    + reflexivity.
    + match goal with |- context [leave ?R (s_id s)] => pose proof (leave_cfg R (s_id s)) as C; destruct (leave R (s_id s)) end.
      exact C.
    + rewrite run_meta_invocation_cfg. destruct (update_session_frame (r_set_dealer r d) callee) as (E & _). exact E.
  - destruct (cancel _ _ _ _ _). reflexivity.
  - destruct (sync_yield _ _ _ _ _ _ _) as [d o]. destruct (yield_aborts _ _ _ _ _); [|reflexivity].
    pose proof (leave_cfg (r_set_dealer r d) (s_id s)) as C. destruct (leave (r_set_dealer r d) (s_id s)). exact C.
  - destruct (negb (ty =? c_INVOCATION)).
    + pose proof (leave_cfg r (s_id s)) as C. destruct (leave r (s_id s)). exact C.
    + destruct (sync_error _ _ _ _ _ _ _). reflexivity.
  - pose proof (leave_cfg r (s_id s)) as C. destruct (leave r (s_id s)). exact C.
  - pose proof (leave_cfg r (s_id s)) as C. destruct (leave r (s_id s)). exact C.
Qed.

Theorem step_cfg : forall r o, r_cfg (fst (step r o)) = r_cfg r.
Proof.
  intros r o. destruct o as [sid l h|sid m oracle|sid|ms].
  - cbn [step]. unfold join. destruct (negb (has_role h) || _); [reflexivity|].
    match goal with |- r_cfg (fst (meta_publish ?R ?M)) = _ => apply (meta_publish_frame R M) end.
  - rewrite step_msg_eq. destruct (find_session (r_clients r) sid); [|reflexivity].
    destruct (gate r s m); [apply handle_cfg|reflexivity].
  - apply leave_cfg.
  - cbn [step]. destruct (fire_timers _ _ _). reflexivity.
Qed.

Lemma run_cfg : forall ops r, r_cfg (fst (run r ops)) = r_cfg r.
Proof.
  induction ops as [|o ops IH] using rev_ind; intros r; [reflexivity|].
  rewrite run_app1, step_cfg. apply IH.
Qed.

(** ** empty_when_idle *)
Lemma init_realm_parts : forall cfg,
    r_cfg (init_realm cfg) = cfg /\ r_clients (init_realm cfg) = [] /\
    r_broker (init_realm cfg) = broker0 cfg /\ r_dealer (init_realm cfg) = dealer0 cfg.
Proof.
  intros cfg. unfold init_realm, dealer0, broker0.
  change (fold_left _ (meta_proc_names cfg) (empty_dealer, [])) with (fold_left (init_f cfg) (meta_proc_names cfg) (empty_dealer, [])).
  destruct (fold_left (init_f cfg) (meta_proc_names cfg) (empty_dealer, [])) as [d procs]. cbn. auto.
Qed.

Theorem idle_sizes : forall r0 r,
    realm_wf r0 -> realm_wf r -> r_clients r0 = [] -> r_clients r = [] ->
    r_broker r0 = broker0 (r_cfg r) -> r_dealer r0 = dealer0 (r_cfg r) ->
    sizes r = sizes r0.
Proof.
  intros r0 r W0 W C0 C Eb Ed.
  destruct (empty_when_idle_partial r0 W0 C0) as (T0 & S0 & Ca0 & By0 & In0 & L0 & Ib0 & Id0).
  destruct (empty_when_idle_partial r W C) as (T1 & S1 & Ca1 & By1 & In1 & L1 & Ib1 & Id1).
  pose proof (rw_hist r W) as Hh. rewrite <- Eb in Hh.
  pose proof (rw_metaregs r W) as Hm. rewrite <- Ed in Hm.
  destruct (idle_broker_sizes (r_broker r0) (r_broker r) (rw_broker r0 W0) (rw_broker r W) Ib0 Ib1 Hh) as (Bm & Bs & Bh).
  destruct (idle_dealer_sizes (lookup r0) (lookup r) (r_dealer r0) (r_dealer r) (rw_dealer r0 W0) (rw_dealer r W)
                              Id0 Id1 Hm (rw_cr_nonempty r0 W0) (rw_cr_nonempty r W) L0 L1) as (Dm & Dr & Dc).
  pose proof (Bm MExact) as B1. pose proof (Bm MPrefix) as B2. pose proof (Bm MWildcard) as B3.
  pose proof (Dm MExact) as D1. pose proof (Dm MPrefix) as D2. pose proof (Dm MWildcard) as D3.
  cbn [b_map d_map] in *.
  unfold sizes. rewrite C, C0, T0, T1, S0, S1, Ca0, Ca1, By0, By1, In0, In1, B1, B2, B3, Bs, Bh, D1, D2, D3, Dr, Dc.
  reflexivity.
Qed.

Theorem empty_when_idle : forall cfg ops,
    Forall op_ok ops -> k0 cfg + N.of_nat (List.length ops) <= max_idN ->
    r_clients (fst (run (init_realm cfg) ops)) = [] ->
    sizes (fst (run (init_realm cfg) ops)) = sizes (init_realm cfg).
Proof.
  intros cfg ops Ho Hk Hc.
  destruct (init_realm_wf cfg) as [W0 _]; [lia|].
  pose proof (reachable_realm_wf cfg ops Ho Hk) as W.
  destruct (init_realm_parts cfg) as (E1 & E2 & E3 & E4).
  apply idle_sizes; auto; rewrite run_cfg, E1; assumption.
Qed.

(** non-vacuity of [empty_when_idle]: the history of [C05Ex] followed by the
    departure of everybody *)
Module IdleEx.
  Definition ops1 : list op := C05Ex.ops0 ++ [ODrop 11; ODrop 10; OMsg 12 (CGoodbye [] "x") 0].
  Lemma hyps : Forall op_ok ops1 /\ k0 C05Ex.cfg0 + N.of_nat (List.length ops1) <= max_idN /\
               r_clients (fst (run (init_realm C05Ex.cfg0) ops1)) = [] /\
               sizes (init_realm C05Ex.cfg0) = [0; 0; 1; 0; 0; 1; 0; 1; 23; 0; 0; 23; 0; 0; 0; 1].
  Proof.
    split; [|split; [|split]].
    - unfold ops1. apply Forall_app. split; [apply C05Ex.ops_ok|repeat constructor].
    - apply N.leb_le. reflexivity.
    - vm_compute. reflexivity.
    - vm_compute. reflexivity.
  Qed.
End IdleEx.
