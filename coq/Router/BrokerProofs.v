(** * Broker proofs: entry point.

    Re-exports the broker development
      AssocLemmas   generic association-list lemmas
      BrokerWf      [broker_wf], abstract holding relation
      BrokerPres    preservation of [broker_wf] by every operation
      BrokerPublish [publish_exact]
      BrokerSub     SUBSCRIBE / UNSUBSCRIBE / removal: ids, errors, effects, frames
      BrokerFilter  [allowed_spec], [make_filter]
      BrokerRun     [bop], [brun], invariant over all operation sequences
      BrokerHist    event-history retention
      BrokerQuery   event-history query
      BrokerHistInit configured stores of the initial broker, distinct stored ids
      BrokerDisclose publisher disclosure, per-recipient details
      BrokerLeave   session end announces on_unsubscribe / on_delete per subscription
    and states the table-level ([In]) reading of the invariant. *)
From Nexus Require Export Router.Realm Router.AssocLemmas Router.BrokerWf Router.BrokerPres Router.BrokerPublish
     Router.BrokerSub Router.BrokerFilter Router.BrokerRun Router.BrokerHist Router.BrokerQuery
     Router.BrokerHistInit Router.BrokerDisclose Router.BrokerLeave.
From Coq Require Import Lia ZifyN ZifyBool.

(** The five tables + history table as ONE relation, read entry by entry. *)
Definition broker_tables_ok (b : broker) : Prop :=
  (* keys of each topic map are unique *)
  (forall k, NoDup (map fst (b_map b k))) /\
  (* every entry of b_exact / b_pfx / b_wc points to a subscription with that
     topic, that match kind and that id *)
  (forall k t id, In (t, id) (b_map b k) ->
     exists s, In (id, s) (b_subs b) /\ sub_id s = id /\ sub_topic s = t /\ kind s = k) /\
  NoDup (map fst (b_subs b)) /\
  (* every subscription: its key is its id, it is found through the map of its
     kind under its topic, no subscriber twice, id within the generator,
     subscriber-less only with a history store *)
  (forall id s, In (id, s) (b_subs b) ->
     sub_id s = id /\ In (sub_topic s, id) (b_map b (kind s)) /\ NoDup (sub_subs s) /\
     1 <= id <= b_idgen b /\ (sub_subs s = [] -> In id (map fst (b_hist b)))) /\
  (* b_sess lists for each session exactly the ids it holds, no empty lists *)
  NoDup (map fst (b_sess b)) /\
  (forall sid ids, In (sid, ids) (b_sess b) -> ids <> [] /\ NoDup ids) /\
  (forall sid id, (exists ids, In (sid, ids) (b_sess b) /\ In id ids) <->
                  (exists s, In (id, s) (b_subs b) /\ In sid (sub_subs s))) /\
  (* history stores belong to existing subscriptions *)
  NoDup (map fst (b_hist b)) /\
  (forall id, In id (map fst (b_hist b)) -> In id (map fst (b_subs b))).

Local Notation nIn := (In_aget_iff N.eqb N.eqb_spec).
Local Notation sIn := (In_aget_iff String.eqb String.eqb_spec).

Theorem broker_wf_tables : forall b, broker_wf b <-> broker_tables_ok b.
Proof.
  intros b. unfold broker_tables_ok. split.
  - intros [Wc We [Ws1 Ws2] Wr].
    pose proof (wf_map_nodup b Wc) as Nm. pose proof (wf_subs_nodup b Wc) as Ns. pose proof (wf_hist_nodup b Wc) as Nh.
    split; [exact Nm|]. split.
    { intros k t id HI. apply (sIn _ _ _ (Nm k)) in HI.
      destruct (wf_map_sub b Wc _ _ _ HI) as (s & E & Ht & Hk). exists s.
      split; [apply (nIn _ _ _ Ns); exact E|]. split; [eapply wf_sub_id; eauto|auto]. }
    split; [exact Ns|]. split.
    { intros id s HI. apply (nIn _ _ _ Ns) in HI.
      split; [eapply wf_sub_id; eauto|]. split; [apply (sIn _ _ _ (Nm _)); eapply wf_sub_map; eauto|].
      split; [eapply wf_sub_nodup; eauto|]. split; [eapply wf_sub_le; eauto|].
      intros E. apply (amem_In_iff N.eqb N.eqb_spec). apply (We _ _ HI E). }
    split; [exact Ws1|]. split.
    { intros sid ids HI. apply (nIn _ _ _ Ws1) in HI. now apply (Ws2 sid). }
    split.
    { intros sid id. specialize (Wr sid id). unfold sess_has, sub_has in Wr.
      split.
      - intros (ids & HI & Hi). apply (nIn _ _ _ Ws1) in HI.
        destruct (proj1 Wr (ex_intro _ ids (conj HI Hi))) as (s & E & Hs).
        exists s. split; auto. now apply (nIn _ _ _ Ns).
      - intros (s & HI & Hs). apply (nIn _ _ _ Ns) in HI.
        destruct (proj2 Wr (ex_intro _ s (conj HI Hs))) as (ids & E & Hi).
        exists ids. split; auto. now apply (nIn _ _ _ Ws1). }
    split; [exact Nh|].
    intros id HI. apply (amem_In_iff N.eqb N.eqb_spec) in HI.
    destruct (wf_hist_sub b Wc id HI) as (s & E). eapply (aget_Some_key N.eqb N.eqb_spec); eauto.
  - intros (Nm & Hm & Ns & Hs & Nss & Hl & Hr & Nh & Hh).
    assert (Hs' : forall id s, nget (b_subs b) id = Some s -> In (id, s) (b_subs b))
      by (intros; now apply (nIn _ _ _ Ns)).
    split.
    + split; auto.
      * intros k t id E. apply (sIn _ _ _ (Nm k)) in E. destruct (Hm _ _ _ E) as (s & HI & _ & Ht & Hk).
        exists s. split; auto. now apply (nIn _ _ _ Ns).
      * intros id s E. apply (Hs _ _ (Hs' _ _ E)).
      * intros id s E. apply (sIn _ _ _ (Nm _)). apply (Hs _ _ (Hs' _ _ E)).
      * intros id s E. apply (Hs _ _ (Hs' _ _ E)).
      * intros id s E. apply (Hs _ _ (Hs' _ _ E)).
      * intros id E. apply (amem_In_iff N.eqb N.eqb_spec) in E. apply Hh in E.
        now apply (In_key_aget N.eqb N.eqb_spec).
    + intros id s E E0. apply (amem_In_iff N.eqb N.eqb_spec). now apply (Hs _ _ (Hs' _ _ E)).
    + split; auto. intros sid ids E. apply Hl with sid. now apply (nIn _ _ _ Nss).
    + intros sid id. unfold sess_has, sub_has. specialize (Hr sid id). split.
      * intros (ids & E & Hi). apply (nIn _ _ _ Nss) in E.
        destruct (proj1 Hr (ex_intro _ ids (conj E Hi))) as (s & HI & Hx).
        exists s. split; auto. now apply (nIn _ _ _ Ns).
      * intros (s & E & Hx). apply Hs' in E.
        destruct (proj2 Hr (ex_intro _ s (conj E Hx))) as (ids & HI & Hi).
        exists ids. split; auto. now apply (nIn _ _ _ Nss).
Qed.

(** ** The realm's session lookup satisfies [lookup_ok] *)
Lemma find_session_id : forall l sid s, find_session l sid = Some s -> s_id s = sid.
Proof.
  induction l as [|x l IH]; intros sid s; cbn [find_session]; [discriminate|].
  destruct (N.eqb_spec (s_id x) sid); [intros H; inversion H; subst; auto|apply IH].
Qed.

Theorem realm_lookup_ok : forall r, s_id (r_meta r) = meta_id -> lookup_ok (lookup r).
Proof.
  intros r Hm sid s. unfold lookup. destruct (N.eqb_spec sid meta_id) as [->|].
  - intros H; inversion H; subst; auto.
  - apply find_session_id.
Qed.
