(** * Realm-level proofs, part 2: the meta API and the meta events (C18).
    Every theorem is for every realm state (no reachability needed unless
    stated), every argument shape and every oracle. *)
From Nexus Require Import Router.Realm Router.AssocLemmas Router.RealmLib Router.RealmProofs.
From Coq Require Import Lia.

Definition resp_of {A} (x : realm * mresp * A) : mresp := snd (fst x).
Definition realm_of {A} (x : realm * mresp * A) : realm := fst (fst x).
Definition kills_of {A} (x : realm * mresp * A) : A := snd x.

(** ** One equation per meta procedure *)
Section MetaEq.
  Variables (r : realm) (details : dict) (args : list value) (kw : dict) (oracle : N).
  Let ret (m : mresp) : realm * mresp * option (list N * rmsg) := (r, m, None).
  Let caller0 := match match dget details "caller" with Some v => as_id v | None => None end with
                 | Some c => c | None => 0 end.

  Lemma meta_session_count :
    meta_call r "wamp.session.count" details args kw oracle =
    match role_filter args with
    | None => ret (MError e_invalid_argument)
    | Some f => ret (MYield [vnat (N.of_nat (List.length (filter (role_selected f) (r_clients r))))] [])
    end.
  Proof. reflexivity. Qed.

  Lemma meta_session_list :
    meta_call r "wamp.session.list" details args kw oracle =
    match role_filter args with
    | None => ret (MError e_invalid_argument)
    | Some f => ret (MYield [ids_value (map s_id (filter (role_selected f) (r_clients r)))] [])
    end.
  Proof. reflexivity. Qed.

  Lemma meta_session_get :
    meta_call r "wamp.session.get" details args kw oracle =
    match bind (arg0 args) as_id with
    | None => ret (MError e_no_such_session)
    | Some sid => match find_session (r_clients r) sid with
                  | None => ret (MError e_no_such_session)
                  | Some s => ret (MYield [VDict (clean_details (r_cfg r) (s_details s))] [])
                  end
    end.
  Proof. reflexivity. Qed.

  Lemma meta_session_kill :
    meta_call r "wamp.session.kill" details args kw oracle =
    match bind (arg0 args) as_id with
    | None => ret (MError e_no_such_session)
    | Some sid =>
        if N.eqb caller0 sid then ret (MError e_no_such_session)
        else match kill_reason kw with
             | None => ret (MError e_invalid_uri)
             | Some (reason, message) =>
                 match find_session (r_clients r) sid with
                 | None => ret (MError e_no_such_session)
                 | Some _ => (r, MYield [] [], Some ([sid], goodbye_msg reason message))
                 end
             end
    end.
  Proof. reflexivity. Qed.

  Definition attr_victims (key val : string) : list session :=
    filter (fun s => negb (N.eqb (s_id s) caller0) &&
                     match bind (dget (s_details s) key) as_string with
                     | Some x => String.eqb x val | None => false end) (r_clients r).

  Lemma meta_kill_by_authid :
    meta_call r "wamp.session.kill_by_authid" details args kw oracle =
    match bind (arg0 args) as_string with
    | None => ret (MError e_no_such_session)
    | Some val =>
        match kill_reason kw with
        | None => ret (MError e_invalid_uri)
        | Some (reason, message) =>
            (r, MYield [vnat (N.of_nat (List.length (attr_victims "authid" val)))] [],
             Some (map s_id (attr_victims "authid" val), goodbye_msg reason message))
        end
    end.
  Proof. reflexivity. Qed.

  Lemma meta_kill_by_authrole :
    meta_call r "wamp.session.kill_by_authrole" details args kw oracle =
    match bind (arg0 args) as_string with
    | None => ret (MError e_no_such_session)
    | Some val =>
        match kill_reason kw with
        | None => ret (MError e_invalid_uri)
        | Some (reason, message) =>
            (r, MYield [vnat (N.of_nat (List.length (attr_victims "authrole" val)))] [],
             Some (map s_id (attr_victims "authrole" val), goodbye_msg reason message))
        end
    end.
  Proof. reflexivity. Qed.

  Definition all_victims : list session :=
    filter (fun s => negb (N.eqb (s_id s) caller0)) (r_clients r).

  Lemma meta_kill_all :
    meta_call r "wamp.session.kill_all" details args kw oracle =
    match kill_reason kw with
    | None => ret (MError e_invalid_uri)
    | Some (reason, message) =>
        (r, MYield [vnat (N.of_nat (List.length all_victims))] [],
         Some (map s_id all_victims,
               match goodbye_msg reason message with
               | RGoodbye dd rr => RGoodbye (dset dd "all" VNull) rr | m => m end))
    end.
  Proof. reflexivity. Qed.

  Lemma meta_registration_list :
    meta_call r "wamp.registration.list" details args kw oracle =
    ret (MYield [VDict [("exact", reg_ids_by (r_dealer r) MExact); ("prefix", reg_ids_by (r_dealer r) MPrefix);
                        ("wildcard", reg_ids_by (r_dealer r) MWildcard)]] []).
  Proof. reflexivity. Qed.

  Lemma meta_registration_match :
    meta_call r "wamp.registration.match" details args kw oracle =
    match bind (arg0 args) as_string with
    | None => ret (MYield [vid 0] [])
    | Some p => ret (MYield [vid (match match_procedure (r_dealer r) p oracle with
                                  | Some rg => reg_id rg | None => 0 end)] [])
    end.
  Proof. reflexivity. Qed.

  Lemma meta_registration_get :
    meta_call r "wamp.registration.get" details args kw oracle =
    match bind (bind (arg0 args) as_id) (nget (d_regs (r_dealer r))) with
    | None => ret (MError e_no_such_registration)
    | Some rg => ret (MYield [reg_dict rg] [])
    end.
  Proof. reflexivity. Qed.

  Lemma meta_list_callees :
    meta_call r "wamp.registration.list_callees" details args kw oracle =
    match bind (bind (arg0 args) as_id) (nget (d_regs (r_dealer r))) with
    | None => ret (MError e_no_such_registration)
    | Some rg => ret (MYield [ids_value (reg_callees rg)] [])
    end.
  Proof. reflexivity. Qed.

  Lemma meta_count_callees :
    meta_call r "wamp.registration.count_callees" details args kw oracle =
    match bind (bind (arg0 args) as_id) (nget (d_regs (r_dealer r))) with
    | None => ret (MError e_no_such_registration)
    | Some rg => ret (MYield [vnat (N.of_nat (List.length (reg_callees rg)))] [])
    end.
  Proof. reflexivity. Qed.

  Lemma meta_subscription_list :
    meta_call r "wamp.subscription.list" details args kw oracle =
    ret (MYield [VDict [("exact", sub_ids_by (r_broker r) MExact); ("prefix", sub_ids_by (r_broker r) MPrefix);
                        ("wildcard", sub_ids_by (r_broker r) MWildcard)]] []).
  Proof. reflexivity. Qed.

  Lemma meta_subscription_match :
    meta_call r "wamp.subscription.match" details args kw oracle =
    match bind (arg0 args) as_string with
    | None => ret (MYield [VList []] [])
    | Some t => ret (MYield [ids_value (map (fun '((s, _) : subscription * bool) => sub_id s)
                                            (matching_subs (r_broker r) t))] [])
    end.
  Proof. reflexivity. Qed.

  Lemma meta_subscription_get :
    meta_call r "wamp.subscription.get" details args kw oracle =
    match bind (bind (arg0 args) as_id) (nget (b_subs (r_broker r))) with
    | None => ret (MError e_no_such_subscription)
    | Some s => ret (MYield [sub_dict s] [])
    end.
  Proof. reflexivity. Qed.

  Lemma meta_list_subscribers :
    meta_call r "wamp.subscription.list_subscribers" details args kw oracle =
    match bind (bind (arg0 args) as_id) (nget (b_subs (r_broker r))) with
    | None => ret (MError e_no_such_subscription)
    | Some s => ret (MYield [ids_value (sub_subs s)] [])
    end.
  Proof. reflexivity. Qed.

  Lemma meta_count_subscribers :
    meta_call r "wamp.subscription.count_suscribers" details args kw oracle =
    match bind (bind (arg0 args) as_id) (nget (b_subs (r_broker r))) with
    | None => ret (MError e_no_such_subscription)
    | Some s => ret (MYield [vnat (N.of_nat (List.length (sub_subs s)))] [])
    end.
  Proof. reflexivity. Qed.

  Definition scope_of (kw : dict) : string :=
    match bind (dget kw "scope") as_string with Some "" => "destroyed" | Some s => s | None => "destroyed" end.

  Lemma meta_add_testament :
    meta_call r "wamp.session.add_testament" details args kw oracle =
    match match dget details "caller" with Some v => as_id v | None => None end, arg0 args, arg1 args, arg2 args with
    | Some c, Some a0, Some a1, Some a2 =>
        match as_string a0, as_list a1, as_dict a2 with
        | Some topic, Some targs, Some tkw =>
            let opts := match bind (dget kw "publish_options") as_dict with Some o => o | None => [] end in
            let scope := scope_of kw in
            if negb (String.eqb scope "destroyed" || String.eqb scope "detached") then ret (MError e_invalid_argument)
            else
              let '(det, des) := match nget (r_testaments r) c with Some p => p | None => ([], []) end in
              let t := mkTest topic targs tkw opts in
              let p := if String.eqb scope "destroyed" then (det, des ++ [t]) else (det ++ [t], des) in
              (r_set_testaments r (nset (r_testaments r) c p), MYield [] [], None)
        | _, _, _ => ret (MError e_invalid_argument)
        end
    | _, _, _, _ => ret (MError e_invalid_argument)
    end.
  Proof. reflexivity. Qed.

  Lemma meta_flush_testaments :
    meta_call r "wamp.session.flush_testaments" details args kw oracle =
    match match dget details "caller" with Some v => as_id v | None => None end with
    | None => ret (MError e_invalid_argument)
    | Some c =>
        let scope := scope_of kw in
        if negb (String.eqb scope "destroyed" || String.eqb scope "detached") then ret (MError e_invalid_argument)
        else match nget (r_testaments r) c with
             | None => ret (MYield [] [])
             | Some (det, des) =>
                 let p := if String.eqb scope "destroyed" then (det, []) else ([], des) in
                 match p with
                 | ([], []) => (r_set_testaments r (ndel (r_testaments r) c), MYield [] [], None)
                 | _ => (r_set_testaments r (nset (r_testaments r) c p), MYield [] [], None)
                 end
             end
    end.
  Proof. reflexivity. Qed.
End MetaEq.

(** ** count_is_length *)
Theorem session_count_is_length : forall r d1 d2 args kw1 kw2 o1 o2,
    match resp_of (meta_call r "wamp.session.list" d1 args kw1 o1) with
    | MYield [VList l] [] =>
        resp_of (meta_call r "wamp.session.count" d2 args kw2 o2) = MYield [vnat (N.of_nat (List.length l))] []
    | MError e => resp_of (meta_call r "wamp.session.count" d2 args kw2 o2) = MError e
    | _ => False
    end.
Proof.
  intros. rewrite meta_session_list, meta_session_count.
  destruct (role_filter args); cbn; [|reflexivity]. now rewrite !map_length.
Qed.

Theorem callee_count_is_length : forall r d1 d2 args kw1 kw2 o1 o2,
    match resp_of (meta_call r "wamp.registration.list_callees" d1 args kw1 o1) with
    | MYield [VList l] [] =>
        resp_of (meta_call r "wamp.registration.count_callees" d2 args kw2 o2) = MYield [vnat (N.of_nat (List.length l))] []
    | MError e => resp_of (meta_call r "wamp.registration.count_callees" d2 args kw2 o2) = MError e
    | _ => False
    end.
Proof.
  intros. rewrite meta_list_callees, meta_count_callees.
  destruct (bind _ _); cbn; [|reflexivity]. now rewrite !map_length.
Qed.

Theorem subscriber_count_is_length : forall r d1 d2 args kw1 kw2 o1 o2,
    match resp_of (meta_call r "wamp.subscription.list_subscribers" d1 args kw1 o1) with
    | MYield [VList l] [] =>
        resp_of (meta_call r "wamp.subscription.count_suscribers" d2 args kw2 o2) = MYield [vnat (N.of_nat (List.length l))] []
    | MError e => resp_of (meta_call r "wamp.subscription.count_suscribers" d2 args kw2 o2) = MError e
    | _ => False
    end.
Proof.
  intros. rewrite meta_list_subscribers, meta_count_subscribers.
  destruct (bind _ _); cbn; [|reflexivity]. now rewrite !map_length.
Qed.

(** the reading procedures change nothing and kill nobody *)
Definition reading_procs : list string :=
  ["wamp.session.count"; "wamp.session.list"; "wamp.session.get";
   "wamp.registration.list"; "wamp.registration.lookup"; "wamp.registration.match";
   "wamp.registration.get"; "wamp.registration.list_callees"; "wamp.registration.count_callees";
   "wamp.subscription.list"; "wamp.subscription.lookup"; "wamp.subscription.match";
   "wamp.subscription.get"; "wamp.subscription.list_subscribers"; "wamp.subscription.count_suscribers";
   "wamp.subscription.get_events"].

Theorem reading_procs_pure : forall r proc d args kw o,
    In proc reading_procs ->
    realm_of (meta_call r proc d args kw o) = r /\ kills_of (meta_call r proc d args kw o) = None.
Proof.
  intros r proc d args kw o H. revert H. revert proc. apply Forall_forall.
  unfold reading_procs; repeat apply Forall_cons; try apply Forall_nil.
  all: unfold meta_call; cbn [String.eqb Ascii.eqb Bool.eqb orb]; cbv beta iota zeta; brk; split; reflexivity.
Qed.

(** ** unknown_id_errors *)
Theorem session_unknown_id_errors : forall r d args kw o,
    (forall sid, bind (arg0 args) as_id = Some sid -> find_session (r_clients r) sid = None) ->
    meta_call r "wamp.session.get" d args kw o = (r, MError e_no_such_session, None).
Proof.
  intros r d args kw o H. rewrite meta_session_get.
  destruct (bind (arg0 args) as_id) as [sid|]; [|reflexivity]. now rewrite (H sid eq_refl).
Qed.

Theorem registration_unknown_id_errors : forall r d args kw o proc,
    In proc ["wamp.registration.get"; "wamp.registration.list_callees"; "wamp.registration.count_callees"] ->
    (forall id, bind (arg0 args) as_id = Some id -> nget (d_regs (r_dealer r)) id = None) ->
    meta_call r proc d args kw o = (r, MError e_no_such_registration, None).
Proof.
  intros r d args kw o proc Hp H.
  assert (E : bind (bind (arg0 args) as_id) (nget (d_regs (r_dealer r))) = None).
  { destruct (bind (arg0 args) as_id) as [id|]; [|reflexivity]. cbn. now apply H. }
  destruct Hp as [<-|[<-|[<-|[]]]].
  - now rewrite meta_registration_get, E.
  - now rewrite meta_list_callees, E.
  - now rewrite meta_count_callees, E.
Qed.

Theorem subscription_unknown_id_errors : forall r d args kw o proc,
    In proc ["wamp.subscription.get"; "wamp.subscription.list_subscribers"; "wamp.subscription.count_suscribers"] ->
    (forall id, bind (arg0 args) as_id = Some id -> nget (b_subs (r_broker r)) id = None) ->
    meta_call r proc d args kw o = (r, MError e_no_such_subscription, None).
Proof.
  intros r d args kw o proc Hp H.
  assert (E : bind (bind (arg0 args) as_id) (nget (b_subs (r_broker r))) = None).
  { destruct (bind (arg0 args) as_id) as [id|]; [|reflexivity]. cbn. now apply H. }
  destruct Hp as [<-|[<-|[<-|[]]]].
  - now rewrite meta_subscription_get, E.
  - now rewrite meta_list_subscribers, E.
  - now rewrite meta_count_subscribers, E.
Qed.

(** an argument that is not an id: missing, not an integer kind, zero,
    negative or above 2^53 *)
Lemma non_id_argument : forall args,
    (match arg0 args with
     | None => True
     | Some (VInt k z) => (to_int64 k z <= 0)%Z \/ (max_id < to_int64 k z)%Z
     | Some _ => True
     end) -> bind (arg0 args) as_id = None.
Proof.
  intros args H. destruct (arg0 args) as [v|]; [|reflexivity]. cbn.
  destruct v; try reflexivity. unfold as_id; cbn [as_int64].
  destruct ((0 <? to_int64 k z)%Z && (to_int64 k z <=? max_id)%Z) eqn:E; [|reflexivity].
  apply andb_true_iff in E. destruct E as [E1 E2].
  apply Z.ltb_lt in E1. apply Z.leb_le in E2. lia.
Qed.

(** ** kill_exact *)
Definition caller_of (details : dict) : N :=
  match match dget details "caller" with Some v => as_id v | None => None end with
  | Some c => c | None => 0 end.

Theorem kill_exact : forall r d args kw o target reason message,
    bind (arg0 args) as_id = Some target ->
    caller_of d <> target ->
    kill_reason kw = Some (reason, message) ->
    find_session (r_clients r) target <> None ->
    meta_call r "wamp.session.kill" d args kw o =
    (r, MYield [] [], Some ([target], goodbye_msg reason message)).
Proof.
  intros r d args kw o target reason message Ha Hc Hk Hf.
  rewrite meta_session_kill, Ha. fold (caller_of d).
  destruct (N.eqb_spec (caller_of d) target); [contradiction|]. rewrite Hk.
  destruct (find_session (r_clients r) target); [reflexivity|congruence].
Qed.

Theorem kill_refused : forall r d args kw o,
    (forall target, bind (arg0 args) as_id = Some target ->
                    caller_of d = target \/ (kill_reason kw <> None /\ find_session (r_clients r) target = None)) ->
    meta_call r "wamp.session.kill" d args kw o = (r, MError e_no_such_session, None).
Proof.
  intros r d args kw o H. rewrite meta_session_kill.
  destruct (bind (arg0 args) as_id) as [t|]; [|reflexivity]. fold (caller_of d).
  destruct (H t eq_refl) as [->|[Hk Hf]]; [now rewrite N.eqb_refl|].
  destruct (caller_of d =? t); [reflexivity|].
  destruct (kill_reason kw) as [[? ?]|]; [|congruence]. now rewrite Hf.
Qed.

(** the GOODBYE carries the given reason, wamp.close.normal when none is given *)
Lemma goodbye_reason : forall reason message,
    goodbye_msg reason message =
    RGoodbye (if nonempty message then [("message", vstr message)] else [])
             (if nonempty reason then reason else e_close_normal).
Proof. reflexivity. Qed.

Lemma kill_reason_default : forall kw,
    dget kw "reason" = None -> kill_reason kw = Some ("", opt_string kw "message").
Proof. intros kw H. unfold kill_reason. now rewrite H. Qed.

Definition matches_attr (key val : string) (s : session) : bool :=
  match bind (dget (s_details s) key) as_string with Some x => String.eqb x val | None => false end.

Theorem kill_by_attr_exact : forall r d args kw o proc key val reason message,
    (proc = "wamp.session.kill_by_authid" /\ key = "authid") \/
    (proc = "wamp.session.kill_by_authrole" /\ key = "authrole") ->
    bind (arg0 args) as_string = Some val ->
    kill_reason kw = Some (reason, message) ->
    exists victims,
      meta_call r proc d args kw o =
      (r, MYield [vnat (N.of_nat (List.length victims))] [], Some (victims, goodbye_msg reason message)) /\
      ~ In (caller_of d) victims /\
      (forall x, In x victims <->
                 exists s, In s (r_clients r) /\ s_id s = x /\ x <> caller_of d /\ matches_attr key val s = true).
Proof.
  intros r d args kw o proc key val reason message Hp Ha Hk.
  exists (map s_id (attr_victims r d key val)).
  assert (Hin : forall x, In x (map s_id (attr_victims r d key val)) <->
                 exists s, In s (r_clients r) /\ s_id s = x /\ x <> caller_of d /\ matches_attr key val s = true).
  { intros x. rewrite in_map_iff. unfold attr_victims. fold (caller_of d). split.
    - intros (s & <- & Hs). apply filter_In in Hs. destruct Hs as [Hs Hb].
      apply andb_true_iff in Hb. destruct Hb as [Hb1 Hb2].
      exists s. repeat split; auto. apply negb_true_iff, N.eqb_neq in Hb1. exact Hb1.
    - intros (s & Hs & <- & Hn & Hm). exists s. split; [reflexivity|].
      apply filter_In. split; [exact Hs|]. apply andb_true_iff. split; [|exact Hm].
      apply negb_true_iff, N.eqb_neq. exact Hn. }
  split; [|split; [|exact Hin]].
  - destruct Hp as [[-> ->]|[-> ->]].
    + rewrite meta_kill_by_authid, Ha, Hk, map_length. reflexivity.
    + rewrite meta_kill_by_authrole, Ha, Hk, map_length. reflexivity.
  - intros H. apply Hin in H. destruct H as (s & _ & _ & Hn & _). congruence.
Qed.

Theorem kill_all_exact : forall r d args kw o reason message,
    kill_reason kw = Some (reason, message) ->
    exists victims g,
      meta_call r "wamp.session.kill_all" d args kw o =
      (r, MYield [vnat (N.of_nat (List.length victims))] [], Some (victims, g)) /\
      ~ In (caller_of d) victims /\
      (forall x, In x victims <-> In x (map s_id (r_clients r)) /\ x <> caller_of d) /\
      g = RGoodbye (dset (if nonempty message then [("message", vstr message)] else []) "all" VNull)
                   (if nonempty reason then reason else e_close_normal).
Proof.
  intros r d args kw o reason message Hk.
  exists (map s_id (all_victims r d)), (RGoodbye (dset (if nonempty message then [("message", vstr message)] else []) "all" VNull)
                   (if nonempty reason then reason else e_close_normal)).
  assert (Hin : forall x, In x (map s_id (all_victims r d)) <-> In x (map s_id (r_clients r)) /\ x <> caller_of d).
  { intros x. rewrite !in_map_iff. unfold all_victims. fold (caller_of d). split.
    - intros (s & <- & Hs). apply filter_In in Hs. destruct Hs as [Hs Hb].
      apply negb_true_iff, N.eqb_neq in Hb. split; [exists s; auto|exact Hb].
    - intros [(s & <- & Hs) Hn]. exists s. split; [reflexivity|]. apply filter_In. split; [exact Hs|].
      apply negb_true_iff, N.eqb_neq. exact Hn. }
  split; [|split; [|split; [exact Hin|reflexivity]]].
  - rewrite meta_kill_all, Hk, map_length. reflexivity.
  - intros H. apply Hin in H. destruct H. congruence.
Qed.

(** a refused kill (bad reason URI, bad argument) kills nobody *)
Theorem kill_bad_reason_kills_nobody : forall r d args kw o proc,
    In proc ["wamp.session.kill"; "wamp.session.kill_by_authid"; "wamp.session.kill_by_authrole"; "wamp.session.kill_all"] ->
    kill_reason kw = None ->
    realm_of (meta_call r proc d args kw o) = r /\ kills_of (meta_call r proc d args kw o) = None /\
    exists e, resp_of (meta_call r proc d args kw o) = MError e.
Proof.
  intros r d args kw o proc Hp Hk. destruct Hp as [<-|[<-|[<-|[<-|[]]]]].
  - rewrite meta_session_kill. destruct (bind (arg0 args) as_id); [|cbn; eauto].
    destruct (N.eqb _ _); [cbn; eauto|]. rewrite Hk. cbn; eauto.
  - rewrite meta_kill_by_authid. destruct (bind (arg0 args) as_string); [|cbn; eauto]. rewrite Hk. cbn; eauto.
  - rewrite meta_kill_by_authrole. destruct (bind (arg0 args) as_string); [|cbn; eauto]. rewrite Hk. cbn; eauto.
  - rewrite meta_kill_all, Hk. cbn; eauto.
Qed.

(** ** testament_api *)
Definition test_bucket (r : realm) (c : N) : list testament * list testament :=
  match nget (r_testaments r) c with Some p => p | None => ([], []) end.

Theorem add_testament_exact : forall r d args kw o c a0 a1 a2 topic targs tkw,
    match dget d "caller" with Some v => as_id v | None => None end = Some c ->
    arg0 args = Some a0 -> arg1 args = Some a1 -> arg2 args = Some a2 ->
    as_string a0 = Some topic -> as_list a1 = Some targs -> as_dict a2 = Some tkw ->
    scope_of kw = "destroyed" \/ scope_of kw = "detached" ->
    let t := mkTest topic targs tkw (match bind (dget kw "publish_options") as_dict with Some x => x | None => [] end) in
    let r' := realm_of (meta_call r "wamp.session.add_testament" d args kw o) in
    resp_of (meta_call r "wamp.session.add_testament" d args kw o) = MYield [] [] /\
    kills_of (meta_call r "wamp.session.add_testament" d args kw o) = None /\
    r' = r_set_testaments r (r_testaments r') /\
    (forall c', c' <> c -> nget (r_testaments r') c' = nget (r_testaments r) c') /\
    test_bucket r' c =
      (if String.eqb (scope_of kw) "destroyed"
       then (fst (test_bucket r c), snd (test_bucket r c) ++ [t])
       else (fst (test_bucket r c) ++ [t], snd (test_bucket r c))).
Proof.
  intros r d args kw o c a0 a1 a2 topic targs tkw Hc H0 H1 H2 Hs Hl Hd Hsc t r'. subst r' t.
  rewrite meta_add_testament, Hc, H0, H1, H2, Hs, Hl, Hd. cbv zeta.
  assert (E : negb (String.eqb (scope_of kw) "destroyed" || String.eqb (scope_of kw) "detached") = false).
  { destruct Hsc as [->| ->]; reflexivity. }
  rewrite E. unfold test_bucket.
  destruct (match nget (r_testaments r) c with Some p => p | None => ([], []) end) as [det des] eqn:B.
  unfold resp_of, realm_of, kills_of. cbn [fst snd r_testaments r_set_testaments].
  repeat split.
  - intros c' N. apply ngs_other; congruence.
  - rewrite ngs_same. destruct (String.eqb (scope_of kw) "destroyed"); reflexivity.
Qed.

Theorem add_testament_bad_scope : forall r d args kw o,
    scope_of kw <> "destroyed" -> scope_of kw <> "detached" ->
    meta_call r "wamp.session.add_testament" d args kw o = (r, MError e_invalid_argument, None).
Proof.
  intros r d args kw o H1 H2. rewrite meta_add_testament.
  assert (E : negb (String.eqb (scope_of kw) "destroyed" || String.eqb (scope_of kw) "detached") = true).
  { destruct (String.eqb_spec (scope_of kw) "destroyed"); [contradiction|].
    destruct (String.eqb_spec (scope_of kw) "detached"); [contradiction|]. reflexivity. }
  cbv zeta. rewrite E. brk; reflexivity.
Qed.

Theorem flush_testaments_exact : forall r d args kw o c,
    match dget d "caller" with Some v => as_id v | None => None end = Some c ->
    scope_of kw = "destroyed" \/ scope_of kw = "detached" ->
    let r' := realm_of (meta_call r "wamp.session.flush_testaments" d args kw o) in
    resp_of (meta_call r "wamp.session.flush_testaments" d args kw o) = MYield [] [] /\
    kills_of (meta_call r "wamp.session.flush_testaments" d args kw o) = None /\
    r' = r_set_testaments r (r_testaments r') /\
    (forall c', c' <> c -> nget (r_testaments r') c' = nget (r_testaments r) c') /\
    test_bucket r' c =
      (if String.eqb (scope_of kw) "destroyed"
       then (fst (test_bucket r c), [])
       else ([], snd (test_bucket r c))).
Proof.
  intros r d args kw o c Hc Hsc r'. subst r'.
  rewrite meta_flush_testaments, Hc. cbv zeta.
  assert (E : negb (String.eqb (scope_of kw) "destroyed" || String.eqb (scope_of kw) "detached") = false).
  { destruct Hsc as [->| ->]; reflexivity. }
  rewrite E. unfold test_bucket.
  destruct (nget (r_testaments r) c) as [[det des]|] eqn:B.
  - unfold resp_of, realm_of, kills_of.
    destruct (String.eqb (scope_of kw) "destroyed").
    + destruct det; cbn [fst snd r_testaments r_set_testaments]; repeat split;
        try (intros c' N; first [apply ngd_other; congruence|apply ngs_other; congruence]);
        rewrite ?ngd_same, ?ngs_same; reflexivity.
    + destruct des; cbn [fst snd r_testaments r_set_testaments]; repeat split;
        try (intros c' N; first [apply ngd_other; congruence|apply ngs_other; congruence]);
        rewrite ?ngd_same, ?ngs_same; reflexivity.
  - unfold resp_of, realm_of, kills_of. cbn [fst snd]. rewrite B.
    destruct r; cbn. repeat split; auto. destruct (String.eqb (scope_of kw) "destroyed"); reflexivity.
Qed.

(** ** meta_event_order *)
Definition mp_create (sid : N) (rg : registration) := mkMetaPub t_reg_on_create [vid sid; reg_dict rg] [] [].
Definition mp_register (sid id : N) := mkMetaPub t_reg_on_register [vid sid; vid id] [] [].
Definition mp_unregister (sid id : N) := mkMetaPub t_reg_on_unregister [vid sid; vid id] [] [].
Definition mp_delete (sid id : N) := mkMetaPub t_reg_on_delete [vid sid; vid id] [] [].

Definition is_error_reply (sid ty req : N) (o : list out) : Prop :=
  exists e a, o = [(sid, RError ty req [] e a [])].

(** REGISTER: a refusal (one ERROR, dealer unchanged, no meta event), or
    REGISTERED with: no event (wamp.* procedure of the meta session), or
    on_register alone (joined an existing shared registration), or on_create
    immediately followed by on_register of the same, new, registration. *)
Theorem register_event_order : forall cfg d s req opts proc,
    let '(d', o, mps) := register cfg d s req opts proc in
    (d' = d /\ mps = [] /\ is_error_reply (s_id s) c_REGISTER req o) \/
    (exists id, o = [(s_id s, RRegistered req id)] /\
       (mps = [] \/ mps = [mp_register (s_id s) id] \/
        exists rg, mps = [mp_create (s_id s) rg; mp_register (s_id s) id] /\
                   reg_id rg = id /\ reg_callees rg = [s_id s] /\ nget (d_regs d') id = Some rg)).
Proof.
  intros. unfold register, is_error_reply.
  destruct (negb (valid_uri _ _ _)); [left; eauto|].
  destruct (str_prefix_wamp proc && negb (s_id s =? meta_id)) eqn:W; [left; eauto|].
  destruct (negb (c_disclose cfg) && _ && _); [left; eauto|].
  destruct (match sget _ _ with Some id => nget (d_regs d) id | None => None end) as [rg|] eqn:M.
  - destruct (negb (shared_policy _) || _ || _); [left; eauto|].
    right. exists (reg_id rg). split; [reflexivity|].
    destruct (negb (str_prefix_wamp proc)); auto.
  - right. eexists. split; [reflexivity|].
    destruct (negb (str_prefix_wamp proc)); auto.
    right; right. eexists. split; [reflexivity|]. split; [reflexivity|]. split; [reflexivity|].
    destruct (mkind_of (opt_string opts "match")); cbn; apply ngs_same.
Qed.

(** UNREGISTER: a refusal, or on_unregister, followed by on_delete of the same
    registration exactly when the registration was deleted. *)
Theorem unregister_event_order : forall d sid req regid,
    let '(d', o, mps) := unregister d sid req regid in
    (mps = [] /\ o = [(sid, RError c_UNREGISTER req [] e_no_such_registration [] [])]) \/
    (o = [(sid, RUnregistered req)] /\
     ((mps = [mp_unregister sid regid] /\ nget (d_regs d') regid <> None) \/
      (mps = [mp_unregister sid regid; mp_delete sid regid] /\ nget (d_regs d') regid = None))).
Proof.
  intros. unfold unregister.
  destruct (del_callee_reg _ sid regid) as [d1 [deleted|]] eqn:D; [|left; auto].
  right. split; [reflexivity|].
  unfold del_callee_reg in D. cbn [d_regs d_set_callee_regs] in D.
  destruct (nget (d_regs d) regid) as [rg|]; [|discriminate].
  destruct (negb (nmem sid (reg_callees rg))); [discriminate|].
  destruct (nremove1 sid (reg_callees rg)); inversion D; subst.
  - right. split; [reflexivity|].
    destruct (mkind_of (reg_match rg)); cbn; apply ngd_same.
  - left. split; [reflexivity|]. cbn [d_regs d_set_regs d_set_callee_regs]. rewrite ngs_same. discriminate.
Qed.

(** a session's departure from the dealer: for each of its registrations in
    turn, on_unregister then (if it was the last callee) on_delete *)
Definition reg_leave_events (sid : N) (l : list (N * bool)) : list metapub :=
  flat_map (fun '((id, deleted) : N * bool) =>
              mp_unregister sid id :: (if deleted then [mp_delete sid id] else [])) l.

Lemma remove_callee_reg_fold : forall sid regs d mp,
    exists l, snd (fold_left (remove_callee_reg sid) regs (d, mp)) = mp ++ reg_leave_events sid l /\
              (forall x, In x (map fst l) -> In x regs).
Proof.
  intros sid regs; induction regs as [|id regs IH]; intros d mp; cbn [fold_left].
  - exists []. cbn. rewrite app_nil_r. auto.
  - unfold remove_callee_reg at 2.
    destruct (del_callee_reg d sid id) as [d1 [deleted|]].
    + destruct (IH d1 (mp ++ mp_unregister sid id :: (if deleted then [mp_delete sid id] else []))) as (l & E & I).
      exists ((id, deleted) :: l). split.
      * unfold mp_unregister, mp_delete in *. rewrite E. cbn [reg_leave_events flat_map].
        rewrite <- app_assoc. reflexivity.
      * intros x [<-|Hx]; [now left|right; auto].
    + destruct (IH d mp) as (l & E & I). exists l. split; [exact E|]. intros x Hx; right; auto.
Qed.

Theorem dealer_remove_session_event_order : forall lk d sid,
    exists l, snd (dealer_remove_session lk d sid) = reg_leave_events sid l /\
              (forall x, In x (map fst l) ->
                         In x (match nget (d_callee_regs d) sid with Some l => l | None => [] end)).
Proof.
  intros. unfold dealer_remove_session.
  destruct (remove_callee_reg_fold sid (match nget (d_callee_regs d) sid with Some l => l | None => [] end) d [])
    as (l & E & I).
  destruct (fold_left (remove_callee_reg sid) _ (d, [])) as [d1 mp]. cbn [snd] in E.
  destruct (fold_left (cancel_served lk sid) _ _) as [d3 o]. cbn [snd].
  exists l. split; [exact E|exact I].
Qed.

(** SUBSCRIBE and UNSUBSCRIBE: the reply first, then on_create (publication
    [pg+1]) before on_subscribe; on_unsubscribe before on_delete. *)
Theorem subscribe_event_order : forall cfg b pg sid req opts topic,
    let '(b', pg', o) := subscribe cfg b pg sid req opts topic in
    (b' = b /\ pg' = pg /\ is_error_reply sid c_SUBSCRIBE req o) \/
    (exists id, pg' = pg /\ o = [(sid, RSubscribed req id)]) \/
    (exists id, pg' = pg + 1 /\
       o = [(sid, RSubscribed req id)] ++ sub_meta_event b' t_sub_on_subscribe sid (pg + 1) [vid sid; vid id]) \/
    (exists s, pg' = pg + 2 /\ nget (b_subs b') (sub_id s) = Some s /\ sub_subs s = [sid] /\
       o = [(sid, RSubscribed req (sub_id s))]
             ++ sub_meta_event b' t_sub_on_create sid (pg + 1) [vid sid; sub_dict s]
             ++ sub_meta_event b' t_sub_on_subscribe sid (pg + 2) [vid sid; vid (sub_id s)]).
Proof.
  intros. unfold subscribe, is_error_reply.
  destruct (negb (valid_uri _ _ _)); [left; eauto|].
  destruct (init_subscription b topic (opt_string opts "match") (Some sid)) as [[b1 s] existing] eqn:I.
  destruct existing.
  - destruct (nmem sid (sub_subs s)); cbn [andb].
    + right; left. eauto.
    + right; right; left. eexists. split; [reflexivity|]. reflexivity.
  - cbn [andb]. right; right; right. exists s.
    unfold init_subscription in I.
    destruct (sget _ _) as [id|]; [destruct (nget (b_subs b) id); inversion I|].
    inversion I; subst. cbn [sub_id sub_subs].
    replace (pg + 1 + 1) with (pg + 2) by lia.
    split; [reflexivity|]. split; [|split; [reflexivity|reflexivity]].
    destruct (mkind_of (opt_string opts "match")); cbn [b_subs b_set_subs b_set_map b_set_idgen b_set_sess b_map sub_id];
      rewrite ngs_same; reflexivity.
Qed.

Theorem unsubscribe_event_order : forall b pg sid req subid,
    let '(b', pg', o) := unsubscribe b pg sid req subid in
    (b' = b /\ pg' = pg /\ o = [(sid, RError c_UNSUBSCRIBE req [] e_no_such_subscription [] [])]) \/
    (pg' = pg + 1 /\
     o = [(sid, RUnsubscribed req)] ++ sub_meta_event b' t_sub_on_unsubscribe sid (pg + 1) [vid sid; vid subid]) \/
    (pg' = pg + 2 /\
     o = [(sid, RUnsubscribed req)]
           ++ sub_meta_event b' t_sub_on_unsubscribe sid (pg + 1) [vid sid; vid subid]
           ++ sub_meta_event b' t_sub_on_delete sid (pg + 2) [vid sid; vid subid]).
Proof.
  intros. unfold unsubscribe.
  destruct (nget (b_subs b) subid) as [s|] eqn:G; [|left; auto].
  destruct (negb (nmem sid (sub_subs s))); [left; auto|].
  cbn [sub_subs].
  destruct (match nremove sid (sub_subs s) with [] => negb (has_history b subid) | _ => false end) eqn:D.
  - right; right. auto.
  - right; left. auto.
Qed.

(** ** not_echoed *)
Theorem not_echoed : forall b mtopic cause pub args x,
    In x (sub_meta_event b mtopic cause pub args) -> fst x <> cause.
Proof.
  intros b mtopic cause pub args x H. unfold sub_meta_event in H.
  apply in_flat_map in H. destruct H as ([s st] & _ & H).
  apply in_flat_map in H. destruct H as (rcv & _ & H).
  destruct (N.eqb_spec rcv cause); [destruct H|].
  destruct H as [<-|[]]. exact n.
Qed.

(** every subscription meta event goes to a subscriber of a subscription
    matching the meta topic, as an EVENT of that subscription *)
Theorem sub_meta_event_receivers : forall b mtopic cause pub args x,
    In x (sub_meta_event b mtopic cause pub args) ->
    exists s st, In (s, st) (matching_subs b mtopic) /\ In (fst x) (sub_subs s) /\
                 snd x = REvent (sub_id s) pub (if st then [("topic", vuri mtopic)] else []) args [].
Proof.
  intros b mtopic cause pub args x H. unfold sub_meta_event in H.
  apply in_flat_map in H. destruct H as ([s st] & Hs & H).
  apply in_flat_map in H. destruct H as (rcv & Hr & H).
  destruct (N.eqb rcv cause); [destruct H|]. destruct H as [<-|[]].
  exists s, st. cbn. auto.
Qed.

(** ** The meta session's publications *)
Lemma meta_publish_all_nil : forall r, meta_publish_all r [] = (r, []).
Proof. reflexivity. Qed.

Lemma meta_publish_all_cons : forall mp mps r,
    meta_publish_all r (mp :: mps) =
    let '(r1, o1) := meta_publish r mp in
    let '(r2, o2) := meta_publish_all r1 mps in (r2, o1 ++ o2).
Proof.
  unfold meta_publish_all.
  assert (G : forall mps r acc,
             fold_left (fun '((r, o) : realm * list out) mp =>
                          let '(r1, o1) := meta_publish r mp in (r1, o ++ o1)) mps (r, acc) =
             let '(r2, o2) := fold_left (fun '((r, o) : realm * list out) mp =>
                          let '(r1, o1) := meta_publish r mp in (r1, o ++ o1)) mps (r, []) in
             (r2, acc ++ o2)).
  { induction mps as [|mp mps IH]; intros r acc; cbn [fold_left].
    - now rewrite app_nil_r.
    - destruct (meta_publish r mp) as [r1 o1]. rewrite IH. rewrite (IH r1 ([] ++ o1)).
      destruct (fold_left _ mps (r1, [])) as [r2 o2]. now rewrite <- app_assoc. }
  intros mp mps r. cbn [fold_left]. destruct (meta_publish r mp) as [r1 o1].
  rewrite G. destruct (fold_left _ mps (r1, [])). reflexivity.
Qed.

Lemma meta_publish_all_app : forall m1 m2 r,
    meta_publish_all r (m1 ++ m2) =
    let '(r1, o1) := meta_publish_all r m1 in
    let '(r2, o2) := meta_publish_all r1 m2 in (r2, o1 ++ o2).
Proof.
  induction m1 as [|mp m1 IH]; intros m2 r.
  - cbn [app]. rewrite meta_publish_all_nil. destruct (meta_publish_all r m2). reflexivity.
  - cbn [app]. rewrite !meta_publish_all_cons. destruct (meta_publish r mp) as [r1 o1].
    rewrite IH. destruct (meta_publish_all r1 m1) as [r2 o2].
    destruct (meta_publish_all r2 m2) as [r3 o3]. now rewrite app_assoc.
Qed.

(** a meta publication touches only the broker and the publication counter *)
Definition same_but_broker (r r' : realm) : Prop :=
  r_cfg r' = r_cfg r /\ r_clients r' = r_clients r /\ r_meta r' = r_meta r /\
  r_testaments r' = r_testaments r /\ r_dealer r' = r_dealer r /\
  r_metaprocs r' = r_metaprocs r /\ r_now r' = r_now r.

Lemma same_but_broker_refl : forall r, same_but_broker r r.
Proof. intros; repeat split. Qed.

Lemma same_but_broker_trans : forall a b c, same_but_broker a b -> same_but_broker b c -> same_but_broker a c.
Proof. unfold same_but_broker; intros a b c H1 H2; intuition congruence. Qed.

Lemma meta_publish_frame : forall r mp, same_but_broker r (fst (meta_publish r mp)).
Proof.
  intros. unfold meta_publish. destruct (publish _ _ _ _ _ _ _ _ _ _ _) as [[b pg] o].
  repeat split.
Qed.

Lemma meta_publish_all_frame : forall mps r, same_but_broker r (fst (meta_publish_all r mps)).
Proof.
  induction mps as [|mp mps IH]; intros r; [apply same_but_broker_refl|].
  rewrite meta_publish_all_cons. pose proof (meta_publish_frame r mp) as F.
  destruct (meta_publish r mp) as [r1 o1]. specialize (IH r1).
  destruct (meta_publish_all r1 mps) as [r2 o2]. cbn [fst] in *.
  eapply same_but_broker_trans; eauto.
Qed.

(** ** The order of a session's departure: the removal from the dealer and the
    broker (their direct outputs first), then — through the meta session, in
    this order — the registration events, the detached testaments, the
    destroyed testaments, and on_leave last. *)
Definition leave_core (r : realm) (sid : N) : realm * list out * list metapub :=
  let r1 := r_set_clients r (del_session (r_clients r) sid) in
  let r2 := r_set_testaments r1 (ndel (r_testaments r1) sid) in
  let '(d, o1, mps) := dealer_remove_session (lookup r2) (r_dealer r2) sid in
  let r3 := r_set_dealer r2 d in
  let '(b, pg, o2) := broker_remove_session (r_broker r3) (r_pubgen r3) sid in
  (r_set_broker r3 b pg, o1 ++ o2, mps).

Definition testament_pubs (r : realm) (sid : N) : list metapub :=
  match nget (r_testaments r) sid with
  | Some (det, des) => test_pubs det ++ test_pubs des
  | None => []
  end.

Definition on_leave_pub (s : session) : metapub :=
  mkMetaPub t_on_leave [vid (s_id s); opt_val (s_details s) "authid"; opt_val (s_details s) "authrole"] [] [].

Theorem leave_event_order : forall r sid s,
    find_session (r_clients r) sid = Some s ->
    leave r sid =
    let '(r4, o12, mps) := leave_core r sid in
    let '(r5, o3) := meta_publish_all r4 (mps ++ testament_pubs r sid ++ [on_leave_pub s]) in
    (r5, o12 ++ o3).
Proof.
  intros r sid s H. unfold leave, leave_core, testament_pubs, on_leave_pub. rewrite H.
  rewrite (find_session_id _ _ _ H).
  cbn [r_testaments r_set_clients r_set_testaments].
  destruct (dealer_remove_session _ _ _) as [[d o1] mps].
  destruct (broker_remove_session _ _ _) as [[b pg] o2].
  destruct (meta_publish_all _ _) as [r5 o3]. now rewrite app_assoc.
Qed.

Lemma leave_absent : forall r sid, find_session (r_clients r) sid = None -> leave r sid = (r, []).
Proof. intros r sid H. unfold leave. now rewrite H. Qed.

(** the dealer's part of [leave_core] is the per-registration event list *)
Theorem leave_core_reg_events : forall r sid,
    exists l, snd (leave_core r sid) = reg_leave_events sid l.
Proof.
  intros. unfold leave_core.
  match goal with |- context [dealer_remove_session ?lk ?d sid] =>
    destruct (dealer_remove_session_event_order lk d sid) as (l & E & _);
    destruct (dealer_remove_session lk d sid) as [[d' o1] mps] end.
  destruct (broker_remove_session _ _ _) as [[b pg] o2]. exists l. exact E.
Qed.

(** ** ineffective_silent: a refused request leaves the realm as it was and
    produces exactly the one ERROR (no meta event). *)
Lemma r_set_broker_same : forall r, r_set_broker r (r_broker r) (r_pubgen r) = r.
Proof. intros []; reflexivity. Qed.
Lemma r_set_dealer_same : forall r, r_set_dealer r (r_dealer r) = r.
Proof. intros []; reflexivity. Qed.

Theorem subscribe_refused_silent : forall r s req opts topic oracle,
    valid_uri (c_strict (r_cfg r)) (opt_string opts "match") topic = false ->
    handle r s (CSubscribe req opts topic) oracle =
    (r, [(s_id s, RError c_SUBSCRIBE req [] e_invalid_uri [vstr "<text>"] [])]).
Proof.
  intros r s req opts topic oracle H. cbn [handle]. unfold subscribe. rewrite H. cbn [negb].
  now rewrite r_set_broker_same.
Qed.

(** a repeated SUBSCRIBE by a session that already holds the subscription is
    answered with the same id and announces nothing *)
Theorem subscribe_repeated_silent : forall r s req opts topic oracle id sub,
    valid_uri (c_strict (r_cfg r)) (opt_string opts "match") topic = true ->
    sget (b_map (r_broker r) (mkind_of (opt_string opts "match"))) topic = Some id ->
    nget (b_subs (r_broker r)) id = Some sub -> nmem (s_id s) (sub_subs sub) = true ->
    handle r s (CSubscribe req opts topic) oracle = (r, [(s_id s, RSubscribed req (sub_id sub))]).
Proof.
  intros r s req opts topic oracle id sub Hv Hm Hs Hin. cbn [handle]. unfold subscribe, init_subscription.
  rewrite Hv, Hm, Hs. cbn [negb andb]. rewrite Hin. now rewrite r_set_broker_same.
Qed.

Theorem unsubscribe_refused_silent : forall r s req subid oracle,
    (forall sub, nget (b_subs (r_broker r)) subid = Some sub -> nmem (s_id s) (sub_subs sub) = false) ->
    handle r s (CUnsubscribe req subid) oracle =
    (r, [(s_id s, RError c_UNSUBSCRIBE req [] e_no_such_subscription [] [])]).
Proof.
  intros r s req subid oracle H. cbn [handle]. unfold unsubscribe.
  destruct (nget (b_subs (r_broker r)) subid) as [sub|]; [rewrite (H sub eq_refl); cbn [negb]|];
    now rewrite r_set_broker_same.
Qed.

Theorem register_refused_silent : forall r s req opts proc oracle e a,
    snd (fst (register (r_cfg r) (r_dealer r) s req opts proc)) = [(s_id s, RError c_REGISTER req [] e a [])] ->
    handle r s (CRegister req opts proc) oracle = (r, [(s_id s, RError c_REGISTER req [] e a [])]).
Proof.
  intros r s req opts proc oracle e a H. cbn [handle].
  pose proof (register_event_order (r_cfg r) (r_dealer r) s req opts proc) as O.
  destruct (register _ _ _ _ _ _) as [[d' o] mps]. cbn [fst snd] in H. subst o.
  destruct O as [(-> & -> & _)|(id & E & _)]; [|discriminate].
  rewrite r_set_dealer_same, meta_publish_all_nil. reflexivity.
Qed.

(** the refusal conditions of REGISTER, spelled out *)
Theorem register_refusals : forall cfg d s req opts proc,
    let m := opt_string opts "match" in
    valid_uri (c_strict cfg) m proc = false \/
    (str_prefix_wamp proc = true /\ s_id s <> meta_id) \/
    (c_disclose cfg = false /\ opt_bool opts "disclose_caller" = true /\
     attr_of (s_details s) "authrole" <> "trusted") \/
    (exists id rg, sget (d_map d (mkind_of m)) proc = Some id /\ nget (d_regs d) id = Some rg /\
                   (shared_policy (reg_policy rg) = false \/ reg_policy rg <> opt_string opts "invoke" \/
                    In (s_id s) (reg_callees rg))) ->
    exists e a, register cfg d s req opts proc = (d, [(s_id s, RError c_REGISTER req [] e a [])], []).
Proof.
  intros cfg d s req opts proc m H. unfold register. fold m.
  destruct (valid_uri (c_strict cfg) m proc) eqn:V; cbn [negb]; [|eauto].
  destruct (str_prefix_wamp proc && negb (s_id s =? meta_id)) eqn:W; [eauto|].
  destruct (negb (c_disclose cfg) && opt_bool opts "disclose_caller" &&
            negb (String.eqb (attr_of (s_details s) "authrole") "trusted")) eqn:D; [eauto|].
  destruct H as [H|[[H1 H2]|[(H1 & H2 & H3)|(id & rg & H1 & H2 & H3)]]].
  - discriminate.
  - rewrite H1 in W. apply N.eqb_neq in H2. rewrite H2 in W. discriminate.
  - rewrite H1, H2 in D. cbn in D. apply negb_false_iff, String.eqb_eq in D. contradiction.
  - rewrite H1, H2.
    assert (E : negb (shared_policy (reg_policy rg)) || negb (String.eqb (reg_policy rg) (opt_string opts "invoke"))
                || nmem (s_id s) (reg_callees rg) = true).
    { destruct H3 as [H3|[H3|H3]].
      - now rewrite H3.
      - apply String.eqb_neq in H3. rewrite H3. now rewrite orb_true_r.
      - apply nmem_In in H3. rewrite H3. now rewrite orb_true_r. }
    rewrite E. eauto.
Qed.

Theorem unregister_refused_silent : forall r s req regid oracle,
    (forall rg, nget (d_regs (r_dealer r)) regid = Some rg -> nmem (s_id s) (reg_callees rg) = false) ->
    handle r s (CUnregister req regid) oracle =
    (r_set_dealer r (d_set_callee_regs (r_dealer r) (callee_del_reg (d_callee_regs (r_dealer r)) (s_id s) regid)),
     [(s_id s, RError c_UNREGISTER req [] e_no_such_registration [] [])]).
Proof.
  intros r s req regid oracle H. cbn [handle]. unfold unregister, del_callee_reg.
  cbn [d_regs d_set_callee_regs].
  destruct (nget (d_regs (r_dealer r)) regid) as [rg|].
  - rewrite (H rg eq_refl). cbn [negb]. rewrite meta_publish_all_nil. reflexivity.
  - rewrite meta_publish_all_nil. reflexivity.
Qed.

(** ... and the realm is literally unchanged when the session's registration
    list agrees with the registration table (an invariant, see RealmWf) *)
Lemma callee_del_reg_noop : forall l sid regid,
    (forall ids, nget l sid = Some ids -> ids <> [] /\ ~ In regid ids) ->
    callee_del_reg l sid regid = l.
Proof.
  intros l sid regid H. unfold callee_del_reg.
  destruct (nget l sid) as [ids|] eqn:G; [|reflexivity].
  destruct (H ids eq_refl) as [Hne Hni].
  rewrite (nremove_notin regid ids Hni).
  destruct ids; [congruence|].
  apply (aset_same_value N.eqb N.eqb_spec). exact G.
Qed.

Lemma d_set_callee_regs_same : forall d, d_set_callee_regs d (d_callee_regs d) = d.
Proof. intros []; reflexivity. Qed.

Theorem unregister_refused_unchanged : forall r s req regid oracle,
    (forall rg, nget (d_regs (r_dealer r)) regid = Some rg -> nmem (s_id s) (reg_callees rg) = false) ->
    (forall ids, nget (d_callee_regs (r_dealer r)) (s_id s) = Some ids -> ids <> [] /\ ~ In regid ids) ->
    handle r s (CUnregister req regid) oracle =
    (r, [(s_id s, RError c_UNREGISTER req [] e_no_such_registration [] [])]).
Proof.
  intros r s req regid oracle H1 H2. rewrite (unregister_refused_silent _ _ _ _ _ H1).
  rewrite (callee_del_reg_noop _ _ _ H2), d_set_callee_regs_same, r_set_dealer_same. reflexivity.
Qed.

(** ** lookup_match_agree *)
Lemma select_callee_In : forall rg oracle c n, select_callee rg oracle = Some (c, n) -> In c (reg_callees rg).
Proof.
  intros rg oracle c n. unfold select_callee.
  assert (NE : forall (l : list N) k x, option_map (fun c => (c, x)) (nth_error l k) = Some (c, n) -> In c l).
  { intros l k x H. destruct (nth_error l k) as [y|] eqn:E; [|discriminate].
    cbn in H. inversion H; subst. eapply nth_error_In; eauto. }
  destruct (reg_callees rg) as [|c1 [|c2 l]] eqn:Ecs; [discriminate| |].
  - intros H; inversion H; subst. now left.
  - destruct (String.eqb _ "first"); [apply NE|].
    destruct (String.eqb _ "last"); [apply NE|].
    destruct (String.eqb _ "roundrobin"); [apply NE|].
    destruct (String.eqb _ "random"); [apply NE|discriminate].
Qed.

(** [wamp.registration.match] answers the id of the registration [call]
    routes a CALL of that URI to (same oracle): every INVOCATION [call] emits
    carries that registration id and, for the first chunk of a call, goes to one
    of that registration's callees; the answer is 0 exactly when no
    registration matches, and then [call] answers no_such_procedure. *)
Theorem registration_match_agrees : forall r d0 margs mkw oracle p,
    bind (arg0 margs) as_string = Some p ->
    forall caller req opts args kw,
    match match_procedure (r_dealer r) p oracle with
    | None =>
        meta_call r "wamp.registration.match" d0 margs mkw oracle = (r, MYield [vid 0] [], None) /\
        exists d',
          call (r_cfg r) (lookup r) (r_now r) (r_dealer r) caller req opts p args kw oracle =
          CallRefused d' [(s_id caller, RError c_CALL req [] e_no_such_procedure [] [])]
    | Some rg =>
        meta_call r "wamp.registration.match" d0 margs mkw oracle = (r, MYield [vid (reg_id rg)] [], None) /\
        forall d' callee o,
          call (r_cfg r) (lookup r) (r_now r) (r_dealer r) caller req opts p args kw oracle = CallInvoked d' callee o ->
          exists rcv invid det,
            o = [(rcv, RInvocation invid (reg_id rg) det args kw)] /\
            (cget (d_bycall (r_dealer r)) (s_id caller, req) = None -> In rcv (reg_callees rg))
    end.
Proof.
  intros r d0 margs mkw oracle p Hp caller req opts args kw.
  rewrite meta_registration_match, Hp. unfold call.
  destruct (match_procedure (r_dealer r) p oracle) as [rg|]; [|split; [reflexivity|eexists; reflexivity]].
  split; [reflexivity|]. intros d' callee o.
  destruct (reg_callees rg) eqn:Ecs; [discriminate|]. rewrite <- Ecs.
  destruct (opt_bool opts "progress" && _); [discriminate|].
  destruct (cget (d_bycall (r_dealer r)) (s_id caller, req)) as [ikey|] eqn:B.
  - destruct (cget (d_invs (r_dealer r)) ikey) as [inv|]; [|discriminate].
    destruct (lookup r (inv_callee inv)) as [cs|]; [|discriminate].
    match goal with |- context [if ?c then _ else _] => destruct c end;
      intros H; inversion H; subst; do 3 eexists; (split; [reflexivity|discriminate]).
  - destruct (select_callee rg oracle) as [[cid next]|] eqn:S; [|discriminate].
    destruct (lookup r cid) as [cs|]; [|discriminate].
    destruct (opt_bool opts "progress" && _); [discriminate|].
    destruct (ppt_active opts && negb (sess_feature caller "caller" f_ppt)); [discriminate|].
    destruct (ppt_active opts && negb (sess_feature cs "callee" f_ppt)); [discriminate|].
    destruct (negb (reg_discloses rg cid) && _ && _); [discriminate|].
    match goal with |- context [let '(_, _) := (if ?c then _ else _) in _] => destruct c end;
      intros H; inversion H; subst; do 3 eexists; (split; [reflexivity|]); intros _; eapply select_callee_In; eauto.
Qed.

(** the events of a publication: one per allowed target of each matching subscription *)
Definition pub_events (lk : N -> option session) (pub : session) (pubid : N) (opts : dict)
           (topic : string) (args : list value) (kw : dict) (subs : list (subscription * bool)) : list out :=
  let exclude_pub := match dget opts "exclude_me" with Some (VBool x) => x | _ => true end in
  let disclose := opt_bool opts "disclose_me" in
  flat_map (fun '((s, send_topic) : subscription * bool) =>
              map (fun rs => (s_id rs, REvent (sub_id s) pubid
                                         (ppt_part opts ++ event_details topic send_topic disclose pub (Some rs)) args kw))
                  (sub_targets lk (s_id pub) exclude_pub (make_filter opts) s)) subs.

Lemma pub_event_fold : forall lk now pub pubid opts topic args kw subs b o,
    snd (fold_left (pub_event lk now pub pubid opts topic args kw
                              (match dget opts "exclude_me" with Some (VBool x) => x | _ => true end)
                              (opt_bool opts "disclose_me") (make_filter opts)) subs (b, o)) =
    o ++ pub_events lk pub pubid opts topic args kw subs.
Proof.
  intros lk now pub pubid opts topic args kw subs.
  induction subs as [|[s st] subs IH]; intros b o; cbn [fold_left].
  - cbn. now rewrite app_nil_r.
  - unfold pub_event at 2. cbv beta iota zeta. rewrite IH.
    unfold pub_events. cbn [flat_map]. now rewrite app_assoc.
Qed.

Theorem publish_delivers_through_matching : forall cfg lk now b pg pub req opts topic args kw,
    valid_uri (c_strict cfg) "" topic = true ->
    publish_aborts cfg pub opts topic = false ->
    opt_bool opts "disclose_me" && negb (c_disclose cfg) = false ->
    snd (publish cfg lk now b pg pub req opts topic args kw) =
    pub_events lk pub (pg + 1) opts topic args kw (matching_subs b topic)
    ++ (if opt_bool opts "acknowledge" then [(s_id pub, RPublished req (pg + 1))] else []).
Proof.
  intros cfg lk now b pg pub req opts topic args kw Hv Ha Hd. unfold publish.
  rewrite Hv, Ha, Hd. cbn [negb].
  pose proof (pub_event_fold lk now pub (pg + 1) opts topic args kw (matching_subs b topic) b []) as F.
  destruct (fold_left _ (matching_subs b topic) (b, [])) as [b1 o]. cbn [snd] in *. now rewrite F.
Qed.

(** [wamp.subscription.match] answers exactly the ids of the subscriptions a
    publication to that topic is delivered through. *)
Theorem subscription_match_agrees : forall r d0 margs mkw oracle t,
    bind (arg0 margs) as_string = Some t ->
    meta_call r "wamp.subscription.match" d0 margs mkw oracle =
    (r, MYield [ids_value (map (fun p => sub_id (fst p)) (matching_subs (r_broker r) t))] [], None) /\
    forall pub req opts args kw,
      valid_uri (c_strict (r_cfg r)) "" t = true ->
      publish_aborts (r_cfg r) pub opts t = false ->
      opt_bool opts "disclose_me" && negb (c_disclose (r_cfg r)) = false ->
      snd (publish (r_cfg r) (lookup r) (r_now r) (r_broker r) (r_pubgen r) pub req opts t args kw) =
      pub_events (lookup r) pub (r_pubgen r + 1) opts t args kw (matching_subs (r_broker r) t)
      ++ (if opt_bool opts "acknowledge" then [(s_id pub, RPublished req (r_pubgen r + 1))] else []).
Proof.
  intros r d0 margs mkw oracle t Ht. split.
  - rewrite meta_subscription_match, Ht.
    assert (E : forall l : list (subscription * bool),
               map (fun '((s, _) : subscription * bool) => sub_id s) l = map (fun p => sub_id (fst p)) l)
      by (intros; apply map_ext; intros [? ?]; reflexivity).
    rewrite E. reflexivity.
  - intros. now apply publish_delivers_through_matching.
Qed.

(** every EVENT of a publication names one of the matching subscriptions *)
Theorem pub_events_subs : forall lk pub pubid opts topic args kw subs rcv sub pid det a k,
    In (rcv, REvent sub pid det a k) (pub_events lk pub pubid opts topic args kw subs) ->
    In sub (map (fun p => sub_id (fst p)) subs) /\ pid = pubid.
Proof.
  intros lk pub pubid opts topic args kw subs rcv sub pid det a k H. unfold pub_events in H.
  apply in_flat_map in H. destruct H as ([s st] & Hs & H).
  apply in_map_iff in H. destruct H as (rs & E & _). inversion E; subst.
  split; [|reflexivity]. apply in_map_iff. exists (s, st). auto.
Qed.

(** ** Non-vacuity witnesses for C18: a reachable realm — three sessions; 11
    holds a subscription to "t" and a registration of "p"; 10 observes every
    meta topic through a prefix subscription to "wamp.".  The meta procedures
    are reached through [step] (a CALL routed to the meta session). *)
Module C18Ex.
  Definition cfg0 : config := mkConfig false false false true true false [] None.
  Definition hello0 : dict :=
    [("roles", VDict [("subscriber", VDict []); ("publisher", VDict []);
                      ("caller", VDict []); ("callee", VDict [])])].
  Definition r0 : realm :=
    fst (run (init_realm cfg0)
       [OJoin 10 false hello0; OJoin 11 false hello0; OJoin 12 false hello0;
        OMsg 11 (CSubscribe 1 [] "t") 0; OMsg 11 (CRegister 2 [] "p") 0;
        OMsg 10 (CSubscribe 3 [("match", vstr "prefix")] "wamp.") 0]).
  Definition call12 (proc : string) (args : list value) (kw : dict) : op :=
    OMsg 12 (CCall 5 [] proc args kw) 0.

  Lemma counts : snd (step r0 (call12 "wamp.session.count" [] [])) = [(12, RResult 5 [] [vnat 3] [])] /\
                 snd (step r0 (call12 "wamp.session.list" [] [])) = [(12, RResult 5 [] [VList [vid 10; vid 11; vid 12]] [])].
  Proof. vm_compute. split; reflexivity. Qed.

  (** kill 11 with a reason: RESULT to the caller, GOODBYE with that reason to
      the target only, then (observer 10) subscription on_unsubscribe before
      on_delete, registration
      on_unregister before on_delete, on_leave last *)
  Lemma kill :
    snd (step r0 (call12 "wamp.session.kill" [vid 11] [("reason", vuri "x.y")])) =
    [(12, RResult 5 [] [] []); (11, RGoodbye [] "x.y");
     (10, REvent 2 10 [("topic", vuri t_sub_on_unsubscribe)] [vid 11; vid 1] []);
     (10, REvent 2 11 [("topic", vuri t_sub_on_delete)] [vid 11; vid 1] []);
     (10, REvent 2 12 [("topic", vuri t_reg_on_unregister)] [vid 11; vid 24] []);
     (10, REvent 2 13 [("topic", vuri t_reg_on_delete)] [vid 11; vid 24] []);
     (10, REvent 2 14 [("topic", vuri t_on_leave)] [vid 11; vstr "<gen>"; vstr "anonymous"] [])] /\
    map s_id (r_clients (fst (step r0 (call12 "wamp.session.kill" [vid 11] [("reason", vuri "x.y")])))) = [10; 12].
  Proof. vm_compute. split; reflexivity. Qed.

  Lemma kill_hyps :
    bind (arg0 [vid 11]) as_id = Some 11 /\ caller_of [("caller", vid 12)] <> 11 /\
    kill_reason [("reason", vuri "x.y")] = Some ("x.y", "") /\ find_session (r_clients r0) 11 <> None.
  Proof. vm_compute. repeat split; congruence. Qed.

  (** killing oneself / an unknown session is refused *)
  Lemma kill_self :
    snd (step r0 (call12 "wamp.session.kill" [vid 12] [])) = [(12, RError c_CALL 5 [] e_no_such_session [] [])] /\
    snd (step r0 (call12 "wamp.session.kill" [vid 99] [])) = [(12, RError c_CALL 5 [] e_no_such_session [] [])].
  Proof. vm_compute. split; reflexivity. Qed.

  (** registration.match answers the id the INVOCATION of a call to "p" carries *)
  Lemma reg_match :
    snd (step r0 (call12 "wamp.registration.match" [vstr "p"] [])) = [(12, RResult 5 [] [vid 24] [])] /\
    snd (step r0 (call12 "p" [] [])) =
      [(11, RInvocation 1 24 [("progress", VBool false); ("procedure", vuri "p")] [] [])] /\
    match_procedure (r_dealer r0) "p" 0 <> None.
  Proof. vm_compute. repeat split; congruence. Qed.

  Lemma sub_match :
    snd (step r0 (call12 "wamp.subscription.match" [vstr "t"] [])) = [(12, RResult 5 [] [VList [vid 1]] [])] /\
    snd (step r0 (OMsg 12 (CPublish 5 [] "t" [] []) 0)) = [(11, REvent 1 10 [] [] [])].
  Proof. vm_compute. split; reflexivity. Qed.

  (** an effective UNSUBSCRIBE announces on_unsubscribe then on_delete (not to
      the unsubscriber); one by a non-subscriber announces nothing *)
  Lemma unsub :
    snd (step r0 (OMsg 11 (CUnsubscribe 6 1) 0)) =
      [(11, RUnsubscribed 6);
       (10, REvent 2 10 [("topic", vuri t_sub_on_unsubscribe)] [vid 11; vid 1] []);
       (10, REvent 2 11 [("topic", vuri t_sub_on_delete)] [vid 11; vid 1] [])] /\
    step r0 (OMsg 12 (CUnsubscribe 6 1) 0) = (r0, [(12, RError c_UNSUBSCRIBE 6 [] e_no_such_subscription [] [])]).
  Proof. vm_compute. split; reflexivity. Qed.

  Lemma testament :
    r_testaments (fst (step r0 (call12 "wamp.session.add_testament" [vstr "bye"; VList []; VDict []] []))) =
    [(12, ([], [mkTest "bye" [] [] []]))].
  Proof. vm_compute. reflexivity. Qed.
End C18Ex.
