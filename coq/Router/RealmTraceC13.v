(** * Histories of the whole model, C13 part 1: what each dealer function does
    to the table of pending invocations and to the table of armed timers, and
    which INTERRUPTs / timeout ERRORs it sends.

    [evo d d']: every invocation record and every armed timer of [d'] is a
    record / timer of [d], unchanged.  Every dealer function satisfies it,
    except a kill-mode CANCEL that takes effect (the record is marked
    cancelled, its timer stopped) and a routed CALL (a record is created, or —
    a further chunk — gets a new timer).  Definitions only of vocabulary;
    nothing here mentions the realm. *)
From Nexus Require Import Router.Dealer Router.DealerLib Router.DealerProofs Router.DealerReg Router.DealerCall
     Router.DealerWfCalls Router.DealerWfRegs Router.DealerWf Router.DealerRemove Router.DealerReply Router.DealerTimers.
From Coq Require Import Lia ZifyN ZifyNat ZifyBool.

(** ** Messages of interest *)
Definition is_intr (m : out) : bool :=
  match snd m with RInterrupt _ _ => true | _ => false end.
(** an ERROR(CALL) whose error URI is wamp.error.timeout *)
Definition is_tmo (m : out) : bool :=
  match snd m with RError ty _ _ err _ _ => (ty =? c_CALL) && String.eqb err e_timeout | _ => false end.

Definition plain (o : list out) : Prop := forall m, In m o -> is_intr m = false /\ is_tmo m = false.

Lemma plain_nil : plain [].
Proof. intros m []. Qed.
Lemma plain_app : forall a b, plain a -> plain b -> plain (a ++ b).
Proof. intros a b A B m H. apply in_app_or in H. destruct H; auto. Qed.
Lemma plain_cons : forall m o, is_intr m = false -> is_tmo m = false -> plain o -> plain (m :: o).
Proof. intros m o A B C x [<-|H]; auto. Qed.
Lemma plain_one : forall m, is_intr m = false -> is_tmo m = false -> plain [m].
Proof. intros. apply plain_cons; auto. apply plain_nil. Qed.

(** ** Records and timers only disappear *)
Record evo (d d' : dealer) : Prop := {
  ev_invs : forall k v, cget (d_invs d') k = Some v -> cget (d_invs d) k = Some v;
  ev_timers : forall t v, nget (d_timers d') t = Some v -> nget (d_timers d) t = Some v
}.

Lemma evo_refl : forall d, evo d d.
Proof. intros d; constructor; auto. Qed.
Lemma evo_trans : forall a b c, evo a b -> evo b c -> evo a c.
Proof. intros a b c [A1 A2] [B1 B2]. constructor; auto. Qed.
Lemma evo_same : forall d d', d_invs d' = d_invs d -> d_timers d' = d_timers d -> evo d d'.
Proof. intros d d' E1 E2. constructor; intros *; rewrite ?E1, ?E2; auto. Qed.

Lemma evo_cancel_timer : forall d t, evo d (cancel_timer d t).
Proof.
  intros d t. constructor.
  - intros k v. now rewrite ct_invs.
  - intros t' v. rewrite ct_timers. destruct t as [t0|]; [|auto]. destruct (N.eqb t' t0); [discriminate|auto].
Qed.

(** a record is altered and then erased *)
Lemma evo_drop_at : forall d X cid k,
    (forall k', k' <> k -> cget (d_invs X) k' = cget (d_invs d) k') ->
    (forall t v, nget (d_timers X) t = Some v -> nget (d_timers d) t = Some v) ->
    evo d (drop_call X cid k).
Proof.
  intros d X cid k Hi Ht. constructor.
  - intros k' v. rewrite dc_invs, cget_cdel. destruct (pair_eqb_spec k' k) as [->|Hn]; [discriminate|].
    now rewrite Hi.
  - intros t v. change (d_timers (drop_call X cid k)) with (d_timers X). apply Ht.
Qed.

Lemma evo_drop : forall d cid k, evo d (drop_call d cid k).
Proof. intros. apply evo_drop_at; auto. Qed.

Lemma cs_timers_sub : forall d k inv t v,
    nget (d_timers (cancel_state d k inv)) t = Some v -> nget (d_timers d) t = Some v.
Proof.
  intros d k inv t v. unfold cancel_state. dproj. apply (ev_timers _ _ (evo_cancel_timer d (inv_timer inv))).
Qed.

Lemma evo_cancel_drop : forall d cid k inv, evo d (drop_call (cancel_state d k inv) cid k).
Proof.
  intros. apply evo_drop_at.
  - intros k' Hn. now rewrite cs_invs, cget_cset_other.
  - apply cs_timers_sub.
Qed.

(** error URIs that are not wamp.error.timeout *)
Lemma tmo_canceled : forall x q det a kw, is_tmo (x, RError c_CALL q det e_canceled a kw) = false.
Proof. reflexivity. Qed.

(** ** REGISTER / UNREGISTER *)
Lemma register_13 : forall cfg d callee req opts proc,
    evo d (fst (fst (register cfg d callee req opts proc))) /\ plain (snd (fst (register cfg d callee req opts proc))).
Proof.
  intros. unfold register.
  destruct (negb (valid_uri _ _ _)); [split; [apply evo_refl|now apply plain_one]|].
  destruct (str_prefix_wamp proc && _); [split; [apply evo_refl|now apply plain_one]|].
  destruct (negb (c_disclose cfg) && _ && _); [split; [apply evo_refl|now apply plain_one]|].
  destruct (match sget _ _ with Some id => nget (d_regs d) id | None => None end) as [rg|].
  - destruct (negb (shared_policy _) || _ || _); cbn [fst snd];
      (split; [apply evo_same; reflexivity|now apply plain_one]).
  - cbn [fst snd]. split; [|now apply plain_one].
    apply evo_same; destruct (mkind_of (opt_string opts "match")); reflexivity.
Qed.

Lemma del_callee_reg_13 : forall d sid id,
    d_invs (fst (del_callee_reg d sid id)) = d_invs d /\ d_timers (fst (del_callee_reg d sid id)) = d_timers d.
Proof.
  intros d sid id. unfold del_callee_reg.
  destruct (nget (d_regs d) id) as [rg|]; [|auto].
  destruct (negb (nmem sid (reg_callees rg))); [auto|].
  destruct (nremove1 sid (reg_callees rg)); [|auto].
  destruct (mkind_of (reg_match rg)); auto.
Qed.

Lemma unregister_13 : forall d sid req regid,
    evo d (fst (fst (unregister d sid req regid))) /\ plain (snd (fst (unregister d sid req regid))).
Proof.
  intros d sid req regid. unfold unregister.
  destruct (del_callee_reg_13 (d_set_callee_regs d (callee_del_reg (d_callee_regs d) sid regid)) sid regid) as [E1 E2].
  destruct (del_callee_reg _ sid regid) as [d1 [b|]]; cbn [fst snd] in *.
  - split; [apply evo_same; assumption|now apply plain_one].
  - split; [apply evo_same; reflexivity|now apply plain_one].
Qed.

(** ** CANCEL *)
(** the recorded call of an invocation record *)
Lemma record_pending : forall d k inv, calls_core d -> cget (d_invs d) k = Some inv ->
    pending d (inv_call inv) k inv (fst (inv_call inv)).
Proof.
  intros d k inv W Hi. destruct (cw_inv _ W _ _ Hi) as (Hb & _).
  pose proof (cw_bycall_call _ W _ _ Hb) as Hc.
  destruct (cget (d_calls d) (inv_call inv)) as [x|] eqn:Ec; [|congruence].
  destruct (cw_call _ W _ _ Ec) as (-> & _). unfold pending. auto.
Qed.

Lemma pending_record : forall d cid k inv x, calls_core d -> pending d cid k inv x -> inv_call inv = cid.
Proof.
  intros d cid k inv x W (_ & Hb & Hi). destruct (cw_bycall _ W _ _ Hb) as (i0 & Hi0 & Hc). congruence.
Qed.

Definition cancel_mode (copts : dict) : string :=
  if String.eqb (opt_string copts "mode") "" then "killnowait" else opt_string copts "mode".

(** every case of CANCEL: nothing happens; the call is erased (with an
    INTERRUPT in mode killnowait towards a callee that can be interrupted);
    or — kill mode, the callee can be interrupted — the record is marked *)
Lemma cancel_13 : forall lk d x q copts, calls_core d ->
    let d' := fst (cancel lk d x q copts) in
    let o := snd (cancel lk d x q copts) in
    (evo d d' /\ (forall m, In m o -> is_tmo m = false) /\
     (forall m, In m o -> is_intr m = true ->
        exists k inv, cget (d_invs d) k = Some inv /\ inv_call inv = (x, q) /\ inv_canceled inv = false /\
                      callee_can_cancel lk inv = true /\ cancel_mode copts = "killnowait" /\
                      m = interrupt_msg k inv e_canceled "killnowait" /\ cget (d_invs d') k = None)) \/
    (exists k inv, cget (d_invs d) k = Some inv /\ inv_call inv = (x, q) /\ inv_canceled inv = false /\
                   callee_can_cancel lk inv = true /\ opt_string copts "mode" = "kill" /\
                   d' = cancel_state d k inv /\ o = [interrupt_msg k inv e_canceled "kill"]).
Proof.
  intros lk d x q copts W d' o. subst d' o.
  assert (Bad : forall m : out, snd m = RError c_CANCEL q [] e_invalid_argument [vstr "<text>"] [] ->
                                is_tmo m = false /\ is_intr m = false).
  { intros [y m] E. cbn [snd] in E. subst m. split; reflexivity. }
  assert (G : forall mode, (mode = "killnowait" \/ mode = "kill" \/ mode = "skip") ->
              (mode = "kill" -> opt_string copts "mode" = "kill") ->
              (mode = "killnowait" -> cancel_mode copts = "killnowait") ->
              let r := sync_cancel lk d x q mode e_canceled [] in
              (evo d (fst r) /\ (forall m, In m (snd r) -> is_tmo m = false) /\
               (forall m, In m (snd r) -> is_intr m = true ->
                  exists k inv, cget (d_invs d) k = Some inv /\ inv_call inv = (x, q) /\ inv_canceled inv = false /\
                                callee_can_cancel lk inv = true /\ cancel_mode copts = "killnowait" /\
                                m = interrupt_msg k inv e_canceled "killnowait" /\ cget (d_invs (fst r)) k = None)) \/
              (exists k inv, cget (d_invs d) k = Some inv /\ inv_call inv = (x, q) /\ inv_canceled inv = false /\
                             callee_can_cancel lk inv = true /\ opt_string copts "mode" = "kill" /\
                             fst r = cancel_state d k inv /\ snd r = [interrupt_msg k inv e_canceled "kill"])).
  { intros mode Hm Hk Hn r. subst r.
    destruct (sync_cancel_cases lk d x q mode e_canceled []) as [E|(k & inv & x0 & Hp & Hc)].
    - left. rewrite E. cbn [fst snd]. split; [apply evo_refl|]. split; intros m [].
    - pose proof (pending_record _ _ _ _ _ W Hp) as Ecid. pose proof Hp as (_ & _ & Hi).
      rewrite (sync_cancel_live _ _ _ _ _ _ _ _ _ _ Hp Hc).
      assert (Q1 : ("killnowait" =? "skip")%string = false) by reflexivity.
      assert (Q2 : ("killnowait" =? "kill")%string = false) by reflexivity.
      assert (Q3 : ("kill" =? "skip")%string = false) by reflexivity.
      assert (Q4 : ("kill" =? "kill")%string = true) by reflexivity.
      assert (Q5 : ("skip" =? "skip")%string = true) by reflexivity.
      assert (Q6 : ("skip" =? "kill")%string = false) by reflexivity.
      destruct (callee_can_cancel lk inv) eqn:Hcan; destruct Hm as [-> | [-> | ->]];
        rewrite ?Q1, ?Q2, ?Q3, ?Q4, ?Q5, ?Q6; cbn [negb andb fst snd app].
      + left. split; [apply evo_cancel_drop|]. split.
        * intros m [<-|[<-|[]]]; reflexivity.
        * intros m [<-|[<-|[]]] Hm; [|discriminate Hm]. exists k, inv. repeat split; auto.
          rewrite dc_invs. apply cget_cdel_same.
      + right. exists k, inv. repeat split; auto.
      + left. split; [apply evo_cancel_drop|]. split.
        * intros m [<-|[]]; reflexivity.
        * intros m [<-|[]] Hm; discriminate Hm.
      + left. split; [apply evo_cancel_drop|]. split.
        * intros m [<-|[]]; reflexivity.
        * intros m [<-|[]] Hm; discriminate Hm.
      + left. split; [apply evo_cancel_drop|]. split.
        * intros m [<-|[]]; reflexivity.
        * intros m [<-|[]] Hm; discriminate Hm.
      + left. split; [apply evo_cancel_drop|]. split.
        * intros m [<-|[]]; reflexivity.
        * intros m [<-|[]] Hm; discriminate Hm. }
  unfold cancel. set (mode := opt_string copts "mode") in *.
  destruct (String.eqb_spec mode "killnowait") as [E1|N1]; cbn [orb].
  { apply G; [rewrite E1; auto|rewrite E1; discriminate|]. intros _. unfold cancel_mode. fold mode. rewrite E1. reflexivity. }
  destruct (String.eqb_spec mode "kill") as [E2|N2]; cbn [orb].
  { apply G; [rewrite E2; auto|auto|]. rewrite E2. discriminate. }
  destruct (String.eqb_spec mode "skip") as [E3|N3]; cbn [orb].
  { apply G; [rewrite E3; auto|rewrite E3; discriminate|rewrite E3; discriminate]. }
  destruct (String.eqb_spec mode "") as [E4|N4].
  { apply G; [auto|discriminate|]. intros _. unfold cancel_mode. fold mode. rewrite E4. reflexivity. }
  left. cbn [fst snd]. split; [apply evo_refl|]. split.
  - intros m [<-|[]]. reflexivity.
  - intros m [<-|[]] Hm. discriminate Hm.
Qed.

(** after a kill-mode CANCEL of ([x], [q]) the record of that call, if any, is marked *)
Lemma cancel_kill_marks : forall lk d x q copts k inv', calls_core d ->
    opt_string copts "mode" = "kill" ->
    cget (d_invs (fst (cancel lk d x q copts))) k = Some inv' -> inv_call inv' = (x, q) ->
    inv_canceled inv' = true.
Proof.
  intros lk d x q copts k inv' W Hm. rewrite cancel_valid_mode by (rewrite Hm; auto). rewrite Hm.
  destruct (sync_cancel_cases lk d x q "kill" e_canceled []) as [E|(k0 & inv & x0 & Hp & Hc)].
  - rewrite E. cbn [fst]. intros Hi Ec. destruct (inv_canceled inv') eqn:Hcan; [reflexivity|exfalso].
    pose proof (record_pending d k inv' W Hi) as Hp. rewrite Ec in Hp.
    rewrite (sync_cancel_live _ _ _ _ "kill" e_canceled [] _ _ _ Hp Hcan) in E.
    destruct (negb _ && _ && _); inversion E.
    match goal with H : _ ++ [_] = [] |- _ => apply app_eq_nil in H; destruct H as [_ H]; discriminate H end.
  - pose proof (pending_record _ _ _ _ _ W Hp) as Ecid. pose proof Hp as (_ & Hb & Hi0).
    rewrite (sync_cancel_live _ _ _ _ _ _ _ _ _ _ Hp Hc).
    destruct (negb _ && _ && _); cbn [fst].
    + rewrite cs_invs, cget_cset. destruct (pair_eqb_spec k k0) as [->|Hn].
      * intros E; inversion E; subst inv'. reflexivity.
      * intros Hi Ec. exfalso. destruct (cw_inv _ W _ _ Hi) as (Hb' & _). rewrite Ec in Hb'. congruence.
    + rewrite dc_invs, cs_invs, cget_cdel, cget_cset. destruct (pair_eqb_spec k k0) as [->|Hn]; [discriminate|].
      intros Hi Ec. exfalso. destruct (cw_inv _ W _ _ Hi) as (Hb' & _). rewrite Ec in Hb'. congruence.
Qed.

(** ** YIELD *)
Lemma yield_out_plain13 : forall lk callee req opts args kw cid x, plain (yield_out lk callee req opts args kw cid x).
Proof.
  intros. unfold yield_out, ppt_caller_err.
  destruct (opt_bool opts "progress"); destruct (ppt_active opts);
    destruct (has_ppt lk callee "callee"); destruct (has_ppt lk x "caller"); cbn [negb app];
    intros m H; repeat (destruct H as [<-|H]); try destruct H; split; reflexivity.
Qed.

Lemma sync_yield_13 : forall lk d y i yopts a kw,
    let d' := fst (sync_yield lk d y i yopts a kw) in
    let o := snd (sync_yield lk d y i yopts a kw) in
    evo d d' /\ (forall m, In m o -> is_tmo m = false) /\
    (forall m, In m o -> is_intr m = true ->
       opt_bool yopts "progress" = true /\ cget (d_invs d) (y, i) = None /\
       m = (y, RInterrupt i [("mode", vstr "killnowait")])) /\
    (opt_bool yopts "progress" = false -> cget (d_invs d') (y, i) = None).
Proof.
  intros lk d y i yopts a kw d' o. subst d' o.
  destruct (cget (d_invs d) (y, i)) as [inv|] eqn:Hi.
  - rewrite (sync_yield_owner _ _ _ _ _ _ _ _ Hi). cbn [fst snd].
    assert (P : plain (match cget (d_calls d) (inv_call inv) with
                       | Some caller => yield_out lk y i yopts a kw (inv_call inv) caller | None => [] end)).
    { destruct (cget (d_calls d) (inv_call inv)); [apply yield_out_plain13|apply plain_nil]. }
    split; [|split; [intros m Hm; apply P; exact Hm|split]].
    + unfold yield_result_state. destruct (opt_bool yopts "progress"); [apply evo_refl|].
      apply evo_drop_at.
      * intros k' Hn. now rewrite ys_invs, cget_cset_other.
      * unfold yield_state. dproj. apply (ev_timers _ _ (evo_cancel_timer d (inv_timer inv))).
    + intros m Hm Hint. destruct (P m Hm) as [X _]. congruence.
    + intros Hp. unfold yield_result_state. rewrite Hp, dc_invs. apply cget_cdel_same.
  - rewrite sync_yield_unknown by exact Hi. cbn [fst snd].
    split; [apply evo_refl|]. split; [|split; [|auto]].
    + intros m Hm. destruct (opt_bool yopts "progress"); [|destruct Hm]. destruct Hm as [<-|[]]. reflexivity.
    + intros m Hm _. destruct (opt_bool yopts "progress"); [|destruct Hm]. destruct Hm as [<-|[]]. auto.
Qed.

(** ** ERROR (INVOCATION) *)
Lemma sync_error_13 : forall d y i det err a kw,
    let d' := fst (sync_error d y i det err a kw) in
    let o := snd (sync_error d y i det err a kw) in
    evo d d' /\ (forall m, In m o -> is_intr m = false) /\
    (forall m, In m o -> exists x q, m = (x, RError c_CALL q det err a kw)) /\
    cget (d_invs d') (y, i) = None.
Proof.
  intros d y i det err a kw d' o. subst d' o.
  destruct (cget (d_invs d) (y, i)) as [inv|] eqn:Hi.
  - rewrite (sync_error_owner _ _ _ _ _ _ _ _ Hi).
    assert (E : evo d (error_state d (y, i) inv)).
    { constructor.
      - intros k v. rewrite es_invs, cget_cdel. destruct (pair_eqb k (y, i)); [discriminate|auto].
      - intros t v. unfold error_state. dproj. apply (ev_timers _ _ (evo_cancel_timer d (inv_timer inv))). }
    destruct (cget (d_calls d) (inv_call inv)) as [x|]; cbn [fst snd].
    + split; [|split; [|split]].
      * constructor; [apply (ev_invs _ _ E)|apply (ev_timers _ _ E)].
      * intros m [<-|[]]. reflexivity.
      * intros m [<-|[]]. eauto.
      * cbn [d_invs d_set_calls]. rewrite es_invs. apply cget_cdel_same.
    + split; [exact E|]. split; [intros m []|]. split; [intros m []|]. rewrite es_invs. apply cget_cdel_same.
  - rewrite sync_error_unknown by exact Hi. cbn [fst snd].
    split; [apply evo_refl|]. split; [intros m []|]. split; [intros m []|exact Hi].
Qed.

(** ** A session leaves *)
Lemma sd_timers_sub : forall d k inv t v,
    nget (d_timers (served_drop d k inv)) t = Some v -> nget (d_timers d) t = Some v.
Proof.
  intros d k inv t v. unfold served_drop. change (d_timers (drop_call ?x ?c ?kk)) with (d_timers x).
  intros H. apply cs_timers_sub in H. unfold served_d2 in H. dproj_in H.
  apply (ev_timers _ _ (evo_cancel_timer d (inv_timer inv))). exact H.
Qed.

Lemma cs_fold_timers : forall lk sid l d o, calls_core d ->
    forall t v, nget (d_timers (fst (fold_left (cancel_served lk sid) l (d, o)))) t = Some v -> nget (d_timers d) t = Some v.
Proof.
  intros lk sid. induction l as [|[k e] l IH]; intros d o W t v; cbn [fold_left]; [auto|].
  destruct (cancel_served_cases lk sid d o k e W) as [[E _]|(inv & Hi & Hs & Hp & E)]; rewrite E.
  - apply IH. exact W.
  - intros H. apply (sd_timers_sub d k inv). eapply IH; [|exact H]. eapply sd_core; eauto.
Qed.

Lemma own_fold_timers : forall sid l d, calls_core d ->
    forall t v, nget (d_timers (fold_left (drop_own_call sid) l d)) t = Some v -> nget (d_timers d) t = Some v.
Proof.
  intros sid. induction l as [|[c x0] l IH]; intros d W t v; cbn [fold_left]; [auto|].
  destruct (drop_own_cases sid d c x0 W) as [[E _]|(_ & k & inv & Hb & Hi & E)]; rewrite E.
  - apply IH. exact W.
  - destruct (own_drop_props d c k inv W Hb Hi) as (W1 & _ & _). intros H.
    apply (ev_timers _ _ (evo_cancel_timer d (inv_timer inv))).
    change (d_timers (cancel_timer d (inv_timer inv))) with (d_timers (drop_call (cancel_timer d (inv_timer inv)) c k)).
    eapply IH; [exact W1|exact H].
Qed.

Lemma gone_msg_plain : forall cid, is_intr (gone_msg cid) = false /\ is_tmo (gone_msg cid) = false.
Proof. intros cid. split; reflexivity. Qed.

Lemma dealer_remove_session_13 : forall lookup lk d sid, dealer_wf lookup d ->
    evo d (fst (fst (dealer_remove_session lk d sid))) /\ plain (snd (fst (dealer_remove_session lk d sid))).
Proof.
  intros lookup lk d sid WF. split.
  - rewrite (drs_fst lk d sid).
    destruct (drs_d2 lookup lookup d sid WF (fun _ _ => eq_refl)) as (_ & _ & _ & _ & (E1 & E2 & E3 & E4 & E5) & _).
    destruct (drs_phase1 lookup lookup lk d sid WF (fun _ _ => eq_refl)) as (W3 & S3 & _).
    destruct (drs_phase2 lookup lookup lk d sid WF (fun _ _ => eq_refl)) as (W4 & S4 & _).
    pose proof (drs_core2 lookup lookup d sid WF (fun _ _ => eq_refl)) as W2.
    constructor.
    + intros k v H. rewrite <- E2. apply (sh_invs _ _ S3). apply (sh_invs _ _ S4). exact H.
    + intros t v H. rewrite <- E4. eapply (cs_fold_timers lk sid); [exact W2|].
      eapply own_fold_timers; [exact W3|exact H].
  - intros m Hm. destruct (remove_session_outputs_proof lookup lookup lk d sid WF (fun _ _ => eq_refl) m Hm)
      as (k & inv & _ & _ & _ & ->). apply gone_msg_plain.
Qed.

(** ** Timers expire *)
Lemma fire_fold_evo : forall lk l d o, calls_core d ->
    evo d (fst (fold_left (fire_step lk) l (d, o))).
Proof.
  intros lk. induction l as [|e l IH]; intros d o W; cbn [fold_left]; [apply evo_refl|].
  destruct (fire_step_mono lk d o e W) as (W1 & S1 & _ & T1).
  destruct (fire_step lk (d, o) e) as [d1 o1]. cbn [fst snd] in *.
  eapply evo_trans; [|apply IH; exact W1]. constructor; [apply (sh_invs _ _ S1)|exact T1].
Qed.

Lemma fire_timers_evo : forall lk now d, calls_core d -> evo d (fst (fire_timers lk now d)).
Proof. intros. rewrite fire_timers_fold. now apply fire_fold_evo. Qed.

Lemma fire_fold_removes : forall lk (l : list (N * (N * callid))) d o tid v, calls_core d -> In (tid, v) l ->
    nget (d_timers (fst (fold_left (fire_step lk) l (d, o)))) tid = None.
Proof.
  intros lk. induction l as [|[t_h [dl_h cid_h]] l IH]; intros d o tid v W Hin; [destruct Hin|].
  cbn [fold_left].
  destruct (fire_step_mono lk d o (t_h, (dl_h, cid_h)) W) as (W1 & _ & _ & _).
  destruct (N.eq_dec t_h tid) as [->|Hne].
  - assert (Hn : nget (d_timers (fst (fire_step lk (d, o) (tid, (dl_h, cid_h))))) tid = None).
    { destruct (fire_step_cases lk d o tid dl_h cid_h) as [[Ha E]|[(_ & E & _)|(_ & k & inv & x & _ & _ & E)]];
        rewrite E; cbn [fst].
      - unfold amem in Ha. fold (nget (d_timers d) tid) in Ha. destruct (nget (d_timers d) tid); [discriminate|reflexivity].
      - rewrite ct_timers, N.eqb_refl. reflexivity.
      - destruct (nget (d_timers (drop_call (cancel_state (cancel_timer d (Some tid)) k inv) cid_h k)) tid) as [v'|] eqn:Ev;
          [|reflexivity].
        apply timers_sub_cancel_drop in Ev. rewrite ct_timers, N.eqb_refl in Ev. discriminate. }
    destruct (fire_step lk (d, o) (tid, (dl_h, cid_h))) as [d1 o1]. cbn [fst] in *.
    destruct (nget (d_timers (fst (fold_left (fire_step lk) l (d1, o1)))) tid) as [v'|] eqn:Ev; [|reflexivity].
    apply (ev_timers _ _ (fire_fold_evo lk l d1 o1 W1)) in Ev. congruence.
  - destruct Hin as [E|Hin]; [inversion E; congruence|].
    destruct (fire_step lk (d, o) (t_h, (dl_h, cid_h))) as [d1 o1]. cbn [fst] in *.
    eapply IH; eauto.
Qed.

(** after the timers have fired none that is due remains *)
Lemma fire_timers_clears : forall lk now d t dl c, calls_core d ->
    nget (d_timers (fst (fire_timers lk now d))) t = Some (dl, c) -> now < dl.
Proof.
  intros lk now d t dl c W H.
  pose proof (ev_timers _ _ (fire_timers_evo lk now d W) _ _ H) as H0.
  destruct (N.ltb_spec now dl) as [Hlt|Hle]; [exact Hlt|exfalso].
  rewrite fire_timers_fold in H.
  rewrite (fire_fold_removes lk _ d [] t (dl, c) W) in H; [discriminate|].
  apply (proj2 (In_sort_timers _ _)). apply (proj2 (filter_In _ _ _)). split.
  - eapply aget_In; [apply N.eqb_spec|exact H0].
  - apply N.leb_le. exact Hle.
Qed.

(** ** CALL *)
Lemma no_proc_msg_plain : forall x q, is_intr (no_proc_msg x q) = false /\ is_tmo (no_proc_msg x q) = false.
Proof. intros. split; reflexivity. Qed.

Lemma nps_evo : forall d cid, evo d (no_proc_state d cid).
Proof.
  intros d cid. unfold no_proc_state. destruct (cget (d_bycall d) cid) as [k|]; [|apply evo_refl].
  destruct (cget (d_invs d) k) as [inv|]; [|apply evo_drop].
  apply evo_drop_at.
  - intros k' _. now rewrite ct_invs.
  - apply (ev_timers _ _ (evo_cancel_timer d (inv_timer inv))).
Qed.

(** what a routed CALL does: a new record (first chunk), or a new timer for
    the record of the pending call (further chunk) *)
Definition call_first13 (now : N) (d d' : dealer) (cid k : callid) (opts det : dict) : Prop :=
  cget (d_invs d) k = None /\ cget (d_bycall d) cid = None /\
  exists inv', d_invs d' = cset (d_invs d) k inv' /\ inv_call inv' = cid /\ inv_canceled inv' = false /\
    inv_opts inv' = opts /\
    ((inv_timer inv' = None /\ d_timers d' = d_timers d /\
      ((opt_int64 opts "timeout" <= 0)%Z \/ dget det "timeout" <> None)) \/
     (exists t, inv_timer inv' = Some t /\ nget (d_timers d) t = None /\
                d_timers d' = nset (d_timers d) t (now + Z.to_N (opt_int64 opts "timeout"), cid) /\
                (0 < opt_int64 opts "timeout")%Z /\ dget det "timeout" = None)).

Definition call_chunk13 (now : N) (d d' : dealer) (cid k : callid) : Prop :=
  exists inv inv', cget (d_invs d) k = Some inv /\ inv_call inv = cid /\
    d_invs d' = cset (d_invs d) k inv' /\ inv_call inv' = cid /\ inv_canceled inv' = inv_canceled inv /\
    inv_opts inv' = inv_opts inv /\
    ((inv_timer inv' = inv_timer inv /\ d_timers d' = d_timers d) \/
     (exists t, inv_timer inv' = Some t /\ (0 < opt_int64 (inv_opts inv) "timeout")%Z /\
        forall t' v, nget (d_timers d') t' = Some v ->
          (t' = t /\ v = (now + Z.to_N (opt_int64 (inv_opts inv) "timeout"), cid)) \/
          (t' <> t /\ nget (d_timers d) t' = Some v))).

Lemma call_13 : forall cfg lk now d caller q opts proc a kw orc,
    dealer_wf lk d -> lookup_ok lk -> nowrap lk ->
    match call cfg lk now d caller q opts proc a kw orc with
    | CallRefused d' o => evo d d' /\ plain o
    | CallAbort o => plain o
    | CallInvoked d' callee' o =>
        exists y i rid det, o = [(y, RInvocation i rid det a kw)] /\ s_id callee' = y /\
          (call_first13 now d d' (s_id caller, q) (y, i) opts det \/ call_chunk13 now d d' (s_id caller, q) (y, i))
    end.
Proof.
  intros cfg lk now d caller q opts proc a kw orc WF LOK NW. pose proof (wf_calls _ _ WF) as W.
  assert (Hsame : forall d' m, d_invs d' = d_invs d -> d_timers d' = d_timers d -> is_intr m = false -> is_tmo m = false ->
                               evo d d' /\ plain [m]).
  { intros d' m E1 E2 A B. split; [now apply evo_same|now apply plain_one]. }
  pose proof (call_cases cfg lk now d caller q opts proc a kw orc) as C.
  inversion C as [Hm E|r Hm Hc E|r Hm Hc Ha E|r ikey Hm Hc Ha Hb Hi E|r ikey inv Hm Hc Ha Hb Hi Hl E
                  |r ikey inv callee Hm Hc Ha Hb Hi Hl E|r Hm Hc Ha Hb Hs E|r cid0 next Hm Hc Ha Hb Hs Hl E
                  |r cid0 next callee Hm Hc Ha Hb Hs Hl Hf E
                  |r cid0 next callee Hm Hc Ha Hb Hs Hl Hf Hpa E|r cid0 next callee Hm Hc Ha Hb Hs Hl Hf Hpa Hpr E
                  |r cid0 next callee Hm Hc Ha Hb Hs Hl Hf Hpa Hpr Hd E
                  |r cid0 next callee Hm Hc Ha Hb Hs Hl Hf Hpa Hpr Hd E].
  - split; [apply nps_evo|]. apply plain_one; apply no_proc_msg_plain.
  - split; [apply nps_evo|]. apply plain_one; apply no_proc_msg_plain.
  - now apply plain_one.
  - split; [apply evo_refl|apply plain_nil].
  - split; [apply evo_refl|apply plain_nil].
  - (* further chunk *)
    destruct (cw_inv _ W _ _ Hi) as (Hbi & Hfst). pose proof (LOK _ _ Hl) as Hid.
    assert (Ecid : inv_call inv = (s_id caller, q)).
    { destruct (cw_bycall _ W _ _ Hb) as (i0 & Hi0 & Hc0). congruence. }
    assert (Ek : (s_id callee, snd ikey) = ikey) by (rewrite Hid, Hfst; destruct ikey; reflexivity).
    exists (s_id callee), (snd ikey), (reg_id r), [("progress", VBool (opt_bool opts "progress"))].
    split; [reflexivity|]. split; [reflexivity|]. right. rewrite Ek.
    set (lt := local_timer (opt_int64 (inv_opts inv) "timeout") callee (inv_callee inv) r).
    exists inv, (if lt then inv_set_timer (inv_set_inprogress inv (opt_bool opts "progress")) (Some (d_timergen d + 1))
                 else inv_set_inprogress inv (opt_bool opts "progress")).
    split; [exact Hi|]. split; [exact Ecid|]. split; [apply chs_invs|].
    split; [destruct lt; exact Ecid|]. split; [destruct lt; reflexivity|]. split; [destruct lt; reflexivity|].
    rewrite chs_timers. fold lt. destruct lt eqn:Hlt.
    + right. exists (d_timergen d + 1). split; [reflexivity|]. split.
      { unfold lt, local_timer in Hlt. apply andb_true_iff in Hlt. destruct Hlt as [Hlt _]. lia. }
      intros t' v. rewrite nget_nset. destruct (N.eqb_spec t' (d_timergen d + 1)) as [->|Hn].
      * intros X; inversion X. left. auto.
      * intros X. right. split; [exact Hn|]. apply (ev_timers _ _ (evo_cancel_timer d (inv_timer inv))). exact X.
    + left. split; reflexivity.
  - apply Hsame; reflexivity.
  - apply Hsame; reflexivity.
  - apply Hsame; reflexivity.
  - now apply plain_one.
  - apply Hsame; reflexivity.
  - apply Hsame; reflexivity.
  - (* first chunk *)
    pose proof (LOK _ _ Hl) as Hid.
    assert (Hnw : idgen_next (s_invgen callee) = s_invgen callee + 1) by (apply idgen_next_nowrap; eapply NW; eauto).
    assert (Hfresh : cget (d_invs d) (cid0, idgen_next (s_invgen callee)) = None).
    { destruct (cget (d_invs d) (cid0, idgen_next (s_invgen callee))) as [i0|] eqn:Hi0; [|reflexivity]. exfalso.
      destruct (ca_inv _ _ (wf_calls_att _ _ WF) _ _ Hi0) as (s0 & Hs0 & Hle). cbn [fst snd] in *.
      rewrite Hl in Hs0. inversion Hs0; subst s0. lia. }
    exists cid0, (idgen_next (s_invgen callee)), (reg_id r), (call_details cfg caller callee cid0 r opts proc).
    split; [reflexivity|]. split; [cbn [set_invgen s_id]; exact Hid|]. left.
    split; [exact Hfresh|]. split; [exact Hb|].
    exists (first_inv d (s_id caller, q) cid0 callee r opts).
    split; [apply cfs_invs|]. split; [reflexivity|]. split; [reflexivity|]. split; [reflexivity|].
    rewrite cfs_timers. unfold first_inv. cbn [inv_timer].
    destruct (local_timer (opt_int64 opts "timeout") callee cid0 r) eqn:Hlt.
    + right. exists (d_timergen d + 1). split; [reflexivity|]. split.
      { destruct (nget (d_timers d) (d_timergen d + 1)) as [[dl c]|] eqn:Ht; [|reflexivity]. exfalso.
        destruct (cw_timer _ W _ _ _ Ht) as (Hle & _). lia. }
      split; [reflexivity|]. unfold local_timer in Hlt. apply andb_true_iff in Hlt. destruct Hlt as [Hpos Hnf].
      split; [lia|].
      destruct (call_details_spec cfg caller callee cid0 r opts proc) as (_ & _ & _ & D4 & _). rewrite D4.
      apply negb_true_iff in Hnf. rewrite Hnf, andb_false_r. reflexivity.
    + left. split; [reflexivity|]. split; [reflexivity|].
      destruct (call_details_spec cfg caller callee cid0 r opts proc) as (_ & _ & _ & D4 & _).
      unfold local_timer in Hlt. destruct (Z.ltb_spec 0 (opt_int64 opts "timeout")) as [Hpos|Hnp]; [|left; lia].
      right. cbn [andb] in Hlt. apply negb_false_iff in Hlt. rewrite D4, Hlt.
      destruct (Z.ltb_spec 0 (opt_int64 opts "timeout")); [cbn [andb]; discriminate|lia].
Qed.
