(** * Histories of the whole model, part 5 (C03): what one [step] does to the
    INVOCATIONs it sends, to the set of pending invocation keys, to the
    membership of registrations and to the sessions' invocation id generators.

    Dealer level ([dq]): every dealer function except [call] sends no
    INVOCATION, creates no invocation key, and (REGISTER excepted) adds no
    callee to any registration.  Realm level ([step_inv_facts]): a step either
    is "quiet" in that sense, or it is a CALL routed to a client callee, whose
    whole output is the one INVOCATION — with a fresh id (the callee's
    generator + 1, the callee being a member of the registration named) or
    repeating the id of a pending invocation of that callee (a further chunk). *)
From Nexus Require Import Router.Realm Router.AssocLemmas Router.RealmLib Router.RealmProofs
     Router.RealmMetaProofs Router.RealmLeave.
From Nexus Require Import Router.DealerLib Router.DealerProofs Router.DealerReg Router.DealerCall Router.DealerWf
     Router.DealerWfCalls Router.DealerWfRegs Router.DealerRemove Router.DealerReply Router.DealerTimers
     Router.DealerOwned.
From Nexus Require Import Router.RealmWf Router.RealmStep Router.RealmC05 Router.RealmOutputs.
From Nexus Require Import Router.RealmTraceLib Router.RealmTrace Router.RealmTraceC05.
From Coq Require Import Lia ZifyN ZifyNat ZifyBool.

(** ** Vocabulary *)
Definition is_inv (m : out) : bool :=
  match snd m with RInvocation _ _ _ _ _ => true | _ => false end.
Definition noinv (o : list out) : Prop := forall m, In m o -> is_inv m = false.

Definition ikeys_sub (d d' : dealer) : Prop :=
  forall k, cget (d_invs d') k <> None -> cget (d_invs d) k <> None.

(** no registration gains a callee *)
Definition callees_le (d d' : dealer) : Prop :=
  forall rid rg' y, nget (d_regs d') rid = Some rg' -> In y (reg_callees rg') ->
    exists rg, nget (d_regs d) rid = Some rg /\ In y (reg_callees rg).

Definition not_callee (y rid : N) (d : dealer) : Prop :=
  forall rg, nget (d_regs d) rid = Some rg -> ~ In y (reg_callees rg).

Lemma noinv_nil : noinv [].
Proof. intros m []. Qed.
Lemma noinv_app : forall a b, noinv a -> noinv b -> noinv (a ++ b).
Proof. intros a b A B m H. apply in_app_or in H. destruct H; auto. Qed.
Lemma noinv_cons : forall m o, is_inv m = false -> noinv o -> noinv (m :: o).
Proof. intros m o A B x [<-|H]; auto. Qed.
Lemma noinv_one : forall m, is_inv m = false -> noinv [m].
Proof. intros. apply noinv_cons; [assumption|apply noinv_nil]. Qed.
Lemma allb_noinv : forall o, allb o -> noinv o.
Proof. intros o H [x m] Hin. specialize (H _ Hin). unfold bmsg, is_inv in *. cbn [snd] in *. destruct m; try reflexivity; discriminate. Qed.

Lemma iks_refl : forall d, ikeys_sub d d.
Proof. intros d k H; exact H. Qed.
Lemma iks_trans : forall a b c, ikeys_sub a b -> ikeys_sub b c -> ikeys_sub a c.
Proof. intros a b c A B k H. auto. Qed.
Lemma iks_same : forall d d', d_invs d' = d_invs d -> ikeys_sub d d'.
Proof. intros d d' E k. now rewrite E. Qed.
Lemma iks_cset : forall d d' k v, d_invs d' = cset (d_invs d) k v -> cget (d_invs d) k <> None -> ikeys_sub d d'.
Proof.
  intros d d' k v E Hk k'. rewrite E, cget_cset. destruct (pair_eqb_spec k' k) as [->|]; auto.
Qed.
Lemma iks_cdel : forall d d' k, d_invs d' = cdel (d_invs d) k -> ikeys_sub d d'.
Proof. intros d d' k E k'. rewrite E, cget_cdel. destruct (pair_eqb k' k); [congruence|auto]. Qed.

Lemma cle_refl : forall d, callees_le d d.
Proof. intros d rid rg y H Hin. eauto. Qed.
Lemma cle_trans : forall a b c, callees_le a b -> callees_le b c -> callees_le a c.
Proof.
  intros a b c A B rid rg y H Hin. destruct (B rid rg y H Hin) as (rg1 & H1 & Hin1). eauto.
Qed.
Lemma cle_same : forall d d', d_regs d' = d_regs d -> callees_le d d'.
Proof. intros d d' E rid rg y H Hin. rewrite E in H. eauto. Qed.
Lemma cle_not_callee : forall d d' y rid, callees_le d d' -> not_callee y rid d -> not_callee y rid d'.
Proof.
  intros d d' y rid L N rg H Hin. destruct (L rid rg y H Hin) as (rg0 & H0 & Hin0). exact (N rg0 H0 Hin0).
Qed.

Record dq (d : dealer) (o : list out) (d' : dealer) : Prop := {
  dq_noinv : noinv o;
  dq_keys : ikeys_sub d d';
  dq_callees : callees_le d d'
}.

Lemma dq_refl : forall d, dq d [] d.
Proof. intros d. constructor; [apply noinv_nil|apply iks_refl|apply cle_refl]. Qed.

(** ** The dealer functions *)
Lemma cs_regs d k inv : d_regs (cancel_state d k inv) = d_regs d.
Proof. unfold cancel_state; dproj; apply ct_regs. Qed.

Lemma sync_cancel_dq : forall lk d caller req mode reason ea,
    dq d (snd (sync_cancel lk d caller req mode reason ea)) (fst (sync_cancel lk d caller req mode reason ea)).
Proof.
  intros lk d caller req mode reason ea.
  destruct (sync_cancel_cases lk d caller req mode reason ea) as [E|(ikey & inv & x & Hp & Hc)].
  - rewrite E. apply dq_refl.
  - rewrite (sync_cancel_live _ _ _ _ _ _ _ _ _ _ Hp Hc). destruct Hp as (_ & _ & Hi).
    assert (K1 : ikeys_sub d (cancel_state d ikey inv)).
    { eapply iks_cset; [apply cs_invs|congruence]. }
    destruct (negb (mode =? "skip")%string && callee_can_cancel lk inv && (mode =? "kill")%string); cbn [fst snd].
    + constructor; [now apply noinv_one|exact K1|apply cle_same, cs_regs].
    + constructor.
      * apply noinv_app; [|now apply noinv_one].
        destruct (negb (mode =? "skip")%string && callee_can_cancel lk inv); [now apply noinv_one|apply noinv_nil].
      * eapply iks_trans; [exact K1|]. eapply iks_cdel. apply dc_invs.
      * apply cle_same. rewrite drop_call_regs. apply cs_regs.
Qed.

Lemma cancel_dq : forall lk d caller req opts,
    dq d (snd (cancel lk d caller req opts)) (fst (cancel lk d caller req opts)).
Proof.
  intros. unfold cancel. destruct (_ || _ || _); [apply sync_cancel_dq|].
  destruct (String.eqb _ ""); [apply sync_cancel_dq|].
  cbn [fst snd]. constructor; [now apply noinv_one|apply iks_refl|apply cle_refl].
Qed.

Lemma sync_error_dq : forall d callee req det err args kw,
    dq d (snd (sync_error d callee req det err args kw)) (fst (sync_error d callee req det err args kw)).
Proof.
  intros d callee req det err args kw.
  destruct (sync_error_frame d callee req det err args kw) as (_ & _ & Er).
  constructor; [| |apply cle_same; exact Er].
  - destruct (cget (d_invs d) (callee, req)) as [inv|] eqn:Hi.
    + rewrite (sync_error_owner _ _ _ _ _ _ _ _ Hi). destruct (cget (d_calls d) (inv_call inv)); cbn [snd];
        [now apply noinv_one|apply noinv_nil].
    + rewrite sync_error_unknown by exact Hi. apply noinv_nil.
  - destruct (cget (d_invs d) (callee, req)) as [inv|] eqn:Hi.
    + rewrite (sync_error_owner _ _ _ _ _ _ _ _ Hi). destruct (cget (d_calls d) (inv_call inv)); cbn [fst];
        (eapply iks_cdel; cbn [d_invs d_set_calls]; apply es_invs).
    + rewrite sync_error_unknown by exact Hi. apply iks_refl.
Qed.

Lemma yield_out_noinv : forall lk callee req opts args kw cid x, noinv (yield_out lk callee req opts args kw cid x).
Proof.
  intros. unfold yield_out, ppt_caller_err.
  destruct (opt_bool opts "progress"); destruct (ppt_active opts);
    destruct (has_ppt lk callee "callee"); destruct (has_ppt lk x "caller"); cbn [negb app];
    intros m H; repeat (destruct H as [<-|H]); try destruct H; reflexivity.
Qed.

Lemma ys_regs d k inv : d_regs (yield_state d k inv) = d_regs d.
Proof. unfold yield_state; dproj; apply ct_regs. Qed.

Lemma sync_yield_dq : forall lk d callee req opts args kw,
    dq d (snd (sync_yield lk d callee req opts args kw)) (fst (sync_yield lk d callee req opts args kw)).
Proof.
  intros lk d callee req opts args kw.
  destruct (sync_yield_frame lk d callee req opts args kw) as (_ & _ & Er).
  constructor; [| |apply cle_same; exact Er].
  - destruct (cget (d_invs d) (callee, req)) as [inv|] eqn:Hi.
    + rewrite (sync_yield_owner _ _ _ _ _ _ _ _ Hi). cbn [snd].
      destruct (cget (d_calls d) (inv_call inv)); [apply yield_out_noinv|apply noinv_nil].
    + rewrite sync_yield_unknown by exact Hi. cbn [snd].
      destruct (opt_bool opts "progress"); [now apply noinv_one|apply noinv_nil].
  - destruct (cget (d_invs d) (callee, req)) as [inv|] eqn:Hi.
    + rewrite (sync_yield_owner _ _ _ _ _ _ _ _ Hi). cbn [fst]. unfold yield_result_state.
      destruct (opt_bool opts "progress"); [apply iks_refl|].
      eapply iks_trans; [|eapply iks_cdel; apply dc_invs].
      eapply iks_cset; [apply ys_invs|congruence].
    + rewrite sync_yield_unknown by exact Hi. apply iks_refl.
Qed.

Lemma fire_timers_dq : forall lk now d, dq d (snd (fire_timers lk now d)) (fst (fire_timers lk now d)).
Proof.
  intros lk now d. rewrite fire_timers_fold.
  generalize (sort_timers (filter (fun '((_, (dl, _)) : N * (N * callid)) => dl <=? now) (d_timers d))). intros l.
  assert (G : forall l d0 o, noinv o ->
                noinv (snd (fold_left (fire_step lk) l (d0, o))) /\
                ikeys_sub d0 (fst (fold_left (fire_step lk) l (d0, o))) /\
                callees_le d0 (fst (fold_left (fire_step lk) l (d0, o)))).
  { clear. induction l as [|[tid [dl cid]] l IH]; intros d0 o A; cbn [fold_left].
    - cbn [fst snd]. split; [exact A|]. split; [apply iks_refl|apply cle_refl].
    - unfold fire_step at 2 4 6. destruct (amem N.eqb (d_timers d0) tid); [|apply IH; exact A].
      pose proof (sync_cancel_dq lk (d_set_timers d0 (ndel (d_timers d0) tid) (d_timergen d0)) (fst cid) (snd cid)
                                 "killnowait" e_timeout [vstr "call timeout"]) as [S1 S2 S3].
      destruct (sync_cancel _ _ _ _ _ _ _) as [d2 o2]. cbn [fst snd] in *.
      destruct (IH d2 (o ++ o2)) as (B1 & B2 & B3); [now apply noinv_app|].
      split; [exact B1|]. split.
      + eapply iks_trans; [|exact B2]. exact S2.
      + eapply cle_trans; [|exact B3]. exact S3. }
  destruct (G l d [] noinv_nil) as (A & B & C). constructor; assumption.
Qed.

Lemma register_noinv : forall cfg d callee req opts proc, noinv (snd (fst (register cfg d callee req opts proc))).
Proof.
  intros. pose proof (register_event_order cfg d callee req opts proc) as O.
  destruct (register _ _ _ _ _ _) as [[d' o] mps]. cbn [fst snd].
  destruct O as [(_ & _ & (e & a & ->))|(id & -> & _)]; now apply noinv_one.
Qed.

Lemma register_invs : forall cfg d callee req opts proc,
    d_invs (fst (fst (register cfg d callee req opts proc))) = d_invs d.
Proof.
  intros. unfold register.
  destruct (negb (valid_uri _ _ _)); [reflexivity|].
  destruct (str_prefix_wamp proc && _); [reflexivity|].
  destruct (negb (c_disclose cfg) && _ && _); [reflexivity|].
  destruct (match sget _ _ with Some id => nget (d_regs d) id | None => None end) as [rg|].
  - destruct (negb (shared_policy _) || _ || _); reflexivity.
  - cbn [fst]. destruct (mkind_of (opt_string opts "match")); reflexivity.
Qed.

(** REGISTER: a registration gains a callee only as the REGISTERED says *)
Lemma register_callees : forall cfg d callee req opts proc rid rg' y,
    regs_core d ->
    nget (d_regs (fst (fst (register cfg d callee req opts proc)))) rid = Some rg' -> In y (reg_callees rg') ->
    (exists rg, nget (d_regs d) rid = Some rg /\ In y (reg_callees rg)) \/
    (y = s_id callee /\ In (s_id callee, RRegistered req rid) (snd (fst (register cfg d callee req opts proc)))).
Proof.
  intros cfg d callee req opts proc rid rg' y RC. unfold register.
  destruct (negb (valid_uri _ _ _)); [cbn [fst]; eauto|].
  destruct (str_prefix_wamp proc && _); [cbn [fst]; eauto|].
  destruct (negb (c_disclose cfg) && _ && _); [cbn [fst]; eauto|].
  destruct (match sget _ _ with Some id => nget (d_regs d) id | None => None end) as [rg|] eqn:M.
  - destruct (negb (shared_policy _) || _ || _); [cbn [fst]; eauto|].
    cbn [fst snd d_regs d_set_regs d_set_callee_regs]. rewrite ngs.
    destruct (N.eqb_spec rid (reg_id rg)) as [->|Hn]; [|eauto].
    intros E Hin. inversion E; subst rg'. cbn [reg_callees] in Hin. apply in_app_or in Hin.
    destruct Hin as [Hin|[<-|[]]]; [|right; split; [reflexivity|now left]].
    left. exists rg. split; [|exact Hin].
    destruct (sget _ _) as [id|]; [|discriminate].
    destruct (rw_reg _ RC id rg M) as (<- & _). exact M.
  - cbn [fst snd]. intros E Hin.
    assert (E' : nget (nset (d_regs d) (idgen_next (d_idgen d))
                            (mkReg (idgen_next (d_idgen d)) proc (opt_string opts "match") (opt_string opts "invoke")
                                   (if opt_bool opts "disclose_caller" then [s_id callee] else [])
                                   (if opt_bool opts "forward_timeout" then [s_id callee] else []) 0 [s_id callee])) rid = Some rg').
    { destruct (mkind_of (opt_string opts "match")); exact E. }
    rewrite ngs in E'. destruct (N.eqb_spec rid (idgen_next (d_idgen d))) as [->|Hn]; [|eauto].
    inversion E'; subst rg'. cbn [reg_callees] in Hin. destruct Hin as [<-|[]]. right. split; [reflexivity|now left].
Qed.

Lemma del_callee_reg_invs : forall d sid id, d_invs (fst (del_callee_reg d sid id)) = d_invs d.
Proof.
  intros d sid id. unfold del_callee_reg.
  destruct (nget (d_regs d) id) as [rg|]; [|reflexivity].
  destruct (negb (nmem sid (reg_callees rg))); [reflexivity|].
  destruct (nremove1 sid (reg_callees rg)); [|reflexivity].
  destruct (mkind_of (reg_match rg)); reflexivity.
Qed.

Lemma del_callee_reg_cle : forall d sid id, callees_le d (fst (del_callee_reg d sid id)).
Proof.
  intros d sid id. unfold del_callee_reg.
  destruct (nget (d_regs d) id) as [rg|] eqn:Hr; [|apply cle_refl].
  destruct (negb (nmem sid (reg_callees rg))); [apply cle_refl|].
  destruct (nremove1 sid (reg_callees rg)) as [|c cs] eqn:Hc; cbn [fst].
  - intros rid rg' y H Hin.
    assert (H' : nget (ndel (d_regs d) id) rid = Some rg') by (destruct (mkind_of (reg_match rg)); exact H).
    rewrite ngd in H'. destruct (N.eqb rid id); [discriminate|]. eauto.
  - intros rid rg' y H Hin. cbn [d_regs d_set_regs] in H. rewrite ngs in H.
    destruct (N.eqb_spec rid id) as [->|Hn]; [|eauto].
    inversion H; subst rg'. cbn [reg_callees] in Hin. rewrite <- Hc in Hin.
    exists rg. split; [exact Hr|]. eapply In_nremove1; eauto.
Qed.

Lemma unregister_dq : forall d sid req regid,
    dq d (snd (fst (unregister d sid req regid))) (fst (fst (unregister d sid req regid))).
Proof.
  intros d sid req regid. constructor.
  - pose proof (unregister_event_order d sid req regid) as O.
    destruct (unregister _ _ _ _) as [[d' o] mps]. cbn [fst snd].
    destruct O as [(_ & ->)|(-> & _)]; now apply noinv_one.
  - unfold unregister.
    pose proof (del_callee_reg_invs (d_set_callee_regs d (callee_del_reg (d_callee_regs d) sid regid)) sid regid) as E.
    destruct (del_callee_reg _ sid regid) as [d1 [b|]]; cbn [fst] in *; apply iks_same; [exact E|reflexivity].
  - unfold unregister.
    pose proof (del_callee_reg_cle (d_set_callee_regs d (callee_del_reg (d_callee_regs d) sid regid)) sid regid) as E.
    destruct (del_callee_reg _ sid regid) as [d1 [b|]]; cbn [fst] in *; [exact E|apply cle_same; reflexivity].
Qed.

Lemma remove_callee_reg_fold_dq : forall sid regs d mp,
    d_invs (fst (fold_left (remove_callee_reg sid) regs (d, mp))) = d_invs d /\
    callees_le d (fst (fold_left (remove_callee_reg sid) regs (d, mp))).
Proof.
  intros sid. induction regs as [|id regs IH]; intros d mp; cbn [fold_left]; [split; [reflexivity|apply cle_refl]|].
  unfold remove_callee_reg at 2 4.
  pose proof (del_callee_reg_invs d sid id) as E. pose proof (del_callee_reg_cle d sid id) as L.
  destruct (del_callee_reg d sid id) as [d1 [b|]]; cbn [fst] in *.
  - destruct (IH d1 (mp ++ mkMetaPub t_reg_on_unregister [vid sid; vid id] [] [] ::
                        (if b then [mkMetaPub t_reg_on_delete [vid sid; vid id] [] []] else []))) as [A B].
    split; [congruence|eapply cle_trans; eauto].
  - apply IH.
Qed.

Lemma cancel_served_dq : forall lk sid d o e, noinv o ->
    noinv (snd (cancel_served lk sid (d, o) e)) /\ ikeys_sub d (fst (cancel_served lk sid (d, o) e)) /\
    callees_le d (fst (cancel_served lk sid (d, o) e)).
Proof.
  intros lk sid d o [ikey e] A. unfold cancel_served.
  assert (Same : noinv o /\ ikeys_sub d d /\ callees_le d d) by (split; [exact A|split; [apply iks_refl|apply cle_refl]]).
  destruct (cget (d_invs d) ikey) as [inv|] eqn:Hi; [|exact Same].
  destruct (negb (inv_callee inv =? sid)); [exact Same|].
  destruct (cget (d_calls d) (inv_call inv)) as [caller|]; [|exact Same].
  match goal with |- context [sync_cancel lk ?D ?a ?b ?c ?dd ?e0] =>
    pose proof (sync_cancel_dq lk D a b c dd e0) as [S1 S2 S3]; destruct (sync_cancel lk D a b c dd e0) as [d3 o3] end.
  cbn [fst snd] in *. split; [now apply noinv_app|]. split.
  - eapply iks_trans; [|exact S2]. eapply iks_cset; [cbn [d_invs d_set_invs]; rewrite ct_invs; reflexivity|congruence].
  - eapply cle_trans; [|exact S3]. apply cle_same. cbn [d_regs d_set_invs]. apply ct_regs.
Qed.

Lemma drop_own_call_iks : forall sid d e, ikeys_sub d (drop_own_call sid d e).
Proof.
  intros sid d [cid caller]. unfold drop_own_call. destruct (negb (caller =? sid)); [apply iks_refl|].
  cbn [d_bycall d_set_calls d_invs].
  destruct (cget (d_bycall d) cid) as [ikey|]; [|apply iks_same; reflexivity].
  eapply iks_cdel. cbn [d_invs d_set_invs d_set_bycall].
  destruct (cget (d_invs d) ikey) as [inv|]; [rewrite ct_invs|]; reflexivity.
Qed.

Lemma dealer_remove_session_dq : forall lk d sid,
    dq d (snd (fst (dealer_remove_session lk d sid))) (fst (fst (dealer_remove_session lk d sid))).
Proof.
  intros lk d sid. unfold dealer_remove_session.
  destruct (remove_callee_reg_fold_dq sid (match nget (d_callee_regs d) sid with Some l => l | None => [] end) d [])
    as [E1 L1].
  destruct (fold_left (remove_callee_reg sid) _ (d, [])) as [d1 mp]. cbn [fst] in *.
  set (d2 := d_set_callee_regs d1 (ndel (d_callee_regs d1) sid)).
  assert (G : forall l d0 o, noinv o ->
                noinv (snd (fold_left (cancel_served lk sid) l (d0, o))) /\
                ikeys_sub d0 (fst (fold_left (cancel_served lk sid) l (d0, o))) /\
                callees_le d0 (fst (fold_left (cancel_served lk sid) l (d0, o)))).
  { clear. induction l as [|e l IH]; intros d0 o A; cbn [fold_left].
    - cbn [fst snd]. split; [exact A|]. split; [apply iks_refl|apply cle_refl].
    - destruct (cancel_served_dq lk sid d0 o e A) as (B1 & B2 & B3).
      destruct (cancel_served lk sid (d0, o) e) as [d3 o3]. cbn [fst snd] in *.
      destruct (IH d3 o3 B1) as (C1 & C2 & C3). split; [exact C1|]. split; [eapply iks_trans; eauto|eapply cle_trans; eauto]. }
  destruct (G (d_invs d2) d2 [] noinv_nil) as (A & B & C).
  destruct (fold_left (cancel_served lk sid) (d_invs d2) (d2, [])) as [d3 o]. cbn [fst snd] in *.
  assert (H : forall l d0, ikeys_sub d0 (fold_left (drop_own_call sid) l d0) /\
                           d_regs (fold_left (drop_own_call sid) l d0) = d_regs d0).
  { clear. induction l as [|e l IH]; intros d0; cbn [fold_left]; [split; [apply iks_refl|reflexivity]|].
    destruct (IH (drop_own_call sid d0 e)) as [I1 I2]. split.
    - eapply iks_trans; [apply drop_own_call_iks|exact I1].
    - rewrite I2. apply drop_own_call_regs. }
  destruct (H (d_calls d3) d3) as [H1 H2].
  constructor; cbn [fst snd].
  - exact A.
  - eapply iks_trans; [|exact H1]. eapply iks_trans; [|exact B]. apply iks_same. exact E1.
  - eapply cle_trans; [|apply cle_same; exact H2]. eapply cle_trans; [|exact C].
    eapply cle_trans; [exact L1|]. apply cle_same. reflexivity.
Qed.

(** ** CALL *)
Lemma nps_iks : forall d cid, ikeys_sub d (no_proc_state d cid).
Proof.
  intros d cid. unfold no_proc_state. destruct (cget (d_bycall d) cid) as [k|]; [|apply iks_refl].
  eapply iks_cdel. rewrite dc_invs. destruct (cget (d_invs d) k); [rewrite ct_invs|]; reflexivity.
Qed.

Lemma call_d0_cle : forall d r next, nget (d_regs d) (reg_id r) = Some r -> callees_le d (call_d0 d r next).
Proof.
  intros d r next Hr rid rg' y H Hin. unfold call_d0 in H. cbn [d_regs d_set_regs] in H. rewrite ngs in H.
  destruct (N.eqb_spec rid (reg_id r)) as [->|Hn]; [|eauto].
  inversion H; subst rg'. exists r. split; [exact Hr|exact Hin].
Qed.

Lemma call_inv_facts : forall cfg lk now d caller req opts proc args kw oracle,
    dealer_wf lk d -> lookup_ok lk -> nowrap lk ->
    match call cfg lk now d caller req opts proc args kw oracle with
    | CallRefused d' o => dq d o d'
    | CallAbort o => noinv o
    | CallInvoked d' callee' o =>
        callees_le d d' /\
        exists y b rid det, o = [(y, RInvocation b rid det args kw)] /\ s_id callee' = y /\
          ((cget (d_invs d) (y, b) <> None /\ ikeys_sub d d' /\ lk y = Some callee') \/
           (exists callee0 rg, lk y = Some callee0 /\ b = s_invgen callee0 + 1 /\ s_invgen callee' = b /\
              nget (d_regs d) rid = Some rg /\ In y (reg_callees rg) /\
              (forall k, cget (d_invs d') k <> None -> k = (y, b) \/ cget (d_invs d) k <> None)))
    end.
Proof.
  intros cfg lk now d caller req opts proc args kw oracle WF LOK NW.
  assert (Hreg : forall r, match_procedure d proc oracle = Some r -> nget (d_regs d) (reg_id r) = Some r).
  { intros r Hm. apply (best_match_sound lk d WF) in Hm. destruct Hm as [Hr _]. exact Hr. }
  assert (Hnps : dq d [no_proc_msg (s_id caller) req] (no_proc_state d (s_id caller, req))).
  { constructor; [now apply noinv_one|apply nps_iks|apply cle_same].
    destruct (nps_frame d (s_id caller, req)) as (_ & _ & E & _). exact E. }
  assert (Hsame : forall m, is_inv m = false -> dq d [m] d).
  { intros m Hm. constructor; [now apply noinv_one|apply iks_refl|apply cle_refl]. }
  assert (Hd0 : forall r next m, match_procedure d proc oracle = Some r -> is_inv m = false -> dq d [m] (call_d0 d r next)).
  { intros r next m Hm Hi. constructor; [now apply noinv_one|apply iks_same; reflexivity|apply call_d0_cle; auto]. }
  pose proof (call_cases cfg lk now d caller req opts proc args kw oracle) as C.
  inversion C as [Hm E|r Hm Hc E|r Hm Hc Ha E|r ikey Hm Hc Ha Hb Hi E|r ikey inv Hm Hc Ha Hb Hi Hl E
                  |r ikey inv callee Hm Hc Ha Hb Hi Hl E|r Hm Hc Ha Hb Hs E|r cid0 next Hm Hc Ha Hb Hs Hl E
                  |r cid0 next callee Hm Hc Ha Hb Hs Hl Hf E
                  |r cid0 next callee Hm Hc Ha Hb Hs Hl Hf Hpa E|r cid0 next callee Hm Hc Ha Hb Hs Hl Hf Hpa Hpr E
                  |r cid0 next callee Hm Hc Ha Hb Hs Hl Hf Hpa Hpr Hd E
                  |r cid0 next callee Hm Hc Ha Hb Hs Hl Hf Hpa Hpr Hd E].
  - exact Hnps.
  - exact Hnps.
  - now apply noinv_one.
  - apply dq_refl.
  - apply dq_refl.
  - (* chunk *)
    destruct (cw_inv _ (wf_calls _ _ WF) _ _ Hi) as (_ & Hfst).
    pose proof (LOK _ _ Hl) as Hid. split; [apply cle_same; apply chs_regs|].
    exists (s_id callee), (snd ikey), (reg_id r), [("progress", VBool (opt_bool opts "progress"))].
    split; [reflexivity|]. split; [reflexivity|]. left.
    assert (Ek : (s_id callee, snd ikey) = ikey) by (rewrite Hid, Hfst; destruct ikey; reflexivity).
    rewrite Ek. split; [congruence|]. split.
    + eapply iks_cset; [apply chs_invs|congruence].
    + rewrite Hid. exact Hl.
  - apply Hsame; reflexivity.
  - apply Hsame; reflexivity.
  - eapply Hd0; eauto.
  - now apply noinv_one.
  - eapply Hd0; eauto.
  - eapply Hd0; eauto.
  - (* first *)
    pose proof (LOK _ _ Hl) as Hid.
    split.
    { intros rid rg' y H Hin. rewrite cfs_regs in H. rewrite ngs in H.
      destruct (N.eqb_spec rid (reg_id r)) as [->|Hn]; [|eauto].
      inversion H; subst rg'. exists r. split; [auto|exact Hin]. }
    exists cid0, (idgen_next (s_invgen callee)), (reg_id r), (call_details cfg caller callee cid0 r opts proc).
    split; [reflexivity|]. split; [cbn [set_invgen s_id]; exact Hid|]. right.
    exists callee, r. split; [exact Hl|]. split; [apply idgen_next_nowrap; eapply NW; eauto|].
    split; [reflexivity|]. split; [auto|]. split; [eapply select_callee_In; eauto|].
    intros k. rewrite cfs_invs, cget_cset. destruct (pair_eqb_spec k (cid0, idgen_next (s_invgen callee))); auto.
Qed.

(** the dealer an aborted CALL leaves behind: no registration gains a callee *)
Lemma call_abort_dealer_cle : forall lk d caller req opts proc oracle,
    dealer_wf lk d -> callees_le d (call_abort_dealer lk d caller req opts proc oracle).
Proof.
  intros lk d caller req opts proc oracle WF. unfold call_abort_dealer.
  destruct (match_procedure d proc oracle) as [rg|] eqn:Hm; [|apply cle_refl].
  destruct (reg_callees rg) eqn:Ec; [apply cle_refl|]. rewrite <- Ec.
  destruct (opt_bool opts "progress" && _); [apply cle_refl|].
  destruct (cget (d_bycall d) (s_id caller, req)); [apply cle_refl|].
  destruct (select_callee rg oracle) as [[cid next]|]; [|apply cle_refl].
  destruct (lk cid); [|apply cle_refl].
  apply (best_match_sound lk d WF) in Hm. destruct Hm as [Hr _].
  apply (call_d0_cle d rg next). exact Hr.
Qed.

(** ** Realm level: quiet steps *)
Definition ikeys_sub_nm (d d' : dealer) : Prop :=
  forall y i, y <> meta_id -> cget (d_invs d') (y, i) <> None -> cget (d_invs d) (y, i) <> None.

Record qstep (r : realm) (o : list out) (r' : realm) : Prop := {
  qs_noinv : noinv o;
  qs_keys : ikeys_sub_nm (r_dealer r) (r_dealer r');
  (* nobody becomes attached; generators do not go back *)
  qs_back : forall y sy', lookup r' y = Some sy' -> exists sy, lookup r y = Some sy /\ s_invgen sy <= s_invgen sy';
  qs_callees : forall y rid, not_callee y rid (r_dealer r) ->
                 not_callee y rid (r_dealer r') \/ exists q, In (y, RRegistered q rid) o
}.

Lemma iks_nm : forall d d', ikeys_sub d d' -> ikeys_sub_nm d d'.
Proof. intros d d' H y i _. apply H. Qed.

Lemma back_same : forall r r', (forall y, lookup r' y = lookup r y) ->
    forall y sy', lookup r' y = Some sy' -> exists sy, lookup r y = Some sy /\ s_invgen sy <= s_invgen sy'.
Proof. intros r r' E y sy' H. rewrite E in H. exists sy'. split; [exact H|lia]. Qed.

Lemma qstep_refl : forall r, qstep r [] r.
Proof.
  intros r. constructor; [apply noinv_nil|apply iks_nm, iks_refl|apply back_same; reflexivity|auto].
Qed.

Lemma qstep_seq : forall r o1 r1 o2 r2, qstep r o1 r1 -> qstep r1 o2 r2 -> qstep r (o1 ++ o2) r2.
Proof.
  intros r o1 r1 o2 r2 [A1 B1 C1 D1] [A2 B2 C2 D2]. constructor.
  - now apply noinv_app.
  - intros y i Hy H. apply (B1 y i Hy). apply (B2 y i Hy). exact H.
  - intros y sy2 H. destruct (C2 y sy2 H) as (sy1 & H1 & L1). destruct (C1 y sy1 H1) as (sy & H0 & L0).
    exists sy. split; [exact H0|lia].
  - intros y rid N0. destruct (D1 y rid N0) as [N1|(q & Hq)].
    + destruct (D2 y rid N1) as [N2|(q & Hq)]; [now left|]. right. exists q. apply in_or_app. now right.
    + right. exists q. apply in_or_app. now left.
Qed.

Lemma qstep_dealer : forall r o r' d',
    dq (r_dealer r) o d' -> r_dealer r' = d' -> (forall y, lookup r' y = lookup r y) -> qstep r o r'.
Proof.
  intros r o r' d' [A B C] E L. constructor; [exact A|rewrite E; apply iks_nm; exact B|apply back_same; exact L|].
  intros y rid N0. left. rewrite E. eapply cle_not_callee; eauto.
Qed.

Lemma qstep_broker : forall r o r',
    allb o -> r_dealer r' = r_dealer r -> (forall y, lookup r' y = lookup r y) -> qstep r o r'.
Proof.
  intros r o r' A E L. apply (qstep_dealer r o r' (r_dealer r)); [|exact E|exact L].
  constructor; [apply allb_noinv; exact A|apply iks_refl|apply cle_refl].
Qed.

Lemma qstep_cons : forall r m o r', bmsg m = true -> qstep r o r' -> qstep r (m :: o) r'.
Proof.
  intros r m o r' Hm H. change (m :: o) with ([m] ++ o). eapply qstep_seq; [|exact H].
  apply qstep_broker; [now apply allb_one|reflexivity|reflexivity].
Qed.

(** departure *)
Lemma leave_qstep : forall r sid, qstep r (snd (leave r sid)) (fst (leave r sid)).
Proof.
  intros r sid.
  destruct (find_session (r_clients r) sid) as [s|] eqn:F;
    [|rewrite (leave_absent r sid F); apply qstep_refl].
  pose proof (leave_frame r sid) as Fr. cbv zeta in Fr. destruct Fr as (_ & Fc & Fm & _).
  assert (Back : forall y sy', lookup (fst (leave r sid)) y = Some sy' ->
                               exists sy, lookup r y = Some sy /\ s_invgen sy <= s_invgen sy').
  { intros y sy' H. exists sy'. split; [|lia]. unfold lookup in *. rewrite Fc, Fm in H.
    destruct (N.eqb y meta_id); [exact H|].
    destruct (N.eq_dec y sid) as [->|Hn]; [rewrite find_del_same in H; discriminate|now rewrite find_del_other in H]. }
  revert Back. rewrite (leave_event_order r sid s F). unfold leave_core.
  set (r2 := r_set_testaments (r_set_clients r (del_session (r_clients r) sid))
                              (ndel (r_testaments (r_set_clients r (del_session (r_clients r) sid))) sid)).
  change (r_dealer r2) with (r_dealer r).
  pose proof (dealer_remove_session_dq (lookup r2) (r_dealer r) sid) as [D1 D2 D3].
  destruct (dealer_remove_session (lookup r2) (r_dealer r) sid) as [[d o1] mps]. cbn [fst snd] in *.
  pose proof (broker_remove_session_allb (r_broker (r_set_dealer r2 d)) (r_pubgen (r_set_dealer r2 d)) sid) as B.
  destruct (broker_remove_session _ _ sid) as [[b pg] o2]. cbn [snd] in B.
  pose proof (meta_publish_all_allb (mps ++ testament_pubs r sid ++ [on_leave_pub s]) (r_set_broker (r_set_dealer r2 d) b pg)) as M.
  pose proof (meta_publish_all_dealer (mps ++ testament_pubs r sid ++ [on_leave_pub s]) (r_set_broker (r_set_dealer r2 d) b pg)) as E.
  destruct (meta_publish_all _ _) as [r5 o3]. cbn [fst snd] in *. cbn [r_dealer r_set_broker r_set_dealer] in E.
  intros Back. constructor.
  - apply noinv_app; [apply noinv_app; [exact D1|apply allb_noinv; exact B]|apply allb_noinv; exact M].
  - rewrite E. apply iks_nm. exact D2.
  - exact Back.
  - intros y rid N0. left. rewrite E. eapply cle_not_callee; eauto.
Qed.

Lemma kill_sessions_qstep : forall sids r g, (forall x, bmsg (x, g) = true) ->
    qstep r (snd (kill_sessions r sids g)) (fst (kill_sessions r sids g)).
Proof.
  induction sids as [|sid sids IH]; intros r g Hg; [apply qstep_refl|].
  rewrite kill_sessions_cons. pose proof (leave_qstep r sid) as L.
  destruct (leave r sid) as [r1 o1]. specialize (IH r1 g Hg).
  destruct (kill_sessions r1 sids g) as [r2 o2]. cbn [fst snd] in *.
  apply qstep_cons; [apply Hg|]. eapply qstep_seq; eauto.
Qed.

Lemma meta_call_kills_bmsg : forall r proc det args kw oracle sids g,
    kills_of (meta_call r proc det args kw oracle) = Some (sids, g) -> forall x, bmsg (x, g) = true.
Proof.
  intros r proc det args kw oracle sids g. unfold meta_call, kills_of, goodbye_msg.
  brk; cbn [snd]; intros H; inversion H; subst; clear H; intros x; reflexivity.
Qed.

Lemma meta_call_back : forall r proc det args kw oracle y sy',
    lookup (realm_of (meta_call r proc det args kw oracle)) y = Some sy' ->
    exists sy, lookup r y = Some sy /\ s_invgen sy <= s_invgen sy'.
Proof.
  intros r proc det args kw oracle y sy'.
  destruct (meta_call_cases r proc det args kw oracle) as [E|[(sid & s & dd & F & Hm & E)|(c & p & Ec & [E|E])]];
    cbv zeta in E; rewrite E; try (intros H; exists sy'; split; [exact H|lia]).
  apply N.eqb_neq in Hm.
  assert (Hl : lookup r sid = Some s) by (unfold lookup; destruct (N.eqb_spec sid meta_id); [contradiction|exact F]).
  pose proof (find_session_id _ _ _ F) as Es.
  rewrite (lookup_update r (set_details s dd) y) by (cbn [set_details s_id]; rewrite Es; congruence).
  cbn [set_details s_id]. rewrite Es. destruct (N.eqb_spec y sid) as [->|Hn].
  - intros H. inversion H; subst. exists s. split; [exact Hl|cbn; lia].
  - intros H. exists sy'. split; [exact H|lia].
Qed.

(** the meta session answers an INVOCATION it was sent *)
Lemma run_meta_invocation_meta_qstep : forall r invid regid det args kw oracle,
    qstep r (snd (run_meta_invocation r [(meta_id, RInvocation invid regid det args kw)] oracle))
            (fst (run_meta_invocation r [(meta_id, RInvocation invid regid det args kw)] oracle)).
Proof.
  intros r invid regid det args kw oracle. unfold run_meta_invocation. rewrite N.eqb_refl. cbn [negb].
  destruct (nget (r_metaprocs r) regid) as [proc|].
  - pose proof (meta_call_dealer r proc det args kw oracle) as Ed.
    pose proof (meta_call_back r proc det args kw oracle) as Bk.
    pose proof (meta_call_kills_bmsg r proc det args kw oracle) as Kg.
    destruct (meta_call r proc det args kw oracle) as [[r1 resp] kills]. unfold realm_of, kills_of in *. cbn [fst snd] in *.
    assert (Q1 : qstep r [] r1).
    { constructor; [apply noinv_nil|rewrite Ed; apply iks_nm, iks_refl|exact Bk|]. intros y rid N0. left. now rewrite Ed. }
    assert (G : forall d o1, (d, o1) = match resp with
                                        | MYield a k0 => sync_yield (lookup r1) (r_dealer r1) meta_id invid [] a k0
                                        | MError e => sync_error (r_dealer r1) meta_id invid [] e [] []
                                        end -> dq (r_dealer r1) o1 d).
    { intros d o1 E. destruct resp.
      - pose proof (sync_yield_dq (lookup r1) (r_dealer r1) meta_id invid [] args0 kw0) as A. rewrite <- E in A. exact A.
      - pose proof (sync_error_dq (r_dealer r1) meta_id invid [] err [] []) as A. rewrite <- E in A. exact A. }
    destruct (match resp with MYield a k0 => _ | MError e => _ end) as [d o1].
    specialize (G d o1 eq_refl).
    assert (Q2 : qstep r o1 (r_set_dealer r1 d)).
    { change o1 with ([] ++ o1). eapply qstep_seq; [exact Q1|]. eapply qstep_dealer; [exact G|reflexivity|reflexivity]. }
    destruct kills as [[sids g]|]; [|exact Q2].
    pose proof (kill_sessions_qstep sids (r_set_dealer r1 d) g (Kg sids g eq_refl)) as K.
    destruct (kill_sessions (r_set_dealer r1 d) sids g) as [r3 o2]. cbn [fst snd] in *.
    eapply qstep_seq; eauto.
  - pose proof (sync_error_dq (r_dealer r) meta_id invid [] e_no_such_procedure [] []) as A.
    destruct (sync_error _ _ _ _ _ _ _) as [d o1]. cbn [fst snd] in *.
    eapply qstep_dealer; [exact A|reflexivity|reflexivity].
Qed.

Lemma qstep_noinv_same : forall r o, noinv o -> (forall m q rid, In m o -> snd m <> RRegistered q rid) -> qstep r o r.
Proof.
  intros r o A _. constructor; [exact A|apply iks_nm, iks_refl|apply back_same; reflexivity|auto].
Qed.

(** ** Realm level: a CALL routed to a client callee *)
Definition inv_step (r : realm) (o : list out) (r' : realm) : Prop :=
  exists y b rid det a kw,
    o = [(y, RInvocation b rid det a kw)] /\ y <> meta_id /\
    callees_le (r_dealer r) (r_dealer r') /\
    (forall z sz', lookup r' z = Some sz' -> exists sz, lookup r z = Some sz /\ s_invgen sz <= s_invgen sz') /\
    ((* a further chunk: the id of a pending invocation of [y] *)
     (cget (d_invs (r_dealer r)) (y, b) <> None /\ ikeys_sub_nm (r_dealer r) (r_dealer r')) \/
     (* a new call: the callee's generator + 1; [y] is a callee of registration [rid] *)
     (exists sy sy' rg, lookup r y = Some sy /\ b = s_invgen sy + 1 /\ lookup r' y = Some sy' /\ s_invgen sy' = b /\
        nget (d_regs (r_dealer r)) rid = Some rg /\ In y (reg_callees rg) /\
        (forall k, cget (d_invs (r_dealer r')) k <> None -> k = (y, b) \/ cget (d_invs (r_dealer r)) k <> None))).

Lemma run_meta_invocation_client : forall r y b rid det a kw oracle,
    y <> meta_id ->
    run_meta_invocation r [(y, RInvocation b rid det a kw)] oracle = (r, [(y, RInvocation b rid det a kw)]).
Proof.
  intros r y b rid det a kw oracle Hy. unfold run_meta_invocation.
  destruct (N.eqb_spec y meta_id); [contradiction|reflexivity].
Qed.

Theorem handle_inv_facts : forall r s m oracle k,
    realm_wf r -> ids_below k r -> k < max_idN -> find_session (r_clients r) (s_id s) = Some s ->
    qstep r (snd (handle r s m oracle)) (fst (handle r s m oracle)) \/
    inv_step r (snd (handle r s m oracle)) (fst (handle r s m oracle)).
Proof.
  intros r s m oracle k W I Hk Hs.
  pose proof (rw_dealer r W) as Wd.
  assert (Lv : forall r0 o0, qstep r r0 o0 -> True) by auto. clear Lv.
  assert (LvQ : forall r0 o0, qstep r o0 r0 ->
                 qstep r (o0 ++ snd (leave r0 (s_id s))) (fst (leave r0 (s_id s)))).
  { intros r0 o0 Q. eapply qstep_seq; [exact Q|apply leave_qstep]. }
  destruct m; cbn [handle].
  - (* PUBLISH *) left.
    pose proof (publish_allb (r_cfg r) (lookup r) (r_now r) (r_broker r) (r_pubgen r) s req opts topic args kw) as P.
    destruct (publish _ _ _ _ _ _ _ _ _ _ _) as [[b pg] o]. cbn [snd] in P.
    destruct (publish_aborts _ _ _ _).
    + specialize (LvQ r o (qstep_broker r o r P eq_refl (fun _ => eq_refl))).
      destruct (leave r (s_id s)) as [r1 o1]. exact LvQ.
    + cbn [fst snd]. apply qstep_broker; [exact P|reflexivity|reflexivity].
  - left. pose proof (subscribe_allb (r_cfg r) (r_broker r) (r_pubgen r) (s_id s) req opts topic) as P.
    destruct (subscribe _ _ _ _ _ _ _) as [[b pg] o]. cbn [fst snd] in *.
    apply qstep_broker; [exact P|reflexivity|reflexivity].
  - left. pose proof (unsubscribe_allb (r_broker r) (r_pubgen r) (s_id s) req sub) as P.
    destruct (unsubscribe _ _ _ _ _) as [[b pg] o]. cbn [fst snd] in *.
    apply qstep_broker; [exact P|reflexivity|reflexivity].
  - (* REGISTER *) left.
    pose proof (register_noinv (r_cfg r) (r_dealer r) s req opts proc) as Rn.
    pose proof (register_invs (r_cfg r) (r_dealer r) s req opts proc) as Ri.
    pose proof (register_callees (r_cfg r) (r_dealer r) s req opts proc) as Rc.
    destruct (register _ _ _ _ _ _) as [[d o] mps]. cbn [fst snd] in *.
    assert (Q1 : qstep r o (r_set_dealer r d)).
    { constructor; [exact Rn|apply iks_nm, iks_same; exact Ri|apply back_same; reflexivity|].
      intros y rid N0. cbn [r_dealer r_set_dealer].
      destruct (nget (d_regs d) rid) as [rg'|] eqn:Hr; [|left; intros rg H; congruence].
      destruct (in_dec N.eq_dec y (reg_callees rg')) as [Hin|Hn].
      - destruct (Rc rid rg' y (wf_regs _ _ Wd) Hr Hin) as [(rg & H0 & Hin0)|(-> & Ho)].
        + exfalso. exact (N0 rg H0 Hin0).
        + right. exists req. exact Ho.
      - left. intros rg H. rewrite Hr in H. inversion H; subst. exact Hn. }
    pose proof (meta_publish_all_allb mps (r_set_dealer r d)) as M.
    pose proof (meta_publish_all_dealer mps (r_set_dealer r d)) as E.
    pose proof (meta_publish_all_lookup mps (r_set_dealer r d)) as L.
    destruct (meta_publish_all _ mps) as [r1 o1]. cbn [fst snd] in *.
    eapply qstep_seq; [exact Q1|]. apply qstep_broker; [exact M|exact E|intros y; now rewrite L].
  - (* UNREGISTER *) left.
    pose proof (unregister_dq (r_dealer r) (s_id s) req reg) as D.
    destruct (unregister _ _ _ _) as [[d o] mps]. cbn [fst snd] in *.
    pose proof (meta_publish_all_allb mps (r_set_dealer r d)) as M.
    pose proof (meta_publish_all_dealer mps (r_set_dealer r d)) as E.
    pose proof (meta_publish_all_lookup mps (r_set_dealer r d)) as L.
    destruct (meta_publish_all _ mps) as [r1 o1]. cbn [fst snd] in *.
    eapply qstep_seq; [eapply (qstep_dealer r o (r_set_dealer r d)); [exact D|reflexivity|reflexivity]|].
    apply qstep_broker; [exact M|exact E|intros y; now rewrite L].
  - (* CALL *)
    pose proof (lookup_ok_realm r (rw_meta_id r W)) as LOK.
    pose proof (nowrap_below k r I Hk) as NW.
    pose proof (call_inv_facts (r_cfg r) (lookup r) (r_now r) (r_dealer r) s req opts proc args kw oracle Wd LOK NW) as CF.
    destruct (call _ _ _ _ _ _ _ _ _ _ _) as [d o|o|d callee' o] eqn:Ecall.
    + left. cbn [fst snd]. eapply qstep_dealer; [exact CF|reflexivity|reflexivity].
    + left.
      pose proof (call_abort_dealer_tables (lookup r) (r_dealer r) s req opts proc oracle) as (_ & Ei & _).
      pose proof (call_abort_dealer_cle (lookup r) (r_dealer r) s req opts proc oracle Wd) as Cl.
      match goal with |- context [leave ?R (s_id s)] =>
        assert (Q : qstep r o R);
        [constructor; [exact CF|apply iks_nm, iks_same; exact Ei|apply back_same; reflexivity|
                       intros y0 rid0 N0; left; eapply cle_not_callee; [exact Cl|exact N0]]|
         specialize (LvQ R o Q); destruct (leave R (s_id s)) as [r1 o1]; exact LvQ] end.
    + destruct CF as (Cle & y & b & rid & det & Eo & Ey & Kind).
      set (r1 := update_session (r_set_dealer r d) callee').
      assert (Hat : lookup (r_set_dealer r d) (s_id callee') <> None).
      { rewrite Ey. change (lookup (r_set_dealer r d)) with (lookup r).
        destruct Kind as [(_ & _ & Hl)|(c0 & rg & Hl & _)]; congruence. }
      assert (Ed : r_dealer r1 = d).
      { unfold r1. destruct (update_session_frame (r_set_dealer r d) callee') as (_ & _ & _ & -> & _). reflexivity. }
      assert (Hge : forall c0, lookup r y = Some c0 -> s_invgen c0 <= s_invgen callee').
      { intros c0 Hc0. destruct Kind as [(_ & _ & Hl)|(c1 & rg & Hl & Hb & Hb' & _)].
        - assert (c0 = callee') by congruence. subst c0. lia.
        - assert (c0 = c1) by congruence. subst c0. lia. }
      assert (Back : forall z sz', lookup r1 z = Some sz' -> exists sz, lookup r z = Some sz /\ s_invgen sz <= s_invgen sz').
      { intros z sz' H. unfold r1 in H. rewrite (lookup_update _ callee' z Hat) in H. rewrite Ey in H.
        change (lookup (r_set_dealer r d) z) with (lookup r z) in H.
        destruct (N.eqb_spec z y) as [->|Hn].
        - inversion H; subst sz'. destruct (lookup r y) as [c0|] eqn:Hc0.
          + exists c0. split; [reflexivity|apply Hge; reflexivity].
          + exfalso. apply Hat. rewrite Ey. exact Hc0.
        - exists sz'. split; [exact H|lia]. }
      fold r1. destruct (N.eq_dec y meta_id) as [Hy|Hy].
      * left. rewrite Eo, Hy.
        assert (Q1 : qstep r [] r1).
        { constructor; [apply noinv_nil| |exact Back|].
          - rewrite Ed. destruct Kind as [(_ & Hk' & _)|(c0 & rg & _ & _ & _ & _ & _ & Hk')].
            + apply iks_nm. exact Hk'.
            + intros z i Hz H. destruct (Hk' _ H) as [E|E]; [exfalso; apply Hz; inversion E; congruence|exact E].
          - intros z rid0 N0. left. rewrite Ed. eapply cle_not_callee; eauto. }
        pose proof (run_meta_invocation_meta_qstep r1 b rid det args kw oracle) as Q2.
        destruct (run_meta_invocation r1 _ oracle) as [r3 o3]. cbn [fst snd] in *.
        change o3 with ([] ++ o3). eapply qstep_seq; eauto.
      * right. rewrite Eo, (run_meta_invocation_client r1 y b rid det args kw oracle Hy). cbn [fst snd].
        exists y, b, rid, det, args, kw. split; [reflexivity|]. split; [exact Hy|]. rewrite Ed.
        split; [exact Cle|]. split; [exact Back|].
        destruct Kind as [(Hk1 & Hk2 & _)|(c0 & rg & Hl & Hb & Hb' & Hr & Hin & Hk')].
        -- left. split; [exact Hk1|apply iks_nm; exact Hk2].
        -- right. exists c0, callee', rg. split; [exact Hl|]. split; [exact Hb|]. split.
           ++ unfold r1. rewrite (lookup_update _ callee' y Hat), Ey, N.eqb_refl. reflexivity.
           ++ split; [exact Hb'|]. split; [exact Hr|]. split; [exact Hin|exact Hk'].
  - (* CANCEL *) left.
    pose proof (cancel_dq (lookup r) (r_dealer r) (s_id s) req opts) as D.
    destruct (cancel _ _ _ _ _) as [d o]. cbn [fst snd] in *.
    eapply qstep_dealer; [exact D|reflexivity|reflexivity].
  - (* YIELD *) left.
    pose proof (sync_yield_dq (lookup r) (r_dealer r) (s_id s) req opts args kw) as D.
    destruct (sync_yield _ _ _ _ _ _ _) as [d o]. cbn [fst snd] in *.
    assert (Q : qstep r o (r_set_dealer r d)) by (eapply qstep_dealer; [exact D|reflexivity|reflexivity]).
    destruct (yield_aborts _ _ _ _ _); [|exact Q].
    specialize (LvQ (r_set_dealer r d) o Q). destruct (leave (r_set_dealer r d) (s_id s)) as [r1 o1]. exact LvQ.
  - (* ERROR *) left. destruct (negb (ty =? c_INVOCATION)).
    + pose proof (leave_qstep r (s_id s)) as L. destruct (leave r (s_id s)) as [r1 o1]. cbn [fst snd] in *.
      apply qstep_cons; [reflexivity|exact L].
    + pose proof (sync_error_dq (r_dealer r) (s_id s) req details err args kw) as D.
      destruct (sync_error _ _ _ _ _ _ _) as [d o]. cbn [fst snd] in *.
      eapply qstep_dealer; [exact D|reflexivity|reflexivity].
  - left. pose proof (leave_qstep r (s_id s)) as L. destruct (leave r (s_id s)) as [r1 o1]. cbn [fst snd] in *.
    apply qstep_cons; [reflexivity|exact L].
  - left. pose proof (leave_qstep r (s_id s)) as L. destruct (leave r (s_id s)) as [r1 o1]. cbn [fst snd] in *.
    apply qstep_cons; [reflexivity|exact L].
Qed.

(** a session joins *)
Definition join_step (r : realm) (o : op) (out : list out) (r' : realm) : Prop :=
  exists sid l h, o = OJoin sid l h /\ lookup r sid = None /\ noinv out /\ r_dealer r' = r_dealer r /\
                  forall y, y <> sid -> lookup r' y = lookup r y.

Theorem step_inv_facts : forall r o k,
    realm_wf r -> ids_below k r -> k < max_idN -> op_ok o ->
    qstep r (snd (step r o)) (fst (step r o)) \/
    inv_step r (snd (step r o)) (fst (step r o)) \/
    join_step r o (snd (step r o)) (fst (step r o)).
Proof.
  intros r o k W I Hk Ho.
  destruct o as [sid lc h|sid m oracle|sid|ms].
  - cbn [step]. unfold join.
    destruct (negb (has_role h) || is_some (lookup r sid)) eqn:G; [left; apply qstep_refl|].
    right; right. apply orb_false_iff in G. destruct G as [_ G].
    assert (Hl : lookup r sid = None) by (destruct (lookup r sid); [discriminate|reflexivity]).
    exists sid, lc, h. split; [reflexivity|]. split; [exact Hl|].
    match goal with |- context [meta_publish ?R ?M] =>
      pose proof (meta_publish_allb R M) as A; pose proof (meta_publish_dealer M R) as E;
      pose proof (same_but_broker_lookup R _ (meta_publish_frame R M)) as L;
      destruct (meta_publish R M) as [r1 o1] end.
    cbn [fst snd] in *. split; [apply allb_noinv; exact A|]. split; [exact E|].
    intros y Hy. rewrite L. unfold lookup. cbn [r_meta r_clients r_set_clients].
    destruct (N.eqb y meta_id); [reflexivity|]. rewrite find_session_app.
    destruct (find_session (r_clients r) y); [reflexivity|]. cbn [s_id].
    destruct (N.eqb_spec sid y); [congruence|reflexivity].
  - rewrite step_msg_eq. destruct (find_session (r_clients r) sid) as [s|] eqn:F; [|left; apply qstep_refl].
    assert (Hs : find_session (r_clients r) (s_id s) = Some s) by now rewrite (find_session_id _ _ _ F).
    destruct (gate r s m) as [m'|out] eqn:Eg.
    + destruct (handle_inv_facts r s m' oracle k W I Hk Hs) as [Q|Q]; [now left|right; now left].
    + left. cbn [fst snd]. destruct (gate_refusal_shape r s m out Eg) as [->|(det & e & a & ->)]; [apply qstep_refl|].
      constructor; [now apply noinv_one|apply iks_nm, iks_refl|apply back_same; reflexivity|auto].
  - left. cbn [step]. apply leave_qstep.
  - left. cbn [step]. set (r1 := r_set_now r (r_now r + ms)).
    pose proof (fire_timers_dq (lookup r1) (r_now r1) (r_dealer r1)) as D.
    destruct (fire_timers _ _ _) as [d out]. cbn [fst snd] in *.
    eapply (qstep_dealer r out _ d); [exact D|reflexivity|reflexivity].
Qed.

(** UNREGISTER answered UNREGISTERED: the session is no callee of that registration any more *)
Theorem unregistered_not_callee : forall r sid s q rid q' oracle,
    realm_wf r -> find_session (r_clients r) sid = Some s ->
    gate r s (CUnregister q rid) = inl (CUnregister q rid) ->
    In (sid, RUnregistered q') (snd (step r (OMsg sid (CUnregister q rid) oracle))) ->
    not_callee sid rid (r_dealer (fst (step r (OMsg sid (CUnregister q rid) oracle)))).
Proof.
  intros r sid s q rid q' oracle W F Eg. rewrite step_msg_eq, F, Eg. cbn [handle].
  pose proof (find_session_id _ _ _ F) as Es. rewrite Es.
  pose proof (unregister_event_order (r_dealer r) sid q rid) as O.
  pose proof (no_route_after_unregister_proof (lookup r) (r_dealer r) sid q rid) as NR.
  destruct (unregister (r_dealer r) sid q rid) as [[d o] mps].
  pose proof (meta_publish_all_allb mps (r_set_dealer r d)) as M.
  pose proof (meta_publish_all_dealer mps (r_set_dealer r d)) as E.
  destruct (meta_publish_all _ mps) as [r1 o1]. cbn [fst snd] in *. cbn [r_dealer r_set_dealer] in E.
  intros Hin. rewrite E. apply in_app_or in Hin.
  destruct O as [(_ & ->)|(-> & _)].
  - exfalso. destruct Hin as [[H|[]]|H]; [discriminate H|]. specialize (M _ H). discriminate M.
  - destruct (NR d mps (rw_dealer r W) eq_refl) as [_ N0]. exact N0.
Qed.
