(** * Histories of the whole model, part 5 (C03): what one [step] does to the
    INVOCATIONs it sends, to the set of pending invocation keys, to the
    membership of registrations and to the sessions' invocation id generators.

    Dealer level ([dq]): every dealer function except [call] sends no
    INVOCATION, creates no invocation key, and (REGISTER excepted) adds no
    callee to any registration.  Realm level ([step_inv_facts]): a step either
    is "quiet" in that sense, or it is a CALL routed to a client callee, whose
    whole output is the one INVOCATION — with a fresh id (the callee's
    generator + 1, the callee being a member of the registration named) or
    repeating the id of a pending invocation of that callee (a further chunk). *)
From Nexus Require Import Router.Realm Router.AssocLemmas Router.RealmLib Router.RealmProofs
     Router.RealmMetaProofs Router.RealmLeave.
From Nexus Require Import Router.DealerLib Router.DealerProofs Router.DealerReg Router.DealerCall Router.DealerWf
     Router.DealerWfCalls Router.DealerWfRegs Router.DealerRemove Router.DealerReply Router.DealerTimers
     Router.DealerOwned.
From Nexus Require Import Router.RealmWf Router.RealmStep Router.RealmC05 Router.RealmOutputs.
From Nexus Require Import Router.RealmTraceLib Router.RealmTrace Router.RealmTraceC05.
From Coq Require Import Lia ZifyN ZifyNat ZifyBool.

(** ** Vocabulary *)
Definition is_inv (m : out) : bool :=
  match snd m with RInvocation _ _ _ _ _ => true | _ => false end.
Definition noinv (o : list out) : Prop := forall m, In m o -> is_inv m = false.

Definition ikeys_sub (d d' : dealer) : Prop :=
  forall k, cget (d_invs d') k <> None -> cget (d_invs d) k <> None.

(** no registration gains a callee *)
Definition callees_le (d d' : dealer) : Prop :=
  forall rid rg' y, nget (d_regs d') rid = Some rg' -> In y (reg_callees rg') ->
    exists rg, nget (d_regs d) rid = Some rg /\ In y (reg_callees rg).

Definition not_callee (y rid : N) (d : dealer) : Prop :=
  forall rg, nget (d_regs d) rid = Some rg -> ~ In y (reg_callees rg).

Lemma noinv_nil : noinv [].
Proof. intros m []. Qed.
Lemma noinv_app : forall a b, noinv a -> noinv b -> noinv (a ++ b).
Proof. intros a b A B m H. apply in_app_or in H. destruct H; auto. Qed.
Lemma noinv_cons : forall m o, is_inv m = false -> noinv o -> noinv (m :: o).
Proof. intros m o A B x [<-|H]; auto. Qed.
Lemma noinv_one : forall m, is_inv m = false -> noinv [m].
Proof. intros. apply noinv_cons; [assumption|apply noinv_nil]. Qed.
Lemma allb_noinv : forall o, allb o -> noinv o.
Proof. intros o H [x m] Hin. specialize (H _ Hin). unfold bmsg, is_inv in *. cbn [snd] in *. destruct m; try reflexivity; discriminate. Qed.

Lemma iks_refl : forall d, ikeys_sub d d.
Proof. intros d k H; exact H. Qed.
Lemma iks_trans : forall a b c, ikeys_sub a b -> ikeys_sub b c -> ikeys_sub a c.
Proof. intros a b c A B k H. auto. Qed.
Lemma iks_same : forall d d', d_invs d' = d_invs d -> ikeys_sub d d'.
Proof. intros d d' E k. now rewrite E. Qed.
Lemma iks_cset : forall d d' k v, d_invs d' = cset (d_invs d) k v -> cget (d_invs d) k <> None -> ikeys_sub d d'.
Proof.
  intros d d' k v E Hk k'. rewrite E, cget_cset. destruct (pair_eqb_spec k' k) as [->|]; auto.
Qed.
Lemma iks_cdel : forall d d' k, d_invs d' = cdel (d_invs d) k -> ikeys_sub d d'.
Proof. intros d d' k E k'. rewrite E, cget_cdel. destruct (pair_eqb k' k); [congruence|auto]. Qed.

Lemma cle_refl : forall d, callees_le d d.
Proof. intros d rid rg y H Hin. eauto. Qed.
Lemma cle_trans : forall a b c, callees_le a b -> callees_le b c -> callees_le a c.
Proof.
  intros a b c A B rid rg y H Hin. destruct (B rid rg y H Hin) as (rg1 & H1 & Hin1). eauto.
Qed.
Lemma cle_same : forall d d', d_regs d' = d_regs d -> callees_le d d'.
Proof. intros d d' E rid rg y H Hin. rewrite E in H. eauto. Qed.
Lemma cle_not_callee : forall d d' y rid, callees_le d d' -> not_callee y rid d -> not_callee y rid d'.
Proof.
  intros d d' y rid L N rg H Hin. destruct (L rid rg y H Hin) as (rg0 & H0 & Hin0). exact (N rg0 H0 Hin0).
Qed.

Record dq (d : dealer) (o : list out) (d' : dealer) : Prop := {
  dq_noinv : noinv o;
  dq_keys : ikeys_sub d d';
  dq_callees : callees_le d d'
}.

Lemma dq_refl : forall d, dq d [] d.
Proof. intros d. constructor; [apply noinv_nil|apply iks_refl|apply cle_refl]. Qed.

(** ** The dealer functions *)
Lemma cs_regs d k inv : d_regs (cancel_state d k inv) = d_regs d.
Proof. unfold cancel_state; dproj; apply ct_regs. Qed.

Lemma sync_cancel_dq : forall lk d caller req mode reason ea,
    dq d (snd (sync_cancel lk d caller req mode reason ea)) (fst (sync_cancel lk d caller req mode reason ea)).
Proof.
  intros lk d caller req mode reason ea.
  destruct (sync_cancel_cases lk d caller req mode reason ea) as [E|(ikey & inv & x & Hp & Hc)].
  - rewrite E. apply dq_refl.
  - rewrite (sync_cancel_live _ _ _ _ _ _ _ _ _ _ Hp Hc). destruct Hp as (_ & _ & Hi).
    assert (K1 : ikeys_sub d (cancel_state d ikey inv)).
    { eapply iks_cset; [apply cs_invs|congruence]. }
    destruct (negb (mode =? "skip")%string && callee_can_cancel lk inv && (mode =? "kill")%string); cbn [fst snd].
    + constructor; [now apply noinv_one|exact K1|apply cle_same, cs_regs].
    + constructor.
      * apply noinv_app; [|now apply noinv_one].
        destruct (negb (mode =? "skip")%string && callee_can_cancel lk inv); [now apply noinv_one|apply noinv_nil].
      * eapply iks_trans; [exact K1|]. eapply iks_cdel. apply dc_invs.
      * apply cle_same. rewrite drop_call_regs. apply cs_regs.
Qed.

Lemma cancel_dq : forall lk d caller req opts,
    dq d (snd (cancel lk d caller req opts)) (fst (cancel lk d caller req opts)).
Proof.
  intros. unfold cancel. destruct (_ || _ || _); [apply sync_cancel_dq|].
  destruct (String.eqb _ ""); [apply sync_cancel_dq|].
  cbn [fst snd]. constructor; [now apply noinv_one|apply iks_refl|apply cle_refl].
Qed.

Lemma sync_error_dq : forall d callee req det err args kw,
    dq d (snd (sync_error d callee req det err args kw)) (fst (sync_error d callee req det err args kw)).
Proof.
  intros d callee req det err args kw.
  destruct (sync_error_frame d callee req det err args kw) as (_ & _ & Er).
  constructor; [| |apply cle_same; exact Er].
  - destruct (cget (d_invs d) (callee, req)) as [inv|] eqn:Hi.
    + rewrite (sync_error_owner _ _ _ _ _ _ _ _ Hi). destruct (cget (d_calls d) (inv_call inv)); cbn [snd];
        [now apply noinv_one|apply noinv_nil].
    + rewrite sync_error_unknown by exact Hi. apply noinv_nil.
  - destruct (cget (d_invs d) (callee, req)) as [inv|] eqn:Hi.
    + rewrite (sync_error_owner _ _ _ _ _ _ _ _ Hi). destruct (cget (d_calls d) (inv_call inv)); cbn [fst];
        (eapply iks_cdel; cbn [d_invs d_set_calls]; apply es_invs).
    + rewrite sync_error_unknown by exact Hi. apply iks_refl.
Qed.

Lemma yield_out_noinv : forall lk callee req opts args kw cid x, noinv (yield_out lk callee req opts args kw cid x).
Proof.
  intros. unfold yield_out, ppt_caller_err.
  destruct (opt_bool opts "progress"); destruct (ppt_active opts);
    destruct (has_ppt lk callee "callee"); destruct (has_ppt lk x "caller"); cbn [negb app];
    intros m H; repeat (destruct H as [<-|H]); try destruct H; reflexivity.
Qed.

Lemma ys_regs d k inv : d_regs (yield_state d k inv) = d_regs d.
Proof. unfold yield_state; dproj; apply ct_regs. Qed.

Lemma sync_yield_dq : forall lk d callee req opts args kw,
    dq d (snd (sync_yield lk d callee req opts args kw)) (fst (sync_yield lk d callee req opts args kw)).
Proof.
  intros lk d callee req opts args kw.
  destruct (sync_yield_frame lk d callee req opts args kw) as (_ & _ & Er).
  constructor; [| |apply cle_same; exact Er].
  - destruct (cget (d_invs d) (callee, req)) as [inv|] eqn:Hi.
    + rewrite (sync_yield_owner _ _ _ _ _ _ _ _ Hi). cbn [snd].
      destruct (cget (d_calls d) (inv_call inv)); [apply yield_out_noinv|apply noinv_nil].
    + rewrite sync_yield_unknown by exact Hi. cbn [snd].
      destruct (opt_bool opts "progress"); [now apply noinv_one|apply noinv_nil].
  - destruct (cget (d_invs d) (callee, req)) as [inv|] eqn:Hi.
    + rewrite (sync_yield_owner _ _ _ _ _ _ _ _ Hi). cbn [fst]. unfold yield_result_state.
      destruct (opt_bool opts "progress"); [apply iks_refl|].
      eapply iks_trans; [|eapply iks_cdel; apply dc_invs].
      eapply iks_cset; [apply ys_invs|congruence].
    + rewrite sync_yield_unknown by exact Hi. apply iks_refl.
Qed.

Lemma fire_timers_dq : forall lk now d, dq d (snd (fire_timers lk now d)) (fst (fire_timers lk now d)).
Proof.
  intros lk now d. rewrite fire_timers_fold.
  generalize (sort_timers (filter (fun '((_, (dl, _)) : N * (N * callid)) => dl <=? now) (d_timers d))). intros l.
  assert (G : forall l d0 o, noinv o ->
                noinv (snd (fold_left (fire_step lk) l (d0, o))) /\
                ikeys_sub d0 (fst (fold_left (fire_step lk) l (d0, o))) /\
                callees_le d0 (fst (fold_left (fire_step lk) l (d0, o)))).
  { clear. induction l as [|[tid [dl cid]] l IH]; intros d0 o A; cbn [fold_left].
    - cbn [fst snd]. split; [exact A|]. split; [apply iks_refl|apply cle_refl].
    - unfold fire_step at 2 4 6. destruct (amem N.eqb (d_timers d0) tid); [|apply IH; exact A].
      pose proof (sync_cancel_dq lk (d_set_timers d0 (ndel (d_timers d0) tid) (d_timergen d0)) (fst cid) (snd cid)
                                 "killnowait" e_timeout [vstr "call timeout"]) as [S1 S2 S3].
      destruct (sync_cancel _ _ _ _ _ _ _) as [d2 o2]. cbn [fst snd] in *.
      destruct (IH d2 (o ++ o2)) as (B1 & B2 & B3); [now apply noinv_app|].
      split; [exact B1|]. split.
      + eapply iks_trans; [|exact B2]. exact S2.
      + eapply cle_trans; [|exact B3]. exact S3. }
  destruct (G l d [] noinv_nil) as (A & B & C). constructor; assumption.
Qed.

Lemma register_noinv : forall cfg d callee req opts proc, noinv (snd (fst (register cfg d callee req opts proc))).
Proof.
  intros. pose proof (register_event_order cfg d callee req opts proc) as O.
  destruct (register _ _ _ _ _ _) as [[d' o] mps]. cbn [fst snd].
  destruct O as [(_ & _ & (e & a & ->))|(id & -> & _)]; now apply noinv_one.
Qed.

Lemma register_invs : forall cfg d callee req opts proc,
    d_invs (fst (fst (register cfg d callee req opts proc))) = d_invs d.
Proof.
  intros. unfold register.
  destruct (negb (valid_uri _ _ _)); [reflexivity|].
  destruct (str_prefix_wamp proc && _); [reflexivity|].
  destruct (negb (c_disclose cfg) && _ && _); [reflexivity|].
  destruct (match sget _ _ with Some id => nget (d_regs d) id | None => None end) as [rg|].
  - destruct (negb (shared_policy _) || _ || _); reflexivity.
  - cbn [fst]. destruct (mkind_of (opt_string opts "match")); reflexivity.
Qed.

(** REGISTER: a registration gains a callee only as the REGISTERED says *)
Lemma register_callees : forall cfg d callee req opts proc rid rg' y,
    regs_core d ->
    nget (d_regs (fst (fst (register cfg d callee req opts proc)))) rid = Some rg' -> In y (reg_callees rg') ->
    (exists rg, nget (d_regs d) rid = Some rg /\ In y (reg_callees rg)) \/
    (y = s_id callee /\ In (s_id callee, RRegistered req rid) (snd (fst (register cfg d callee req opts proc)))).
Proof.
  intros cfg d callee req opts proc rid rg' y RC. unfold register.
  destruct (negb (valid_uri _ _ _)); [cbn [fst]; eauto|].
  destruct (str_prefix_wamp proc && _); [cbn [fst]; eauto|].
  destruct (negb (c_disclose cfg) && _ && _); [cbn [fst]; eauto|].
  destruct (match sget _ _ with Some id => nget (d_regs d) id | None => None end) as [rg|] eqn:M.
  - destruct (negb (shared_policy _) || _ || _); [cbn [fst]; eauto|].
    cbn [fst snd d_regs d_set_regs d_set_callee_regs]. rewrite ngs.
    destruct (N.eqb_spec rid (reg_id rg)) as [->|Hn]; [|eauto].
    intros E Hin. inversion E; subst rg'. cbn [reg_callees] in Hin. apply in_app_or in Hin.
    destruct Hin as [Hin|[<-|[]]]; [|right; split; [reflexivity|now left]].
    left. exists rg. split; [|exact Hin].
    destruct (sget _ _) as [id|]; [|discriminate].
    destruct (rw_reg _ RC id rg M) as (<- & _). exact M.
  - cbn [fst snd]. intros E Hin.
    assert (E' : nget (nset (d_regs d) (idgen_next (d_idgen d))
                            (mkReg (idgen_next (d_idgen d)) proc (opt_string opts "match") (opt_string opts "invoke")
                                   (opt_bool opts "disclose_caller") (opt_bool opts "forward_timeout") 0 [s_id callee])) rid = Some rg').
    { destruct (mkind_of (opt_string opts "match")); exact E. }
    rewrite ngs in E'. destruct (N.eqb_spec rid (idgen_next (d_idgen d))) as [->|Hn]; [|eauto].
    inversion E'; subst rg'. cbn [reg_callees] in Hin. destruct Hin as [<-|[]]. right. split; [reflexivity|now left].
Qed.

Lemma del_callee_reg_invs : forall d sid id, d_invs (fst (del_callee_reg d sid id)) = d_invs d.
Proof.
  intros d sid id. unfold del_callee_reg.
  destruct (nget (d_regs d) id) as [rg|]; [|reflexivity].
  destruct (negb (nmem sid (reg_callees rg))); [reflexivity|].
  destruct (nremove1 sid (reg_callees rg)); [|reflexivity].
  destruct (mkind_of (reg_match rg)); reflexivity.
Qed.

Lemma del_callee_reg_cle : forall d sid id, callees_le d (fst (del_callee_reg d sid id)).
Proof.
  intros d sid id. unfold del_callee_reg.
  destruct (nget (d_regs d) id) as [rg|] eqn:Hr; [|apply cle_refl].
  destruct (negb (nmem sid (reg_callees rg))); [apply cle_refl|].
  destruct (nremove1 sid (reg_callees rg)) as [|c cs] eqn:Hc; cbn [fst].
  - intros rid rg' y H Hin.
    assert (H' : nget (ndel (d_regs d) id) rid = Some rg') by (destruct (mkind_of (reg_match rg)); exact H).
    rewrite ngd in H'. destruct (N.eqb rid id); [discriminate|]. eauto.
  - intros rid rg' y H Hin. cbn [d_regs d_set_regs] in H. rewrite ngs in H.
    destruct (N.eqb_spec rid id) as [->|Hn]; [|eauto].
    inversion H; subst rg'. cbn [reg_callees] in Hin. rewrite <- Hc in Hin.
    exists rg. split; [exact Hr|]. eapply In_nremove1; eauto.
Qed.

Lemma unregister_dq : forall d sid req regid,
    dq d (snd (fst (unregister d sid req regid))) (fst (fst (unregister d sid req regid))).
Proof.
  intros d sid req regid. constructor.
  - pose proof (unregister_event_order d sid req regid) as O.
    destruct (unregister _ _ _ _) as [[d' o] mps]. cbn [fst snd].
    destruct O as [(_ & ->)|(-> & _)]; now apply noinv_one.
  - unfold unregister.
    pose proof (del_callee_reg_invs (d_set_callee_regs d (callee_del_reg (d_callee_regs d) sid regid)) sid regid) as E.
    destruct (del_callee_reg _ sid regid) as [d1 [b|]]; cbn [fst] in *; apply iks_same; [exact E|reflexivity].
  - unfold unregister.
    pose proof (del_callee_reg_cle (d_set_callee_regs d (callee_del_reg (d_callee_regs d) sid regid)) sid regid) as E.
    destruct (del_callee_reg _ sid regid) as [d1 [b|]]; cbn [fst] in *; [exact E|apply cle_same; reflexivity].
Qed.

Lemma remove_callee_reg_fold_dq : forall sid regs d mp,
    d_invs (fst (fold_left (remove_callee_reg sid) regs (d, mp))) = d_invs d /\
    callees_le d (fst (fold_left (remove_callee_reg sid) regs (d, mp))).
Proof.
  intros sid. induction regs as [|id regs IH]; intros d mp; cbn [fold_left]; [split; [reflexivity|apply cle_refl]|].
  unfold remove_callee_reg at 2 4.
  pose proof (del_callee_reg_invs d sid id) as E. pose proof (del_callee_reg_cle d sid id) as L.
  destruct (del_callee_reg d sid id) as [d1 [b|]]; cbn [fst] in *.
  - destruct (IH d1 (mp ++ mkMetaPub t_reg_on_unregister [vid sid; vid id] [] [] ::
                        (if b then [mkMetaPub t_reg_on_delete [vid sid; vid id] [] []] else []))) as [A B].
    split; [congruence|eapply cle_trans; eauto].
  - apply IH.
Qed.

Lemma cancel_served_dq : forall lk sid d o e, noinv o ->
    noinv (snd (cancel_served lk sid (d, o) e)) /\ ikeys_sub d (fst (cancel_served lk sid (d, o) e)) /\
    callees_le d (fst (cancel_served lk sid (d, o) e)).
Proof.
  intros lk sid d o [ikey e] A. unfold cancel_served.
  assert (Same : noinv o /\ ikeys_sub d d /\ callees_le d d) by (split; [exact A|split; [apply iks_refl|apply cle_refl]]).
  destruct (cget (d_invs d) ikey) as [inv|] eqn:Hi; [|exact Same].
  destruct (negb (inv_callee inv =? sid)); [exact Same|].
  destruct (cget (d_calls d) (inv_call inv)) as [caller|]; [|exact Same].
  match goal with |- context [sync_cancel lk ?D ?a ?b ?c ?dd ?e0] =>
    pose proof (sync_cancel_dq lk D a b c dd e0) as [S1 S2 S3]; destruct (sync_cancel lk D a b c dd e0) as [d3 o3] end.
  cbn [fst snd] in *. split; [now apply noinv_app|]. split.
  - eapply iks_trans; [|exact S2]. eapply iks_cset; [cbn [d_invs d_set_invs]; rewrite ct_invs; reflexivity|congruence].
  - eapply cle_trans; [|exact S3]. apply cle_same. cbn [d_regs d_set_invs]. apply ct_regs.
Qed.

Lemma drop_own_call_iks : forall sid d e, ikeys_sub d (drop_own_call sid d e).
Proof.
  intros sid d [cid caller]. unfold drop_own_call. destruct (negb (caller =? sid)); [apply iks_refl|].
  cbn [d_bycall d_set_calls d_invs].
  destruct (cget (d_bycall d) cid) as [ikey|]; [|apply iks_same; reflexivity].
  eapply iks_cdel. cbn [d_invs d_set_invs d_set_bycall].
  destruct (cget (d_invs d) ikey) as [inv|]; [rewrite ct_invs|]; reflexivity.
Qed.

Lemma dealer_remove_session_dq : forall lk d sid,
    dq d (snd (fst (dealer_remove_session lk d sid))) (fst (fst (dealer_remove_session lk d sid))).
Proof.
  intros lk d sid. unfold dealer_remove_session.
  destruct (remove_callee_reg_fold_dq sid (match nget (d_callee_regs d) sid with Some l => l | None => [] end) d [])
    as [E1 L1].
  destruct (fold_left (remove_callee_reg sid) _ (d, [])) as [d1 mp]. cbn [fst] in *.
  set (d2 := d_set_callee_regs d1 (ndel (d_callee_regs d1) sid)).
  assert (G : forall l d0 o, noinv o ->
                noinv (snd (fold_left (cancel_served lk sid) l (d0, o))) /\
                ikeys_sub d0 (fst (fold_left (cancel_served lk sid) l (d0, o))) /\
                callees_le d0 (fst (fold_left (cancel_served lk sid) l (d0, o)))).
  { clear. induction l as [|e l IH]; intros d0 o A; cbn [fold_left].
    - cbn [fst snd]. split; [exact A|]. split; [apply iks_refl|apply cle_refl].
    - destruct (cancel_served_dq lk sid d0 o e A) as (B1 & B2 & B3).
      destruct (cancel_served lk sid (d0, o) e) as [d3 o3]. cbn [fst snd] in *.
      destruct (IH d3 o3 B1) as (C1 & C2 & C3). split; [exact C1|]. split; [eapply iks_trans; eauto|eapply cle_trans; eauto]. }
  destruct (G (d_invs d2) d2 [] noinv_nil) as (A & B & C).
  destruct (fold_left (cancel_served lk sid) (d_invs d2) (d2, [])) as [d3 o]. cbn [fst snd] in *.
  assert (H : forall l d0, ikeys_sub d0 (fold_left (drop_own_call sid) l d0) /\
                           d_regs (fold_left (drop_own_call sid) l d0) = d_regs d0).
  { clear. induction l as [|e l IH]; intros d0; cbn [fold_left]; [split; [apply iks_refl|reflexivity]|].
    destruct (IH (drop_own_call sid d0 e)) as [I1 I2]. split.
    - eapply iks_trans; [apply drop_own_call_iks|exact I1].
    - rewrite I2. apply drop_own_call_regs. }
  destruct (H (d_calls d3) d3) as [H1 H2].
  constructor; cbn [fst snd].
  - exact A.
  - eapply iks_trans; [|exact H1]. eapply iks_trans; [|exact B]. apply iks_same. exact E1.
  - eapply cle_trans; [|apply cle_same; exact H2]. eapply cle_trans; [|exact C].
    eapply cle_trans; [exact L1|]. apply cle_same. reflexivity.
Qed.

(** ** CALL *)
Lemma nps_iks : forall d cid, ikeys_sub d (no_proc_state d cid).
Proof.
  intros d cid. unfold no_proc_state. destruct (cget (d_bycall d) cid) as [k|]; [|apply iks_refl].
  eapply iks_cdel. rewrite dc_invs. destruct (cget (d_invs d) k); [rewrite ct_invs|]; reflexivity.
Qed.

Lemma call_d0_cle : forall d r next, nget (d_regs d) (reg_id r) = Some r -> callees_le d (call_d0 d r next).
Proof.
  intros d r next Hr rid rg' y H Hin. unfold call_d0 in H. cbn [d_regs d_set_regs] in H. rewrite ngs in H.
  destruct (N.eqb_spec rid (reg_id r)) as [->|Hn]; [|eauto].
  inversion H; subst rg'. exists r. split; [exact Hr|exact Hin].
Qed.

Lemma call_inv_facts : forall cfg lk now d caller req opts proc args kw oracle,
    dealer_wf lk d -> lookup_ok lk -> nowrap lk ->
    match call cfg lk now d caller req opts proc args kw oracle with
    | CallRefused d' o => dq d o d'
    | CallAbort o => noinv o
    | CallInvoked d' callee' o =>
        callees_le d d' /\
        exists y b rid det, o = [(y, RInvocation b rid det args kw)] /\ s_id callee' = y /\
          ((cget (d_invs d) (y, b) <> None /\ ikeys_sub d d' /\ lk y = Some callee') \/
           (exists callee0 rg, lk y = Some callee0 /\ b = s_invgen callee0 + 1 /\ s_invgen callee' = b /\
              nget (d_regs d) rid = Some rg /\ In y (reg_callees rg) /\
              (forall k, cget (d_invs d') k <> None -> k = (y, b) \/ cget (d_invs d) k <> None)))
    end.
Proof.
  intros cfg lk now d caller req opts proc args kw oracle WF LOK NW.
  assert (Hreg : forall r, match_procedure d proc oracle = Some r -> nget (d_regs d) (reg_id r) = Some r).
  { intros r Hm. apply (best_match_sound lk d WF) in Hm. destruct Hm as [Hr _]. exact Hr. }
  assert (Hnps : dq d [no_proc_msg (s_id caller) req] (no_proc_state d (s_id caller, req))).
  { constructor; [now apply noinv_one|apply nps_iks|apply cle_same].
    destruct (nps_frame d (s_id caller, req)) as (_ & _ & E & _). exact E. }
  assert (Hsame : forall m, is_inv m = false -> dq d [m] d).
  { intros m Hm. constructor; [now apply noinv_one|apply iks_refl|apply cle_refl]. }
  assert (Hd0 : forall r next m, match_procedure d proc oracle = Some r -> is_inv m = false -> dq d [m] (call_d0 d r next)).
  { intros r next m Hm Hi. constructor; [now apply noinv_one|apply iks_same; reflexivity|apply call_d0_cle; auto]. }
  pose proof (call_cases cfg lk now d caller req opts proc args kw oracle) as C.
  inversion C as [Hm E|r Hm Hc E|r Hm Hc Ha E|r ikey Hm Hc Ha Hb Hi E|r ikey inv Hm Hc Ha Hb Hi Hl E
                  |r ikey inv callee Hm Hc Ha Hb Hi Hl E|r Hm Hc Ha Hb Hs E|r cid0 next Hm Hc Ha Hb Hs Hl E
                  |r cid0 next callee Hm Hc Ha Hb Hs Hl Hf E
                  |r cid0 next callee Hm Hc Ha Hb Hs Hl Hf Hpa E|r cid0 next callee Hm Hc Ha Hb Hs Hl Hf Hpa Hpr E
                  |r cid0 next callee Hm Hc Ha Hb Hs Hl Hf Hpa Hpr Hd E
                  |r cid0 next callee Hm Hc Ha Hb Hs Hl Hf Hpa Hpr Hd E].
  - exact Hnps.
  - exact Hnps.
  - now apply noinv_one.
  - apply dq_refl.
  - apply dq_refl.
  - (* chunk *)
    destruct (cw_inv _ (wf_calls _ _ WF) _ _ Hi) as (_ & Hfst).
    pose proof (LOK _ _ Hl) as Hid. split; [apply cle_same; apply chs_regs|].
    exists (s_id callee), (snd ikey), (reg_id r), [("progress", VBool (opt_bool opts "progress"))].
    split; [reflexivity|]. split; [reflexivity|]. left.
    assert (Ek : (s_id callee, snd ikey) = ikey) by (rewrite Hid, Hfst; destruct ikey; reflexivity).
    rewrite Ek. split; [congruence|]. split.
    + eapply iks_cset; [apply chs_invs|congruence].
    + rewrite Hid. exact Hl.
  - apply Hsame; reflexivity.
  - apply Hsame; reflexivity.
  - eapply Hd0; eauto.
  - now apply noinv_one.
  - eapply Hd0; eauto.
  - eapply Hd0; eauto.
  - (* first *)
    pose proof (LOK _ _ Hl) as Hid.
    split.
    { intros rid rg' y H Hin. rewrite cfs_regs in H. rewrite ngs in H.
      destruct (N.eqb_spec rid (reg_id r)) as [->|Hn]; [|eauto].
      inversion H; subst rg'. exists r. split; [auto|exact Hin]. }
    exists cid0, (idgen_next (s_invgen callee)), (reg_id r), (call_details cfg caller callee r opts proc).
    split; [reflexivity|]. split; [cbn [set_invgen s_id]; exact Hid|]. right.
    exists callee, r. split; [exact Hl|]. split; [apply idgen_next_nowrap; eapply NW; eauto|].
    split; [reflexivity|]. split; [auto|]. split; [eapply select_callee_In; eauto|].
    intros k. rewrite cfs_invs, cget_cset. destruct (pair_eqb_spec k (cid0, idgen_next (s_invgen callee))); auto.
Qed.
