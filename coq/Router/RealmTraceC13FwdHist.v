(** * Histories of the whole model, C13 (forward_timeout per callee), part 2:
    histories.

    For every history [ops = pre ++ o :: post] of a realm created with [cfg]
    (side hypotheses of the reachable-state theorems), with
    [r = fst (run (init_realm cfg) pre)] the state before the step [o]:
    - [timeout_forwarded_iff_hist_proof]: the INVOCATION a step sends carries
      [timeout] exactly when it is a first chunk, the CALL's timeout is
      positive, the callee's record announces call_timeout and THIS callee is
      in the registration's [reg_fwd_timeout];
    - [forward_flag_origin_proof]: a client session in the list of [rid] has
      its own REGISTER with [forward_timeout = true], answered REGISTERED
      [rid], earlier in the history, and has been in the list, a callee and
      attached in every state since ([fwd_witness_hist]); no UNREGISTER of
      [rid] by it was answered UNREGISTERED since;
    - [rejoin_without_forward_flag_proof]: a session that is not attached is
      in no list, and joining puts it in none;
    - [timeout_forwarded_only_if_callee_asked_proof]: [timeout] reaches a
      callee only if it announced call_timeout and asked at its own REGISTER. *)
From Nexus Require Import Router.Realm Router.AssocLemmas Router.RealmLib Router.RealmProofs
     Router.RealmMetaProofs Router.RealmLeave.
From Nexus Require Import Router.DealerLib Router.DealerProofs Router.DealerReg Router.DealerCall Router.DealerWf
     Router.DealerWfCalls Router.DealerWfRegs Router.DealerRemove Router.DealerReply Router.DealerTimers
     Router.DealerOwned.
From Nexus Require Import Router.RealmWf Router.RealmStep Router.RealmC05 Router.RealmOutputs Router.RealmIdle.
From Nexus Require Import Router.RealmTraceLib Router.RealmTrace Router.RealmTraceC05 Router.RealmTraceInv.
From Nexus Require Import Router.RealmTraceC12Dealer Router.RealmTraceC12Inv Router.RealmTraceC12Reg Router.RealmTraceC12.
From Nexus Require Import Router.RealmTraceC13Fwd.
From Coq Require Import Lia ZifyN ZifyNat ZifyBool.

(** ** The INVOCATION a step sends, with its details *)
Theorem step_inv_details : forall r o,
    realm_wf r ->
    forall y b rid det a k, In (y, RInvocation b rid det a k) (snd (step r o)) ->
      y <> meta_id /\
      exists x m orc xs q opts proc,
        o = OMsg x m orc /\ find_session (r_clients r) x = Some xs /\
        gate r xs m = inl (CCall q opts proc a k) /\
        ((cget (d_bycall (r_dealer r)) (x, q) <> None /\ det = [("progress", VBool (opt_bool opts "progress"))]) \/
         (cget (d_bycall (r_dealer r)) (x, q) = None /\
          exists rg ys, nget (d_regs (r_dealer r)) rid = Some rg /\ In y (reg_callees rg) /\
                        find_session (r_clients r) y = Some ys /\
                        det = call_details (r_cfg r) xs ys y rg opts proc)).
Proof.
  intros r o W y b rid det a k.
  pose proof (rw_dealer r W) as Wd.
  pose proof (lookup_ok_realm r (rw_meta_id r W)) as LOK.
  assert (No : forall out, noinv out -> In (y, RInvocation b rid det a k) out -> False).
  { intros out Hn Hin. specialize (Hn _ Hin). discriminate Hn. }
  destruct o as [sid lc h|sid m oracle|sid|ms].
  - cbn [step]. unfold join. destruct (negb (has_role h) || is_some (lookup r sid)); [intros []|].
    intros Hin. exfalso. eapply No; [|exact Hin]. apply allb_noinv. apply meta_publish_allb.
  - rewrite step_msg_eq. destruct (find_session (r_clients r) sid) as [s|] eqn:F; [|intros []].
    pose proof (find_session_id _ _ _ F) as Es.
    destruct (gate r s m) as [m'|out] eqn:Eg.
    2:{ cbn [snd]. intros Hin. exfalso.
        destruct (gate_refusal_shape r s m out Eg) as [->|(dt & e & ar & ->)]; [destruct Hin|].
        destruct Hin as [H|[]]. discriminate H. }
    destruct (is_call m') eqn:Ic.
    2:{ intros Hin. exfalso. eapply No; [|exact Hin]. now apply handle_noinv. }
    destruct m'; try discriminate Ic. clear Ic. cbn [handle].
    pose proof (call_c12 (r_cfg r) (lookup r) (r_now r) (r_dealer r) s req opts proc args kw oracle Wd LOK) as CF.
    destruct (call _ _ _ _ _ _ _ _ _ _ _) as [d o0|o0|d callee' o0] eqn:Ecall.
    + cbn [snd]. intros Hin. exfalso. eapply No; [|exact Hin]. exact (proj2 CF).
    + cbv zeta. pose proof (leave_noinv (r_set_dealer r (call_abort_dealer (lookup r) (r_dealer r) s req opts proc oracle)) (s_id s)) as L.
      destruct (leave _ (s_id s)) as [r1 o1]. cbn [snd] in *.
      intros Hin. exfalso. eapply No; [|exact Hin]. apply noinv_app; [exact (proj2 CF)|exact L].
    + destruct CF as (_ & (b0 & rid0 & det0 & Eo) & _).
      destruct (N.eqb_spec (s_id callee') meta_id) as [Em|Em].
      * rewrite Eo, Em. intros Hin. exfalso. eapply No; [|exact Hin].
        destruct (run_meta_invocation_meta_qstep (update_session (r_set_dealer r d) callee') b0 rid0 det0 args kw oracle)
          as [A _ _ _]. exact A.
      * rewrite Eo, (run_meta_invocation_client _ (s_id callee') b0 rid0 det0 args kw oracle Em). cbn [snd].
        intros [Hin|[]]. injection Hin as E1 E2 E3 E4 E5 E6. subst y b rid det a k.
        split; [exact Em|].
        exists sid, m, oracle, s, req, opts, proc. split; [reflexivity|]. split; [exact F|]. split; [exact Eg|].
        rewrite <- Es.
        destruct (cget (d_bycall (r_dealer r)) (s_id s, req)) as [ikey|] eqn:Hb.
        -- left. split; [discriminate|].
           destruct (chunk_spec_proof _ _ _ _ _ _ _ _ _ _ _ _ _ _ _ Ecall Hb) as (rg & inv & _ & _ & _ & Eo' & _).
           rewrite Eo in Eo'. injection Eo' as _ _ Ed. exact Ed.
        -- right. split; [reflexivity|].
           destruct (invocation_spec_proof _ _ _ _ _ _ _ _ _ _ _ _ _ _ Ecall Hb)
             as (rg & cid0 & next & callee & Hm & _ & Hinc & Hl & Rest).
           cbv zeta in Rest. destruct Rest as (Eo' & _).
           rewrite Eo in Eo'. injection Eo' as Ec1 _ Er1 Ed1. subst cid0 rid0 det0.
           destruct (best_match_sound (lookup r) (r_dealer r) Wd proc oracle rg Hm) as [Hr _].
           unfold registered in Hr.
           assert (Hf : find_session (r_clients r) (s_id callee') = Some callee).
           { unfold lookup in Hl. destruct (N.eqb_spec (s_id callee') meta_id); [contradiction|exact Hl]. }
           exists rg, callee. split; [exact Hr|]. split; [exact Hinc|]. split; [exact Hf|reflexivity].
  - cbn [step]. intros Hin. exfalso. eapply No; [|exact Hin]. apply leave_noinv.
  - cbn [step]. set (r1 := r_set_now r (r_now r + ms)).
    pose proof (fire_timers_dq (lookup r1) (r_now r1) (r_dealer r1)) as [D _ _].
    destruct (fire_timers _ _ _) as [d out]. cbn [fst snd] in *. intros Hin. exfalso. eapply No; eauto.
Qed.



(** ** The initial registrations *)
Lemma init_fold_fok : forall cfg names d procs,
    fwd_ok d -> fwd_ok (fst (fold_left (init_f cfg) names (d, procs))).
Proof.
  intros cfg names; induction names as [|name names IH]; intros d procs OK; cbn [fold_left]; [exact OK|].
  pose proof (register_fok cfg d meta_session (N.of_nat (List.length procs) + 1) [("disclose_caller", VBool true)] name OK) as K1.
  rewrite <- (init_f_fst cfg d procs name) in K1.
  destruct (init_f cfg (d, procs) name) as [d1 procs']. cbn [fst] in *. now apply IH.
Qed.

Lemma init_fwd_ok : forall cfg, k0 cfg <= max_idN -> fwd_ok (r_dealer (init_realm cfg)).
Proof.
  intros cfg _. destruct (init_realm_parts cfg) as (_ & _ & _ & ->). unfold dealer0.
  apply init_fold_fok. intros rid rg H. discriminate H.
Qed.

(** ** Histories *)
Definition holds_fwd (r : realm) (rid sid : N) : Prop :=
  exists rg, nget (d_regs (r_dealer r)) rid = Some rg /\ In sid (reg_fwd_timeout rg).

(** [sid] asked at some step of the history and has held the flag of [rid]
    in every state since *)
Definition fwd_witness_hist (cfg : config) (ops : list op) (rid sid : N) : Prop :=
  exists pre o post,
    ops = pre ++ o :: post /\ fwd_asked (fst (run (init_realm cfg) pre)) o rid sid /\
    forall mid rest, post = mid ++ rest -> holds_fwd (fst (run (init_realm cfg) (pre ++ o :: mid))) rid sid.

Definition fwd_inv (cfg : config) (ops : list op) (r : realm) : Prop :=
  fwd_ok (r_dealer r) /\
  forall rid sid, holds_fwd r rid sid -> sid <> meta_id -> fwd_witness_hist cfg ops rid sid.

Theorem run_fwd_inv : forall cfg ops,
    Forall op_ok ops -> k0 cfg + N.of_nat (List.length ops) <= max_idN ->
    fwd_inv cfg ops (fst (run (init_realm cfg) ops)).
Proof.
  intros cfg ops. induction ops as [|o ops IH] using rev_ind; intros Ho Hk.
  - cbn [run fold_left fst]. cbn [List.length] in Hk.
    assert (OK : fwd_ok (r_dealer (init_realm cfg))) by (apply init_fwd_ok; lia).
    split; [exact OK|]. intros rid sid (rg & H & Hy) Hn. exfalso.
    destruct (init_realm_wf cfg) as [W _]; [lia|].
    destruct (OK rid rg H) as [I1 _].
    pose proof (wf_regs_att _ _ (rw_dealer _ W) rid rg sid H (I1 sid Hy)) as A. unfold attached, lookup in A.
    destruct (init_realm_parts cfg) as (_ & Ec & _). rewrite Ec in A.
    destruct (N.eqb_spec sid meta_id); [contradiction|]. apply A. reflexivity.
  - rewrite app_length in Hk. cbn [List.length] in Hk.
    apply Forall_app in Ho. destruct Ho as [Ho1 _].
    assert (W : realm_wf (fst (run (init_realm cfg) ops))) by (apply reachable_realm_wf; [exact Ho1|lia]).
    destruct (IH Ho1 ltac:(lia)) as [OK I].
    destruct (step_fwd _ o W) as [S1 S2].
    split; [rewrite run_app1; auto|].
    intros rid sid Hf Hn. pose proof Hf as (rg' & H & Hy). rewrite run_app1 in H.
    destruct (S1 rid rg' sid H Hy) as [(rg & H0 & Hy0)|Asked].
    + destruct (I rid sid (ex_intro _ rg (conj H0 Hy0)) Hn) as (pre & o1 & post & -> & As & Since).
      exists pre, o1, (post ++ [o]). split; [now rewrite <- app_assoc|]. split; [exact As|].
      intros mid rest E. destruct (snoc_split post o mid rest E) as [(-> & ->)|(rest' & -> & ->)].
      * replace (pre ++ o1 :: post ++ [o]) with ((pre ++ o1 :: post) ++ [o]) by (now rewrite <- app_assoc). exact Hf.
      * apply (Since mid rest'). reflexivity.
    + exists ops, o, []. split; [reflexivity|]. split; [exact Asked|].
      intros mid rest E. symmetry in E. apply app_eq_nil in E. destruct E as [-> _]. exact Hf.
Qed.

Theorem fwd_origin : forall cfg ops rid sid,
    Forall op_ok ops -> k0 cfg + N.of_nat (List.length ops) <= max_idN ->
    holds_fwd (fst (run (init_realm cfg) ops)) rid sid -> sid <> meta_id ->
    fwd_witness_hist cfg ops rid sid.
Proof. intros cfg ops rid sid Ho Hk Hf Hn. exact (proj2 (run_fwd_inv cfg ops Ho Hk) rid sid Hf Hn). Qed.

(** a session in the list is a callee of the registration and attached *)
Theorem fwd_holder_attached : forall cfg ops rid sid,
    Forall op_ok ops -> k0 cfg + N.of_nat (List.length ops) <= max_idN ->
    holds_fwd (fst (run (init_realm cfg) ops)) rid sid ->
    (exists rg, nget (d_regs (r_dealer (fst (run (init_realm cfg) ops)))) rid = Some rg /\ In sid (reg_callees rg)) /\
    (sid = meta_id \/ client (fst (run (init_realm cfg) ops)) sid).
Proof.
  intros cfg ops rid sid Ho Hk (rg & H & Hy).
  destruct (run_fwd_inv cfg ops Ho Hk) as [OK _]. destruct (OK rid rg H) as [I1 _].
  pose proof (reachable_realm_wf cfg ops Ho Hk) as W.
  split; [exists rg; split; [exact H|now apply I1]|].
  pose proof (wf_regs_att _ _ (rw_dealer _ W) rid rg sid H (I1 sid Hy)) as A. unfold attached, lookup in A.
  destruct (N.eqb_spec sid meta_id); [now left|right; exact A].
Qed.

(** UNREGISTER answered UNREGISTERED: out of the list *)
Theorem step_unregistered_drops_fwd : forall r sid m s q rid q' oracle,
    realm_wf r -> fwd_ok (r_dealer r) -> find_session (r_clients r) sid = Some s ->
    gate r s m = inl (CUnregister q rid) ->
    In (sid, RUnregistered q') (snd (step r (OMsg sid m oracle))) ->
    ~ holds_fwd (fst (step r (OMsg sid m oracle))) rid sid.
Proof.
  intros r sid m s q rid q' oracle W OK F Eg. rewrite step_msg_eq, F, Eg. cbn [handle].
  pose proof (find_session_id _ _ _ F) as Es. rewrite Es.
  pose proof (unregister_event_order (r_dealer r) sid q rid) as O.
  pose proof (no_route_after_unregister_proof (lookup r) (r_dealer r) sid q rid) as NR.
  pose proof (unregister_fk (r_dealer r) sid q rid) as [_ K].
  destruct (unregister (r_dealer r) sid q rid) as [[d o] mps].
  pose proof (meta_publish_all_allb mps (r_set_dealer r d)) as M.
  pose proof (meta_publish_all_dealer mps (r_set_dealer r d)) as E.
  destruct (meta_publish_all _ mps) as [r1 o1]. cbn [fst snd] in *. cbn [r_dealer r_set_dealer] in E.
  intros Hin (rg & H & Hy). rewrite E in H. apply in_app_or in Hin.
  destruct O as [(_ & ->)|(-> & _)].
  - destruct Hin as [[Hx|[]]|Hx]; [discriminate Hx|]. specialize (M _ Hx). discriminate M.
  - destruct (NR d mps (rw_dealer r W) eq_refl) as [_ N0].
    destruct (K OK rid rg H) as [I1 _]. exact (N0 rg H (I1 sid Hy)).
Qed.

(** a session that is not attached is in no list; joining changes no list *)
Theorem join_no_fwd : forall cfg ops sid l h rid,
    Forall op_ok ops -> k0 cfg + N.of_nat (List.length ops) <= max_idN ->
    sid <> meta_id -> ~ client (fst (run (init_realm cfg) ops)) sid ->
    ~ holds_fwd (fst (step (fst (run (init_realm cfg) ops)) (OJoin sid l h))) rid sid.
Proof.
  intros cfg ops sid l h rid Ho Hk Hn Hc Hf.
  assert (Hf0 : holds_fwd (fst (run (init_realm cfg) ops)) rid sid).
  { destruct Hf as (rg & H & Hy). exists rg. split; [|exact Hy]. revert H. cbn [step]. unfold join.
    destruct (negb (has_role h) || is_some (lookup _ sid)); [auto|]. now rewrite meta_publish_dealer. }
  destruct (fwd_holder_attached cfg ops rid sid Ho Hk Hf0) as [_ [E|C]]; contradiction.
Qed.

(** ** The history theorems *)
Lemma timeout_of_details : forall cfg xs ys y rg opts proc,
    dget (call_details cfg xs ys y rg opts proc) "timeout" =
    (if (0 <? opt_int64 opts "timeout")%Z && sess_feature ys "callee" f_call_timeout && reg_forwards rg y
     then Some (VInt KInt64 (opt_int64 opts "timeout")) else None).
Proof.
  intros. destruct (call_details_spec cfg xs ys y rg opts proc) as (_ & _ & _ & D & _).
  rewrite D. unfold timeout_forwarded. now rewrite andb_assoc.
Qed.

Theorem timeout_forwarded_iff_hist_proof : forall cfg pre o post y inv rid det a k,
    let ops := pre ++ o :: post in
    let r := fst (run (init_realm cfg) pre) in
    Forall op_ok ops -> k0 cfg + N.of_nat (List.length ops) <= max_idN ->
    In (y, RInvocation inv rid det a k) (snd (step r o)) ->
    y <> meta_id /\
    exists x m orc xs q opts proc,
      o = OMsg x m orc /\ find_session (r_clients r) x = Some xs /\
      gate r xs m = inl (CCall q opts proc a k) /\
      ((* a further chunk: progress only, no timeout *)
       (cget (d_bycall (r_dealer r)) (x, q) <> None /\
        det = [("progress", VBool (opt_bool opts "progress"))] /\ dget det "timeout" = None) \/
       (* a first chunk *)
       (cget (d_bycall (r_dealer r)) (x, q) = None /\
        exists rg ys,
          nget (d_regs (r_dealer r)) rid = Some rg /\ In y (reg_callees rg) /\
          find_session (r_clients r) y = Some ys /\
          dget det "timeout" =
          (if (0 <? opt_int64 opts "timeout")%Z && sess_feature ys "callee" "call_timeout" && reg_forwards rg y
           then Some (VInt KInt64 (opt_int64 opts "timeout")) else None))).
Proof.
  intros cfg pre o post y inv rid det a k ops r Ho Hk Hin.
  destruct (reach_prefix cfg pre o post Ho Hk) as (_ & _ & W & _ & _). fold r in W.
  destruct (step_inv_details r o W y inv rid det a k Hin) as (Hy & x & m & orc & xs & q & opts & proc & Eo & Fx & Eg & Kind).
  split; [exact Hy|]. exists x, m, orc, xs, q, opts, proc. repeat (split; [assumption|]).
  destruct Kind as [(Hb & ->)|(Hb & rg & ys & Hr & Hc & Fy & ->)].
  - left. split; [exact Hb|]. split; reflexivity.
  - right. split; [exact Hb|]. exists rg, ys. repeat (split; [assumption|]). apply timeout_of_details.
Qed.

Theorem timeout_forwarded_iff_hist_noauthz_proof : forall cfg pre o post y inv rid det a k,
    let ops := pre ++ o :: post in
    let r := fst (run (init_realm cfg) pre) in
    c_authz cfg = None ->
    Forall op_ok ops -> k0 cfg + N.of_nat (List.length ops) <= max_idN ->
    In (y, RInvocation inv rid det a k) (snd (step r o)) ->
    y <> meta_id /\
    exists x orc xs q opts proc,
      o = OMsg x (CCall q opts proc a k) orc /\ find_session (r_clients r) x = Some xs /\
      ((cget (d_bycall (r_dealer r)) (x, q) <> None /\
        det = [("progress", VBool (opt_bool opts "progress"))] /\ dget det "timeout" = None) \/
       (cget (d_bycall (r_dealer r)) (x, q) = None /\
        exists rg ys,
          nget (d_regs (r_dealer r)) rid = Some rg /\ In y (reg_callees rg) /\
          find_session (r_clients r) y = Some ys /\
          dget det "timeout" =
          (if (0 <? opt_int64 opts "timeout")%Z && sess_feature ys "callee" "call_timeout" && reg_forwards rg y
           then Some (VInt KInt64 (opt_int64 opts "timeout")) else None))).
Proof.
  intros cfg pre o post y inv rid det a k ops r Ha Ho Hk Hin.
  destruct (reach_prefix cfg pre o post Ho Hk) as (_ & _ & _ & _ & Ec). fold r in Ec.
  destruct (timeout_forwarded_iff_hist_proof cfg pre o post y inv rid det a k Ho Hk Hin)
    as (Hy & x & m & orc & xs & q & opts & proc & Eo & Fx & Eg & Kind).
  fold r in Eg. rewrite gate_none in Eg by (rewrite Ec; exact Ha). inversion Eg; subst m.
  split; [exact Hy|]. exists x, orc, xs, q, opts, proc. split; [exact Eo|]. split; [exact Fx|exact Kind].
Qed.

(** [fwd_witness_hist] spelled out *)
Lemma fwd_witness_hist_meaning : forall cfg ops rid sid,
    fwd_witness_hist cfg ops rid sid <->
    exists pre o post m orc xs req opts proc,
      ops = pre ++ o :: post /\
      o = OMsg sid m orc /\ find_session (r_clients (fst (run (init_realm cfg) pre))) sid = Some xs /\
      gate (fst (run (init_realm cfg) pre)) xs m = inl (CRegister req opts proc) /\
      In (sid, RRegistered req rid) (snd (step (fst (run (init_realm cfg) pre)) o)) /\
      opt_bool opts "forward_timeout" = true /\
      forall mid rest, post = mid ++ rest ->
        exists rg, nget (d_regs (r_dealer (fst (run (init_realm cfg) (pre ++ o :: mid))))) rid = Some rg /\
                   In sid (reg_fwd_timeout rg).
Proof.
  intros cfg ops rid sid. unfold fwd_witness_hist, fwd_asked, holds_fwd. split.
  - intros (pre & o & post & E & (m & orc & xs & req & opts & proc & Eo & Fx & Eg & Hin & Hd) & Since).
    exists pre, o, post, m, orc, xs, req, opts, proc. auto 12.
  - intros (pre & o & post & m & orc & xs & req & opts & proc & E & Eo & Fx & Eg & Hin & Hd & Since).
    exists pre, o, post. split; [exact E|]. split; [|exact Since]. exists m, orc, xs, req, opts, proc. auto 10.
Qed.

Theorem forward_flag_origin_proof : forall cfg ops rid rg sid,
    Forall op_ok ops -> k0 cfg + N.of_nat (List.length ops) <= max_idN ->
    nget (d_regs (r_dealer (fst (run (init_realm cfg) ops)))) rid = Some rg ->
    In sid (reg_fwd_timeout rg) -> sid <> meta_id ->
    exists pre o post m orc xs req opts proc,
      ops = pre ++ o :: post /\
      let r1 := fst (run (init_realm cfg) pre) in
      (* the session's own REGISTER with forward_timeout *)
      o = OMsg sid m orc /\ find_session (r_clients r1) sid = Some xs /\
      gate r1 xs m = inl (CRegister req opts proc) /\
      In (sid, RRegistered req rid) (snd (step r1 o)) /\
      opt_bool opts "forward_timeout" = true /\
      (* in every state since: attached, in the list, a callee of [rid] *)
      (forall mid rest, post = mid ++ rest ->
         let r2 := fst (run (init_realm cfg) (pre ++ o :: mid)) in
         client r2 sid /\
         exists rg2, nget (d_regs (r_dealer r2)) rid = Some rg2 /\ In sid (reg_fwd_timeout rg2) /\ In sid (reg_callees rg2)) /\
      (* no UNREGISTER of [rid] by it was answered UNREGISTERED since *)
      (forall mid u rest m2 orc2 s2 q q', post = mid ++ u :: rest ->
         let r2 := fst (run (init_realm cfg) (pre ++ o :: mid)) in
         u = OMsg sid m2 orc2 -> find_session (r_clients r2) sid = Some s2 ->
         gate r2 s2 m2 = inl (CUnregister q rid) -> ~ In (sid, RUnregistered q') (snd (step r2 u))).
Proof.
  intros cfg ops rid rg sid Ho Hk H Hy Hn.
  destruct (fwd_origin cfg ops rid sid Ho Hk (ex_intro _ rg (conj H Hy)) Hn) as (pre & o & post & E & As & Since).
  destruct As as (m & orc & xs & req & opts & proc & Eo & Fx & Eg & Hin & Hd).
  exists pre, o, post, m, orc, xs, req, opts, proc. split; [exact E|]. cbv zeta.
  repeat (split; [assumption|]). split.
  - intros mid rest Ep. pose proof (Since mid rest Ep) as Hf.
    assert (Hp : Forall op_ok (pre ++ o :: mid) /\ k0 cfg + N.of_nat (List.length (pre ++ o :: mid)) <= max_idN).
    { apply (prefix_hyps cfg (pre ++ o :: mid) rest); rewrite <- app_assoc; cbn [app]; rewrite <- Ep, <- E; assumption. }
    destruct Hp as [Hp1 Hp2].
    destruct (fwd_holder_attached cfg (pre ++ o :: mid) rid sid Hp1 Hp2 Hf) as [(rg2 & H2 & Hc2) [Em|Cl]]; [contradiction|].
    split; [exact Cl|]. destruct Hf as (rg3 & H3 & Hy3). exists rg3. split; [exact H3|]. split; [exact Hy3|]. congruence.
  - intros mid u rest m2 orc2 s2 q q' Ep Eu F2 Eg2 Hin2.
    assert (Hp : Forall op_ok (pre ++ o :: mid) /\ k0 cfg + N.of_nat (List.length (pre ++ o :: mid)) <= max_idN).
    { apply (prefix_hyps cfg (pre ++ o :: mid) (u :: rest)); rewrite <- app_assoc; cbn [app]; rewrite <- Ep, <- E; assumption. }
    destruct Hp as [Hp1 Hp2].
    pose proof (reachable_realm_wf cfg _ Hp1 Hp2) as W2.
    destruct (run_fwd_inv cfg _ Hp1 Hp2) as [OK2 _].
    rewrite Eu in Hin2.
    apply (step_unregistered_drops_fwd _ sid m2 s2 q rid q' orc2 W2 OK2 F2 Eg2 Hin2).
    pose proof (Since (mid ++ [u]) rest) as Hf. rewrite <- app_assoc in Hf. specialize (Hf Ep).
    replace (pre ++ o :: mid ++ [u]) with ((pre ++ o :: mid) ++ [u]) in Hf by (rewrite <- app_assoc; reflexivity).
    rewrite run_app1, Eu in Hf. exact Hf.
Qed.

Theorem rejoin_without_forward_flag_proof : forall cfg ops sid l h rid,
    Forall op_ok ops -> k0 cfg + N.of_nat (List.length ops) <= max_idN ->
    sid <> meta_id -> ~ client (fst (run (init_realm cfg) ops)) sid ->
    (forall rg, nget (d_regs (r_dealer (fst (run (init_realm cfg) ops)))) rid = Some rg -> ~ In sid (reg_fwd_timeout rg)) /\
    (forall rg, nget (d_regs (r_dealer (fst (step (fst (run (init_realm cfg) ops)) (OJoin sid l h))))) rid = Some rg ->
                ~ In sid (reg_fwd_timeout rg)).
Proof.
  intros cfg ops sid l h rid Ho Hk Hn Hc. split.
  - intros rg H Hy. destruct (fwd_holder_attached cfg ops rid sid Ho Hk (ex_intro _ rg (conj H Hy))) as [_ [E|C]]; contradiction.
  - intros rg H Hy. apply (join_no_fwd cfg ops sid l h rid Ho Hk Hn Hc). exists rg. auto.
Qed.

Theorem timeout_forwarded_only_if_callee_asked_proof : forall cfg pre o post y inv rid det a k,
    let ops := pre ++ o :: post in
    let r := fst (run (init_realm cfg) pre) in
    Forall op_ok ops -> k0 cfg + N.of_nat (List.length ops) <= max_idN ->
    In (y, RInvocation inv rid det a k) (snd (step r o)) ->
    dget det "timeout" <> None ->
    exists x m orc xs q opts proc rg ys,
      o = OMsg x m orc /\ find_session (r_clients r) x = Some xs /\
      gate r xs m = inl (CCall q opts proc a k) /\
      cget (d_bycall (r_dealer r)) (x, q) = None /\
      y <> meta_id /\ find_session (r_clients r) y = Some ys /\
      nget (d_regs (r_dealer r)) rid = Some rg /\ In y (reg_callees rg) /\
      sess_feature ys "callee" "call_timeout" = true /\
      In y (reg_fwd_timeout rg) /\ fwd_witness_hist cfg pre rid y /\
      (0 < opt_int64 opts "timeout")%Z /\
      dget det "timeout" = Some (VInt KInt64 (opt_int64 opts "timeout")).
Proof.
  intros cfg pre o post y inv rid det a k ops r Ho Hk Hin Hd.
  destruct (reach_prefix cfg pre o post Ho Hk) as (Ho1 & Hk1 & _). 
  destruct (timeout_forwarded_iff_hist_proof cfg pre o post y inv rid det a k Ho Hk Hin)
    as (Hy & x & m & orc & xs & q & opts & proc & Eo & Fx & Eg & Kind).
  fold r in Fx, Eg, Kind.
  destruct Kind as [(_ & _ & Hn)|(Hb & rg & ys & Hr & Hc & Fy & Dt)]; [contradiction|].
  exists x, m, orc, xs, q, opts, proc, rg, ys. repeat (split; [assumption|]).
  destruct ((0 <? opt_int64 opts "timeout")%Z && sess_feature ys "callee" "call_timeout" && reg_forwards rg y) eqn:C;
    [|rewrite Dt in Hd; contradiction].
  apply andb_true_iff in C. destruct C as [C C3]. apply andb_true_iff in C. destruct C as [C1 C2].
  unfold reg_forwards in C3. apply nmem_In in C3.
  split; [exact C2|]. split; [exact C3|]. split.
  - apply (fwd_origin cfg pre rid y Ho1 Hk1); [exists rg; split; assumption|exact Hy].
  - split; [apply Z.ltb_lt; exact C1|exact Dt].
Qed.

Theorem timeout_forwarded_only_if_callee_asked_noauthz_proof : forall cfg pre o post y inv rid det a k,
    let ops := pre ++ o :: post in
    let r := fst (run (init_realm cfg) pre) in
    c_authz cfg = None ->
    Forall op_ok ops -> k0 cfg + N.of_nat (List.length ops) <= max_idN ->
    In (y, RInvocation inv rid det a k) (snd (step r o)) ->
    dget det "timeout" <> None ->
    exists x orc xs q opts proc rg ys,
      o = OMsg x (CCall q opts proc a k) orc /\ find_session (r_clients r) x = Some xs /\
      cget (d_bycall (r_dealer r)) (x, q) = None /\
      y <> meta_id /\ find_session (r_clients r) y = Some ys /\
      nget (d_regs (r_dealer r)) rid = Some rg /\ In y (reg_callees rg) /\
      sess_feature ys "callee" "call_timeout" = true /\
      In y (reg_fwd_timeout rg) /\ fwd_witness_hist cfg pre rid y /\
      (0 < opt_int64 opts "timeout")%Z /\
      dget det "timeout" = Some (VInt KInt64 (opt_int64 opts "timeout")).
Proof.
  intros cfg pre o post y inv rid det a k ops r Ha Ho Hk Hin Hd.
  destruct (reach_prefix cfg pre o post Ho Hk) as (_ & _ & _ & _ & Ec). fold r in Ec.
  destruct (timeout_forwarded_only_if_callee_asked_proof cfg pre o post y inv rid det a k Ho Hk Hin Hd)
    as (x & m & orc & xs & q & opts & proc & rg & ys & Eo & Fx & Eg & Rest).
  fold r in Eg. rewrite gate_none in Eg by (rewrite Ec; exact Ha). inversion Eg; subst m.
  exists x, orc, xs, q, opts, proc, rg, ys. split; [exact Eo|]. split; [exact Fx|exact Rest].
Qed.
