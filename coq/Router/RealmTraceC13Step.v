(** * Histories of the whole model, C13 part 2: what one [Realm.step] from a
    well-formed realm does to the pending invocations and the armed timers,
    and which INTERRUPTs / timeout ERRORs it sends — by kind of operation.

    The authorization gate must let the message through unchanged
    ([gate_transparent]; it holds without authorizer).  A step is then
    - [calm]: records and timers only disappear, no INTERRUPT, no ERROR(CALL)
      with URI wamp.error.timeout (joins, departures, broker messages,
      REGISTER/UNREGISTER, refused CALLs, CALLs served by the meta session);
    - a routed CALL ([call13]), a CANCEL ([cancel13]), a YIELD ([yield13]), an
      ERROR ([error13]) or a tick ([tick13]), each with its exact effect. *)
From Nexus Require Import Router.Realm Router.AssocLemmas Router.RealmLib Router.RealmProofs
     Router.RealmMetaProofs Router.RealmLeave.
From Nexus Require Import Router.DealerLib Router.DealerProofs Router.DealerReg Router.DealerCall Router.DealerWf
     Router.DealerWfCalls Router.DealerWfRegs Router.DealerRemove Router.DealerReply Router.DealerTimers
     Router.DealerOwned.
From Nexus Require Import Router.RealmWf Router.RealmStep Router.RealmC05 Router.RealmOutputs.
From Nexus Require Import Router.RealmTraceLib Router.RealmTrace Router.RealmTraceC05 Router.RealmTraceInv.
From Nexus Require Import Router.RealmTraceC13.
From Coq Require Import Lia ZifyN ZifyNat ZifyBool.

(** ** The gate lets every message of the history through, unchanged *)
Definition gate_transparent (r : realm) (o : op) : Prop :=
  forall sid m orc s, o = OMsg sid m orc -> find_session (r_clients r) sid = Some s -> gate r s m = inl m.

Lemma gate_transparent_fresh : forall r o, gate_transparent r o -> gate_fresh r o.
Proof. intros r o G sid m orc s E F. rewrite (G sid m orc s E F). reflexivity. Qed.

Lemma gate_transparent_no_authz : forall cfg ops, c_authz cfg = None -> along gate_transparent (init_realm cfg) ops.
Proof.
  intros cfg ops H. apply (along_cfg gate_transparent cfg); [|apply init_realm_cfg].
  intros r o E sid m orc s _ _. apply gate_none. rewrite E. exact H.
Qed.

(** an authorizer that allows every message as it is *)
Definition authz_allows_all (cfg : config) : Prop :=
  forall f, c_authz cfg = Some f -> forall sid lc det m, f sid lc det m = AAllow m.

Lemma gate_transparent_static : forall cfg ops, authz_allows_all cfg -> along gate_transparent (init_realm cfg) ops.
Proof.
  intros cfg ops H. apply (along_cfg gate_transparent cfg); [|apply init_realm_cfg].
  intros r o E sid m orc s _ _. unfold gate. rewrite E.
  destruct (c_authz cfg) as [f|] eqn:Ef; [|reflexivity].
  destruct (s_local s && negb (c_local_authz cfg)); [reflexivity|].
  rewrite (H f Ef). reflexivity.
Qed.

(** ** Calm steps *)
Definition calm (r : realm) (o : list out) (r' : realm) : Prop :=
  evo (r_dealer r) (r_dealer r') /\ plain o /\ r_now r' = r_now r.

Lemma calm_refl : forall r, calm r [] r.
Proof. intros r. split; [apply evo_refl|]. split; [apply plain_nil|reflexivity]. Qed.

Lemma calm_seq : forall r o1 r1 o2 r2, calm r o1 r1 -> calm r1 o2 r2 -> calm r (o1 ++ o2) r2.
Proof.
  intros r o1 r1 o2 r2 (A1 & B1 & C1) (A2 & B2 & C2).
  split; [eapply evo_trans; eauto|]. split; [now apply plain_app|congruence].
Qed.

Lemma bmsg_plain : forall m, bmsg m = true -> is_intr m = false /\ is_tmo m = false.
Proof.
  intros [x m] H. unfold bmsg, is_intr, is_tmo in *. cbn [snd] in *. destruct m; try discriminate H; try (split; reflexivity).
  split; [reflexivity|]. destruct (N.eqb_spec ty c_CALL) as [->|]; [discriminate H|reflexivity].
Qed.

Lemma allb_plain : forall o, allb o -> plain o.
Proof. intros o H m Hin. apply bmsg_plain. auto. Qed.

Lemma calm_broker : forall r o r', allb o -> r_dealer r' = r_dealer r -> r_now r' = r_now r -> calm r o r'.
Proof.
  intros r o r' A E Hn. split; [rewrite E; apply evo_refl|]. split; [now apply allb_plain|exact Hn].
Qed.

Lemma calm_cons : forall r m o r', bmsg m = true -> calm r o r' -> calm r (m :: o) r'.
Proof.
  intros r m o r' Hm H. change (m :: o) with ([m] ++ o). eapply calm_seq; [|exact H].
  apply calm_broker; [now apply allb_one|reflexivity|reflexivity].
Qed.

Lemma meta_publish_all_now : forall mps r, r_now (fst (meta_publish_all r mps)) = r_now r.
Proof. intros. destruct (meta_publish_all_frame mps r) as (_ & _ & _ & _ & _ & _ & E). exact E. Qed.

Lemma meta_publish_all_calm : forall mps r, calm r (snd (meta_publish_all r mps)) (fst (meta_publish_all r mps)).
Proof.
  intros. apply calm_broker; [apply meta_publish_all_allb|apply meta_publish_all_dealer|apply meta_publish_all_now].
Qed.

(** departure *)
Theorem leave_calm : forall r sid, realm_wf r -> calm r (snd (leave r sid)) (fst (leave r sid)).
Proof.
  intros r sid W.
  destruct (find_session (r_clients r) sid) as [s|] eqn:F;
    [|rewrite (leave_absent r sid F); apply calm_refl].
  pose proof (leave_frame r sid) as Fr. cbv zeta in Fr. destruct Fr as (_ & _ & _ & _ & _ & Fn).
  revert Fn. rewrite (leave_event_order r sid s F). unfold leave_core.
  set (r2 := r_set_testaments (r_set_clients r (del_session (r_clients r) sid))
                              (ndel (r_testaments (r_set_clients r (del_session (r_clients r) sid))) sid)).
  change (r_dealer r2) with (r_dealer r).
  pose proof (dealer_remove_session_13 (lookup r) (lookup r2) (r_dealer r) sid (rw_dealer r W)) as [D1 D2].
  destruct (dealer_remove_session (lookup r2) (r_dealer r) sid) as [[d o1] mps]. cbn [fst snd] in *.
  pose proof (broker_remove_session_allb (r_broker (r_set_dealer r2 d)) (r_pubgen (r_set_dealer r2 d)) sid) as B.
  destruct (broker_remove_session _ _ sid) as [[b pg] o2]. cbn [snd] in B.
  pose proof (meta_publish_all_allb (mps ++ testament_pubs r sid ++ [on_leave_pub s]) (r_set_broker (r_set_dealer r2 d) b pg)) as M.
  pose proof (meta_publish_all_dealer (mps ++ testament_pubs r sid ++ [on_leave_pub s]) (r_set_broker (r_set_dealer r2 d) b pg)) as E.
  destruct (meta_publish_all _ _) as [r5 o3]. cbn [fst snd] in *. cbn [r_dealer r_set_broker r_set_dealer] in E.
  intros Fn. split; [rewrite E; exact D1|]. split; [|exact Fn].
  apply plain_app; [apply plain_app; [exact D2|now apply allb_plain]|now apply allb_plain].
Qed.

Lemma kill_sessions_calm : forall sids r g k, realm_wf r -> ids_below k r -> (forall x, bmsg (x, g) = true) ->
    calm r (snd (kill_sessions r sids g)) (fst (kill_sessions r sids g)).
Proof.
  induction sids as [|sid sids IH]; intros r g k W I Hg; [apply calm_refl|].
  rewrite kill_sessions_cons. pose proof (leave_calm r sid W) as L.
  destruct (leave_wf r sid k W I) as (W1 & I1 & _).
  destruct (leave r sid) as [r1 o1]. cbn [fst snd] in *.
  specialize (IH r1 g k W1 I1 Hg). destruct (kill_sessions r1 sids g) as [r2 o2]. cbn [fst snd] in *.
  apply calm_cons; [apply Hg|]. eapply calm_seq; eauto.
Qed.

(** ** The meta session answers *)
Lemma meta_call_error_uri : forall r proc det args kw oracle e,
    resp_of (meta_call r proc det args kw oracle) = MError e -> String.eqb e e_timeout = false.
Proof.
  intros r proc det args kw oracle e. unfold meta_call, resp_of.
  brk; cbn [fst snd]; intros H; inversion H; subst; reflexivity.
Qed.

Lemma meta_call_now : forall r proc det args kw oracle,
    r_now (realm_of (meta_call r proc det args kw oracle)) = r_now r.
Proof.
  intros. destruct (meta_call_cases r proc det args kw oracle) as [E|[(sid & s & dd & F & Hm & E)|(c & p & Ec & [E|E])]];
    cbv zeta in E; rewrite E; try reflexivity.
  apply update_session_frame.
Qed.

Lemma run_meta_13 : forall r b rid det a kw oracle k,
    realm_wf r -> ids_below k r ->
    (forall c, caller_opt det = Some c -> client r c) ->
    let res := run_meta_invocation r [(meta_id, RInvocation b rid det a kw)] oracle in
    calm r (snd res) (fst res) /\ cget (d_invs (r_dealer (fst res))) (meta_id, b) = None.
Proof.
  intros r b rid det a kw oracle k W I Hc res. subst res. unfold run_meta_invocation. rewrite N.eqb_refl. cbn [negb].
  destruct (nget (r_metaprocs r) rid) as [proc|].
  - destruct (meta_call_wf r proc det a kw oracle k W I Hc) as [W1 I1].
    pose proof (meta_call_dealer r proc det a kw oracle) as Ed.
    pose proof (meta_call_now r proc det a kw oracle) as En.
    pose proof (meta_call_kills_bmsg r proc det a kw oracle) as Kg.
    pose proof (meta_call_error_uri r proc det a kw oracle) as Ke.
    destruct (meta_call r proc det a kw oracle) as [[r1 resp] kills]. unfold realm_of, kills_of, resp_of in *. cbn [fst snd] in *.
    assert (G : forall d o1, (d, o1) = match resp with
                                        | MYield a0 k0 => sync_yield (lookup r1) (r_dealer r1) meta_id b [] a0 k0
                                        | MError e => sync_error (r_dealer r1) meta_id b [] e [] []
                                        end ->
                 evo (r_dealer r1) d /\ plain o1 /\ cget (d_invs d) (meta_id, b) = None /\
                 realm_wf (r_set_dealer r1 d) /\ ids_below k (r_set_dealer r1 d)).
    { intros d o1 E. destruct resp as [a0 k0|e].
      - pose proof (sync_yield_13 (lookup r1) (r_dealer r1) meta_id b [] a0 k0) as Y. cbv zeta in Y.
        pose proof (sync_yield_realm_wf r1 (lookup r1) meta_id b [] a0 k0 k W1 I1) as Yw.
        rewrite <- E in Y, Yw. cbn [fst snd] in *. destruct Y as (Y1 & Y2 & Y3 & Y4).
        split; [exact Y1|]. split; [|split; [apply Y4; reflexivity|exact Yw]].
        intros m Hm. split; [|now apply Y2].
        destruct (is_intr m) eqn:Hi; [|reflexivity]. destruct (Y3 m Hm Hi) as (X & _). discriminate X.
      - pose proof (sync_error_13 (r_dealer r1) meta_id b [] e [] []) as Y. cbv zeta in Y.
        pose proof (sync_error_realm_wf r1 meta_id b [] e [] [] k W1 I1) as Yw.
        rewrite <- E in Y, Yw. cbn [fst snd] in *. destruct Y as (Y1 & Y2 & Y3 & Y4).
        split; [exact Y1|]. split; [|split; [exact Y4|exact Yw]].
        intros m Hm. split; [now apply Y2|]. destruct (Y3 m Hm) as (x & q & ->).
        unfold is_tmo. cbn [snd]. rewrite (Ke e eq_refl). apply andb_false_r. }
    destruct (match resp with MYield a0 k0 => _ | MError e => _ end) as [d o1].
    destruct (G d o1 eq_refl) as (A1 & A2 & A3 & W2 & I2).
    assert (Q : calm r o1 (r_set_dealer r1 d)).
    { split; [cbn [r_dealer r_set_dealer]; rewrite <- Ed; exact A1|]. split; [exact A2|exact En]. }
    destruct kills as [[sids g]|]; [|split; [exact Q|exact A3]].
    pose proof (kill_sessions_calm sids (r_set_dealer r1 d) g k W2 I2 (Kg sids g eq_refl)) as K.
    destruct (kill_sessions (r_set_dealer r1 d) sids g) as [r3 o2]. cbn [fst snd] in *.
    split; [eapply calm_seq; eauto|].
    destruct K as (K1 & _). destruct (cget (d_invs (r_dealer r3)) (meta_id, b)) as [v|] eqn:Ev; [|reflexivity].
    apply (ev_invs _ _ K1) in Ev. cbn [r_dealer r_set_dealer] in Ev. congruence.
  - pose proof (sync_error_13 (r_dealer r) meta_id b [] e_no_such_procedure [] []) as Y. cbv zeta in Y.
    destruct (sync_error _ _ _ _ _ _ _) as [d o1]. cbn [fst snd] in *. destruct Y as (Y1 & Y2 & Y3 & Y4).
    split; [|exact Y4]. split; [exact Y1|]. split; [|reflexivity].
    intros m Hm. split; [now apply Y2|]. destruct (Y3 m Hm) as (x & q & ->). reflexivity.
Qed.

(** a record created (or re-timed) by a CALL and erased before the step ends
    leaves no trace in the two tables *)
Lemma call_then_gone_evo : forall now d d1 d' cid k opts det,
    (call_first13 now d d1 cid k opts det \/ call_chunk13 now d d1 cid k) ->
    calls_core d1 -> evo d1 d' -> calls_core d' -> cget (d_invs d') k = None -> evo d d'.
Proof.
  intros now d d1 d' cid k opts det H W1 [E1 E2] W' Hn.
  assert (Hinv1 : exists inv', d_invs d1 = cset (d_invs d) k inv').
  { destruct H as [(_ & _ & inv' & Ei & _)|(inv & inv' & _ & _ & Ei & _)]; eauto. }
  destruct Hinv1 as (inv' & Ei).
  (* a timer of d' does not belong to the record at [k] *)
  assert (Hnot : forall t dl c, nget (d_timers d') t = Some (dl, c) -> inv_timer inv' <> Some t).
  { intros t dl c Ht Hti. destruct (cw_timer _ W' _ _ _ Ht) as (_ & k2 & inv2 & _ & Hi2 & Ht2).
    assert (Hk : k2 <> k) by (intros ->; congruence).
    pose proof (E1 _ _ Hi2) as Hi2'. pose proof (E2 _ _ Ht) as Ht'.
    assert (Hi1 : cget (d_invs d1) k = Some inv') by (rewrite Ei; apply cget_cset_same).
    pose proof (cw_timer_inj _ W1 _ _ _ _ _ Hi2' Ht2 Ht') as C2.
    pose proof (cw_timer_inj _ W1 _ _ _ _ _ Hi1 Hti Ht') as C1.
    destruct (cw_inv _ W1 _ _ Hi2') as (B2 & _). destruct (cw_inv _ W1 _ _ Hi1) as (B1 & _).
    rewrite C2 in B2. rewrite C1 in B1. congruence. }
  constructor.
  - intros k2 v Hv. assert (Hk : k2 <> k) by (intros ->; congruence).
    apply E1 in Hv. rewrite Ei, cget_cset_other in Hv by exact Hk. exact Hv.
  - intros t [dl c] Ht. pose proof (E2 _ _ Ht) as Ht1. pose proof (Hnot t dl c Ht) as Hne.
    destruct H as [(_ & _ & inv0 & Ei0 & _ & _ & _ & Ht0)|(inv & inv0 & _ & _ & Ei0 & _ & _ & _ & Ht0)].
    + assert (inv0 = inv').
      { assert (X : cget (d_invs d1) k = Some inv0) by (rewrite Ei0; apply cget_cset_same).
        rewrite Ei, cget_cset_same in X. congruence. }
      subst inv0. destruct Ht0 as [(_ & Et & _)|(t0 & Hti & _ & Et & _)]; rewrite Et in Ht1; [exact Ht1|].
      rewrite nget_nset in Ht1. destruct (N.eqb_spec t t0) as [->|]; [contradiction|exact Ht1].
    + assert (inv0 = inv').
      { assert (X : cget (d_invs d1) k = Some inv0) by (rewrite Ei0; apply cget_cset_same).
        rewrite Ei, cget_cset_same in X. congruence. }
      subst inv0. destruct Ht0 as [(_ & Et)|(t0 & Hti & _ & Hall)]; [rewrite Et in Ht1; exact Ht1|].
      destruct (Hall _ _ Ht1) as [(-> & _)|(_ & X)]; [contradiction|exact X].
Qed.

(** ** The kinds of step *)
Definition call13 (r : realm) (x q : N) (opts : dict) (a : list value) (kw : dict) (out : list out) (r' : realm) : Prop :=
  (calm r out r' /\ noinv out) \/
  (exists y i rid det, out = [(y, RInvocation i rid det a kw)] /\ y <> meta_id /\ r_now r' = r_now r /\
     lookup r y <> None /\
     (call_first13 (r_now r) (r_dealer r) (r_dealer r') (x, q) (y, i) opts det \/
      call_chunk13 (r_now r) (r_dealer r) (r_dealer r') (x, q) (y, i))).

Definition cancel13 (r : realm) (x q : N) (copts : dict) (out : list out) (r' : realm) : Prop :=
  let d := r_dealer r in let d' := r_dealer r' in
  r_now r' = r_now r /\
  (opt_string copts "mode" = "kill" ->
   forall k inv', cget (d_invs d') k = Some inv' -> inv_call inv' = (x, q) -> inv_canceled inv' = true) /\
  ((evo d d' /\ (forall m, In m out -> is_tmo m = false) /\
    (forall m, In m out -> is_intr m = true ->
       exists k inv, cget (d_invs d) k = Some inv /\ inv_call inv = (x, q) /\ inv_canceled inv = false /\
                     callee_can_cancel (lookup r) inv = true /\ cancel_mode copts = "killnowait" /\
                     m = interrupt_msg k inv e_canceled "killnowait" /\ cget (d_invs d') k = None)) \/
   (exists k inv, cget (d_invs d) k = Some inv /\ inv_call inv = (x, q) /\ inv_canceled inv = false /\
                  callee_can_cancel (lookup r) inv = true /\ opt_string copts "mode" = "kill" /\
                  d' = cancel_state d k inv /\ out = [interrupt_msg k inv e_canceled "kill"])).

Definition yield13 (r : realm) (y i : N) (yopts : dict) (out : list out) (r' : realm) : Prop :=
  evo (r_dealer r) (r_dealer r') /\ r_now r' = r_now r /\
  (forall m, In m out -> is_tmo m = false) /\
  (forall m, In m out -> is_intr m = true ->
     opt_bool yopts "progress" = true /\ cget (d_invs (r_dealer r)) (y, i) = None /\
     m = (y, RInterrupt i [("mode", vstr "killnowait")])) /\
  (opt_bool yopts "progress" = false -> cget (d_invs (r_dealer r')) (y, i) = None).

Definition error13 (r : realm) (y ty i : N) (det : dict) (err : string) (a : list value) (kw : dict)
           (out : list out) (r' : realm) : Prop :=
  evo (r_dealer r) (r_dealer r') /\ r_now r' = r_now r /\
  (forall m, In m out -> is_intr m = false) /\
  (forall m, In m out -> is_tmo m = true ->
     ty = c_INVOCATION /\ err = e_timeout /\ exists x q, m = (x, RError c_CALL q det err a kw)) /\
  (ty = c_INVOCATION -> cget (d_invs (r_dealer r')) (y, i) = None).

Definition tick13 (r : realm) (ms : N) (out : list out) (r' : realm) : Prop :=
  let d := r_dealer r in let d' := r_dealer r' in
  r_now r' = r_now r + ms /\ evo d d' /\
  (forall t dl c, nget (d_timers d') t = Some (dl, c) -> r_now r + ms < dl) /\
  (forall m, In m out ->
     exists tid dl cid k inv,
       nget (d_timers d) tid = Some (dl, cid) /\ dl <= r_now r + ms /\
       cget (d_invs d) k = Some inv /\ inv_call inv = cid /\ inv_timer inv = Some tid /\
       inv_canceled inv = false /\ cget (d_invs d') k = None /\
       (m = timeout_msg cid \/
        (callee_can_cancel (lookup r) inv = true /\ m = interrupt_msg k inv e_timeout "killnowait"))).

Definition msg13 (r : realm) (sid : N) (m : cmsg) (out : list out) (r' : realm) : Prop :=
  match m with
  | CCall q opts proc a kw => call13 r sid q opts a kw out r'
  | CCancel q copts => cancel13 r sid q copts out r'
  | CYield i yopts a kw => yield13 r sid i yopts out r'
  | CError ty i det err a kw => error13 r sid ty i det err a kw out r'
  | _ => calm r out r'
  end.

Lemma calm_dealer : forall r o d', evo (r_dealer r) d' -> plain o -> calm r o (r_set_dealer r d').
Proof. intros r o d' E P. split; [exact E|]. split; [exact P|reflexivity]. Qed.

Theorem handle13 : forall r s m oracle k,
    realm_wf r -> ids_below k r -> k < max_idN -> find_session (r_clients r) (s_id s) = Some s ->
    msg13 r (s_id s) m (snd (handle r s m oracle)) (fst (handle r s m oracle)).
Proof.
  intros r s m oracle k W I Hk Hs.
  pose proof (rw_dealer r W) as Wd. pose proof (wf_calls _ _ Wd) as Wc.
  assert (LvQ : forall r0 o0, realm_wf r0 -> calm r o0 r0 ->
                 calm r (o0 ++ snd (leave r0 (s_id s))) (fst (leave r0 (s_id s)))).
  { intros r0 o0 W0 Q. eapply calm_seq; [exact Q|now apply leave_calm]. }
  destruct m; cbn [handle msg13].
  - (* PUBLISH *)
    pose proof (publish_allb (r_cfg r) (lookup r) (r_now r) (r_broker r) (r_pubgen r) s req opts topic args kw) as P.
    destruct (publish _ _ _ _ _ _ _ _ _ _ _) as [[b pg] o]. cbn [snd] in P.
    destruct (publish_aborts _ _ _ _).
    + specialize (LvQ r o W (calm_broker r o r P eq_refl eq_refl)).
      destruct (leave r (s_id s)) as [r1 o1]. exact LvQ.
    + cbn [fst snd]. apply calm_broker; [exact P|reflexivity|reflexivity].
  - pose proof (subscribe_allb (r_cfg r) (r_broker r) (r_pubgen r) (s_id s) req opts topic) as P.
    destruct (subscribe _ _ _ _ _ _ _) as [[b pg] o]. cbn [fst snd] in *.
    apply calm_broker; [exact P|reflexivity|reflexivity].
  - pose proof (unsubscribe_allb (r_broker r) (r_pubgen r) (s_id s) req sub) as P.
    destruct (unsubscribe _ _ _ _ _) as [[b pg] o]. cbn [fst snd] in *.
    apply calm_broker; [exact P|reflexivity|reflexivity].
  - (* REGISTER *)
    destruct (register_13 (r_cfg r) (r_dealer r) s req opts proc) as [R1 R2].
    destruct (register _ _ _ _ _ _) as [[d o] mps]. cbn [fst snd] in *.
    pose proof (meta_publish_all_calm mps (r_set_dealer r d)) as M.
    destruct (meta_publish_all _ mps) as [r1 o1]. cbn [fst snd] in *.
    eapply calm_seq; [apply calm_dealer; eassumption|exact M].
  - (* UNREGISTER *)
    destruct (unregister_13 (r_dealer r) (s_id s) req reg) as [R1 R2].
    destruct (unregister _ _ _ _) as [[d o] mps]. cbn [fst snd] in *.
    pose proof (meta_publish_all_calm mps (r_set_dealer r d)) as M.
    destruct (meta_publish_all _ mps) as [r1 o1]. cbn [fst snd] in *.
    eapply calm_seq; [apply calm_dealer; eassumption|exact M].
  - (* CALL *)
    pose proof (lookup_ok_realm r (rw_meta_id r W)) as LOK.
    pose proof (nowrap_below k r I Hk) as NW.
    pose proof (call_13 (r_cfg r) (lookup r) (r_now r) (r_dealer r) s req opts proc args kw oracle Wd LOK NW) as CF.
    pose proof (call_inv_facts (r_cfg r) (lookup r) (r_now r) (r_dealer r) s req opts proc args kw oracle Wd LOK NW) as CI.
    destruct (call _ _ _ _ _ _ _ _ _ _ _) as [d o|o|d1 callee' o] eqn:Ecall.
    + left. cbn [fst snd]. destruct CF as [C1 C2]. split; [now apply calm_dealer|apply (dq_noinv _ _ _ CI)].
    + left.
      destruct (call_abort_realm_wf r s req opts proc oracle k W I) as (Wa & _ & _). cbv zeta in Wa.
      pose proof (call_abort_dealer_tables (lookup r) (r_dealer r) s req opts proc oracle) as (_ & Ei & _ & Et).
      match goal with |- context [leave ?R (s_id s)] =>
        assert (Q : calm r o R) by (split; [apply evo_same; [exact Ei|exact Et]|split; [exact CF|reflexivity]]);
        specialize (LvQ R o Wa Q); pose proof (leave_qstep R (s_id s)) as Lq;
        destruct (leave R (s_id s)) as [r1 o1] end.
      split; [exact LvQ|]. apply noinv_app; [exact CI|apply (qs_noinv _ _ _ Lq)].
    + destruct CF as (y & i & rid & det & Eo & Ey & Kind).
      destruct (call_invoked_wf r s req opts proc args kw oracle k d1 callee' o W I Hk Hs Ecall)
        as (W2 & J2 & _ & (rcv & invid & regid & det' & Eo' & Hrcv) & Hcl).
      set (r1 := update_session (r_set_dealer r d1) callee') in *.
      assert (Ed : r_dealer r1 = d1).
      { unfold r1. destruct (update_session_frame (r_set_dealer r d1) callee') as (_ & _ & _ & -> & _). reflexivity. }
      assert (En : r_now r1 = r_now r).
      { unfold r1. destruct (update_session_frame (r_set_dealer r d1) callee') as (_ & _ & _ & _ & _ & -> & _). reflexivity. }
      assert (Hy : lookup r y <> None).
      { assert (Ey' : y = rcv) by (rewrite Eo in Eo'; congruence). rewrite Ey'. exact Hrcv. }
      rewrite Eo. destruct (N.eq_dec y meta_id) as [Hm|Hm].
      * left. rewrite Hm in *.
        pose proof (run_meta_invocation_meta_qstep r1 i rid det args kw oracle) as Mq.
        destruct (run_meta_13 r1 i rid det args kw oracle (k + 1) W2 J2 (Hcl _ _ _ _ _ _ Eo)) as [Q Hgone].
        destruct (run_meta_invocation_wf r1 [(meta_id, RInvocation i rid det args kw)] oracle (k + 1) W2 J2) as [W3 _].
        { intros rcv0 invid0 regid0 det0 args0 kw0 E0. assert (Ed0 : det0 = det) by congruence.
          rewrite Ed0. apply (Hcl _ _ _ _ _ _ Eo). }
        destruct (run_meta_invocation r1 _ oracle) as [r3 o3]. cbn [fst snd] in *.
        split; [|apply (qs_noinv _ _ _ Mq)].
        destruct Q as (Q1 & Q2 & Q3). split; [|split; [exact Q2|congruence]].
        rewrite Ed in Q1. eapply (call_then_gone_evo (r_now r) (r_dealer r) d1 (r_dealer r3)); eauto.
        -- rewrite <- Ed. apply (wf_calls _ _ (rw_dealer r1 W2)).
        -- apply (wf_calls _ _ (rw_dealer r3 W3)).
      * right. rewrite (run_meta_invocation_client r1 y i rid det args kw oracle Hm). cbn [fst snd].
        exists y, i, rid, det. split; [reflexivity|]. split; [exact Hm|]. split; [exact En|]. split; [exact Hy|].
        rewrite Ed. exact Kind.
  - (* CANCEL *)
    pose proof (cancel_13 (lookup r) (r_dealer r) (s_id s) req opts Wc) as C. cbv zeta in C.
    pose proof (cancel_kill_marks (lookup r) (r_dealer r) (s_id s) req opts) as K.
    destruct (cancel _ _ _ _ _) as [d o]. cbn [fst snd] in *.
    split; [reflexivity|]. split; [intros Hmode k0 inv' Hi Ec; eapply K; eauto|exact C].
  - (* YIELD *)
    pose proof (sync_yield_13 (lookup r) (r_dealer r) (s_id s) req opts args kw) as Y. cbv zeta in Y.
    pose proof (sync_yield_realm_wf r (lookup r) (s_id s) req opts args kw k W I) as Yw.
    destruct (sync_yield _ _ _ _ _ _ _) as [d o]. cbn [fst snd] in *. destruct Y as (Y1 & Y2 & Y3 & Y4).
    destruct (yield_aborts _ _ _ _ _).
    + destruct Yw as [Yw1 _]. pose proof (leave_calm (r_set_dealer r d) (s_id s) Yw1) as L.
      destruct (leave (r_set_dealer r d) (s_id s)) as [r1 o1]. cbn [fst snd] in *. destruct L as (L1 & L2 & L3).
      split; [eapply evo_trans; eauto|]. split; [exact L3|]. split; [|split].
      * intros m Hm. apply in_app_or in Hm. destruct Hm as [Hm|Hm]; [auto|apply L2; exact Hm].
      * intros m Hm Hi. apply in_app_or in Hm. destruct Hm as [Hm|Hm]; [auto|].
        destruct (L2 m Hm) as [X _]. congruence.
      * intros Hp. specialize (Y4 Hp). destruct (cget (d_invs (r_dealer r1)) (s_id s, req)) as [v|] eqn:Ev; [|reflexivity].
        apply (ev_invs _ _ L1) in Ev. cbn [r_dealer r_set_dealer] in Ev. congruence.
    + split; [exact Y1|]. split; [reflexivity|]. auto.
  - (* ERROR *)
    destruct (N.eqb_spec ty c_INVOCATION) as [Et|Et]; cbn [negb].
    + pose proof (sync_error_13 (r_dealer r) (s_id s) req details err args kw) as Y. cbv zeta in Y.
      destruct (sync_error _ _ _ _ _ _ _) as [d o]. cbn [fst snd] in *. destruct Y as (Y1 & Y2 & Y3 & Y4).
      split; [exact Y1|]. split; [reflexivity|]. split; [exact Y2|]. split; [|auto].
      intros m Hm Ht. destruct (Y3 m Hm) as (x & q & ->). split; [exact Et|]. split; [|eauto].
      unfold is_tmo in Ht. cbn [snd] in Ht. apply andb_true_iff in Ht. destruct Ht as [_ Ht].
      now apply String.eqb_eq.
    + pose proof (leave_calm r (s_id s) W) as L. destruct (leave r (s_id s)) as [r1 o1]. cbn [fst snd] in *.
      assert (Q : calm r ((s_id s, abort_violation) :: o1) r1) by (apply calm_cons; [reflexivity|exact L]).
      destruct Q as (Q1 & Q2 & Q3). split; [exact Q1|]. split; [exact Q3|]. split; [|split].
      * intros m Hm. apply Q2; exact Hm.
      * intros m Hm Ht. destruct (Q2 m Hm) as [_ X]. congruence.
      * intros E. contradiction.
  - pose proof (leave_calm r (s_id s) W) as L. destruct (leave r (s_id s)) as [r1 o1]. cbn [fst snd] in *.
    apply calm_cons; [reflexivity|exact L].
  - pose proof (leave_calm r (s_id s) W) as L. destruct (leave r (s_id s)) as [r1 o1]. cbn [fst snd] in *.
    apply calm_cons; [reflexivity|exact L].
Qed.

Definition step13_kind (r : realm) (o : op) (out : list out) (r' : realm) : Prop :=
  match o with
  | OTick ms => tick13 r ms out r'
  | OMsg sid m orc =>
      match find_session (r_clients r) sid with
      | None => calm r out r'
      | Some _ => msg13 r sid m out r'
      end
  | _ => calm r out r'
  end.

Theorem step13 : forall r o k,
    realm_wf r -> ids_below k r -> k < max_idN -> op_ok o -> gate_transparent r o ->
    step13_kind r o (snd (step r o)) (fst (step r o)).
Proof.
  intros r o k W I Hk Ho G.
  destruct o as [sid lc h|sid m oracle|sid|ms]; cbn [step13_kind].
  - cbn [step]. unfold join.
    destruct (negb (has_role h) || is_some (lookup r sid)); [apply calm_refl|].
    match goal with |- context [meta_publish ?R ?M] =>
      pose proof (meta_publish_allb R M) as A; pose proof (meta_publish_frame R M) as F;
      destruct (meta_publish R M) as [r1 o1] end.
    cbn [fst snd] in *. destruct F as (_ & _ & _ & _ & Fd & _ & Fn). apply calm_broker; [exact A|exact Fd|exact Fn].
  - rewrite step_msg_eq. destruct (find_session (r_clients r) sid) as [s|] eqn:F; [|apply calm_refl].
    assert (Hs : find_session (r_clients r) (s_id s) = Some s) by now rewrite (find_session_id _ _ _ F).
    rewrite (G sid m oracle s eq_refl F). rewrite <- (find_session_id _ _ _ F).
    apply (handle13 r s m oracle k W I Hk Hs).
  - cbn [step]. now apply leave_calm.
  - cbn [step tick13]. set (r1 := r_set_now r (r_now r + ms)).
    assert (Wd : dealer_wf (lookup r1) (r_dealer r1)) by exact (rw_dealer r W).
    pose proof (wf_calls _ _ Wd) as Wc.
    pose proof (fire_timers_evo (lookup r1) (r_now r1) (r_dealer r1) Wc) as E.
    pose proof (fire_timers_clears (lookup r1) (r_now r1) (r_dealer r1)) as Cl.
    pose proof (timeout_exact_proof (lookup r1) (r_now r1) (r_dealer r1)) as TE.
    pose proof (fire_timers_core (lookup r1) (r_now r1) (r_dealer r1) Wc) as [Wc' _].
    destruct (fire_timers _ _ _) as [d out]. cbn [fst snd] in *.
    change (r_dealer r1) with (r_dealer r) in *. change (r_now r1) with (r_now r + ms) in *.
    split; [reflexivity|]. split; [exact E|]. split; [intros t dl c Ht; eapply Cl; eauto|].
    intros m Hm. destruct (TE m Wc Hm) as (tid & dl & cid & k0 & inv & x & Hin & Hdl & Hp & Hcan & Hgone & Hshape).
    exists tid, dl, cid, k0, inv.
    assert (Ht : nget (d_timers (r_dealer r)) tid = Some (dl, cid)).
    { apply (In_aget N.eqb N.eqb_spec); [apply (cw_timerkeys _ Wc)|exact Hin]. }
    pose proof Hp as (_ & Hb & Hi). pose proof (pending_record _ _ _ _ _ Wc Hp) as Ec.
    split; [exact Ht|]. split; [exact Hdl|]. split; [exact Hi|]. split; [exact Ec|]. split.
    { destruct (cw_timer _ Wc _ _ _ Ht) as (_ & k2 & inv2 & Hb2 & Hi2 & Ht2). congruence. }
    split; [exact Hcan|]. split; [|exact Hshape]. cbn [r_dealer r_set_dealer].
    destruct (cget (d_invs d) k0) as [v|] eqn:Ev; [|reflexivity]. exfalso.
    pose proof (ev_invs _ _ E _ _ Ev) as Ev0. assert (v = inv) by congruence. subst v.
    pose proof (record_pending d k0 inv Wc' Ev) as (Hc' & _). rewrite Ec in Hc'. congruence.
Qed.

(** the clock moves only on a tick *)
Lemma step13_now : forall r o out r', step13_kind r o out r' ->
    r_now r' = r_now r + match o with OTick ms => ms | _ => 0 end.
Proof.
  intros r o out r' H. destruct o as [sid lc h|sid m oracle|sid|ms]; cbn [step13_kind] in H.
  - destruct H as (_ & _ & ->). lia.
  - destruct (find_session (r_clients r) sid); [|destruct H as (_ & _ & ->); lia].
    destruct m; cbn [msg13] in H;
      try (destruct H as (_ & _ & ->); lia).
    + destruct H as [((_ & _ & ->) & _)|(y & i & rid & det & _ & _ & -> & _)]; lia.
    + destruct H as (-> & _). lia.
    + destruct H as (_ & -> & _). lia.
    + destruct H as (_ & -> & _). lia.
  - destruct H as (_ & _ & ->). lia.
  - destruct H as (-> & _). reflexivity.
Qed.
