(** * Realm-level proofs, part 8: every message the router sends is addressed
    to a session that is attached when the operation starts (or to the session
    that is joining) — hence nothing is ever sent to a session after it ended
    (C05 no_ref_after_leave, "no later output"). *)
From Nexus Require Import Router.Realm Router.AssocLemmas Router.RealmLib Router.RealmProofs
     Router.RealmMetaProofs Router.RealmLeave.
From Nexus Require Import Router.BrokerWf Router.BrokerPres Router.BrokerSub Router.BrokerHist.
From Nexus Require Import Router.DealerLib Router.DealerProofs Router.DealerReg Router.DealerCall Router.DealerWf
     Router.DealerWfCalls Router.DealerWfRegs Router.DealerRemove.
From Nexus Require Import Router.RealmWf Router.RealmStep Router.RealmC05.
From Coq Require Import Lia ZifyN ZifyNat ZifyBool.

Definition to_att (lk : N -> option session) (o : list out) : Prop :=
  forall x m, In (x, m) o -> lk x <> None.

Lemma to_att_nil : forall lk, to_att lk [].
Proof. intros lk x m []. Qed.
Lemma to_att_app : forall lk a b, to_att lk a -> to_att lk b -> to_att lk (a ++ b).
Proof. intros lk a b A B x m H. apply in_app_or in H. destruct H; eauto. Qed.
Lemma to_att_cons : forall lk x m o, lk x <> None -> to_att lk o -> to_att lk ((x, m) :: o).
Proof. intros lk x m o A B y n [E|H]; [inversion E; subst; exact A|eauto]. Qed.
Lemma to_att_one : forall lk x m, lk x <> None -> to_att lk [(x, m)].
Proof. intros. apply to_att_cons; [assumption|apply to_att_nil]. Qed.
Lemma to_att_mono : forall lk lk' o, (forall x, lk x <> None -> lk' x <> None) -> to_att lk o -> to_att lk' o.
Proof. intros lk lk' o H A x m Hin. apply H. eauto. Qed.

(** ** Broker *)
Definition subs_att (lk : N -> option session) (b : broker) : Prop :=
  forall id s x, nget (b_subs b) id = Some s -> In x (sub_subs s) -> lk x <> None.

Lemma matching_subs_in : forall b t s st, In (s, st) (matching_subs b t) -> exists id, nget (b_subs b) id = Some s.
Proof.
  intros b t s st H. unfold matching_subs in H.
  apply in_app_or in H. destruct H as [H|H].
  - destruct (sget (b_exact b) t) as [id|]; [|destruct H].
    destruct (nget (b_subs b) id) as [s'|] eqn:E; [|destruct H]. destruct H as [H|[]]. inversion H; subst. eauto.
  - apply in_app_or in H. destruct H as [H|H]; apply in_flat_map in H; destruct H as ([p id] & _ & H).
    + destruct (prefix_match t p); [|destruct H].
      destruct (nget (b_subs b) id) as [s'|] eqn:E; [|destruct H]. destruct H as [H|[]]. inversion H; subst. eauto.
    + destruct (wildcard_match t p); [|destruct H].
      destruct (nget (b_subs b) id) as [s'|] eqn:E; [|destruct H]. destruct H as [H|[]]. inversion H; subst. eauto.
Qed.

Lemma sub_meta_event_att : forall lk b t cause pub args,
    subs_att lk b -> to_att lk (sub_meta_event b t cause pub args).
Proof.
  intros lk b t cause pub args H x m Hin.
  destruct (sub_meta_event_receivers b t cause pub args (x, m) Hin) as (s & st & Hs & Hx & _).
  destruct (matching_subs_in b t s st Hs) as (id & Hid). eapply H; eauto.
Qed.

Lemma publish_att : forall cfg lk now b pg pub req opts topic args kw,
    lookup_ok lk -> lk (s_id pub) <> None ->
    to_att lk (snd (publish cfg lk now b pg pub req opts topic args kw)).
Proof.
  intros cfg lk now b pg pub req opts topic args kw LOK Hp. unfold publish.
  destruct (negb (valid_uri _ _ _)).
  { cbn [snd]. destruct (opt_bool opts "acknowledge"); [now apply to_att_one|apply to_att_nil]. }
  destruct (publish_aborts cfg pub opts topic).
  { cbn [snd]. now apply to_att_one. }
  destruct (opt_bool opts "disclose_me" && negb (c_disclose cfg)).
  { cbn [snd]. destruct (opt_bool opts "acknowledge"); [now apply to_att_one|apply to_att_nil]. }
  pose proof (pub_event_fold lk now pub (pg + 1) opts topic args kw (matching_subs b topic) b []) as F.
  destruct (fold_left _ (matching_subs b topic) (b, [])) as [b1 o]. cbn [snd] in *. rewrite F. cbn [app].
  apply to_att_app; [|destruct (opt_bool opts "acknowledge"); [now apply to_att_one|apply to_att_nil]].
  intros x m Hin. unfold pub_events in Hin. apply in_flat_map in Hin. destruct Hin as ([s st] & _ & Hin).
  apply in_map_iff in Hin. destruct Hin as (rs & E & Hrs). inversion E; subst.
  unfold sub_targets in Hrs. apply in_flat_map in Hrs. destruct Hrs as (rcv & _ & Hrs).
  destruct (N.eqb rcv (s_id pub) && _); [destruct Hrs|].
  destruct (lk rcv) as [rs'|] eqn:El; [|destruct Hrs].
  destruct (allowed _ _ _); [|destruct Hrs]. destruct Hrs as [<-|[]].
  rewrite (LOK _ _ El). congruence.
Qed.

(** subscribers only disappear while a session is removed *)
Lemma remove_session_att : forall lk b pg sid,
    subs_att lk b -> to_att lk (snd (broker_remove_session b pg sid)).
Proof.
  intros lk b pg sid H. unfold broker_remove_session.
  destruct (nget (b_sess b) sid) as [ids|]; [|apply to_att_nil].
  assert (G : forall ids acc, subs_att lk (fst (fst acc)) -> to_att lk (snd acc) ->
                subs_att lk (fst (fst (fold_left (remove_session_sub sid) ids acc))) /\
                to_att lk (snd (fold_left (remove_session_sub sid) ids acc))).
  { induction ids0 as [|id ids0 IH]; intros acc A B; cbn [fold_left]; [auto|].
    assert (S : subs_att lk (fst (fst (remove_session_sub sid acc id)))).
    { destruct acc as [[b1 pg1] o1]; cbn [fst snd] in *; unfold remove_session_sub.
      destruct (nget (b_subs b1) id) as [s|] eqn:E; [|exact A].
      match goal with |- context [if ?c then _ else _] => destruct c end; cbn [fst].
      + intros id' s' x Hs Hx. unfold del_subscription in Hs.
        assert (Hs' : nget (ndel (b_subs b1) (sub_id (mkSub (sub_id s) (sub_topic s) (sub_match s) (nremove sid (sub_subs s))))) id' = Some s').
        { destruct (mkind_of _); exact Hs. }
        rewrite ngd in Hs'. destruct (N.eqb id' _); [discriminate|]. eapply A; eauto.
      + intros id' s' x Hs Hx. cbn [b_subs b_set_subs] in Hs. rewrite ngs in Hs.
        destruct (N.eqb_spec id' id) as [->|Hn]; [|eapply A; eauto].
        inversion Hs; subst s'. cbn [sub_subs] in Hx. apply In_nremove in Hx. eapply A; [exact E|tauto]. }
    apply IH; [exact S|].
    (* on_unsubscribe, and on_delete when the subscription went away, go to
       subscribers of the broker the leaver is already removed from *)
    destruct acc as [[b1 pg1] o1]; cbn [fst snd] in *. revert S. unfold remove_session_sub.
    destruct (nget (b_subs b1) id) as [s|] eqn:E; [|intros _; exact B].
    match goal with |- context [if ?c then _ else _] => destruct c end; cbn [fst snd]; intros S.
    + apply to_att_app; [exact B|]. apply to_att_app; apply sub_meta_event_att; exact S.
    + apply to_att_app; [exact B|]. apply sub_meta_event_att; exact S. }
  apply G; [exact H|apply to_att_nil].
Qed.

(** ** Dealer *)
Lemma sync_cancel_att : forall lk lk' d caller req mode reason ea,
    calls_att lk' d -> (forall x, lk x <> None -> lk' x <> None) ->
    to_att lk' (snd (sync_cancel lk d caller req mode reason ea)).
Proof.
  intros lk lk' d caller req mode reason ea A Hl. unfold sync_cancel.
  destruct (cget (d_calls d) (caller, req)) as [x|] eqn:Ec; [|apply to_att_nil].
  destruct (cget (d_bycall d) (caller, req)) as [ikey|]; [|apply to_att_nil].
  destruct (cget (d_invs d) ikey) as [inv|]; [|apply to_att_nil].
  destruct (inv_canceled inv); [apply to_att_nil|].
  assert (Hcaller : lk' caller <> None) by (apply (ca_call _ _ A (caller, req) x Ec)).
  assert (Hintr : to_att lk' (if negb (String.eqb mode "skip") &&
                                 match lk (inv_callee inv) with Some cs => sess_feature cs "callee" f_call_canceling | None => false end
                              then [(inv_callee inv, RInterrupt (snd ikey) [("reason", vuri reason); ("mode", vstr mode)])] else [])).
  { destruct (lk (inv_callee inv)) eqn:E; [|rewrite andb_false_r; apply to_att_nil].
    destruct (negb (String.eqb mode "skip") && _); [|apply to_att_nil].
    apply to_att_one. apply Hl. congruence. }
  match goal with |- context [if ?c then (_, ?i) else _] => destruct c end; cbn [snd].
  - exact Hintr.
  - apply to_att_app; [exact Hintr|now apply to_att_one].
Qed.

Lemma cancel_att : forall lk lk' d caller req opts,
    calls_att lk' d -> (forall x, lk x <> None -> lk' x <> None) -> lk' caller <> None ->
    to_att lk' (snd (cancel lk d caller req opts)).
Proof.
  intros. unfold cancel. destruct (_ || _ || _); [now apply sync_cancel_att|].
  destruct (String.eqb _ ""); [now apply sync_cancel_att|]. now apply to_att_one.
Qed.

Lemma sync_error_att : forall lk d callee req det err args kw,
    calls_core d -> calls_att lk d -> to_att lk (snd (sync_error d callee req det err args kw)).
Proof.
  intros lk d callee req det err args kw W A. unfold sync_error.
  destruct (cget (d_invs d) (callee, req)) as [inv|]; [|apply to_att_nil].
  cbn [d_calls d_set_bycall d_set_invs]. rewrite ct_calls.
  destruct (cget (d_calls d) (inv_call inv)) as [caller|] eqn:E; [|apply to_att_nil].
  apply to_att_one. destruct (cw_call _ W _ _ E) as (-> & _). apply (ca_call _ _ A _ _ E).
Qed.

Lemma sync_yield_att : forall lk0 lk d callee req opts args kw,
    calls_core d -> calls_att lk d -> lk callee <> None ->
    to_att lk (snd (sync_yield lk0 d callee req opts args kw)).
Proof.
  intros lk0 lk d callee req opts args kw W A Hc. unfold sync_yield. cbv zeta.
  destruct (cget (d_invs d) (callee, req)) as [inv|].
  - assert (E : forall dd, d_calls (if opt_bool opts "progress" then d
                                   else d_set_invs (cancel_timer d (inv_timer inv)) dd) = d_calls d).
    { intros dd. destruct (opt_bool opts "progress"); [reflexivity|]. cbn [d_calls d_set_invs]. apply ct_calls. }
    match goal with |- context [cget (d_calls ?D) (inv_call inv)] =>
      replace (d_calls D) with (d_calls d) by (symmetry; apply E) end.
    destruct (cget (d_calls d) (inv_call inv)) as [caller|] eqn:Ec; [|apply to_att_nil].
    assert (Hcaller : lk caller <> None).
    { destruct (cw_call _ W _ _ Ec) as (-> & _). apply (ca_call _ _ A _ _ Ec). }
    repeat match goal with |- context [if ?c then _ else _] => destruct c end; cbn [snd app];
      repeat (apply to_att_cons; [assumption|]); apply to_att_nil.
  - cbn [snd]. destruct (opt_bool opts "progress"); [now apply to_att_one|apply to_att_nil].
Qed.

Definition call_out (r : call_result) : list out :=
  match r with CallRefused _ o => o | CallAbort o => o | CallInvoked _ _ o => o end.

Lemma call_att : forall cfg lk now d caller req opts proc args kw oracle,
    lookup_ok lk -> lk (s_id caller) <> None ->
    to_att lk (call_out (call cfg lk now d caller req opts proc args kw oracle)).
Proof.
  intros cfg lk now d caller req opts proc args kw oracle LOK Hc.
  pose proof (call_cases cfg lk now d caller req opts proc args kw oracle) as C.
  inversion C; subst; cbn [call_out]; try apply to_att_nil; try (apply to_att_one; exact Hc).
  - apply to_att_one. match goal with Hl : lk (inv_callee inv) = Some callee |- _ => rewrite (LOK _ _ Hl); congruence end.
  - apply to_att_one. congruence.
Qed.

Lemma fire_timers_att : forall lk now d,
    calls_core d -> calls_att lk d -> to_att lk (snd (fire_timers lk now d)).
Proof.
  intros lk now d. rewrite fire_timers_fold.
  generalize (sort_timers (filter (fun '((_, (dl, _)) : N * (N * callid)) => dl <=? now) (d_timers d))). intros l.
  assert (G : forall l d o, calls_core d -> calls_att lk d -> to_att lk o ->
                            to_att lk (snd (fold_left (fire_step lk) l (d, o)))).
  { clear. induction l as [|e l IH]; intros d o W A B; cbn [fold_left]; [exact B|].
    destruct (fire_step lk (d, o) e) as [d1 o1] eqn:E.
    destruct (fire_step_core lk d o e W) as [W1 S1]. rewrite E in W1, S1. cbn [fst] in W1, S1.
    apply IH; [exact W1|eapply calls_att_sub; eauto|].
    unfold fire_step in E. destruct e as [tid [dl cid]].
    destruct (amem N.eqb (d_timers d) tid); [|inversion E; subst; exact B].
    match type of E with context [sync_cancel ?a ?b ?c ?d0 ?e0 ?f ?g] =>
      pose proof (sync_cancel_att a lk b c d0 e0 f g) as SA; destruct (sync_cancel a b c d0 e0 f g) as [d2 o2] end.
    inversion E; subst. apply to_att_app; [exact B|]. apply SA; [|auto].
    destruct A as [A1 A2]. constructor; cbn [d_invs d_calls d_set_timers]; assumption. }
  intros W A. apply G; auto. apply to_att_nil.
Qed.

(** ** Realm *)
Lemma wf_subs_att : forall r, realm_wf r -> subs_att (lookup r) (r_broker r).
Proof.
  intros r W id s x Hs Hx.
  assert (Hh : sub_has (b_subs (r_broker r)) id x) by (exists s; auto).
  apply (wf_rel _ (rw_broker r W)) in Hh. destruct Hh as (ids & E & _).
  assert (C : client r x) by (apply (rw_sess_att r W); congruence).
  unfold lookup. destruct (N.eqb x meta_id); [discriminate|exact C].
Qed.

Lemma client_lookup : forall r x, client r x -> lookup r x <> None.
Proof. intros r x C. unfold lookup. destruct (N.eqb x meta_id); [discriminate|exact C]. Qed.

Lemma meta_lookup : forall r, lookup r meta_id <> None.
Proof. intros r. unfold lookup. rewrite N.eqb_refl. discriminate. Qed.

Lemma meta_publish_att : forall r mp, realm_wf r -> to_att (lookup r) (snd (meta_publish r mp)).
Proof.
  intros r mp W. unfold meta_publish.
  pose proof (publish_att (r_cfg r) (lookup r) (r_now r) (r_broker r) (r_pubgen r) (r_meta r) 0
                          (mp_opts mp) (mp_topic mp) (mp_args mp) (mp_kw mp)
                          (lookup_ok_realm r (rw_meta_id r W))) as P.
  destruct (publish _ _ _ _ _ _ _ _ _ _ _) as [[b pg] o]. cbn [snd] in *. apply P.
  rewrite (rw_meta_id r W). apply meta_lookup.
Qed.

Lemma same_but_broker_lookup : forall r r', same_but_broker r r' -> lookup r' = lookup r.
Proof. intros r r' (_ & C & M & _). unfold lookup. now rewrite C, M. Qed.

Lemma meta_publish_all_att : forall mps r k, realm_wf r -> ids_below k r ->
    to_att (lookup r) (snd (meta_publish_all r mps)).
Proof.
  induction mps as [|mp mps IH]; intros r k W I; [apply to_att_nil|].
  rewrite meta_publish_all_cons. pose proof (meta_publish_att r mp W) as A.
  destruct (meta_publish_wf r mp k W I) as [W1 I1]. pose proof (meta_publish_frame r mp) as F.
  destruct (meta_publish r mp) as [r1 o1]. cbn [fst snd] in *.
  specialize (IH r1 k W1 I1). rewrite (same_but_broker_lookup r r1 F) in IH.
  destruct (meta_publish_all r1 mps) as [r2 o2]. cbn [snd] in *. now apply to_att_app.
Qed.

Lemma lookup_del_sub : forall r sid te x,
    lookup (r_set_testaments (r_set_clients r (del_session (r_clients r) sid)) te) x <> None -> lookup r x <> None.
Proof.
  intros r sid te x. unfold lookup. cbn [r_meta r_clients r_set_clients r_set_testaments].
  destruct (N.eqb x meta_id); [auto|]. destruct (N.eq_dec x sid) as [->|Hn].
  - rewrite find_del_same. congruence.
  - now rewrite find_del_other.
Qed.

Theorem leave_att : forall r sid k, realm_wf r -> ids_below k r -> to_att (lookup r) (snd (leave r sid)).
Proof.
  intros r sid k W I.
  destruct (find_session (r_clients r) sid) as [s|] eqn:F; [|rewrite (leave_absent r sid F); apply to_att_nil].
  assert (C : client r sid) by (unfold client; congruence).
  rewrite (leave_event_order r sid s F).
  pose proof (leave_core_wf r sid k W I C) as L. cbv zeta in L.
  unfold leave_core in *.
  set (r2 := r_set_testaments (r_set_clients r (del_session (r_clients r) sid))
                              (ndel (r_testaments (r_set_clients r (del_session (r_clients r) sid))) sid)) in *.
  assert (Hsame : forall x, x <> sid -> lookup r2 x = lookup r x).
  { intros x Hx. unfold r2. now apply lookup_del_other. }
  assert (O1 : to_att (lookup r) (snd (fst (dealer_remove_session (lookup r2) (r_dealer r) sid)))).
  { intros x m Hm.
    destruct (remove_session_outputs_proof (lookup r) (lookup r2) (lookup r2) (r_dealer r) sid (rw_dealer r W) Hsame _ Hm)
      as (q & inv & Hi & Hc & Hcall & Em).
    unfold gone_msg in Em. inversion Em; subst.
    apply (ca_call _ _ (wf_calls_att _ _ (rw_dealer r W)) _ _ Hcall). }
  change (r_dealer r2) with (r_dealer r) in *.
  destruct (dealer_remove_session (lookup r2) (r_dealer r) sid) as [[d o1] mps]. cbn [fst snd] in *.
  change (r_broker (r_set_dealer r2 d)) with (r_broker r) in *.
  change (r_pubgen (r_set_dealer r2 d)) with (r_pubgen r) in *.
  pose proof (remove_session_att (lookup r) (r_broker r) (r_pubgen r) sid (wf_subs_att r W)) as O2.
  destruct (broker_remove_session (r_broker r) (r_pubgen r) sid) as [[b pg] o2]. cbn [fst snd] in *.
  destruct L as (W4 & I4 & _).
  pose proof (meta_publish_all_att (mps ++ testament_pubs r sid ++ [on_leave_pub s]) _ k W4 I4) as O3.
  destruct (meta_publish_all _ _) as [r5 o3]. cbn [snd] in *.
  apply to_att_app; [apply to_att_app; assumption|].
  eapply to_att_mono; [|exact O3]. intros x Hx. exact (lookup_del_sub r sid (ndel (r_testaments r) sid) x Hx).
Qed.

Lemma leave_lookup_sub : forall r sid x, lookup (fst (leave r sid)) x <> None -> lookup r x <> None.
Proof.
  intros r sid x. destruct (leave_frame r sid) as (_ & C & M & _). cbv zeta in C, M.
  unfold lookup. rewrite C, M. destruct (N.eqb x meta_id); [auto|].
  destruct (N.eq_dec x sid) as [->|Hn]; [rewrite find_del_same; congruence|now rewrite find_del_other].
Qed.

Lemma kill_sessions_att : forall sids r g k lk0, realm_wf r -> ids_below k r ->
    (forall x, lookup r x <> None -> lk0 x <> None) ->
    (forall x, In x sids -> lk0 x <> None) ->
    to_att lk0 (snd (kill_sessions r sids g)).
Proof.
  induction sids as [|sid sids IH]; intros r g k lk0 W I Hsub H; [apply to_att_nil|].
  rewrite kill_sessions_cons. pose proof (leave_att r sid k W I) as A.
  destruct (leave_wf r sid k W I) as (W1 & I1 & _). pose proof (leave_lookup_sub r sid) as Sub.
  destruct (leave r sid) as [r1 o1]. cbn [fst snd] in *.
  assert (B : to_att lk0 (snd (kill_sessions r1 sids g))).
  { apply (IH r1 g k lk0 W1 I1); [intros x Hx; apply Hsub, Sub, Hx|intros x Hx; apply H; now right]. }
  destruct (kill_sessions r1 sids g) as [r2 o2]. cbn [snd] in *.
  apply to_att_cons; [apply H; now left|]. apply to_att_app; [|exact B].
  eapply to_att_mono; [exact Hsub|exact A].
Qed.

(** the sessions a meta procedure asks to kill are attached *)
Lemma meta_call_kills_clients : forall r proc det args kw oracle sids g,
    kills_of (meta_call r proc det args kw oracle) = Some (sids, g) ->
    forall x, In x sids -> client r x.
Proof.
  intros r proc det args kw oracle sids g. unfold meta_call, kills_of.
  brk; cbn [snd]; intros H; inversion H; subst; clear H; intros x Hx;
    first [ destruct Hx as [<-|[]]; unfold client; congruence
          | let ss := fresh "ss" in let Hss := fresh "Hss" in
            apply in_map_iff in Hx; destruct Hx as (ss & <- & Hss); apply filter_In in Hss; destruct Hss as [Hss _];
            unfold client; now apply In_find_session ].
Qed.

Lemma meta_call_lookup : forall r proc det args kw oracle x,
    lookup (realm_of (meta_call r proc det args kw oracle)) x <> None <-> lookup r x <> None.
Proof.
  intros r proc det args kw oracle x.
  destruct (meta_call_cases r proc det args kw oracle) as [E|[(sid & s & dd & F & Hm & E)|(c & p & Ec & [E|E])]];
    cbv zeta in E; rewrite E; try tauto.
  apply N.eqb_neq in Hm.
  assert (Hl : lookup r (s_id (set_details s dd)) <> None).
  { cbn [set_details s_id]. rewrite (find_session_id _ _ _ F). unfold lookup.
    destruct (N.eqb_spec sid meta_id); [contradiction|congruence]. }
  rewrite (lookup_update r (set_details s dd) x Hl).
  destruct (N.eqb_spec x (s_id (set_details s dd))) as [->|Hn]; [|tauto]. split; [intros _; exact Hl|discriminate].
Qed.

Lemma run_meta_invocation_att : forall r o oracle k,
    realm_wf r -> ids_below k r -> to_att (lookup r) o ->
    (forall rcv invid regid det args kw, o = [(rcv, RInvocation invid regid det args kw)] ->
                                          forall c, caller_opt det = Some c -> client r c) ->
    to_att (lookup r) (snd (run_meta_invocation r o oracle)).
Proof.
  intros r o oracle k W I Ho Hc. unfold run_meta_invocation.
  destruct o as [|[rcv m] l]; [exact Ho|]. destruct m; try exact Ho. destruct l; [|exact Ho].
  destruct (negb (rcv =? meta_id)); [exact Ho|].
  specialize (Hc rcv req reg details args kw eq_refl).
  destruct (nget (r_metaprocs r) reg) as [proc|].
  - destruct (meta_call_wf r proc details args kw oracle k W I Hc) as [W1 I1].
    pose proof (meta_call_lookup r proc details args kw oracle) as Lk.
    pose proof (meta_call_kills_clients r proc details args kw oracle) as Kc.
    destruct (meta_call r proc details args kw oracle) as [[r1 resp] kills]. unfold realm_of, kills_of in *. cbn [fst snd] in *.
    pose proof (rw_dealer r1 W1) as Wd.
    assert (G : forall d o1, (d, o1) = match resp with
                                        | MYield a k0 => sync_yield (lookup r1) (r_dealer r1) meta_id req [] a k0
                                        | MError e => sync_error (r_dealer r1) meta_id req [] e [] []
                                        end ->
                 to_att (lookup r1) o1 /\ realm_wf (r_set_dealer r1 d) /\ ids_below k (r_set_dealer r1 d)).
    { intros d o1 E. destruct resp.
      - pose proof (sync_yield_att (lookup r1) (lookup r1) (r_dealer r1) meta_id req [] args0 kw0 (wf_calls _ _ Wd) (wf_calls_att _ _ Wd) (meta_lookup r1)) as A.
        pose proof (sync_yield_realm_wf r1 (lookup r1) meta_id req [] args0 kw0 k W1 I1) as Y.
        rewrite <- E in A, Y. cbn [fst snd] in *. auto.
      - pose proof (sync_error_att (lookup r1) (r_dealer r1) meta_id req [] err [] [] (wf_calls _ _ Wd) (wf_calls_att _ _ Wd)) as A.
        pose proof (sync_error_realm_wf r1 meta_id req [] err [] [] k W1 I1) as Y.
        rewrite <- E in A, Y. cbn [fst snd] in *. auto. }
    destruct (match resp with MYield a k0 => _ | MError e => _ end) as [d o1].
    destruct (G d o1 eq_refl) as (A1 & W2 & I2).
    assert (A1' : to_att (lookup r) o1) by (eapply to_att_mono; [|exact A1]; intros x; apply Lk).
    destruct kills as [[sids g]|]; [|exact A1'].
    pose proof (kill_sessions_att sids (r_set_dealer r1 d) g k (lookup r) W2 I2) as K.
    destruct (kill_sessions (r_set_dealer r1 d) sids g) as [r3 o2]. cbn [snd] in *.
    apply to_att_app; [exact A1'|]. apply K.
    + intros x. apply Lk.
    + intros x Hx. apply client_lookup. eapply Kc; eauto.
  - pose proof (rw_dealer r W) as Wd.
    pose proof (sync_error_att (lookup r) (r_dealer r) meta_id req [] e_no_such_procedure [] [] (wf_calls _ _ Wd) (wf_calls_att _ _ Wd)) as A.
    destruct (sync_error _ _ _ _ _ _ _). exact A.
Qed.

Lemma gate_att : forall r s m o, lookup r (s_id s) <> None -> gate r s m = inr o -> to_att (lookup r) o.
Proof.
  intros r s m o Hs. unfold gate.
  destruct (c_authz (r_cfg r)) as [f|]; [|discriminate].
  destruct (s_local s && negb (c_local_authz (r_cfg r))); [discriminate|].
  destruct (f (s_id s) (s_local s) (s_details s) m); [discriminate| |];
    intros H; inversion H; subst; clear H;
    destruct m; try (now apply to_att_one);
    destruct (opt_bool opts "acknowledge"); try (now apply to_att_one); apply to_att_nil.
Qed.

Theorem handle_att : forall r s m oracle k,
    realm_wf r -> ids_below k r -> k < max_idN -> find_session (r_clients r) (s_id s) = Some s ->
    to_att (lookup r) (snd (handle r s m oracle)).
Proof.
  intros r s m oracle k W I Hk Hs.
  destruct (attached_client r s W Hs) as [Hl Hm].
  assert (Hsid : lookup r (s_id s) <> None) by congruence.
  pose proof (lookup_ok_realm r (rw_meta_id r W)) as LOK.
  pose proof (rw_dealer r W) as Wd.
  destruct m.
  - (* PUBLISH *)
    cbn [handle]. pose proof (publish_att (r_cfg r) (lookup r) (r_now r) (r_broker r) (r_pubgen r) s req opts topic args kw LOK Hsid) as P.
    destruct (publish _ _ _ _ _ _ _ _ _ _ _) as [[b pg] o]. cbn [snd] in P.
    destruct (publish_aborts _ _ _ _); [|exact P].
    pose proof (leave_att r (s_id s) k W I) as L. destruct (leave r (s_id s)) as [r1 o1]. cbn [snd] in *.
    now apply to_att_app.
  - (* SUBSCRIBE *)
    destruct (handle_wf r s (CSubscribe req opts topic) oracle k W I Hk Hs) as [W' _].
    cbn [handle] in *.
    pose proof (subscribe_event_order (r_cfg r) (r_broker r) (r_pubgen r) (s_id s) req opts topic) as O.
    destruct (subscribe _ _ _ _ _ _ _) as [[b' pg'] o]. cbn [fst snd] in *.
    pose proof (wf_subs_att _ W') as SA. cbn [r_broker r_set_broker] in SA.
    change (lookup (r_set_broker r b' pg')) with (lookup r) in SA.
    destruct O as [(_ & _ & (e & a & ->))|[(id & _ & ->)|[(id & _ & ->)|(sb & _ & _ & _ & ->)]]].
    + now apply to_att_one.
    + now apply to_att_one.
    + apply to_att_app; [now apply to_att_one|now apply sub_meta_event_att].
    + apply to_att_app; [now apply to_att_one|]. apply to_att_app; now apply sub_meta_event_att.
  - (* UNSUBSCRIBE *)
    destruct (handle_wf r s (CUnsubscribe req sub) oracle k W I Hk Hs) as [W' _].
    cbn [handle] in *.
    pose proof (unsubscribe_event_order (r_broker r) (r_pubgen r) (s_id s) req sub) as O.
    destruct (unsubscribe _ _ _ _ _) as [[b' pg'] o]. cbn [fst snd] in *.
    pose proof (wf_subs_att _ W') as SA. cbn [r_broker r_set_broker] in SA.
    change (lookup (r_set_broker r b' pg')) with (lookup r) in SA.
    destruct O as [(_ & _ & ->)|[(_ & ->)|(_ & ->)]].
    + now apply to_att_one.
    + apply to_att_app; [now apply to_att_one|now apply sub_meta_event_att].
    + apply to_att_app; [now apply to_att_one|]. apply to_att_app; now apply sub_meta_event_att.
  - (* REGISTER *)
    cbn [handle].
    pose proof I as (I1 & I2 & I3).
    assert (Hd : d_idgen (r_dealer r) < max_idN) by lia.
    assert (Ha : attached (lookup r) (s_id s)) by (unfold attached; congruence).
    pose proof (register_wf (r_cfg r) (lookup r) (r_dealer r) s req opts proc Wd Ha Hd) as Wd'.
    pose proof (register_idgen (r_cfg r) (r_dealer r) s req opts proc Hd) as Id.
    pose proof (register_cr_nonempty (r_cfg r) (r_dealer r) s req opts proc (rw_cr_nonempty r W)) as Cr.
    pose proof (register_frame (r_cfg r) (r_dealer r) s req opts proc) as Fr.
    pose proof (mrs_register (dealer0 (r_cfg r)) (r_cfg r) (r_dealer r) s req opts proc (rw_metaregs r W)
                             (wf_regs _ _ Wd) Hd Hm) as Mr.
    pose proof (register_event_order (r_cfg r) (r_dealer r) s req opts proc) as O.
    destruct (register _ _ _ _ _ _) as [[d o] mps]. cbn [fst] in *.
    assert (W1 : realm_wf (r_set_dealer r d)).
    { apply wf_set_dealer; auto. intros c x. rewrite Fr. apply (rw_calls_nometa r W). }
    assert (J1 : ids_below (k + 1) (r_set_dealer r d)).
    { repeat split; cbn [r_set_dealer r_broker r_dealer]; try lia. intros x sx E. specialize (I3 x sx E). lia. }
    pose proof (meta_publish_all_att mps (r_set_dealer r d) (k + 1) W1 J1) as A.
    destruct (meta_publish_all _ mps) as [r1 o1]. cbn [snd] in *. apply to_att_app; [|exact A].
    destruct O as [(_ & _ & (e & a & ->))|(id & -> & _)]; now apply to_att_one.
  - (* UNREGISTER *)
    cbn [handle].
    pose proof (unregister_wf (lookup r) (r_dealer r) (s_id s) req reg Wd) as Wd'.
    pose proof (unregister_cr_nonempty (r_dealer r) (s_id s) req reg (rw_cr_nonempty r W)) as Cr.
    destruct (unregister_frame (r_dealer r) (s_id s) req reg) as [Fr Fi].
    pose proof (mrs_unregister (dealer0 (r_cfg r)) (r_dealer r) (s_id s) req reg (rw_metaregs r W) Hm) as Mr.
    pose proof (unregister_event_order (r_dealer r) (s_id s) req reg) as O.
    destruct (unregister _ _ _ _) as [[d o] mps]. cbn [fst] in *.
    assert (W1 : realm_wf (r_set_dealer r d)).
    { apply wf_set_dealer; auto. intros c x. rewrite Fr. apply (rw_calls_nometa r W). }
    assert (J1 : ids_below k (r_set_dealer r d)).
    { destruct I as (I1 & I2 & I3). repeat split; cbn [r_set_dealer r_broker r_dealer]; auto. lia. }
    pose proof (meta_publish_all_att mps (r_set_dealer r d) k W1 J1) as A.
    destruct (meta_publish_all _ mps) as [r1 o1]. cbn [snd] in *. apply to_att_app; [|exact A].
    destruct O as [(_ & ->)|(-> & _)]; now apply to_att_one.
  - (* CALL *)
    cbn [handle].
    pose proof (call_att (r_cfg r) (lookup r) (r_now r) (r_dealer r) s req opts proc args kw oracle LOK Hsid) as CA.
    destruct (call _ _ _ _ _ _ _ _ _ _ _) as [d o|o|d callee o] eqn:Ecall; cbn [call_out] in CA.
    + exact CA.
    + destruct (call_abort_realm_wf r s req opts proc oracle k W I) as (Wa & Ia & La). cbv zeta in Wa, Ia, La.
      pose proof (leave_att _ (s_id s) k Wa Ia) as L. rewrite La in L.
      destruct (leave _ (s_id s)) as [r1 o1]. cbn [snd] in *.
      now apply to_att_app.
    + destruct (call_invoked_wf r s req opts proc args kw oracle k d callee o W I Hk Hs Ecall) as (W2 & J2 & Lk & _ & Hcl).
      eapply to_att_mono; [intros x; apply (proj1 (Lk x))|].
      apply (run_meta_invocation_att _ o oracle (k + 1) W2 J2); [|exact Hcl].
      eapply to_att_mono; [intros x; apply (proj2 (Lk x))|exact CA].
  - (* CANCEL *)
    cbn [handle].
    pose proof (cancel_att (lookup r) (lookup r) (r_dealer r) (s_id s) req opts (wf_calls_att _ _ Wd) (fun _ H => H) Hsid) as A.
    destruct (cancel _ _ _ _ _) as [d o]. exact A.
  - (* YIELD *)
    cbn [handle].
    pose proof (sync_yield_att (lookup r) (lookup r) (r_dealer r) (s_id s) req opts args kw (wf_calls _ _ Wd) (wf_calls_att _ _ Wd) Hsid) as A.
    pose proof (sync_yield_realm_wf r (lookup r) (s_id s) req opts args kw k W I) as Y.
    destruct (sync_yield _ _ _ _ _ _ _) as [d o]. cbn [fst snd] in *.
    destruct (yield_aborts _ _ _ _ _); [|exact A].
    destruct Y as [Y1 Y2]. pose proof (leave_att (r_set_dealer r d) (s_id s) k Y1 Y2) as L.
    destruct (leave (r_set_dealer r d) (s_id s)) as [r1 o1]. cbn [snd] in *.
    apply to_att_app; [exact A|exact L].
  - (* ERROR *)
    cbn [handle]. destruct (negb (ty =? c_INVOCATION)).
    + pose proof (leave_att r (s_id s) k W I) as L. destruct (leave r (s_id s)) as [r1 o1]. cbn [snd] in *.
      now apply to_att_cons.
    + pose proof (sync_error_att (lookup r) (r_dealer r) (s_id s) req details err args kw (wf_calls _ _ Wd) (wf_calls_att _ _ Wd)) as A.
      destruct (sync_error _ _ _ _ _ _ _) as [d o]. exact A.
  - cbn [handle]. pose proof (leave_att r (s_id s) k W I) as L. destruct (leave r (s_id s)) as [r1 o1]. cbn [snd] in *.
    now apply to_att_cons.
  - cbn [handle]. pose proof (leave_att r (s_id s) k W I) as L. destruct (leave r (s_id s)) as [r1 o1]. cbn [snd] in *.
    now apply to_att_cons.
Qed.

(** ** Every output of a step is addressed to a session attached before the
    step (the meta session included), or to the session that is joining. *)
Theorem outputs_to_attached : forall r o k x m,
    realm_wf r -> ids_below k r -> k < max_idN -> op_ok o ->
    In (x, m) (snd (step r o)) ->
    lookup r x <> None \/ (exists l h, o = OJoin x l h).
Proof.
  intros r o k x m W I Hk Ho Hin.
  destruct o as [sid l h|sid msg oracle|sid|ms].
  - cbn [step] in Hin. unfold join in Hin.
    destruct (negb (has_role h) || is_some (lookup r sid)) eqn:G; [destruct Hin|].
    apply orb_false_iff in G. destruct G as [_ G].
    assert (Hl : lookup r sid = None) by (destruct (lookup r sid); [discriminate|reflexivity]).
    destruct (join_added_wf r sid l h k W I Ho Hl) as [W1 I1]. cbv zeta in W1, I1.
    match type of Hin with In _ (snd (meta_publish ?R ?M)) => pose proof (meta_publish_att R M W1 x m Hin) as A end.
    unfold lookup in A. cbn [r_meta r_clients r_set_clients] in A.
    unfold lookup. destruct (N.eqb x meta_id); [left; exact A|].
    rewrite find_session_app in A. destruct (find_session (r_clients r) x); [left; discriminate|].
    cbn [s_id] in A. destruct (N.eqb_spec sid x); [subst; right; eauto|congruence].
  - left. rewrite step_msg_eq in Hin. destruct (find_session (r_clients r) sid) as [s|] eqn:F; [|destruct Hin].
    assert (Hs : find_session (r_clients r) (s_id s) = Some s) by now rewrite (find_session_id _ _ _ F).
    destruct (attached_client r s W Hs) as [Hl _].
    destruct (gate r s msg) as [m'|out] eqn:G.
    + eapply (handle_att r s m' oracle k W I Hk Hs); eauto.
    + eapply (gate_att r s msg out); [congruence|exact G|exact Hin].
  - left. eapply (leave_att r sid k W I); eauto.
  - left. cbn [step] in Hin. set (r1 := r_set_now r (r_now r + ms)) in *.
    pose proof (rw_dealer r W) as Wd.
    pose proof (fire_timers_att (lookup r1) (r_now r1) (r_dealer r1) (wf_calls _ _ Wd) (wf_calls_att _ _ Wd)) as A.
    destruct (fire_timers _ _ _) as [d out]. eapply A; eauto.
Qed.

(** ** no later output: once a session has ended, no step sends it anything
    (until a session with that id joins again) *)
Theorem no_output_to_ended : forall r o k sid m,
    realm_wf r -> ids_below k r -> k < max_idN -> op_ok o ->
    ~ client r sid -> sid <> meta_id -> (forall l h, o <> OJoin sid l h) ->
    ~ In (sid, m) (snd (step r o)).
Proof.
  intros r o k sid m W I Hk Ho Hn Hm Hj Hin.
  destruct (outputs_to_attached r o k sid m W I Hk Ho Hin) as [H|(l & h & E)]; [|eapply Hj; eauto].
  unfold lookup in H. destruct (N.eqb_spec sid meta_id); [contradiction|]. apply Hn. exact H.
Qed.

