(** * Router model, base layer: WAMP values with the Go dynamic kind the router
    can observe, the accessor functions of wamp/convert.go, association lists,
    URI rule and matching (wamp/identifier.go).  Definitions only. *)
From Coq Require Export List String Ascii NArith ZArith Bool.
Export ListNotations.
Open Scope string_scope.
Open Scope list_scope.
Open Scope N_scope.

(** Go dynamic type of an integer-valued [any] as the router can observe it. *)
Inductive ikind := KInt | KInt64 | KUint64 | KID | KFloat.
(** string / wamp.URI / []byte *)
Inductive skind := SStr | SURI | SBytes.

Inductive value :=
| VNull
| VBool (b : bool)
| VInt (k : ikind) (z : Z)        (* KFloat: a float64 holding the integer z *)
| VStr (k : skind) (s : string)
| VList (l : list value)
| VDict (d : list (string * value)).

Definition dict := list (string * value).

Definition vstr (s : string) : value := VStr SStr s.
Definition vuri (s : string) : value := VStr SURI s.
Definition vid (n : N) : value := VInt KID (Z.of_N n).
Definition vnat (n : N) : value := VInt KInt (Z.of_N n).

(** ** Association lists *)
Section Assoc.
  Context {K V : Type} (eqb : K -> K -> bool).
  Fixpoint aget (l : list (K * V)) (k : K) : option V :=
    match l with
    | [] => None
    | (k', v) :: r => if eqb k k' then Some v else aget r k
    end.
  Fixpoint aset (l : list (K * V)) (k : K) (v : V) : list (K * V) :=
    match l with
    | [] => [(k, v)]
    | (k', v') :: r => if eqb k k' then (k', v) :: r else (k', v') :: aset r k v
    end.
  Fixpoint adel (l : list (K * V)) (k : K) : list (K * V) :=
    match l with
    | [] => []
    | (k', v') :: r => if eqb k k' then adel r k else (k', v') :: adel r k
    end.
  Definition amem (l : list (K * V)) (k : K) : bool :=
    match aget l k with Some _ => true | None => false end.
End Assoc.

Definition pair_eqb (a b : N * N) : bool := (fst a =? fst b) && (snd a =? snd b).

Definition dget (d : dict) (k : string) : option value := aget String.eqb d k.
Definition dset (d : dict) (k : string) (v : value) : dict := aset String.eqb d k v.
Definition ddel (d : dict) (k : string) : dict := adel String.eqb d k.
Definition dhas (d : dict) (k : string) : bool := amem String.eqb d k.
(** maps.Copy semantics: every pair of [src] written into [dst] *)
Definition dmerge (dst src : dict) : dict := fold_left (fun a kv => dset a (fst kv) (snd kv)) src dst.

Definition nmem (x : N) (l : list N) : bool := existsb (N.eqb x) l.
Definition nremove (x : N) (l : list N) : list N := filter (fun y => negb (N.eqb x y)) l.
(** remove the first occurrence only (dealer.syncDelCalleeReg) *)
Fixpoint nremove1 (x : N) (l : list N) : list N :=
  match l with
  | [] => []
  | y :: r => if N.eqb x y then r else y :: nremove1 x r
  end.
Definition smem (x : string) (l : list string) : bool := existsb (String.eqb x) l.

(** ** wamp/convert.go *)
Definition two63 : Z := 9223372036854775808%Z.
Definition two64 : Z := 18446744073709551616%Z.
Definition max_id : Z := 9007199254740992%Z.      (* 1 << 53 *)
Definition max_idN : N := 9007199254740992.

(** int64(v) for each dynamic kind.  uint64 wraps; an out-of-range float64
    converts to the amd64 "integer indefinite" value. *)
Definition to_int64 (k : ikind) (z : Z) : Z :=
  match k with
  | KFloat => if ((- two63 <=? z) && (z <? two63))%Z then z else (- two63)%Z
  | _ => ((z + two63) mod two64 - two63)%Z
  end.

Definition as_int64 (v : value) : option Z :=
  match v with VInt k z => Some (to_int64 k z) | _ => None end.

Definition as_id (v : value) : option N :=
  match as_int64 v with
  | Some i => if ((0 <? i) && (i <=? max_id))%Z then Some (Z.to_N i) else None
  | None => None
  end.

Definition as_string (v : value) : option string :=
  match v with VStr _ s => Some s | _ => None end.
Definition opt_string (d : dict) (k : string) : string :=
  match dget d k with Some v => match as_string v with Some s => s | None => "" end | None => "" end.
(** [x, _ := d[k].(bool)] *)
Definition opt_bool (d : dict) (k : string) : bool :=
  match dget d k with Some (VBool b) => b | _ => false end.
(** [s, _ := d[k].(string)] — only a Go string, not URI or []byte *)
Definition opt_gostring (d : dict) (k : string) : string :=
  match dget d k with Some (VStr SStr s) => s | _ => "" end.
Definition as_list (v : value) : option (list value) :=
  match v with VList l => Some l | VNull => Some [] | _ => None end.
Definition as_dict (v : value) : option dict :=
  match v with VDict d => Some d | VNull => Some [] | _ => None end.
Definition opt_int64 (d : dict) (k : string) : Z :=
  match dget d k with Some v => match as_int64 v with Some i => i | None => 0%Z end | None => 0%Z end.

Fixpoint list_to_strings (l : list value) : option (list string) :=
  match l with
  | [] => Some []
  | v :: r => match as_string v, list_to_strings r with
              | Some s, Some t => Some (s :: t)
              | _, _ => None
              end
  end.

(** ** wamp/identifier.go — the URI rule (C19 proves the regular expressions
    in the source decide exactly this rule) and matching *)
Definition ascii_eqb (a b : ascii) : bool := Ascii.eqb a b.
Definition dot : ascii := "."%char.

(** strings.Split(s, ".") *)
Fixpoint split_dot_aux (s : string) (cur : string) : list string :=
  match s with
  | EmptyString => [cur]
  | String c r => if ascii_eqb c dot then cur :: split_dot_aux r EmptyString
                  else split_dot_aux r (String.append cur (String c EmptyString))
  end.
Definition split_dot (s : string) : list string := split_dot_aux s EmptyString.

Definition is_space (c : ascii) : bool :=
  let n := N_of_ascii c in (n =? 9) || (n =? 10) || (n =? 12) || (n =? 13) || (n =? 32).
Definition loose_char (c : ascii) : bool :=
  negb (is_space c) && negb (ascii_eqb c dot) && negb (ascii_eqb c "#"%char).
Definition strict_char (c : ascii) : bool :=
  let n := N_of_ascii c in
  ((48 <=? n) && (n <=? 57)) || ((97 <=? n) && (n <=? 122)) || (n =? 95).

Fixpoint forall_chars (p : ascii -> bool) (s : string) : bool :=
  match s with EmptyString => true | String c r => p c && forall_chars p r end.
Definition nonempty (s : string) : bool := match s with EmptyString => false | _ => true end.

Fixpoint all_but_last_nonempty (l : list string) : bool :=
  match l with
  | [] => true
  | [_] => true
  | c :: r => nonempty c && all_but_last_nonempty r
  end.

Definition match_prefix := "prefix".
Definition match_wildcard := "wildcard".
Definition match_exact := "exact".

Definition valid_uri (strict : bool) (m : string) (u : string) : bool :=
  let comps := split_dot u in
  forallb (forall_chars (if strict then strict_char else loose_char)) comps &&
  (if String.eqb m match_wildcard then true
   else if String.eqb m match_prefix then all_but_last_nonempty comps
   else forallb nonempty comps).

Definition prefix_match (u p : string) : bool := String.prefix p u.

Fixpoint wc_parts_match (wc parts : list string) : bool :=
  match wc, parts with
  | [], [] => true
  | w :: wr, p :: pr => (negb (nonempty w) || String.eqb w p) && wc_parts_match wr pr
  | _, _ => false
  end.
Definition wildcard_match (u wc : string) : bool :=
  wc_parts_match (split_dot wc) (split_dot u).

Definition slen (s : string) : N := N.of_nat (String.length s).

(** wamp.IDGen.Next on the stored counter *)
Definition idgen_next (n : N) : N := if (n + 1 <=? max_idN) then n + 1 else 1.
