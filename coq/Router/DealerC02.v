(** * Dealer proofs, part 11: the C02 statements assembled. *)
From Nexus Require Import Router.Realm Router.DealerLib Router.DealerProofs Router.DealerReg
     Router.DealerCall Router.DealerWfCalls Router.DealerWfRegs Router.DealerWf Router.DealerRemove
     Router.DealerReply Router.DealerTimers Router.DealerOwned Router.DealerExamples.

(** Every RESULT / ERROR(CALL) a dealer function sends is the reply of a call
    recorded before the function ran (or, for [call], the refusal of the CALL
    being processed); a final one leaves the call unrecorded. *)
Theorem reply_owned_proof : forall lookup d,
    dealer_wf lookup d ->
    (forall lk caller req opts m, In m (snd (cancel lk d caller req opts)) ->
        owned_reply d (fst (cancel lk d caller req opts)) m) /\
    (forall callee req det err args kw m, In m (snd (sync_error d callee req det err args kw)) ->
        owned_reply d (fst (sync_error d callee req det err args kw)) m) /\
    (forall lk now m, In m (snd (fire_timers lk now d)) -> owned_reply d (fst (fire_timers lk now d)) m) /\
    (forall lk sid m, In m (snd (fst (dealer_remove_session lk d sid))) ->
        owned_reply d (fst (fst (dealer_remove_session lk d sid))) m) /\
    (* YIELD: the final reply (RESULT, or ERROR(CALL) for an undeliverable passthru result) consumes the call *)
    (forall lk callee req opts args kw m, In m (snd (sync_yield lk d callee req opts args kw)) ->
        forall cid fin, reply_of m = Some (cid, fin) ->
          cget (d_calls d) cid = Some (fst cid) /\
          exists inv, cget (d_invs d) (callee, req) = Some inv /\ inv_call inv = cid /\
                      fin = negb (opt_bool opts "progress") /\
                      (fin = true ->
                       cget (d_calls (fst (sync_yield lk d callee req opts args kw))) cid = None)) /\
    (* CALL: only refusals of the CALL being processed; every refusal leaves that call unrecorded
       (a refused further chunk ends the pending call; a refused first chunk changes no call table) *)
    (forall cfg now caller req opts proc args kw oracle m,
        In m (call_out (call cfg lookup now d caller req opts proc args kw oracle)) ->
        forall cid fin, reply_of m = Some (cid, fin) ->
          cid = (s_id caller, req) /\ fin = true /\
          exists d', call cfg lookup now d caller req opts proc args kw oracle = CallRefused d' [m] /\
                     cget (d_calls d') cid = None /\
                     (forall k, cget (d_bycall d) cid = Some k -> gone d' cid k) /\
                     (cget (d_bycall d) cid = None ->
                      d_calls d' = d_calls d /\ d_invs d' = d_invs d /\ d_bycall d' = d_bycall d)) /\
    (forall cfg callee req opts proc m, In m (snd (fst (register cfg d callee req opts proc))) -> reply_of m = None) /\
    (forall sid req regid m, In m (snd (fst (unregister d sid req regid))) -> reply_of m = None).
Proof.
  intros lookup d WF. split; [|split; [|split; [|split; [|split; [|split; [|split]]]]]].
  - intros. eapply cancel_replies; eauto.
  - intros. eapply error_replies; eauto.
  - intros. eapply fire_timers_replies; eauto.
  - intros. eapply remove_session_replies; eauto.
  - intros. eapply yield_replies; eauto.
  - intros. eapply call_replies; eauto.
  - intros. eapply register_no_reply; eauto.
  - intros. eapply unregister_no_reply; eauto.
Qed.

(** CANCEL skip / killnowait / default by the owner: the final reply is in the output *)
Theorem prompt_cancel_proof : forall lookup d caller req opts ikey inv x,
    opt_string opts "mode" = "skip" \/ opt_string opts "mode" = "killnowait" \/ opt_string opts "mode" = "" ->
    pending d (caller, req) ikey inv x -> inv_canceled inv = false ->
    In (caller, RError c_CALL req [] e_canceled [] []) (snd (cancel lookup d caller req opts)) /\
    gone (fst (cancel lookup d caller req opts)) (caller, req) ikey.
Proof.
  intros lookup d caller req opts ikey inv x [Hm|Hm] Hp Hc.
  - destruct (cancel_skip_proof lookup d caller req opts ikey inv x Hm Hp Hc) as (d' & E & _ & G).
    rewrite E. cbn [fst snd]. split; [left; reflexivity | exact G].
  - destruct (cancel_killnowait_proof lookup d caller req opts ikey inv x Hm Hp Hc) as (d' & E & _ & G).
    rewrite E. cbn [fst snd]. split; [apply in_or_app; right; left; reflexivity | exact G].
Qed.

(** A CALL answered no_such_procedure — first chunk or further chunk of a
    pending progressive call — leaves nothing recorded for that request: the
    ERROR is the final reply (the repaired defect; run:
    Router/DealerExamples.v, [chunk_refusal_ends_call]). *)
Theorem refused_chunk_ends_call_proof : forall cfg lookup now d caller req opts proc args kw oracle d' o,
    dealer_wf lookup d ->
    call cfg lookup now d caller req opts proc args kw oracle = CallRefused d' o ->
    In (s_id caller, RError c_CALL req [] e_no_such_procedure [] []) o ->
    let cid := (s_id caller, req) in
    o = [(s_id caller, RError c_CALL req [] e_no_such_procedure [] [])] /\
    dealer_wf lookup d' /\
    cget (d_calls d') cid = None /\ cget (d_bycall d') cid = None /\
    (forall k, cget (d_bycall d) cid = Some k -> gone d' cid k) /\
    (cget (d_bycall d) cid = None -> d' = d).
Proof.
  intros cfg lookup now d caller req opts proc args kw oracle d' o WF E Hin cid.
  assert (Hnone : cget (d_bycall d) cid = None -> cget (d_calls d) cid = None).
  { intros Hb. destruct (cget (d_calls d) cid) eqn:Ec; [|reflexivity].
    destruct (wf_call lookup d WF _ _ Ec) as (_ & _ & Hn). congruence. }
  assert (Hnps : o = [(s_id caller, RError c_CALL req [] e_no_such_procedure [] [])] ->
                 d' = no_proc_state d cid ->
                 o = [(s_id caller, RError c_CALL req [] e_no_such_procedure [] [])] /\
                 dealer_wf lookup d' /\ cget (d_calls d') cid = None /\ cget (d_bycall d') cid = None /\
                 (forall k, cget (d_bycall d) cid = Some k -> gone d' cid k) /\
                 (cget (d_bycall d) cid = None -> d' = d)).
  { intros Eo ->. split; [exact Eo|]. split; [apply nps_wf; exact WF|].
    destruct (cget (d_bycall d) cid) as [k|] eqn:Hb.
    - destruct (nps_gone d cid k Hb) as (G1 & G2 & G3).
      split; [exact G1|]. split; [exact G2|]. split; [|discriminate].
      intros k' Hk. inversion Hk; subst k'. unfold gone. auto.
    - rewrite nps_none by exact Hb.
      split; [auto|]. split; [exact Hb|]. split; [discriminate | auto]. }
  pose proof (call_cases cfg lookup now d caller req opts proc args kw oracle) as H.
  rewrite E in H.
  inversion H; subst; try (destruct Hin as [Hm|[]]; try discriminate Hm); try (destruct Hin; fail).
  - apply Hnps; reflexivity.
  - apply Hnps; reflexivity.
  - apply Hnps; [reflexivity|]. symmetry. apply nps_none. assumption.
  - apply Hnps; [reflexivity|]. symmetry. apply nps_none. assumption.
Qed.
