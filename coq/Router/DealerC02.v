(** * Dealer proofs, part 11: the C02 statements assembled. *)
From Nexus Require Import Router.Realm Router.DealerLib Router.DealerProofs Router.DealerReg
     Router.DealerCall Router.DealerWfCalls Router.DealerWfRegs Router.DealerWf Router.DealerRemove
     Router.DealerReply Router.DealerTimers Router.DealerOwned Router.DealerExamples.

(** Every RESULT / ERROR(CALL) a dealer function sends is the reply of a call
    recorded before the function ran (or, for [call], the refusal of the CALL
    being processed); a final one leaves the call unrecorded. *)
Theorem reply_owned_proof : forall lookup d,
    dealer_wf lookup d ->
    (forall lk caller req opts m, In m (snd (cancel lk d caller req opts)) ->
        owned_reply d (fst (cancel lk d caller req opts)) m) /\
    (forall callee req det err args kw m, In m (snd (sync_error d callee req det err args kw)) ->
        owned_reply d (fst (sync_error d callee req det err args kw)) m) /\
    (forall lk now m, In m (snd (fire_timers lk now d)) -> owned_reply d (fst (fire_timers lk now d)) m) /\
    (forall lk sid m, In m (snd (fst (dealer_remove_session lk d sid))) ->
        owned_reply d (fst (fst (dealer_remove_session lk d sid))) m) /\
    (* YIELD: a final RESULT consumes the call unless the caller is still sending chunks *)
    (forall callee req opts args kw m, In m (snd (sync_yield d callee req opts args kw)) ->
        forall cid fin, reply_of m = Some (cid, fin) ->
          cget (d_calls d) cid = Some (fst cid) /\
          exists inv, cget (d_invs d) (callee, req) = Some inv /\ inv_call inv = cid /\
                      fin = negb (opt_bool opts "progress") /\
                      (fin = true -> inv_inprogress inv = false ->
                       cget (d_calls (fst (sync_yield d callee req opts args kw))) cid = None)) /\
    (* CALL: only refusals of the CALL being processed; nothing was or is recorded for a first chunk *)
    (forall cfg now caller req opts proc args kw oracle m,
        In m (call_out (call cfg lookup now d caller req opts proc args kw oracle)) ->
        forall cid fin, reply_of m = Some (cid, fin) ->
          cid = (s_id caller, req) /\ fin = true /\
          exists d', call cfg lookup now d caller req opts proc args kw oracle = CallRefused d' [m] /\
                     d_calls d' = d_calls d /\ d_invs d' = d_invs d /\ d_bycall d' = d_bycall d /\
                     (cget (d_bycall d) cid = None -> cget (d_calls d') cid = None)) /\
    (forall cfg callee req opts proc m, In m (snd (fst (register cfg d callee req opts proc))) -> reply_of m = None) /\
    (forall sid req regid m, In m (snd (fst (unregister d sid req regid))) -> reply_of m = None).
Proof.
  intros lookup d WF. split; [|split; [|split; [|split; [|split; [|split; [|split]]]]]].
  - intros. eapply cancel_replies; eauto.
  - intros. eapply error_replies; eauto.
  - intros. eapply fire_timers_replies; eauto.
  - intros. eapply remove_session_replies; eauto.
  - intros. eapply yield_replies; eauto.
  - intros. eapply call_replies; eauto.
  - intros. eapply register_no_reply; eauto.
  - intros. eapply unregister_no_reply; eauto.
Qed.

(** CANCEL skip / killnowait / default by the owner: the final reply is in the output *)
Theorem prompt_cancel_proof : forall lookup d caller req opts ikey inv x,
    opt_string opts "mode" = "skip" \/ opt_string opts "mode" = "killnowait" \/ opt_string opts "mode" = "" ->
    pending d (caller, req) ikey inv x -> inv_canceled inv = false ->
    In (caller, RError c_CALL req [] e_canceled [] []) (snd (cancel lookup d caller req opts)) /\
    gone (fst (cancel lookup d caller req opts)) (caller, req) ikey.
Proof.
  intros lookup d caller req opts ikey inv x [Hm|Hm] Hp Hc.
  - destruct (cancel_skip_proof lookup d caller req opts ikey inv x Hm Hp Hc) as (d' & E & _ & G).
    rewrite E. cbn [fst snd]. split; [left; reflexivity | exact G].
  - destruct (cancel_killnowait_proof lookup d caller req opts ikey inv x Hm Hp Hc) as (d' & E & _ & G).
    rewrite E. cbn [fst snd]. split; [apply in_or_app; right; left; reflexivity | exact G].
Qed.

(** The one place where a final reply does not consume the call: a further
    chunk of a progressive call whose procedure has meanwhile disappeared is
    refused with no_such_procedure although the call stays recorded; the
    callee's answer then produces a second final reply for the same request
    (run: Router/DealerExamples.v, [chunk_refusal_keeps_call]). *)
Theorem final_reply_consumes_call_refuted :
    exists cfg lookup now d caller req opts proc args kw oracle d' m,
      dealer_wf lookup d /\
      call cfg lookup now d caller req opts proc args kw oracle = CallRefused d' [m] /\
      reply_of m = Some ((s_id caller, req), true) /\
      cget (d_calls d') (s_id caller, req) = Some (s_id caller) /\
      exists callee ireq, snd (sync_yield d' callee ireq [] [] []) = [(s_id caller, RResult req [] [] [])].
Proof.
  exists cfg0, (lk 1 0), 6, dp2, s10, 9, [], "net.solo", [], [], 0, dp2,
         (10, RError c_CALL 9 [] e_no_such_procedure [] []).
  split.
  - (* dp2 is reached by REGISTER, CALL, UNREGISTER *)
    unfold dp2. apply unregister_wf.
    pose proof (call_wf cfg0 (lk 0 0) 5 d2s s10 9 prog_opts "net.solo" [] [] 0 wf_d2s (lk_ok 0 0)) as H.
    assert (E : pc1 = CallInvoked dp1 (set_invgen s11 1) [(11, RInvocation 1 23 [("progress", VBool true); ("procedure", vuri "net.solo")] [] [])])
      by (vm_compute; reflexivity).
    unfold pc1 in E. rewrite E in H. destruct H as [_ H].
    + apply lk_nowrap; vm_compute; reflexivity.
    + apply att; cbn; auto.
    + apply H; [apply lk_le; vm_compute; discriminate | reflexivity].
  - split; [vm_compute; reflexivity|]. split; [reflexivity|]. split; [vm_compute; reflexivity|].
    exists 11, 1. vm_compute. reflexivity.
Qed.
