(** * Histories, broker side: concrete histories (C01, C20), by [vm_compute].
    - [SubEx]: sessions 10 and 11 subscribe to "t" (10 also to the prefix
      "wamp."), 12 publishes (both get the EVENT, 12 the PUBLISHED), 11
      unsubscribes (10 sees the meta event), 12 publishes (10 only), 10 is
      dropped, 12 publishes (nobody).  The hypotheses of the C01 history
      theorems hold; the monitors of (11, 1) and (10, 1) end with the flag
      clear; the publication ids are 9, 9, 9, 10, 11, 17 (the
      departure of 10 draws on_unsubscribe and on_delete ids for its two
      subscriptions and one for on_leave).
    - [SwapEx]: an authorizer that turns UNSUBSCRIBE of subscription 1 into
      UNSUBSCRIBE of subscription 2: the client is told UNSUBSCRIBED and still
      gets the EVENT of subscription 1 — the statement without the gate
      hypothesis is false of the model.
    - [HistEx]: two configured history subscriptions ("h.t" exact, limit 2;
      "wamp.session" prefix, limit 3).  Publications to "h.t": by a client
      (ids 4, 6; a restricted one, id 5, not stored), by the meta session (the
      testament of the dropped session 11, id 9), by a client again (id 11):
      reference list [4; 6; 9; 11], store [9; 11] (the ring wrapped), while
      the only subscriber unsubscribed in between.  The session meta events
      on_join (ids 1, 2) and on_leave (id 10) fill the second store exactly.
      [get_events] with limit 1 returns publication 11. *)
From Nexus Require Import Router.Realm Router.RealmProofs Router.RealmMetaProofs Router.RealmWf Router.RealmStep.
From Nexus Require Import Router.BrokerWf Router.BrokerRun Router.BrokerHist Router.BrokerPublish.
From Nexus Require Import Router.RealmTraceLib Router.RealmTrace Router.RealmTraceEx.
From Nexus Require Import Router.RealmTraceC01Seg Router.RealmTraceC01Mon Router.RealmTraceC01Ok Router.RealmTraceC01Sub
     Router.RealmTraceC01Pub Router.RealmTraceC01PubH Router.RealmTraceC20Store.
From Coq Require Import Lia.

Module SubEx.
  Definition cfg0 : config := mkConfig false false false true true false [] None.
  Definition pub1 := OMsg 12 (CPublish 5 [("acknowledge", VBool true)] "t" [vnat 1] []) 0.
  Definition pre5 : list op :=
    [OJoin 10 false hello_all; OJoin 11 false hello_all; OJoin 12 false hello_all;
     OMsg 10 (CSubscribe 1 [] "t") 0;
     OMsg 11 (CSubscribe 1 [] "t") 0;
     OMsg 10 (CSubscribe 2 [("match", vstr "prefix")] "wamp.") 0].
  Definition ops0 : list op :=
    pre5 ++
    [pub1;
     OMsg 11 (CUnsubscribe 2 1) 0;
     OMsg 12 (CPublish 6 [] "t" [vnat 2] []) 0;
     ODrop 10;
     OMsg 12 (CPublish 7 [("acknowledge", VBool true)] "t" [vnat 3] []) 0].

  Lemma hyps : Forall op_ok ops0 /\ k0 cfg0 + N.of_nat (List.length ops0) <= max_idN /\
               along gate_unsub_id (init_realm cfg0) ops0.
  Proof.
    split; [unfold ops0, pre5; cbn [app]; ops_ok|]. split; [apply N.leb_le; reflexivity|].
    apply gate_unsub_id_no_authz. reflexivity.
  Qed.

  Lemma outs : snd (run (init_realm cfg0) ops0) =
    [[]; []; []; [(10, RSubscribed 1 1)]; [(11, RSubscribed 1 1)]; [(10, RSubscribed 2 2)];
     [(10, REvent 1 9 [] [vnat 1] []); (11, REvent 1 9 [] [vnat 1] []); (12, RPublished 5 9)];
     [(11, RUnsubscribed 2);
      (10, REvent 2 10 [("topic", vuri t_sub_on_unsubscribe)] [vid 11; vid 1] [])];
     [(10, REvent 1 11 [] [vnat 2] [])];
     [];
     [(12, RPublished 7 17)]].
  Proof. vm_compute. reflexivity. Qed.

  (** an EVENT for subscription 1 sent to 11, as in the theorem's hypothesis *)
  Lemma pattern : exists pre post,
      trace cfg0 ops0 = pre ++ EOut (11, REvent 1 9 [] [vnat 1] []) :: post /\
      is_evt 11 1 (EOut (11, REvent 1 9 [] [vnat 1] [])) = true /\
      In (EOut (11, RSubscribed 1 1)) pre.
  Proof.
    exists (firstn 11 (trace cfg0 ops0)), (skipn 12 (trace cfg0 ops0)).
    split; [vm_compute; reflexivity|]. split; [reflexivity|]. vm_compute. tauto.
  Qed.

  (** both monitors end with the flag clear: 11 unsubscribed, 10 was dropped *)
  Lemma monitors :
      option_map fst (sm_run 11 1 (false, None) (trace cfg0 ops0)) = Some false /\
      option_map fst (sm_run 10 1 (false, None) (trace cfg0 ops0)) = Some false /\
      option_map fst (sm_run 10 1 (false, None) (trace cfg0 (pre5 ++ [pub1]))) = Some true.
  Proof. vm_compute. repeat split. Qed.

  (** exact delivery: the state after [pre5], the PUBLISH of 12 *)
  Definition r5 : realm := fst (run (init_realm cfg0) pre5).
  Definition s12 : session := mkSession 12 false hello_all (join_details 12 false hello_all) 0.
  Lemma publish_hyps :
      Forall op_ok pre5 /\ k0 cfg0 + N.of_nat (List.length pre5) <= max_idN /\
      find_session (r_clients r5) 12 = Some s12 /\
      pub_accepted cfg0 s12 [("acknowledge", VBool true)] "t" /\
      r_pubgen r5 = 8 /\
      snd (step r5 pub1) = [(10, REvent 1 9 [] [vnat 1] []); (11, REvent 1 9 [] [vnat 1] []); (12, RPublished 5 9)].
  Proof.
    split; [unfold pre5; ops_ok|]. split; [apply N.leb_le; reflexivity|].
    split; [vm_compute; reflexivity|]. split; [repeat split; try reflexivity; discriminate|].
    split; vm_compute; reflexivity.
  Qed.

  Lemma ids : pubids (tr_outs (trace cfg0 ops0)) = [9; 9; 9; 10; 11; 17].
  Proof. vm_compute. reflexivity. Qed.
End SubEx.

Module SwapEx.
  Definition swap_unsub : N -> bool -> dict -> cmsg -> adecision :=
    fun _ _ _ m => match m with CUnsubscribe q 1 => AAllow (CUnsubscribe q 2) | _ => AAllow m end.
  Definition cfgA : config := mkConfig false false false false false false [] (Some swap_unsub).
  Definition opsA : list op :=
    [OJoin 11 false hello_all; OJoin 12 false hello_all;
     OMsg 11 (CSubscribe 1 [] "t") 0; OMsg 11 (CSubscribe 2 [] "u") 0;
     OMsg 11 (CUnsubscribe 3 1) 0;
     OMsg 12 (CPublish 4 [] "t" [vnat 1] []) 0].

  Lemma outs : snd (run (init_realm cfgA) opsA) =
    [[]; []; [(11, RSubscribed 1 1)]; [(11, RSubscribed 2 2)]; [(11, RUnsubscribed 3)];
     [(11, REvent 1 9 [] [vnat 1] [])]].
  Proof. vm_compute. reflexivity. Qed.

  Theorem sub_discipline_refuted :
      exists cfg ops y sub,
        Forall op_ok ops /\ k0 cfg + N.of_nat (List.length ops) <= max_idN /\
        sm_run y sub (false, None) (trace cfg ops) = None.
  Proof.
    exists cfgA, opsA, 11, 1. split; [unfold opsA; ops_ok|]. split; [apply N.leb_le; reflexivity|].
    vm_compute. reflexivity.
  Qed.

  Lemma not_unsub_id : ~ along gate_unsub_id (init_realm cfgA) opsA.
  Proof.
    intros G. pose proof hello_all as _.
    assert (F : sm_run 11 1 (false, None) (trace cfgA opsA) <> None).
    { apply realm_sub_discipline_proof; [unfold opsA; ops_ok|apply N.leb_le; reflexivity|exact G]. }
    apply F. vm_compute. reflexivity.
  Qed.
End SwapEx.

Module HistEx.
  Definition cfgH : config := mkConfig false false false true true false
     [mkHistCfg "h.t" "exact" 2; mkHistCfg "wamp.session" "prefix" 3] None.
  Definition opsH : list op :=
    [OJoin 10 false hello_all; OJoin 11 false hello_all;
     OMsg 10 (CSubscribe 1 [] "h.t") 0;
     OMsg 11 (CPublish 1 [] "h.t" [vnat 1] []) 0;
     OMsg 11 (CPublish 2 [("exclude", VList [vid 10])] "h.t" [vnat 2] []) 0;
     OMsg 11 (CPublish 3 [] "h.t" [vnat 3] []) 0;
     OMsg 10 (CUnsubscribe 2 1) 0;
     OMsg 11 (CCall 4 [] "wamp.session.add_testament" [vstr "h.t"; VList [vnat 4]; VDict []] []) 0;
     OMsg 11 (CPublish 5 [] "other" [vnat 5] []) 0;
     ODrop 11;
     OTick 5;
     OMsg 10 (CPublish 6 [("exclude_me", VBool false)] "h.t" [vnat 6] []) 0].
  Definition rH : realm := fst (run (init_realm cfgH) opsH).

  Lemma hyps : Forall op_ok opsH /\ k0 cfgH + N.of_nat (List.length opsH) <= max_idN /\
               Forall (fun c => 1 <= hc_limit c) (c_hist cfgH).
  Proof.
    split; [unfold opsH; ops_ok|]. split; [apply N.leb_le; reflexivity|].
    repeat constructor; apply N.leb_le; reflexivity.
  Qed.

  Lemma outs : snd (run (init_realm cfgH) opsH) =
    [[]; []; [(10, RSubscribed 1 1)]; [(10, REvent 1 4 [] [vnat 1] [])]; [];
     [(10, REvent 1 6 [] [vnat 3] [])]; [(10, RUnsubscribed 2)]; [(11, RResult 4 [] [] [])]; []; []; []; []].
  Proof. vm_compute. reflexivity. Qed.

  (** the reference lists and the stores: the first ring wrapped (4 matching
      unrestricted publications, limit 2), the second is exactly full *)
  Lemma stores :
      map h_pub (hist_ref cfgH 1 "h.t" MExact (realm_pubs cfgH opsH)) = [4; 6; 9; 11] /\
      option_map (fun st => map h_pub (hs_entries st)) (nget (b_hist (r_broker rH)) 1) = Some [9; 11] /\
      map h_pub (hist_ref cfgH 2 "wamp.session" MPrefix (realm_pubs cfgH opsH)) = [1; 2; 10] /\
      option_map (fun st => map h_pub (hs_entries st)) (nget (b_hist (r_broker rH)) 2) = Some [1; 2; 10] /\
      (* the publication with the [exclude] key (id 5) reached subscriber nobody and no store *)
      option_map sub_subs (nget (b_subs (r_broker rH)) 1) = Some [].
  Proof. vm_compute. repeat split. Qed.

  (** who published: clients (session 11, then 10) and the meta session (the testament) *)
  Lemma publishers :
      map (fun o => match o with BPublish _ _ _ pub _ _ topic _ _ => (s_id pub, topic) | _ => (0, "") end)
          (filter is_publish (realm_pubs cfgH opsH)) =
      [(1, t_on_join); (1, t_on_join);
       (11, "h.t"); (11, "h.t"); (11, "h.t"); (11, "other"); (1, "h.t"); (1, t_on_leave); (10, "h.t")].
  Proof. vm_compute. reflexivity. Qed.

  Lemma get_events :
      resp_of (meta_call rH "wamp.subscription.get_events" [] [vid 1] [("limit", vnat 1)] 0) =
      MYield [VDict [("Subscription", vid 1); ("Publication", vid 11); ("Details", VDict []);
                     ("Arguments", VList [vnat 6]); ("ArgumentsKw", VDict [])]]
             [("is_limit_reached", VBool true)] /\
      snd (step rH (OMsg 10 (CCall 9 [] "wamp.subscription.get_events" [vid 1] [("limit", vnat 1)]) 0)) =
      [(10, RResult 9 []
              [VDict [("Subscription", vid 1); ("Publication", vid 11); ("Details", VDict []);
                      ("Arguments", VList [vnat 6]); ("ArgumentsKw", VDict [])]]
              [("is_limit_reached", VBool true)])].
  Proof. vm_compute. split; reflexivity. Qed.
End HistEx.
